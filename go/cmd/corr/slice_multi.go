package main

import (
	"encoding/hex"
	"fmt"
	"io"
	"math"
	"math/rand"
	"strconv"
	"strings"
	"time"

	"github.com/bluenviron/gohlslib/v2/pkg/playlist"
	"github.com/bluenviron/gohlslib/v2/pkg/playlist/primitives"
)

// multi slice (C14 / C15, multivariant half + lexical primitives): drives
// pkg/playlist.Multivariant, playlist.Unmarshal and pkg/playlist/primitives through
// their public API. Protocol: see lean/Drv/Multi.lean.

type multiSlice struct{}

func init() { register(multiSlice{}) }

func (multiSlice) Name() string { return "multi" }

func (multiSlice) NewRunner() Runner { return &multiRunner{} }

// ---------------------------------------------------------------------------------------------
// runner

type multiRunner struct {
	fails   []string
	lastDec string // canonical decoded value of the last `mar` op (reference for `unmv`)
}

func (r *multiRunner) Close() {}

func (r *multiRunner) Oracle() []string { return r.fails }

// fail records a direct violation; the message is kept ASCII (the check reads the file as UTF-8).
func (r *multiRunner) fail(prop, format string, a ...any) {
	msg := fmt.Sprintf(format, a...)
	var b strings.Builder
	for i := 0; i < len(msg); i++ {
		if c := msg[i]; c >= 0x20 && c < 0x7f {
			b.WriteByte(c)
		} else {
			fmt.Fprintf(&b, "\\x%02x", c)
		}
	}
	r.fails = append(r.fails, prop+": "+b.String())
}

func mustUnhex(h string) []byte {
	if h == "-" {
		return nil
	}
	b, err := hex.DecodeString(h)
	if err != nil {
		panic("bad hex in op: " + err.Error())
	}
	return b
}

// guarded runs f; a panic of the code under test is a C15 violation and the observation `panic:`.
func (r *multiRunner) guarded(op string, f func() string) (out string) {
	defer func() {
		if e := recover(); e != nil {
			r.fail("C15", "panic in %s: %v", op, e)
			out = fmt.Sprintf("panic:%v", e)
		}
	}()
	return f()
}

// checkStructure: C15 "whenever Unmarshal succeeds the returned playlist has the structure
// callers index into without checking … and can be marshaled again".
func (r *multiRunner) checkStructure(op string, m *playlist.Multivariant) {
	if len(m.Variants) == 0 {
		r.fail("C15", "%s: decoded playlist has no variant", op)
	}
	for i, v := range m.Variants {
		if v == nil || v.URI == "" {
			r.fail("C15", "%s: variant %d has an empty URI", op, i)
		}
	}
	for i, x := range m.Renditions {
		if x == nil {
			r.fail("C15", "%s: nil rendition %d", op, i)
			continue
		}
		switch x.Type {
		case playlist.MultivariantRenditionTypeAudio, playlist.MultivariantRenditionTypeVideo,
			playlist.MultivariantRenditionTypeSubtitles, playlist.MultivariantRenditionTypeClosedCaptions:
		default:
			r.fail("C15", "%s: rendition %d has unknown type %q", op, i, x.Type)
		}
		if x.GroupID == "" {
			r.fail("C15", "%s: rendition %d has no GROUP-ID", op, i)
		}
	}
	if m.Start != nil && m.Start.TimeOffset == 0 {
		r.fail("C15", "%s: EXT-X-START with zero TIME-OFFSET", op)
	}
	func() {
		defer func() {
			if e := recover(); e != nil {
				r.fail("C15", "%s: re-Marshal of the decoded value panicked: %v", op, e)
			}
		}()
		if _, err := m.Marshal(); err != nil {
			r.fail("C15", "%s: re-Marshal of the decoded value failed: %v", op, err)
		}
	}()
}

func (r *multiRunner) unmarshalObs(op string, b []byte) (string, *playlist.Multivariant) {
	var m playlist.Multivariant
	err := m.Unmarshal(b)
	if err != nil {
		return "err:" + multiErrClass(err), nil
	}
	r.checkStructure(op, &m)
	return "ok " + fmtMulti(&m), &m
}

func (r *multiRunner) Step(line string) []string {
	ws := strings.Fields(line)
	if len(ws) == 0 {
		return nil
	}
	bad := []string{"bad-op"}
	switch ws[0] {
	case "rl":
		l, rest := primitives.ReadLine(string(mustUnhex(ws[1])))
		return []string{hx(l) + " " + hx(rest)}

	case "attrs":
		return []string{r.guarded("attrs", func() string {
			var a primitives.Attributes
			if err := a.Unmarshal(string(mustUnhex(ws[1]))); err != nil {
				return "err:" + multiErrClass(err)
			}
			keys := make([]string, 0, len(a))
			for k := range a {
				keys = append(keys, k)
			}
			sortStrings(keys)
			var out []string
			for _, k := range keys {
				out = append(out, hx(k)+"="+hx(a[k]))
			}
			return "ok " + strings.Join(out, ";")
		})}

	case "dur":
		var d primitives.Duration
		if err := d.Unmarshal(string(mustUnhex(ws[1]))); err != nil {
			return []string{"err:" + multiErrClass(err)}
		}
		return []string{"ok " + strconv.FormatInt(int64(d), 10)}

	case "durfmt":
		n, _ := strconv.ParseInt(ws[1], 10, 64)
		return []string{hx(strconv.FormatFloat(time.Duration(n).Seconds(), 'f', 5, 64))}

	case "sec":
		n, _ := strconv.ParseInt(ws[1], 10, 64)
		return []string{strconv.FormatUint(f64bits(time.Duration(n).Seconds()), 10)}

	case "mul9":
		b, _ := strconv.ParseUint(ws[1], 10, 64)
		tmp := math.Float64frombits(b)
		return []string{strconv.FormatInt(int64(time.Duration(tmp*float64(time.Second))), 10)}

	case "pf":
		f, err := strconv.ParseFloat(string(mustUnhex(ws[1])), 64)
		if err != nil {
			return []string{"err:" + multiErrClass(err)}
		}
		return []string{"ok " + strconv.FormatUint(f64bits(f), 10)}

	case "ff":
		p, _ := strconv.Atoi(ws[1])
		b, _ := strconv.ParseUint(ws[2], 10, 64)
		return []string{hx(strconv.FormatFloat(math.Float64frombits(b), 'f', p, 64))}

	case "pu":
		bits, _ := strconv.Atoi(ws[1])
		n, err := strconv.ParseUint(string(mustUnhex(ws[2])), 10, bits)
		if err != nil {
			return []string{"err:" + multiErrClass(err)}
		}
		return []string{"ok " + strconv.FormatUint(n, 10)}

	case "fi":
		n, _ := strconv.ParseInt(ws[1], 10, 64)
		return []string{hx(strconv.FormatInt(n, 10))}

	case "br":
		return []string{r.guarded("br", func() string {
			var b primitives.ByteRange
			if err := b.Unmarshal(string(mustUnhex(ws[1]))); err != nil {
				return "err:" + multiErrClass(err)
			}
			st := "~"
			if b.Start != nil {
				st = strconv.FormatUint(*b.Start, 10)
			}
			return "ok " + strconv.FormatUint(b.Length, 10) + " " + st
		})}

	case "brm":
		l, _ := strconv.ParseUint(ws[1], 10, 64)
		b := primitives.ByteRange{Length: l}
		if ws[2] != "~" {
			s, _ := strconv.ParseUint(ws[2], 10, 64)
			b.Start = &s
		}
		return []string{hx(b.Marshal())}

	case "mar":
		return []string{r.guarded("mar", func() string {
			m, err := parseMulti(ws[1:])
			if err != nil {
				return "bad-op"
			}
			byts, err := m.Marshal()
			if err != nil {
				r.fail("C15", "Marshal failed: %v", err)
				return "err:marshal"
			}
			obs, dec := r.unmarshalObs("mar", byts)
			r.lastDec = obs
			r.oracleRoundTrip(m, byts, dec, obs)
			valid, lexical := multiValid(m)
			return "m=" + hexOrDash(byts) + " u=" + obs + " wf=" + mvalB01(valid) + " lex=" + mvalB01(valid && lexical)
		})}

	case "unm", "unmv":
		return []string{r.guarded(ws[0], func() string {
			obs, _ := r.unmarshalObs(ws[0], mustUnhex(ws[1]))
			if ws[0] == "unmv" && obs != r.lastDec {
				r.fail("C14", "syntactic variant decodes differently: variant %s reference %s text %q", obs, r.lastDec, mustUnhex(ws[1]))
			}
			return obs
		})}

	case "gram":
		if m3uCheck(string(mustUnhex(ws[1])), m3uMultivariant) == nil {
			return []string{"1"}
		}
		return []string{"0"}

	case "pl":
		return []string{r.guarded("pl", func() string {
			pl, err := playlist.Unmarshal(mustUnhex(ws[1]))
			if err == io.EOF {
				return "none"
			}
			if err != nil {
				return "other"
			}
			if m, ok := pl.(*playlist.Multivariant); ok {
				r.checkStructure("pl", m)
				return "multi " + fmtMulti(m)
			}
			return "other"
		})}
	}
	return bad
}

func sortStrings(s []string) {
	for i := 1; i < len(s); i++ {
		for j := i; j > 0 && s[j] < s[j-1]; j-- {
			s[j], s[j-1] = s[j-1], s[j]
		}
	}
}

// ---------------------------------------------------------------------------------------------
// direct oracle for C14 / C15 on `mar`: written from the property text and the field
// documentation of pkg/playlist, independent of the Lean model.

func quotedOK(s string) bool { return !strings.ContainsAny(s, "\"\n\r") }

func isDecimalResolution(s string) bool {
	p := strings.Split(s, "x")
	return len(p) == 2 && m3uIsDigits(p[0], 1, 20) && m3uIsDigits(p[1], 1, 20)
}

const multiMaxOffset = 999999999990000 // just below 10^15 ns (the float envelope's range)

// multiValid: the documented field requirements. lexical = additionally the attribute values
// that the library passes through verbatim have the RFC 8216 lexical class.
func multiValid(m *playlist.Multivariant) (valid, lexical bool) {
	lexical = true
	if m.Version < 0 || m.Version > 10 {
		return false, false
	}
	if m.Start != nil {
		d := int64(m.Start.TimeOffset)
		if d < 0 {
			d = -d
		}
		if d <= 5000 || d > multiMaxOffset {
			return false, false
		}
	}
	if len(m.Variants) == 0 {
		return false, false
	}
	for _, v := range m.Variants {
		if v.Bandwidth < 0 || v.Bandwidth > math.MaxInt32 {
			return false, false
		}
		if v.AverageBandwidth != nil && (*v.AverageBandwidth < 0 || *v.AverageBandwidth > math.MaxInt32) {
			return false, false
		}
		if len(v.Codecs) == 0 {
			return false, false
		}
		for _, c := range v.Codecs {
			if !quotedOK(c) || strings.Contains(c, ",") {
				return false, false
			}
		}
		if v.URI == "" || v.URI[0] == '#' || strings.ContainsAny(v.URI, "\r\n") {
			return false, false
		}
		if v.Resolution != "" {
			if strings.ContainsAny(v.Resolution, ",\r\n") || v.Resolution[0] == '"' {
				return false, false
			}
			if !isDecimalResolution(v.Resolution) {
				lexical = false
			}
		}
		if v.FrameRate != nil {
			f := *v.FrameRate
			if !(f >= 0 && f <= 1e9) || math.Signbit(f) {
				return false, false
			}
			g, err := strconv.ParseFloat(strconv.FormatFloat(f, 'f', 3, 64), 64)
			if err != nil || g != f {
				return false, false // not a 3-decimal value
			}
		}
		if !quotedOK(v.Video) || !quotedOK(v.Audio) || !quotedOK(v.Subtitles) || !quotedOK(v.ClosedCaptions) {
			return false, false
		}
	}
	for _, x := range m.Renditions {
		switch x.Type {
		case playlist.MultivariantRenditionTypeAudio, playlist.MultivariantRenditionTypeVideo:
			if x.InStreamID != nil {
				return false, false
			}
		case playlist.MultivariantRenditionTypeSubtitles:
			if x.URI == nil || x.InStreamID != nil {
				return false, false
			}
		case playlist.MultivariantRenditionTypeClosedCaptions:
			if x.URI != nil || x.InStreamID == nil {
				return false, false
			}
		default:
			return false, false
		}
		if x.Channels != nil && x.Type != playlist.MultivariantRenditionTypeAudio {
			return false, false
		}
		if x.GroupID == "" || x.Name == "" {
			return false, false
		}
		for _, s := range []string{x.GroupID, x.Name, x.Language} {
			if !quotedOK(s) {
				return false, false
			}
		}
		for _, p := range []*string{x.Channels, x.URI, x.InStreamID} {
			if p != nil && !quotedOK(*p) {
				return false, false
			}
		}
	}
	return true, lexical
}

func absInt64(a int64) int64 {
	if a < 0 {
		return -a
	}
	return a
}

// offsetOK: decoded is the original rounded to 10 µs (either neighbour at a tie), give or take
// the 1 ns the float product may lose.
func offsetOK(orig, dec int64) bool {
	lo := orig / 10000 * 10000
	if orig < 0 && lo != orig {
		lo -= 10000
	}
	hi := lo + 10000
	var cands []int64
	switch r := orig - lo; {
	case r < 5000:
		cands = []int64{lo}
	case r > 5000:
		cands = []int64{hi}
	default:
		cands = []int64{lo, hi}
	}
	for _, c := range cands {
		if absInt64(dec-c) <= 1 {
			return true
		}
	}
	return false
}

func strPtrEq(a, b *string) bool {
	if a == nil || b == nil {
		return a == nil && b == nil
	}
	return *a == *b
}

func (r *multiRunner) oracleRoundTrip(p *playlist.Multivariant, text []byte, q *playlist.Multivariant, obs string) {
	valid, lexical := multiValid(p)
	if !valid {
		return
	}
	if q == nil {
		r.fail("C14", "Unmarshal(Marshal(p)) failed (%s) for a valid value; text %q", obs, text)
		return
	}
	ne := func(field string, a, b any) {
		r.fail("C14", "round trip changes %s: %v -> %v; text %q", field, a, b, text)
	}
	if p.Version != q.Version {
		ne("Version", p.Version, q.Version)
	}
	if p.IndependentSegments != q.IndependentSegments {
		ne("IndependentSegments", p.IndependentSegments, q.IndependentSegments)
	}
	if (p.Start == nil) != (q.Start == nil) {
		ne("Start", p.Start, q.Start)
	} else if p.Start != nil && !offsetOK(int64(p.Start.TimeOffset), int64(q.Start.TimeOffset)) {
		ne("Start.TimeOffset", int64(p.Start.TimeOffset), int64(q.Start.TimeOffset))
	}
	if len(p.Variants) != len(q.Variants) {
		ne("len(Variants)", len(p.Variants), len(q.Variants))
	} else {
		for i := range p.Variants {
			a, b := p.Variants[i], q.Variants[i]
			f := func(n string) string { return fmt.Sprintf("Variants[%d].%s", i, n) }
			if a.Bandwidth != b.Bandwidth {
				ne(f("Bandwidth"), a.Bandwidth, b.Bandwidth)
			}
			if strings.Join(a.Codecs, "\x00") != strings.Join(b.Codecs, "\x00") || len(a.Codecs) != len(b.Codecs) {
				ne(f("Codecs"), a.Codecs, b.Codecs)
			}
			if a.URI != b.URI {
				ne(f("URI"), a.URI, b.URI)
			}
			if (a.AverageBandwidth == nil) != (b.AverageBandwidth == nil) ||
				(a.AverageBandwidth != nil && *a.AverageBandwidth != *b.AverageBandwidth) {
				ne(f("AverageBandwidth"), a.AverageBandwidth, b.AverageBandwidth)
			}
			if a.Resolution != b.Resolution {
				ne(f("Resolution"), a.Resolution, b.Resolution)
			}
			if (a.FrameRate == nil) != (b.FrameRate == nil) || (a.FrameRate != nil && *a.FrameRate != *b.FrameRate) {
				ne(f("FrameRate"), a.FrameRate, b.FrameRate)
			}
			if a.Video != b.Video {
				ne(f("Video"), a.Video, b.Video)
			}
			if a.Audio != b.Audio {
				ne(f("Audio"), a.Audio, b.Audio)
			}
			if a.Subtitles != b.Subtitles {
				ne(f("Subtitles"), a.Subtitles, b.Subtitles)
			}
			if a.ClosedCaptions != b.ClosedCaptions {
				ne(f("ClosedCaptions"), a.ClosedCaptions, b.ClosedCaptions)
			}
		}
	}
	if len(p.Renditions) != len(q.Renditions) {
		ne("len(Renditions)", len(p.Renditions), len(q.Renditions))
	} else {
		for i := range p.Renditions {
			a, b := p.Renditions[i], q.Renditions[i]
			f := func(n string) string { return fmt.Sprintf("Renditions[%d].%s", i, n) }
			if a.Type != b.Type {
				ne(f("Type"), a.Type, b.Type)
			}
			if a.GroupID != b.GroupID {
				ne(f("GroupID"), a.GroupID, b.GroupID)
			}
			if a.Name != b.Name {
				ne(f("Name"), a.Name, b.Name)
			}
			if a.Language != b.Language {
				ne(f("Language"), a.Language, b.Language)
			}
			if a.Autoselect != b.Autoselect {
				ne(f("Autoselect"), a.Autoselect, b.Autoselect)
			}
			if a.Default != b.Default {
				ne(f("Default"), a.Default, b.Default)
			}
			if a.Forced != b.Forced {
				ne(f("Forced"), a.Forced, b.Forced)
			}
			if !strPtrEq(a.Channels, b.Channels) {
				ne(f("Channels"), a.Channels, b.Channels)
			}
			if !strPtrEq(a.URI, b.URI) {
				ne(f("URI"), a.URI, b.URI)
			}
			if !strPtrEq(a.InStreamID, b.InStreamID) {
				ne(f("InStreamID"), a.InStreamID, b.InStreamID)
			}
		}
	}
	// Marshal is a fixpoint on its own output
	again, err := q.Marshal()
	if err != nil || string(again) != string(text) {
		r.fail("C14", "Marshal is not a fixpoint: %q then %q", text, again)
	}
	// playlist.Unmarshal picks the right kind
	pl, err := playlist.Unmarshal(text)
	if err != nil {
		r.fail("C14", "playlist.Unmarshal fails on a marshalled multivariant playlist: %v; text %q", err, text)
	} else if m2, ok := pl.(*playlist.Multivariant); !ok {
		r.fail("C14", "playlist.Unmarshal picks %T for a marshalled multivariant playlist; text %q", pl, text)
	} else if fmtMulti(m2) != fmtMulti(q) {
		r.fail("C14", "playlist.Unmarshal and Multivariant.Unmarshal disagree; text %q", text)
	}
	// C15: encoder output is grammatical
	if lexical {
		if err := m3uCheck(string(text), m3uMultivariant); err != nil {
			r.fail("C15", "Marshal output of a valid value is not grammatical M3U8: %v; text %q", err, text)
		}
	}
}

var _ = rand.Int
