package main

import (
	"encoding/json"
	"fmt"
	"math/rand"
	"os"
	"regexp"
	"sort"
	"strconv"
	"sync"
)

// Hidden sub-command `corr e2e-outcomes <tier> <seed>` (registered as an `extra` of checks/C09.json; cmd/corr/main.go
// is not this slice's to edit, so — like `timeconv-child` — an init() takes over the process).
//
// The T2 framework records generator tags only. This batch adds what the evidence otherwise lacks: what the CLIENTS
// of the e2e cases actually did — how each ended, how many tracks they reported, how many units they delivered and
// how many of those carried an AbsoluteTime. It runs its cases CONCURRENTLY in one process (12 at a time; every case
// is mostly sleeping on the real-time axis), with seeds of its own, and reports
//
//	EXTRA-STAT {"cases":…, "distinct":…, "tags":{"e2e-outcome:…":n, …}, "sample":{…}}
//	EXTRA-FAIL <oracle line>          for every oracle failure that is not a filtered known candidate
func init() {
	if len(os.Args) < 2 || os.Args[1] != "e2e-outcomes" {
		return
	}
	tier, seed := "quick", int64(1)
	if len(os.Args) >= 3 {
		tier = os.Args[2]
	}
	if len(os.Args) >= 4 {
		if v, err := strconv.ParseInt(os.Args[3], 10, 64); err == nil {
			seed = v
		}
	}
	n := 96
	if tier == "thorough" {
		n = 600
	}
	known := regexp.MustCompile(`^C09 (F15-empty-rendition-part:|Fxx-leading-rendition-attrs:|Fxx-rendition-date-time:|Fxx-target-duration-zero:|Fxx-ts-zero-crossing:)`)
	var mu sync.Mutex
	tags := map[string]int{}
	var fails []string
	var sample map[string]any
	sem := make(chan struct{}, 12)
	var wg sync.WaitGroup
	for i := 0; i < n; i++ {
		wg.Add(1)
		sem <- struct{}{}
		go func(i int) {
			defer wg.Done()
			defer func() { <-sem }()
			rng := rand.New(rand.NewSource(seed*1000003 + 7777 + int64(i)))
			ops, _ := e2eSlice{}.Gen(rng, i, tier)
			r := e2eSlice{}.NewRunner().(*c9Runner)
			for _, op := range ops {
				safeStep(r, op)
			}
			orc := r.Oracle()
			r.Close()
			mu.Lock()
			defer mu.Unlock()
			for _, o := range orc {
				if known.MatchString(o) {
					tags["e2e-known-candidate:"+known.FindStringSubmatch(o)[1]]++
				} else if len(fails) < 5 {
					fails = append(fails, fmt.Sprintf("outcome-batch seed=%d case=%d :: %s", seed, i, o))
				}
			}
			for _, c := range r.runs {
				pl := "media"
				if c.spec.pl == "mv" {
					pl = "multivariant"
				}
				units, abs := 0, 0
				for _, l := range c.logs {
					for _, d := range l {
						units += len(d.ids)
						if d.abs != nil {
							abs++
						}
					}
				}
				tags["e2e-client-runs"]++
				for _, sv := range c.served {
					if sv.zero {
						tags["e2e-clients-served-an-empty-200-body"]++
						break
					}
				}
				tags[fmt.Sprintf("e2e-outcome:v=%s,pl=%s,end=%s", r.variant, pl, c.end)]++
				tags["e2e-units-delivered"] += units
				tags["e2e-deliveries-with-absolute-time"] += abs
				if units > 0 {
					tags[fmt.Sprintf("e2e-clients-with-deliveries:v=%s", r.variant)]++
					tags[fmt.Sprintf("e2e-tracks-reported=%d", len(c.tracks))]++
				}
				if sample == nil && units > 50 {
					var per []int
					for _, l := range c.logs {
						per = append(per, len(l))
					}
					sample = map[string]any{"slice": "e2e-outcomes", "start": ops[0], "tracks": ops[1 : 1+len(r.tracks)],
						"client": fmt.Sprintf("pl=%s attached before write %d of %d", c.spec.pl, c.spec.at, r.wIdx),
						"end": c.end, "deliveries_per_track": per, "requests": len(c.served)}
				}
			}
		}(i)
	}
	wg.Wait()
	keys := make([]string, 0, len(tags))
	for k := range tags {
		keys = append(keys, k)
	}
	sort.Strings(keys)
	out := map[string]any{"cases": n, "distinct": n, "tags": tags}
	if sample != nil {
		out["sample"] = sample
	}
	b, _ := json.Marshal(out)
	fmt.Println("EXTRA-STAT " + string(b))
	for _, f := range fails {
		fmt.Println("EXTRA-FAIL " + f)
	}
	if len(fails) > 0 {
		os.Exit(1)
	}
	os.Exit(0)
}
