package main

import (
	"fmt"
	"math/rand"

	"github.com/bluenviron/mediacommon/v2/pkg/formats/fmp4"
)

// Generator of the `process` slice. A scenario is a valid stream (every codec mediacommon can write, random ids /
// time scales / layouts) plus at most one injected problem for cmp=full (structure fault, byte mutation, playlist
// mutation), several for cmp=class, a Close at a request position for cmp=robust.

type rbScnStream struct {
	container string // fmp4 | ts
	ext       string
	// fMP4
	init  *fmp4.Init
	parts []fmp4.Parts // per file
	// MPEG-TS
	kinds  []string
	writes [][]rbTSWrite // per file
	// bytes (filled by build; may then be mutated / removed)
	initBytes []byte
	initServe bool
	files     [][]byte
	serve     []bool
	// playlist script
	mode     string // vod | live | ll
	k        int    // live: files listed by the first playlist; ll: complete segments listed
	msn      int
	endlist  bool
	llEnd    bool // ll: the last reload (no hint) carries ENDLIST — the stream ends (fix-F28) instead of "preload hint disappeared"
	pdt      map[int]int64
	noMap    bool
	plBodies map[int][]byte // overrides by seq
	jump     int            // live: MEDIA-SEQUENCE added in the reloads
}

type rbScn struct {
	prim    string
	lead    bool
	audio   string
	streams []*rbScnStream
	closeAt int
	faults  int
	must    string
	fault   string
	tags    []string
	primary []byte // override
	// the only long time span of the case is one jump far beyond the 10 s cap (never a noticeable sleep)
	paceOverride bool
	plMutated    bool
	plStillMedia bool
	// set by a fault whose verdict depends on where it lands (e.g. an all-empty segment: skipped on a rendition,
	// an error on the leading stream)
	nextMust string
}

func rbPick[T any](r *rand.Rand, xs []T) T { return xs[r.Intn(len(xs))] }

var rbRates = []uint32{90000, 48000, 44100, 1000, 12800, 600, 25, 1, 1 << 20, 30000, 8000}

func rbGenFMP4(r *rand.Rand, rendition bool, nfiles int, t0 int64) *rbScnStream {
	st := &rbScnStream{container: "fmp4", ext: "mp4", init: &fmp4.Init{}}
	ntr := 1
	if !rendition {
		ntr = 1 + r.Intn(3)
	}
	used := map[int]bool{}
	hasSup := false
	for i := 0; i < ntr; i++ {
		kind := rbPick(r, rbFMP4Kinds)
		if rendition {
			kind = rbPick(r, []string{"MPEG4Audio", "Opus", "H264", "VP9", "AV1", "H265"})
		} else if i == ntr-1 && !hasSup {
			kind = rbPick(r, []string{"H264", "H265", "VP9", "AV1", "Opus", "MPEG4Audio"})
		}
		hasSup = hasSup || rbFMP4Supported[kind]
		id := 1 + r.Intn(4)
		if r.Intn(3) == 0 {
			id = 1 + r.Intn(1<<30)
		}
		for used[id] {
			id++
		}
		used[id] = true
		st.init.Tracks = append(st.init.Tracks, &fmp4.InitTrack{ID: id, TimeScale: rbPick(r, rbRates), Codec: rbFMP4Codec(kind)})
	}
	// time line: every track starts at t0 seconds (in its own scale) and advances 10 ms per sample (at most 8 samples)
	pos := make([]uint64, ntr)
	for i, t := range st.init.Tracks {
		pos[i] = uint64(t0) * uint64(t.TimeScale)
	}
	budget := make([]int, ntr)
	for i := range budget {
		budget[i] = 8
	}
	pid := int64(1)
	for f := 0; f < nfiles; f++ {
		var ps fmp4.Parts
		np := 1 + r.Intn(2)
		if r.Intn(6) == 0 {
			np = 3
		}
		for p := 0; p < np; p++ {
			part := &fmp4.Part{SequenceNumber: uint32(f*4 + p + 1)}
			order := r.Perm(ntr) // track-id permutations inside a fragment
			for _, i := range order {
				t := st.init.Tracks[i]
				if p > 0 && r.Intn(3) == 0 {
					continue // not every fragment carries every track (the first one of a file does)
				}
				pt := &fmp4.PartTrack{ID: t.ID, BaseTime: pos[i]}
				ns := r.Intn(3)
				if p == 0 && ns == 0 {
					ns = 1
				}
				for k := 0; k < ns && budget[i] > 0; k++ {
					budget[i]--
					dur := t.TimeScale / 100
					if r.Intn(5) == 0 {
						dur = 0 // zero durations
					}
					off := int32(0)
					if rbFMP4Video[rbKind(t.Codec)] && r.Intn(3) == 0 {
						off = int32(r.Intn(int(t.TimeScale/50) + 1))
						if r.Intn(4) == 0 {
							off = -off
						}
					}
					pt.Samples = append(pt.Samples, &fmp4.PartSample{Duration: dur, PTSOffset: off,
						Payload: rbFMP4Payload(rbKind(t.Codec), pid, k == 0 && p == 0, false)})
					pid++
					pos[i] += uint64(dur)
				}
				part.Tracks = append(part.Tracks, pt)
			}
			// extra part-track with an id the init does not know
			if r.Intn(5) == 0 {
				id := 77
				for used[id] {
					id++
				}
				part.Tracks = append(part.Tracks, &fmp4.PartTrack{ID: id, BaseTime: uint64(r.Intn(1000)),
					Samples: []*fmp4.PartSample{{Duration: 1, Payload: []byte{1, 2, 3}}}})
			}
			ps = append(ps, part)
		}
		st.parts = append(st.parts, ps)
	}
	return st
}

func rbGenTS(r *rand.Rand, rendition bool, nfiles int, base int64) *rbScnStream {
	st := &rbScnStream{container: "ts", ext: "ts"}
	ntr := 1
	if !rendition {
		ntr = 1 + r.Intn(3)
	}
	hasSup := false
	for i := 0; i < ntr; i++ {
		kind := rbPick(r, rbTSKinds)
		if rendition || (i == ntr-1 && !hasSup) {
			kind = rbPick(r, []string{"H264", "MPEG4Audio"})
		}
		hasSup = hasSup || rbTSSupported[kind]
		st.kinds = append(st.kinds, kind)
	}
	pid := int64(1)
	tick := int64(0)
	first := map[int]bool{}
	for f := 0; f < nfiles; f++ {
		var ws []rbTSWrite
		rounds := 1 + r.Intn(2)
		for k := 0; k < rounds; k++ {
			for _, i := range r.Perm(ntr) {
				if k > 0 && r.Intn(3) == 0 {
					continue
				}
				pts := (base + tick) % (1 << 33)
				dts := pts
				if (st.kinds[i] == "H264" || st.kinds[i] == "H265") && r.Intn(3) == 0 {
					pts = (pts + int64(r.Intn(1800))) % (1 << 33)
				}
				ws = append(ws, rbTSWrite{t: i, pts: pts, dts: dts, pid: pid, first: !first[i]})
				first[i] = true
				pid++
				tick += 300 + int64(r.Intn(300))
			}
		}
		st.writes = append(st.writes, ws)
	}
	return st
}

func (st *rbScnStream) build() error {
	if st.container == "fmp4" {
		b, err := mp4Bytes(st.init)
		if err != nil {
			return err
		}
		st.initBytes, st.initServe = b, true
		for i := range st.parts {
			b, err := mp4Bytes(&st.parts[i])
			if err != nil {
				return err
			}
			st.files = append(st.files, b)
			st.serve = append(st.serve, true)
		}
		return nil
	}
	for _, ws := range st.writes {
		b, err := rbBuildTS(st.kinds, ws)
		if err != nil {
			return err
		}
		st.files = append(st.files, b)
		st.serve = append(st.serve, true)
	}
	return nil
}

func (st *rbScnStream) nfiles() int { return len(st.files) }

// playlist bodies by request number, and the expected download order
func (st *rbScnStream) script(s int) (map[int][]byte, []int) {
	n := st.nfiles()
	mapURI := ""
	if st.container == "fmp4" && !st.noMap {
		mapURI = fmt.Sprintf("s%d_init.mp4", s)
	}
	out := map[int][]byte{}
	var order []int
	switch st.mode {
	case "vod":
		out[0] = []byte(rbMediaPlaylist(rbPlOpt{s: s, ext: st.ext, mapURI: mapURI, vod: true, msn: st.msn, first: 0, n: n, endlist: st.endlist, pdt: st.pdt}))
		for i := 0; i < n; i++ {
			order = append(order, i)
		}
	case "live":
		out[0] = []byte(rbMediaPlaylist(rbPlOpt{s: s, ext: st.ext, mapURI: mapURI, msn: st.msn, first: 0, n: st.k, pdt: st.pdt}))
		out[1] = []byte(rbMediaPlaylist(rbPlOpt{s: s, ext: st.ext, mapURI: mapURI, msn: st.msn + st.jump, first: 0, n: n, endlist: st.endlist, pdt: st.pdt}))
		for i := st.k - 3; i >= 0 && i < n; i++ {
			order = append(order, i)
		}
	case "ll":
		// k complete segments are listed; the parts arrive through preload hints: files k, k+1, …; the last
		// reload carries no hint any more
		for j := 0; st.k+j <= n; j++ {
			hint := st.k + j
			if hint >= n {
				hint = -1
			}
			out[j] = []byte(rbMediaPlaylist(rbPlOpt{s: s, ext: st.ext, mapURI: mapURI, msn: st.msn, first: 0, n: st.k, pdt: st.pdt, ll: true, hintFile: hint, endlist: hint < 0 && st.llEnd}))
			if hint >= 0 {
				order = append(order, hint)
			}
		}
	}
	for k, b := range st.plBodies {
		out[k] = b
	}
	return out, order
}

func (sc *rbScn) toCase() *rbCase {
	c := &rbCase{prim: sc.prim, lead: sc.lead, audio: sc.audio, closeAt: sc.closeAt, must: sc.must, fault: sc.fault}
	if c.fault == "" {
		c.fault = "none"
	}
	if sc.prim == "multi" {
		body := []byte(rbMultivariant(len(sc.streams), sc.lead, sc.audio))
		if sc.primary != nil {
			body = sc.primary
		}
		c.hex = append(c.hex, rbHex{name: "/index.m3u8", seq: 0, data: body})
	}
	for s, st := range sc.streams {
		v := &rbStream{}
		pls, order := st.script(s)
		v.order = order
		path := fmt.Sprintf("/s%d.m3u8", s)
		if sc.prim != "multi" && s == 0 {
			path = "/index.m3u8"
		}
		if sc.prim != "multi" && s == 0 && sc.primary != nil {
			pls[0] = sc.primary
		}
		for k := 0; k < len(pls)+4; k++ {
			if b, ok := pls[k]; ok {
				c.hex = append(c.hex, rbHex{name: path, seq: k, data: b})
			}
		}
		if st.container == "fmp4" && st.initServe {
			c.hex = append(c.hex, rbHex{name: fmt.Sprintf("/s%d_init.mp4", s), seq: 0, data: st.initBytes})
		}
		for i, b := range st.files {
			if st.serve[i] {
				c.hex = append(c.hex, rbHex{name: fmt.Sprintf("/s%d_f%d.%s", s, i, st.ext), seq: 0, data: b})
			}
		}
		c.streams = append(c.streams, v)
	}
	expressible, upstream := rbDeriveViews(c)
	c.pace = (sc.paceOverride && sc.faults <= 1) || rbPaceSafe(c)
	switch {
	case sc.closeAt >= 0 || !expressible || upstream || !rbTame(c) || !c.pace:
		c.cmp = "robust"
	case sc.faults > 1:
		c.cmp = "class"
	default:
		c.cmp = "full"
	}
	// a mutated media playlist that still parses may carry several problems at once (e.g. no EXT-X-MAP any more AND no
	// ENDLIST): a processing error then races with a download-loop error, only eos / err is schedule independent
	if sc.plMutated && sc.plStillMedia && c.cmp == "full" {
		c.cmp = "class"
	}
	// MPEG-TS views depend on the download order (one reader across segments): a mutated playlist that still parses
	// may change it
	if sc.plMutated {
		for s, st := range sc.streams {
			if st.container == "ts" && len(c.streams[s].pls) > 0 {
				for _, p := range c.streams[s].pls {
					if p.r == "media" {
						c.cmp = "robust"
					}
				}
			}
		}
	}
	// the primary's kind as the decoders see it
	for _, h := range c.hex {
		if h.name == "/index.m3u8" && h.seq == 0 {
			k := rbPrimaryKind(h.data)
			if k == "upanic" {
				c.cmp = "robust"
				k = "bad"
			}
			if k == "multi" && c.prim == "multi" && sc.primary != nil {
				c.cmp = "robust" // variants / groups of a mutated multivariant playlist are not expressed by the view
			}
			if k != c.prim {
				// a mutated primary changed its kind: media <-> multi cannot be expressed by the stream layout
				if k == "bad" {
					c.prim = "bad"
					rbDeriveViews(c) // the stream paths depend on the primary's kind
				} else {
					c.cmp = "robust"
				}
			}
		}
	}
	return c
}

// rbPaceSafe: the client paces delivery in real time (sleeps until a unit's DTS, fails beyond 10 s). A case is
// pace-safe when every time stamp any track could be given lies within 0.35 s of every other one, so that no unit
// can make the client sleep noticeably (computed from the decoded views, for every init track that owns the id).
func rbPaceSafe(c *rbCase) bool {
	lo, hi := 1e300, -1e300
	for _, st := range c.streams {
		for _, f := range st.files {
			for _, p := range f.pts {
				sum := int64(0)
				for _, x := range p.smp {
					sum += x.dur
				}
				for _, t := range st.tracks {
					if t.id != p.id || t.rate <= 0 {
						continue
					}
					a, b := float64(p.base)/float64(t.rate), float64(p.base+sum)/float64(t.rate)
					if a < lo {
						lo = a
					}
					if b > hi {
						hi = b
					}
				}
			}
		}
	}
	if hi-lo > 0.35 {
		return false
	}
	var ref *int64
	tlo, thi := int64(0), int64(0)
	for _, st := range c.streams {
		for _, f := range st.files {
			for _, t := range f.tis {
				if t.de {
					continue
				}
				for _, v := range []int64{t.dts, t.pts} {
					if ref == nil {
						x := v
						ref = &x
					}
					d := tsSigned(v - *ref)
					if d < tlo {
						tlo = d
					}
					if d > thi {
						thi = d
					}
				}
			}
		}
	}
	return thi-tlo <= 90000*35/100
}

// rbTame: every number is in the range in which Go's int64 arithmetic cannot overflow in the client's conversions
// (the model computes in unbounded integers): base + durations + offsets < 2^33, time scales <= 2^20.
func rbTame(c *rbCase) bool {
	for _, st := range c.streams {
		for _, t := range st.tracks {
			if t.rate < 0 || t.rate > 1<<20 {
				return false
			}
		}
		for _, f := range st.files {
			for _, p := range f.pts {
				if p.base < 0 || p.base >= 1<<33 {
					return false
				}
				sum := p.base
				for _, x := range p.smp {
					sum += x.dur
					if x.off > 1<<31 || x.off < -(1<<31) || sum >= 1<<33 {
						return false
					}
				}
			}
		}
	}
	return true
}

func rbBaseScenario(r *rand.Rand) *rbScn {
	sc := &rbScn{prim: "media", lead: true, audio: "none", closeAt: -1, must: "ok"}
	nstreams := 1
	if r.Intn(3) == 0 {
		sc.prim, sc.audio = "multi", "found"
		nstreams = 2 + r.Intn(2)
		if r.Intn(6) == 0 {
			nstreams = 1
		}
	}
	container := rbPick(r, []string{"fmp4", "fmp4", "ts"})
	mode := rbPick(r, []string{"vod", "vod", "live"})
	nfiles := 1 + r.Intn(3)
	k := 0
	if mode == "live" {
		nfiles = 3 + r.Intn(2)
		k = 3 + r.Intn(nfiles-2)
	}
	t0 := int64(r.Intn(4000))
	// MPEG-TS: 33-bit positions, sometimes just before the wrap (shared by all streams of the client)
	tsBase := (t0 * 90000) % (1 << 33)
	if r.Intn(4) == 0 {
		tsBase = (1 << 33) - int64(r.Intn(3000))
	}
	msn := r.Intn(5)
	if r.Intn(4) == 0 {
		msn = r.Intn(1 << 20)
	}
	for s := 0; s < nstreams; s++ {
		var st *rbScnStream
		if container == "fmp4" {
			st = rbGenFMP4(r, s > 0, nfiles, t0)
		} else {
			st = rbGenTS(r, s > 0, nfiles, tsBase)
		}
		st.mode, st.k, st.msn, st.endlist = mode, k, msn, true
		if r.Intn(3) == 0 {
			st.pdt = map[int]int64{}
			for i := 0; i < nfiles; i++ {
				if r.Intn(2) == 0 {
					st.pdt[i] = 1700000000000000000 + int64(i)*1000000000
				}
			}
		}
		sc.streams = append(sc.streams, st)
	}
	sc.tags = append(sc.tags, "container="+container, "mode="+mode, fmt.Sprintf("streams=%d", nstreams))
	return sc
}

// leading track of an fMP4 stream, by the documented rule: first video among the supported tracks, else the first supported
func rbLeadingFMP4(st *rbScnStream) int {
	first := -1
	for i, t := range st.init.Tracks {
		k := rbKind(t.Codec)
		if !rbFMP4Supported[k] {
			continue
		}
		if first < 0 {
			first = i
		}
		if rbFMP4Video[k] {
			return i
		}
	}
	return first
}

// indices of the files the client will download (the others are listed but never fetched)
func (st *rbScnStream) downloaded() []int {
	n := len(st.parts) + len(st.writes)
	if st.files != nil {
		n = len(st.files)
	}
	var out []int
	switch st.mode {
	case "live":
		for i := st.k - 3; i >= 0 && i < n; i++ {
			out = append(out, i)
		}
	case "ll":
		for i := st.k; i < n; i++ {
			out = append(out, i)
		}
	default:
		for i := 0; i < n; i++ {
			out = append(out, i)
		}
	}
	return out
}

type rbFault struct {
	name  string
	must  string // err | any
	apply func(r *rand.Rand, sc *rbScn) bool // before build; false = not applicable
	post  func(r *rand.Rand, sc *rbScn) bool // after build (bytes exist)
}

func rbFaults() []rbFault {
	anyFMP4 := func(r *rand.Rand, sc *rbScn) (int, *rbScnStream) {
		var idx []int
		for s, st := range sc.streams {
			if st.container == "fmp4" {
				idx = append(idx, s)
			}
		}
		if len(idx) == 0 {
			return -1, nil
		}
		s := idx[r.Intn(len(idx))]
		return s, sc.streams[s]
	}
	return []rbFault{
		{name: "zero-timescale", must: "err", apply: func(r *rand.Rand, sc *rbScn) bool {
			_, st := anyFMP4(r, sc)
			if st == nil {
				return false
			}
			rbPick(r, st.init.Tracks).TimeScale = 0
			return true
		}},
		{name: "no-supported-track", must: "err", apply: func(r *rand.Rand, sc *rbScn) bool {
			st := rbPick(r, sc.streams)
			if st.container == "fmp4" {
				for _, t := range st.init.Tracks {
					t.Codec = rbFMP4Codec(rbPick(r, []string{"MPEG1Audio", "AC3", "LPCM", "MJPEG", "MPEG4Video", "MPEG1Video"}))
				}
				for _, ps := range st.parts {
					for _, p := range ps {
						for _, pt := range p.Tracks {
							for _, s := range pt.Samples {
								s.Payload = []byte{1, 2, 3, 4}
							}
						}
					}
				}
			} else {
				for i := range st.kinds {
					st.kinds[i] = rbPick(r, []string{"H265", "MPEG4Video", "MPEG1Video", "MPEG1Audio", "AC3", "Opus"})
				}
			}
			return true
		}},
		{name: "too-many-tracks", must: "err", apply: func(r *rand.Rand, sc *rbScn) bool {
			st := sc.streams[0]
			n := 11 + r.Intn(3)
			if st.container == "fmp4" {
				st.init.Tracks = nil
				for i := 0; i < n; i++ {
					st.init.Tracks = append(st.init.Tracks, &fmp4.InitTrack{ID: i + 1, TimeScale: 48000, Codec: rbFMP4Codec(rbPick(r, []string{"Opus", "MPEG4Audio", "H264"}))})
				}
				for f := range st.parts {
					st.parts[f] = fmp4.Parts{{SequenceNumber: 1, Tracks: []*fmp4.PartTrack{{ID: 1, BaseTime: 0, Samples: []*fmp4.PartSample{{Duration: 1, Payload: rbFMP4Payload(rbKind(st.init.Tracks[0].Codec), 1, true, false)}}}}}}
				}
			} else {
				st.kinds = nil
				for i := 0; i < n; i++ {
					st.kinds = append(st.kinds, rbPick(r, []string{"MPEG4Audio", "H264"}))
				}
				for f := range st.writes {
					st.writes[f] = nil
					for i := 0; i < n; i++ {
						st.writes[f] = append(st.writes[f], rbTSWrite{t: i, pts: int64(90000 + 300*i), dts: int64(90000 + 300*i), pid: int64(i + 1), first: f == 0})
					}
				}
			}
			return true
		}},
		{name: "exactly-max-tracks", must: "ok", apply: func(r *rand.Rand, sc *rbScn) bool {
			st := sc.streams[0]
			if st.container != "fmp4" || len(sc.streams) != 1 {
				return false
			}
			st.init.Tracks = nil
			for i := 0; i < 10; i++ {
				st.init.Tracks = append(st.init.Tracks, &fmp4.InitTrack{ID: i + 1, TimeScale: 48000, Codec: rbFMP4Codec("Opus")})
			}
			for f := range st.parts {
				var pts []*fmp4.PartTrack
				for i := 0; i < 10; i++ {
					pts = append(pts, &fmp4.PartTrack{ID: i + 1, BaseTime: uint64(480 * f), Samples: []*fmp4.PartSample{{Duration: 480, Payload: []byte{1}}}})
				}
				// three fragments × ten tracks: thirty completion signals in one segment (F17)
				st.parts[f] = fmp4.Parts{{SequenceNumber: 1, Tracks: pts}, {SequenceNumber: 2, Tracks: pts}, {SequenceNumber: 3, Tracks: pts}}
			}
			return true
		}},
		{name: "rendition-multi-track", must: "err", apply: func(r *rand.Rand, sc *rbScn) bool {
			if len(sc.streams) < 2 || sc.streams[1].container != "fmp4" {
				return false
			}
			st := sc.streams[1+r.Intn(len(sc.streams)-1)]
			if st.container != "fmp4" {
				return false
			}
			st.init.Tracks = append(st.init.Tracks, &fmp4.InitTrack{ID: st.init.Tracks[0].ID + 1, TimeScale: 48000,
				Codec: rbFMP4Codec(rbPick(r, rbFMP4Kinds))})
			return true
		}},
		{name: "no-leading-data", must: "err", apply: func(r *rand.Rand, sc *rbScn) bool {
			st := rbPick(r, sc.streams)
			dl := st.downloaded()
			if len(dl) == 0 {
				return false
			}
			f := rbPick(r, dl)
			if st.container == "fmp4" {
				lead := rbLeadingFMP4(st)
				if lead < 0 {
					return false
				}
				id := st.init.Tracks[lead].ID
				all := r.Intn(3) == 0
				for _, p := range st.parts[f] {
					var keep []*fmp4.PartTrack
					for _, pt := range p.Tracks {
						if pt.ID != id && !all {
							keep = append(keep, pt)
						}
					}
					p.Tracks = keep
				}
				if st != sc.streams[0] || len(dl) > 1 {
					left := false
					for _, p := range st.parts[f] {
						for _, pt := range p.Tracks {
							left = left || len(pt.Samples) > 0
						}
					}
					if !left {
						sc.nextMust = "ok" // nothing with a sample is left: an all-empty segment is skipped (F15)
					}
				}
			} else {
				lead := -1
				for i, k := range st.kinds {
					if rbTSSupported[k] && lead < 0 {
						lead = i
					}
				}
				for i, k := range st.kinds {
					if k == "H264" {
						lead = i
						break
					}
				}
				var keep []rbTSWrite
				for _, w := range st.writes[f] {
					if w.t != lead {
						keep = append(keep, w)
					}
				}
				st.writes[f] = keep
			}
			return true
		}},
		{name: "mixed-containers", must: "err", apply: func(r *rand.Rand, sc *rbScn) bool {
			if len(sc.streams) < 2 {
				return false
			}
			s := 1 + r.Intn(len(sc.streams)-1)
			old := sc.streams[s]
			if old.container != sc.streams[0].container {
				return false
			}
			n := len(old.parts) + len(old.writes)
			var st *rbScnStream
			if old.container == "fmp4" {
				st = rbGenTS(r, true, n, 100*90000)
			} else {
				st = rbGenFMP4(r, true, n, 100)
			}
			st.mode, st.k, st.msn, st.endlist, st.pdt = old.mode, old.k, old.msn, old.endlist, old.pdt
			sc.streams[s] = st
			return true
		}},
		{name: "dts-far-ahead", must: "err", apply: func(r *rand.Rand, sc *rbScn) bool {
			st := rbPick(r, sc.streams)
			if len(st.parts)+len(st.writes) < 2 {
				return false // the first downloaded segment defines the origin
			}
			sc.paceOverride = true
			if st.container == "fmp4" {
				lead := rbLeadingFMP4(st)
				if lead < 0 {
					return false
				}
				t := st.init.Tracks[lead]
				// a huge duration followed by one more sample, or a base time that jumps a minute ahead
				last := st.parts[len(st.parts)-1]
				if len(last) == 0 {
					return false // emptied by another fault
				}
				for _, pt := range last[0].Tracks {
					if pt.ID == t.ID {
						if r.Intn(2) == 0 {
							pt.BaseTime += 60 * uint64(t.TimeScale)
							if len(pt.Samples) == 0 {
								pt.Samples = []*fmp4.PartSample{{Duration: 1, Payload: rbFMP4Payload(rbKind(t.Codec), 99, true, false)}}
							}
						} else {
							pt.Samples = []*fmp4.PartSample{
								{Duration: 30 * t.TimeScale, Payload: rbFMP4Payload(rbKind(t.Codec), 98, true, false)},
								{Duration: 1, Payload: rbFMP4Payload(rbKind(t.Codec), 99, false, false)}}
						}
						return t.TimeScale <= 1<<20 && t.TimeScale > 0
					}
				}
				return false
			}
			ws := st.writes[len(st.writes)-1]
			if len(ws) == 0 {
				return false
			}
			// the last unit of every track a minute later (within 2^32 ticks: the unwrapping follows it)
			for i := range ws {
				ws[i].pts = (ws[i].pts + 60*90000) % (1 << 33)
				ws[i].dts = (ws[i].dts + 60*90000) % (1 << 33)
			}
			return true
		}},
		{name: "undecodable-sample", must: "err", apply: func(r *rand.Rand, sc *rbScn) bool {
			_, st := anyFMP4(r, sc)
			if st == nil {
				return false
			}
			for i, t := range st.init.Tracks {
				k := rbKind(t.Codec)
				if k != "H264" && k != "H265" && k != "AV1" {
					continue
				}
				_ = i
				dl := st.downloaded()
				if len(dl) == 0 {
					return false
				}
				for _, p := range st.parts[rbPick(r, dl)] {
					for _, pt := range p.Tracks {
						if pt.ID == t.ID && len(pt.Samples) > 0 {
							pt.Samples[r.Intn(len(pt.Samples))].Payload = rbFMP4Payload(k, 0, false, true)
							return true
						}
					}
				}
			}
			return false
		}},
		{name: "duplicate-track-id", must: "any", apply: func(r *rand.Rand, sc *rbScn) bool {
			st := sc.streams[0]
			if st.container != "fmp4" || len(st.init.Tracks) < 2 {
				return false
			}
			st.init.Tracks[1].ID = st.init.Tracks[0].ID
			return true // (the part-tracks of both now belong to the later one: its time scale applies to all of them)
		}},
		{name: "init-missing", must: "err", post: func(r *rand.Rand, sc *rbScn) bool {
			_, st := anyFMP4(r, sc)
			if st == nil {
				return false
			}
			st.initServe = false
			return true
		}},
		{name: "segment-missing", must: "err", post: func(r *rand.Rand, sc *rbScn) bool {
			st := rbPick(r, sc.streams)
			_, order := st.script(0)
			if len(order) == 0 {
				return false
			}
			st.serve[rbPick(r, order)] = false
			return true
		}},
		{name: "init-is-garbage", must: "err", post: func(r *rand.Rand, sc *rbScn) bool {
			_, st := anyFMP4(r, sc)
			if st == nil {
				return false
			}
			g := make([]byte, r.Intn(64))
			r.Read(g)
			st.initBytes = g
			return true
		}},
		{name: "segment-of-other-container", must: "err", apply: func(r *rand.Rand, sc *rbScn) bool {
			// MPEG-TS bytes decode as "no fragment at all" for go-mp4: an error, like an empty body
			return true
		}, post: func(r *rand.Rand, sc *rbScn) bool {
			st := rbPick(r, sc.streams)
			_, order := st.script(0)
			if len(order) == 0 {
				return false
			}
			i := rbPick(r, order)
			if st.container == "fmp4" {
				b, err := rbBuildTS([]string{"H264"}, []rbTSWrite{{t: 0, pts: 90000, dts: 90000, pid: 1, first: true}})
				if err != nil {
					return false
				}
				st.files[i] = b
			} else {
				st.files[i] = []byte{0, 0, 0, 8, 'm', 'o', 'o', 'f'}
			}
			return true
		}},
		{name: "empty-segment", must: "err", apply: func(r *rand.Rand, sc *rbScn) bool {
			// a zero-byte file (what a 200 answer without body looks like): no fragment at all — the fatal error "could not find
			// data of leading track" on every stream and container (only a body WITH a `moof` but without samples is skipped, F15)
			s := r.Intn(len(sc.streams))
			st := sc.streams[s]
			dl := st.downloaded()
			if len(dl) == 0 {
				return false
			}
			f := rbPick(r, dl)
			if st.container == "fmp4" {
				st.parts[f] = nil
			} else {
				st.writes[f] = nil
			}
			return true
		}},
		{name: "empty-rendition-segment", must: "ok", apply: func(r *rand.Rand, sc *rbScn) bool {
			// F15: what the muxer serves for a rendition whose track wrote nothing between two cuts: `moof` without `traf`;
			// first / middle / last / several / all downloaded segments (or LL parts) of the rendition
			if len(sc.streams) < 2 || sc.streams[1].container != "fmp4" {
				return false
			}
			s := 1 + r.Intn(len(sc.streams)-1)
			st := sc.streams[s]
			dl := st.downloaded()
			if len(dl) == 0 || st.container != "fmp4" {
				return false
			}
			var pick []int
			switch r.Intn(5) {
			case 0:
				pick = []int{dl[0]}
			case 1:
				pick = []int{dl[len(dl)-1]}
			case 2:
				pick = []int{dl[len(dl)/2]}
			case 3:
				pick = dl
			default:
				for _, f := range dl {
					if r.Intn(2) == 0 {
						pick = append(pick, f)
					}
				}
				if len(pick) == 0 {
					pick = []int{dl[0]}
				}
			}
			for _, f := range pick {
				switch r.Intn(4) {
				case 0, 1:
					st.parts[f] = fmp4.Parts{{SequenceNumber: uint32(f + 1)}}
				case 2: // several empty fragments
					st.parts[f] = fmp4.Parts{{SequenceNumber: uint32(f + 1)}, {SequenceNumber: uint32(f + 2)}}
				default: // a `traf` of an id the init does not know, without samples
					st.parts[f] = fmp4.Parts{{SequenceNumber: uint32(f + 1), Tracks: []*fmp4.PartTrack{{ID: 4242, BaseTime: 7}}}}
				}
			}
			return true
		}},
		{name: "empty-leading-segment", must: "ok", apply: func(r *rand.Rand, sc *rbScn) bool {
			// the same on the leading stream: skipped too; the origin is defined by the first segment that carries data
			st := sc.streams[0]
			dl := st.downloaded()
			if st.container != "fmp4" || len(dl) == 0 {
				return false
			}
			st.parts[rbPick(r, dl)] = fmp4.Parts{{SequenceNumber: 1}}
			if len(dl) == 1 {
				sc.nextMust = "err"
			}
			return true
		}},
		{name: "leading-stream-all-empty", must: "err", apply: func(r *rand.Rand, sc *rbScn) bool {
			// a leading stream that never carries a sample never defines the origin the renditions wait for: it must end with
			// an error when it reaches its end (not leave them waiting for ever)
			st := sc.streams[0]
			if st.container != "fmp4" {
				return false
			}
			for f := range st.parts {
				st.parts[f] = fmp4.Parts{{SequenceNumber: uint32(f + 1)}}
			}
			return true
		}},
		{name: "live-too-short", must: "err", apply: func(r *rand.Rand, sc *rbScn) bool {
			if sc.streams[0].mode != "live" {
				return false
			}
			st := rbPick(r, sc.streams)
			st.k = 1 + r.Intn(2)
			return true
		}},
		{name: "no-endlist", must: "err", apply: func(r *rand.Rand, sc *rbScn) bool {
			rbPick(r, sc.streams).endlist = false
			return true
		}},
		{name: "sequence-jump", must: "err", apply: func(r *rand.Rand, sc *rbScn) bool {
			st := rbPick(r, sc.streams)
			if st.mode != "live" {
				return false
			}
			st.jump = rbPick(r, []int{-1000, 7, 1000})
			if st.msn+st.jump < 0 {
				st.jump = 1000
			}
			return true
		}},
		{name: "no-map-for-fmp4", must: "err", apply: func(r *rand.Rand, sc *rbScn) bool {
			_, st := anyFMP4(r, sc)
			if st == nil {
				return false
			}
			st.noMap = true // the client takes the MPEG-TS path on fMP4 bytes
			return true
		}},
		{name: "no-variant", must: "err", apply: func(r *rand.Rand, sc *rbScn) bool {
			if sc.prim != "multi" {
				return false
			}
			sc.lead = false
			return true
		}},
		{name: "audio-group-missing", must: "err", apply: func(r *rand.Rand, sc *rbScn) bool {
			if sc.prim != "multi" {
				return false
			}
			sc.audio = "missing"
			return true
		}},
		{name: "reload-is-multivariant", must: "err", post: func(r *rand.Rand, sc *rbScn) bool {
			st := rbPick(r, sc.streams)
			if st.mode != "live" {
				return false
			}
			st.plBodies = map[int][]byte{1: []byte(rbMultivariant(2, true, "found"))}
			return true
		}},
	}
}

func rbGenCase(r *rand.Rand, _ int, tier string) (*rbCase, []string) {
	for attempt := 0; attempt < 50; attempt++ {
		sc := rbBaseScenario(r)
		family := r.Intn(100)
		faults := rbFaults()
		var post []rbFault
		inject := func() bool {
			f := faults[r.Intn(len(faults))]
			if f.apply != nil && !f.apply(r, sc) {
				return false
			}
			if f.post != nil {
				post = append(post, f)
			}
			sc.faults++
			if sc.fault != "" {
				sc.fault += "+"
			}
			sc.fault += f.name
			if sc.nextMust != "" {
				f.must, sc.nextMust = sc.nextMust, ""
			}
			if f.must == "ok" {
				// the stream stays well-formed for the client
			} else if f.must == "err" && sc.must != "any" {
				sc.must = "err"
			} else if f.must == "any" {
				sc.must = "any"
			}
			return true
		}
		switch {
		case family < 12: // valid
			sc.tags = append(sc.tags, "family=valid")
		case family < 45: // one structure fault
			if !inject() {
				continue
			}
			sc.tags = append(sc.tags, "family=structure")
		case family < 50: // several
			if !inject() || !inject() {
				continue
			}
			sc.must = "any" // a later fault may overwrite what an earlier one changed
			sc.tags = append(sc.tags, "family=structure-multi")
		case family >= 93: // Close at a request position (sometimes on top of a fault)
			sc.closeAt = r.Intn(12)
			if r.Intn(3) == 0 && inject() {
				sc.tags = append(sc.tags, "close+fault")
			}
			sc.must = "any"
			sc.fault = fmt.Sprintf("close@%d", sc.closeAt)
			sc.tags = append(sc.tags, "family=close")
		case family < 55: // low latency
			st := sc.streams[0]
			n := len(st.parts)
			if st.container != "fmp4" || n < 2 {
				continue
			}
			for _, x := range sc.streams {
				x.mode, x.k = "ll", 1
			}
			sc.must, sc.fault, sc.faults = "err", "ll-hint-ends", 1
			llEnd := r.Intn(2) == 0
			if llEnd {
				// the origin ends every Low-Latency stream properly: last reload without hint, with ENDLIST ⇒ ErrClientEOS
				for _, x := range sc.streams {
					x.llEnd = true
				}
				sc.must, sc.fault, sc.faults = "ok", "ll-endlist-eos", 0
				sc.tags = append(sc.tags, "ll-endlist-eos")
			}
			if r.Intn(2) == 0 {
				// F15 in its original habitat: LL parts without any sample (a rendition; or a rendition playlist opened directly)
				rs := sc.streams[r.Intn(len(sc.streams))]
				for f := 1; f < len(rs.parts); f++ {
					if r.Intn(2) == 0 {
						rs.parts[f] = fmp4.Parts{{SequenceNumber: uint32(f + 1)}}
					}
				}
				sc.fault = "ll-hint-ends+empty-parts"
				if llEnd {
					sc.must, sc.fault = "any", "ll-endlist-eos+empty-parts"
				}
			}
			sc.tags = append(sc.tags, "family=low-latency")
		default:
			sc.tags = append(sc.tags, "family="+map[bool]string{true: "bytes", false: "playlist"}[family < 80])
		}
		// build bytes
		ok := true
		for _, st := range sc.streams {
			if err := st.build(); err != nil {
				ok = false
			}
		}
		if !ok {
			continue
		}
		for _, f := range post {
			if !f.post(r, sc) {
				ok = false
			}
		}
		if !ok {
			continue
		}
		switch {
		case family >= 55 && family < 80: // byte mutation of one media file
			st := rbPick(r, sc.streams)
			label := ""
			if st.container == "fmp4" && r.Intn(3) == 0 {
				st.initBytes, label = rbMutateMP4(r, st.initBytes)
				label = "init:" + label
			} else {
				_, order := st.script(0)
				if len(order) == 0 {
					continue
				}
				i := rbPick(r, order)
				if st.container == "fmp4" {
					st.files[i], label = rbMutateMP4(r, st.files[i])
				} else {
					st.files[i], label = rbMutateTS(r, st.files[i])
				}
				label = "seg:" + label
			}
			sc.faults, sc.must, sc.fault = 1, "any", "bytes:"+label
			sc.tags = append(sc.tags, "mut="+label)
		case family >= 80 && family < 93: // playlist bytes at some request position
			sc.faults, sc.must, sc.plMutated = 1, "any", true
			if r.Intn(3) == 0 {
				// the primary playlist
				var cur []byte
				if sc.prim == "multi" {
					cur = []byte(rbMultivariant(len(sc.streams), sc.lead, sc.audio))
				} else {
					pls, _ := sc.streams[0].script(0)
					cur = pls[0]
				}
				b, label := rbMutatePlaylist(r, cur)
				sc.plStillMedia = rbPrimaryKind(b) == "media"
				sc.primary = b
				sc.fault = "playlist:primary:" + label
				sc.tags = append(sc.tags, "plmut=primary:"+label)
			} else {
				s := r.Intn(len(sc.streams))
				st := sc.streams[s]
				pls, _ := st.script(s)
				seq := r.Intn(len(pls))
				if sc.prim != "multi" && s == 0 && seq == 0 {
					seq = len(pls) - 1
					if seq == 0 {
						continue
					}
				}
				b, label := rbMutatePlaylist(r, pls[seq])
				sc.plStillMedia = rbPrimaryKind(b) == "media"
				if st.plBodies == nil {
					st.plBodies = map[int][]byte{}
				}
				st.plBodies[seq] = b
				sc.fault = fmt.Sprintf("playlist:s%d#%d:%s", s, seq, label)
				sc.tags = append(sc.tags, "plmut=stream:"+label)
			}
		}
		c := sc.toCase()
		tags := append(sc.tags, "cmp="+c.cmp, "must="+c.must)
		if sc.faults == 1 {
			tags = append(tags, "fault="+firstWord(sc.fault))
		}
		return c, tags
	}
	panic("rbGenCase: no applicable scenario")
}

func firstWord(s string) string {
	for i, ch := range s {
		if ch == ':' || ch == '@' {
			return s[:i]
		}
	}
	return s
}
