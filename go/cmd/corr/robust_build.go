package main

import (
	"bytes"
	"encoding/hex"
	"fmt"
	"strings"
	"time"

	"github.com/bluenviron/mediacommon/v2/pkg/codecs/h264"
	"github.com/bluenviron/mediacommon/v2/pkg/codecs/mpeg4audio"
	"github.com/bluenviron/mediacommon/v2/pkg/formats/fmp4"
	"github.com/bluenviron/mediacommon/v2/pkg/formats/mpegts"
)

// Valid building blocks for every codec mediacommon can put into fMP4 / MPEG-TS (values from mediacommon's own tests).

var rbFMP4Kinds = []string{"AV1", "VP9", "H264", "H265", "Opus", "MPEG4Audio", "MPEG1Audio", "AC3", "LPCM", "MJPEG", "MPEG4Video", "MPEG1Video"}
var rbFMP4Supported = map[string]bool{"AV1": true, "VP9": true, "H264": true, "H265": true, "Opus": true, "MPEG4Audio": true}
var rbFMP4Video = map[string]bool{"AV1": true, "VP9": true, "H264": true, "H265": true, "MJPEG": true, "MPEG4Video": true, "MPEG1Video": true}

var rbTSKinds = []string{"H264", "H265", "MPEG4Video", "MPEG1Video", "MPEG4Audio", "MPEG1Audio", "AC3", "Opus"}
var rbTSSupported = map[string]bool{"H264": true, "MPEG4Audio": true}

var rbAV1SeqHdr = []byte{0x0a, 0x0b, 0, 0, 0, 66, 167, 191, 228, 96, 13, 0, 64}
var rbMPEG4VideoConf = []byte{
	0x00, 0x00, 0x01, 0xb0, 0x01, 0x00, 0x00, 0x01, 0xb5, 0x89, 0x13, 0x00, 0x00, 0x01, 0x00, 0x00,
	0x00, 0x01, 0x20, 0x00, 0xc4, 0x8d, 0x88, 0x00, 0xf5, 0x3c, 0x04, 0x87, 0x14, 0x63, 0x00, 0x00,
	0x01, 0xb2, 0x4c, 0x61, 0x76, 0x63, 0x35, 0x38, 0x2e, 0x31, 0x33, 0x34, 0x2e, 0x31, 0x30, 0x30,
}
var rbMPEG1VideoConf = []byte{
	0x00, 0x00, 0x01, 0xb3, 0x78, 0x04, 0x38, 0x35, 0xff, 0xff, 0xe0, 0x18, 0x00, 0x00, 0x01, 0xb5,
	0x14, 0x4a, 0x00, 0x01, 0x00, 0x00,
}
var rbAC3Frame, _ = hex.DecodeString("0b7747110c402f842bc1077ab0fabbeaef9f577cf9f3f7cf9f3e32fed5c150dec51e73d26ca694464e928c0fb9cfad07544a2ef37d072ea42fbabf39b5c992a6e1b470c5c4b5e65d0fa871a4ccc5bc756792524f7e621ca9d9b5196ad7b04492303bf761d649966698281a95a942adb75090ad1c3480e2efcd410bf09d576278fdc6c2199e2631ca1e75b17a8eb5513afee4f10b4f1490db9f4450bbef74008c1f97a1a2fa721647c6c0e5fe67039cfe6201a1005dffa50359faa8255f6b8351f2c044ff2d054beee0549eae8645f3bd0e42f2bf0f7fc60907dc221177be31275ba4134707329f1fcbb0df3e7d0df3e7cf9f3eaef9f3e7cf9f3e855df3e7cf9f3e7cf9f3e7cf9f3f535df3e7cf9f3e7cf9f3e7cf9f3e7cf9f3e7cf9f3e7cf9f3e7cf9f3e00462826204a5ac08ac5aea05578827a381009c9b80cfa5bc9d2ec4425f820f2c88ae9401806c62bc8ed8f330992281ec424d833a500f5ea18fa909797e8396acff1ddff9e8e0402ae65875c4e72fd3c0186fe565974443a4000ecfc")

func rbMP3Frame() []byte {
	// MPEG-1 layer 3, 64 kbit/s, 44.1 kHz: header ff fa 52 04, 208 bytes
	f := make([]byte, 208)
	copy(f, []byte{0xff, 0xfa, 0x52, 0x04})
	return f
}

func rbFMP4Codec(kind string) fmp4.Codec {
	switch kind {
	case "AV1":
		return &fmp4.CodecAV1{SequenceHeader: rbAV1SeqHdr}
	case "VP9":
		return &fmp4.CodecVP9{Width: 1920, Height: 1080, Profile: 1, BitDepth: 8, ChromaSubsampling: 1}
	case "H264":
		return &fmp4.CodecH264{SPS: tcSPS, PPS: tcPPS}
	case "H265":
		return &fmp4.CodecH265{VPS: []byte{0x40, 0x01, 0x0c, 0x01}, SPS: tcH265SPS, PPS: []byte{0x44, 0x01, 0xc0}}
	case "Opus":
		return &fmp4.CodecOpus{ChannelCount: 2}
	case "MPEG4Audio":
		return &fmp4.CodecMPEG4Audio{Config: mpeg4audio.Config{Type: 2, SampleRate: 44100, ChannelCount: 2}}
	case "MPEG1Audio":
		return &fmp4.CodecMPEG1Audio{SampleRate: 48000, ChannelCount: 2}
	case "AC3":
		return &fmp4.CodecAC3{SampleRate: 48000, ChannelCount: 6, Fscod: 0, Bsid: 8, Bsmod: 0, Acmod: 7, LfeOn: true, BitRateCode: 0xf}
	case "LPCM":
		return &fmp4.CodecLPCM{BitDepth: 24, SampleRate: 48000, ChannelCount: 2}
	case "MJPEG":
		return &fmp4.CodecMJPEG{Width: 640, Height: 480}
	case "MPEG4Video":
		return &fmp4.CodecMPEG4Video{Config: rbMPEG4VideoConf}
	case "MPEG1Video":
		return &fmp4.CodecMPEG1Video{Config: rbMPEG1VideoConf}
	}
	panic("unknown fmp4 kind " + kind)
}

// rbFMP4Payload: a payload the codec's decoder accepts (bad=false) or rejects (bad=true; only AVCC / OBU codecs can reject)
func rbFMP4Payload(kind string, pid int64, first bool, bad bool) []byte {
	pl := e2ePayload(pid)
	switch kind {
	case "H264", "H265":
		if bad {
			return []byte{0x00, 0x00, 0x00, 0x09, 0x01} // AVCC length past the end
		}
		typ := byte(1)
		if first {
			typ = 5
		}
		if kind == "H265" {
			typ = 2 // TRAIL_R << 1
		}
		enc, err := h264.AVCC([][]byte{append([]byte{typ}, pl...)}).Marshal()
		if err != nil {
			panic(err)
		}
		return enc
	case "AV1":
		if bad {
			return []byte{0x0a, 0x7f} // OBU size past the end
		}
		return append([]byte{}, rbAV1SeqHdr...)
	}
	return pl
}

func rbTSCodec(kind string) mpegts.Codec {
	switch kind {
	case "H264":
		return &mpegts.CodecH264{}
	case "H265":
		return &mpegts.CodecH265{}
	case "MPEG4Video":
		return &mpegts.CodecMPEG4Video{}
	case "MPEG1Video":
		return &mpegts.CodecMPEG1Video{}
	case "MPEG4Audio":
		return &mpegts.CodecMPEG4Audio{Config: mpeg4audio.Config{Type: 2, SampleRate: 44100, ChannelCount: 2}}
	case "MPEG1Audio":
		return &mpegts.CodecMPEG1Audio{}
	case "AC3":
		return &mpegts.CodecAC3{SampleRate: 48000, ChannelCount: 1}
	case "Opus":
		return &mpegts.CodecOpus{ChannelCount: 2}
	}
	panic("unknown ts kind " + kind)
}

type rbTSWrite struct {
	t        int
	pts, dts int64
	pid      int64
	first    bool
}

func rbBuildTS(kinds []string, ws []rbTSWrite) ([]byte, error) {
	var buf bytes.Buffer
	var tracks []*mpegts.Track
	for i, k := range kinds {
		tracks = append(tracks, &mpegts.Track{PID: uint16(256 + i), Codec: rbTSCodec(k)})
	}
	w := &mpegts.Writer{W: &buf, Tracks: tracks}
	if err := w.Initialize(); err != nil {
		return nil, err
	}
	for _, x := range ws {
		var err error
		pl := e2ePayload(x.pid)
		switch kinds[x.t] {
		case "H264":
			typ := byte(1)
			if x.first {
				typ = 5
			}
			err = w.WriteH264(tracks[x.t], x.pts, x.dts, [][]byte{append([]byte{typ}, pl...)})
		case "H265":
			typ := byte(2)
			if x.first {
				typ = 19 << 1
			}
			err = w.WriteH265(tracks[x.t], x.pts, x.dts, [][]byte{append([]byte{typ, 1}, pl...)})
		case "MPEG4Video":
			err = w.WriteMPEG4Video(tracks[x.t], x.pts, append(append([]byte{}, rbMPEG4VideoConf...), pl...))
		case "MPEG1Video":
			err = w.WriteMPEG1Video(tracks[x.t], x.pts, append(append([]byte{}, rbMPEG1VideoConf...), pl...))
		case "MPEG4Audio":
			err = w.WriteMPEG4Audio(tracks[x.t], x.pts, [][]byte{pl})
		case "MPEG1Audio":
			err = w.WriteMPEG1Audio(tracks[x.t], x.pts, [][]byte{rbMP3Frame()})
		case "AC3":
			err = w.WriteAC3(tracks[x.t], x.pts, rbAC3Frame)
		case "Opus":
			err = w.WriteOpus(tracks[x.t], x.pts, [][]byte{pl})
		}
		if err != nil {
			return nil, err
		}
	}
	return append([]byte{}, buf.Bytes()...), nil
}

// playlists --------------------------------------------------------------------------------------------------

type rbPlOpt struct {
	s       int
	ext     string
	mapURI  string // "" = no EXT-X-MAP
	vod     bool
	msn     int
	first   int // index of the first listed file
	n       int // number of listed files
	endlist bool
	pdt     map[int]int64
	// low latency
	ll       bool
	hintFile int // -1: no hint
	hintMiss bool
}

func rbMediaPlaylist(o rbPlOpt) string {
	var b strings.Builder
	b.WriteString("#EXTM3U\n#EXT-X-VERSION:9\n#EXT-X-TARGETDURATION:1\n")
	if o.ll {
		b.WriteString("#EXT-X-SERVER-CONTROL:CAN-BLOCK-RELOAD=YES,PART-HOLD-BACK=1.00000\n#EXT-X-PART-INF:PART-TARGET=0.50000\n")
	}
	fmt.Fprintf(&b, "#EXT-X-MEDIA-SEQUENCE:%d\n", o.msn)
	if o.vod {
		b.WriteString("#EXT-X-PLAYLIST-TYPE:VOD\n")
	}
	if o.mapURI != "" {
		fmt.Fprintf(&b, "#EXT-X-MAP:URI=\"%s\"\n", o.mapURI)
	}
	for i := o.first; i < o.first+o.n; i++ {
		if t, ok := o.pdt[i]; ok {
			fmt.Fprintf(&b, "#EXT-X-PROGRAM-DATE-TIME:%s\n", time.Unix(0, t).UTC().Format("2006-01-02T15:04:05.000Z07:00"))
		}
		fmt.Fprintf(&b, "#EXTINF:1.00000,\ns%d_f%d.%s\n", o.s, i, o.ext)
	}
	if o.ll && o.hintFile >= 0 {
		name := fmt.Sprintf("s%d_f%d.%s", o.s, o.hintFile, o.ext)
		if o.hintMiss {
			name = "nothing_here.mp4"
		}
		fmt.Fprintf(&b, "#EXT-X-PRELOAD-HINT:TYPE=PART,URI=\"%s\"\n", name)
	}
	if o.endlist {
		b.WriteString("#EXT-X-ENDLIST\n")
	}
	return b.String()
}

// rbMultivariant: the primary playlist of the `rend` layout. lead=false: no variant with supported codecs;
// audio: none (no AUDIO attribute), found, missing (AUDIO names a group that does not exist)
func rbMultivariant(nstreams int, lead bool, audio string) string {
	var b strings.Builder
	b.WriteString("#EXTM3U\n")
	for s := 1; s < nstreams; s++ {
		def := "NO"
		if s == 1 {
			def = "YES"
		}
		fmt.Fprintf(&b, "#EXT-X-MEDIA:TYPE=AUDIO,GROUP-ID=\"aud\",NAME=\"a%d\",DEFAULT=%s,AUTOSELECT=YES,LANGUAGE=\"l%d\",URI=\"s%d.m3u8\"\n", s, def, s, s)
	}
	// a rendition without URI (data in the leading playlist): skipped by the client
	b.WriteString("#EXT-X-MEDIA:TYPE=AUDIO,GROUP-ID=\"aud\",NAME=\"inband\",DEFAULT=NO,AUTOSELECT=YES\n")
	codecs := "avc1.640015,mp4a.40.2"
	if !lead {
		codecs = "vp09.00.10.08,ac-3"
	}
	a := ""
	switch audio {
	case "found":
		a = ",AUDIO=\"aud\""
	case "missing":
		a = ",AUDIO=\"elsewhere\""
	}
	fmt.Fprintf(&b, "#EXT-X-STREAM-INF:BANDWIDTH=1000000,CODECS=\"%s\"%s\ns0.m3u8\n", codecs, a)
	return b.String()
}
