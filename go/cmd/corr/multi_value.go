package main

import (
	"encoding/hex"
	"errors"
	"fmt"
	"io"
	"math"
	"strconv"
	"strings"
	"time"

	"github.com/bluenviron/gohlslib/v2/pkg/playlist"
)

// Canonical field syntax of a playlist.Multivariant value (shared with lean/Drv/Multi.lean):
//
//	v=<int> is=0|1 [st=<ns>]
//	{ R t=<hex> g=<hex> n=<hex> l=<hex> a=0|1 d=0|1 f=0|1 [ch=<hex>] [u=<hex>] [i=<hex>] }
//	{ V b=<int> [ab=<int>] [c=<hex>,<hex>…] r=<hex> [fr=<float64 bits>] vi=<hex> au=<hex> su=<hex> cc=<hex> u=<hex> }
//
// strings are hex encoded ("-" = empty); an optional field is absent when its token is absent.

const canonicalNaN = 0x7FF8000000000001

func hx(s string) string { return hexOrDash([]byte(s)) }

func unhx(s string) (string, error) {
	if s == "-" {
		return "", nil
	}
	b, err := hex.DecodeString(s)
	return string(b), err
}

func mvalB01(b bool) string {
	if b {
		return "1"
	}
	return "0"
}

func f64bits(f float64) uint64 {
	if f != f {
		return canonicalNaN
	}
	return math.Float64bits(f)
}

func fmtMulti(m *playlist.Multivariant) string {
	w := []string{"v=" + strconv.Itoa(m.Version), "is=" + mvalB01(m.IndependentSegments)}
	if m.Start != nil {
		w = append(w, "st="+strconv.FormatInt(int64(m.Start.TimeOffset), 10))
	}
	for _, r := range m.Renditions {
		w = append(w, "R", "t="+hx(string(r.Type)), "g="+hx(r.GroupID), "n="+hx(r.Name), "l="+hx(r.Language),
			"a="+mvalB01(r.Autoselect), "d="+mvalB01(r.Default), "f="+mvalB01(r.Forced))
		if r.Channels != nil {
			w = append(w, "ch="+hx(*r.Channels))
		}
		if r.URI != nil {
			w = append(w, "u="+hx(*r.URI))
		}
		if r.InStreamID != nil {
			w = append(w, "i="+hx(*r.InStreamID))
		}
	}
	for _, v := range m.Variants {
		w = append(w, "V", "b="+strconv.Itoa(v.Bandwidth))
		if v.AverageBandwidth != nil {
			w = append(w, "ab="+strconv.Itoa(*v.AverageBandwidth))
		}
		if len(v.Codecs) != 0 {
			var cs []string
			for _, c := range v.Codecs {
				cs = append(cs, hx(c))
			}
			w = append(w, "c="+strings.Join(cs, ","))
		}
		w = append(w, "r="+hx(v.Resolution))
		if v.FrameRate != nil {
			w = append(w, "fr="+strconv.FormatUint(f64bits(*v.FrameRate), 10))
		}
		w = append(w, "vi="+hx(v.Video), "au="+hx(v.Audio), "su="+hx(v.Subtitles), "cc="+hx(v.ClosedCaptions), "u="+hx(v.URI))
	}
	return strings.Join(w, " ")
}

func parseMulti(ws []string) (*playlist.Multivariant, error) {
	m := &playlist.Multivariant{}
	var r *playlist.MultivariantRendition
	var v *playlist.MultivariantVariant
	cur := 0
	for _, w := range ws {
		if w == "R" {
			r = &playlist.MultivariantRendition{}
			m.Renditions = append(m.Renditions, r)
			cur = 1
			continue
		}
		if w == "V" {
			v = &playlist.MultivariantVariant{}
			m.Variants = append(m.Variants, v)
			cur = 2
			continue
		}
		kv := strings.SplitN(w, "=", 2)
		if len(kv) != 2 {
			return nil, fmt.Errorf("bad token %q", w)
		}
		k, x := kv[0], kv[1]
		str := func() string {
			s, err := unhx(x)
			if err != nil {
				panic(err)
			}
			return s
		}
		num := func() int {
			n, err := strconv.ParseInt(x, 10, 64)
			if err != nil {
				panic(err)
			}
			return int(n)
		}
		switch cur {
		case 0:
			switch k {
			case "v":
				m.Version = num()
			case "is":
				m.IndependentSegments = x == "1"
			case "st":
				m.Start = &playlist.MultivariantStart{TimeOffset: time.Duration(num())}
			default:
				return nil, fmt.Errorf("bad key %q", k)
			}
		case 1:
			switch k {
			case "t":
				r.Type = playlist.MultivariantRenditionType(str())
			case "g":
				r.GroupID = str()
			case "n":
				r.Name = str()
			case "l":
				r.Language = str()
			case "a":
				r.Autoselect = x == "1"
			case "d":
				r.Default = x == "1"
			case "f":
				r.Forced = x == "1"
			case "ch":
				s := str()
				r.Channels = &s
			case "u":
				s := str()
				r.URI = &s
			case "i":
				s := str()
				r.InStreamID = &s
			default:
				return nil, fmt.Errorf("bad key %q", k)
			}
		default:
			switch k {
			case "b":
				v.Bandwidth = num()
			case "ab":
				n := num()
				v.AverageBandwidth = &n
			case "c":
				for _, c := range strings.Split(x, ",") {
					s, err := unhx(c)
					if err != nil {
						return nil, err
					}
					v.Codecs = append(v.Codecs, s)
				}
			case "r":
				v.Resolution = str()
			case "fr":
				b, err := strconv.ParseUint(x, 10, 64)
				if err != nil {
					return nil, err
				}
				f := math.Float64frombits(b)
				v.FrameRate = &f
			case "vi":
				v.Video = str()
			case "au":
				v.Audio = str()
			case "su":
				v.Subtitles = str()
			case "cc":
				v.ClosedCaptions = str()
			case "u":
				v.URI = str()
			default:
				return nil, fmt.Errorf("bad key %q", k)
			}
		}
	}
	return m, nil
}

// multiErrClass maps a Go error of pkg/playlist to the model's error class.
func multiErrClass(err error) string {
	if err == io.EOF {
		return "eof"
	}
	msg := err.Error()
	for _, w := range []struct{ prefix, ctx string }{{"invalid variant: ", "variant"}, {"invalid rendition: ", "rendition"}} {
		if strings.HasPrefix(msg, w.prefix) {
			if in := errors.Unwrap(err); in != nil {
				return w.ctx + ":" + multiErrClass(in)
			}
		}
	}
	var ne *strconv.NumError
	if errors.As(err, &ne) {
		return "num"
	}
	for _, c := range []struct{ prefix, cls string }{
		{"M3U8 header is missing", "hdr"},
		{"key not found", "attr-key"},
		{"value end delimiter not found", "attr-quote"},
		{"delimiter not found", "attr-delim"},
		{"unsupported HLS version", "version"},
		{"TIME-OFFSET missing", "start-offset"},
		{"invalid URI", "uri"},
		{"invalid type", "type"},
		{"missing type", "notype"},
		{"GROUP-ID missing", "nogroup"},
		{"URI is forbidden", "uri-forbidden"},
		{"URI is required", "uri-required"},
		{"missing INSTREAM-ID", "noinstream"},
		{"INSTREAM-ID is forbidden", "instream-forbidden"},
		{"CHANNELS is forbidden", "channels-forbidden"},
		{"no variants found", "novariants"},
	} {
		if strings.HasPrefix(msg, c.prefix) {
			return c.cls
		}
	}
	return "unknown(" + msg + ")"
}
