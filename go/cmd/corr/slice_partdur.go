package main

import (
	"fmt"
	"math/big"
	"math/rand"
	"net/http"
	"net/url"
	"sort"
	"strconv"
	"strings"
	"time"

	"github.com/bluenviron/gohlslib/v2"
	"github.com/bluenviron/gohlslib/v2/pkg/codecs"
	"github.com/bluenviron/mediacommon/v2/pkg/codecs/mpeg4audio"
)

// partdur slice (C19): (i) the unexported integer functions of muxer_segmenter.go
// against their regenerated Lean translations, (ii) a real Low-Latency Muxer fed a
// single leading track, observed after every write (exported part state) and
// through its served media playlist (direct oracle = the property text).

type partdurSlice struct{}

func init() { register(partdurSlice{}) }

func (partdurSlice) Name() string { return "partdur" }

const (
	pdMs  = int64(1000000)
	pdSec = int64(1000000000)
)

// baseline profile without POC (muxer_test.go testSPS): DTS = PTS
var pdTestSPS = []byte{
	0x67, 0x42, 0xc0, 0x28, 0xd9, 0x00, 0x78, 0x02,
	0x27, 0xe5, 0x84, 0x00, 0x00, 0x03, 0x00, 0x04,
	0x00, 0x00, 0x03, 0x00, 0xf0, 0x3c, 0x60, 0xc9,
	0x20,
}

func (partdurSlice) Corpus() [][]string {
	constRun := func(start string, d int64, n int, gop int, plEvery int) []string {
		ops := []string{start}
		for i := 0; i < n; i++ {
			ra := 0
			if gop > 0 && i%gop == 0 {
				ra = 1
			}
			ops = append(ops, fmt.Sprintf("w dts=%d ra=%d", int64(i)*d, ra))
			if plEvery > 0 && i%plEvery == plEvery-1 {
				ops = append(ops, "pl")
			}
		}
		return append(ops, "pl")
	}
	return [][]string{
		// boundary vectors of the pure functions
		{
			"compat 85000000 20000000", "compat 85000001 20000000", "compat 84999999 20000000",
			"compat 200000000 33333333", "compat 50000000 40000000", "compat 40000000 40000000", "compat 39999999 40000000",
			"compat 0 0", "compat 5 0", "compat -5 0", "compat -5 -7", "compat 100 -7",
			"find 50000000 40000000", "find 200000000 33333333", "find 4999999999 1000000000", "find 5000000000 7", "find 6000000000 7",
			"find 4996000000 4999000000", "find 200000000 33333333,23219954", "find 100000000 -3",
			"t2d 3000 90000", "t2d -3000 90000", "t2d 1024 44100", "t2d 5 0", "d2t 10000000000 90000", "d2t -1 90000", "d2t 10000000000 0",
			"mad 7 3 2", "mad -7 3 2", "mad 7 3 -2", "mad -7 -3 -2", "mad 1 1 0", "mad2 899999 1000000000 90000",
		},
		// 30 fps, PartMinDuration 200 ms: parts of 6 samples although ceil(a/s) = 7 with the floored s
		constRun("start m=200000000 segmin=1000000000 segcount=7 rate=90000 codec=h264", 3000, 200, 30, 17),
		// 29.97 fps
		constRun("start m=200000000 segmin=2000000000 segcount=7 rate=90000 codec=h264", 3003, 300, 60, 23),
		// AAC 44.1 kHz, every sample is a random access point
		constRun("start m=200000000 segmin=1000000000 segcount=7 rate=44100 codec=aac", 1024, 400, 1, 29),
		// 1 fps, PartMinDuration 50 ms: one sample per part
		constRun("start m=50000000 segmin=2000000000 segcount=7 rate=90000 codec=h264", 90000, 30, 2, 3),
		// Opus 20 ms, PartMinDuration 2 s
		constRun("start m=2000000000 segmin=4000000000 segcount=8 rate=48000 codec=opus", 960, 900, 1, 101),
		// 25 fps, 50 ms: the search has to walk (a = 70 ms)
		constRun("start m=50000000 segmin=500000000 segcount=7 rate=90000 codec=h264", 3600, 150, 25, 7),
		// F17 (finding candidate): PartMinDuration 1 ns above 6 AAC frames at 88.2 kHz: parts of 6 and of 7
		// frames alternate with the phase of the part start; 69.66 ms < 85 % of PART-TARGET 82 ms
		constRun("start m=69659864 segmin=1000000000 segcount=7 rate=88200 codec=aac", 1024, 260, 1, 10),
		// F17, 29.97 fps, PartMinDuration 1 ns above 7 frames: 7- and 8-frame parts alternate (85 % still met)
		constRun("start m=233566667 segmin=4000000000 segcount=7 rate=90000 codec=h264", 3003, 330, 150, 10),
	}
}

var pdVideoTicks = []int64{
	// 90000/fps for the integer frame rates 1..120 that are constant in ticks, and 30000/1001
	90000, 45000, 30000, 22500, 18000, 15000, 11250, 10000, 9000, 7500, 6000, 5625, 5000, 4500, 3750, 3600, 3003, 3000,
	2500, 2250, 2000, 1875, 1800, 1500, 1250, 1200, 1125, 1000, 900, 750,
}
var pdAACRates = []int{8000, 11025, 12000, 16000, 22050, 24000, 32000, 44100, 48000, 64000, 88200, 96000}
var pdOpusTicks = []int64{120, 240, 480, 960, 1920, 2880}

func pdCeilDiv(a, b int64) int64 {
	q := a / b
	if a%b != 0 {
		q++
	}
	return q
}

func (partdurSlice) Gen(r *rand.Rand, _ int, tier string) ([]string, []string) {
	if r.Intn(5) == 0 {
		return pdGenPure(r)
	}
	return pdGenE2E(r, tier)
}

func pdPickI64(r *rand.Rand, xs ...int64) int64 { return xs[r.Intn(len(xs))] }

func pdGenPure(r *rand.Rand) ([]string, []string) {
	var ops []string
	n := 20 + r.Intn(30)
	small := func() int64 { return int64(r.Intn(5)) - 2 }
	sampleDur := func() int64 {
		switch r.Intn(4) {
		case 0:
			d := pdVideoTicks[r.Intn(len(pdVideoTicks))]
			return d * pdSec / 90000
		case 1:
			rt := int64(pdAACRates[r.Intn(len(pdAACRates))])
			return 1024 * pdSec / rt
		case 2:
			return pdOpusTicks[r.Intn(len(pdOpusTicks))] * pdSec / 48000
		default:
			return 1 + r.Int63n(1100*pdMs)
		}
	}
	for len(ops) < n {
		switch r.Intn(6) {
		case 0: // multiplyAndDivide(2): boundary heavy, all sign combinations, no int64 overflow
			d := pdPickI64(r, 1, 2, 3, 90000, 44100, 48000, pdSec, 1+r.Int63n(1<<20))
			m := pdPickI64(r, 0, 1, 90000, 44100, 48000, pdSec, r.Int63n(1<<20))
			var v int64
			switch r.Intn(4) {
			case 0:
				v = small()
			case 1:
				v = d*int64(r.Intn(1000)) + small()
			case 2:
				v = r.Int63n(1 << 40)
			default:
				v = r.Int63n(1 << 20)
			}
			if r.Intn(3) == 0 {
				v = -v
			}
			if r.Intn(6) == 0 {
				d = -d
			}
			if r.Intn(8) == 0 {
				m = -m
			}
			if r.Intn(25) == 0 {
				d = 0
			}
			// |v/d*m| and |(v%d)*m| must stay below 2^62
			if d != 0 {
				q := new(big.Int).Mul(big.NewInt(v/d), big.NewInt(m))
				p := new(big.Int).Mul(big.NewInt(d), big.NewInt(m))
				lim := new(big.Int).Lsh(big.NewInt(1), 62)
				if q.CmpAbs(lim) >= 0 || p.CmpAbs(lim) >= 0 {
					continue
				}
			}
			name := "mad"
			if r.Intn(2) == 0 {
				name = "mad2"
			}
			ops = append(ops, fmt.Sprintf("%s %d %d %d", name, v, m, d))
		case 1: // timestampToDuration
			rate := pdPickI64(r, 90000, 44100, 48000, 8000, 96000, 1, 1000, 1+r.Int63n(200000))
			var t int64
			switch r.Intn(4) {
			case 0:
				t = small()
			case 1:
				t = rate*int64(r.Intn(100000)) + small()
			default:
				t = r.Int63n(min(int64(1)<<42, rate<<31)) // t/rate*1e9 stays far below 2^63
			}
			if r.Intn(4) == 0 {
				t = -t
			}
			if r.Intn(30) == 0 {
				rate = 0
			}
			ops = append(ops, fmt.Sprintf("t2d %d %d", t, rate))
		case 2: // durationToTimestamp
			rate := pdPickI64(r, 90000, 44100, 48000, 8000, 96000, 0, 1, 1+r.Int63n(200000))
			var d int64
			switch r.Intn(4) {
			case 0:
				d = small()
			case 1:
				d = pdSec*int64(r.Intn(100000)) + small()
			case 2:
				d = 10 * pdSec
			default:
				d = r.Int63n(1 << 50)
			}
			if r.Intn(4) == 0 {
				d = -d
			}
			ops = append(ops, fmt.Sprintf("d2t %d %d", d, rate))
		case 3: // partDurationIsCompatible around k*sd and around the 85% threshold
			sd := sampleDur()
			if r.Intn(3) == 0 {
				sd = 20 * (1 + r.Int63n(50*pdMs)) // 85*k*sd divisible by 100: the threshold itself is reachable
			}
			k := int64(1 + r.Intn(9))
			var pd int64
			switch r.Intn(5) {
			case 0:
				pd = k*sd + small()
			case 1:
				pd = 85*k*sd/100 + small()
			case 2:
				pd = (k-1)*sd + 1 + r.Int63n(sd)
			case 3:
				pd = r.Int63n(3 * pdSec)
			default:
				pd = 5*pdMs*int64(r.Intn(1000)) + small()
			}
			if r.Intn(20) == 0 {
				sd = -sd
			}
			if r.Intn(20) == 0 {
				pd = -pd
			}
			if r.Intn(40) == 0 {
				sd = 0
			}
			ops = append(ops, fmt.Sprintf("compat %d %d", pd, sd))
		default: // findCompatiblePartDuration
			var m int64
			switch r.Intn(6) {
			case 0:
				m = 5 * pdMs * int64(10+r.Intn(391))
			case 1:
				m = pdMs * int64(50+r.Intn(1951))
			case 2:
				m = 50*pdMs + r.Int63n(1950*pdMs)
			case 3:
				m = 4900*pdMs + r.Int63n(200*pdMs) // around the 5 s cap
			case 4:
				m = 1 + r.Int63n(60*pdMs) // below the property's range
			default:
				m = pdPickI64(r, 50*pdMs, 200*pdMs, 2000*pdMs, 5000*pdMs, 5000*pdMs-1, 5000*pdMs+1, 4995*pdMs)
			}
			cnt := 1
			if r.Intn(4) == 0 {
				cnt = 2 + r.Intn(2)
			}
			var sds []string
			for i := 0; i < cnt; i++ {
				sd := sampleDur()
				if r.Intn(5) == 0 {
					// near a multiple relation with m
					k := int64(1 + r.Intn(8))
					sd = m/k + small()
					if sd <= 0 {
						sd = 1
					}
				}
				if r.Intn(40) == 0 {
					sd = -sd
				}
				sds = append(sds, strconv.FormatInt(sd, 10))
			}
			ops = append(ops, fmt.Sprintf("find %d %s", m, strings.Join(sds, ",")))
		}
	}
	return ops, []string{"pure"}
}

func pdGenE2E(r *rand.Rand, tier string) ([]string, []string) {
	var tags []string
	codec, rate, d := "h264", int64(90000), int64(3000)
	switch x := r.Intn(20); {
	case x < 11:
		d = pdVideoTicks[r.Intn(len(pdVideoTicks))]
		tags = append(tags, "h264")
		if r.Intn(6) == 0 {
			d = 750 + r.Int63n(90000-750) // arbitrary constant tick duration
			tags = append(tags, "odd-ticks")
		}
	case x < 16:
		codec = "aac"
		rate = int64(pdAACRates[r.Intn(len(pdAACRates))])
		d = 1024
		tags = append(tags, "aac")
	default:
		codec, rate = "opus", 48000
		d = pdOpusTicks[r.Intn(len(pdOpusTicks))]
		tags = append(tags, "opus")
	}
	sNs := d * pdSec / rate // floored, as the muxer sees it

	var m int64
	switch x := r.Intn(20); {
	case x < 9:
		m = 5 * pdMs * int64(10+r.Intn(391))
		tags = append(tags, "m-5ms-grid")
	case x < 14:
		m = pdMs * int64(50+r.Intn(1951))
		tags = append(tags, "m-1ms-grid")
	case x < 16:
		m = pdPickI64(r, 50*pdMs, 200*pdMs, 2000*pdMs, 1000*pdMs)
		tags = append(tags, "m-boundary")
	case x < 19:
		// next to a whole number of samples (rounded to the 1 ms grid)
		k := int64(1 + r.Intn(12))
		m = (k*sNs/pdMs + int64(r.Intn(3)) - 1) * pdMs
		if m < 50*pdMs {
			m = 50 * pdMs
		}
		if m > 2000*pdMs {
			m = 2000 * pdMs
		}
		tags = append(tags, "m-near-k-samples")
	default:
		m = 50*pdMs + r.Int63n(1950*pdMs)
		tags = append(tags, "m-offgrid")
	}

	// generator-side shaping only: rough samples per part and per segment
	kPart := pdCeilDiv(max(m, sNs), max(sNs, 1))
	segMin := pdPickI64(r, 100*pdMs, 500*pdMs, pdSec, 2*pdSec, 4*pdSec, 100*pdMs+r.Int63n(3900*pdMs))
	kSeg := pdCeilDiv(segMin, max(sNs, 1))
	segCount := 7 + r.Intn(3)

	var gop int64
	irregular := false
	switch r.Intn(13) {
	case 0:
		gop = 1
	case 1:
		gop = 2
	case 2:
		gop = kPart - 1
	case 3:
		gop = kPart
	case 4:
		gop = kPart + 1
	case 5:
		gop = 2 * kPart
	case 6:
		gop = 2*kPart + 1
	case 7:
		gop = 3*kPart + 2
	case 8:
		gop = kSeg - 1
	case 9:
		gop = kSeg
	case 10:
		gop = kSeg + 1
	case 11:
		gop = 2*kSeg + 3
	default:
		irregular = true
		gop = kPart + 1
	}
	if gop < 1 {
		gop = 1
	}
	if codec != "h264" {
		gop = 1 // every audio sample is a random access point
		irregular = false
	}
	if irregular {
		tags = append(tags, "gop-irregular")
	} else {
		switch {
		case gop == 1:
			tags = append(tags, "gop=1")
		case gop < kPart:
			tags = append(tags, "gop<part")
		case gop == kPart:
			tags = append(tags, "gop=part")
		case gop < kSeg:
			tags = append(tags, "part<gop<seg")
		default:
			tags = append(tags, "gop>=seg")
		}
	}

	capN := int64(2500)
	if tier == "thorough" {
		capN = 8000
	}
	n := 5*max(gop, kSeg) + 4*kPart + int64(r.Intn(40))
	if n > capN {
		n = capN
	}
	if n < 12 {
		n = 12
	}

	var base int64
	switch r.Intn(6) {
	case 0:
		base = r.Int63n(1 << 32)
		tags = append(tags, "base-large")
	case 1:
		base = -10*rate - d*int64(r.Intn(5)) - int64(r.Intn(3)) // first samples have negative fMP4 time and are dropped
		tags = append(tags, "base-negative")
	case 2:
		base = r.Int63n(rate)
	default:
		base = 0
	}

	jitter := r.Intn(12) == 0
	if jitter {
		tags = append(tags, "jitter")
	} else {
		tags = append(tags, "constant")
	}

	ops := []string{fmt.Sprintf("start m=%d segmin=%d segcount=%d rate=%d codec=%s", m, segMin, segCount, rate, codec)}
	plEvery := 1 + r.Intn(int(max(n/6, 2)))
	burstAt := int64(-1)
	if r.Intn(2) == 0 {
		burstAt = r.Int63n(n)
	}
	dts := base
	nextKey := int64(0)
	for i := int64(0); i < n; i++ {
		ra := 0
		if i == nextKey {
			ra = 1
			if irregular {
				nextKey = i + 1 + r.Int63n(2*gop+1)
			} else {
				nextKey = i + gop
			}
		}
		ops = append(ops, fmt.Sprintf("w dts=%d ra=%d", dts, ra))
		step := d
		if jitter {
			switch r.Intn(4) {
			case 0:
				step = d + 1
			case 1:
				if d > 1 {
					step = d - 1
				}
			}
			if r.Intn(50) == 0 {
				step = 0 // duplicate DTS
			}
		}
		dts += step
		if i%int64(plEvery) == int64(plEvery)-1 || (burstAt >= 0 && i >= burstAt && i < burstAt+3*kPart+3) {
			ops = append(ops, "pl")
		}
	}
	ops = append(ops, "pl")
	tags = append(tags, "e2e")
	return ops, tags
}

// ------------------------------------------------------------------------------------------
// runner

type pdPlaylist struct {
	target  int64     // PART-TARGET in ns
	segs    [][]int64 // #EXT-X-PART durations (ns, 10 us resolution) per listed complete segment that has parts
	open    []int64   // parts of the open segment
	hasPart bool
}

type partdurRunner struct {
	m       *gohlslib.Muxer
	track   *gohlslib.Track
	codec   string
	rate    int64
	partMin int64
	chg     int
	encErrs []string
	fails   []string

	// what the property quantifies over, tracked from the op lines themselves
	nW       int
	lastDTS  int64
	delta    int64 // constant sample duration in ticks, 0 = not yet known
	constant bool
	lastPT   int64 // PART-TARGET of the previous playlist that listed a non-final part (0 = none)
	chgAtPT  int
	pureFail int
}

func (partdurSlice) NewRunner() Runner { return &partdurRunner{constant: true} }

func (r *partdurRunner) Close() {
	if r.m != nil {
		r.m.Close()
		r.m = nil
	}
}

func (r *partdurRunner) Oracle() []string { return r.fails }

func (r *partdurRunner) fail(format string, a ...any) {
	if len(r.fails) < 20 {
		msg := fmt.Sprintf(format, a...)
		// Finding candidate F17 (notes/muxarith.md): with a PartMinDuration that is not a whole number of
		// milliseconds the part switch can depend on the phase of the part start. The lines are labelled so
		// that known_findings.json (or, until it has the entry, checks/C19.json oracle_filter) can match them.
		if r.m != nil && r.partMin%pdMs != 0 {
			msg = "F17-offgrid: " + msg
		}
		r.fails = append(r.fails, msg)
	}
}

func pdKV(ws []string, key string) (string, bool) {
	for _, w := range ws {
		if strings.HasPrefix(w, key+"=") {
			return w[len(key)+1:], true
		}
	}
	return "", false
}

func pdKVInt(ws []string, key string) (int64, bool) {
	s, ok := pdKV(ws, key)
	if !ok {
		return 0, false
	}
	v, err := strconv.ParseInt(s, 10, 64)
	return v, err == nil
}

func pdFmtDurs(ds []time.Duration) string {
	if len(ds) == 0 {
		return "-"
	}
	s := make([]string, len(ds))
	for i, d := range ds {
		s[i] = strconv.FormatInt(int64(d), 10)
	}
	return strings.Join(s, ",")
}

func pdDiv0(f func() string) (out string) {
	defer func() {
		if e := recover(); e != nil {
			if strings.Contains(fmt.Sprint(e), "divide by zero") {
				out = "panic:div0"
				return
			}
			panic(e)
		}
	}()
	return f()
}

func pdBool(b bool) string {
	if b {
		return "b1"
	}
	return "b0"
}

// independent statement of the 85 % rule in exact arithmetic (positive operands):
// a whole number of samples covering pd, of which pd is more than 85 %.
func pdRefCompat(pd, sd int64) bool {
	if sd > pd {
		return false
	}
	k := new(big.Int).Div(new(big.Int).Add(big.NewInt(pd), big.NewInt(sd-1)), big.NewInt(sd)) // ceil
	f := new(big.Int).Mul(k, big.NewInt(sd))
	lhs := new(big.Int).Mul(big.NewInt(100), big.NewInt(pd))
	rhs := new(big.Int).Mul(big.NewInt(85), f)
	return lhs.Cmp(rhs) > 0
}

func (r *partdurRunner) Step(line string) []string {
	ws := strings.Fields(line)
	if len(ws) == 0 {
		return nil
	}
	argI := func(i int) int64 {
		v, _ := strconv.ParseInt(ws[i], 10, 64)
		return v
	}
	switch ws[0] {
	case "mad":
		if len(ws) != 4 {
			return []string{"bad-op"}
		}
		return []string{pdDiv0(func() string {
			return "n" + strconv.FormatInt(gohlslib.VerifMultiplyAndDivide(argI(1), argI(2), argI(3)), 10)
		})}
	case "mad2":
		if len(ws) != 4 {
			return []string{"bad-op"}
		}
		return []string{pdDiv0(func() string {
			return "n" + strconv.FormatInt(int64(gohlslib.VerifMultiplyAndDivide2(
				time.Duration(argI(1)), time.Duration(argI(2)), time.Duration(argI(3)))), 10)
		})}
	case "d2t":
		if len(ws) != 3 {
			return []string{"bad-op"}
		}
		return []string{pdDiv0(func() string {
			return "n" + strconv.FormatInt(gohlslib.VerifDurationToTimestamp(time.Duration(argI(1)), int(argI(2))), 10)
		})}
	case "t2d":
		if len(ws) != 3 {
			return []string{"bad-op"}
		}
		out := pdDiv0(func() string {
			return "n" + strconv.FormatInt(int64(gohlslib.VerifTimestampToDuration(argI(1), int(argI(2)))), 10)
		})
		// direct oracle: exact floor for non-negative operands
		if t, rt := argI(1), argI(2); t >= 0 && rt > 0 {
			want := new(big.Int).Div(new(big.Int).Mul(big.NewInt(t), big.NewInt(pdSec)), big.NewInt(rt))
			if out != "n"+want.String() {
				r.fail("timestampToDuration(%d,%d) = %s, exact floor is %s", t, rt, out, want)
			}
		}
		return []string{out}
	case "compat":
		if len(ws) != 3 {
			return []string{"bad-op"}
		}
		pd, sd := argI(1), argI(2)
		out := pdDiv0(func() string {
			return pdBool(gohlslib.VerifPartDurationIsCompatible(time.Duration(pd), time.Duration(sd)))
		})
		if pd > 0 && sd > 0 && out != pdBool(pdRefCompat(pd, sd)) {
			r.fail("partDurationIsCompatible(%d,%d) = %s, the 85%% rule says %s", pd, sd, out, pdBool(pdRefCompat(pd, sd)))
		}
		return []string{out}
	case "find":
		if len(ws) != 3 {
			return []string{"bad-op"}
		}
		m := argI(1)
		var sds []time.Duration
		allPos := true
		for _, s := range strings.Split(ws[2], ",") {
			v, _ := strconv.ParseInt(s, 10, 64)
			sds = append(sds, time.Duration(v))
			if v <= 0 {
				allPos = false
			}
		}
		res := int64(gohlslib.VerifFindCompatiblePartDuration(time.Duration(m), sds))
		// direct oracle (property mechanism text): smallest 5 ms step >= min that keeps the 85 % rule
		if allPos && m > 0 {
			okAll := func(x int64) bool {
				for _, sd := range sds {
					if !pdRefCompat(x, int64(sd)) {
						return false
					}
				}
				return true
			}
			if res < m || (res-m)%(5*pdMs) != 0 {
				r.fail("findCompatiblePartDuration(%d,%s) = %d is not on the 5 ms grid from the minimum", m, ws[2], res)
			} else if res < 5*pdSec {
				if !okAll(res) {
					r.fail("findCompatiblePartDuration(%d,%s) = %d violates the 85%% rule", m, ws[2], res)
				}
				for x := m; x < res; x += 5 * pdMs {
					if okAll(x) {
						r.fail("findCompatiblePartDuration(%d,%s) = %d but %d is already compatible", m, ws[2], res, x)
						break
					}
				}
			}
		}
		return []string{"n" + strconv.FormatInt(res, 10)}

	case "start":
		if r.m != nil {
			r.m.Close()
			r.m = nil
		}
		m, ok1 := pdKVInt(ws, "m")
		segMin, ok2 := pdKVInt(ws, "segmin")
		segCount, ok3 := pdKVInt(ws, "segcount")
		rate, ok4 := pdKVInt(ws, "rate")
		codec, _ := pdKV(ws, "codec")
		if !ok1 || !ok2 || !ok3 || !ok4 {
			return []string{"bad-op"}
		}
		if rate <= 0 {
			return []string{"bad-op"}
		}
		r.codec, r.rate, r.partMin = codec, rate, m
		switch codec {
		case "aac":
			r.track = &gohlslib.Track{
				Codec: &codecs.MPEG4Audio{Config: mpeg4audio.Config{Type: 2, SampleRate: int(rate), ChannelCount: 2}},
				ClockRate: int(rate),
			}
		case "opus":
			r.track = &gohlslib.Track{Codec: &codecs.Opus{ChannelCount: 2}, ClockRate: int(rate)}
		default:
			r.codec = "h264"
			r.track = &gohlslib.Track{Codec: &codecs.H264{SPS: pdTestSPS, PPS: []byte{0x08}}, ClockRate: int(rate)}
		}
		r.m = &gohlslib.Muxer{
			Variant:            gohlslib.MuxerVariantLowLatency,
			SegmentCount:       int(segCount),
			SegmentMinDuration: time.Duration(segMin),
			PartMinDuration:    time.Duration(m),
			Tracks:             []*gohlslib.Track{r.track},
			OnEncodeError: func(err error) {
				if strings.Contains(err.Error(), "part duration changed") {
					r.chg++
				} else {
					r.encErrs = append(r.encErrs, err.Error())
				}
			},
		}
		if err := r.m.Start(); err != nil {
			r.m = nil
			return []string{"err"}
		}
		r.nW, r.delta, r.constant, r.lastPT, r.chg = 0, 0, true, 0, 0
		return []string{"started"}

	case "w":
		if r.m == nil {
			return []string{"bad-op"}
		}
		dts, ok1 := pdKVInt(ws, "dts")
		ra, ok2 := pdKVInt(ws, "ra")
		if !ok1 || !ok2 {
			return []string{"bad-op"}
		}
		// property scope: constant sample duration, nothing dropped for negative time
		if r.nW == 0 && dts+10*r.rate < 0 {
			r.constant = false
		}
		if r.nW >= 1 {
			dl := dts - r.lastDTS
			if r.delta == 0 {
				r.delta = dl
			}
			if dl != r.delta || dl <= 0 {
				r.constant = false
			}
		}
		r.lastDTS = dts
		r.nW++
		ntp := time.Unix(1600000000, 0).Add(time.Duration(dts) * time.Second / time.Duration(r.rate))
		var err error
		switch r.codec {
		case "h264":
			if ra != 0 {
				err = r.m.WriteH264(r.track, ntp, dts, [][]byte{pdTestSPS, {8}, {5, 1, 2, 3}})
			} else {
				err = r.m.WriteH264(r.track, ntp, dts, [][]byte{{1, 4, 5}})
			}
		case "aac":
			err = r.m.WriteMPEG4Audio(r.track, ntp, dts, [][]byte{{1, 2, 3, 4}})
		case "opus":
			err = r.m.WriteOpus(r.track, ntp, dts, [][]byte{{0x98, 1, 2}})
		}
		if err != nil {
			return []string{"err:" + err.Error()}
		}
		st := r.m.VerifPartState()
		lastSeg := "-"
		if len(st.Segments) > 0 {
			lastSeg = pdFmtDurs(st.Segments[len(st.Segments)-1])
		}
		return []string{fmt.Sprintf("a=%d pt=%d fin=%d gaps=%d open=%s lastseg=%s chg=%d",
			int64(st.Adjusted), int64(st.PartTarget), st.Finished, st.Gaps, pdFmtDurs(st.Open), lastSeg, r.chg)}

	case "pl":
		if r.m == nil {
			return []string{"bad-op"}
		}
		st := r.m.VerifPartState()
		if st.Finished+st.Gaps == 0 {
			return []string{"pl blocked"} // the handler would wait for the first segment
		}
		id := "video1"
		if r.codec != "h264" {
			id = "audio1"
		}
		body, code := pdGet(r.m, id+"_stream.m3u8")
		if code != http.StatusOK {
			r.fail("media playlist request returned %d", code)
			return []string{fmt.Sprintf("pl status=%d", code)}
		}
		pl, perr := pdParsePlaylist(body)
		if perr != "" {
			r.fail("media playlist not understood: %s", perr)
			return []string{"pl unparsable"}
		}
		r.oraclePlaylist(pl)
		var cnt []string
		for _, s := range pl.segs {
			cnt = append(cnt, strconv.Itoa(len(s)))
		}
		segs := "-"
		if len(cnt) > 0 {
			segs = strings.Join(cnt, ",")
		}
		return []string{fmt.Sprintf("pl target=%d segs=%s open=%d", pl.target, segs, len(pl.open))}
	}
	return []string{"bad-op"}
}

// oraclePlaylist evaluates the text of C19 on one served playlist.
func (r *partdurRunner) oraclePlaylist(pl *pdPlaylist) {
	if !r.constant || r.delta <= 0 {
		return // outside the property's quantifier (not a constant sample duration)
	}
	const q = 5000 // the playlist prints durations with 10 us resolution
	var nonFinal []int64
	for _, s := range pl.segs {
		if len(s) > 1 {
			nonFinal = append(nonFinal, s[:len(s)-1]...)
		}
	}
	nonFinal = append(nonFinal, pl.open...)
	if len(nonFinal) == 0 {
		return
	}
	sorted := append([]int64{}, nonFinal...)
	sort.Slice(sorted, func(i, j int) bool { return sorted[i] < sorted[j] })
	lo, hi := sorted[0], sorted[len(sorted)-1]
	if hi-lo > 2*q {
		r.fail("non-final parts differ: %d ns .. %d ns (PartMinDuration %d, %d ticks at %d Hz)", lo, hi, r.partMin, r.delta, r.rate)
	}
	// exact sample duration, rounded up to ns
	sNs := pdCeilDiv(r.delta*pdSec, r.rate)
	for _, d := range []int64{lo, hi} {
		if 100*(d+q) < 85*pl.target {
			r.fail("part %d ns is below 85%% of PART-TARGET %d ns (PartMinDuration %d, %d ticks at %d Hz)", d, pl.target, r.partMin, r.delta, r.rate)
		}
		if d-q > pl.target {
			r.fail("part %d ns exceeds PART-TARGET %d ns", d, pl.target)
		}
		if d+q < r.partMin {
			r.fail("part %d ns is shorter than PartMinDuration %d ns", d, r.partMin)
		}
		if d-q >= 2*max(r.partMin, sNs)+sNs {
			r.fail("part %d ns is not below 2*max(PartMinDuration %d, sample %d)+sample", d, r.partMin, sNs)
		}
	}
	if r.lastPT != 0 && pl.target != r.lastPT {
		r.fail("PART-TARGET changed from %d to %d between two playlists that both list a non-final part", r.lastPT, pl.target)
	}
	if r.lastPT != 0 && r.chg != r.chgAtPT {
		r.fail("OnEncodeError(part duration changed) between two playlists that both list a non-final part")
	}
	r.lastPT = pl.target
	r.chgAtPT = r.chg
}

type pdResponse struct {
	h    http.Header
	code int
	body []byte
}

func (w *pdResponse) Header() http.Header { return w.h }
func (w *pdResponse) WriteHeader(c int)   { w.code = c }
func (w *pdResponse) Write(b []byte) (int, error) {
	if w.code == 0 {
		w.code = http.StatusOK
	}
	w.body = append(w.body, b...)
	return len(b), nil
}

func pdGet(m *gohlslib.Muxer, pathAndQuery string) ([]byte, int) {
	u, _ := url.Parse("http://localhost/" + pathAndQuery)
	w := &pdResponse{h: make(http.Header)}
	m.Handle(w, &http.Request{Method: http.MethodGet, URL: u})
	return w.body, w.code
}

// pdDecimalNs converts a decimal number of seconds ("0.23357") to ns exactly.
func pdDecimalNs(s string) (int64, bool) {
	ip, fp, _ := strings.Cut(s, ".")
	if ip == "" || len(fp) > 9 {
		return 0, false
	}
	for len(fp) < 9 {
		fp += "0"
	}
	a, err1 := strconv.ParseInt(ip, 10, 64)
	b, err2 := strconv.ParseInt(fp, 10, 64)
	if err1 != nil || err2 != nil || a < 0 {
		return 0, false
	}
	return a*pdSec + b, true
}

func pdAttr(line, key string) (string, bool) {
	_, rest, ok := strings.Cut(line, ":")
	if !ok {
		return "", false
	}
	for _, kv := range strings.Split(rest, ",") {
		k, v, ok := strings.Cut(kv, "=")
		if ok && k == key {
			return v, true
		}
	}
	return "", false
}

// pdParsePlaylist is a reader of exactly what C19 observes: PART-TARGET and the
// #EXT-X-PART durations grouped by the segment they precede.
func pdParsePlaylist(body []byte) (*pdPlaylist, string) {
	pl := &pdPlaylist{}
	var cur []int64
	sawInf := false
	for _, line := range strings.Split(string(body), "\n") {
		line = strings.TrimRight(line, "\r")
		switch {
		case strings.HasPrefix(line, "#EXT-X-PART-INF:"):
			v, ok := pdAttr(line, "PART-TARGET")
			if !ok {
				return nil, "PART-INF without PART-TARGET"
			}
			ns, ok := pdDecimalNs(v)
			if !ok {
				return nil, "PART-TARGET " + v
			}
			pl.target = ns
		case strings.HasPrefix(line, "#EXT-X-PART:"):
			v, ok := pdAttr(line, "DURATION")
			if !ok {
				return nil, "PART without DURATION"
			}
			ns, ok := pdDecimalNs(v)
			if !ok {
				return nil, "DURATION " + v
			}
			cur = append(cur, ns)
			pl.hasPart = true
		case strings.HasPrefix(line, "#EXTINF:"):
			sawInf = true
		case line != "" && !strings.HasPrefix(line, "#"):
			if sawInf {
				if len(cur) > 0 {
					pl.segs = append(pl.segs, cur)
				}
				cur = nil
				sawInf = false
			}
		}
	}
	pl.open = cur
	if pl.target == 0 {
		return nil, "no PART-TARGET"
	}
	return pl, ""
}
