package main

import (
	"fmt"
	"math/rand"
	"sort"
	"strconv"
	"strings"
)

// e2e slice (property C09): generator.
//
// A case is a muxer configuration, a write sequence on a COMPRESSED time axis (frames of 1-3 ms, segments of
// 3-40 ms, 120-350 ms of media in all, because the writer and the client's delivery are paced in real time) and
// 1-3 client schedules. The op lines are exactly the muxer slice's (`start/track/begin/w`), so that the
// existing model driver drv_muxer replays the writes; what concerns only the client travels in extra keys the
// driver ignores:
//
//	start … cl=<n> at=<i,…> pl=<mv|s<k>,…> ad=<‰,…>   client i starts ad[i] per mille into the pause before the at[i]-th `w` op and reads
//	                                                    index.m3u8 (mv) or the media playlist of stream k
//	track … name=<s|-> lang=<s|-> def=0|1 step=<ticks>
//
// Wall-clock schedule of a write: first write at T, a unit with media time m at T + (m - m_first).

type c9GenTrack struct {
	codec string
	rate  int
	sr    int
	name  string
	lang  string
	def   bool
	step  int64 // ticks between units
	gop   int
	next  int64
	count int
	burst int // audio: units per write burst (1 = regular)
	multi bool
	bf    []c9BfFrame // video with frame reordering: the planned frames (pts, extracted dts, pattern index)
	all3  bool // audio-led multi-AU mode: every call carries exactly three AUs (call starts fall on whole milliseconds)
}

func (e2eSlice) Gen(r *rand.Rand, _ int, tier string) ([]string, []string) {
	var tags []string
	variant := []string{"ts", "fmp4", "fmp4", "ll", "ll"}[r.Intn(5)]
	tags = append(tags, "v="+variant)

	fv := []int64{90, 90, 180, 180, 270, 150, 135}[r.Intn(7)] // video frame in 90 kHz ticks (1, 2, 3, 1.67, 1.5 ms)
	gop := 3 + r.Intn(7)
	for int64(gop)*fv > 2160 && gop > 3 { // a GOP of at most 24 ms
		gop--
	}
	vcodec := "h264"
	if variant != "ts" {
		vcodec = []string{"h264", "h264", "h264", "h265", "vp9", "av1", "av1"}[r.Intn(7)]
	}
	// FRAME REORDERING (DTS != PTS; e2e_bf.go): H264 in every variant, on the compressed axis (the pattern scales);
	// H265 in the fMP4 variants, unscaled (its extractor derives DTS from the SPS's frame duration): fewer, longer cases
	reorder := (vcodec == "h264" && r.Intn(4) == 0) || (vcodec == "h265" && r.Intn(3) == 0)
	if reorder {
		if vcodec == "h265" {
			fv = 3000
		} else if fv < 135 {
			fv = 180
		}
		gop = int(c9BfSlots(vcodec))
	}
	mkVideo := func() *c9GenTrack {
		return &c9GenTrack{codec: vcodec, rate: 90000, step: fv, gop: gop, burst: 1}
	}
	// audio unit duration in µs; "dense" = shorter than a video frame (every LL part then holds audio)
	audioUs := func(dense bool) int64 {
		fvUs := fv * 1000 / 90
		if dense {
			return fvUs*4/10 + int64(r.Intn(int(fvUs*5/10)+1))
		}
		return fvUs/2 + int64(r.Intn(int(3*fvUs)))
	}
	dense := variant == "ll" || r.Intn(2) == 0
	mkAudio := func() *c9GenTrack {
		if variant != "ts" && r.Intn(3) == 0 {
			t := &c9GenTrack{codec: "opus", rate: 48000, burst: 1}
			t.step = audioUs(dense) * 48 / 1000
			if r.Intn(4) == 0 {
				t.step = 120 // the true duration of a 2.5 ms Opus packet (TOC config 16)
			}
			if t.step < 1 {
				t.step = 1
			}
			return t
		}
		sr := []int{44100, 48000, 32000, 8000, 96000}[r.Intn(5)]
		t := &c9GenTrack{codec: "aac", rate: sr, sr: sr, burst: 1}
		t.step = audioUs(dense) * int64(sr) / 1000000
		if t.step < 1 {
			t.step = 1
		}
		return t
	}

	var tracks []*c9GenTrack
	switch variant {
	case "ts":
		switch r.Intn(10) {
		case 0:
			tracks = append(tracks, mkAudio()) // audio only: a segment needs 100 AU writes
			tracks[0].step = int64(tracks[0].rate) * int64(150+r.Intn(200)) / 1000000
			if tracks[0].step < 1 {
				tracks[0].step = 1
			}
		case 1, 2, 3:
			tracks = append(tracks, mkVideo())
		case 4, 5, 6:
			tracks = append(tracks, mkVideo(), mkAudio())
		default:
			tracks = append(tracks, mkAudio(), mkVideo())
		}
	default:
		nAudio := r.Intn(4)
		hasVideo := r.Intn(6) != 0
		if !hasVideo && nAudio == 0 {
			nAudio = 1
		}
		for i := 0; i < nAudio; i++ {
			tracks = append(tracks, mkAudio())
		}
		if hasVideo {
			pos := r.Intn(len(tracks) + 1)
			tracks = append(tracks[:pos], append([]*c9GenTrack{mkVideo()}, tracks[pos:]...)...)
		}
	}
	lead := 0
	hasVideo := false
	for i, t := range tracks {
		if isVideoCodec(t.codec) {
			lead, hasVideo = i, true
			break
		}
	}
	if !hasVideo {
		// audio-only: the leading audio track plays the role of the video track on the time axis
		tracks[0].gop = 1
		if variant != "ts" {
			tracks[0].step = fv * int64(tracks[0].rate) / 90000
			if tracks[0].step < 1 {
				tracks[0].step = 1
			}
		}
	}
	// rendition attributes
	names := []string{"", "", "main", "alt1", "commentary", "Audio2", "x-y_z"}
	langs := []string{"", "", "en", "it", "de-CH", "zxx"}
	nAud := 0
	for _, t := range tracks {
		if !isVideoCodec(t.codec) {
			nAud++
			t.name = names[r.Intn(len(names))]
			t.lang = langs[r.Intn(len(langs))]
		}
	}
	if nAud > 0 && r.Intn(3) == 0 {
		k := r.Intn(nAud)
		for _, t := range tracks {
			if !isVideoCodec(t.codec) {
				if k == 0 {
					t.def = true
				}
				k--
			}
		}
		tags = append(tags, "default-marked")
	}
	// sparse / bursty audio in LL: parts of a rendition without any sample (candidate F15)
	sparse := false
	if variant != "ts" && hasVideo && nAud > 0 && r.Intn(8) == 0 {
		sparse = true
		for _, t := range tracks {
			if !isVideoCodec(t.codec) && r.Intn(2) == 0 {
				t.burst = 3 + r.Intn(5)
			}
		}
		tags = append(tags, "audio-bursts")
	}
	// true AAC timing with several AUs per call (non-LL only: 1024 samples are longer than a compressed part)
	// (segments are then made at least three audio frames long, so that none is without audio)
	if variant != "ll" && !sparse && hasVideo && !reorder && r.Intn(8) == 0 {
		for _, t := range tracks {
			if t.codec == "aac" && (t.sr == 96000 || (t.sr == 48000 && tier == "thorough")) {
				t.step = 1024
				t.multi = true
				tags = append(tags, "aac-multi-au")
				need := 3 * 1024 * 90000 / int64(t.sr)
				for int64(gop)*fv < need {
					gop++
				}
				tracks[lead].gop = gop
			}
		}
	}

	// AUDIO-LED fMP4 / LL with true AAC timing and 2-3 AUs per WriteMPEG4Audio call: every AU is a random-access
	// sample, so segments are cut on ANY AU of a call - the NTP of a segment (EXT-X-PROGRAM-DATE-TIME) is then the
	// per-AU NTP `ntp + i*1024/sampleRate` the muxer derives, not the call's. 96 kHz (10.67 ms per AU; three AUs =
	// exactly 32 ms) keeps the case short; the thorough tier also uses 48 kHz.
	audioLed := false
	audioLedAUs := 0
	if variant != "ts" && !hasVideo && r.Intn(2) == 0 {
		audioLed = true
		sparse = false
		sr := 96000
		if tier == "thorough" && r.Intn(3) == 0 {
			sr = 48000
		}
		t0 := tracks[0]
		t0.codec, t0.rate, t0.sr, t0.step, t0.multi, t0.burst = "aac", sr, sr, 1024, true, 1
		t0.all3 = r.Intn(10) < 7
		audioLedAUs = []int{4, 5, 4, 5, 2, 4}[r.Intn(6)] // AUs per segment; calls of three (or 2-3): cuts fall inside the calls
		tags = append(tags, "audio-led-multi-au")
	}

	segDurNs := int64(gop) * fv * 1000000 / 90
	if !hasVideo {
		segDurNs = fv * 1000000 / 90 * int64(2+r.Intn(6))
	}
	if audioLed {
		segDurNs = int64(audioLedAUs) * 1024 * 1000000000 / int64(tracks[0].sr)
	}
	var segMin int64
	switch r.Intn(6) {
	case 0:
		segMin = 1000000
	case 1:
		segMin = segDurNs * 6 / 10
	case 2:
		segMin = segDurNs * 3 / 2
	case 3:
		segMin = segDurNs * 2
	default:
		segMin = segDurNs
	}
	if audioLed {
		segMin = segDurNs - 1000 // a hair below k AU durations: a segment = exactly k AUs
	}
	if reorder && hasVideo && vcodec == "h265" && segMin > segDurNs {
		segMin = segDurNs // a GOP lasts 233 ms of real time: one GOP per segment at most
	}
	if segMin < 1000000 {
		segMin = 1000000
	}
	if !sparse && !audioLed {
		// every segment shall hold data of every track: at least three units of the slowest non-leading track
		for i, t := range tracks {
			if i != lead {
				if need := 3 * t.step * 1000000000 / int64(t.rate); segMin < need {
					segMin = need
				}
			}
		}
	}
	partMin := []int64{2, 3, 4, 5, 8}[r.Intn(5)] * 1000000
	segCount := 4 + r.Intn(4)
	if r.Intn(6) == 0 {
		segCount = 3
	}
	if variant == "ll" {
		segCount = 7 + r.Intn(4)
	}
	dir := r.Intn(4) == 0
	if dir {
		tags = append(tags, "dir")
	}

	// ---- time base (whole milliseconds; NTP = ntpBase + floor(media ms) in integer arithmetic, so that NTP is EXACTLY
	// linear in DTS whenever the leading track's units start on whole milliseconds)
	var baseMs int64
	switch r.Intn(8) {
	case 0:
		baseMs = -int64(r.Intn(9))*1000 - int64(r.Intn(700)) - 50 // negative start (un-offset base time < 0)
		tags = append(tags, "negative-start")
	case 1:
		baseMs = int64(r.Intn(1<<20)) * 1000
	case 2:
		baseMs = 95443600 + int64(r.Intn(200)) // the 33-bit wrap at 90 kHz (95443.717 s) inside the case
		tags = append(tags, "wrap33")
	default:
		baseMs = int64(r.Intn(100))*1000 + int64(r.Intn(1000))
	}
	baseSec := float64(baseMs) / 1000
	skew := r.Intn(6) == 0 && !sparse && !audioLed
	for _, t := range tracks {
		t.next = c9FloorDiv(baseMs*int64(t.rate), 1000)
		if skew && r.Intn(2) == 0 {
			t.next += int64(r.Intn(t.rate/25+1)) - int64(t.rate/50) // tracks start up to 20 ms apart
		}
	}
	if skew {
		tags = append(tags, "track-skew")
	}
	ntpBase := int64(1600000000000) + int64(r.Intn(1000000))
	jumble := r.Intn(8) == 0 && !audioLed
	if jumble {
		tags = append(tags, "jumbled-interleaving")
	}
	jitter := r.Intn(4) == 0 && !audioLed
	midGOP := r.Intn(5) == 0 && hasVideo && !reorder

	// at least nine segments in the paced part (a non-LL client starts three segments behind the live edge)
	effSeg := segDurNs
	if segMin > segDurNs {
		effSeg = segDurNs * ((segMin + segDurNs - 1) / segDurNs)
	}
	spanMs := 120 + r.Intn(230)
	if m := int(9 * effSeg / 1000000); spanMs < m {
		spanMs = m
	}
	if tier == "thorough" && r.Intn(10) == 0 {
		spanMs = 400 + r.Intn(400)
		tags = append(tags, "long")
	}
	if variant == "ts" && !hasVideo {
		// a segment = 100 AU writes
		spanMs = int(9 * 100 * tracks[0].step * 1000 / int64(tracks[0].rate))
		if spanMs < 160 {
			spanMs = 160
		}
	}

	// ---- frame reordering: plan the video track (pts, dts the muxer's extractor will choose, pattern index)
	bfPreGOPs := 0
	if reorder && hasVideo {
		vt := tracks[lead]
		gopTicks := c9BfSlots(vcodec) * fv
		var slots, gaps []int64
		if vcodec == "h265" {
			// unscaled; the first segment is made long by a hole after the first GOP
			nG := 4 // LL: any part will do
			if variant != "ll" {
				nG = 6 + r.Intn(2)
			}
			spanMs = int(int64(nG) * gopTicks / 90)
			for g := 0; g <= nG+1; g++ {
				slots = append(slots, 3000)
			}
			gaps = []int64{30000 + int64(r.Intn(9000))}
			bfPreGOPs = 1
		} else {
			// first GOP stretched to 0.9 s (its DTS span, 57000 ticks, is what the segment lasts); the extractor needs two
			// more GOPs for the decode times to catch up with the compressed presentation times: unpaced as well
			slots = append(slots, 9000)
			nG := int(int64(spanMs)*90/gopTicks) + 2
			for g := 0; g < 2+nG; g++ {
				slots = append(slots, fv)
			}
			bfPreGOPs = 3
		}
		if fr, ok := c9BfPlan(vcodec, vt.next, slots, gaps); ok {
			vt.bf = fr
			vt.next = fr[0].dts
			tags = append(tags, vcodec+"-reordering")
		} else {
			reorder = false
			tags = append(tags, "reordering-plan-rejected")
		}
	}

	// ---- writes
	// EXT-X-TARGETDURATION is the rounded duration of the longest segment and the library's own playlist reader
	// rejects 0: the FIRST segment is therefore made longer than 0.5 s of media time (a long first GOP of short
	// frames; audio-only: a hole after the first unit). It is written without pacing (`skip=` ops); the
	// compressed, real-time paced part of the case starts after it.
	var ws []string
	pay := 0
	var segDone []int // segDone[k] = number of w ops after which k+1 segments are complete (estimate)
	segStart := -1.0
	leadAUs := 0
	preMs := int64(500 + r.Intn(150))
	preSec := float64(preMs) / 1000
	preEnd := baseSec + preSec // audio-only; with video: preSec after the first random-access unit (set below)
	endSec := preEnd + float64(spanMs)/1000
	if reorder && hasVideo {
		vt := tracks[lead]
		patLen := len(bfPattern)
		if vcodec == "h265" {
			patLen = len(bf5Pattern)
		}
		preEnd = float64(vt.bf[bfPreGOPs*patLen].dts) / 90000
		endSec = preEnd + float64(spanMs)/1000
	}
	skip := -1
	leadIn := 0
	if midGOP {
		leadIn = 1 + r.Intn(3)
		tags = append(tags, "mid-gop-start")
	}
	sinceRA := -1
	mediaSec := func(t *c9GenTrack, pts int64) float64 { return float64(pts) / float64(t.rate) }
	for guard := 0; guard < 20000; guard++ {
		best := -1
		bestT := 0.0
		for i, t := range tracks {
			tt := mediaSec(t, t.next+int64(t.burst-1)*t.step)
			if best < 0 || tt < bestT {
				best, bestT = i, tt
			}
		}
		if jumble && r.Intn(10) == 0 {
			best = r.Intn(len(tracks))
		}
		if bestT >= endSec {
			break
		}
		t := tracks[best]
		for b := 0; b < t.burst; b++ {
			pts := t.next
			now := mediaSec(t, pts)
			if skip < 0 && now >= preEnd-1e-9 && (best == lead || !hasVideo) && t.count > leadIn {
				skip = len(ws)
			}
			ntp := ntpBase + c9FloorDiv(pts*1000, int64(t.rate)) - baseMs
			if ntp < 0 {
				ntp = 0
			}
			fill := r.Intn(6)
			if r.Intn(10) == 0 {
				fill = 20 + r.Intn(300)
			}
			var op string
			if t.bf != nil {
				f := t.bf[t.count]
				ra := f.k == 0
				par := 0
				if ra {
					par = 1
				}
				pay++
				ntp = ntpBase + c9FloorDiv(f.dts*1000, int64(t.rate)) - baseMs // NTP follows the DECODE time line
				if ntp < 0 {
					ntp = 0
				}
				size := mxH264Sizes(variant, bfBuildAUFor(t.codec, par, f.k, pay))
				op = fmt.Sprintf("w t=%d pts=%d dts=%d ntp=%d ra=%s pic=1 par=%d pays=%d sizes=%d fill=0 bf=%d", best, f.pts, f.dts, ntp, b01(ra), par, pay, size, f.k)
				if best == lead && ra {
					if segStart < 0 {
						segStart = now
					} else if (now-segStart)*1e9 >= float64(segMin) {
						segDone = append(segDone, len(ws))
						segStart = now
					}
				}
				if t.count+1 < len(t.bf) {
					t.next = t.bf[t.count+1].dts
				} else {
					t.next = int64(1) << 50 // the plan is exhausted: the track stops
				}
			} else if isVideoCodec(t.codec) {
				var ra bool
				switch {
				case t.count < leadIn:
					ra = false // units before the first random-access one (the muxer skips them)
				case t.count == leadIn:
					ra = true
					preEnd = now + preSec
					endSec = preEnd + float64(spanMs)/1000
				case now < preEnd-1e-9:
					ra = false // the long first GOP
				case sinceRA < 0:
					ra, sinceRA = true, 0 // first unit of the compressed part
				default:
					sinceRA++
					ra = sinceRA%t.gop == 0
					if r.Intn(25) == 0 {
						ra = !ra
					}
				}
				par := 0
				if ra {
					par = 1 // every random-access unit carries the parameter sets (constant: the property compares them)
				}
				pay++
				size := c9UnitSize(t.codec, variant, ra, true, par, pay, fill)
				op = fmt.Sprintf("w t=%d pts=%d dts=%d ntp=%d ra=%s pic=1 par=%d pays=%d sizes=%d fill=%d", best, pts, pts, ntp, b01(ra), par, pay, size, fill)
				step := t.step
				if jitter {
					step += int64(r.Intn(int(t.step/2)+1)) - t.step/4
				}
				if best == lead && ra {
					if segStart < 0 {
						segStart = now
					} else if (now-segStart)*1e9 >= float64(segMin) {
						segDone = append(segDone, len(ws))
						segStart = now
					}
				}
				t.next += step
			} else {
				n := 1
				if t.multi && r.Intn(2) == 0 {
					n = 2 + r.Intn(2)
				}
				if audioLed && best == 0 {
					switch {
					case t.count == 0:
						n = 1 // the unit before the hole
					case t.all3:
						n = 3
					default:
						n = 2 + r.Intn(2)
					}
				}
				if t.codec == "opus" && t.step == 120 && r.Intn(3) == 0 {
					n = 2
				}
				var pays, sizes, durs, tocs []string
				opusTotal := int64(0)
				for i := 0; i < n; i++ {
					pay++
					pays = append(pays, strconv.Itoa(pay))
					if t.codec == "opus" {
						cfg := 16 // 2.5 ms
						if n > 1 && r.Intn(2) == 0 {
							cfg = 17 // 5 ms: packets of different durations inside one WriteOpus call
						}
						tocs = append(tocs, strconv.Itoa(cfg<<3))
						durs = append(durs, strconv.FormatInt(opusFrame(cfg), 10))
						opusTotal += opusFrame(cfg)
						sizes = append(sizes, strconv.Itoa(6+fill))
					} else {
						sizes = append(sizes, strconv.Itoa(5+fill))
					}
				}
				op = fmt.Sprintf("w t=%d pts=%d dts=%d ntp=%d ra=1 pic=1 par=0 pays=%s sizes=%s fill=%d", best, pts, pts, ntp, strings.Join(pays, ","), strings.Join(sizes, ","), fill)
				if t.codec == "opus" {
					op += " durs=" + strings.Join(durs, ",") + " tocs=" + strings.Join(tocs, ",")
				}
				step := t.step * int64(n)
				if t.codec == "opus" && t.step == 120 {
					step = opusTotal
				}
				if jitter && !t.multi && !(t.codec == "opus" && n > 1) {
					step += int64(r.Intn(int(t.step/2)+1)) - t.step/4
					if step < 1 {
						step = 1
					}
				}
				if !hasVideo && t.count == 0 {
					step += preMs * int64(t.rate) / 1000 // audio-only: the hole that makes the first segment long
				}
				if best == lead { // audio-only muxer
					leadAUs++
					switch {
					case segStart < 0:
						segStart = now
						leadAUs = 0
					case variant == "ts" && leadAUs >= 100 && (now-segStart)*1e9 >= float64(segMin),
						variant != "ts" && (now-segStart)*1e9 >= float64(segMin):
						segDone = append(segDone, len(ws))
						segStart = now
						leadAUs = 0
					}
				}
				t.next += step
			}
			t.count++
			ws = append(ws, op)
		}
	}
	if skip < 0 {
		skip = len(ws)
	}

	// ---- client schedules
	nCl := 1 + r.Intn(3)
	var at, pl, ad []string
	nStreams := len(tracks)
	if variant == "ts" {
		nStreams = 1
	}
	paced := len(ws) - skip
	limit := skip + paced*7/10
	for c := 0; c < nCl; c++ {
		var a int
		k := r.Intn(20)
		switch {
		case variant == "ll" && k < 15:
			a = skip + c9Intn(r, paced*7/10+1)
		case len(segDone) <= 5 && k < 17:
			a = skip + paced*3/10 + c9Intn(r, paced*3/10+1)
		case k < 11 && len(segDone) > 5:
			a = segDone[3+r.Intn(2)] + r.Intn(4) // four or five segments complete: the client starts on a short one
		case k < 17 && len(segDone) > 5:
			a = segDone[3] + c9Intn(r, limit-segDone[3]+1)
		case k < 18 && len(segDone) > 3:
			a = segDone[0] + c9Intn(r, segDone[3]-segDone[0]+1) // early: few segments listed, the long first one among them
		case k < 19:
			a = c9Intn(r, skip+1) // before any data / inside the unpaced first segment
		default:
			a = r.Intn(len(ws) + 1)
		}
		if a > len(ws) {
			a = len(ws)
		}
		at = append(at, strconv.Itoa(a))
		ad = append(ad, strconv.Itoa(r.Intn(1001)))
		if r.Intn(3) == 0 {
			pl = append(pl, "s"+strconv.Itoa(r.Intn(nStreams)))
		} else {
			pl = append(pl, "mv")
		}
	}
	tags = append(tags, fmt.Sprintf("clients=%d", nCl), fmt.Sprintf("tracks=%d", len(tracks)))
	var cs []string
	for _, t := range tracks {
		cs = append(cs, t.codec)
		tags = append(tags, "codec="+t.codec)
	}
	sort.Strings(cs)
	tags = append(tags, "codecs="+strings.Join(cs, "+"))
	for _, p := range pl {
		if p == "mv" {
			tags = append(tags, "pl=multivariant")
		} else {
			tags = append(tags, "pl=media")
		}
	}

	ops := []string{fmt.Sprintf("start v=%s segcount=%d segmin=%d partmin=%d maxsize=%d dir=%s cl=%d at=%s pl=%s ad=%s skip=%d",
		variant, segCount, segMin, partMin, 50*1024*1024, b01(dir), nCl, strings.Join(at, ","), strings.Join(pl, ","), strings.Join(ad, ","), skip)}
	for _, t := range tracks {
		nm, lg := t.name, t.lang
		if nm == "" {
			nm = "-"
		}
		if lg == "" {
			lg = "-"
		}
		line := fmt.Sprintf("track codec=%s rate=%d sr=%d name=%s lang=%s def=%s step=%d", t.codec, t.rate, t.sr, nm, lg, b01(t.def), t.step)
		if t.bf != nil {
			line += " bf=1"
		}
		ops = append(ops, line)
	}
	ops = append(ops, "begin")
	ops = append(ops, ws...)
	return ops, tags
}

// Corpus: hand-kept cases that always run first (replayed from their op lines; see notes/e2e.md).
func (e2eSlice) Corpus() [][]string {
	return c9Corpus()
}

func c9Intn(r *rand.Rand, n int) int {
	if n <= 0 {
		return 0
	}
	return r.Intn(n)
}


func c9FloorDiv(a, b int64) int64 {
	q := a / b
	if (a%b != 0) && ((a < 0) != (b < 0)) {
		q--
	}
	return q
}
