//go:build !racehooks

package main

// the repository under test has no yield point in pkg/storage (hooks-race.diff not applied):
// the soak still runs, without the partDisk.Reader window widening.
func raceSetStorageHook(func(point string)) {}

const raceStorageHook = false
