package main

import (
	"fmt"
	"strconv"
	"strings"
	"time"
)

// Independent, minimal M3U8 media-playlist reader used to canonicalise what the
// muxer serves (the library's own parser is deliberately NOT used here).

type m3uPart struct {
	dur   int64 // 10 µs units
	uri   string
	indep bool
}

type m3uSeg struct {
	dur   int64
	uri   string
	gap   bool
	pdt   int64 // unix ms, -1 = absent
	parts []m3uPart
}

type m3uMedia struct {
	version    int
	allowCache string // "", "YES", "NO"
	target     int
	mediaSeq   int
	hasSC      bool
	canBlock   bool
	holdBack   int64
	skipUntil  int64
	hasPartInf bool
	partTarget int64
	mapURI     string
	hasSkip    bool
	skipped    int
	segs       []m3uSeg
	parts      []m3uPart
	hint       string
	indepSegs  bool
}

// dec5 parses a decimal number of seconds with up to 5 decimals into 10 µs units (string arithmetic, no floats).
func dec5(s string) (int64, error) {
	neg := strings.HasPrefix(s, "-")
	if neg {
		s = s[1:]
	}
	ip, fp := s, ""
	if i := strings.IndexByte(s, '.'); i >= 0 {
		ip, fp = s[:i], s[i+1:]
	}
	if len(fp) > 5 {
		return 0, fmt.Errorf("more than 5 decimals: %q", s)
	}
	for len(fp) < 5 {
		fp += "0"
	}
	a, err := strconv.ParseInt(ip, 10, 64)
	if err != nil {
		return 0, err
	}
	b, err := strconv.ParseInt(fp, 10, 64)
	if err != nil {
		return 0, err
	}
	v := a*100000 + b
	if neg {
		v = -v
	}
	return v, nil
}

// splitAttrs splits an attribute list respecting quoted strings.
func splitAttrs(s string) (map[string]string, []string, error) {
	out := map[string]string{}
	var order []string
	for len(s) > 0 {
		eq := strings.IndexByte(s, '=')
		if eq < 0 {
			return nil, nil, fmt.Errorf("attribute without '=': %q", s)
		}
		key := s[:eq]
		s = s[eq+1:]
		var val string
		if strings.HasPrefix(s, `"`) {
			end := strings.IndexByte(s[1:], '"')
			if end < 0 {
				return nil, nil, fmt.Errorf("unterminated quoted string")
			}
			val = s[1 : 1+end]
			s = s[2+end:]
			if len(s) > 0 {
				if s[0] != ',' {
					return nil, nil, fmt.Errorf("garbage after quoted string")
				}
				s = s[1:]
			}
		} else {
			end := strings.IndexByte(s, ',')
			if end < 0 {
				val, s = s, ""
			} else {
				val, s = s[:end], s[end+1:]
			}
		}
		if key == "" {
			return nil, nil, fmt.Errorf("empty attribute name")
		}
		if _, dup := out[key]; dup {
			return nil, nil, fmt.Errorf("duplicate attribute %s", key)
		}
		out[key] = val
		order = append(order, key)
	}
	return out, order, nil
}

func parseM3UMedia(text string) (*m3uMedia, error) {
	lines := strings.Split(text, "\n")
	if len(lines) == 0 || lines[0] != "#EXTM3U" {
		return nil, fmt.Errorf("missing #EXTM3U")
	}
	p := &m3uMedia{mediaSeq: 0}
	cur := m3uSeg{pdt: -1}
	haveInf := false
	part := func(attr string) (m3uPart, error) {
		a, _, err := splitAttrs(attr)
		if err != nil {
			return m3uPart{}, err
		}
		d, err := dec5(a["DURATION"])
		if err != nil {
			return m3uPart{}, err
		}
		return m3uPart{dur: d, uri: a["URI"], indep: a["INDEPENDENT"] == "YES"}, nil
	}
	for _, l := range lines[1:] {
		if l == "" {
			continue
		}
		switch {
		case strings.HasPrefix(l, "#EXT-X-VERSION:"):
			v, err := strconv.Atoi(l[len("#EXT-X-VERSION:"):])
			if err != nil {
				return nil, err
			}
			p.version = v
		case l == "#EXT-X-INDEPENDENT-SEGMENTS":
			p.indepSegs = true
		case strings.HasPrefix(l, "#EXT-X-ALLOW-CACHE:"):
			p.allowCache = l[len("#EXT-X-ALLOW-CACHE:"):]
		case strings.HasPrefix(l, "#EXT-X-TARGETDURATION:"):
			v, err := strconv.Atoi(l[len("#EXT-X-TARGETDURATION:"):])
			if err != nil {
				return nil, err
			}
			p.target = v
		case strings.HasPrefix(l, "#EXT-X-MEDIA-SEQUENCE:"):
			v, err := strconv.Atoi(l[len("#EXT-X-MEDIA-SEQUENCE:"):])
			if err != nil {
				return nil, err
			}
			p.mediaSeq = v
		case strings.HasPrefix(l, "#EXT-X-SERVER-CONTROL:"):
			a, _, err := splitAttrs(l[len("#EXT-X-SERVER-CONTROL:"):])
			if err != nil {
				return nil, err
			}
			p.hasSC = true
			p.canBlock = a["CAN-BLOCK-RELOAD"] == "YES"
			if v, ok := a["PART-HOLD-BACK"]; ok {
				if p.holdBack, err = dec5(v); err != nil {
					return nil, err
				}
			}
			if v, ok := a["CAN-SKIP-UNTIL"]; ok {
				if p.skipUntil, err = dec5(v); err != nil {
					return nil, err
				}
			}
		case strings.HasPrefix(l, "#EXT-X-PART-INF:"):
			a, _, err := splitAttrs(l[len("#EXT-X-PART-INF:"):])
			if err != nil {
				return nil, err
			}
			p.hasPartInf = true
			if p.partTarget, err = dec5(a["PART-TARGET"]); err != nil {
				return nil, err
			}
		case strings.HasPrefix(l, "#EXT-X-MAP:"):
			a, _, err := splitAttrs(l[len("#EXT-X-MAP:"):])
			if err != nil {
				return nil, err
			}
			p.mapURI = a["URI"]
		case strings.HasPrefix(l, "#EXT-X-SKIP:"):
			a, _, err := splitAttrs(l[len("#EXT-X-SKIP:"):])
			if err != nil {
				return nil, err
			}
			p.hasSkip = true
			if p.skipped, err = strconv.Atoi(a["SKIPPED-SEGMENTS"]); err != nil {
				return nil, err
			}
		case l == "#EXT-X-GAP":
			cur.gap = true
		case strings.HasPrefix(l, "#EXT-X-PROGRAM-DATE-TIME:"):
			t, err := time.Parse(time.RFC3339Nano, l[len("#EXT-X-PROGRAM-DATE-TIME:"):])
			if err != nil {
				return nil, err
			}
			cur.pdt = t.UnixMilli()
		case strings.HasPrefix(l, "#EXT-X-PART:"):
			pt, err := part(l[len("#EXT-X-PART:"):])
			if err != nil {
				return nil, err
			}
			cur.parts = append(cur.parts, pt)
		case strings.HasPrefix(l, "#EXTINF:"):
			v := l[len("#EXTINF:"):]
			if i := strings.IndexByte(v, ','); i >= 0 {
				v = v[:i]
			} else {
				return nil, fmt.Errorf("EXTINF without comma")
			}
			d, err := dec5(v)
			if err != nil {
				return nil, err
			}
			cur.dur = d
			haveInf = true
		case strings.HasPrefix(l, "#EXT-X-PRELOAD-HINT:"):
			a, _, err := splitAttrs(l[len("#EXT-X-PRELOAD-HINT:"):])
			if err != nil {
				return nil, err
			}
			if a["TYPE"] != "PART" {
				return nil, fmt.Errorf("preload hint type %q", a["TYPE"])
			}
			p.hint = a["URI"]
		case strings.HasPrefix(l, "#"):
			return nil, fmt.Errorf("unexpected tag %q", l)
		default:
			if !haveInf {
				return nil, fmt.Errorf("URI line %q without EXTINF", l)
			}
			cur.uri = l
			p.segs = append(p.segs, cur)
			cur = m3uSeg{pdt: -1}
			haveInf = false
		}
	}
	if haveInf {
		return nil, fmt.Errorf("EXTINF without URI")
	}
	p.parts = cur.parts
	return p, nil
}
