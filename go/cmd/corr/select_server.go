package main

import (
	"bytes"
	"fmt"
	"io"
	"net/http"
	"sync"
	"time"
)

// Scripted in-process origin for the select slice: an http.RoundTripper that serves
// the playlist history of every stream ONE STEP PER PLAYLIST REQUEST (the client polls
// on its own clock; the history advances on the client's requests, so a run is
// deterministic) plus tiny valid media, and records the ordered request log.
//
// Several streams of one client run concurrently. To keep the per-stream logs
// deterministic even when one stream's error ends the whole client, the server
// schedules them: every stream is served freely up to and excluding the answer to its
// SECOND playlist request (first playlist, init, first segment/hint); that answer is
// held at a gate. Whenever every stream is parked (at its gate, held for ever because
// its history is exhausted, or done = it fetched the last segment of an ENDLIST
// playlist) the server opens the gate of the highest-numbered gated stream. So the
// streams run to completion one after the other, highest index first, and whatever
// ends the client does so while all other streams are parked at a known point.
// With a single stream there is no gate.

const (
	selRunning = iota
	selAtGate
	selHeld
	selEnded
)

type selLogEntry struct {
	url  string
	skip string
	rng  string
	// identification by the server (used by the direct oracle only)
	kind string   // pl | seg | init | hint | multi | ?
	view *selView // playlist in hand when the request arrived (pl: the one being returned; nil when exhausted)
	// pl: the playlist was actually sent (false while the request is held at the gate / unanswered)
	served bool
}

type selStreamState struct {
	s      *selStream
	next   int
	cur    *selView
	state  int
	gate   chan struct{}
	passed bool
	log    []selLogEntry
}

type selServer struct {
	c  *selCase
	mu sync.Mutex
	// canonical URL -> stream index (playlist URLs and every resource of every view)
	owner     map[string]int
	plURL     map[string]int
	initURL   map[string]bool
	st        []*selStreamState
	multiLog  []selLogEntry
	otherLog  []selLogEntry
	mediaK    int
	allParked chan struct{}
	parkedSet bool
	// time of the most recent request or answer (watchdog of the runner)
	lastActivity time.Time
	initBytes    []byte
}

func newSelServer(c *selCase, streams []*selStream) *selServer {
	sv := &selServer{c: c, owner: map[string]int{}, plURL: map[string]int{}, initURL: map[string]bool{},
		allParked: make(chan struct{}), lastActivity: time.Now()}
	for i, s := range streams {
		sv.st = append(sv.st, &selStreamState{s: s, gate: make(chan struct{})})
		if _, dup := sv.plURL[s.URL]; !dup {
			sv.plURL[s.URL] = i
		}
		for _, v := range s.Views {
			for _, sg := range v.Segs {
				if _, dup := sv.owner[sg.Abs]; !dup {
					sv.owner[sg.Abs] = i
				}
			}
			if v.Map != nil {
				if _, dup := sv.owner[v.Map.Abs]; !dup {
					sv.owner[v.Map.Abs] = i
				}
				sv.initURL[v.Map.Abs] = true
			}
			if v.Hint != nil {
				if _, dup := sv.owner[v.Hint.Abs]; !dup {
					sv.owner[v.Hint.Abs] = i
				}
			}
		}
	}
	if c.Cont == "fmp4" {
		sv.initBytes = selFMP4Init()
	}
	return sv
}

func selResponse(req *http.Request, status int, body []byte) *http.Response {
	return &http.Response{
		Status:        fmt.Sprintf("%d", status),
		StatusCode:    status,
		Proto:         "HTTP/1.1",
		ProtoMajor:    1,
		ProtoMinor:    1,
		Header:        http.Header{},
		Body:          io.NopCloser(bytes.NewReader(body)),
		ContentLength: int64(len(body)),
		Request:       req,
	}
}

// reschedule must be called with mu held.
func (sv *selServer) reschedule() {
	for _, st := range sv.st {
		if st.state == selRunning {
			return
		}
	}
	for i := len(sv.st) - 1; i >= 0; i-- {
		if sv.st[i].state == selAtGate {
			sv.st[i].state = selRunning
			sv.st[i].passed = true
			close(sv.st[i].gate)
			return
		}
	}
	if !sv.parkedSet {
		sv.parkedSet = true
		close(sv.allParked)
	}
}

func (sv *selServer) media() []byte {
	k := sv.mediaK
	sv.mediaK++
	if sv.c.Cont == "fmp4" {
		return selFMP4Part(k)
	}
	return selMPEGTSSegment(k)
}

func (sv *selServer) RoundTrip(req *http.Request) (*http.Response, error) {
	canon, skip := selCanon(req.URL)
	rng := req.Header.Get("Range")
	if rng == "" {
		rng = "-"
	}
	e := selLogEntry{url: canon, skip: skip, rng: rng}

	sv.mu.Lock()
	sv.lastActivity = time.Now()

	if sv.c.Top == "multi" && canon == sv.c.MURL {
		e.kind = "multi"
		sv.multiLog = append(sv.multiLog, e)
		sv.mu.Unlock()
		return selResponse(req, http.StatusOK, sv.c.renderMultivariant()), nil
	}

	if i, ok := sv.plURL[canon]; ok {
		st := sv.st[i]
		e.kind = "pl"
		idx := st.next
		st.next++
		if idx < len(st.s.Views) {
			e.view = st.s.Views[idx]
		}
		st.log = append(st.log, e)
		logIdx := len(st.log) - 1
		if idx == 1 && len(sv.st) > 1 && !st.passed {
			st.state = selAtGate
			sv.reschedule()
			gate := st.gate
			sv.mu.Unlock()
			select {
			case <-gate:
			case <-req.Context().Done():
				return nil, req.Context().Err()
			}
			sv.mu.Lock()
			sv.lastActivity = time.Now()
		}
		if idx >= len(st.s.Views) {
			if st.s.Exh == "fail" {
				sv.mu.Unlock()
				return selResponse(req, http.StatusNotFound, nil), nil
			}
			st.state = selHeld
			sv.reschedule()
			sv.mu.Unlock()
			<-req.Context().Done()
			return nil, req.Context().Err()
		}
		st.cur = st.s.Views[idx]
		st.log[logIdx].served = true
		body := st.cur.render()
		// Low-Latency stream (decided by its first playlist) receiving an ENDLIST playlist without
		// preload hint: the stream is over, no further request is to be expected (C11; fix-F28)
		if f := st.s.Views[0]; idx > 0 && f.SC != "-" && f.SC[1] == '1' && f.Hint != nil && st.cur.End && st.cur.Hint == nil {
			st.state = selEnded
			sv.reschedule()
		}
		sv.mu.Unlock()
		return selResponse(req, http.StatusOK, body), nil
	}

	if i, ok := sv.owner[canon]; ok {
		st := sv.st[i]
		e.view = st.cur
		var body []byte
		switch {
		case sv.initURL[canon]:
			e.kind = "init"
			body = sv.initBytes
		case st.cur != nil && st.cur.Hint != nil && st.cur.Hint.Abs == canon:
			e.kind = "hint"
			body = sv.media()
		default:
			e.kind = "seg"
			body = sv.media()
		}
		st.log = append(st.log, e)
		// done = the request is for the last entry of the ENDLIST playlist in hand
		if v := st.cur; e.kind == "seg" && v != nil && v.End && len(v.Segs) > 0 {
			last := v.Segs[len(v.Segs)-1]
			if last.Abs == canon && selRangeHeader(last.Start, last.Len) == rng {
				st.state = selEnded
				sv.reschedule()
			}
		}
		sv.mu.Unlock()
		return selResponse(req, http.StatusOK, body), nil
	}

	e.kind = "?"
	sv.otherLog = append(sv.otherLog, e)
	sv.mu.Unlock()
	return selResponse(req, http.StatusNotFound, nil), nil
}
