module verifharness

go 1.21.0

require (
	github.com/bluenviron/gohlslib/v2 v2.0.0
	github.com/bluenviron/mediacommon/v2 v2.1.0
)

replace github.com/bluenviron/gohlslib/v2 => /repo
