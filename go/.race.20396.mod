module verifharness

go 1.21.0

require (
	github.com/asticode/go-astits v1.13.0
	github.com/bluenviron/gohlslib/v2 v2.0.0
	github.com/bluenviron/mediacommon/v2 v2.1.0
)

require (
	github.com/abema/go-mp4 v1.4.1 // indirect
	github.com/asticode/go-astikit v0.30.0 // indirect
	github.com/google/uuid v1.3.0 // indirect
)

replace github.com/bluenviron/gohlslib/v2 => /tmp/repo-race
