#!/usr/bin/env python3
"""Regenerates MANIFEST.json from checks/*.json + manifest_meta.json (so the manifest stays valid and in sync)."""
import json, os, glob
ROOT = os.path.dirname(os.path.abspath(__file__))
meta = json.load(open(os.path.join(ROOT, "manifest_meta.json")))
props = [json.loads(l)["id"] for l in open(os.path.join(ROOT, "properties.jsonl"))]
checks, na = [], []
for pid in props:
    p = os.path.join(ROOT, "checks", pid + ".json")
    m = meta["properties"].get(pid, {})
    if os.path.exists(p) and m.get("claimed", False):
        c = json.load(open(p))
        checks.append({
            "property_id": pid,
            "quick_cmd": f"./check {pid} quick",
            "thorough_cmd": f"./check {pid} thorough",
            "evidence_file": f"/verif/evidence/{pid}.json",
            "replay_cmd_template": f"./check {pid} --replay {{path}}",
            "engine": "lean4-proof+correspondence",
            "level_claimed": {"category": c.get("level", "proof"), "text": m["text"], "design_ref": m.get("design_ref", "DESIGN.md §6")},
            "level_note": m["note"],
            "technique": m.get("technique", "machine-checked Lean 4 theorems over an executable model; model tied to the Go code by regenerated facts (T1) and a correspondence run (T2)"),
        })
    else:
        na.append({"property_id": pid, "reason": m.get("na_reason", "check not built yet in this session; see DESIGN.md")})
man = {
    "version": 1,
    "setup_cmd": "./check setup",
    "hooks": meta["hooks"],
    "engines": meta["engines"],
    "checks": checks,
    "notes": meta["notes"],
    "not_applicable": na,
}
json.dump(man, open(os.path.join(ROOT, "MANIFEST.json"), "w"), indent=1)
print(f"MANIFEST.json: {len(checks)} checks, {len(na)} not claimed")
