import Hls.Storage.LemmasDisk
/-!
# Helper lemmas for C17, part 5: facts about reachable states that need no discipline
(or only the `Remove`-tolerant one): not readable before `Finalize`, `Remove` is permanent.
-/
namespace Hls.Storage

/-- RAM: only `Finalize` sets `finalized`. -/
theorem Ram.exec_finalized (r : Ram) (ops : List Op) (h : ∀ op ∈ ops, op ≠ .finalize) :
    (r.exec ops).finalized = r.finalized := by
  induction ops generalizing r with
  | nil => rfl
  | cons op ops ih =>
    rw [Ram.exec_cons, ih _ (fun o ho => h o (List.mem_cons_of_mem _ ho))]
    have hop := h op (List.mem_cons_self)
    cases op with
    | newPart => rfl
    | write k p => simp only [Ram.step]; split <;> rfl
    | seek k off w => simp only [Ram.step]; split <;> (try split) <;> rfl
    | finalize => exact absurd rfl hop
    | remove => rfl
    | readPart k => simp only [Ram.step]; split <;> rfl
    | readFile b => simp only [Ram.step]; split <;> rfl
    | size => rfl

/-- Disk: only `Finalize` closes the write handle. -/
theorem Disk.exec_fOpen (d : Disk) (ops : List Op) (h : ∀ op ∈ ops, op ≠ .finalize) :
    (d.exec ops).fOpen = d.fOpen := by
  induction ops generalizing d with
  | nil => rfl
  | cons op ops ih =>
    rw [Disk.exec_cons, ih _ (fun o ho => h o (List.mem_cons_of_mem _ ho))]
    have hop := h op (List.mem_cons_self)
    cases op with
    | newPart => rfl
    | write k p => simp only [Disk.step]; split <;> (try split) <;> rfl
    | seek k off w => simp only [Disk.step]; (repeat' split) <;> rfl
    | finalize => exact absurd rfl hop
    | remove => rfl
    | readPart k => simp only [Disk.step]; split <;> (try split) <;> (try split) <;> rfl
    | readFile b => simp only [Disk.step]; split <;> (try split) <;> rfl
    | size => rfl

/-- No operation clears `removed`. -/
theorem Disk.step_removed (d : Disk) (op : Op) (h : d.removed = true) : (d.step op).1.removed = true := by
  cases op with
  | newPart => exact h
  | write k p => simp only [Disk.step]; split <;> (try split) <;> exact h
  | seek k off w => simp only [Disk.step]; (repeat' split) <;> exact h
  | finalize => exact h
  | remove => rfl
  | readPart k => simp only [Disk.step]; split <;> (try split) <;> (try split) <;> exact h
  | readFile b => simp only [Disk.step]; split <;> (try split) <;> exact h
  | size => exact h

theorem Disk.exec_removed (d : Disk) (ops : List Op) (h : d.removed = true) : (d.exec ops).removed = true := by
  induction ops generalizing d with
  | nil => exact h
  | cons op ops ih => rw [Disk.exec_cons]; exact ih _ (Disk.step_removed d op h)

theorem Disk.exec_removed_of_mem (d : Disk) (ops : List Op) (h : .remove ∈ ops) :
    (d.exec ops).removed = true := by
  obtain ⟨pre, post, rfl⟩ := List.append_of_mem h
  rw [Disk.exec_append, Disk.exec_cons]
  exact Disk.exec_removed _ _ rfl

/-- After `Remove` the file reader fails, whatever the state. -/
theorem Disk.readFile_removed (d : Disk) (bufs : List Nat) (h : d.removed = true) :
    (d.step (.readFile bufs)).2 = .err := by
  simp only [Disk.step, h]
  split <;> rfl

/-- After `Remove` a part without RAM mirror cannot be read. -/
theorem Disk.readPart_removed (d : Disk) (k : Nat) (h : d.removed = true)
    (hb : ∀ p ∈ d.parts, p.buf = none) : (d.step (.readPart k)).2 = .err := by
  simp only [Disk.step]
  cases hk : d.parts[k]? with
  | none => rfl
  | some dp =>
    have := hb dp (List.mem_of_getElem? hk)
    simp [this, h]

/-- Under the `Remove`-tolerant discipline: once finalized, no part has a RAM mirror. -/
theorem Disk.exec_bufs_none (ops : List Op) : ∀ (d : Disk) (n : Nat) (fin : Bool),
    (fin = true → ∀ p ∈ d.parts, p.buf = none) → wfFrom true n fin ops = true →
    ((fin || ops.contains .finalize) = true → ∀ p ∈ (d.exec ops).parts, p.buf = none) := by
  induction ops with
  | nil => intro d n fin hj _ hf; exact hj (by simpa using hf)
  | cons op ops ih =>
    intro d n fin hj h hf
    rw [Disk.exec_cons]
    cases op with
    | newPart =>
      simp only [wfFrom, Bool.and_eq_true, Bool.not_eq_true'] at h
      refine ih _ _ fin (fun hfin => ?_) h.2 (by simpa using hf)
      rw [h.1] at hfin; cases hfin
    | write k p =>
      simp only [wfFrom, Bool.and_eq_true, Bool.not_eq_true'] at h
      refine ih _ _ fin (fun hfin => ?_) h.2 (by simpa using hf)
      rw [h.1.1] at hfin; cases hfin
    | seek k off w =>
      simp only [wfFrom, Bool.and_eq_true, Bool.not_eq_true'] at h
      refine ih _ _ fin (fun hfin => ?_) h.2 (by simpa using hf)
      rw [h.1.1] at hfin; cases hfin
    | finalize =>
      simp only [wfFrom, Bool.and_eq_true, Bool.not_eq_true'] at h
      refine ih _ _ true (fun _ => ?_) h.2 (by simp)
      intro p hp
      simp only [Disk.step, List.mem_map] at hp
      obtain ⟨q, _, rfl⟩ := hp
      rfl
    | remove =>
      simp only [wfFrom, Bool.and_eq_true] at h
      exact ih _ _ fin hj h.2 (by simpa using hf)
    | readPart k =>
      simp only [wfFrom, Bool.and_eq_true] at h
      have : (d.step (.readPart k)).1 = d := by
        simp only [Disk.step]; split <;> (try split) <;> (try split) <;> rfl
      rw [this]
      exact ih _ _ fin hj h.2 (by simpa using hf)
    | readFile b =>
      simp only [wfFrom] at h
      have : (d.step (.readFile b)).1 = d := by
        simp only [Disk.step]; split <;> (try split) <;> rfl
      rw [this]
      exact ih _ _ fin hj h (by simpa using hf)
    | size =>
      simp only [wfFrom] at h
      exact ih _ _ fin hj h (by simpa using hf)

end Hls.Storage
