import Hls.Storage.Model
/-!
# Helper lemmas for C17, part 1: byte lists, `seekablebuffer.Buffer`, `updateAt`
-/
namespace Hls.Storage

/-! ## Byte lists read pointwise (`getD i 0` = "the byte at i, holes read as zero") -/

theorem getD_append (l m : Bytes) (i : Nat) :
    (l ++ m).getD i 0 = if i < l.length then l.getD i 0 else m.getD (i - l.length) 0 := by
  simp only [List.getD_eq_getElem?_getD, List.getElem?_append]
  split <;> rfl

theorem getD_zeros (n i : Nat) : (zeros n).getD i 0 = 0 := by
  simp only [zeros, List.getD_eq_getElem?_getD, List.getElem?_replicate]
  split <;> rfl

theorem getD_take (l : Bytes) (n i : Nat) :
    (l.take n).getD i 0 = if i < n then l.getD i 0 else 0 := by
  simp only [List.getD_eq_getElem?_getD, List.getElem?_take]
  split <;> rfl

theorem getD_drop (l : Bytes) (n i : Nat) : (l.drop n).getD i 0 = l.getD (n + i) 0 := by
  simp only [List.getD_eq_getElem?_getD, List.getElem?_drop]

theorem getD_of_le (l : Bytes) (i : Nat) (h : l.length ≤ i) : l.getD i 0 = 0 := by
  simp [List.getD_eq_getElem?_getD, List.getElem?_eq_none h]

@[simp] theorem length_zeros (n : Nat) : (zeros n).length = n := by simp [zeros]

/-- Two byte lists of the same length that agree pointwise are equal. -/
theorem ext_getD (l m : Bytes) (hl : l.length = m.length)
    (h : ∀ i, i < l.length → l.getD i 0 = m.getD i 0) : l = m := by
  apply List.ext_getElem hl
  intro i h1 h2
  have := h i h1
  simpa [List.getD_eq_getElem?_getD, List.getElem?_eq_getElem h1, List.getElem?_eq_getElem h2] using this

/-! ## `Buffer.Write` -/

/-- Closed form of `Buffer.Write` when the cursor is inside the buffer (or at its end):
    overwrite in place, then extend. -/
theorem Buf.write_data (b : Buf) (p : Bytes) (h : b.pos ≤ b.data.length) :
    (b.write p).data = b.data.take b.pos ++ p ++ b.data.drop (b.pos + p.length) := by
  unfold Buf.write
  simp only
  by_cases hlt : b.pos < b.data.length
  · simp only [hlt, if_true]
    by_cases hp : p.length ≤ b.data.length - b.pos
    · rw [Nat.min_eq_right hp, List.take_of_length_le (Nat.le_refl _), List.drop_eq_nil_of_le (Nat.le_refl _)]
      simp
    · have hp' : b.data.length - b.pos ≤ p.length := by omega
      rw [Nat.min_eq_left hp']
      have e1 : b.pos + (b.data.length - b.pos) = b.data.length := by omega
      rw [e1, List.drop_eq_nil_of_le (Nat.le_refl _),
          List.drop_eq_nil_of_le (by omega : b.data.length ≤ b.pos + p.length)]
      simp [List.append_assoc]
  · have e : b.pos = b.data.length := by omega
    simp only [hlt, if_false]
    rw [List.drop_eq_nil_of_le (by omega : b.data.length ≤ b.pos + 0),
        List.drop_eq_nil_of_le (by omega : b.data.length ≤ b.pos + p.length)]
    simp

theorem Buf.write_pos (b : Buf) (p : Bytes) : (b.write p).pos = b.pos + p.length := rfl

theorem Buf.write_length (b : Buf) (p : Bytes) (h : b.pos ≤ b.data.length) :
    (b.write p).data.length = max b.data.length (b.pos + p.length) := by
  rw [Buf.write_data b p h]
  simp only [List.length_append, List.length_take, List.length_drop]
  omega

theorem Buf.write_inv (b : Buf) (p : Bytes) (h : b.pos ≤ b.data.length) :
    (b.write p).pos ≤ (b.write p).data.length := by
  rw [Buf.write_length b p h, Buf.write_pos]; omega

/-- Pointwise form: the bytes in `[pos, pos+len p)` are `p`, every other byte is unchanged. -/
theorem Buf.write_getD (b : Buf) (p : Bytes) (h : b.pos ≤ b.data.length) (i : Nat) :
    (b.write p).data.getD i 0 =
      if b.pos ≤ i ∧ i < b.pos + p.length then p.getD (i - b.pos) 0 else b.data.getD i 0 := by
  rw [Buf.write_data b p h]
  simp only [getD_append, getD_take, getD_drop, List.length_append, List.length_take]
  have hm : min b.pos b.data.length = b.pos := Nat.min_eq_left h
  rw [hm]
  by_cases h1 : i < b.pos
  · have : ¬ (b.pos ≤ i ∧ i < b.pos + p.length) := by omega
    rw [if_neg this]
    simp [h1, show i < b.pos + p.length by omega]
  · by_cases h2 : i < b.pos + p.length
    · simp [h1, h2, show b.pos ≤ i by omega]
    · have e : b.pos + p.length + (i - (b.pos + p.length)) = i := by omega
      simp [h2, e]

theorem Buf.write_nil (b : Buf) (h : b.pos ≤ b.data.length) : b.write [] = b := by
  have hd := Buf.write_data b [] h
  have hp := Buf.write_pos b []
  cases b with
  | mk d p =>
    simp at hd hp
    cases hw : Buf.write ⟨d, p⟩ [] with
    | mk d' p' => simp [hw] at hd hp; simp [hd, hp]

/-! ## `Buffer.Seek` -/

/-- Target position of a seek. -/
def seekTarget (pos : Nat) (off : Int) : Whence → Int
  | .start => off
  | .cur => (pos : Int) + off

theorem Buf.seek_eq (b : Buf) (off : Int) (w : Whence) :
    b.seek off w =
      if seekTarget b.pos off w < 0 then none
      else some { data := b.data ++ zeros ((seekTarget b.pos off w).toNat - b.data.length),
                  pos := (seekTarget b.pos off w).toNat } := by
  cases w <;> rfl

theorem Buf.seek_inv (b b' : Buf) (off : Int) (w : Whence) (h : b.seek off w = some b') :
    b'.pos ≤ b'.data.length := by
  rw [Buf.seek_eq] at h
  split at h
  · cases h
  · cases h; simp; omega

theorem Buf.seek_getD (b b' : Buf) (off : Int) (w : Whence) (h : b.seek off w = some b') (i : Nat) :
    b'.data.getD i 0 = b.data.getD i 0 := by
  rw [Buf.seek_eq] at h
  split at h
  · cases h
  · cases h
    simp only [getD_append, getD_zeros]
    split
    · rfl
    · rw [getD_of_le]; omega

theorem Buf.seek_length (b b' : Buf) (off : Int) (w : Whence) (h : b.seek off w = some b') :
    b'.data.length = max b.data.length b'.pos := by
  rw [Buf.seek_eq] at h
  split at h
  · cases h
  · cases h; simp; omega

/-! ## `updateAt` -/

@[simp] theorem updateAt_length {α} (l : List α) (k : Nat) (f : α → α) :
    (updateAt l k f).length = l.length := by
  induction l generalizing k with
  | nil => simp [updateAt]
  | cons a as ih => cases k <;> simp [updateAt, ih]

/-- Updating the last element. -/
theorem updateAt_last {α} (l : List α) (a : α) (f : α → α) :
    updateAt (l ++ [a]) l.length f = l ++ [f a] := by
  induction l with
  | nil => simp [updateAt]
  | cons x xs ih => simp [updateAt, ih]

theorem getElem?_last {α} (l : List α) (a : α) : (l ++ [a])[l.length]? = some a := by
  simp

/-- A nonempty list splits at its last element. -/
theorem exists_snoc {α} (l : List α) (n : Nat) (h : l.length = n + 1) :
    ∃ init a, l = init ++ [a] ∧ init.length = n := by
  have hne : l ≠ [] := by intro e; simp [e] at h
  refine ⟨l.dropLast, l.getLast hne, (List.dropLast_concat_getLast hne).symm, ?_⟩
  simp [h]

theorem totalLen_eq (parts : List Bytes) : totalLen parts = parts.flatten.length := by
  simp [totalLen, List.length_flatten]

end Hls.Storage
