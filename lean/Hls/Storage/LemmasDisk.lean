import Hls.Storage.LemmasRam
/-!
# Helper lemmas for C17, part 4: the disk back end refines the specification

Invariant (`DiskInv`), before `Finalize`:
* every part still has its RAM mirror and the mirror equals the specification's buffer;
* part `i` starts at the sum of the lengths of the parts before it; the size of every part
  but the last has been fixed to its length;
* the `io.OffsetWriter` cursor of the last part equals the mirror's cursor, which is inside the buffer;
* the file on disk is the content, except that a zero tail may not have been written yet:
  `file.length ≤ content.length` and the two agree pointwise when holes read as zero.
After `Finalize`: no mirrors, all sizes fixed, `file = content`, `finalSize = content.length`.
-/
namespace Hls.Storage

/-! ## The OS contract, pointwise -/

theorem pwrite_getD (file : Bytes) (off : Nat) (p : Bytes) (i : Nat) :
    (pwrite file off p).getD i 0 =
      if off ≤ i ∧ i < off + p.length then p.getD (i - off) 0 else file.getD i 0 := by
  cases p with
  | nil =>
    have : ¬ (off ≤ i ∧ i < off + ([] : Bytes).length) := by simp
    rw [if_neg this]; rfl
  | cons x xs =>
    generalize hp : x :: xs = p
    have hfl : (file ++ zeros (off - file.length)).length = max file.length off := by
      simp; omega
    have hf' : ∀ j, (file ++ zeros (off - file.length)).getD j 0 = file.getD j 0 := by
      intro j
      rw [getD_append]
      split
      · rfl
      · rw [getD_zeros, getD_of_le]; omega
    have : pwrite file off p =
        (file ++ zeros (off - file.length)).take off ++ p
          ++ (file ++ zeros (off - file.length)).drop (off + p.length) := by
      rw [← hp]; rfl
    rw [this]
    simp only [getD_append, getD_take, getD_drop, List.length_append, List.length_take, hfl, hf']
    have hmin : min off (max file.length off) = off := by omega
    rw [hmin]
    by_cases h1 : i < off
    · have : ¬ (off ≤ i ∧ i < off + p.length) := by omega
      rw [if_neg this]
      simp [h1, show i < off + p.length by omega]
    · by_cases h2 : i < off + p.length
      · simp [h1, h2, show off ≤ i by omega]
      · have e : off + p.length + (i - (off + p.length)) = i := by omega
        simp [h2, e]

theorem pwrite_length_le (file : Bytes) (off : Nat) (p : Bytes) :
    (pwrite file off p).length ≤ max file.length (off + p.length) := by
  cases p with
  | nil => simp only [pwrite]; omega
  | cons x xs =>
    simp only [pwrite, List.length_append, List.length_take, List.length_drop, length_zeros,
      List.length_cons]
    omega

theorem ftruncate_length (file : Bytes) (n : Nat) : (ftruncate file n).length = n := by
  simp [ftruncate]; omega

theorem ftruncate_getD (file : Bytes) (n i : Nat) :
    (ftruncate file n).getD i 0 = if i < n then file.getD i 0 else 0 := by
  simp only [ftruncate, getD_take, getD_append, getD_zeros]
  split
  · split
    · rfl
    · rw [getD_of_le]; omega
  · rfl

/-- "The file is the content up to an unwritten zero tail." -/
def FileOK (file content : Bytes) : Prop :=
  file.length ≤ content.length ∧ ∀ i, file.getD i 0 = content.getD i 0

/-- Equivalent closed form of `FileOK`. -/
theorem FileOK_iff (file content : Bytes) :
    FileOK file content ↔
      file.length ≤ content.length ∧ file ++ zeros (content.length - file.length) = content := by
  constructor
  · rintro ⟨hl, hp⟩
    refine ⟨hl, ext_getD _ _ (by simp; omega) ?_⟩
    intro i _
    rw [getD_append, ← hp i]
    split
    · rfl
    · rw [getD_zeros, getD_of_le]; omega
  · rintro ⟨hl, he⟩
    refine ⟨hl, fun i => ?_⟩
    rw [← he, getD_append]
    split
    · rfl
    · rw [getD_zeros, getD_of_le]; omega

theorem FileOK.truncate {file content : Bytes} (h : FileOK file content) :
    ftruncate file content.length = content := by
  apply ext_getD _ _ (ftruncate_length _ _)
  intro i hi
  rw [ftruncate_length] at hi
  rw [ftruncate_getD, if_pos hi, h.2 i]

/-! ## Offsets and sizes of the parts -/

/-- Part `i` starts where part `i-1` ends (starting from `off`) and its size is its length. -/
def RelP : Nat → List DPart → List Buf → Prop
  | _, [], [] => True
  | off, d :: ds, b :: bs => d.offset = off ∧ d.size = b.data.length ∧ RelP (off + b.data.length) ds bs
  | _, _, _ => False

theorem RelP_length : ∀ (off : Nat) (ds : List DPart) (bs : List Buf), RelP off ds bs → ds.length = bs.length
  | _, [], [], _ => rfl
  | _, [], _ :: _, h => by simp [RelP] at h
  | _, _ :: _, [], h => by simp [RelP] at h
  | off, d :: ds, b :: bs, h => by
    simp only [RelP] at h
    simp [RelP_length _ ds bs h.2.2]

theorem RelP_snoc : ∀ (off : Nat) (ds : List DPart) (bs : List Buf) (d : DPart) (b : Buf),
    RelP off ds bs → d.offset = off + totalLen (bs.map (·.data)) → d.size = b.data.length →
    RelP off (ds ++ [d]) (bs ++ [b])
  | _, [], [], d, b, _, ho, hs => by simpa [RelP, totalLen, hs] using ho
  | _, [], _ :: _, _, _, h, _, _ => by simp [RelP] at h
  | _, _ :: _, [], _, _, h, _, _ => by simp [RelP] at h
  | off, d0 :: ds, b0 :: bs, d, b, h, ho, hs => by
    simp only [RelP] at h
    simp only [List.cons_append, RelP]
    refine ⟨h.1, h.2.1, RelP_snoc _ ds bs d b h.2.2 ?_ hs⟩
    simp [totalLen] at ho ⊢
    omega

theorem RelP_map (f : DPart → DPart) (hf : ∀ d, (f d).offset = d.offset ∧ (f d).size = d.size) :
    ∀ (off : Nat) (ds : List DPart) (bs : List Buf), RelP off ds bs → RelP off (ds.map f) bs
  | _, [], [], _ => by simp [RelP]
  | _, [], _ :: _, h => by simp [RelP] at h
  | _, _ :: _, [], h => by simp [RelP] at h
  | off, d :: ds, b :: bs, h => by
    simp only [RelP] at h
    simp only [List.map_cons, RelP, (hf d).1, (hf d).2]
    exact ⟨h.1, h.2.1, RelP_map f hf _ ds bs h.2.2⟩

/-- Reading `(offset, size)` out of the concatenation yields the part. -/
theorem RelP_read : ∀ (off : Nat) (ds : List DPart) (bs : List Buf) (k : Nat) (d : DPart) (b : Buf),
    RelP off ds bs → ds[k]? = some d → bs[k]? = some b →
    ∃ o, d.offset = off + o ∧ (((bs.map (·.data)).flatten).drop o).take d.size = b.data
  | _, [], _, _, _, _, _, hd, _ => by simp at hd
  | _, _ :: _, [], _, _, _, h, _, _ => by simp [RelP] at h
  | off, d0 :: ds, b0 :: bs, 0, d, b, h, hd, hb => by
    simp only [RelP] at h
    simp at hd hb
    subst hd hb
    exact ⟨0, by simp [h.1], by simp [h.2.1]⟩
  | off, d0 :: ds, b0 :: bs, k+1, d, b, h, hd, hb => by
    simp only [RelP] at h
    simp at hd hb
    obtain ⟨o, ho, hr⟩ := RelP_read _ ds bs k d b h.2.2 hd hb
    refine ⟨b0.data.length + o, by omega, ?_⟩
    simp only [List.map_cons, List.flatten_cons, List.drop_append]
    rw [List.drop_eq_nil_of_le (by omega)]
    simpa [show b0.data.length + o - b0.data.length = o by omega] using hr

/-! ## `setLastSize`, `lastEnd` on a list split at its last element -/

theorem setLastSize_snoc (di : List DPart) (dl : DPart) :
    setLastSize (di ++ [dl]) = di ++ [{ dl with size := dl.bufLen }] := by
  unfold setLastSize
  have : (di ++ [dl]).length = di.length + 1 := by simp
  rw [this]
  exact updateAt_last di dl _

theorem lastEnd_snoc (di : List DPart) (dl : DPart) : lastEnd (di ++ [dl]) = dl.offset + dl.size := by
  simp [lastEnd]

theorem content_snoc (si : List Buf) (sl : Buf) :
    ((si ++ [sl]).map (·.data)).flatten = (si.map (·.data)).flatten ++ sl.data := by
  simp

/-! ## The invariant -/

/-- Parts before `Finalize`. -/
def PreParts (dp : List DPart) (sp : List Buf) : Prop :=
  (dp = [] ∧ sp = []) ∨
  ∃ di si dl sl, dp = di ++ [dl] ∧ sp = si ++ [sl] ∧
    RelP 0 di si ∧ di.map (·.buf) = si.map some ∧ dl.buf = some sl ∧
    dl.offset = totalLen (si.map (·.data)) ∧ dl.wpos = sl.pos ∧ sl.pos ≤ sl.data.length

structure DiskInv (d : Disk) (s : Spec) : Prop where
  notRemoved : d.removed = false
  pre : s.finalized = false →
    d.fOpen = true ∧ d.finalSize = 0 ∧ PreParts d.parts s.parts ∧ FileOK d.file s.content
  post : s.finalized = true →
    d.fOpen = false ∧ d.finalSize = s.content.length ∧ (∀ p ∈ d.parts, p.buf = none) ∧
    RelP 0 d.parts s.parts ∧ d.file = s.content

theorem DiskInv.init : DiskInv {} {} := by
  refine ⟨rfl, fun _ => ⟨rfl, rfl, Or.inl ⟨rfl, rfl⟩, ?_⟩, fun h => by cases h⟩
  simp [FileOK, Spec.content]

theorem PreParts.bufs {dp : List DPart} {sp : List Buf} (h : PreParts dp sp) :
    dp.map (·.buf) = sp.map some := by
  rcases h with ⟨rfl, rfl⟩ | ⟨di, si, dl, sl, rfl, rfl, _, hb, hl, _⟩
  · rfl
  · simp [hb, hl]

theorem PreParts.length {dp : List DPart} {sp : List Buf} (h : PreParts dp sp) :
    dp.length = sp.length := by
  have := congrArg List.length h.bufs
  simpa using this

/-- The write case of the file invariant: `pwrite` at `offset + cursor` against `Buffer.Write`. -/
theorem FileOK_write (file pre : Bytes) (sl : Buf) (p : Bytes) (hpos : sl.pos ≤ sl.data.length)
    (h : FileOK file (pre ++ sl.data)) :
    FileOK (pwrite file (pre.length + sl.pos) p) (pre ++ (sl.write p).data) := by
  obtain ⟨hl, hp⟩ := h
  constructor
  · have := pwrite_length_le file (pre.length + sl.pos) p
    simp only [List.length_append, Buf.write_length sl p hpos] at hl ⊢
    omega
  · intro i
    rw [pwrite_getD, hp i, getD_append, getD_append, Buf.write_getD sl p hpos]
    by_cases h1 : i < pre.length
    · have : ¬ (pre.length + sl.pos ≤ i ∧ i < pre.length + sl.pos + p.length) := by omega
      rw [if_neg this, if_pos h1, if_pos h1]
    · rw [if_neg h1, if_neg h1]
      by_cases h2 : pre.length + sl.pos ≤ i ∧ i < pre.length + sl.pos + p.length
      · have : sl.pos ≤ i - pre.length ∧ i - pre.length < sl.pos + p.length := by omega
        rw [if_pos h2, if_pos this]
        congr 1; omega
      · have : ¬ (sl.pos ≤ i - pre.length ∧ i - pre.length < sl.pos + p.length) := by omega
        rw [if_neg h2, if_neg this]

/-- The seek case: zero-extending the last buffer does not change what the file must hold. -/
theorem FileOK_seek (file pre : Bytes) (sl sl' : Buf) (off : Int) (w : Whence)
    (hs : sl.seek off w = some sl') (h : FileOK file (pre ++ sl.data)) :
    FileOK file (pre ++ sl'.data) := by
  obtain ⟨hl, hp⟩ := h
  constructor
  · have := Buf.seek_length sl sl' off w hs
    simp only [List.length_append] at hl ⊢
    omega
  · intro i
    rw [hp i, getD_append, getD_append, Buf.seek_getD sl sl' off w hs]

/-! ## Step equations (the model's `step` under the facts the invariant provides) -/

theorem Spec.step_write (s : Spec) (k : Nat) (p : Bytes) (b : Buf) (hk : s.parts[k]? = some b) :
    s.step (.write k p) = ({ s with parts := updateAt s.parts k (·.write p) }, .n p.length) := by
  simp [Spec.step, hk]

theorem Spec.step_seek (s : Spec) (k : Nat) (off : Int) (w : Whence) (b : Buf) (hk : s.parts[k]? = some b) :
    s.step (.seek k off w) =
      match b.seek off w with
      | none => (s, .err)
      | some b' => ({ s with parts := updateAt s.parts k (fun _ => b') }, .n b'.pos) := by
  simp only [Spec.step, hk]
  cases b.seek off w <;> rfl

theorem Spec.step_readFile (s : Spec) (bufs : List Nat) :
    s.step (.readFile bufs) = (s, if s.finalized then .bytes s.content else .err) := by
  simp only [Spec.step]; split <;> rfl

theorem Spec.step_readPart (s : Spec) (k : Nat) (b : Buf) (hk : s.parts[k]? = some b) :
    s.step (.readPart k) = (s, .bytes b.data) := by
  simp [Spec.step, hk]

theorem Disk.step_write (d : Disk) (k : Nat) (p : Bytes) (dp : DPart) (b : Buf)
    (hk : d.parts[k]? = some dp) (ho : d.fOpen = true) (hb : dp.buf = some b) :
    d.step (.write k p) =
      ({ d with file := pwrite d.file (dp.offset + dp.wpos) p,
                parts := updateAt d.parts k
                  (fun x => { x with wpos := x.wpos + p.length, buf := some (b.write p) }) },
       .n p.length) := by
  simp [Disk.step, hk, ho, hb]

/-- `doubleWriter.Seek` when the two cursors agree: the `OffsetWriter` fails iff the buffer does. -/
theorem Disk.step_seek (d : Disk) (k : Nat) (off : Int) (w : Whence) (dp : DPart) (b : Buf)
    (hk : d.parts[k]? = some dp) (ho : d.fOpen = true) (hb : dp.buf = some b) (hw : dp.wpos = b.pos) :
    d.step (.seek k off w) =
      match b.seek off w with
      | none => (d, .err)
      | some b' =>
        ({ d with parts := updateAt d.parts k (fun x => { x with wpos := b'.pos, buf := some b' }) },
         .n b'.pos) := by
  cases w with
  | start =>
    simp only [Disk.step, hk, ho, hb]
    have hseek := Buf.seek_eq b off .start
    simp only [seekTarget] at hseek
    by_cases hneg : off < 0
    · simp only [hneg, ↓reduceIte] at hseek; simp only [hneg, ↓reduceIte, hseek]
    · simp only [hneg, ↓reduceIte] at hseek; simp only [hneg, ↓reduceIte, hseek]
  | cur =>
    simp only [Disk.step, hk, ho, hb, hw]
    have hseek := Buf.seek_eq b off .cur
    simp only [seekTarget] at hseek
    by_cases hneg : (b.pos : Int) + off < 0
    · simp only [hneg, ↓reduceIte] at hseek; simp only [hneg, ↓reduceIte, hseek]
    · simp only [hneg, ↓reduceIte] at hseek; simp only [hneg, ↓reduceIte, hseek]

theorem Disk.step_readPart_buf (d : Disk) (k : Nat) (dp : DPart) (b : Buf)
    (hk : d.parts[k]? = some dp) (hb : dp.buf = some b) :
    d.step (.readPart k) = (d, .bytes b.data) := by
  simp [Disk.step, hk, hb]

theorem Disk.step_readPart_disk (d : Disk) (k : Nat) (dp : DPart)
    (hk : d.parts[k]? = some dp) (hb : dp.buf = none) (hr : d.removed = false) :
    d.step (.readPart k) = (d, .bytes ((d.file.drop dp.offset).take dp.size)) := by
  simp [Disk.step, hk, hb, hr]

theorem Disk.step_readFile_open (d : Disk) (bufs : List Nat) (ho : d.fOpen = true) :
    d.step (.readFile bufs) = (d, .err) := by
  simp [Disk.step, ho]

theorem Disk.step_readFile_closed (d : Disk) (bufs : List Nat) (ho : d.fOpen = false)
    (hr : d.removed = false) : d.step (.readFile bufs) = (d, .bytes d.file) := by
  simp [Disk.step, ho, hr]

/-- One disciplined operation (no `Remove`): same observable result, invariant re-established. -/
theorem disk_step (d : Disk) (s : Spec) (op : Op) (ops : List Op)
    (hi : DiskInv d s) (h : wfS false s (op :: ops)) :
    (d.step op).2 = (s.step op).2 ∧ DiskInv (d.step op).1 (s.step op).1 := by
  obtain ⟨hrm, hpre, hpost⟩ := hi
  unfold wfS at h
  cases op with
  | newPart =>
    simp only [wfFrom, Bool.and_eq_true, Bool.not_eq_true'] at h
    obtain ⟨hopen, hfs, hparts, hfile⟩ := hpre h.1
    refine ⟨rfl, hrm, fun _ => ⟨hopen, hfs, ?_, ?_⟩, fun hf => ?_⟩
    · -- parts
      rcases hparts with ⟨hd, hs⟩ | ⟨di, si, dl, sl, hd, hs, hrel, hb, hl, ho, _, _⟩
      · refine Or.inr ⟨[], [], ({ offset := 0 } : DPart), {}, ?_, ?_, trivial, rfl, rfl, ?_, rfl, Nat.le_refl _⟩
        · simp [Disk.step, hd, setLastSize, lastEnd]
        · simp [Spec.step, hs]
        · simp [totalLen]
      · refine Or.inr ⟨di ++ [{ dl with size := dl.bufLen }], si ++ [sl],
          ({ offset := dl.offset + dl.bufLen } : DPart), {}, ?_, ?_, ?_, ?_, rfl, ?_, rfl, Nat.le_refl _⟩
        · simp only [Disk.step, hd, setLastSize_snoc, lastEnd_snoc]
        · simp [Spec.step, hs]
        · exact RelP_snoc 0 di si _ sl hrel (by simpa using ho) (by simp [DPart.bufLen, hl])
        · simp [hb, hl]
        · simp [DPart.bufLen, hl, ho, totalLen]
    · -- file: the content is unchanged
      have : (s.step .newPart).1.content = s.content := by simp [Spec.step, Spec.content]
      rw [this]; exact hfile
    · simp [Spec.step, h.1] at hf
  | write k p =>
    simp only [wfFrom, Bool.and_eq_true, Bool.not_eq_true', beq_iff_eq] at h
    obtain ⟨hopen, hfs, hparts, hfile⟩ := hpre h.1.1
    rcases hparts with ⟨hd, hs⟩ | ⟨di, si, dl, sl, hd, hs, hrel, hb, hl, ho, hw, hpos⟩
    · rw [hs] at h; simp at h
    · have hlen := RelP_length _ _ _ hrel
      have hk : k = si.length := by rw [hs] at h; simp at h; omega
      subst hk
      have hsk : s.parts[si.length]? = some sl := by rw [hs]; exact getElem?_last si sl
      have hdk : d.parts[si.length]? = some dl := by rw [hd, ← hlen]; exact getElem?_last di dl
      rw [Disk.step_write d _ p dl sl hdk hopen hl, Spec.step_write s _ p sl hsk]
      refine ⟨rfl, hrm, fun _ => ⟨hopen, hfs, ?_, ?_⟩, fun hf => ?_⟩
      · refine Or.inr ⟨di, si, { dl with wpos := dl.wpos + p.length, buf := some (sl.write p) }, sl.write p,
          ?_, ?_, hrel, hb, rfl, ho, ?_, Buf.write_inv sl p hpos⟩
        · simp only [hd]; rw [← hlen, updateAt_last]
        · simp only [hs]; rw [updateAt_last]
        · simp [hw, Buf.write_pos]
      · have hc : s.content = (si.map (·.data)).flatten ++ sl.data := by
          simp [Spec.content, hs]
        have := FileOK_write d.file _ sl p hpos (hc ▸ hfile)
        simp only [Spec.content, hs, updateAt_last, content_snoc]
        rw [ho, hw, totalLen_eq]
        exact this
      · simp [h.1.1] at hf
  | seek k off w =>
    simp only [wfFrom, Bool.and_eq_true, Bool.not_eq_true', beq_iff_eq] at h
    obtain ⟨hopen, hfs, hparts, hfile⟩ := hpre h.1.1
    rcases hparts with ⟨hd, hs⟩ | ⟨di, si, dl, sl, hd, hs, hrel, hb, hl, ho, hw, hpos⟩
    · rw [hs] at h; simp at h
    · have hlen := RelP_length _ _ _ hrel
      have hk : k = si.length := by rw [hs] at h; simp at h; omega
      subst hk
      have hsk : s.parts[si.length]? = some sl := by rw [hs]; exact getElem?_last si sl
      have hdk : d.parts[si.length]? = some dl := by rw [hd, ← hlen]; exact getElem?_last di dl
      rw [Disk.step_seek d _ off w dl sl hdk hopen hl hw, Spec.step_seek s _ off w sl hsk]
      cases hseek : sl.seek off w with
      | none => exact ⟨rfl, hrm, hpre, hpost⟩
      | some sl' =>
        dsimp only
        refine ⟨rfl, hrm, fun _ => ⟨hopen, hfs, ?_, ?_⟩, fun hf => ?_⟩
        · refine Or.inr ⟨di, si, { dl with wpos := sl'.pos, buf := some sl' }, sl',
            ?_, ?_, hrel, hb, rfl, ho, rfl, Buf.seek_inv sl _ off w hseek⟩
          · simp only [hd]; rw [← hlen, updateAt_last]
          · simp only [hs]; rw [updateAt_last]
        · have hc : s.content = (si.map (·.data)).flatten ++ sl.data := by
            simp [Spec.content, hs]
          have := FileOK_seek d.file _ sl _ off w hseek (hc ▸ hfile)
          simp only [Spec.content, hs, updateAt_last, content_snoc]
          exact this
        · simp [h.1.1] at hf
  | finalize =>
    simp only [wfFrom, Bool.and_eq_true, Bool.not_eq_true'] at h
    obtain ⟨hopen, hfs, hparts, hfile⟩ := hpre h.1
    refine ⟨rfl, hrm, fun hf => by simp [Spec.step] at hf, fun _ => ?_⟩
    have hcont : (s.step .finalize).1.content = s.content := rfl
    have hsp : (s.step .finalize).1.parts = s.parts := rfl
    rw [hcont, hsp]
    rcases hparts with ⟨hd, hs⟩ | ⟨di, si, dl, sl, hd, hs, hrel, hb, hl, ho, hw, hpos⟩
    · have hc : s.content = [] := by simp [Spec.content, hs]
      refine ⟨rfl, ?_, ?_, ?_, ?_⟩
      · simp [Disk.step, hd, setLastSize, hfs, hc]
      · simp [Disk.step, hd, setLastSize]
      · simp [Disk.step, hd, hs, setLastSize, RelP]
      · simp [Disk.step, hd, setLastSize, hfs, hc, ftruncate]
    · have hc : s.content = (si.map (·.data)).flatten ++ sl.data := by
        simp [Spec.content, hs]
      have hfsz : lastEnd (setLastSize d.parts) = s.content.length := by
        rw [hd, setLastSize_snoc, lastEnd_snoc, hc]
        simp [DPart.bufLen, hl, ho, totalLen_eq]
      have hpos' : (setLastSize d.parts).length > 0 := by rw [hd, setLastSize_snoc]; simp
      refine ⟨rfl, ?_, ?_, ?_, ?_⟩
      · simp only [Disk.step, hpos', if_true, hfsz]
      · simp only [Disk.step]
        intro p hp
        simp only [List.mem_map] at hp
        obtain ⟨q, _, rfl⟩ := hp
        rfl
      · simp only [Disk.step]
        rw [hs, hd, setLastSize_snoc]
        exact RelP_map (fun x => { x with buf := none }) (fun _ => ⟨rfl, rfl⟩) _ _ _
          (RelP_snoc 0 di si _ sl hrel (by simpa using ho) (by simp [DPart.bufLen, hl]))
      · simp only [Disk.step, hpos', if_true, hfsz]
        exact hfile.truncate
  | remove =>
    simp [wfFrom] at h
  | readPart k =>
    simp only [wfFrom, Bool.and_eq_true, decide_eq_true_eq] at h
    obtain ⟨b, hb⟩ := getElem?_of_lt s.parts k h.1
    rw [Spec.step_readPart s k b hb]
    cases hfin : s.finalized with
    | false =>
      obtain ⟨hopen, hfs, hparts, hfile⟩ := hpre hfin
      have hbufs := hparts.bufs
      have : (d.parts.map (·.buf))[k]? = (s.parts.map some)[k]? := by rw [hbufs]
      simp only [List.getElem?_map, hb, Option.map_some] at this
      cases hdk : d.parts[k]? with
      | none => simp [hdk] at this
      | some dp =>
        simp only [hdk, Option.map_some, Option.some.injEq] at this
        rw [Disk.step_readPart_buf d k dp b hdk this]
        exact ⟨rfl, hrm, hpre, hpost⟩
    | true =>
      obtain ⟨hopen, hfs, hnone, hrel, hfile⟩ := hpost hfin
      have hlen := RelP_length _ _ _ hrel
      obtain ⟨dp, hdk⟩ := getElem?_of_lt d.parts k (by omega)
      have hbn : dp.buf = none := hnone dp (List.mem_of_getElem? hdk)
      obtain ⟨o, ho, hr⟩ := RelP_read 0 d.parts s.parts k dp b hrel hdk hb
      rw [Disk.step_readPart_disk d k dp hdk hbn hrm]
      refine ⟨?_, hrm, hpre, hpost⟩
      rw [hfile, Spec.content, show dp.offset = o by omega, hr]
  | readFile bufs =>
    cases hfin : s.finalized with
    | false =>
      obtain ⟨hopen, _⟩ := hpre hfin
      rw [Disk.step_readFile_open d bufs hopen, Spec.step_readFile, hfin]
      exact ⟨rfl, hrm, hpre, hpost⟩
    | true =>
      obtain ⟨hopen, _, _, _, hfile⟩ := hpost hfin
      rw [Disk.step_readFile_closed d bufs hopen hrm, Spec.step_readFile, hfin, hfile]
      exact ⟨rfl, hrm, hpre, hpost⟩
  | size =>
    refine ⟨?_, hrm, hpre, hpost⟩
    cases hfin : s.finalized with
    | false =>
      obtain ⟨_, hfs, _⟩ := hpre hfin
      simp [Disk.step, Spec.step, hfs, hfin]
    | true =>
      obtain ⟨_, hfs, _⟩ := hpost hfin
      simp [Disk.step, Spec.step, hfs, hfin]

/-- Refinement along a whole disciplined run (outputs and final invariant). -/
theorem disk_run (ops : List Op) : ∀ (d : Disk) (s : Spec), DiskInv d s → wfS false s ops →
    runDisk d ops = runSpec s ops ∧ DiskInv (d.exec ops) (s.exec ops) := by
  induction ops with
  | nil => intro d s hi _; exact ⟨rfl, hi⟩
  | cons op ops ih =>
    intro d s hi h
    obtain ⟨ho, hi'⟩ := disk_step d s op ops hi h
    obtain ⟨h1, h2⟩ := ih _ _ hi' (wfS_step false s op ops h)
    exact ⟨by rw [runDisk_cons, runSpec_cons, ho, h1], h2⟩

end Hls.Storage
