/-
  Executable model of gohlslib/pkg/storage (RAM and disk back ends) and of the
  byte-slice specification both are supposed to refine.  Core Lean only.

  Mirrors, statement by statement:
    seekablebuffer.Buffer.{Write,Seek}        (mediacommon; cross-checked by T2 through partRAM)
    fileRAM / partRAM / ramFileReader.Read
    fileDisk / partDisk / doubleWriter / io.OffsetWriter / diskPartReader
  Trusted (modelled, not verified): os.File pwrite/pread/zero-fill/truncate/unlink.
-/
namespace Hls.Storage

abbrev Bytes := List Nat

def zeros (n : Nat) : Bytes := List.replicate n 0

inductive Whence | start | cur
  deriving DecidableEq, Repr

/-- `seekablebuffer.Buffer`: a `bytes.Buffer` plus a cursor. -/
structure Buf where
  data : Bytes := []
  pos  : Nat := 0
  deriving DecidableEq, Repr

/-- `Buffer.Write`: overwrite in place up to the current end (`copy`), append the rest. -/
def Buf.write (b : Buf) (p : Bytes) : Buf :=
  let n := if b.pos < b.data.length then min (b.data.length - b.pos) p.length else 0
  let data1 := b.data.take b.pos ++ p.take n ++ b.data.drop (b.pos + n)
  { data := data1 ++ p.drop n, pos := b.pos + p.length }

/-- `Buffer.Seek` for `io.SeekStart` / `io.SeekCurrent`; `none` = "negative position" error. -/
def Buf.seek (b : Buf) (off : Int) (w : Whence) : Option Buf :=
  let pos2 : Int := match w with
    | .start => off
    | .cur   => (b.pos : Int) + off
  if pos2 < 0 then none
  else some { data := b.data ++ zeros (pos2.toNat - b.data.length), pos := pos2.toNat }

inductive Op
  | newPart
  | write (k : Nat) (p : Bytes)
  | seek (k : Nat) (off : Int) (w : Whence)
  | finalize
  | remove
  | readPart (k : Nat)
  | readFile (bufs : List Nat)   -- Read with each buffer size in turn, then drain until EOF
  | size
  deriving DecidableEq, Repr

inductive Out
  | unit
  | n (v : Nat)          -- Write's count / Seek's position / Size
  | bytes (b : Bytes)    -- everything a reader returned, concatenated
  | err
  deriving DecidableEq, Repr

/-! ## Specification: a file is a list of byte strings with a cursor each -/

structure Spec where
  parts     : List Buf := []
  finalized : Bool := false
  removed   : Bool := false
  deriving Repr

def Spec.content (s : Spec) : Bytes := (s.parts.map (·.data)).flatten

def updateAt {α} (l : List α) (k : Nat) (f : α → α) : List α :=
  match l, k with
  | [], _ => []
  | a :: as, 0 => f a :: as
  | a :: as, k+1 => a :: updateAt as k f

def Spec.step (s : Spec) : Op → Spec × Out
  | .newPart => ({ s with parts := s.parts ++ [{}] }, .unit)
  | .write k p =>
    match s.parts[k]? with
    | none => (s, .err)
    | some _ => ({ s with parts := updateAt s.parts k (·.write p) }, .n p.length)
  | .seek k off w =>
    match s.parts[k]? with
    | none => (s, .err)
    | some b =>
      match b.seek off w with
      | none => (s, .err)
      | some b' => ({ s with parts := updateAt s.parts k (fun _ => b') }, .n b'.pos)
  | .finalize => ({ s with finalized := true }, .unit)
  | .remove => ({ s with removed := true }, .unit)
  | .readPart k =>
    match s.parts[k]? with
    | none => (s, .err)
    | some b => (s, .bytes b.data)
  | .readFile _ => if s.finalized then (s, .bytes s.content) else (s, .err)
  | .size => (s, .n (if s.finalized then s.content.length else 0))

/-! ## RAM back end -/

structure Ram where
  finalized : Bool := false
  parts     : List Buf := []
  finalSize : Nat := 0
  deriving Repr

/-- `ramFileReader` cursor. -/
structure RCur where
  curPart : Nat := 0
  curPos  : Nat := 0
  deriving Repr, DecidableEq

/-- One call of `ramFileReader.Read(p)` with `len(p) = lenp`; `acc` is `p[:n]`.
    Returns (bytes copied into `p`, `err == io.EOF`, new cursor).  `fuel` bounds
    the `for` loop (sufficiency proved in `Lemmas`). -/
def ramRead (parts : List Bytes) (lenp : Nat) : Nat → RCur → Bytes → Bytes × Bool × RCur
  | 0, c, acc => (acc, false, c)
  | fuel+1, c, acc =>
    if c.curPart ≥ parts.length then (acc, true, c)
    else
      let buf := parts.getD c.curPart []
      let copied := min (lenp - acc.length) (buf.length - c.curPos)
      let acc' := acc ++ (buf.drop c.curPos).take copied
      let pos' := c.curPos + copied
      let c' : RCur := if pos' = buf.length then ⟨c.curPart + 1, 0⟩ else ⟨c.curPart, pos'⟩
      if acc'.length = lenp then (acc', false, c')
      else ramRead parts lenp fuel c' acc'

def readFuel (parts : List Bytes) (lenp : Nat) : Nat := parts.length + lenp + 2

/-- Vocabulary for statements about the reader (not used by the executable model):
    the cursor is usable — `curPos` does not exceed the current part (Go would panic on
    `buf[r.curPos:]` otherwise); past the last part the position is 0. -/
def RCur.ok (parts : List Bytes) (c : RCur) : Prop :=
  c.curPos ≤ (parts.getD c.curPart []).length

/-- The bytes that are still ahead of the cursor. -/
def remaining (parts : List Bytes) (c : RCur) : Bytes :=
  ((parts.drop c.curPart).flatten).drop c.curPos

/-- Read with each buffer size of `bufs`; stop early at EOF. Returns all bytes, whether EOF was seen, cursor. -/
def ramReadSeq (parts : List Bytes) : List Nat → RCur → Bytes → Bytes × Bool × RCur
  | [], c, out => (out, false, c)
  | b :: bs, c, out =>
    let (got, eof, c') := ramRead parts b (readFuel parts b) c []
    if eof then (out ++ got, true, c') else ramReadSeq parts bs c' (out ++ got)

/-- Drain with a fixed positive buffer size until EOF (what `io.Copy`/`io.ReadAll` do). -/
def ramDrain (parts : List Bytes) (bsz : Nat) : Nat → RCur → Bytes → Bytes × Bool
  | 0, _, out => (out, false)
  | fuel+1, c, out =>
    let (got, eof, c') := ramRead parts bsz (readFuel parts bsz) c []
    if eof then (out ++ got, true) else ramDrain parts bsz fuel c' (out ++ got)

def drainSize : Nat := 512

def totalLen (parts : List Bytes) : Nat := (parts.map List.length).sum

def ramReadFile (parts : List Bytes) (bufs : List Nat) : Bytes :=
  let (out, eof, c) := ramReadSeq parts bufs {} []
  if eof then out else (ramDrain parts drainSize (totalLen parts + parts.length + 2) c out).1

def Ram.step (s : Ram) : Op → Ram × Out
  | .newPart => ({ s with parts := s.parts ++ [{}] }, .unit)
  | .write k p =>
    match s.parts[k]? with
    | none => (s, .err)
    | some _ => ({ s with parts := updateAt s.parts k (·.write p) }, .n p.length)
  | .seek k off w =>
    match s.parts[k]? with
    | none => (s, .err)
    | some b =>
      match b.seek off w with
      | none => (s, .err)
      | some b' => ({ s with parts := updateAt s.parts k (fun _ => b') }, .n b'.pos)
  | .finalize =>
    ({ s with finalized := true, finalSize := s.finalSize + totalLen (s.parts.map (·.data)) }, .unit)
  | .remove => (s, .unit)
  | .readPart k =>
    match s.parts[k]? with
    | none => (s, .err)
    | some b => (s, .bytes b.data)
  | .readFile bufs =>
    if s.finalized then (s, .bytes (ramReadFile (s.parts.map (·.data)) bufs)) else (s, .err)
  | .size => (s, .n s.finalSize)

/-! ## Disk back end -/

/-- `pwrite(2)` on a regular file: holes are zero-filled; a zero-length write does nothing. -/
def pwrite (file : Bytes) (off : Nat) (p : Bytes) : Bytes :=
  match p with
  | [] => file
  | _ =>
    let f := file ++ zeros (off - file.length)
    f.take off ++ p ++ f.drop (off + p.length)

/-- `ftruncate(2)`: cut or zero-extend. -/
def ftruncate (file : Bytes) (n : Nat) : Bytes :=
  (file ++ zeros (n - file.length)).take n

structure DPart where
  buf    : Option Buf := some {}   -- `nil` after Finalize
  offset : Nat := 0
  size   : Nat := 0
  wpos   : Nat := 0                -- cursor of the part's `io.OffsetWriter`
  deriving Repr

structure Disk where
  file      : Bytes := []
  fOpen     : Bool := true         -- `s.f != nil`
  parts     : List DPart := []
  finalSize : Nat := 0
  removed   : Bool := false
  deriving Repr

def DPart.bufLen (p : DPart) : Nat := match p.buf with | some b => b.data.length | none => 0

def setLastSize (parts : List DPart) : List DPart :=
  match parts.length with
  | 0 => parts
  | n+1 => updateAt parts n (fun p => { p with size := p.bufLen })

def lastEnd (parts : List DPart) : Nat :=
  match parts.getLast? with
  | none => 0
  | some p => p.offset + p.size

/-- Faithful to the Go code on every disciplined sequence (`WF`, `WFrm`) and, outside the
    discipline, for writes/seeks to earlier parts, `Remove` before `Finalize` and NON-EMPTY
    writes after `Finalize` (all exercised by the T2 `undisciplined` stream).  NOT modelled:
    `Seek` / empty `Write` / `NewPart` / a second `Finalize` after `Finalize` -- there the real
    code dereferences the dropped mirror buffer (nil-pointer panic) or keeps using the orphaned
    one, depending on when `Part.Writer()` was called (notes/storage.md). -/
def Disk.step (s : Disk) : Op → Disk × Out
  | .newPart =>
    let parts := setLastSize s.parts
    ({ s with parts := parts ++ [{ offset := lastEnd parts }] }, .unit)
  | .write k p =>
    match s.parts[k]? with
    | none => (s, .err)
    | some dp =>
      match s.fOpen, dp.buf with
      | true, some b =>
        ({ s with file := pwrite s.file (dp.offset + dp.wpos) p,
                  parts := updateAt s.parts k
                    (fun d => { d with wpos := d.wpos + p.length, buf := some (b.write p) }) },
         .n p.length)
      | _, _ => (s, .err)
  | .seek k off w =>
    match s.parts[k]? with
    | none => (s, .err)
    | some dp =>
      match s.fOpen, dp.buf with
      | true, some b =>
        -- io.OffsetWriter.Seek first, then the buffer's Seek
        let o : Int := match w with
          | .start => off
          | .cur   => (dp.wpos : Int) + off
        if o < 0 then (s, .err)
        else match b.seek off w with
          | none => (s, .err)   -- unreachable when the two cursors agree
          | some b' =>
            ({ s with parts := updateAt s.parts k (fun d => { d with wpos := o.toNat, buf := some b' }) },
             .n b'.pos)
      | _, _ => (s, .err)
  | .finalize =>
    let parts := setLastSize s.parts
    let fs := if parts.length > 0 then lastEnd parts else s.finalSize
    ({ s with parts := parts.map (fun d => { d with buf := none }),
              finalSize := fs,
              file := ftruncate s.file fs,
              fOpen := false }, .unit)
  | .remove => ({ s with removed := true }, .unit)
  | .readPart k =>
    match s.parts[k]? with
    | none => (s, .err)
    | some dp =>
      match dp.buf with
      | some b => (s, .bytes b.data)
      | none =>
        if s.removed then (s, .err)
        else (s, .bytes ((s.file.drop dp.offset).take dp.size))
  | .readFile _ =>
    if s.fOpen then (s, .err)
    else if s.removed then (s, .err)
    else (s, .bytes s.file)
  | .size => (s, .n s.finalSize)

/-! ## Runs -/

def runSpec : Spec → List Op → List Out
  | _, [] => []
  | s, op :: ops => let (s', o) := s.step op; o :: runSpec s' ops

def runRam : Ram → List Op → List Out
  | _, [] => []
  | s, op :: ops => let (s', o) := s.step op; o :: runRam s' ops

def runDisk : Disk → List Op → List Out
  | _, [] => []
  | s, op :: ops => let (s', o) := s.step op; o :: runDisk s' ops

/-- Final states (the runs above only keep the outputs). -/
def Spec.exec (s : Spec) (ops : List Op) : Spec := ops.foldl (fun s op => (s.step op).1) s
def Ram.exec (s : Ram) (ops : List Op) : Ram := ops.foldl (fun s op => (s.step op).1) s
def Disk.exec (s : Disk) (ops : List Op) : Disk := ops.foldl (fun s op => (s.step op).1) s

/-- The discipline shared by both back ends, the muxer's writers and the documented
    contract ("Finalize makes the file read-only"): writes and seeks address the most
    recently allocated part, nothing is written or allocated after `Finalize`,
    `Finalize` is called once, readers name existing parts.  `Remove` is admitted only
    when `allowRm` is set (the RAM refinement covers it; the RAM≡disk statement holds
    "until Remove").  Decidable by one scan. -/
def wfFrom (allowRm : Bool) : (nparts : Nat) → (fin : Bool) → List Op → Bool
  | _, _, [] => true
  | n, fin, .newPart :: ops => !fin && wfFrom allowRm (n+1) fin ops
  | n, fin, .write k _ :: ops => !fin && k + 1 == n && wfFrom allowRm n fin ops
  | n, fin, .seek k _ _ :: ops => !fin && k + 1 == n && wfFrom allowRm n fin ops
  | n, fin, .finalize :: ops => !fin && wfFrom allowRm n true ops
  | n, fin, .remove :: ops => allowRm && wfFrom allowRm n fin ops
  | n, fin, .readPart k :: ops => decide (k < n) && wfFrom allowRm n fin ops
  | n, fin, .readFile _ :: ops => wfFrom allowRm n fin ops
  | n, fin, .size :: ops => wfFrom allowRm n fin ops

/-- Disciplined, and `Remove` not called. -/
def WF (ops : List Op) : Prop := wfFrom false 0 false ops = true

/-- Disciplined; `Remove` may occur anywhere. -/
def WFrm (ops : List Op) : Prop := wfFrom true 0 false ops = true

instance (ops : List Op) : Decidable (WF ops) := inferInstanceAs (Decidable (_ = true))
instance (ops : List Op) : Decidable (WFrm ops) := inferInstanceAs (Decidable (_ = true))

end Hls.Storage
