import Hls.Storage.LemmasRead
/-!
# Helper lemmas for C17, part 3: runs, the discipline, RAM back end refines the specification
-/
namespace Hls.Storage

/-! ## Runs and final states -/

theorem Spec.exec_cons (s : Spec) (op : Op) (ops : List Op) :
    s.exec (op :: ops) = (s.step op).1.exec ops := rfl
theorem Ram.exec_cons (s : Ram) (op : Op) (ops : List Op) :
    s.exec (op :: ops) = (s.step op).1.exec ops := rfl
theorem Disk.exec_cons (s : Disk) (op : Op) (ops : List Op) :
    s.exec (op :: ops) = (s.step op).1.exec ops := rfl

theorem Spec.exec_append (s : Spec) (a b : List Op) : s.exec (a ++ b) = (s.exec a).exec b := by
  simp [Spec.exec, List.foldl_append]
theorem Ram.exec_append (s : Ram) (a b : List Op) : s.exec (a ++ b) = (s.exec a).exec b := by
  simp [Ram.exec, List.foldl_append]
theorem Disk.exec_append (s : Disk) (a b : List Op) : s.exec (a ++ b) = (s.exec a).exec b := by
  simp [Disk.exec, List.foldl_append]

theorem runSpec_cons (s : Spec) (op : Op) (ops : List Op) :
    runSpec s (op :: ops) = (s.step op).2 :: runSpec (s.step op).1 ops := rfl
theorem runRam_cons (s : Ram) (op : Op) (ops : List Op) :
    runRam s (op :: ops) = (s.step op).2 :: runRam (s.step op).1 ops := rfl
theorem runDisk_cons (s : Disk) (op : Op) (ops : List Op) :
    runDisk s (op :: ops) = (s.step op).2 :: runDisk (s.step op).1 ops := rfl

theorem runRam_append (s : Ram) (a b : List Op) :
    runRam s (a ++ b) = runRam s a ++ runRam (s.exec a) b := by
  induction a generalizing s with
  | nil => rfl
  | cons op a ih => simp only [List.cons_append, runRam_cons, ih, Ram.exec_cons]
theorem runDisk_append (s : Disk) (a b : List Op) :
    runDisk s (a ++ b) = runDisk s a ++ runDisk (s.exec a) b := by
  induction a generalizing s with
  | nil => rfl
  | cons op a ih => simp only [List.cons_append, runDisk_cons, ih, Disk.exec_cons]
theorem runSpec_append (s : Spec) (a b : List Op) :
    runSpec s (a ++ b) = runSpec s a ++ runSpec (s.exec a) b := by
  induction a generalizing s with
  | nil => rfl
  | cons op a ih => simp only [List.cons_append, runSpec_cons, ih, Spec.exec_cons]

theorem runRam_length (s : Ram) (ops : List Op) : (runRam s ops).length = ops.length := by
  induction ops generalizing s with
  | nil => rfl
  | cons op a ih => simp [runRam_cons, ih]
theorem runDisk_length (s : Disk) (ops : List Op) : (runDisk s ops).length = ops.length := by
  induction ops generalizing s with
  | nil => rfl
  | cons op a ih => simp [runDisk_cons, ih]

/-! ## The discipline, relative to a specification state -/

/-- `ops` is disciplined when started in specification state `s`. -/
def wfS (a : Bool) (s : Spec) (ops : List Op) : Prop :=
  wfFrom a s.parts.length s.finalized ops = true

theorem WF_iff (ops : List Op) : WF ops ↔ wfS false {} ops := Iff.rfl
theorem WFrm_iff (ops : List Op) : WFrm ops ↔ wfS true {} ops := Iff.rfl

/-- Forbidding `Remove` is the stronger discipline. -/
theorem wfFrom_mono (n : Nat) (fin : Bool) (ops : List Op) (h : wfFrom false n fin ops = true) :
    wfFrom true n fin ops = true := by
  induction ops generalizing n fin with
  | nil => rfl
  | cons op ops ih =>
    cases op <;> simp only [wfFrom, Bool.and_eq_true, Bool.false_and] at h ⊢
    case newPart => exact ⟨h.1, ih _ _ h.2⟩
    case write => exact ⟨h.1, ih _ _ h.2⟩
    case seek => exact ⟨h.1, ih _ _ h.2⟩
    case finalize => exact ⟨h.1, ih _ _ h.2⟩
    case remove => cases h
    case readPart => exact ⟨h.1, ih _ _ h.2⟩
    case readFile => exact ih _ _ h
    case size => exact ih _ _ h

theorem WF.toWFrm {ops : List Op} (h : WF ops) : WFrm ops := wfFrom_mono _ _ _ h

/-- A part that exists can be looked up. -/
theorem getElem?_of_lt {α} (l : List α) (k : Nat) (h : k < l.length) : ∃ a, l[k]? = some a :=
  ⟨l[k], List.getElem?_eq_getElem h⟩

/-- One disciplined step keeps the rest of the list disciplined (about the specification only). -/
theorem wfS_step (a : Bool) (s : Spec) (op : Op) (ops : List Op) (h : wfS a s (op :: ops)) :
    wfS a (s.step op).1 ops := by
  unfold wfS at h ⊢
  cases op with
  | newPart =>
    simp only [wfFrom, Bool.and_eq_true] at h
    simpa [Spec.step] using h.2
  | write k p =>
    simp only [wfFrom, Bool.and_eq_true, beq_iff_eq] at h
    obtain ⟨b, hb⟩ := getElem?_of_lt s.parts k (by omega)
    simpa [Spec.step, hb] using h.2
  | seek k off w =>
    simp only [wfFrom, Bool.and_eq_true, beq_iff_eq] at h
    obtain ⟨b, hb⟩ := getElem?_of_lt s.parts k (by omega)
    simp only [Spec.step, hb]
    cases hs : b.seek off w with
    | none => simpa using h.2
    | some b' => simpa using h.2
  | finalize =>
    simp only [wfFrom, Bool.and_eq_true] at h
    simpa [Spec.step] using h.2
  | remove =>
    simp only [wfFrom, Bool.and_eq_true] at h
    simpa [Spec.step] using h.2
  | readPart k =>
    simp only [wfFrom, Bool.and_eq_true, decide_eq_true_eq] at h
    obtain ⟨b, hb⟩ := getElem?_of_lt s.parts k h.1
    simpa [Spec.step, hb] using h.2
  | readFile bufs =>
    simp only [wfFrom] at h
    simp only [Spec.step]
    split <;> exact h
  | size =>
    simp only [wfFrom] at h
    simpa [Spec.step] using h

theorem wfS_exec (a : Bool) (s : Spec) (ops rest : List Op) (h : wfS a s (ops ++ rest)) :
    wfS a (s.exec ops) rest := by
  induction ops generalizing s with
  | nil => exact h
  | cons op ops ih => exact ih _ (wfS_step a s op _ h)

theorem wfS_prefix (a : Bool) (n : Nat) (fin : Bool) (ops rest : List Op)
    (h : wfFrom a n fin (ops ++ rest) = true) : wfFrom a n fin ops = true := by
  induction ops generalizing n fin with
  | nil => rfl
  | cons op ops ih =>
    cases op <;> simp only [List.cons_append, wfFrom, Bool.and_eq_true] at h ⊢
    case newPart => exact ⟨h.1, ih _ _ h.2⟩
    case write => exact ⟨h.1, ih _ _ h.2⟩
    case seek => exact ⟨h.1, ih _ _ h.2⟩
    case finalize => exact ⟨h.1, ih _ _ h.2⟩
    case remove => exact ⟨h.1, ih _ _ h.2⟩
    case readPart => exact ⟨h.1, ih _ _ h.2⟩
    case readFile => exact ih _ _ h
    case size => exact ih _ _ h

/-! ## Facts about specification states reached by disciplined runs -/

/-- `finalized` is set exactly by `Finalize`. -/
theorem Spec.exec_finalized (s : Spec) (ops : List Op) :
    (s.exec ops).finalized = (s.finalized || ops.contains .finalize) := by
  induction ops generalizing s with
  | nil => simp [Spec.exec]
  | cons op ops ih =>
    rw [Spec.exec_cons, ih]
    cases op with
    | newPart => simp [Spec.step]
    | write k p => simp only [Spec.step]; split <;> simp
    | seek k off w => simp only [Spec.step]; split <;> (try split) <;> simp
    | finalize => simp [Spec.step]
    | remove => simp [Spec.step]
    | readPart k => simp only [Spec.step]; split <;> simp
    | readFile b => simp only [Spec.step]; split <;> simp
    | size => simp [Spec.step]

/-! ## RAM refines the specification -/

/-- Abstraction relation for the RAM back end. -/
structure RamRel (r : Ram) (s : Spec) : Prop where
  parts : r.parts = s.parts
  fin   : r.finalized = s.finalized
  size  : r.finalSize = if s.finalized then s.content.length else 0

theorem RamRel.init : RamRel {} {} := ⟨rfl, rfl, rfl⟩

theorem updateAt_content_len (l : List Buf) : totalLen (l.map (·.data)) = (l.map (·.data)).flatten.length :=
  totalLen_eq _

/-- One disciplined operation: same observable result, relation re-established. -/
theorem ram_step (a : Bool) (r : Ram) (s : Spec) (op : Op) (ops : List Op)
    (hr : RamRel r s) (h : wfS a s (op :: ops)) :
    (r.step op).2 = (s.step op).2 ∧ RamRel (r.step op).1 (s.step op).1 := by
  obtain ⟨hp, hf, hsz⟩ := hr
  unfold wfS at h
  cases op with
  | newPart =>
    simp only [wfFrom, Bool.and_eq_true, Bool.not_eq_true'] at h
    refine ⟨rfl, ?_, ?_, ?_⟩
    · simp [Ram.step, Spec.step, hp]
    · simp [Ram.step, Spec.step, hf]
    · simp [Ram.step, Spec.step, hsz, h.1]
  | write k p =>
    simp only [wfFrom, Bool.and_eq_true, Bool.not_eq_true', beq_iff_eq] at h
    simp only [Ram.step, Spec.step, hp]
    cases hk : s.parts[k]? with
    | none => exact ⟨rfl, hp, hf, hsz⟩
    | some b => exact ⟨rfl, by simp, hf, by simp [hsz, h.1.1]⟩
  | seek k off w =>
    simp only [wfFrom, Bool.and_eq_true, Bool.not_eq_true', beq_iff_eq] at h
    simp only [Ram.step, Spec.step, hp]
    cases hk : s.parts[k]? with
    | none => exact ⟨rfl, hp, hf, hsz⟩
    | some b =>
      dsimp only
      cases hs : b.seek off w with
      | none => exact ⟨rfl, hp, hf, hsz⟩
      | some b' => exact ⟨rfl, by simp, hf, by simp [hsz, h.1.1]⟩
  | finalize =>
    simp only [wfFrom, Bool.and_eq_true, Bool.not_eq_true'] at h
    refine ⟨rfl, hp, rfl, ?_⟩
    simp [Ram.step, Spec.step, hsz, h.1, hp, Spec.content, totalLen_eq]
  | remove =>
    exact ⟨rfl, hp, hf, hsz⟩
  | readPart k =>
    simp only [Ram.step, Spec.step, hp]
    cases hk : s.parts[k]? with
    | none => exact ⟨rfl, hp, hf, hsz⟩
    | some b => exact ⟨rfl, hp, hf, hsz⟩
  | readFile bufs =>
    simp only [Ram.step, Spec.step, hf]
    cases hfin : s.finalized with
    | false => exact ⟨rfl, hp, by simp [hf, hfin], by simp [hsz, hfin]⟩
    | true =>
      refine ⟨?_, hp, by simp [hf, hfin], by simp [hsz, hfin]⟩
      simp [ramReadFile_eq, Spec.content, hp]
  | size =>
    refine ⟨?_, hp, hf, hsz⟩
    simp [Ram.step, Spec.step, hsz]

/-- Refinement along a whole disciplined run (outputs and final relation). -/
theorem ram_run (a : Bool) (ops : List Op) : ∀ (r : Ram) (s : Spec), RamRel r s → wfS a s ops →
    runRam r ops = runSpec s ops ∧ RamRel (r.exec ops) (s.exec ops) := by
  induction ops with
  | nil => intro r s hr _; exact ⟨rfl, hr⟩
  | cons op ops ih =>
    intro r s hr h
    obtain ⟨ho, hr'⟩ := ram_step a r s op ops hr h
    obtain ⟨h1, h2⟩ := ih _ _ hr' (wfS_step a s op ops h)
    exact ⟨by rw [runRam_cons, runSpec_cons, ho, h1], h2⟩

end Hls.Storage
