import Hls.Storage.LemmasBuf
import Hls.Storage.LemmasRead
import Hls.Storage.LemmasRam
import Hls.Storage.LemmasDisk
import Hls.Storage.LemmasState
/-! Helper lemmas for C17 (see the four parts). -/
