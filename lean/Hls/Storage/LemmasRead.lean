import Hls.Storage.LemmasBuf
/-!
# Helper lemmas for C17, part 2: `ramFileReader.Read`

`ramRead` is the `for` loop of `ramFileReader.Read`, bounded by fuel.  We show
what ONE call returns when the fuel is at least `(#parts − curPart) + 1`
(`ramRead_spec`), that `readFuel` always is, and then that any sequence of
calls followed by a drain returns the concatenation of the parts.
-/
namespace Hls.Storage

theorem remaining_init (parts : List Bytes) : remaining parts {} = parts.flatten := by
  simp [remaining]

theorem RCur.ok_init (parts : List Bytes) : RCur.ok parts {} := by
  simp [RCur.ok]

theorem remaining_of_ge (parts : List Bytes) (c : RCur) (h : parts.length ≤ c.curPart) :
    remaining parts c = [] := by
  simp [remaining, List.drop_eq_nil_of_le h]

theorem remaining_of_lt (parts : List Bytes) (c : RCur) (h : c.curPart < parts.length)
    (hok : c.ok parts) :
    remaining parts c =
      (parts.getD c.curPart []).drop c.curPos ++ remaining parts ⟨c.curPart + 1, 0⟩ := by
  have hg : parts.getD c.curPart [] = parts[c.curPart] := by
    simp [List.getD_eq_getElem?_getD, List.getElem?_eq_getElem h]
  unfold RCur.ok at hok
  rw [hg] at hok ⊢
  simp only [remaining, List.drop_eq_getElem_cons h, List.flatten_cons, List.drop_append, List.drop_zero]
  have : c.curPos - parts[c.curPart].length = 0 := by omega
  rw [this, List.drop_zero]

/-- What one call of `ramFileReader.Read` does, for ANY entry state of the loop
    (`acc` = the `n` bytes already copied).  With `want = lenp − n` and `R` the bytes ahead:
    * it returns `acc ++ R.take want`, i.e. `min want |R|` further bytes;
    * `io.EOF` is returned iff fewer than `want` bytes were ahead, or the cursor was already
      past the last part at entry (so `(n > 0, io.EOF)` does occur: when `0 < |R| < want`);
    * the new cursor is usable and has exactly `R.drop want` ahead. -/
theorem ramRead_spec (parts : List Bytes) (lenp : Nat) :
    ∀ (fuel : Nat) (c : RCur) (acc : Bytes),
      c.ok parts → acc.length ≤ lenp → parts.length - c.curPart + 1 ≤ fuel →
      ∃ c', ramRead parts lenp fuel c acc =
              (acc ++ (remaining parts c).take (lenp - acc.length),
               decide ((remaining parts c).length < lenp - acc.length ∨ parts.length ≤ c.curPart),
               c')
            ∧ c'.ok parts
            ∧ remaining parts c' = (remaining parts c).drop (lenp - acc.length) := by
  intro fuel
  induction fuel with
  | zero =>
    intro c acc hok hacc hf
    omega
  | succ fuel ih =>
    intro c acc hok hacc hf
    rw [ramRead.eq_def]
    simp only
    by_cases hge : c.curPart ≥ parts.length
    · -- `return n, io.EOF`
      have hr := remaining_of_ge parts c hge
      refine ⟨c, ?_, hok, ?_⟩
      · simp [hge, hr]
      · simp [hr]
    · have hlt : c.curPart < parts.length := by omega
      rw [if_neg hge]
      have hrem := remaining_of_lt parts c hlt hok
      generalize hbuf : parts.getD c.curPart [] = buf at hrem hok ⊢
      unfold RCur.ok at hok
      rw [hbuf] at hok
      generalize hF : remaining parts ⟨c.curPart + 1, 0⟩ = F at hrem
      -- abbreviations
      have hm : (buf.drop c.curPos).length = buf.length - c.curPos := by simp
      by_cases hA : buf.length - c.curPos ≤ lenp - acc.length
      · -- the rest of the current part fits: copy it, advance to the next part
        have hcop : min (lenp - acc.length) (buf.length - c.curPos) = buf.length - c.curPos :=
          Nat.min_eq_right hA
        have hpos : c.curPos + (buf.length - c.curPos) = buf.length := by omega
        have htk : (buf.drop c.curPos).take (buf.length - c.curPos) = buf.drop c.curPos :=
          List.take_of_length_le (by simp)
        simp only [hcop, hpos, if_true, htk]
        have hok' : RCur.ok parts ⟨c.curPart + 1, 0⟩ := by simp [RCur.ok]
        by_cases hfull : (acc ++ buf.drop c.curPos).length = lenp
        · -- buffer full exactly at the part boundary: `return n, nil`
          have hw : lenp - acc.length = buf.length - c.curPos := by
            rw [List.length_append, hm] at hfull; omega
          refine ⟨⟨c.curPart + 1, 0⟩, ?_, hok', ?_⟩
          · simp only [hfull, if_true]
            rw [hrem, hw]
            have : ¬ ((buf.drop c.curPos ++ F).length < buf.length - c.curPos ∨ parts.length ≤ c.curPart) := by
              rw [List.length_append, hm]; omega
            simp only [this, decide_false]
            rw [List.take_append, htk]
            simp
          · rw [hF, hrem, hw, List.drop_append]
            simp
            omega
        · -- not full yet: go round the loop with the next part
          simp only [hfull, if_false]
          have hl : (acc ++ buf.drop c.curPos).length = acc.length + (buf.length - c.curPos) := by
            rw [List.length_append, hm]
          have hne : buf.length - c.curPos < lenp - acc.length := by omega
          have hacc' : (acc ++ buf.drop c.curPos).length ≤ lenp := by omega
          obtain ⟨c', he, hok'', hrem'⟩ :=
            ih ⟨c.curPart + 1, 0⟩ (acc ++ buf.drop c.curPos) hok' hacc' (by simp only; omega)
          have hlen : lenp - (acc ++ buf.drop c.curPos).length
              = lenp - acc.length - (buf.length - c.curPos) := by omega
          have htake : (buf.drop c.curPos ++ F).take (lenp - acc.length)
              = buf.drop c.curPos ++ F.take (lenp - acc.length - (buf.length - c.curPos)) := by
            rw [List.take_append, hm, List.take_of_length_le (by rw [hm]; omega)]
          have hdrop : (buf.drop c.curPos ++ F).drop (lenp - acc.length)
              = F.drop (lenp - acc.length - (buf.length - c.curPos)) := by
            rw [List.drop_append, hm, List.drop_eq_nil_of_le (by rw [hm]; omega)]
            simp
          have hdec : (F.length < lenp - acc.length - (buf.length - c.curPos) ∨ parts.length ≤ c.curPart + 1)
              ↔ ((buf.drop c.curPos ++ F).length < lenp - acc.length ∨ parts.length ≤ c.curPart) := by
            rw [List.length_append, hm]
            constructor
            · rintro (h | h)
              · left; omega
              · left
                have hFn : F = [] := by rw [← hF]; exact remaining_of_ge parts _ h
                have : F.length = 0 := by rw [hFn]; rfl
                omega
            · rintro (h | h)
              · left; omega
              · omega
          refine ⟨c', ?_, hok'', ?_⟩
          · have hd2 : decide (F.length < lenp - acc.length - (buf.length - c.curPos) ∨ parts.length ≤ c.curPart + 1)
                = decide ((buf.drop c.curPos ++ F).length < lenp - acc.length ∨ parts.length ≤ c.curPart) :=
              decide_eq_decide.mpr hdec
            rw [he, hF, hrem, hlen, htake, List.append_assoc]
            exact Prod.ext rfl (Prod.ext hd2 rfl)
          · rw [hrem', hF, hrem, hlen, hdrop]
      · -- the caller's buffer is filled inside the current part: `return n, nil`
        have hA' : lenp - acc.length < buf.length - c.curPos := by omega
        have hcop : min (lenp - acc.length) (buf.length - c.curPos) = lenp - acc.length :=
          Nat.min_eq_left (by omega)
        have hne : ¬ (c.curPos + (lenp - acc.length) = buf.length) := by omega
        have hfull : (acc ++ (buf.drop c.curPos).take (lenp - acc.length)).length = lenp := by
          simp; omega
        simp only [hcop, hne, if_false, hfull, if_true]
        refine ⟨⟨c.curPart, c.curPos + (lenp - acc.length)⟩, ?_, ?_, ?_⟩
        · rw [hrem]
          have : ¬ ((buf.drop c.curPos ++ F).length < lenp - acc.length ∨ parts.length ≤ c.curPart) := by
            rw [List.length_append, hm]; omega
          simp only [this, decide_false]
          rw [List.take_append, hm]
          have : lenp - acc.length - (buf.length - c.curPos) = 0 := by omega
          simp [this]
        · simp only [RCur.ok, hbuf]; omega
        · have hc : remaining parts ⟨c.curPart, c.curPos + (lenp - acc.length)⟩
              = (remaining parts c).drop (lenp - acc.length) := by
            simp only [remaining, List.drop_drop]
          exact hc

/-- `readFuel` is always enough for a call that starts with an empty `p[:n]`. -/
theorem ramRead_call (parts : List Bytes) (lenp : Nat) (c : RCur) (hok : c.ok parts) :
    ∃ c', ramRead parts lenp (readFuel parts lenp) c [] =
            ((remaining parts c).take lenp,
             decide ((remaining parts c).length < lenp ∨ parts.length ≤ c.curPart), c')
          ∧ c'.ok parts
          ∧ remaining parts c' = (remaining parts c).drop lenp := by
  have := ramRead_spec parts lenp (readFuel parts lenp) c [] hok (by simp) (by simp only [readFuel]; omega)
  simpa using this

/-- Number of bytes one call returns: `min(len(p), bytes ahead)`. -/
theorem ramRead_count (parts : List Bytes) (lenp : Nat) (c : RCur) (hok : c.ok parts) :
    (ramRead parts lenp (readFuel parts lenp) c []).1.length = min lenp (remaining parts c).length := by
  obtain ⟨c', h, _, _⟩ := ramRead_call parts lenp c hok
  rw [h]; simp

/-- The sequence of `Read` calls with the given buffer sizes: everything returned so far
    plus everything still ahead is the whole file; if EOF was seen nothing is ahead. -/
theorem ramReadSeq_spec (parts : List Bytes) :
    ∀ (bufs : List Nat) (c : RCur) (out : Bytes), c.ok parts →
      ∃ out' eof c', ramReadSeq parts bufs c out = (out', eof, c')
        ∧ c'.ok parts
        ∧ out' ++ remaining parts c' = out ++ remaining parts c
        ∧ (eof = true → remaining parts c' = []) := by
  intro bufs
  induction bufs with
  | nil =>
    intro c out hok
    exact ⟨out, false, c, rfl, hok, rfl, by simp⟩
  | cons b bs ih =>
    intro c out hok
    obtain ⟨c1, h1, hok1, hrem1⟩ := ramRead_call parts b c hok
    simp only [ramReadSeq, h1]
    by_cases he : (remaining parts c).length < b ∨ parts.length ≤ c.curPart
    · simp only [he, decide_true, if_true]
      have hnil : (remaining parts c).drop b = [] := by
        rcases he with h | h
        · exact List.drop_eq_nil_of_le (by omega)
        · simp [remaining_of_ge parts c h]
      refine ⟨_, true, c1, rfl, hok1, ?_, ?_⟩
      · rw [hrem1, List.append_assoc, List.take_append_drop]
      · intro _; rw [hrem1, hnil]
    · simp only [he, decide_false]
      obtain ⟨out', eof, c', h2, hok2, hcat, heof⟩ := ih c1 (out ++ (remaining parts c).take b) hok1
      refine ⟨out', eof, c', by simpa using h2, hok2, ?_, heof⟩
      rw [hcat, hrem1, List.append_assoc, List.take_append_drop]

/-- Draining with a positive buffer size reaches EOF within `|remaining| + 1` calls and
    returns everything that was ahead. -/
theorem ramDrain_spec (parts : List Bytes) (bsz : Nat) (hb : 0 < bsz) :
    ∀ (fuel : Nat) (c : RCur) (out : Bytes), c.ok parts →
      (remaining parts c).length + 1 ≤ fuel →
      ramDrain parts bsz fuel c out = (out ++ remaining parts c, true) := by
  intro fuel
  induction fuel with
  | zero => intro c out _ hf; omega
  | succ fuel ih =>
    intro c out hok hf
    obtain ⟨c1, h1, hok1, hrem1⟩ := ramRead_call parts bsz c hok
    simp only [ramDrain, h1]
    by_cases he : (remaining parts c).length < bsz ∨ parts.length ≤ c.curPart
    · simp only [he, decide_true, if_true]
      have : (remaining parts c).take bsz = remaining parts c := by
        rcases he with h | h
        · exact List.take_of_length_le (by omega)
        · simp [remaining_of_ge parts c h]
      rw [this]
    · simp only [he, decide_false]
      have hge : bsz ≤ (remaining parts c).length := by omega
      have hlen : (remaining parts c1).length + 1 ≤ fuel := by
        rw [hrem1]; simp; omega
      have := ih c1 (out ++ (remaining parts c).take bsz) hok1 hlen
      simp only [Bool.false_eq_true, if_false]
      rw [this, hrem1, List.append_assoc, List.take_append_drop]

/-- The file reader returns the concatenation of the parts, whatever the buffer sizes. -/
theorem ramReadFile_eq (parts : List Bytes) (bufs : List Nat) :
    ramReadFile parts bufs = parts.flatten := by
  obtain ⟨out', eof, c', h, hok, hcat, heof⟩ := ramReadSeq_spec parts bufs {} [] (RCur.ok_init parts)
  simp only [ramReadFile, h]
  rw [remaining_init] at hcat
  cases eof with
  | true =>
    simp only [if_true]
    have := heof rfl
    rw [this] at hcat
    simpa using hcat
  | false =>
    simp only [Bool.false_eq_true, if_false]
    have hlen : (remaining parts c').length + 1 ≤ totalLen parts + parts.length + 2 := by
      have : (out' ++ remaining parts c').length = parts.flatten.length := by rw [hcat]; simp
      rw [totalLen_eq]
      rw [List.length_append] at this
      omega
    rw [ramDrain_spec parts drainSize (by decide) _ c' out' hok hlen]
    simpa using hcat

end Hls.Storage
