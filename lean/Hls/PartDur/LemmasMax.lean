import Hls.PartDur.Model
import Mathlib.Tactic.Ring
import Mathlib.Tactic.Linarith
/-!
# `listMax` (the running maximum of `partTargetDuration`) and the parts a window holds
-/
namespace Hls.PartDur

def maxStep (a b : Int) : Int := if b > a then b else a

theorem foldl_maxStep_ge (l : List Int) : ∀ (init : Int),
    init ≤ l.foldl maxStep init ∧ ∀ x ∈ l, x ≤ l.foldl maxStep init := by
  induction l with
  | nil => intro init; simp
  | cons y ys ih =>
    intro init
    simp only [List.foldl_cons]
    obtain ⟨h1, h2⟩ := ih (maxStep init y)
    have hm : init ≤ maxStep init y ∧ y ≤ maxStep init y := by
      unfold maxStep; split <;> omega
    refine ⟨by omega, ?_⟩
    intro x hx
    simp only [List.mem_cons] at hx
    rcases hx with rfl | hx
    · omega
    · exact h2 x hx

theorem foldl_maxStep_mem (l : List Int) : ∀ (init : Int),
    l.foldl maxStep init = init ∨ l.foldl maxStep init ∈ l := by
  induction l with
  | nil => intro init; simp
  | cons y ys ih =>
    intro init
    simp only [List.foldl_cons]
    rcases ih (maxStep init y) with h | h
    · rw [h]
      unfold maxStep
      split
      · right; simp
      · left; rfl
    · right; exact List.mem_cons_of_mem _ h

theorem listMax_eq (l : List Int) : listMax l = l.foldl maxStep 0 := rfl

theorem listMax_ge {l : List Int} {x : Int} (h : x ∈ l) : x ≤ listMax l := (foldl_maxStep_ge l 0).2 x h
theorem listMax_nonneg (l : List Int) : 0 ≤ listMax l := (foldl_maxStep_ge l 0).1
theorem listMax_mem (l : List Int) : listMax l = 0 ∨ listMax l ∈ l := foldl_maxStep_mem l 0

theorem listMax_le {l : List Int} {B : Int} (hB : 0 ≤ B) (h : ∀ x ∈ l, x ≤ B) : listMax l ≤ B := by
  rcases listMax_mem l with h0 | hm
  · omega
  · exact h _ hm

/-- every part the window holds (finished segments still listed + the open segment) -/
def windowParts (s : St) : List Int := s.segs.flatten ++ s.openParts

/-- `partTargetDuration` takes the maximum segment by segment; it is the maximum over all parts -/
theorem computePartTarget_eq (s : St) : computePartTarget s = ceilMs (listMax (windowParts s)) := by
  unfold computePartTarget windowParts
  congr 1
  apply Int.le_antisymm
  · apply listMax_le (listMax_nonneg _)
    intro x hx
    simp only [List.mem_append, List.mem_map, List.mem_singleton] at hx
    rcases hx with ⟨seg, hseg, rfl⟩ | rfl
    · apply listMax_le (listMax_nonneg _)
      intro y hy
      exact listMax_ge (List.mem_append_left _ (List.mem_flatten.mpr ⟨seg, hseg, hy⟩))
    · apply listMax_le (listMax_nonneg _)
      intro y hy
      exact listMax_ge (List.mem_append_right _ hy)
  · apply listMax_le (listMax_nonneg _)
    intro x hx
    simp only [List.mem_append, List.mem_flatten] at hx
    rcases hx with ⟨seg, hseg, hx⟩ | hx
    · have h1 : x ≤ listMax seg := listMax_ge hx
      have h2 : listMax seg ≤ listMax (s.segs.map listMax ++ [listMax s.openParts]) :=
        listMax_ge (List.mem_append_left _ (List.mem_map.mpr ⟨seg, hseg, rfl⟩))
      omega
    · have h1 : x ≤ listMax s.openParts := listMax_ge hx
      have h2 : listMax s.openParts ≤ listMax (s.segs.map listMax ++ [listMax s.openParts]) :=
        listMax_ge (List.mem_append_right _ (by simp))
      omega

end Hls.PartDur
