import Hls.PartDur.Lemmas
/-!
# `timestampToDuration` is an exact floor; the part-switch decision is phase independent
-/
namespace Hls.PartDur
open Hls.Gen

/-- The split multiply-and-divide of the Go code is the exact floor of `v·m/d`
(non-negative `v`, `m`, positive `d`). -/
theorem mad2_eq_floor {v m d : Int} (hv : 0 ≤ v) (hm : 0 ≤ m) (hd : 0 < d) :
    multiplyAndDivide2 v m d = (v * m) / d := by
  obtain ⟨h1, h2, h3, h4⟩ := tdiv_spec hv hd
  unfold multiplyAndDivide2
  simp only
  have hdm : 0 ≤ Int.tmod v d * m := Int.mul_nonneg h2 hm
  rw [Int.tdiv_eq_ediv_of_nonneg hdm]
  have e : v * m = Int.tmod v d * m + d * (Int.tdiv v d * m) := by
    have : v * m = (d * Int.tdiv v d + Int.tmod v d) * m := by rw [h1]
    rw [this]; ring
  rw [e, Int.add_mul_ediv_left _ _ (by omega : d ≠ 0)]
  omega

theorem mad_eq_mad2 (v m d : Int) : multiplyAndDivide v m d = multiplyAndDivide2 v m d := rfl

theorem toDur_eq_floor {t r : Int} (ht : 0 ≤ t) (hr : 0 < r) :
    timestampToDuration t r = (t * 1000000000) / r := by
  unfold timestampToDuration
  exact mad2_eq_floor ht (by decide) hr

theorem toTs_eq_floor {d r : Int} (hd : 0 ≤ d) (hr : 0 ≤ r) :
    durationToTimestamp d r = (d * r) / 1000000000 := by
  unfold durationToTimestamp
  rw [mad_eq_mad2]
  exact mad2_eq_floor hd hr (by decide)

/-- floor of a sum: between the sum of floors and one more -/
theorem floor_add_bounds (X Y : Int) {r : Int} (hr : 0 < r) :
    X / r + Y / r ≤ (X + Y) / r ∧ (X + Y) / r ≤ X / r + Y / r + 1 := by
  have hne : r ≠ 0 := by omega
  have a1 := Int.ediv_mul_le X hne
  have a2 := Int.ediv_mul_le Y hne
  have b1 := Int.lt_ediv_add_one_mul_self X hr
  have b2 := Int.lt_ediv_add_one_mul_self Y hr
  constructor
  · rw [Int.le_ediv_iff_mul_le hr]
    have : (X / r + Y / r) * r = X / r * r + Y / r * r := by ring
    omega
  · have : (X + Y) / r < X / r + Y / r + 2 := by
      rw [Int.ediv_lt_iff_lt_mul hr]
      have e : (X / r + Y / r + 2) * r = (X / r + 1) * r + (Y / r + 1) * r := by ring
      omega
    omega

/-- If `A·r` and `Y` are both multiples of `g ≥ r`, then `⌊(X+Y)/r⌋ − ⌊X/r⌋ ≥ A ↔ Y ≥ A·r`:
the floor cannot flip the comparison. -/
theorem floor_diff_ge_iff {X Y A r g : Int} (hr : 0 < r) (hrg : r ≤ g)
    (hA : g ∣ A) (hY : g ∣ Y) :
    (X + Y) / r - X / r ≥ A ↔ A * r ≤ Y := by
  have hne : r ≠ 0 := by omega
  constructor
  · intro h
    by_contra hc
    have hlt : Y < A * r := by omega
    -- A*r - Y is a positive multiple of g
    obtain ⟨a', ha'⟩ := hA
    obtain ⟨y', hy'⟩ := hY
    have hz : 0 < a' * r - y' := by
      by_contra hz
      have hz' : a' * r - y' ≤ 0 := by omega
      have := Int.mul_le_mul_of_nonneg_left hz' (by omega : (0 : Int) ≤ g)
      have e : g * (a' * r - y') = A * r - Y := by rw [ha', hy']; ring
      omega
    have hz1 : 1 ≤ a' * r - y' := by omega
    have := Int.mul_le_mul_of_nonneg_left hz1 (by omega : (0 : Int) ≤ g)
    have e : g * (a' * r - y') = A * r - Y := by rw [ha', hy']; ring
    have hY' : Y ≤ (A - 1) * r := by
      have : (A - 1) * r = A * r - r := by ring
      omega
    have hmono : (X + Y) / r ≤ (X + (A - 1) * r) / r := Int.ediv_le_ediv hr (by omega)
    rw [Int.add_mul_ediv_right _ _ hne] at hmono
    omega
  · intro h
    have hmono : (X + A * r) / r ≤ (X + Y) / r := Int.ediv_le_ediv hr (by omega)
    rw [Int.add_mul_ediv_right _ _ hne] at hmono
    omega

/-- symmetric version for `≤` -/
theorem floor_diff_le_iff {X Y A r g : Int} (hr : 0 < r) (hrg : r ≤ g)
    (hA : g ∣ A) (hY : g ∣ Y) :
    (X + Y) / r - X / r ≤ A ↔ Y ≤ A * r := by
  have hne : r ≠ 0 := by omega
  constructor
  · intro h
    by_contra hc
    have hlt : A * r < Y := by omega
    obtain ⟨a', ha'⟩ := hA
    obtain ⟨y', hy'⟩ := hY
    have hz : 0 < y' - a' * r := by
      by_contra hz
      have hz' : y' - a' * r ≤ 0 := by omega
      have := Int.mul_le_mul_of_nonneg_left hz' (by omega : (0 : Int) ≤ g)
      have e : g * (y' - a' * r) = Y - A * r := by rw [ha', hy']; ring
      omega
    have hz1 : 1 ≤ y' - a' * r := by omega
    have := Int.mul_le_mul_of_nonneg_left hz1 (by omega : (0 : Int) ≤ g)
    have e : g * (y' - a' * r) = Y - A * r := by rw [ha', hy']; ring
    have hY' : (A + 1) * r ≤ Y := by
      have : (A + 1) * r = A * r + r := by ring
      omega
    have hmono : (X + (A + 1) * r) / r ≤ (X + Y) / r := Int.ediv_le_ediv hr (by omega)
    rw [Int.add_mul_ediv_right _ _ hne] at hmono
    omega
  · intro h
    have hmono : (X + Y) / r ≤ (X + A * r) / r := Int.ediv_le_ediv hr (by omega)
    rw [Int.add_mul_ediv_right _ _ hne] at hmono
    omega

/-- `partNs` written with floors -/
theorem partNs_eq {t0 k d r : Int} (ht : 0 ≤ t0) (hk : 0 ≤ k) (hd : 0 ≤ d) (hr : 0 < r) :
    partNs t0 k d r = (t0 * 1000000000 + k * d * 1000000000) / r - (t0 * 1000000000) / r := by
  unfold partNs
  have hkd : 0 ≤ k * d := Int.mul_nonneg hk hd
  rw [toDur_eq_floor (by omega) hr, toDur_eq_floor ht hr]
  have : (t0 + k * d) * 1000000000 = t0 * 1000000000 + k * d * 1000000000 := by ring
  rw [this]

end Hls.PartDur
