import Hls.Gen.Arith
/-!
# Part-duration arithmetic of the Low-Latency muxer (C19) — definitions

Everything the C19 theorems talk about is either a regenerated definition
(`Hls.Gen.partDurationIsCompatible`, `Hls.Gen.findCompatiblePartDuration`,
`Hls.Gen.timestampToDuration`, …) or one of the small integer functions below,
which mirror what `muxer_segmenter.go` / `muxer_stream.go` compute around them.
Core Lean only (the compiled driver `Drv/PartDur.lean` imports this file).
-/
namespace Hls.PartDur
open Hls.Gen

/-- `⌈a/b⌉` exactly as `partDurationIsCompatible` computes it: truncating division, plus one
when the (truncated) remainder is non-zero. For `0 ≤ a`, `0 < b` this is the ceiling. -/
def ceilDiv (a b : Int) : Int :=
  if Int.tmod a b ≠ 0 then Int.tdiv a b + 1 else Int.tdiv a b

/-- `D = ⌈a/s⌉·s`: the adjusted duration rounded up to whole samples (the variable `f` of
`partDurationIsCompatible` after `f *= sampleDuration`). -/
def ceilTo (a s : Int) : Int := ceilDiv a s * s

def msNs : Int := 1000000

/-- `partTargetDuration`'s rounding `time.Millisecond * Ceil(float64(ret)/float64(time.Millisecond))`,
as the exact integer function (trusted base: for |ret| < 2^53 the float computation is exact). -/
def ceilMs (d : Int) : Int := ceilDiv d msNs * msNs

def secNs : Int := 1000000000

/-- Duration in ns (as the muxer computes it) of a part that starts at tick `t0` and holds `k`
samples of `d` ticks at clock rate `r`: `part.endDTS - part.startDTS` where both are
`timestampToDuration(dts, ClockRate)` (`rotateParts(nextDTS)` sets `endDTS` of the old part and
`startDTS` of the new one to the same value). -/
def partNs (t0 k d r : Int) : Int :=
  timestampToDuration (t0 + k * d) r - timestampToDuration t0 r

/-- The part-switch test of `fmp4WriteSample` evaluated when the look-ahead sample is the `k`-th
after the part start. -/
def switchFires (a t0 k d r : Int) : Bool := decide (partNs t0 k d r ≥ a)

/-- Number of samples per (non-final) part: the least `k` with `k·d/r ≥ a` (exact rational
comparison, in integers `a·r ≤ k·d·10^9`). -/
def partSamples (a d r : Int) : Int := ceilDiv (a * r) (d * secNs)

/-! ## Executable mini-model of the Low-Latency segmenter for ONE (leading) track

Statement-by-statement mirror of `fmp4WriteSample` (steps 1–7 of DESIGN Appendix B) and of
`muxerStream.rotateParts/rotateSegments` restricted to what C19 observes: part durations,
adjusted part duration, PART-TARGET, "part duration changed" events. Used by the driver of the
`partdur` correspondence stream. -/

structure Cfg where
  partMin : Int
  segMin : Int
  segCount : Nat
  rate : Int
  deriving Repr

structure Sample where
  dts : Int
  ra : Bool
  deriving Repr

structure St where
  cfg : Cfg
  lookahead : Option Sample := none
  durSet : List Int := []          -- fmp4SampleDurations (insertion order; only membership matters)
  adjusted : Int := 0              -- fmp4AdjustedPartDuration
  freeze : Bool := false
  hasSeg : Bool := false
  segStart : Int := 0              -- nextSegment.startDTS (ns)
  partStart : Int := 0             -- nextPart.startDTS (ns)
  openParts : List Int := []       -- durations of the parts of the open segment (oldest first)
  segs : List (List Int) := []     -- finished segments still in the window (oldest first), parts' durations
  gaps : Nat := 0                  -- gap entries still in the window
  finished : Nat := 0              -- finished segments so far
  partTarget : Int := 0
  changed : Nat := 0               -- number of "part duration changed" OnEncodeError calls
  deriving Repr

def listMax (l : List Int) : Int := l.foldl (fun a b => if b > a then b else a) 0

/-- `partTargetDuration(s.segments, s.nextSegment.parts)` -/
def computePartTarget (s : St) : Int :=
  ceilMs (listMax ((s.segs.map listMax) ++ [listMax s.openParts]))

/-- `muxerStream.rotateParts(nextDTS, _)` for the leading stream. -/
def rotateParts (s : St) (next : Int) : St :=
  let s := { s with openParts := s.openParts ++ [next - s.partStart], partStart := next }
  let pt := computePartTarget s
  if s.partTarget = 0 then { s with partTarget := pt }
  else if pt ≠ s.partTarget then { s with partTarget := pt, changed := s.changed + 1 }
  else s

/-- `muxerStream.rotateSegments(nextDTS, …)` for the leading stream (window bookkeeping only). -/
def rotateSegments (s : St) (next : Int) : St :=
  let s := rotateParts s next
  let gaps := if s.finished = 0 then 7 else s.gaps
  let segs := s.segs ++ [s.openParts]
  -- `len(s.segments) > segmentCount`: drop the head entry (gap entries come first)
  let over := decide (gaps + segs.length > s.cfg.segCount)
  let gaps' := if over && decide (gaps > 0) then gaps - 1 else gaps
  let segs' := if over && !decide (gaps > 0) then segs.drop 1 else segs
  { s with gaps := gaps', segs := segs', finished := s.finished + 1, openParts := [],
           segStart := next, partStart := next }

/-- "create first segment" of `fmp4WriteSample` (`createFirstSegment(timestampToDuration(sample.dts), …)`) -/
def ensureSeg (s : St) (old : Sample) : St :=
  if s.hasSeg then s else
    { s with hasSeg := true, segStart := timestampToDuration old.dts s.cfg.rate,
             partStart := timestampToDuration old.dts s.cfg.rate }

/-- `fmp4AdjustPartDuration(sampleDuration)` (Low-Latency variant) -/
def adjust (s : St) (sd : Int) : St :=
  if s.freeze || sd == 0 || s.durSet.contains sd then s
  else
    let set := s.durSet ++ [sd]
    { s with durSet := set, adjusted := findCompatiblePartDuration s.cfg.partMin set }

/-- the two tests at the end of `fmp4WriteSample`: switch segment, else switch part -/
def switchStep (s : St) (new : Sample) : St :=
  let nextNs := timestampToDuration new.dts s.cfg.rate
  if new.ra && decide (nextNs - s.segStart ≥ s.cfg.segMin) then
    { rotateSegments s nextNs with freeze := true }
  else if decide (nextNs - s.partStart ≥ s.adjusted) then
    rotateParts s nextNs
  else s

/-- One call of `fmp4WriteSample` on the leading track of a Low-Latency muxer
(`dts` in ticks as passed by the caller, i.e. before the 10 s offset). -/
def write (s : St) (dts : Int) (ra : Bool) : St :=
  let dts := dts + durationToTimestamp (10 * secNs) s.cfg.rate
  if dts < 0 then s else
  let new : Sample := { dts := dts, ra := ra }
  match s.lookahead with
  | none => { s with lookahead := some new }
  | some old =>
    let s := ensureSeg { s with lookahead := some new } old
    let s := adjust s (timestampToDuration (new.dts - old.dts) s.cfg.rate)
    switchStep s new

end Hls.PartDur
