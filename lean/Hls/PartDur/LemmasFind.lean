import Hls.PartDur.Lemmas
/-!
# The search loop of `findCompatiblePartDuration` (regenerated as fuel recursion)
-/
namespace Hls.PartDur
open Hls.Gen

theorem findStep_val : findStep = 5000000 := by decide
theorem findBound_val : findBound = 5000000000 := by decide

/-- The stopping condition of the Go `for` loop at grid point `x`. -/
def stops (sds : List Int) (x : Int) : Prop :=
  findBound ≤ x ∨ partDurationIsCompatibleWithAll x sds = true

/-- `j` is the index of the first grid point (from `i`, step `findStep`) at which the loop stops. -/
def firstStop (sds : List Int) (i : Int) (j : Nat) : Prop :=
  stops sds (i + findStep * j) ∧ ∀ j' : Nat, j' < j → ¬ stops sds (i + findStep * j')

theorem firstStop_unique {sds i j1 j2} (h1 : firstStop sds i j1) (h2 : firstStop sds i j2) : j1 = j2 := by
  rcases Nat.lt_trichotomy j1 j2 with h | h | h
  · exact absurd h1.1 (h2.2 j1 h)
  · exact h
  · exact absurd h2.1 (h1.2 j2 h)

/-- What the fuel recursion computes: it walks the grid; either it stopped at the first stopping
point within the fuel, or it ran out of fuel without meeting one. -/
theorem findLoop_spec (sds : List Int) : ∀ (fuel : Nat) (i : Int),
    ∃ j : Nat, j ≤ fuel ∧ findLoop sds fuel i = i + findStep * j ∧
      (∀ j' : Nat, j' < j → ¬ stops sds (i + findStep * j')) ∧
      (j < fuel → stops sds (i + findStep * j)) := by
  intro fuel
  induction fuel with
  | zero =>
    intro i
    exact ⟨0, Nat.le_refl _, by simp [findLoop], by intro j' h; omega, by intro h; omega⟩
  | succ n ih =>
    intro i
    rw [findLoop.eq_def]
    simp only
    by_cases hb : i < findBound
    · by_cases hc : partDurationIsCompatibleWithAll i sds = true
      · refine ⟨0, by omega, by simp [hb, hc], by intro j' h; omega, ?_⟩
        intro _; right; simpa using hc
      · obtain ⟨j, hj, he, hbefore, hstop⟩ := ih (i + findStep)
        refine ⟨j + 1, by omega, ?_, ?_, ?_⟩
        · simp only [hb, hc, ↓reduceIte, Bool.false_eq_true]
          rw [he]; push_cast; ring
        · intro j' hj'
          cases j' with
          | zero =>
            simp only [stops, Int.natCast_zero, Int.mul_zero, Int.add_zero]
            rintro (h | h)
            · omega
            · exact hc h
          | succ k =>
            have := hbefore k (by omega)
            have e : i + findStep * ((k + 1 : Nat) : Int) = i + findStep + findStep * (k : Int) := by
              push_cast; ring
            rw [e]; exact this
        · intro hlt
          have := hstop (by omega)
          have e : i + findStep * ((j + 1 : Nat) : Int) = i + findStep + findStep * (j : Int) := by
            push_cast; ring
          rw [e]; exact this
    · refine ⟨0, by omega, by simp [hb], by intro j' h; omega, ?_⟩
      intro _; left; simp; omega

/-- With at least `findFuel m` iterations the loop cannot run out of fuel. -/
theorem fuel_enough (sds : List Int) (m : Int) (n : Nat) (hn : findFuel m ≤ n) :
    ∃ j : Nat, findLoop sds n m = m + findStep * j ∧ firstStop sds m j := by
  obtain ⟨j, hj, he, hbefore, hstop⟩ := findLoop_spec sds n m
  refine ⟨j, he, ?_, hbefore⟩
  by_cases hlt : j < n
  · exact hstop hlt
  · -- j = n: every grid index below n is below the bound; index findFuel m - 1 is not
    exfalso
    have hjn : j = n := by omega
    have hf : findFuel m = (Int.tdiv (findBound - m) findStep).toNat + 2 := rfl
    have hidx : (Int.tdiv (findBound - m) findStep).toNat + 1 < j := by omega
    have hns := hbefore _ hidx
    apply hns
    left
    rw [findStep_val, findBound_val]
    by_cases hneg : (5000000000 : Int) - m < 0
    · push_cast; 
      have : 0 ≤ ((Int.tdiv (5000000000 - m) 5000000).toNat : Int) := Int.natCast_nonneg _
      omega
    · have hnn : 0 ≤ (5000000000 : Int) - m := by omega
      obtain ⟨h1, h2, h3, h4⟩ := tdiv_spec hnn (by decide : (0 : Int) < 5000000)
      have hq : ((Int.tdiv (5000000000 - m) 5000000).toNat : Int) = Int.tdiv (5000000000 - m) 5000000 :=
        Int.toNat_of_nonneg h4
      push_cast
      rw [hq]
      omega

/-- Any stopping grid point bounds the result from above. -/
theorem find_le_of_stops (sds : List Int) (m : Int) (j : Nat) (h : stops sds (m + findStep * j)) :
    findCompatiblePartDuration m sds ≤ m + findStep * j := by
  obtain ⟨j0, he, hfs⟩ := fuel_enough sds m (findFuel m) (Nat.le_refl _)
  unfold findCompatiblePartDuration
  rw [he]
  have hle : j0 ≤ j := by
    by_contra hc
    exact hfs.2 j (by omega) h
  have : (j0 : Int) ≤ j := by exact_mod_cast hle
  have hs : (0 : Int) ≤ findStep := by decide
  have := Int.mul_le_mul_of_nonneg_left this hs
  omega

theorem compatAll_single (x s : Int) :
    partDurationIsCompatibleWithAll x [s] = partDurationIsCompatible x s := by
  simp [partDurationIsCompatibleWithAll]

/-- grid points: a non-negative multiple of the step above `m` is `m + step·j` -/
theorem grid_index {m g : Int} (hmg : m ≤ g) (hgrid : Int.tmod (g - m) 5000000 = 0) :
    ∃ j : Nat, g = m + findStep * j := by
  have h := Int.mul_tdiv_add_tmod (g - m) 5000000
  have hq : 0 ≤ Int.tdiv (g - m) 5000000 := Int.tdiv_nonneg (by omega) (by decide)
  refine ⟨(Int.tdiv (g - m) 5000000).toNat, ?_⟩
  rw [Int.toNat_of_nonneg hq, findStep_val]
  omega

/-- a grid point strictly above `lo` and at most `lo + step` exists whenever the grid starts at or below `lo` -/
theorem grid_hit {m lo : Int} (h : m ≤ lo) :
    ∃ j : Nat, lo < m + findStep * j ∧ m + findStep * j ≤ lo + 5000000 := by
  refine ⟨((lo - m) / 5000000 + 1).toNat, ?_⟩
  have hq : 0 ≤ (lo - m) / 5000000 + 1 := by omega
  rw [Int.toNat_of_nonneg hq, findStep_val]
  omega

end Hls.PartDur
