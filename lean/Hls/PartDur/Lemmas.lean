import Hls.PartDur.Model
import Mathlib.Tactic.Ring
import Mathlib.Tactic.Linarith
/-!
# Helper lemmas for C19 (part-duration arithmetic)
Truncating division on non-negative operands, the ceiling `ceilDiv`, the exact
characterisation of the translated `partDurationIsCompatible`, the search loop.
-/
namespace Hls.PartDur
open Hls.Gen

/-! ## truncating division, non-negative dividend -/

theorem tdiv_spec {a b : Int} (ha : 0 ≤ a) (hb : 0 < b) :
    b * Int.tdiv a b + Int.tmod a b = a ∧ 0 ≤ Int.tmod a b ∧ Int.tmod a b < b ∧ 0 ≤ Int.tdiv a b :=
  ⟨Int.mul_tdiv_add_tmod a b, Int.tmod_nonneg b ha, Int.tmod_lt_of_pos a hb,
   Int.tdiv_nonneg ha (Int.le_of_lt hb)⟩

/-- `ceilDiv a b` is the ceiling of `a/b` for `0 ≤ a`, `0 < b`. -/
theorem ceilDiv_spec {a b : Int} (ha : 0 ≤ a) (hb : 0 < b) :
    a ≤ ceilDiv a b * b ∧ ceilDiv a b * b < a + b ∧ 0 ≤ ceilDiv a b := by
  obtain ⟨h1, h2, h3, h4⟩ := tdiv_spec ha hb
  unfold ceilDiv
  split
  · rename_i hne
    have hpos : 0 < Int.tmod a b := by omega
    have e : (Int.tdiv a b + 1) * b = b * Int.tdiv a b + b := by ring
    refine ⟨?_, ?_, ?_⟩ <;> first | (rw [e]; omega) | omega
  · rename_i heq
    have h0 : Int.tmod a b = 0 := by
      by_cases h : Int.tmod a b = 0
      · exact h
      · exact absurd h heq
    have e : Int.tdiv a b * b = b * Int.tdiv a b := by ring
    refine ⟨?_, ?_, ?_⟩ <;> first | (rw [e]; omega) | omega

theorem ceilDiv_le_of_le_mul {a b k : Int} (ha : 0 ≤ a) (hb : 0 < b) (h : a ≤ k * b) :
    ceilDiv a b ≤ k := by
  obtain ⟨_, h2, _⟩ := ceilDiv_spec ha hb
  by_contra hc
  have hk : k + 1 ≤ ceilDiv a b := by omega
  have : (k + 1) * b ≤ ceilDiv a b * b := Int.mul_le_mul_of_nonneg_right hk (Int.le_of_lt hb)
  have e : (k + 1) * b = k * b + b := by ring
  omega

theorem le_mul_of_ceilDiv_le {a b k : Int} (ha : 0 ≤ a) (hb : 0 < b) (h : ceilDiv a b ≤ k) :
    a ≤ k * b := by
  obtain ⟨h1, _, _⟩ := ceilDiv_spec ha hb
  have : ceilDiv a b * b ≤ k * b := Int.mul_le_mul_of_nonneg_right h (Int.le_of_lt hb)
  omega

/-- minimality: `⌈a/b⌉ ≤ k ↔ a ≤ k·b` -/
theorem ceilDiv_le_iff {a b k : Int} (ha : 0 ≤ a) (hb : 0 < b) : ceilDiv a b ≤ k ↔ a ≤ k * b :=
  ⟨le_mul_of_ceilDiv_le ha hb, ceilDiv_le_of_le_mul ha hb⟩

theorem ceilTo_spec {a s : Int} (ha : 0 ≤ a) (hs : 0 < s) :
    a ≤ ceilTo a s ∧ ceilTo a s < a + s := by
  obtain ⟨h1, h2, _⟩ := ceilDiv_spec ha hs
  exact ⟨h1, h2⟩

theorem ceilTo_le_of_le_mul {a s k : Int} (ha : 0 ≤ a) (hs : 0 < s) (h : a ≤ k * s) :
    ceilTo a s ≤ k * s :=
  Int.mul_le_mul_of_nonneg_right (ceilDiv_le_of_le_mul ha hs h) (Int.le_of_lt hs)

/-! ## the translated compatibility test -/

/-- Exact characterisation of the regenerated Bool function (truncating `/ 100` kept visible). -/
theorem compat_iff_raw (a s : Int) :
    partDurationIsCompatible a s = true ↔
      s ≤ a ∧ 100 * a > 85 * ceilTo a s - Int.tmod (85 * ceilTo a s) 100 := by
  have hdm := Int.mul_tdiv_add_tmod (ceilTo a s * 85) 100
  have e : ceilTo a s * 85 = 85 * ceilTo a s := by ring
  unfold partDurationIsCompatible
  by_cases hsa : s > a
  · simp [hsa]
  · have hle : s ≤ a := by omega
    simp only [hsa, decide_false, Bool.false_eq_true, ↓reduceIte]
    simp only [decide_eq_true_eq]
    have hf : (if Int.tmod a s ≠ 0 then Int.tdiv a s + 1 else Int.tdiv a s) * s = ceilTo a s := rfl
    rw [hf]
    rw [e] at hdm ⊢
    omega

/-- For a non-negative rounded length the truncation is invisible: the test is `85·D < 100·a`. -/
theorem compat_iff {a s : Int} (ha : 0 ≤ a) (hs : 0 < s) :
    partDurationIsCompatible a s = true ↔ s ≤ a ∧ 85 * ceilTo a s < 100 * a := by
  rw [compat_iff_raw]
  have hD : 0 ≤ ceilTo a s := by have := ceilTo_spec ha hs; omega
  have h1 := Int.mul_tdiv_add_tmod (85 * ceilTo a s) 100
  have h2 : 0 ≤ Int.tmod (85 * ceilTo a s) 100 := Int.tmod_nonneg _ (by omega)
  have h3 : Int.tmod (85 * ceilTo a s) 100 < 100 := Int.tmod_lt_of_pos _ (by omega)
  constructor
  · rintro ⟨h, h'⟩; exact ⟨h, by omega⟩
  · rintro ⟨h, h'⟩; exact ⟨h, by omega⟩

/-- sufficient condition used to exhibit compatible grid points -/
theorem compat_of_le_mul {g s k : Int} (hs : 0 < s) (hsg : s ≤ g) (hk : g ≤ k * s)
    (h85 : 85 * (k * s) < 100 * g) : partDurationIsCompatible g s = true := by
  have hg : 0 ≤ g := by omega
  rw [compat_iff hg hs]
  have := ceilTo_le_of_le_mul hg hs hk
  exact ⟨hsg, by omega⟩

end Hls.PartDur
