import Hls.PartDur.LemmasFind
import Hls.PartDur.LemmasTime
import Hls.PartDur.LemmasMax
/-!
# The mini-model `write` along a run with a constant sample duration: every part closed by the
part-switch rule holds exactly `K = partSamples a d r` samples
-/
namespace Hls.PartDur
open Hls.Gen

/-- the non-final parts a state knows: all parts of the open segment (each was closed by the
part-switch rule) and all but the last part of every finished segment in the window -/
def nonFinal (s : St) : List Int := s.segs.flatMap List.dropLast ++ s.openParts

theorem rotateParts_fields (s : St) (next : Int) :
    (rotateParts s next).openParts = s.openParts ++ [next - s.partStart] ∧
    (rotateParts s next).partStart = next ∧ (rotateParts s next).segs = s.segs ∧
    (rotateParts s next).lookahead = s.lookahead ∧ (rotateParts s next).hasSeg = s.hasSeg ∧
    (rotateParts s next).adjusted = s.adjusted ∧ (rotateParts s next).durSet = s.durSet ∧
    (rotateParts s next).cfg = s.cfg ∧ (rotateParts s next).freeze = s.freeze ∧
    (rotateParts s next).gaps = s.gaps ∧ (rotateParts s next).finished = s.finished ∧
    (rotateParts s next).segStart = s.segStart := by
  unfold rotateParts
  simp only
  split
  · simp
  · split <;> simp

theorem mem_flatMap_dropLast_drop {l : List (List Int)} {p : Int}
    (h : p ∈ (l.drop 1).flatMap List.dropLast) : p ∈ l.flatMap List.dropLast := by
  cases l with
  | nil => simpa using h
  | cons x xs =>
    simp only [List.drop_succ_cons, List.drop_zero] at h
    simp only [List.flatMap_cons, List.mem_append]
    exact Or.inr h

theorem rotateSegments_fields (s : St) (next : Int) :
    (rotateSegments s next).openParts = [] ∧
    (rotateSegments s next).partStart = next ∧
    (rotateSegments s next).lookahead = s.lookahead ∧ (rotateSegments s next).hasSeg = s.hasSeg ∧
    (rotateSegments s next).adjusted = s.adjusted ∧ (rotateSegments s next).durSet = s.durSet ∧
    (rotateSegments s next).cfg = s.cfg ∧
    (∀ p ∈ nonFinal (rotateSegments s next), p ∈ nonFinal s) := by
  obtain ⟨r1, r2, r3, r4, r5, r6, r7, r8, r9, r10, r11, r12⟩ := rotateParts_fields s next
  unfold rotateSegments
  simp only
  refine ⟨trivial, trivial, r4, r5, r6, r7, r8, ?_⟩
  intro p hp
  unfold nonFinal at hp ⊢
  simp only [List.append_nil] at hp
  rw [r3, r1] at hp
  have aux : ∀ (c : Prop) [Decidable c] (l : List (List Int)),
      p ∈ (if c then l.drop 1 else l).flatMap List.dropLast → p ∈ l.flatMap List.dropLast := by
    intro c _ l h
    split at h
    · exact mem_flatMap_dropLast_drop h
    · exact h
  have key : p ∈ (s.segs ++ [s.openParts ++ [next - s.partStart]]).flatMap List.dropLast := aux _ _ hp
  simp only [List.flatMap_append, List.flatMap_cons, List.flatMap_nil, List.append_nil,
    List.dropLast_concat, List.mem_append] at key
  simp only [List.mem_append]
  exact key

theorem rotateParts_window (s : St) (next : Int) :
    windowParts (rotateParts s next) = windowParts s ++ [next - s.partStart] ∧
    (rotateParts s next).partTarget = ceilMs (listMax (windowParts s ++ [next - s.partStart])) := by
  obtain ⟨r1, _, r3, _⟩ := rotateParts_fields s next
  have hw : windowParts (rotateParts s next) = windowParts s ++ [next - s.partStart] := by
    unfold windowParts; rw [r3, r1, List.append_assoc]
  refine ⟨hw, ?_⟩
  have hpt : computePartTarget { s with openParts := s.openParts ++ [next - s.partStart], partStart := next } =
      ceilMs (listMax (windowParts s ++ [next - s.partStart])) := by
    rw [computePartTarget_eq]
    unfold windowParts
    simp only [List.append_assoc]
  unfold rotateParts
  simp only
  split
  · exact hpt
  · split
    · exact hpt
    · rename_i h1 h2
      rw [← hpt]
      by_contra hne
      exact h2 (fun h => hne h.symm)

theorem mem_flatten_drop {l : List (List Int)} {p : Int} (h : p ∈ (l.drop 1).flatten) : p ∈ l.flatten := by
  cases l with
  | nil => simp at h
  | cons x xs =>
    simp only [List.drop_succ_cons, List.drop_zero] at h
    simp only [List.flatten_cons, List.mem_append]
    exact Or.inr h

theorem rotateSegments_window (s : St) (next : Int) :
    (∀ p ∈ windowParts (rotateSegments s next), p ∈ windowParts (rotateParts s next)) ∧
    (rotateSegments s next).partTarget = (rotateParts s next).partTarget := by
  unfold rotateSegments
  simp only
  refine ⟨?_, trivial⟩
  intro p hp
  unfold windowParts at hp ⊢
  simp only [List.append_nil] at hp
  have aux : ∀ (c : Prop) [Decidable c] (l : List (List Int)),
      p ∈ (if c then l.drop 1 else l).flatten → p ∈ l.flatten := by
    intro c _ l h
    split at h
    · exact mem_flatten_drop h
    · exact h
  have key := aux _ _ hp
  simpa using key

/-- the 10 s that `fmp4WriteSample` adds to every DTS -/
def offset (r : Int) : Int := durationToTimestamp (10 * secNs) r

/-- Invariant of a run with constant sample duration `d`, after at least one accepted sample. -/
structure Mid (cfg : Cfg) (a d K : Int) (s : St) : Prop where
  cfg_eq : s.cfg = cfg
  look : ∃ tp j ra, s.lookahead = some ⟨tp + j * d, ra⟩ ∧ 0 ≤ tp ∧ 0 ≤ j ∧ j < K ∧
      ((s.hasSeg = true ∧ s.partStart = timestampToDuration tp cfg.rate ∧
          s.durSet = [timestampToDuration d cfg.rate] ∧ s.adjusted = a) ∨
       (s.hasSeg = false ∧ j = 0 ∧ s.durSet = [] ∧ s.freeze = false))
  nf : ∀ p ∈ nonFinal s, ∃ t0, 0 ≤ t0 ∧ p = partNs t0 K d cfg.rate

/-- hypotheses about the configuration shared by the run lemmas -/
structure RunHyp (cfg : Cfg) (a d K g : Int) : Prop where
  hr : 0 < cfg.rate
  hd : 0 < d
  hs : timestampToDuration d cfg.rate ≠ 0
  ha : a = findCompatiblePartDuration cfg.partMin [timestampToDuration d cfg.rate]
  hapos : 0 < a
  hK : K = partSamples a d cfg.rate
  hrg : cfg.rate ≤ g
  hg : g ∣ 1000000000
  hag : g ∣ a

theorem RunHyp.K_pos {cfg a d K g} (H : RunHyp cfg a d K g) : 1 ≤ K := by
  have har : 0 < a * cfg.rate := Int.mul_pos H.hapos H.hr
  have hde : 0 < d * secNs := Int.mul_pos H.hd (by decide)
  have := (ceilDiv_spec (Int.le_of_lt har) hde).1
  rw [H.hK]; unfold partSamples
  by_contra hc
  have h0 : ceilDiv (a * cfg.rate) (d * secNs) ≤ 0 := by omega
  have := Int.mul_le_mul_of_nonneg_right h0 (Int.le_of_lt hde)
  omega

/-- the switch test in terms of the sample count -/
theorem RunHyp.switch_iff {cfg a d K g} (H : RunHyp cfg a d K g) (tp k : Int) (htp : 0 ≤ tp) (hk : 0 ≤ k) :
    (timestampToDuration (tp + k * d) cfg.rate - timestampToDuration tp cfg.rate ≥ a) ↔ K ≤ k := by
  have hp : partNs tp k d cfg.rate ≥ a ↔ a * cfg.rate ≤ k * d * 1000000000 := by
    rw [partNs_eq htp hk (Int.le_of_lt H.hd) H.hr]
    exact floor_diff_ge_iff H.hr H.hrg H.hag (Dvd.dvd.mul_left H.hg (k * d))
  have har : 0 ≤ a * cfg.rate := Int.mul_nonneg (Int.le_of_lt H.hapos) (Int.le_of_lt H.hr)
  have hde : 0 < d * secNs := Int.mul_pos H.hd (by decide)
  show partNs tp k d cfg.rate ≥ a ↔ K ≤ k
  rw [hp, H.hK]; unfold partSamples
  rw [ceilDiv_le_iff har hde]
  have : k * (d * secNs) = k * d * 1000000000 := by unfold secNs; ring
  rw [this]

/-- the state between `fmp4AdjustPartDuration` and the two switch tests -/
structure Ready (cfg : Cfg) (a d K : Int) (s : St) (tp j : Int) (ra : Bool) : Prop where
  cfg_eq : s.cfg = cfg
  look : s.lookahead = some ⟨tp + (j + 1) * d, ra⟩
  hasSeg : s.hasSeg = true
  partStart : s.partStart = timestampToDuration tp cfg.rate
  durSet : s.durSet = [timestampToDuration d cfg.rate]
  adjusted : s.adjusted = a
  nf : ∀ p ∈ nonFinal s, ∃ t0, 0 ≤ t0 ∧ p = partNs t0 K d cfg.rate

/-- `p` is the duration of a part of at most `K` samples -/
def IsPart (d K r : Int) (p : Int) : Prop := ∃ t0 j, 0 ≤ t0 ∧ 0 ≤ j ∧ j ≤ K ∧ p = partNs t0 j d r

/-- second invariant: what the window holds and what PART-TARGET was computed from -/
structure MidW (cfg : Cfg) (d K : Int) (s : St) : Prop where
  wp : ∀ p ∈ windowParts s, IsPart d K cfg.rate p
  tgt : windowParts s = [] ∨ ∃ W, (∀ p ∈ windowParts s, p ∈ W) ∧ (∀ p ∈ W, IsPart d K cfg.rate p) ∧
      s.partTarget = ceilMs (listMax W)

/-- the switch step either leaves window and PART-TARGET alone, or closes the open part at `next`
(possibly trimming the window afterwards) and recomputes PART-TARGET from the untrimmed window -/
theorem switchStep_window (s : St) (new : Sample) :
    (windowParts (switchStep s new) = windowParts s ∧ (switchStep s new).partTarget = s.partTarget) ∨
    ((∀ p ∈ windowParts (switchStep s new),
        p ∈ windowParts s ++ [timestampToDuration new.dts s.cfg.rate - s.partStart]) ∧
      (switchStep s new).partTarget =
        ceilMs (listMax (windowParts s ++ [timestampToDuration new.dts s.cfg.rate - s.partStart]))) := by
  unfold switchStep
  simp only
  split
  · right
    obtain ⟨w1, w2⟩ := rotateParts_window s (timestampToDuration new.dts s.cfg.rate)
    obtain ⟨v1, v2⟩ := rotateSegments_window s (timestampToDuration new.dts s.cfg.rate)
    refine ⟨?_, ?_⟩
    · intro p hp
      have : p ∈ windowParts (rotateSegments s (timestampToDuration new.dts s.cfg.rate)) := by
        simpa [windowParts] using hp
      have := v1 p this
      rw [w1] at this; exact this
    · show (rotateSegments s (timestampToDuration new.dts s.cfg.rate)).partTarget = _
      rw [v2, w2]
  · split
    · right
      obtain ⟨w1, w2⟩ := rotateParts_window s (timestampToDuration new.dts s.cfg.rate)
      exact ⟨by intro p hp; rw [w1] at hp; exact hp, w2⟩
    · left; exact ⟨rfl, rfl⟩

theorem switchStep_mid {cfg : Cfg} {a d K g : Int} (H : RunHyp cfg a d K g) (s : St) (tp j : Int) (ra : Bool)
    (htp : 0 ≤ tp) (hj0 : 0 ≤ j) (hjK : j < K) (hR : Ready cfg a d K s tp j ra) :
    Mid cfg a d K (switchStep s ⟨tp + (j + 1) * d, ra⟩) := by
  obtain ⟨hcfg, hlook, hseg, hps, hds, hadj, hnf⟩ := hR
  have hsw := H.switch_iff tp (j + 1) htp (by omega)
  have hnn : 0 ≤ tp + (j + 1) * d := by
    have : 0 ≤ (j + 1) * d := Int.mul_nonneg (by omega) (Int.le_of_lt H.hd)
    omega
  unfold switchStep
  simp only [hcfg, hps, hadj]
  by_cases hrot : (ra && decide (timestampToDuration (tp + (j + 1) * d) cfg.rate - s.segStart ≥ cfg.segMin)) = true
  · simp only [hrot, ↓reduceIte]
    obtain ⟨q1, q2, q3, q4, q5, q6, q7, q8⟩ := rotateSegments_fields s (timestampToDuration (tp + (j + 1) * d) cfg.rate)
    refine ⟨by simp [q7, hcfg], ⟨tp + (j + 1) * d, 0, ra, ?_, hnn, by omega, by omega, Or.inl ⟨?_, ?_, ?_, ?_⟩⟩, ?_⟩
    · simp [q3, hlook]
    · simp [q4, hseg]
    · simp [q2]
    · simp [q6, hds]
    · simp [q5, hadj]
    · intro p hp
      exact hnf p (q8 p (by simpa [nonFinal] using hp))
  · simp only [hrot, Bool.false_eq_true, ↓reduceIte]
    by_cases hfire : timestampToDuration (tp + (j + 1) * d) cfg.rate - timestampToDuration tp cfg.rate ≥ a
    · have hKj : j + 1 = K := by have := hsw.mp hfire; omega
      simp only [hfire, decide_true, ↓reduceIte]
      obtain ⟨r1, r2, r3, r4, r5, r6, r7, r8, _, _, _, _⟩ := rotateParts_fields s (timestampToDuration (tp + (j + 1) * d) cfg.rate)
      refine ⟨by simp [r8, hcfg], ⟨tp + (j + 1) * d, 0, ra, ?_, hnn, by omega, by omega, Or.inl ⟨?_, ?_, ?_, ?_⟩⟩, ?_⟩
      · simp [r4, hlook]
      · simp [r5, hseg]
      · simp [r2]
      · simp [r7, hds]
      · simp [r6, hadj]
      · intro p hp
        unfold nonFinal at hp
        rw [r3, r1] at hp
        simp only [List.mem_append, List.mem_singleton] at hp
        rcases hp with hp | hp | hp
        · exact hnf p (by unfold nonFinal; simp [hp])
        · exact hnf p (by unfold nonFinal; simp [hp])
        · refine ⟨tp, htp, ?_⟩
          rw [hp, hps, ← hKj]
          rfl
    · have hlt : j + 1 < K := by
        by_contra hc
        exact hfire (hsw.mpr (by omega))
      simp only [hfire, decide_false, Bool.false_eq_true, ↓reduceIte]
      exact ⟨hcfg, ⟨tp, j + 1, ra, hlook, htp, by omega, hlt, Or.inl ⟨hseg, hps, hds, hadj⟩⟩, hnf⟩

theorem ensureSeg_fields (s : St) (old : Sample) :
    (ensureSeg s old).cfg = s.cfg ∧ (ensureSeg s old).lookahead = s.lookahead ∧
    (ensureSeg s old).hasSeg = true ∧
    (ensureSeg s old).partStart = (if s.hasSeg then s.partStart else timestampToDuration old.dts s.cfg.rate) ∧
    (ensureSeg s old).durSet = s.durSet ∧ (ensureSeg s old).adjusted = s.adjusted ∧
    (ensureSeg s old).freeze = s.freeze ∧ nonFinal (ensureSeg s old) = nonFinal s := by
  unfold ensureSeg nonFinal
  by_cases h : s.hasSeg = true <;> simp [h]

theorem adjust_fields (s : St) (sd : Int) :
    (adjust s sd).cfg = s.cfg ∧ (adjust s sd).lookahead = s.lookahead ∧ (adjust s sd).hasSeg = s.hasSeg ∧
    (adjust s sd).partStart = s.partStart ∧ nonFinal (adjust s sd) = nonFinal s ∧
    ((s.freeze || sd == 0 || s.durSet.contains sd) = true →
      (adjust s sd).durSet = s.durSet ∧ (adjust s sd).adjusted = s.adjusted) ∧
    ((s.freeze || sd == 0 || s.durSet.contains sd) = false →
      (adjust s sd).durSet = s.durSet ++ [sd] ∧
      (adjust s sd).adjusted = findCompatiblePartDuration s.cfg.partMin (s.durSet ++ [sd])) := by
  unfold adjust nonFinal
  split
  · rename_i h
    simp_all
    intro h1 h2
    rcases h with (h | h) | h
    · rw [h1] at h; exact absurd h (by simp)
    · exact absurd h h2
    · exact h
  · simp_all

theorem ensureSeg_window (s : St) (old : Sample) :
    windowParts (ensureSeg s old) = windowParts s ∧ (ensureSeg s old).partTarget = s.partTarget := by
  unfold ensureSeg windowParts
  split <;> exact ⟨rfl, rfl⟩

theorem adjust_window (s : St) (sd : Int) :
    windowParts (adjust s sd) = windowParts s ∧ (adjust s sd).partTarget = s.partTarget := by
  unfold adjust windowParts
  split <;> exact ⟨rfl, rfl⟩

/-- One more sample: `write` is `switchStep` applied to a state that is `Ready`. -/
theorem write_ready {cfg : Cfg} {a d K g : Int} (H : RunHyp cfg a d K g) (s : St) (x : Int) (ra : Bool)
    (hm : Mid cfg a d K s)
    (hx : ∀ tp j ra', s.lookahead = some ⟨tp + j * d, ra'⟩ → x + offset cfg.rate = tp + (j + 1) * d) :
    ∃ tp j s3, 0 ≤ tp ∧ 0 ≤ j ∧ j < K ∧ write s x ra = switchStep s3 ⟨tp + (j + 1) * d, ra⟩ ∧
      Ready cfg a d K s3 tp j ra ∧ windowParts s3 = windowParts s ∧ s3.partTarget = s.partTarget := by
  obtain ⟨hcfg, ⟨tp, j, ra0, hlook, htp, hj0, hjK, hphase⟩, hnf⟩ := hm
  have hxe := hx tp j ra0 hlook
  have hnn : ¬ (tp + (j + 1) * d < 0) := by
    have : 0 ≤ (j + 1) * d := Int.mul_nonneg (by omega) (Int.le_of_lt H.hd)
    omega
  have hdiff : tp + (j + 1) * d - (tp + j * d) = d := by ring
  have hoff : durationToTimestamp (10 * secNs) s.cfg.rate = offset cfg.rate := by rw [hcfg]; rfl
  -- the state after "create first segment" and "adjust part duration"
  generalize hs1 : ({ s with lookahead := some ⟨tp + (j + 1) * d, ra⟩ } : St) = s1
  have f1 : s1.cfg = s.cfg ∧ s1.lookahead = some ⟨tp + (j + 1) * d, ra⟩ ∧ s1.hasSeg = s.hasSeg ∧
      s1.partStart = s.partStart ∧ s1.durSet = s.durSet ∧ s1.adjusted = s.adjusted ∧ s1.freeze = s.freeze ∧
      nonFinal s1 = nonFinal s ∧ windowParts s1 = windowParts s ∧ s1.partTarget = s.partTarget := by
    subst hs1; exact ⟨rfl, rfl, rfl, rfl, rfl, rfl, rfl, rfl, rfl, rfl⟩
  obtain ⟨a1, a2, a3, a4, a5, a6, a7, a8, a9, a10⟩ := f1
  obtain ⟨b1, b2, b3, b4, b5, b6, b7, b8⟩ := ensureSeg_fields s1 ⟨tp + j * d, ra0⟩
  obtain ⟨b9, b10⟩ := ensureSeg_window s1 ⟨tp + j * d, ra0⟩
  have hrate : (ensureSeg s1 ⟨tp + j * d, ra0⟩).cfg.rate = cfg.rate := by rw [b1, a1, hcfg]
  have hw : write s x ra = switchStep (adjust (ensureSeg s1 ⟨tp + j * d, ra0⟩) (timestampToDuration d cfg.rate))
      ⟨tp + (j + 1) * d, ra⟩ := by
    unfold write
    simp only [hoff, hxe, hnn, ↓reduceIte, hlook, hdiff, hs1, hrate]
  generalize hs2 : ensureSeg s1 ⟨tp + j * d, ra0⟩ = s2 at b1 b2 b3 b4 b5 b6 b7 b8 b9 b10 hw
  obtain ⟨c1, c2, c3, c4, c5, c6, c7⟩ := adjust_fields s2 (timestampToDuration d cfg.rate)
  obtain ⟨c8, c9⟩ := adjust_window s2 (timestampToDuration d cfg.rate)
  generalize hs3 : adjust s2 (timestampToDuration d cfg.rate) = s3 at c1 c2 c3 c4 c5 c6 c7 c8 c9 hw
  have hnf3 : ∀ p ∈ nonFinal s3, ∃ t0, 0 ≤ t0 ∧ p = partNs t0 K d cfg.rate := by
    intro p hp; rw [c5, b8, a8] at hp; exact hnf p hp
  refine ⟨tp, j, s3, htp, hj0, hjK, hw, ?_, by rw [c8, b9, a9], by rw [c9, b10, a10]⟩
  rcases hphase with ⟨hseg, hps, hds, hadj⟩ | ⟨hseg, hj, hds, hfr⟩
  · have hcont : (s2.freeze || timestampToDuration d cfg.rate == 0 ||
        s2.durSet.contains (timestampToDuration d cfg.rate)) = true := by
      rw [b5, a5, hds]; simp
    obtain ⟨e1, e2⟩ := c6 hcont
    refine ⟨by rw [c1, b1, a1, hcfg], by rw [c2, b2, a2], by rw [c3, b3], ?_, by rw [e1, b5, a5, hds],
      by rw [e2, b6, a6, hadj], hnf3⟩
    rw [c4, b4, a3, hseg]; simp [a4, hps]
  · subst hj
    have hs' : (timestampToDuration d cfg.rate == 0) = false := by simpa using H.hs
    have hcont : (s2.freeze || timestampToDuration d cfg.rate == 0 ||
        s2.durSet.contains (timestampToDuration d cfg.rate)) = false := by
      rw [b7, a7, hfr, b5, a5, hds, hs']; simp
    obtain ⟨e1, e2⟩ := c7 hcont
    refine ⟨by rw [c1, b1, a1, hcfg], by rw [c2, b2, a2], by rw [c3, b3], ?_, by rw [e1, b5, a5, hds]; simp,
      ?_, hnf3⟩
    · rw [c4, b4, a3, hseg]; simp [a1, hcfg]
    · rw [e2, b5, a5, hds, b1, a1, hcfg, H.ha]; simp

/-- One more sample of the constant-rate run keeps the invariant. -/
theorem write_step {cfg : Cfg} {a d K g : Int} (H : RunHyp cfg a d K g) (s : St) (x : Int) (ra : Bool)
    (hm : Mid cfg a d K s)
    (hx : ∀ tp j ra', s.lookahead = some ⟨tp + j * d, ra'⟩ → x + offset cfg.rate = tp + (j + 1) * d) :
    Mid cfg a d K (write s x ra) := by
  obtain ⟨tp, j, s3, htp, hj0, hjK, hw, hR, _, _⟩ := write_ready H s x ra hm hx
  rw [hw]
  exact switchStep_mid H s3 tp j ra htp hj0 hjK hR

/-- … and the window invariant. -/
theorem write_stepW {cfg : Cfg} {a d K g : Int} (H : RunHyp cfg a d K g) (s : St) (x : Int) (ra : Bool)
    (hm : Mid cfg a d K s) (hw : MidW cfg d K s)
    (hx : ∀ tp j ra', s.lookahead = some ⟨tp + j * d, ra'⟩ → x + offset cfg.rate = tp + (j + 1) * d) :
    MidW cfg d K (write s x ra) := by
  obtain ⟨tp, j, s3, htp, hj0, hjK, hweq, hR, hwin, hpt⟩ := write_ready H s x ra hm hx
  rw [hweq]
  obtain ⟨hwp, htgt⟩ := hw
  rcases switchStep_window s3 ⟨tp + (j + 1) * d, ra⟩ with ⟨e1, e2⟩ | ⟨e1, e2⟩
  · refine ⟨by rw [e1, hwin]; exact hwp, ?_⟩
    rw [e1, e2, hwin, hpt]; exact htgt
  · -- the part that was closed
    have hnew : IsPart d K cfg.rate (timestampToDuration (tp + (j + 1) * d) s3.cfg.rate - s3.partStart) := by
      rw [hR.cfg_eq, hR.partStart]
      exact ⟨tp, j + 1, htp, by omega, by omega, rfl⟩
    have hall : ∀ p ∈ windowParts s3 ++ [timestampToDuration (tp + (j + 1) * d) s3.cfg.rate - s3.partStart],
        IsPart d K cfg.rate p := by
      intro p hp
      simp only [List.mem_append, List.mem_singleton] at hp
      rcases hp with hp | hp
      · rw [hwin] at hp; exact hwp p hp
      · rw [hp]; exact hnew
    refine ⟨fun p hp => hall p (e1 p hp), Or.inr ⟨_, e1, hall, e2⟩⟩

theorem switchStep_lookahead (s : St) (new : Sample) : (switchStep s new).lookahead = s.lookahead := by
  unfold switchStep
  simp only
  split
  · exact (rotateSegments_fields s _).2.2.1
  · split
    · exact (rotateParts_fields s _).2.2.2.1
    · rfl

/-- an accepted sample becomes the look-ahead sample -/
theorem write_lookahead (s : St) (x : Int) (ra : Bool) (h : ¬ (x + offset s.cfg.rate < 0)) :
    (write s x ra).lookahead = some ⟨x + offset s.cfg.rate, ra⟩ := by
  have hoff : durationToTimestamp (10 * secNs) s.cfg.rate = offset s.cfg.rate := rfl
  unfold write
  simp only [hoff, h, ↓reduceIte]
  split
  · rfl
  · rw [switchStep_lookahead, (adjust_fields _ _).2.1, (ensureSeg_fields _ _).2.1]

/-- A run: samples at `x, x+d, x+2d, …` with arbitrary random-access flags. -/
def runFrom (s : St) (x d : Int) : List Bool → St
  | [] => s
  | ra :: rest => runFrom (write s x ra) (x + d) d rest

theorem runFrom_mid {cfg : Cfg} {a d K g : Int} (H : RunHyp cfg a d K g) (ras : List Bool) :
    ∀ (s : St) (x : Int), Mid cfg a d K s → MidW cfg d K s →
    (∃ ra', s.lookahead = some ⟨x + offset cfg.rate - d, ra'⟩) →
    Mid cfg a d K (runFrom s x d ras) ∧ MidW cfg d K (runFrom s x d ras) := by
  induction ras with
  | nil => intro s x hm hw _; exact ⟨hm, hw⟩
  | cons ra rest ih =>
    intro s x hm hw hx
    obtain ⟨ra1, hl1⟩ := hx
    simp only [runFrom]
    have hcfg := hm.cfg_eq
    have hx' : ∀ tp j ra', s.lookahead = some ⟨tp + j * d, ra'⟩ → x + offset cfg.rate = tp + (j + 1) * d := by
      intro tp j ra' hl
      rw [hl1] at hl
      simp only [Option.some.injEq, Sample.mk.injEq] at hl
      have : (j + 1) * d = j * d + d := by ring
      omega
    have hm' := write_step H s x ra hm hx'
    have hw' := write_stepW H s x ra hm hw hx'
    apply ih _ _ hm' hw'
    -- the look-ahead of the new state is the sample just written
    obtain ⟨_, ⟨tp, j, ra0, hlook, htp, hj0, _, _⟩, _⟩ := hm
    have hxe := hx' tp j ra0 hlook
    have hnn : ¬ (x + offset s.cfg.rate < 0) := by
      rw [hcfg, hxe]
      have : 0 ≤ (j + 1) * d := Int.mul_nonneg (by omega) (Int.le_of_lt H.hd)
      omega
    refine ⟨ra, ?_⟩
    rw [write_lookahead s x ra hnn, hcfg]
    have : x + d + offset cfg.rate - d = x + offset cfg.rate := by ring
    rw [this]

theorem run_invariants {cfg : Cfg} {a d K g : Int} (H : RunHyp cfg a d K g) (b : Int) (hb : 0 ≤ b + offset cfg.rate)
    (ra0 : Bool) (ras : List Bool) :
    Mid cfg a d K (runFrom { cfg := cfg } b d (ra0 :: ras)) ∧ MidW cfg d K (runFrom { cfg := cfg } b d (ra0 :: ras)) := by
  simp only [runFrom]
  have hK1 := H.K_pos
  have hnn : ¬ (b + offset cfg.rate < 0) := by omega
  have hw : write { cfg := cfg } b ra0 = { cfg := cfg, lookahead := some ⟨b + offset cfg.rate, ra0⟩ } := by
    have hoff : durationToTimestamp (10 * secNs) cfg.rate = offset cfg.rate := rfl
    unfold write
    simp only [hoff, hnn, ↓reduceIte]
  have hm : Mid cfg a d K (write { cfg := cfg } b ra0) := by
    rw [hw]
    refine ⟨rfl, ⟨b + offset cfg.rate, 0, ra0, by simp, hb, by omega, by omega, Or.inr ⟨rfl, rfl, rfl, rfl⟩⟩, ?_⟩
    intro p hp; simp [nonFinal] at hp
  have hmw : MidW cfg d K (write { cfg := cfg } b ra0) := by
    rw [hw]
    exact ⟨by intro p hp; simp [windowParts] at hp, Or.inl (by simp [windowParts])⟩
  exact runFrom_mid H ras (write { cfg := cfg } b ra0) (b + d) hm hmw ⟨ra0, by rw [hw]; simp; ring⟩

/-- Along a run with constant sample duration (first DTS `b`, `b + 10 s ≥ 0`) every non-final part the
state knows — every part of the open segment and all but the last part of every finished segment in
the window — holds exactly `K = partSamples a d r` samples: it equals `partNs t0 K d r` for the tick
`t0 ≥ 0` at which it started. -/
theorem run_uniform {cfg : Cfg} {a d K g : Int} (H : RunHyp cfg a d K g) (b : Int) (hb : 0 ≤ b + offset cfg.rate)
    (ra0 : Bool) (ras : List Bool) :
    ∀ p ∈ nonFinal (runFrom { cfg := cfg } b d (ra0 :: ras)), ∃ t0, 0 ≤ t0 ∧ p = partNs t0 K d cfg.rate :=
  (run_invariants H b hb ra0 ras).1.nf

theorem nonFinal_sub_window (s : St) : ∀ p ∈ nonFinal s, p ∈ windowParts s := by
  intro p hp
  unfold nonFinal at hp
  unfold windowParts
  simp only [List.mem_append, List.mem_flatMap, List.mem_flatten] at hp ⊢
  rcases hp with ⟨seg, hseg, hp⟩ | hp
  · exact Or.inl ⟨seg, hseg, List.dropLast_subset seg hp⟩
  · exact Or.inr hp

/-- the maximum of a window that holds a `K`-sample part is a `K`-sample part -/
theorem window_max_is_K {cfg : Cfg} {a d K g : Int} (H : RunHyp cfg a d K g) (W : List Int)
    (hall : ∀ p ∈ W, IsPart d K cfg.rate p) (hK : ∃ p ∈ W, ∃ t0, 0 ≤ t0 ∧ p = partNs t0 K d cfg.rate) :
    ∃ t, 0 ≤ t ∧ listMax W = partNs t K d cfg.rate := by
  obtain ⟨pK, hpK, t0, ht0, rfl⟩ := hK
  have hge : partNs t0 K d cfg.rate ≥ a := (H.switch_iff t0 K ht0 (by have := H.K_pos; omega)).mpr (Int.le_refl _)
  have hM : partNs t0 K d cfg.rate ≤ listMax W := listMax_ge hpK
  have hapos := H.hapos
  rcases listMax_mem W with h0 | hm
  · omega
  · obtain ⟨t, j, ht, hj0, hjK, he⟩ := hall _ hm
    by_cases hj : j = K
    · exact ⟨t, ht, by rw [he, hj]⟩
    · exfalso
      have hlt : ¬ (partNs t j d cfg.rate ≥ a) := by
        intro hh
        have := (H.switch_iff t j ht hj0).mp hh
        omega
      rw [← he] at hlt
      omega

/-- Whenever the state knows a non-final part, PART-TARGET is the millisecond ceiling of a `K`-sample part. -/
theorem run_target {cfg : Cfg} {a d K g : Int} (H : RunHyp cfg a d K g) (b : Int) (hb : 0 ≤ b + offset cfg.rate)
    (ra0 : Bool) (ras : List Bool)
    (hne : nonFinal (runFrom { cfg := cfg } b d (ra0 :: ras)) ≠ []) :
    ∃ t, 0 ≤ t ∧ (runFrom { cfg := cfg } b d (ra0 :: ras)).partTarget = ceilMs (partNs t K d cfg.rate) := by
  obtain ⟨hm, hw⟩ := run_invariants H b hb ra0 ras
  obtain ⟨p, hp⟩ := List.exists_mem_of_ne_nil _ hne
  obtain ⟨t0, ht0, hpe⟩ := hm.nf p hp
  have hpw := nonFinal_sub_window _ p hp
  rcases hw.tgt with hnil | ⟨W, hsub, hall, hpt⟩
  · rw [hnil] at hpw; simp at hpw
  · obtain ⟨t, ht, hmax⟩ := window_max_is_K H W hall ⟨p, hsub p hpw, t0, ht0, hpe⟩
    exact ⟨t, ht, by rw [hpt, hmax]⟩

end Hls.PartDur
