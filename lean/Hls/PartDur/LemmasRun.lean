import Hls.PartDur.LemmasFind
import Hls.PartDur.LemmasTime
/-!
# The mini-model `write` along a run with a constant sample duration: every part closed by the
part-switch rule holds exactly `K = partSamples a d r` samples
-/
namespace Hls.PartDur
open Hls.Gen

/-- the non-final parts a state knows: all parts of the open segment (each was closed by the
part-switch rule) and all but the last part of every finished segment in the window -/
def nonFinal (s : St) : List Int := s.segs.flatMap List.dropLast ++ s.openParts

theorem rotateParts_fields (s : St) (next : Int) :
    (rotateParts s next).openParts = s.openParts ++ [next - s.partStart] ∧
    (rotateParts s next).partStart = next ∧ (rotateParts s next).segs = s.segs ∧
    (rotateParts s next).lookahead = s.lookahead ∧ (rotateParts s next).hasSeg = s.hasSeg ∧
    (rotateParts s next).adjusted = s.adjusted ∧ (rotateParts s next).durSet = s.durSet ∧
    (rotateParts s next).cfg = s.cfg ∧ (rotateParts s next).freeze = s.freeze ∧
    (rotateParts s next).gaps = s.gaps ∧ (rotateParts s next).finished = s.finished ∧
    (rotateParts s next).segStart = s.segStart := by
  unfold rotateParts
  simp only
  split
  · simp
  · split <;> simp

theorem mem_flatMap_dropLast_drop {l : List (List Int)} {p : Int}
    (h : p ∈ (l.drop 1).flatMap List.dropLast) : p ∈ l.flatMap List.dropLast := by
  cases l with
  | nil => simpa using h
  | cons x xs =>
    simp only [List.drop_succ_cons, List.drop_zero] at h
    simp only [List.flatMap_cons, List.mem_append]
    exact Or.inr h

theorem rotateSegments_fields (s : St) (next : Int) :
    (rotateSegments s next).openParts = [] ∧
    (rotateSegments s next).partStart = next ∧
    (rotateSegments s next).lookahead = s.lookahead ∧ (rotateSegments s next).hasSeg = s.hasSeg ∧
    (rotateSegments s next).adjusted = s.adjusted ∧ (rotateSegments s next).durSet = s.durSet ∧
    (rotateSegments s next).cfg = s.cfg ∧
    (∀ p ∈ nonFinal (rotateSegments s next), p ∈ nonFinal s) := by
  obtain ⟨r1, r2, r3, r4, r5, r6, r7, r8, r9, r10, r11, r12⟩ := rotateParts_fields s next
  unfold rotateSegments
  simp only
  refine ⟨trivial, trivial, r4, r5, r6, r7, r8, ?_⟩
  intro p hp
  unfold nonFinal at hp ⊢
  simp only [List.append_nil] at hp
  rw [r3, r1] at hp
  have aux : ∀ (c : Prop) [Decidable c] (l : List (List Int)),
      p ∈ (if c then l.drop 1 else l).flatMap List.dropLast → p ∈ l.flatMap List.dropLast := by
    intro c _ l h
    split at h
    · exact mem_flatMap_dropLast_drop h
    · exact h
  have key : p ∈ (s.segs ++ [s.openParts ++ [next - s.partStart]]).flatMap List.dropLast := aux _ _ hp
  simp only [List.flatMap_append, List.flatMap_cons, List.flatMap_nil, List.append_nil,
    List.dropLast_concat, List.mem_append] at key
  simp only [List.mem_append]
  exact key

/-- the 10 s that `fmp4WriteSample` adds to every DTS -/
def offset (r : Int) : Int := durationToTimestamp (10 * secNs) r

/-- Invariant of a run with constant sample duration `d`, after at least one accepted sample. -/
structure Mid (cfg : Cfg) (a d K : Int) (s : St) : Prop where
  cfg_eq : s.cfg = cfg
  look : ∃ tp j ra, s.lookahead = some ⟨tp + j * d, ra⟩ ∧ 0 ≤ tp ∧ 0 ≤ j ∧ j < K ∧
      ((s.hasSeg = true ∧ s.partStart = timestampToDuration tp cfg.rate ∧
          s.durSet = [timestampToDuration d cfg.rate] ∧ s.adjusted = a) ∨
       (s.hasSeg = false ∧ j = 0 ∧ s.durSet = [] ∧ s.freeze = false))
  nf : ∀ p ∈ nonFinal s, ∃ t0, 0 ≤ t0 ∧ p = partNs t0 K d cfg.rate

/-- hypotheses about the configuration shared by the run lemmas -/
structure RunHyp (cfg : Cfg) (a d K g : Int) : Prop where
  hr : 0 < cfg.rate
  hd : 0 < d
  hs : timestampToDuration d cfg.rate ≠ 0
  ha : a = findCompatiblePartDuration cfg.partMin [timestampToDuration d cfg.rate]
  hapos : 0 < a
  hK : K = partSamples a d cfg.rate
  hrg : cfg.rate ≤ g
  hg : g ∣ 1000000000
  hag : g ∣ a

theorem RunHyp.K_pos {cfg a d K g} (H : RunHyp cfg a d K g) : 1 ≤ K := by
  have har : 0 < a * cfg.rate := Int.mul_pos H.hapos H.hr
  have hde : 0 < d * secNs := Int.mul_pos H.hd (by decide)
  have := (ceilDiv_spec (Int.le_of_lt har) hde).1
  rw [H.hK]; unfold partSamples
  by_contra hc
  have h0 : ceilDiv (a * cfg.rate) (d * secNs) ≤ 0 := by omega
  have := Int.mul_le_mul_of_nonneg_right h0 (Int.le_of_lt hde)
  omega

/-- the switch test in terms of the sample count -/
theorem RunHyp.switch_iff {cfg a d K g} (H : RunHyp cfg a d K g) (tp k : Int) (htp : 0 ≤ tp) (hk : 0 ≤ k) :
    (timestampToDuration (tp + k * d) cfg.rate - timestampToDuration tp cfg.rate ≥ a) ↔ K ≤ k := by
  have hp : partNs tp k d cfg.rate ≥ a ↔ a * cfg.rate ≤ k * d * 1000000000 := by
    rw [partNs_eq htp hk (Int.le_of_lt H.hd) H.hr]
    exact floor_diff_ge_iff H.hr H.hrg H.hag (Dvd.dvd.mul_left H.hg (k * d))
  have har : 0 ≤ a * cfg.rate := Int.mul_nonneg (Int.le_of_lt H.hapos) (Int.le_of_lt H.hr)
  have hde : 0 < d * secNs := Int.mul_pos H.hd (by decide)
  show partNs tp k d cfg.rate ≥ a ↔ K ≤ k
  rw [hp, H.hK]; unfold partSamples
  rw [ceilDiv_le_iff har hde]
  have : k * (d * secNs) = k * d * 1000000000 := by unfold secNs; ring
  rw [this]

/-- the state between `fmp4AdjustPartDuration` and the two switch tests -/
structure Ready (cfg : Cfg) (a d K : Int) (s : St) (tp j : Int) (ra : Bool) : Prop where
  cfg_eq : s.cfg = cfg
  look : s.lookahead = some ⟨tp + (j + 1) * d, ra⟩
  hasSeg : s.hasSeg = true
  partStart : s.partStart = timestampToDuration tp cfg.rate
  durSet : s.durSet = [timestampToDuration d cfg.rate]
  adjusted : s.adjusted = a
  nf : ∀ p ∈ nonFinal s, ∃ t0, 0 ≤ t0 ∧ p = partNs t0 K d cfg.rate

theorem switchStep_mid {cfg : Cfg} {a d K g : Int} (H : RunHyp cfg a d K g) (s : St) (tp j : Int) (ra : Bool)
    (htp : 0 ≤ tp) (hj0 : 0 ≤ j) (hjK : j < K) (hR : Ready cfg a d K s tp j ra) :
    Mid cfg a d K (switchStep s ⟨tp + (j + 1) * d, ra⟩) := by
  obtain ⟨hcfg, hlook, hseg, hps, hds, hadj, hnf⟩ := hR
  have hsw := H.switch_iff tp (j + 1) htp (by omega)
  have hnn : 0 ≤ tp + (j + 1) * d := by
    have : 0 ≤ (j + 1) * d := Int.mul_nonneg (by omega) (Int.le_of_lt H.hd)
    omega
  unfold switchStep
  simp only [hcfg, hps, hadj]
  by_cases hrot : (ra && decide (timestampToDuration (tp + (j + 1) * d) cfg.rate - s.segStart ≥ cfg.segMin)) = true
  · simp only [hrot, ↓reduceIte]
    obtain ⟨q1, q2, q3, q4, q5, q6, q7, q8⟩ := rotateSegments_fields s (timestampToDuration (tp + (j + 1) * d) cfg.rate)
    refine ⟨by simp [q7, hcfg], ⟨tp + (j + 1) * d, 0, ra, ?_, hnn, by omega, by omega, Or.inl ⟨?_, ?_, ?_, ?_⟩⟩, ?_⟩
    · simp [q3, hlook]
    · simp [q4, hseg]
    · simp [q2]
    · simp [q6, hds]
    · simp [q5, hadj]
    · intro p hp
      exact hnf p (q8 p (by simpa [nonFinal] using hp))
  · simp only [hrot, Bool.false_eq_true, ↓reduceIte]
    by_cases hfire : timestampToDuration (tp + (j + 1) * d) cfg.rate - timestampToDuration tp cfg.rate ≥ a
    · have hKj : j + 1 = K := by have := hsw.mp hfire; omega
      simp only [hfire, decide_true, ↓reduceIte]
      obtain ⟨r1, r2, r3, r4, r5, r6, r7, r8, _, _, _, _⟩ := rotateParts_fields s (timestampToDuration (tp + (j + 1) * d) cfg.rate)
      refine ⟨by simp [r8, hcfg], ⟨tp + (j + 1) * d, 0, ra, ?_, hnn, by omega, by omega, Or.inl ⟨?_, ?_, ?_, ?_⟩⟩, ?_⟩
      · simp [r4, hlook]
      · simp [r5, hseg]
      · simp [r2]
      · simp [r7, hds]
      · simp [r6, hadj]
      · intro p hp
        unfold nonFinal at hp
        rw [r3, r1] at hp
        simp only [List.mem_append, List.mem_singleton] at hp
        rcases hp with hp | hp | hp
        · exact hnf p (by unfold nonFinal; simp [hp])
        · exact hnf p (by unfold nonFinal; simp [hp])
        · refine ⟨tp, htp, ?_⟩
          rw [hp, hps, ← hKj]
          rfl
    · have hlt : j + 1 < K := by
        by_contra hc
        exact hfire (hsw.mpr (by omega))
      simp only [hfire, decide_false, Bool.false_eq_true, ↓reduceIte]
      exact ⟨hcfg, ⟨tp, j + 1, ra, hlook, htp, by omega, hlt, Or.inl ⟨hseg, hps, hds, hadj⟩⟩, hnf⟩

theorem ensureSeg_fields (s : St) (old : Sample) :
    (ensureSeg s old).cfg = s.cfg ∧ (ensureSeg s old).lookahead = s.lookahead ∧
    (ensureSeg s old).hasSeg = true ∧
    (ensureSeg s old).partStart = (if s.hasSeg then s.partStart else timestampToDuration old.dts s.cfg.rate) ∧
    (ensureSeg s old).durSet = s.durSet ∧ (ensureSeg s old).adjusted = s.adjusted ∧
    (ensureSeg s old).freeze = s.freeze ∧ nonFinal (ensureSeg s old) = nonFinal s := by
  unfold ensureSeg nonFinal
  by_cases h : s.hasSeg = true <;> simp [h]

theorem adjust_fields (s : St) (sd : Int) :
    (adjust s sd).cfg = s.cfg ∧ (adjust s sd).lookahead = s.lookahead ∧ (adjust s sd).hasSeg = s.hasSeg ∧
    (adjust s sd).partStart = s.partStart ∧ nonFinal (adjust s sd) = nonFinal s ∧
    ((s.freeze || sd == 0 || s.durSet.contains sd) = true →
      (adjust s sd).durSet = s.durSet ∧ (adjust s sd).adjusted = s.adjusted) ∧
    ((s.freeze || sd == 0 || s.durSet.contains sd) = false →
      (adjust s sd).durSet = s.durSet ++ [sd] ∧
      (adjust s sd).adjusted = findCompatiblePartDuration s.cfg.partMin (s.durSet ++ [sd])) := by
  unfold adjust nonFinal
  split
  · rename_i h
    simp_all
    intro h1 h2
    rcases h with (h | h) | h
    · rw [h1] at h; exact absurd h (by simp)
    · exact absurd h h2
    · exact h
  · simp_all

/-- One more sample of the constant-rate run keeps the invariant. -/
theorem write_step {cfg : Cfg} {a d K g : Int} (H : RunHyp cfg a d K g) (s : St) (x : Int) (ra : Bool)
    (hm : Mid cfg a d K s)
    (hx : ∀ tp j ra', s.lookahead = some ⟨tp + j * d, ra'⟩ → x + offset cfg.rate = tp + (j + 1) * d) :
    Mid cfg a d K (write s x ra) := by
  obtain ⟨hcfg, ⟨tp, j, ra0, hlook, htp, hj0, hjK, hphase⟩, hnf⟩ := hm
  have hxe := hx tp j ra0 hlook
  have hnn : ¬ (tp + (j + 1) * d < 0) := by
    have : 0 ≤ (j + 1) * d := Int.mul_nonneg (by omega) (Int.le_of_lt H.hd)
    omega
  have hdiff : tp + (j + 1) * d - (tp + j * d) = d := by ring
  have hoff : durationToTimestamp (10 * secNs) s.cfg.rate = offset cfg.rate := by rw [hcfg]; rfl
  unfold write
  simp only [hoff, hxe, hnn, ↓reduceIte, hlook, hdiff]
  apply switchStep_mid H _ tp j ra htp hj0 hjK
  -- the state after "create first segment" and "adjust part duration"
  generalize hs1 : ({ s with lookahead := some ⟨tp + (j + 1) * d, ra⟩ } : St) = s1
  have f1 : s1.cfg = s.cfg ∧ s1.lookahead = some ⟨tp + (j + 1) * d, ra⟩ ∧ s1.hasSeg = s.hasSeg ∧
      s1.partStart = s.partStart ∧ s1.durSet = s.durSet ∧ s1.adjusted = s.adjusted ∧ s1.freeze = s.freeze ∧
      nonFinal s1 = nonFinal s := by
    subst hs1; exact ⟨rfl, rfl, rfl, rfl, rfl, rfl, rfl, rfl⟩
  obtain ⟨a1, a2, a3, a4, a5, a6, a7, a8⟩ := f1
  obtain ⟨b1, b2, b3, b4, b5, b6, b7, b8⟩ := ensureSeg_fields s1 ⟨tp + j * d, ra0⟩
  generalize hs2 : ensureSeg s1 ⟨tp + j * d, ra0⟩ = s2 at b1 b2 b3 b4 b5 b6 b7 b8 ⊢
  have hrate : s2.cfg.rate = cfg.rate := by rw [b1, a1, hcfg]
  rw [hrate]
  obtain ⟨c1, c2, c3, c4, c5, c6, c7⟩ := adjust_fields s2 (timestampToDuration d cfg.rate)
  generalize hs3 : adjust s2 (timestampToDuration d cfg.rate) = s3 at c1 c2 c3 c4 c5 c6 c7 ⊢
  have hnf3 : ∀ p ∈ nonFinal s3, ∃ t0, 0 ≤ t0 ∧ p = partNs t0 K d cfg.rate := by
    intro p hp; rw [c5, b8, a8] at hp; exact hnf p hp
  rcases hphase with ⟨hseg, hps, hds, hadj⟩ | ⟨hseg, hj, hds, hfr⟩
  · have hcont : (s2.freeze || timestampToDuration d cfg.rate == 0 ||
        s2.durSet.contains (timestampToDuration d cfg.rate)) = true := by
      rw [b5, a5, hds]; simp
    obtain ⟨e1, e2⟩ := c6 hcont
    refine ⟨by rw [c1, b1, a1, hcfg], by rw [c2, b2, a2], by rw [c3, b3], ?_, by rw [e1, b5, a5, hds],
      by rw [e2, b6, a6, hadj], hnf3⟩
    rw [c4, b4, a3, hseg]; simp [a4, hps]
  · subst hj
    have hs' : (timestampToDuration d cfg.rate == 0) = false := by simpa using H.hs
    have hcont : (s2.freeze || timestampToDuration d cfg.rate == 0 ||
        s2.durSet.contains (timestampToDuration d cfg.rate)) = false := by
      rw [b7, a7, hfr, b5, a5, hds, hs']; simp
    obtain ⟨e1, e2⟩ := c7 hcont
    refine ⟨by rw [c1, b1, a1, hcfg], by rw [c2, b2, a2], by rw [c3, b3], ?_, by rw [e1, b5, a5, hds]; simp,
      ?_, hnf3⟩
    · rw [c4, b4, a3, hseg]; simp [a1, hcfg]
    · rw [e2, b5, a5, hds, b1, a1, hcfg, H.ha]; simp

theorem switchStep_lookahead (s : St) (new : Sample) : (switchStep s new).lookahead = s.lookahead := by
  unfold switchStep
  simp only
  split
  · exact (rotateSegments_fields s _).2.2.1
  · split
    · exact (rotateParts_fields s _).2.2.2.1
    · rfl

/-- an accepted sample becomes the look-ahead sample -/
theorem write_lookahead (s : St) (x : Int) (ra : Bool) (h : ¬ (x + offset s.cfg.rate < 0)) :
    (write s x ra).lookahead = some ⟨x + offset s.cfg.rate, ra⟩ := by
  have hoff : durationToTimestamp (10 * secNs) s.cfg.rate = offset s.cfg.rate := rfl
  unfold write
  simp only [hoff, h, ↓reduceIte]
  split
  · rfl
  · rw [switchStep_lookahead, (adjust_fields _ _).2.1, (ensureSeg_fields _ _).2.1]

/-- A run: samples at `x, x+d, x+2d, …` with arbitrary random-access flags. -/
def runFrom (s : St) (x d : Int) : List Bool → St
  | [] => s
  | ra :: rest => runFrom (write s x ra) (x + d) d rest

theorem runFrom_mid {cfg : Cfg} {a d K g : Int} (H : RunHyp cfg a d K g) (ras : List Bool) :
    ∀ (s : St) (x : Int), Mid cfg a d K s →
    (∃ ra', s.lookahead = some ⟨x + offset cfg.rate - d, ra'⟩) →
    Mid cfg a d K (runFrom s x d ras) := by
  induction ras with
  | nil => intro s x hm _; exact hm
  | cons ra rest ih =>
    intro s x hm hx
    obtain ⟨ra1, hl1⟩ := hx
    simp only [runFrom]
    have hcfg := hm.cfg_eq
    have hx' : ∀ tp j ra', s.lookahead = some ⟨tp + j * d, ra'⟩ → x + offset cfg.rate = tp + (j + 1) * d := by
      intro tp j ra' hl
      rw [hl1] at hl
      simp only [Option.some.injEq, Sample.mk.injEq] at hl
      have : (j + 1) * d = j * d + d := by ring
      omega
    have hm' := write_step H s x ra hm hx'
    apply ih _ _ hm'
    -- the look-ahead of the new state is the sample just written
    obtain ⟨_, ⟨tp, j, ra0, hlook, htp, hj0, _, _⟩, _⟩ := hm
    have hxe := hx' tp j ra0 hlook
    have hnn : ¬ (x + offset s.cfg.rate < 0) := by
      rw [hcfg, hxe]
      have : 0 ≤ (j + 1) * d := Int.mul_nonneg (by omega) (Int.le_of_lt H.hd)
      omega
    refine ⟨ra, ?_⟩
    rw [write_lookahead s x ra hnn, hcfg]
    have : x + d + offset cfg.rate - d = x + offset cfg.rate := by ring
    rw [this]

/-- Along a run with constant sample duration (first DTS `b`, `b + 10 s ≥ 0`) every non-final part the
state knows — every part of the open segment and all but the last part of every finished segment in
the window — holds exactly `K = partSamples a d r` samples: it equals `partNs t0 K d r` for the tick
`t0 ≥ 0` at which it started. -/
theorem run_uniform {cfg : Cfg} {a d K g : Int} (H : RunHyp cfg a d K g) (b : Int) (hb : 0 ≤ b + offset cfg.rate)
    (ra0 : Bool) (ras : List Bool) :
    ∀ p ∈ nonFinal (runFrom { cfg := cfg } b d (ra0 :: ras)), ∃ t0, 0 ≤ t0 ∧ p = partNs t0 K d cfg.rate := by
  simp only [runFrom]
  have hK1 := H.K_pos
  have hnn : ¬ (b + offset cfg.rate < 0) := by omega
  have hw : write { cfg := cfg } b ra0 = { cfg := cfg, lookahead := some ⟨b + offset cfg.rate, ra0⟩ } := by
    have hoff : durationToTimestamp (10 * secNs) cfg.rate = offset cfg.rate := rfl
    unfold write
    simp only [hoff, hnn, ↓reduceIte]
  have hm : Mid cfg a d K (write { cfg := cfg } b ra0) := by
    rw [hw]
    refine ⟨rfl, ⟨b + offset cfg.rate, 0, ra0, by simp, hb, by omega, by omega, Or.inr ⟨rfl, rfl, rfl, rfl⟩⟩, ?_⟩
    intro p hp; simp [nonFinal] at hp
  have := runFrom_mid H ras (write { cfg := cfg } b ra0) (b + d) hm
    ⟨ra0, by rw [hw]; simp; ring⟩
  exact this.nf

end Hls.PartDur
