import Hls.Muxer.TimeTsInv
/-!
# MPEG-TS: every segment's start DTS / NTP is that of one written unit (helper file for C03)

`Prov N s`: the (startDTS, startNTP) pair of every listed real segment and of the open segment of stream `s` is in the
list `N`.  Creating / rotating a segment at `(d, n)` adds exactly that pair; nothing else adds one.  Along an MPEG-TS run
the pairs added are `(toDur dts, ntp)` of the written video units and `(toDur pts, ntp)` of the written audio units —
for any results of the calls.
-/
namespace Hls.Muxer
open Hls.Gen Hls.Muxer.Accept

def Prov (N : List (Int × Int)) (s : StreamSt) : Prop :=
  (∀ g ∈ reals s.segments, (g.startDTS, g.startNTP) ∈ N) ∧ ∀ o, s.nextSegment = some o → (o.startDTS, o.startNTP) ∈ N

theorem Prov.mono {N N' : List (Int × Int)} {s : StreamSt} (h : Prov N s) (hs : ∀ x ∈ N, x ∈ N') : Prov N' s :=
  ⟨fun g hg => hs _ (h.1 g hg), fun o ho => hs _ (h.2 o ho)⟩

theorem Prov_of_eq {N : List (Int × Int)} {s r : StreamSt} (h : Prov N s) (h1 : r.segments = s.segments)
    (h2 : ∀ o', r.nextSegment = some o' → ∃ o, s.nextSegment = some o ∧ o'.startDTS = o.startDTS ∧ o'.startNTP = o.startNTP) :
    Prov N r := by
  refine ⟨by rw [h1]; exact h.1, fun o' ho' => ?_⟩
  obtain ⟨o, ho, e1, e2⟩ := h2 o' ho'
  rw [e1, e2]; exact h.2 o ho

theorem Prov_cfS {N : List (Int × Int)} {s : StreamSt} (h : Prov N s) (v : Variant) (d n : Int) :
    Prov ((d, n) :: N) (cfS v s d n) := by
  have e1 : (cfS v s d n).segments = s.segments := (cfS_fields v s d n).2.2.2.2.1
  have e2 : (cfS v s d n).nextSegment = some { id := s.nextSegmentID, startDTS := d, startNTP := n } := by
    unfold cfS; cases v <;> rfl
  refine ⟨fun g hg => List.mem_cons_of_mem _ (h.1 g (e1 ▸ hg)), fun o ho => ?_⟩
  rw [e2] at ho; cases ho; exact List.mem_cons_self

theorem Prov_rsS_ts {N : List (Int × Int)} {s : StreamSt} (h : Prov N s) (k : Nat) (c : List PartTrack) (d n : Int)
    (f : Bool) : Prov ((d, n) :: N) (rsS .mpegts k s c d n f) := by
  cases ho : s.nextSegment with
  | none => rw [rsS_none _ _ _ _ ho]; exact h.mono (fun x hx => List.mem_cons_of_mem _ hx)
  | some o =>
    obtain ⟨r, _⟩ := rsS_ts (n := k) c d n f ho
    refine ⟨fun g hg => ?_, fun o' ho' => ?_⟩
    · rw [r.segments] at hg
      have := mem_reals_trim hg
      rw [reals_appendSeg] at this
      rcases List.mem_append.1 this with h1 | h1
      · exact List.mem_cons_of_mem _ (h.1 g h1)
      · simp only [List.mem_singleton] at h1
        subst h1
        exact List.mem_cons_of_mem _ (h.2 o ho)
    · rw [r.nextSegment] at ho'; cases ho'; exact List.mem_cons_self

theorem Prov_twS {N : List (Int × Int)} {s : StreamSt} (h : Prov N s) (u size e c) : Prov N (twS s u size e c) := by
  unfold twS
  split
  · exact h
  · rename_i seg ho
    refine Prov_of_eq h rfl (fun o' ho' => ⟨seg, ho, ?_, ?_⟩)
    all_goals (cases ho'; simp only; split <;> split <;> rfl)

/-! ## state level (MPEG-TS: one stream, `GI st 0`) -/

theorem Prov_congr {N : List (Int × Int)} {st st' : State} (h : Prov N (st.stream 0)) (hs : st'.streams = st.streams) :
    Prov N (st'.stream 0) := by rw [stream_eq_of_streams hs]; exact h

theorem Prov_tsPre {N : List (Int × Int)} {st : State} (hg : GI st 0) (hv : st.cfg.variant = .mpegts)
    (h : Prov N (st.stream 0)) (d n : Int) (st' : State)
    (hst : st' = st ∨ st' = createFirstSegment st d n ∨ st' = rotateSegments st d n false) :
    Prov ((d, n) :: N) (st'.stream 0) := by
  rcases hst with e | e | e
  · rw [e]; exact h.mono (fun x hx => List.mem_cons_of_mem _ hx)
  · rw [e, (createFirstSegment_spec st d n).2.2 0 hg.lt]; exact Prov_cfS h _ d n
  · obtain ⟨_, _, _, hL, _⟩ := GI_rotateSegments hg d n false
    rw [e, hL, hv]; exact Prov_rsS_ts h _ _ d n false

theorem Prov_tsWrite {N : List (Int × Int)} {st st' : State} (h : Prov N (st.stream 0)) (u size e c) (r : WriteRes)
    (hw : tsWrite st u size e c = (st', r)) : Prov N (st'.stream 0) := by
  cases r with
  | err => rw [tsw_err st u size e c st' hw]; exact h
  | ok =>
    obtain ⟨e', hso⟩ := tsw_ok st u size e c st' hw
    have hs : st'.streams = st.streams.set 0 (twS (st.stream 0) u size e c) := by rw [e']; rfl
    rw [stream_of_set hs]
    split
    · exact Prov_twS h _ _ _ _
    · exact h

/-- the time stamp of an MPEG-TS write that decides the segment start: DTS for video, PTS for audio -/
def tsStamp (st : State) (op : WriteOp) : Int :=
  match (st.tcfg op.track).codec with
  | .h264 => toDur op.dts (st.tcfg op.track).clockRate
  | _ => toDur op.pts (st.tcfg op.track).clockRate

/-- one MPEG-TS write (H264 or AAC track) adds at most the pair of this call -/
theorem Prov_write_ts {N : List (Int × Int)} {st : State} (hg : GI st 0) (hv : st.cfg.variant = .mpegts)
    (h : Prov N (st.stream 0)) (op : WriteOp)
    (hcod : (st.tcfg op.track).codec = .h264 ∨ (st.tcfg op.track).codec = .aac) :
    Prov ((tsStamp st op, op.ntp) :: N) ((write st op).1.stream 0) := by
  have hmono : ∀ {s : StreamSt}, Prov N s → Prov ((tsStamp st op, op.ntp) :: N) s :=
    fun hp => hp.mono (fun x hx => List.mem_cons_of_mem _ hx)
  rw [write_eq]
  rcases hcod with hc | hc
  · simp only [hc]
    have hts : tsStamp st op = toDur op.dts (st.tcfg op.track).clockRate := by unfold tsStamp; rw [hc]
    have hps := paramsStep_frame st op.track op.par op.ra
    unfold wH264
    split
    · rw [h264Absorb_eq]
      exact hmono (Prov_congr h (paramsAbsorb_fields st op.track op.par).streams)
    · rcases wH264Gate_cases st (paramsStep st op.track op.par op.ra).1 op (paramsStep st op.track op.par op.ra).2
        with ⟨_, e⟩ | ⟨_, e⟩ | ⟨_, _, _, e⟩
      · rw [e]; exact hmono (Prov_congr h hps.2.1)
      · rw [e]; exact hmono (Prov_congr (st' := (paramsStep st op.track op.par op.ra).1.setTrack op.track _) h hps.2.1)
      · rw [e, setTrack_setTrack]
        generalize hst2 : (paramsStep st op.track op.par op.ra).1.setTrack op.track
          (h264T2 ((paramsStep st op.track op.par op.ra).1.track op.track) op) = st2
        have hc2 : st2.cfg = st.cfg := by rw [← hst2]; exact hps.1
        have hs2 : st2.streams = st.streams := by rw [← hst2]; exact hps.2.1
        have hg2 : GI st2 0 := GI_congr hg hc2 hs2
        have hv2 : st2.cfg.variant = .mpegts := by rw [hc2]; exact hv
        unfold wH264Emit
        rw [if_pos hv2]
        simp only
        have hpre : Prov ((tsStamp st op, op.ntp) :: N)
            ((tsVideoPre st2 op (paramsStep st op.track op.par op.ra).2 (toDur op.dts (st.tcfg op.track).clockRate)).stream 0) := by
          rw [hts]
          apply Prov_tsPre hg2 hv2 (Prov_congr h hs2)
          unfold tsVideoPre
          split
          · exact Or.inr (Or.inl rfl)
          · split
            · exact Or.inr (Or.inr rfl)
            · exact Or.inl rfl
        cases hw : tsWrite (tsVideoPre st2 op (paramsStep st op.track op.par op.ra).2 (toDur op.dts (st.tcfg op.track).clockRate))
            (h264Unit st op) (op.sizes.headD 0) (some (toDur op.dts (st.tcfg op.track).clockRate)) false with
        | mk st' r => exact Prov_tsWrite hpre _ _ _ _ r hw
  · simp only [hc]
    have hts : tsStamp st op = toDur op.pts (st.tcfg op.track).clockRate := by unfold tsStamp; rw [hc]
    unfold wAac
    simp only [hv, if_true]
    split
    · exact hmono h
    · have hpre : Prov ((tsStamp st op, op.ntp) :: N)
          ((tsAudioPre st op (toDur op.pts (st.tcfg op.track).clockRate)).stream 0) := by
        rw [hts]
        apply Prov_tsPre hg hv h
        unfold tsAudioPre
        split
        · split
          · exact Or.inr (Or.inl rfl)
          · split
            · exact Or.inr (Or.inr rfl)
            · exact Or.inl rfl
        · exact Or.inl rfl
      cases hw : tsWrite (tsAudioPre st op (toDur op.pts (st.tcfg op.track).clockRate)) (aacUnit st op) (sumSizes op.sizes)
          (if st.isLeadingTrack op.track = true then some (toDur op.pts (st.tcfg op.track).clockRate) else none)
          (st.isLeadingTrack op.track) with
      | mk st' r => exact Prov_tsWrite hpre _ _ _ _ r hw

/-- the pairs a list of writes can introduce (time stamps converted with the track's clock rate) -/
def tsPairs (st : State) (ops : List WriteOp) : List (Int × Int) := ops.map fun op => (tsStamp st op, op.ntp)

theorem tsStamp_congr {st st' : State} (h : st'.cfg = st.cfg) (op : WriteOp) : tsStamp st' op = tsStamp st op := by
  unfold tsStamp; rw [tcfg_congr h]

theorem Prov_run_ts : ∀ (ops : List WriteOp) {st : State} {N : List (Int × Int)}, GI st 0 →
    st.cfg.variant = .mpegts →
    (∀ op ∈ ops, (st.tcfg op.track).codec = .h264 ∨ (st.tcfg op.track).codec = .aac) →
    Prov N (st.stream 0) → Prov (tsPairs st ops ++ N) ((run st ops).stream 0) := by
  intro ops
  induction ops with
  | nil => intro st N _ _ _ h; exact h
  | cons op r ih =>
    intro st N hg hv hcod h
    have hs := Step_write hg op
    have h1 := Prov_write_ts hg hv h op (hcod op List.mem_cons_self)
    have h2 := ih hs.gi (by rw [hs.cfg]; exact hv)
      (fun o ho => by rw [tcfg_congr hs.cfg]; exact hcod o (List.mem_cons_of_mem _ ho)) h1
    refine h2.mono ?_
    intro x hx
    simp only [tsPairs, List.map_cons, List.mem_append, List.mem_cons, List.mem_map] at hx ⊢
    rcases hx with ⟨o, ho, e⟩ | e | e
    · exact Or.inl (Or.inr ⟨o, ho, by rw [← e, tsStamp_congr hs.cfg]⟩)
    · exact Or.inl (Or.inl e)
    · exact Or.inr e


/-- reachable MPEG-TS states: every listed and the open segment start at the (DTS, NTP) of one of the writes -/
theorem reach_Prov_ts {cfg0 : Cfg} {st0 : State} (hstart : start cfg0 = .ok st0) (hv : cfg0.variant = .mpegts)
    (ops : List WriteOp) (hin : InRange cfg0 ops = true) :
    Prov (tsPairs st0 ops) ((run st0 ops).stream 0) := by
  obtain ⟨hcfg, hne, hcnt, htr, hstr, hts⟩ := start_form_ts cfg0 st0 hstart hv
  have hv0 : st0.cfg.variant = .mpegts := by rw [hcfg]; exact hv
  have hg := GI_start hstart
  have hL : st0.streamOf (leadingIdx st0.cfg.tracks) = 0 := by unfold State.streamOf; rw [hv0]
  rw [hL] at hg
  have hcod : ∀ op ∈ ops, (st0.tcfg op.track).codec = .h264 ∨ (st0.tcfg op.track).codec = .aac := by
    intro op hop
    have hk : op.track < cfg0.tracks.length := by
      have := List.all_eq_true.mp hin op hop
      simpa using this
    have : st0.tcfg op.track = cfg0.tracks[op.track] := by
      simp [State.tcfg, hcfg, Cfg.withDefaults, List.getD_eq_getElem?_getD, hk]
    rw [this]
    exact tsCheck_codecs _ _ _ hts _ (List.getElem_mem hk)
  have h0 : Prov [] (st0.stream 0) := by
    have hs0 : st0.stream 0 = { tracks := List.range cfg0.tracks.length, isLeading := true, nextSegmentID := 0 } := by
      simp [State.stream, hstr]
    rw [hs0]
    exact ⟨fun g hg => by simp [reals] at hg, fun o ho => by cases ho⟩
  have := Prov_run_ts ops hg hv0 hcod h0
  simpa using this

end Hls.Muxer
