import Hls.Muxer.AcceptSpec
/-!
# C01 — the observable output of a muxer run (ghost history) and the hypotheses of the theorems

`Model.lean` is not modified. The history of finished segments is threaded NEXT TO the model's `run`:
`runLog si` performs exactly the model's writes (`runLog_state`) and, after every unit that passes through
`fmp4WriteSample` (resp. after every MPEG-TS write), looks at stream `si`: when its segment counter has
advanced, the segment that now sits at the tail of the playlist window is appended to the log. Segments
leave the window later (`SegmentCount`); the log keeps them, so "none lost" is stated about everything
that was ever published, not only about what is still retained.
-/
namespace Hls.Muxer.Accept
open Hls.Muxer

/-- the finished segment at the tail of a stream's window (gaps are not segments) -/
def lastSeg : List Entry → List Seg
  | [] => []
  | [.seg g] => [g]
  | [.gap _] => []
  | _ :: e :: es => lastSeg (e :: es)

/-- ghost observation of stream `si` across one step -/
def obs (si : Nat) (before after : State) (log : List Seg) : List Seg :=
  if (after.stream si).nextSegmentID ≠ (before.stream si).nextSegmentID then log ++ lastSeg (after.stream si).segments
  else log

/-- `fmp4WriteMany`, observing after every unit -/
def fmp4WriteManyLog (si : Nat) (st : State) (log : List Seg) (ti : Nat) : List Sample → State × List Seg × WriteRes
  | [] => (st, log, .ok)
  | s :: rest =>
    match fmp4Write st ti true false s with
    | (st', .err) => (st', obs si st st' log, .err)
    | (st', .ok) => fmp4WriteManyLog si st' (obs si st st' log) ti rest

/-- `write`, observing stream `si` (multi-unit audio calls are observed unit by unit) -/
def writeLog (si : Nat) (st : State) (log : List Seg) (op : WriteOp) : State × List Seg × WriteRes :=
  let tc := st.tcfg op.track
  match tc.codec with
  | .opus => fmp4WriteManyLog si st log op.track (buildOpus op.pays op.sizes op.durs op.pts op.ntp)
  | .aac =>
    if st.cfg.variant = .mpegts then let r := write st op; (r.1, obs si st r.1 log, r.2)
    else fmp4WriteManyLog si st log op.track (buildAac op.pts op.ntp tc.clockRate tc.sampleRate 0 op.pays op.sizes)
  | _ => let r := write st op; (r.1, obs si st r.1 log, r.2)

def runLog (si : Nat) (st : State) (log : List Seg) : List WriteOp → State × List Seg
  | [] => (st, log)
  | op :: ops => let r := writeLog si st log op; runLog si r.1 r.2.1 ops

/-! ## Hypotheses (all decidable) -/

/-- every call returns nil -/
def AllOk (st : State) : List WriteOp → Bool
  | [] => true
  | op :: ops => (write st op).2 = .ok && AllOk (write st op).1 ops

/-- every call names a track of the muxer (the Go API takes `*Track` values of the muxer) -/
def InRange (cfg : Cfg) (ops : List WriteOp) : Bool := ops.all fun op => op.track < cfg.tracks.length

/-- the units written to track `t`, in writing order, before any drop rule -/
def unitsOn (cfg : Cfg) (ops : List WriteOp) (t : Nat) : List AU :=
  ops.flatMap fun op => if op.track = t then unitsOf (trackCfg cfg t) op else []

def nondecreasing : List Int → Bool
  | a :: b :: rest => a ≤ b && nondecreasing (b :: rest)
  | _ => true

/-- per-track non-decreasing DTS -/
def Monotone (cfg : Cfg) (ops : List WriteOp) : Bool :=
  (List.range cfg.tracks.length).all fun t => nondecreasing ((unitsOn cfg ops t).map (·.dts))

/-- consecutive units are less than 2^32 ticks apart (`sample.Duration` is a `uint32`) -/
def gapsOk : List Int → Bool
  | a :: b :: rest => (a ≤ b && b - a < 4294967296) && gapsOk (b :: rest)
  | _ => true

/-! ## The observable output (fMP4 variants: stream `t` carries exactly track `t`) -/

def partTracks (ps : List Part) : List PartTrack := ps.flatMap (·.content)

def openStored (st : State) (si : Nat) : List Part :=
  match (st.stream si).nextSegment with
  | some g => g.stored
  | none => []

/-- every fragment (`moof` track run) of stream `t` that was ever finalized: all finished segments, then
the finalized parts of the open segment -/
def fragments (log : List Seg) (st : State) (t : Nat) : List PartTrack :=
  partTracks (log.flatMap (·.stored)) ++ partTracks (openStored st t)

/-- samples already finalized into a fragment -/
def emitted (log : List Seg) (st : State) (t : Nat) : List Sample := (fragments log st t).flatMap (·.samples)

/-- the part being built -/
def openPart (st : State) (t : Nat) : List Sample := (st.track t).samples

/-- the unit that waits for its successor -/
def lookahead (st : State) (t : Nat) : List Sample := (st.track t).next.toList

/-- what a decoder reads from one fragment: decode times are the base time plus the running sum of durations -/
def decodeFrom : Int → List Sample → List (Nat × Int × Int × Bool)
  | _, [] => []
  | b, s :: rest => (s.pay, b, s.ptsOff, s.sync) :: decodeFrom (b + s.dur) rest

def decode (pt : PartTrack) : List (Nat × Int × Int × Bool) := decodeFrom pt.baseTime pt.samples

def endTime (pt : PartTrack) : Int := pt.baseTime + (pt.samples.map (·.dur)).sum

def shiftKey (off : Int) (u : AU) : Nat × Int × Int × Bool := (u.pay, u.dts + off, u.ptsOff, u.sync)
def shiftAU (off : Int) (u : AU) : AU := { u with dts := u.dts + off }

/-! ## MPEG-TS -/

def tsOpen (st : State) : List TsUnit :=
  match (st.stream 0).nextSegment with
  | some g => g.tsUnits
  | none => []

def tsEmitted (log : List Seg) (st : State) : List TsUnit := log.flatMap (·.tsUnits) ++ tsOpen st

end Hls.Muxer.Accept
