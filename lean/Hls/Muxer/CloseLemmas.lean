import Hls.Muxer.Close
namespace Hls.Muxer

@[simp] theorem removeFile_streams (st : State) (k : PathKey) : (removeFile st k).streams = st.streams := rfl

theorem mem_removeFile {st : State} {k k' : PathKey} : k' ∈ (removeFile st k).files ↔ k' ∈ st.files ∧ k' ≠ k := by
  simp [removeFile]

/-- the fold over the listed entries keeps streams and removes exactly the listed real ids -/
theorem closeFold_spec (si : Nat) (es : List Entry) (st : State) :
    let st' := es.foldl (closeEntry si) st
    st'.streams = st.streams ∧
    ∀ k, k ∈ st'.files ↔ k ∈ st.files ∧ ∀ g, Entry.seg g ∈ es → k ≠ .seg si g.id := by
  induction es generalizing st with
  | nil => simp
  | cons e es ih =>
    cases e with
    | gap d =>
      have := ih st
      simp only [List.foldl_cons, closeEntry] at this ⊢
      refine ⟨this.1, fun k => ?_⟩
      rw [this.2 k]
      simp
    | seg g =>
      have := ih (removeFile st (.seg si g.id))
      simp only [List.foldl_cons, closeEntry] at this ⊢
      refine ⟨by simpa using this.1, fun k => ?_⟩
      rw [this.2 k, mem_removeFile]
      constructor
      · rintro ⟨⟨h1, h2⟩, h3⟩
        refine ⟨h1, fun g' hg' => ?_⟩
        simp only [List.mem_cons] at hg'
        rcases hg' with hg' | hg'
        · cases hg'; exact h2
        · exact h3 g' hg'
      · rintro ⟨h1, h2⟩
        exact ⟨⟨h1, h2 g (by simp)⟩, fun g' hg' => h2 g' (by simp [hg'])⟩

theorem closeStream_spec (st : State) (si : Nat) :
    (closeStream st si).streams = st.streams ∧
    ∀ k, k ∈ (closeStream st si).files ↔ k ∈ st.files ∧
      (∀ g, Entry.seg g ∈ (st.stream si).segments → k ≠ .seg si g.id) ∧
      (∀ g, (st.stream si).nextSegment = some g → k ≠ .seg si g.id) := by
  have hf := closeFold_spec si (st.stream si).segments st
  simp only at hf
  cases hn : (st.stream si).nextSegment with
  | none =>
    have e : closeStream st si = List.foldl (closeEntry si) st (st.stream si).segments := by
      simp only [closeStream, hn]
    rw [e]
    refine ⟨hf.1, fun k => ?_⟩
    rw [hf.2 k]
    simp
  | some g =>
    have e : closeStream st si = removeFile (List.foldl (closeEntry si) st (st.stream si).segments) (.seg si g.id) := by
      simp only [closeStream, hn]
    rw [e]
    refine ⟨by simpa using hf.1, fun k => ?_⟩
    rw [mem_removeFile, hf.2 k]
    constructor
    · rintro ⟨⟨h1, h2⟩, h3⟩
      exact ⟨h1, h2, fun g' hg' => by cases hg'; exact h3⟩
    · rintro ⟨h1, h2, h3⟩
      exact ⟨⟨h1, h2⟩, h3 g rfl⟩

theorem stream_eq_of_streams_eq {a b : State} (h : a.streams = b.streams) (si : Nat) : a.stream si = b.stream si := by
  simp [State.stream, h]

/-- folding `closeStream` over a list of stream indices -/
theorem closeFoldStreams_spec (is : List Nat) (st : State) :
    let st' := is.foldl closeStream st
    st'.streams = st.streams ∧
    ∀ k, k ∈ st'.files ↔ k ∈ st.files ∧ ∀ si ∈ is,
      (∀ g, Entry.seg g ∈ (st.stream si).segments → k ≠ .seg si g.id) ∧
      (∀ g, (st.stream si).nextSegment = some g → k ≠ .seg si g.id) := by
  induction is generalizing st with
  | nil => simp
  | cons i is ih =>
    have h1 := closeStream_spec st i
    have h2 := ih (closeStream st i)
    simp only [List.foldl_cons] at h2 ⊢
    refine ⟨h2.1.trans h1.1, fun k => ?_⟩
    rw [h2.2 k, h1.2 k]
    have hs : ∀ sj, (closeStream st i).stream sj = st.stream sj := stream_eq_of_streams_eq h1.1
    constructor
    · rintro ⟨⟨hk, ha, hb⟩, hrest⟩
      refine ⟨hk, fun si hsi => ?_⟩
      simp only [List.mem_cons] at hsi
      rcases hsi with rfl | hsi
      · exact ⟨ha, hb⟩
      · have := hrest si hsi
        simpa [hs] using this
    · rintro ⟨hk, hall⟩
      refine ⟨⟨hk, (hall i (by simp)).1, (hall i (by simp)).2⟩, fun si hsi => ?_⟩
      have := hall si (by simp [hsi])
      simpa [hs] using this

theorem close_spec (st : State) :
    (close st).streams = st.streams ∧
    ∀ k, k ∈ (close st).files ↔ k ∈ st.files ∧ ∀ si, si < st.streams.length →
      (∀ g, Entry.seg g ∈ (st.stream si).segments → k ≠ .seg si g.id) ∧
      (∀ g, (st.stream si).nextSegment = some g → k ≠ .seg si g.id) := by
  have := closeFoldStreams_spec (List.range st.streams.length) st
  unfold close
  refine ⟨this.1, fun k => ?_⟩
  rw [this.2 k]
  simp [List.mem_range]

end Hls.Muxer
