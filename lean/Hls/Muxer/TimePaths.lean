import Hls.Muxer.TimeStream
/-!
# Registered paths: the init segment (helper file for C02)
-/
namespace Hls.Muxer
open Hls.Gen

theorem find_filter_ne (ps : List (PathKey × Handler)) (k k' : PathKey) (hk : k' ≠ k) :
    List.find? (fun x => decide (x.1 = k')) (List.filter (fun x => decide (x.1 ≠ k)) ps) =
      List.find? (fun x => decide (x.1 = k')) ps := by
  induction ps with
  | nil => rfl
  | cons x xs ih =>
    by_cases hx : x.1 = k
    · have hx' : ¬ x.1 = k' := fun e => hk (e.symm.trans hx)
      rw [List.filter_cons_of_neg (by simp [hx]), List.find?_cons_of_neg (by simp [hx']), ih]
    · rw [List.filter_cons_of_pos (by simp [hx])]
      by_cases hx' : x.1 = k'
      · rw [List.find?_cons_of_pos (by simp [hx']), List.find?_cons_of_pos (by simp [hx'])]
      · rw [List.find?_cons_of_neg (by simp [hx']), List.find?_cons_of_neg (by simp [hx']), ih]

theorem find_filter_self (ps : List (PathKey × Handler)) (k : PathKey) :
    List.find? (fun x => decide (x.1 = k)) (List.filter (fun x => decide (x.1 ≠ k)) ps) = none := by
  rw [List.find?_eq_none]
  intro x hx
  have := (List.mem_filter.1 hx).2
  simpa using this

theorem lookup_regPath (ps : List (PathKey × Handler)) (k k' : PathKey) (h : Handler) :
    lookupPath (regPath ps k h) k' = if k' = k then some h else lookupPath ps k' := by
  unfold lookupPath regPath
  rw [List.find?_append]
  by_cases hk : k' = k
  · subst hk
    rw [find_filter_self]
    simp
  · rw [find_filter_ne ps k k' hk]
    have hk2 : ¬ k = k' := fun e => hk e.symm
    simp only [hk, if_false]
    cases List.find? (fun x => decide (x.1 = k')) ps <;> simp [hk2]

theorem lookup_unregPath (ps : List (PathKey × Handler)) (k k' : PathKey) :
    lookupPath (unregPath ps k) k' = if k' = k then none else lookupPath ps k' := by
  unfold lookupPath unregPath
  by_cases hk : k' = k
  · subst hk
    rw [find_filter_self]; simp
  · rw [find_filter_ne ps k k' hk]; simp [hk]

theorem lookup_unreg_parts (si : Nat) (parts : List Part) : ∀ (ps : List (PathKey × Handler)) (sj : Nat),
    lookupPath (parts.foldl (fun ps p => unregPath ps (.part si p.id)) ps) (.init sj) = lookupPath ps (.init sj) := by
  induction parts with
  | nil => intro ps sj; rfl
  | cons p r ih =>
    intro ps sj
    simp only [List.foldl_cons]
    rw [ih, lookup_unregPath]
    simp

/-- how the init lookups may evolve: unchanged, or a handler for exactly the stream's tracks -/
def IRel (st st' : State) : Prop :=
  (∀ si, (st'.stream si).tracks = (st.stream si).tracks) ∧
  (∀ si, lookupPath st'.paths (.init si) = lookupPath st.paths (.init si) ∨
    ∃ ps, lookupPath st'.paths (.init si) = some (.init ps) ∧ ps.length = (st.stream si).tracks.length)

theorem IRel.refl (st : State) : IRel st st := ⟨fun _ => rfl, fun _ => Or.inl rfl⟩
theorem IRel.trans {a b c : State} (h1 : IRel a b) (h2 : IRel b c) : IRel a c := by
  refine ⟨fun si => (h2.1 si).trans (h1.1 si), fun si => ?_⟩
  rcases h2.2 si with e | ⟨ps, e, hl⟩
  · rw [e]; exact h1.2 si
  · exact Or.inr ⟨ps, e, by rw [hl, h1.1 si]⟩

theorem IRel_of_same {st st' : State} (hs : ∀ si, (st'.stream si).tracks = (st.stream si).tracks)
    (hp : st'.paths = st.paths) : IRel st st' := ⟨hs, fun _ => Or.inl (by rw [hp])⟩

/-- every registered init handler lists exactly the stream's tracks -/
def InitOK (st : State) : Prop :=
  ∀ si h, lookupPath st.paths (.init si) = some h → ∃ ps, h = .init ps ∧ ps.length = (st.stream si).tracks.length

theorem IRel.initOK {st st' : State} (h : IRel st st') (hi : InitOK st) : InitOK st' := by
  intro si hh hl
  rcases h.2 si with e | ⟨ps, e, hlen⟩
  · rw [e] at hl
    obtain ⟨ps, e1, e2⟩ := hi si hh hl
    exact ⟨ps, e1, by rw [e2, h.1 si]⟩
  · rw [e] at hl; cases hl
    exact ⟨ps, rfl, by rw [hlen, h.1 si]⟩

theorem rpS_tracks (v s c d b) : (rpS v s c d b).tracks = s.tracks := by
  unfold rpS; split <;> rfl

theorem rsTailS_tracks (v n s d ntp f) : (rsTailS v n s d ntp f).tracks = s.tracks := by
  unfold rsTailS; split <;> rfl

theorem rsS_tracks (v n s c d ntp f) : (rsS v n s c d ntp f).tracks = s.tracks := by
  unfold rsS; rw [rsTailS_tracks]; split
  · exact rpS_tracks ..
  · rfl

theorem stream_tracks_of_set {st st' : State} {si : Nat} {s : StreamSt} (h : st'.streams = st.streams.set si s)
    (ht : s.tracks = (st.stream si).tracks) (j : Nat) : (st'.stream j).tracks = (st.stream j).tracks := by
  rw [stream_of_set h]
  split
  · rename_i hj; rw [ht, hj.1]
  · rfl

theorem rps_paths_init (st : State) (si : Nat) (d : Int) (b : Bool) (sj : Nat) :
    lookupPath (rotatePartsStream st si d b).paths (.init sj) = lookupPath st.paths (.init sj) := by
  rw [rotatePartsStream_eq]
  split
  · rename_i part seg _ _
    unfold rpCore
    simp only
    have hp := (fpState_onlyTracks st si).paths
    split
    · simp only
      rw [lookup_regPath, lookup_regPath, hp]
      simp
    · simp only; rw [hp]
  · rfl

theorem IRel_rps (st : State) (si : Nat) (d : Int) (b : Bool) : IRel st (rotatePartsStream st si d b) :=
  ⟨stream_tracks_of_set (rps_streams st si d b) (rpS_tracks ..), fun sj => Or.inl (rps_paths_init st si d b sj)⟩

/-- the init lookups after the second half of `rotateSegmentsStream` -/
theorem rsCore_paths_init (st : State) (si : Nat) (seg : Seg) (d n : Int) (f : Bool) (sj : Nat) :
    lookupPath (rsCore st si seg d n f).paths (.init sj) =
      if sj = si ∧ st.cfg.variant ≠ .mpegts ∧ (!(st.stream si).initPresent || seg.forced) = true then
        some (.init ((st.stream si).tracks.map fun t => (st.track t).params))
      else lookupPath st.paths (.init sj) := by
  unfold rsCore
  simp only
  -- paths after registering the segment and deleting the oldest one
  have hdel : ∀ (l : List Entry) (ps : List (PathKey × Handler)),
      lookupPath (rsDel st si (st.stream si) l ps).2.1 (.init sj) = lookupPath ps (.init sj) := by
    intro l ps
    unfold rsDel
    split
    · split
      · simp only; rw [lookup_unregPath, lookup_unreg_parts]; simp
      · rfl
      · rfl
    · rfl
  unfold rsInit
  by_cases hc : st.cfg.variant ≠ .mpegts ∧ (!(st.stream si).initPresent || (closeSeg seg d).forced) = true
  · rw [if_pos hc]
    simp only
    rw [lookup_regPath, hdel, lookup_regPath]
    by_cases hs : sj = si
    · subst hs
      have : (closeSeg seg d).forced = seg.forced := rfl
      rw [this] at hc
      simp [hc]
    · have : ¬ (PathKey.init sj = PathKey.init si) := by simpa using hs
      simp [this, hs]
  · rw [if_neg hc]
    simp only
    rw [hdel, lookup_regPath]
    have : (closeSeg seg d).forced = seg.forced := rfl
    rw [this] at hc
    have h2 : ¬ (sj = si ∧ st.cfg.variant ≠ .mpegts ∧ (!(st.stream si).initPresent || seg.forced) = true) :=
      fun h => hc h.2
    rw [if_neg h2]
    simp

theorem rsPre_paths_init (st : State) (si : Nat) (d : Int) (sj : Nat) :
    lookupPath (rsPre st si d).paths (.init sj) = lookupPath st.paths (.init sj) := by
  unfold rsPre; split
  · exact rps_paths_init ..
  · rfl

theorem rsPre_tracks (st : State) (si : Nat) (d : Int) (j : Nat) :
    ((rsPre st si d).stream j).tracks = (st.stream j).tracks := by
  unfold rsPre; split
  · exact (IRel_rps st si d false).1 j
  · rfl

theorem IRel_rss (st : State) (si : Nat) (d n : Int) (f : Bool) (hl : si < st.streams.length) :
    IRel st (rotateSegmentsStream st si d n f) := by
  refine ⟨stream_tracks_of_set (rss_streams st si d n f hl) (rsS_tracks ..), fun sj => ?_⟩
  rw [rotateSegmentsStream_eq]
  split
  · exact Or.inl (rsPre_paths_init st si d sj)
  · rename_i seg _
    rw [rsCore_paths_init]
    split
    · rename_i hc
      refine Or.inr ⟨_, rfl, ?_⟩
      rw [List.length_map, rsPre_tracks, hc.1]
    · exact Or.inl (rsPre_paths_init st si d sj)

end Hls.Muxer
