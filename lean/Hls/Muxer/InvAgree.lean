import Hls.Muxer.InvState
/-!
  The part of a stream's state that all streams of one muxer share (`core`), how one rotation changes it
  (`rotCore`, a function of the old core only — hence all streams stay in agreement), and the loop rule
  for the `foldl`s over the stream list.
-/
namespace Hls.Muxer

def Entry.shape (e : Entry) : Bool × Int := (e.isGap, e.duration)

/-- what every stream of one muxer agrees on -/
structure Core where
  nsid : Nat
  dc : Nat
  shape : List (Bool × Int)       -- (gap flag, duration) of every listed entry
  openStart : Option Int          -- start DTS of the open segment
  deriving DecidableEq, Repr

def core (s : StreamSt) : Core :=
  { nsid := s.nextSegmentID, dc := s.deleteCount, shape := s.segments.map Entry.shape,
    openStart := s.nextSegment.map (·.startDTS) }

/-- the window after appending an entry of duration `dur` -/
def appShape (cfg : Cfg) (shape : List (Bool × Int)) (dur : Int) : List (Bool × Int) :=
  (if cfg.variant = .ll ∧ shape.isEmpty then List.replicate llGapCount (true, dur) else shape) ++ [(false, dur)]

/-- one `rotateSegments` on the shared part -/
def rotCore (cfg : Cfg) (d : Int) (c : Core) : Core :=
  match c.openStart with
  | none => c
  | some start =>
    let app := appShape cfg c.shape (d - start)
    { nsid := c.nsid + 1
      dc := if app.length > cfg.segmentCount then c.dc + 1 else c.dc
      shape := if app.length > cfg.segmentCount then app.tail else app
      openStart := some d }

theorem map_shape_appended (cfg : Cfg) (segs : List Entry) (g : Seg) :
    (appended cfg segs g).map Entry.shape = appShape cfg (segs.map Entry.shape) g.duration := by
  unfold appended appShape
  simp only [List.map_append, List.map_cons, List.map_nil, List.isEmpty_map]
  split
  · simp [gaps, Entry.shape, Entry.isGap, Entry.duration]
  · simp [Entry.shape, Entry.isGap, Entry.duration]

theorem core_rotSegS (cfg : Cfg) (s : StreamSt) (g : Seg) (hg : s.nextSegment = some g)
    (d ntp : Int) (ip fc : Bool) (td : Int) :
    core (rotSegS cfg s g d ntp ip fc td) = rotCore cfg d (core s) := by
  have hm := map_shape_appended cfg s.segments { g with endDTS := d }
  have hl : (appended cfg s.segments { g with endDTS := d }).length =
      (appShape cfg (s.segments.map Entry.shape) (d - g.startDTS)).length := by
    rw [← List.length_map (f := Entry.shape), hm]; rfl
  have hd : ({ g with endDTS := d } : Seg).duration = d - g.startDTS := rfl
  rw [hd] at hm
  have hiff : overfull cfg (appended cfg s.segments { g with endDTS := d }) ↔
      (appShape cfg (s.segments.map Entry.shape) (d - g.startDTS)).length > cfg.segmentCount := by
    unfold overfull; rw [hl]
  simp only [core, rotCore, rotSegS, hg, Option.map_some]
  by_cases hov : overfull cfg (appended cfg s.segments { g with endDTS := d })
  · have hov' := hiff.mp hov
    simp only [hov, hov', if_true, List.map_tail, hm]
  · have hov' : ¬ (appShape cfg (s.segments.map Entry.shape) (d - g.startDTS)).length > cfg.segmentCount :=
      fun h => hov (hiff.mpr h)
    simp only [hov, hov', if_false, hm]

theorem core_rotPartsS (cfg : Cfg) (s : StreamSt) (g : Seg) (hg : s.nextSegment = some g) (part : Part)
    (cn : Bool) (d pt : Int) : core (rotPartsS cfg s g part cn d pt) = core s := by
  simp only [core, rotPartsS, hg, Option.map_some, partsSeg]
  split <;> rfl

theorem core_firstSegS (cfg : Cfg) (s : StreamSt) (d ntp : Int) :
    core (firstSegS cfg s d ntp) = { core s with openStart := some d } := by
  simp [core, firstSegS]

/-- leading stream index fixed by `Start` -/
def leadIdx (cfg : Cfg) : Nat := if cfg.variant = .mpegts then 0 else leadingIdx cfg.tracks

structure StructOK (st : State) : Prop where
  tracksNe : st.cfg.tracks ≠ []
  n : st.streams.length = if st.cfg.variant = .mpegts then 1 else st.cfg.tracks.length
  lead : ∀ i, i < st.streams.length → (st.stream i).isLeading = decide (i = leadIdx st.cfg)

theorem leadingIdx_lt {ts : List TrackCfg} (h : ts ≠ []) : leadingIdx ts < ts.length := by
  unfold leadingIdx
  cases hf : ts.findIdx? (·.codec.isVideo) with
  | none => exact List.length_pos_iff.mpr h
  | some i =>
    simp only
    have := List.findIdx?_eq_some_iff_getElem.mp hf
    exact this.1

theorem StructOK.leadIdx_lt {st : State} (h : StructOK st) : leadIdx st.cfg < st.streams.length := by
  rw [h.n]
  unfold leadIdx
  split
  · exact Nat.one_pos
  · exact leadingIdx_lt h.tracksNe

theorem StructOK.leadingStream {st : State} (h : StructOK st) : st.leadingStream = leadIdx st.cfg := by
  have hl := h.leadIdx_lt
  unfold State.leadingStream
  have hlead : ∀ i (hi : i < st.streams.length), st.streams[i].isLeading = decide (i = leadIdx st.cfg) := by
    intro i hi
    have := h.lead i hi
    simpa [State.stream, hi] using this
  cases hf : st.streams.findIdx? (·.isLeading) with
  | none =>
    exfalso
    rw [List.findIdx?_eq_none_iff] at hf
    have := hf _ (List.getElem_mem hl)
    rw [hlead _ hl] at this
    simp at this
  | some i =>
    simp only
    obtain ⟨hi, hp, _⟩ := List.findIdx?_eq_some_iff_getElem.mp hf
    rw [hlead i hi] at hp
    simpa using hp

/-- Loop rule for the `foldl` over `List.range streams.length` used by `createFirstSegment`,
    `rotateParts`, `rotateSegments`: `P` is a state invariant of the loop, `Q k` relates stream `k`
    before the loop and after it (iteration `k` touches only stream `k`, which is still the original one). -/
theorem foldl_streams {n : Nat} {f : State → Nat → State} {P : State → Prop} {Q : Nat → StreamSt → StreamSt → Prop}
    (st0 : State) (hn : st0.streams.length = n) (hP0 : P st0)
    (frame : ∀ st k, P st → st.streams.length = n → k < n →
      (f st k).streams.length = n ∧ ∀ j, j ≠ k → (f st k).stream j = st.stream j)
    (hP : ∀ st k, P st → st.streams.length = n → k < n → st.stream k = st0.stream k → P (f st k))
    (step : ∀ st k, P st → st.streams.length = n → k < n → st.stream k = st0.stream k →
      Q k (st0.stream k) ((f st k).stream k)) :
    P ((List.range n).foldl f st0) ∧ ((List.range n).foldl f st0).streams.length = n ∧
      ∀ k, k < n → Q k (st0.stream k) (((List.range n).foldl f st0).stream k) := by
  suffices h : ∀ m, m ≤ n →
      P ((List.range m).foldl f st0) ∧ ((List.range m).foldl f st0).streams.length = n ∧
      (∀ k, k < m → Q k (st0.stream k) (((List.range m).foldl f st0).stream k)) ∧
      (∀ k, m ≤ k → ((List.range m).foldl f st0).stream k = st0.stream k) by
    obtain ⟨a, b, c, _⟩ := h n (Nat.le_refl n)
    exact ⟨a, b, c⟩
  intro m
  induction m with
  | zero => intro _; exact ⟨hP0, hn, fun k hk => absurd hk (Nat.not_lt_zero k), fun _ _ => rfl⟩
  | succ m ih =>
    intro hm
    obtain ⟨a, b, c, e⟩ := ih (by omega)
    rw [List.range_succ, List.foldl_append]
    simp only [List.foldl_cons, List.foldl_nil]
    have hmn : m < n := by omega
    obtain ⟨f1, f2⟩ := frame _ m a b hmn
    have em := e m (Nat.le_refl m)
    refine ⟨hP _ m a b hmn em, f1, fun k hk => ?_, fun k hk => ?_⟩
    · by_cases hkm : k = m
      · subst hkm
        exact step _ k a b hmn em
      · rw [f2 k hkm]; exact c k (by omega)
    · rw [f2 k (by omega)]; exact e k (by omega)

end Hls.Muxer
