import Hls.Muxer.PathsInv
/-!
  Per-primitive preservation of the C05 invariant:
  `createFirstSegmentStream`, `rotatePartsStream`, `rotateSegmentsStream`, and stream updates that
  only touch fields C05 does not look at (`LocalEq`).
-/
namespace Hls.Muxer.Paths
open Hls.Muxer

/-- Updating one stream `si` (and the path entries of that stream) preserves the invariant, provided the
    new stream satisfies `SInv` and the paths of stream `si` are again exactly the registered ones. -/
theorem InvAt.update {mid mid' : Option Nat} {st st' : State} (hI : InvAt mid st) (si : Nat)
    (hcfg : st'.cfg = st.cfg) (hlen : st'.streams.length = st.streams.length)
    (hother : ∀ sj, sj ≠ si → st'.stream sj = st.stream sj)
    (hmid : ∀ sj, sj ≠ si → decide (mid' = some sj) = decide (mid = some sj))
    (hs : si < st.streams.length → SInv st.cfg.variant (decide (mid' = some si)) (st'.stream si))
    (hnd : (keys st'.paths).Nodup)
    (hframe : ∀ k, (∀ id, k ≠ .seg si id) → (∀ id, k ≠ .part si id) → k ≠ .init si →
        lookupPath st'.paths k = lookupPath st.paths k)
    (hinit1 : ∀ h, lookupPath st'.paths (.init si) = some h →
        (st'.stream si).initPresent = true ∧ ∃ ps, h = .init ps)
    (hinit2 : (st'.stream si).initPresent = true → ∃ ps, lookupPath st'.paths (.init si) = some (.init ps))
    (hseg : ∀ id h, lookupPath st'.paths (.seg si id) = some h ↔ RegSeg st.cfg.variant (st'.stream si) id h)
    (hpart : ∀ id h, lookupPath st'.paths (.part si id) = some h ↔ RegPart st.cfg.variant si (st'.stream si) id h) :
    InvAt mid' st' := by
  constructor
  · rw [hcfg]; exact hI.wf_tracks
  · rw [hcfg, hlen]; exact hI.wf_len
  · rw [hcfg]; exact hI.wf_count
  · intro sj hsj
    rw [hlen] at hsj
    rw [hcfg]
    by_cases e : sj = si
    · subst e; exact hs hsj
    · rw [hother sj e, hmid sj e]; exact hI.sinv sj hsj
  · exact hnd
  · rw [hframe _ (by simp) (by simp) (by simp)]; exact hI.p_index
  · intro sj; rw [hframe _ (by simp) (by simp) (by simp), hlen]; exact hI.p_playlist sj
  · intro sj h
    by_cases e : sj = si
    · subst e; exact hinit1 h
    · rw [hframe _ (by simp) (by simp) (by simp [e]), hother sj e]; exact hI.p_init_some sj h
  · intro sj
    by_cases e : sj = si
    · subst e; exact hinit2
    · rw [hframe _ (by simp) (by simp) (by simp [e]), hother sj e]; exact hI.p_init_pres sj
  · intro sj id h
    rw [hcfg]
    by_cases e : sj = si
    · subst e; exact hseg id h
    · rw [hframe _ (by simp [e]) (by simp) (by simp), hother sj e]; exact hI.p_seg sj id h
  · intro sj id h
    rw [hcfg]
    by_cases e : sj = si
    · subst e; exact hpart id h
    · rw [hframe _ (by simp) (by simp [e]) (by simp), hother sj e]; exact hI.p_part sj id h

/-! ### `LocalEq` updates -/

theorem InvAt.setStream_localEq {mid : Option Nat} {st : State} (hI : InvAt mid st) (si : Nat) (s' : StreamSt)
    (hl : LocalEq (st.stream si) s') : InvAt mid (st.setStream si s') := by
  by_cases hsi : si < st.streams.length
  · have hsame : (st.setStream si s').stream si = s' := stream_setStream_same st si s' hsi
    refine hI.update si rfl (setStream_length st si s') (fun sj e => stream_setStream_other st si sj s' e)
      (fun _ _ => rfl) ?_ hI.nodup (fun _ _ _ _ => rfl) ?_ ?_ ?_ ?_
    · intro _; rw [hsame]; exact (hI.sinv si hsi).congr hl
    · intro h hh; rw [hsame, hl.init]; exact hI.p_init_some si h hh
    · rw [hsame, hl.init]; exact hI.p_init_pres si
    · intro id h; rw [hsame, RegSeg.congr hl]; exact hI.p_seg si id h
    · intro id h; rw [hsame, RegPart.congr hl]; exact hI.p_part si id h
  · rw [setStream_oob st si s' (Nat.le_of_not_lt hsi)]; exact hI

/-! ### `createFirstSegmentStream` -/

theorem cfs_coreEq_oob (st : State) (si : Nat) (d n : Int) (h : st.streams.length ≤ si) :
    CoreEq st (createFirstSegmentStream st si d n) := by
  unfold createFirstSegmentStream
  simp only [setStream_oob st si _ h]
  exact ⟨rfl, rfl, rfl⟩

/-- the stream written by `createFirstSegmentStream` -/
def cfsStream (v : Variant) (s : StreamSt) (d n : Int) : StreamSt :=
  match v with
  | .mpegts => { s with nextSegment := some { id := s.nextSegmentID, startDTS := d, startNTP := n } }
  | _ => { s with nextSegment := some { id := s.nextSegmentID, startDTS := d, startNTP := n },
                  nextPart := some { id := s.nextPartID, startDTS := d } }

theorem cfs_eq (st : State) (si : Nat) (d n : Int) :
    createFirstSegmentStream st si d n =
      { (st.setStream si (cfsStream st.cfg.variant (st.stream si) d n)) with
        files := st.files ++ [.seg si (st.stream si).nextSegmentID] } := rfl

theorem cfs_sinv {v : Variant} {s : StreamSt} (d n : Int) (hI : SInv v false s) (hnone : s.nextSegment = none) :
    SInv v false (cfsStream v s d n) := by
  have hwS : winStored (cfsStream v s d n) = winStored s := by
    unfold winStored openStored realSegs cfsStream
    cases v <;> simp [hnone]
  constructor
  · intro g hg; unfold cfsStream at hg ⊢; cases v <;> simp at hg ⊢ <;> rw [← hg]
  · intro p hp; unfold cfsStream at hp ⊢
    cases v <;> simp at hp ⊢
    · exact hI.open_part_id p hp
    · rw [← hp]
    · rw [← hp]
  · intro hv; subst hv; exact hI.open_part_ts rfl
  · intro hv; unfold cfsStream; cases v <;> simp at hv ⊢; exact hI.ts_npid rfl
  · intro _ hv _; unfold cfsStream; cases v <;> simp at hv ⊢
  · intro hm; cases hm
  · intro i g hg; unfold cfsStream at hg ⊢; cases v <;> exact hI.seg_idx i g hg
  · intro hne; unfold cfsStream at hne ⊢; cases v <;> exact hI.seg_len hne
  · intro he; unfold cfsStream at he ⊢; cases v <;> exact hI.seg_empty he
  · rw [hwS]; unfold cfsStream; cases v <;> exact hI.part_ids
  · intro g hg; unfold cfsStream at hg; cases v <;> exact hI.parts_win g hg
  · intro g hg; unfold cfsStream at hg; cases v <;> simp at hg <;> subst hg <;> simp
  · intro hv g hg; subst hv; exact hI.stored_one rfl g hg
  · intro hv g hg; subst hv; unfold cfsStream at hg; simp at hg; subst hg; simp
  · intro hv hne; unfold cfsStream at hne ⊢; cases v <;> exact hI.init_present hv hne
  · intro hv hne; unfold cfsStream at hne ⊢; cases v <;> exact hI.hint_present hv hne

theorem cfs_localView {v : Variant} {s : StreamSt} (d n : Int) (hnone : s.nextSegment = none) :
    (cfsStream v s d n).segments = s.segments ∧ (cfsStream v s d n).initPresent = s.initPresent ∧
    (cfsStream v s d n).nextPartID = s.nextPartID ∧ winParts (cfsStream v s d n) = winParts s := by
  unfold winParts openParts realSegs cfsStream
  cases v <;> simp [hnone]

theorem cfs_inv {st : State} (si : Nat) (d n : Int) (hI : InvAt none st)
    (hnone : (st.stream si).nextSegment = none) : InvAt none (createFirstSegmentStream st si d n) := by
  by_cases hsi : si < st.streams.length
  · rw [cfs_eq]
    have hsame : ∀ f, ({ (st.setStream si (cfsStream st.cfg.variant (st.stream si) d n)) with files := f } : State).stream si
        = cfsStream st.cfg.variant (st.stream si) d n := fun _ => stream_setStream_same st si _ hsi
    obtain ⟨v1, v2, v3, v4⟩ := cfs_localView (v := st.cfg.variant) d n hnone
    refine hI.update si rfl (setStream_length st si _) (fun sj e => stream_setStream_other st si sj _ e)
      (fun _ _ => rfl) ?_ hI.nodup (fun _ _ _ _ => rfl) ?_ ?_ ?_ ?_
    · intro _; rw [hsame]; simpa using cfs_sinv d n (by simpa using hI.sinv si hsi) hnone
    · intro h hh; rw [hsame, v2]; exact hI.p_init_some si h hh
    · rw [hsame, v2]; exact hI.p_init_pres si
    · intro id h; rw [hsame]; unfold RegSeg; rw [v1]; exact hI.p_seg si id h
    · intro id h; rw [hsame]; unfold RegPart; rw [v3, v4]; exact hI.p_part si id h
  · exact hI.of_coreEq (cfs_coreEq_oob st si d n (Nat.le_of_not_lt hsi))

/-! ### `rotatePartsStream` -/

theorem finalizePart_core (st : State) (si : Nat) (p : Part) (e : Int) :
    CoreEq st (finalizePart st si p e).1 ∧ (finalizePart st si p e).2.id = p.id := by
  unfold finalizePart
  simp only
  suffices h : ∀ (l : List (Nat × Nat)) (acc : State × List PartTrack), CoreEq st acc.1 →
      CoreEq st (l.foldl (fun (acc : State × List PartTrack) (ti : Nat × Nat) =>
        match acc with
        | (st, c) =>
          match (st.track ti.1).samples with
          | [] => (st, c)
          | smp => (st.setTrack ti.1 { st.track ti.1 with samples := [] },
                    c ++ [{ id := 1 + ti.2, baseTime := (st.track ti.1).startDTS, samples := smp }])) acc).1 by
    exact ⟨h _ _ (CoreEq.refl st), trivial⟩
  intro l
  induction l with
  | nil => intro acc h; exact h
  | cons x l ih =>
    intro acc h
    rw [List.foldl_cons]
    apply ih
    obtain ⟨s0, c0⟩ := acc
    simp only
    split
    · exact h
    · exact h.trans (coreEq_setTrack _ _ _)

/-- the open segment after the finalized part was appended -/
def rpsSeg (v : Variant) (seg : Seg) (p : Part) : Seg :=
  if v = .ll then { seg with stored := seg.stored ++ [p], parts := seg.parts ++ [p] }
  else { seg with stored := seg.stored ++ [p] }

def rpsPaths (v : Variant) (ps : PL) (si : Nat) (p : Part) (n : Nat) : PL :=
  if v = .ll then regPath (regPath ps (.part si p.id) (.part p)) (.part si (n + 1)) (.hint si (n + 1)) else ps

def rpsStream (v : Variant) (s : StreamSt) (seg : Seg) (p : Part) (b : Bool) (d : Int) (ptd : Int) : StreamSt :=
  { s with nextPartID := s.nextPartID + 1,
           nextSegment := some (rpsSeg v seg p),
           nextPart := if b then some { id := s.nextPartID + 1, startDTS := d } else none,
           partTargetDur := ptd }

theorem rps_eq (st : State) (si : Nat) (d : Int) (b : Bool) (part : Part) (seg : Seg)
    (hp : (st.stream si).nextPart = some part) (hs : (st.stream si).nextSegment = some seg) :
    ∃ part' ptd, part'.id = part.id ∧
      (rotatePartsStream st si d b).cfg = st.cfg ∧
      (rotatePartsStream st si d b).paths = rpsPaths st.cfg.variant st.paths si part' (st.stream si).nextPartID ∧
      (rotatePartsStream st si d b).streams = st.streams.set si
        (rpsStream st.cfg.variant (st.stream si) seg part' b d ptd) := by
  obtain ⟨hc, hid⟩ := finalizePart_core st si part d
  unfold rotatePartsStream
  simp only [hp, hs]
  generalize finalizePart st si part d = r at hc hid
  obtain ⟨st1, part'⟩ := r
  simp only at hc hid
  have hs1 : st1.stream si = st.stream si := hc.stream si
  refine ⟨part', ?_⟩
  simp only [hs1, hc.cfg, hc.paths, State.setStream, hc.streams, rpsPaths, rpsSeg, rpsStream]
  by_cases hll : st.cfg.variant = .ll <;> by_cases hl : (st.stream si).isLeading = true
  all_goals simp only [hll, hl, if_true, if_false]
  all_goals (try simp only [Bool.false_eq_true, if_false])
  all_goals (repeat' split)
  all_goals exact ⟨_, hid, trivial, trivial, rfl⟩

theorem rps_noop (st : State) (si : Nat) (d : Int) (b : Bool)
    (h : (st.stream si).nextPart = none ∨ (st.stream si).nextSegment = none) :
    rotatePartsStream st si d b = st := by
  unfold rotatePartsStream
  rcases h with h | h
  · simp only [h]
  · simp only [h]
    split <;> simp_all

theorem rps_winStored (v : Variant) (s : StreamSt) (seg : Seg) (p : Part) (b : Bool) (d ptd : Int)
    (hs : s.nextSegment = some seg) :
    winStored (rpsStream v s seg p b d ptd) = winStored s ++ [p] := by
  unfold winStored openStored realSegs rpsStream rpsSeg
  by_cases hv : v = .ll <;> simp [hs, hv]

theorem rps_winParts (v : Variant) (s : StreamSt) (seg : Seg) (p : Part) (b : Bool) (d ptd : Int)
    (hs : s.nextSegment = some seg) :
    winParts (rpsStream v s seg p b d ptd) = if v = .ll then winParts s ++ [p] else winParts s := by
  unfold winParts openParts realSegs rpsStream rpsSeg
  by_cases hv : v = .ll <;> simp [hs, hv]

theorem rps_sinv {v : Variant} {s : StreamSt} {seg : Seg} {part p : Part} (b : Bool) (d ptd : Int)
    (hI : SInv v false s) (hp : s.nextPart = some part) (hs : s.nextSegment = some seg) (hid : p.id = part.id)
    (hb : b = true → v = .ll) :
    SInv v (!b) (rpsStream v s seg p b d ptd) := by
  have hv : v ≠ .mpegts := by
    intro e; have := hI.open_part_ts e; rw [hp] at this; cases this
  have hpid : p.id = s.nextPartID := hid.trans (hI.open_part_id part hp)
  have hsegs : (rpsStream v s seg p b d ptd).segments = s.segments := rfl
  constructor
  · intro g hg
    simp only [rpsStream, Option.some.injEq] at hg
    subst hg
    show (rpsSeg v seg p).id = s.nextSegmentID
    have : (rpsSeg v seg p).id = seg.id := by unfold rpsSeg; split <;> rfl
    rw [this]; exact hI.open_seg_id seg hs
  · intro q hq
    simp only [rpsStream] at hq
    cases b <;> simp at hq
    subst hq; rfl
  · intro e; exact absurd e hv
  · intro e; exact absurd e hv
  · intro hm _ _
    cases b <;> simp at hm
    simp [rpsStream]
  · intro hm
    cases b <;> simp at hm
    refine ⟨hv, rfl, rpsSeg v seg p, rfl, ?_⟩
    unfold rpsSeg; split <;> simp
  · intro i g hg; exact hI.seg_idx i g hg
  · intro hne; exact hI.seg_len hne
  · intro he; exact hI.seg_empty he
  · obtain ⟨lo, hids, hlo, _⟩ := hI.part_ids
    refine ⟨lo, ?_, ?_, ?_⟩
    · rw [rps_winStored v s seg p b d ptd hs, List.map_append, hids]
      simp only [List.map_cons, List.map_nil, hpid]
      show _ = List.range' lo (s.nextPartID + 1 - lo)
      have : s.nextPartID + 1 - lo = (s.nextPartID - lo) + 1 := by omega
      rw [this, List.range'_1_concat]
      congr 2; omega
    · show lo ≤ s.nextPartID + 1; omega
    · intro _; show lo < s.nextPartID + 1; omega
  · intro g hg; exact hI.parts_win g hg
  · intro g hg
    simp only [rpsStream, Option.some.injEq] at hg
    subst hg
    have := hI.parts_open seg hs
    unfold rpsSeg
    by_cases hll : v = .ll
    · simp only [hll, if_true] at this ⊢; rw [this]
    · simp only [hll, if_false] at this ⊢; exact this
  · intro e g hg; exact hI.stored_one e g hg
  · intro e g hg
    simp only [rpsStream, Option.some.injEq] at hg
    subst hg
    have h0 := hI.stored_open e seg hs
    have hb' : b = false := by
      cases b
      · rfl
      · have := hb rfl; rw [e] at this; cases this
    subst hb'
    simp only [Bool.false_eq_true, if_false] at h0
    have : v ≠ .ll := by rw [e]; decide
    simp [rpsSeg, this, h0]
  · intro _ hne; exact hI.init_present hv hne
  · intro _ _; show 0 < s.nextPartID + 1; omega

/-- lookups after `rotatePartsStream` registered the part and the next hint -/
theorem rps_lookup (v : Variant) (ps : PL) (si : Nat) (p : Part) (n : Nat) (k : PathKey) :
    lookupPath (rpsPaths v ps si p n) k =
      if v = .ll then
        (if k = .part si (n + 1) then some (.hint si (n + 1))
         else if k = .part si p.id then some (.part p) else lookupPath ps k)
      else lookupPath ps k := by
  unfold rpsPaths
  by_cases hv : v = .ll
  · simp only [hv, if_true, lookup_reg]
  · simp only [hv, if_false]

theorem rps_nodup (v : Variant) (ps : PL) (si : Nat) (p : Part) (n : Nat) (h : (keys ps).Nodup) :
    (keys (rpsPaths v ps si p n)).Nodup := by
  unfold rpsPaths
  split
  · exact nodup_reg _ _ _ (nodup_reg _ _ _ h)
  · exact h

theorem rps_inv {st : State} (si : Nat) (d : Int) (b : Bool) (hI : InvAt none st)
    (hb : b = true → st.cfg.variant = .ll) :
    InvAt (if b then none else
            (if (st.stream si).nextPart.isSome ∧ (st.stream si).nextSegment.isSome ∧ si < st.streams.length
             then some si else none))
      (rotatePartsStream st si d b) := by
  by_cases hsi : si < st.streams.length
  case neg =>
    have hso := stream_oob st si (Nat.le_of_not_lt hsi)
    rw [rps_noop st si d b (Or.inl (by rw [hso]))]
    simp only [hsi, and_false, if_false, ite_self]
    exact hI
  cases hp : (st.stream si).nextPart with
  | none =>
    rw [rps_noop st si d b (Or.inl hp)]
    simp only [Option.isSome_none, Bool.false_eq_true, false_and, if_false, ite_self]
    exact hI
  | some part =>
  cases hs : (st.stream si).nextSegment with
  | none =>
    rw [rps_noop st si d b (Or.inr hs)]
    simp only [Option.isSome_none, Bool.false_eq_true, false_and, and_false, if_false, ite_self]
    exact hI
  | some seg =>
  obtain ⟨p, ptd, hid, hcfg, hpaths, hstreams⟩ := rps_eq st si d b part seg hp hs
  have hSI : SInv st.cfg.variant false (st.stream si) := by simpa using hI.sinv si hsi
  have hpid : p.id = (st.stream si).nextPartID := hid.trans (hSI.open_part_id part hp)
  have hstr : ∀ sj, (rotatePartsStream st si d b).stream sj
      = (st.setStream si (rpsStream st.cfg.variant (st.stream si) seg p b d ptd)).stream sj := by
    intro sj; simp only [State.stream, hstreams, State.setStream]
  have hsame : (rotatePartsStream st si d b).stream si
      = rpsStream st.cfg.variant (st.stream si) seg p b d ptd := by
    rw [hstr, stream_setStream_same st si _ hsi]
  have hS' := rps_sinv b d ptd hSI hp hs hid hb
  have hmidEq : (decide ((if b = true then none else
      (if (some part).isSome = true ∧ (some seg).isSome = true ∧ si < st.streams.length then some si else none)) = some si))
      = !b := by
    cases b <;> simp [hsi]
  refine hI.update si hcfg (by rw [hstreams]; simp) (fun sj e => by rw [hstr, stream_setStream_other st si sj _ e])
    ?_ ?_ (by rw [hpaths]; exact rps_nodup _ _ _ _ _ hI.nodup) ?_ ?_ ?_ ?_ ?_
  · intro sj e
    have e' : ¬ si = sj := fun x => e x.symm
    cases b <;> simp [hsi, e']
  · intro _; rw [hsame, hmidEq]; exact hS'
  · intro k h1 h2 _
    rw [hpaths, rps_lookup]
    split
    · rw [if_neg (h2 _), if_neg (h2 _)]
    · rfl
  · intro h hh
    rw [hpaths, rps_lookup] at hh
    simp only [reduceCtorEq, if_false, ite_self] at hh
    rw [hsame]; exact hI.p_init_some si h hh
  · rw [hsame, hpaths, rps_lookup]
    simp only [reduceCtorEq, if_false, ite_self]
    exact hI.p_init_pres si
  · intro id h
    rw [hpaths, rps_lookup, hsame]
    simp only [reduceCtorEq, if_false, ite_self]
    exact hI.p_seg si id h
  · intro id h
    rw [hpaths, rps_lookup, hsame]
    have hold := hI.p_part si id h
    unfold RegPart at hold ⊢
    rw [rps_winParts _ _ _ _ _ _ _ hs]
    show _ ↔ _ ∧ (_ ∨ (id = (st.stream si).nextPartID + 1 ∧ _))
    by_cases hll : st.cfg.variant = .ll
    case neg =>
      simp only [hll, if_false, false_and, iff_false]
      simp only [hll, false_and, iff_false] at hold
      exact hold
    simp only [hll, if_true, true_and, PathKey.part.injEq] at hold ⊢
    have hwp : ∀ q, q ∈ winParts (st.stream si) → q.id < (st.stream si).nextPartID :=
      fun q hq => hSI.part_id_lt q hq
    have hS'' := hS'
    rw [hll] at hS''
    have hwp' : ∀ q, q ∈ winParts (st.stream si) ++ [p] → q.id < (st.stream si).nextPartID + 1 := by
      intro q hq
      have := hS''.part_id_lt q (by rw [rps_winParts _ _ _ _ _ _ _ hs]; simpa using hq)
      exact this
    by_cases e1 : id = (st.stream si).nextPartID + 1
    · subst e1
      simp only [true_and, if_true, Option.some.injEq]
      constructor
      · intro e; subst e; right; exact ⟨by omega, rfl⟩
      · rintro (⟨q, hq, hqid, _⟩ | ⟨_, rfl⟩)
        · have := hwp' q hq; omega
        · rfl
    · simp only [e1, false_and, if_false, or_false]
      by_cases e2 : id = p.id
      · subst e2
        simp only [if_true, Option.some.injEq]
        constructor
        · intro e; subst e; exact ⟨p, by simp, rfl, rfl⟩
        · rintro ⟨q, hq, hqid, rfl⟩
          have hq' : q ∈ winParts (rpsStream Variant.ll (st.stream si) seg p b d ptd) := by
            rw [rps_winParts _ _ _ _ _ _ _ hs]; simpa using hq
          have hp' : p ∈ winParts (rpsStream Variant.ll (st.stream si) seg p b d ptd) := by
            rw [rps_winParts _ _ _ _ _ _ _ hs]; simp
          rw [hS''.part_unique q p hq' hp' hqid]
      · simp only [e2, if_false]
        rw [hold]
        constructor
        · rintro (⟨q, hq, hqid, rfl⟩ | ⟨e, _⟩)
          · exact ⟨q, by simp [hq], hqid, rfl⟩
          · exact absurd (e.trans hpid.symm) e2
        · rintro ⟨q, hq, hqid, rfl⟩
          simp only [List.mem_append, List.mem_singleton] at hq
          rcases hq with hq | rfl
          · left; exact ⟨q, hq, hqid, rfl⟩
          · exact absurd hqid.symm e2

end Hls.Muxer.Paths
