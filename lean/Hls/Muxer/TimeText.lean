import Hls.Muxer.TimeArith
/-!
# What a reader of the playlist TEXT sees (helper file for C03, finding F26)

EXTINF is written with five decimals: a multiple `q` of 10 µs nearest to the nanosecond duration `d`
(`strconv.FormatFloat(sec,'f',5,64)`; a decimal tie may go either way — the envelope of `Playlist.Codec.Valid.fmt_dur`).
A reader rounds the text to whole seconds (`readerRound`), TARGETDURATION was computed from the nanoseconds
(`roundSeconds`).  The two agree unless `d mod 1 s ∈ [0.499995 s, 0.5 s)`, where the text reads `x.50000` and rounds up.
-/
namespace Hls.Muxer
open Hls.Gen

/-- `q` (in units of 10 µs) is an admissible 5-decimal rendering of `d` ns: within half a unit, ties either way -/
def TextOf (d q : Int) : Prop := q * 10000 ≤ d + 5000 ∧ d ≤ q * 10000 + 5000

/-- round-half-away-from-zero of `q · 10 µs` to whole seconds, as a reader of the text computes it -/
def readerRound (q : Int) : Int :=
  if q ≥ 0 then Int.tdiv (q + 50000) 100000 else - Int.tdiv (-q + 50000) 100000

/-- the window below the half second in which text and nanoseconds round differently (F26) -/
def inF26Window (d : Int) : Prop := 499995000 ≤ d % 1000000000 ∧ d % 1000000000 < 500000000

instance (d : Int) : Decidable (inF26Window d) := by unfold inF26Window; exact inferInstance

theorem textOf_exists (d : Int) : TextOf d ((d + 5000) / 10000) := by
  unfold TextOf; omega

theorem textOf_nonneg {d q : Int} (hd : 0 ≤ d) (h : TextOf d q) : 0 ≤ q := by
  unfold TextOf at h; omega

theorem roundSeconds_nonneg_eq {d : Int} (hd : 0 ≤ d) : roundSeconds d = (d + 500000000) / 1000000000 := by
  unfold roundSeconds S
  simp only [ge_iff_le, hd, if_true]
  have e : (1000000000 : Int) / 2 = 500000000 := by decide
  rw [e, Int.tdiv_eq_ediv_of_nonneg (by omega)]

theorem readerRound_nonneg_eq {q : Int} (hq : 0 ≤ q) : readerRound q = (q + 50000) / 100000 := by
  unfold readerRound
  simp only [ge_iff_le, hq, if_true]
  rw [Int.tdiv_eq_ediv_of_nonneg (by omega)]

/-- outside the window the reader's rounding of ANY admissible text value is `roundSeconds` of the nanoseconds -/
theorem text_round_eq {d q : Int} (hd : 0 ≤ d) (h : TextOf d q) (hw : ¬ inF26Window d) :
    readerRound q = roundSeconds d := by
  have hq := textOf_nonneg hd h
  rw [readerRound_nonneg_eq hq, roundSeconds_nonneg_eq hd]
  unfold TextOf at h
  unfold inF26Window at hw
  omega

/-- strictly inside the window every admissible text value rounds one second higher -/
theorem text_round_up {d q : Int} (hd : 0 ≤ d) (h : TextOf d q)
    (h1 : 499995000 < d % 1000000000) (h2 : d % 1000000000 < 500000000) :
    readerRound q = roundSeconds d + 1 := by
  have hq := textOf_nonneg hd h
  rw [readerRound_nonneg_eq hq, roundSeconds_nonneg_eq hd]
  unfold TextOf at h
  omega

/-- on the lower edge (a decimal tie) both renderings are admissible: one agrees, the other rounds up -/
theorem text_round_tie {d : Int} (hd : 0 ≤ d) (h1 : d % 1000000000 = 499995000) :
    (∀ q, TextOf d q → readerRound q = roundSeconds d ∨ readerRound q = roundSeconds d + 1) ∧
    (∃ q, TextOf d q ∧ readerRound q = roundSeconds d) ∧ (∃ q, TextOf d q ∧ readerRound q = roundSeconds d + 1) := by
  refine ⟨fun q h => ?_, ⟨(d - 5000) / 10000, ?_, ?_⟩, ⟨(d + 5000) / 10000, ?_, ?_⟩⟩
  · have hq := textOf_nonneg hd h
    rw [readerRound_nonneg_eq hq, roundSeconds_nonneg_eq hd]
    unfold TextOf at h
    omega
  · unfold TextOf; omega
  · rw [readerRound_nonneg_eq (by omega), roundSeconds_nonneg_eq hd]; omega
  · unfold TextOf; omega
  · rw [readerRound_nonneg_eq (by omega), roundSeconds_nonneg_eq hd]; omega

end Hls.Muxer
