import Hls.Muxer.Model
/-
  `Muxer.Close` / `muxerStream.close`, sequential effect on the files in `Directory`
  (the concurrent protocol of Close — flags, broadcast, waiters — is `Hls/Conc`, property C07).

  muxer_stream.go close():   for _, segment := range s.segments { segment.close() }      -- storage.Remove()
                             if s.nextPart != nil { s.nextPart.finalize(0) }
                             if s.nextSegment != nil { s.nextSegment.finalize(0); s.nextSegment.close() }
-/
namespace Hls.Muxer

def removeFile (st : State) (k : PathKey) : State := { st with files := st.files.filter (· ≠ k) }

/-- `segment.close()` of one listed entry (a gap has nothing to remove). -/
def closeEntry (si : Nat) (st : State) : Entry → State
  | .seg g => removeFile st (.seg si g.id)
  | .gap _ => st

/-- `muxerStream.close()` as far as files are concerned. -/
def closeStream (st : State) (si : Nat) : State :=
  let s := st.stream si
  let st := s.segments.foldl (closeEntry si) st
  match s.nextSegment with
  | some g => removeFile st (.seg si g.id)
  | none => st

/-- `Muxer.Close()`: every stream is closed. -/
def close (st : State) : State := (List.range st.streams.length).foldl closeStream st

end Hls.Muxer
