import Hls.Muxer.Model
/-!
  Generic list predicates used by the muxer invariants (C04 / C18):
  `Consec a l` (l = [a, a+1, …]), `GapsThenReals`, `MsnFrom` (entry at position i of the window
  has media sequence number n + i; real entries carry it as their id; gap entries lie below 7),
  and `length_le_of_nodup_subset`.
-/
namespace Hls.Muxer

/-! ### consecutive naturals -/

def Consec : Nat → List Nat → Prop
  | _, [] => True
  | a, x :: r => x = a ∧ Consec (a + 1) r

theorem Consec.append {a : Nat} {l : List Nat} {x : Nat} (h : Consec a l) (hx : x = a + l.length) :
    Consec a (l ++ [x]) := by
  induction l generalizing a with
  | nil => simp [Consec] at *; exact hx
  | cons y r ih =>
    simp only [Consec, List.cons_append] at *
    refine ⟨h.1, ih h.2 ?_⟩
    simp at hx; omega

theorem Consec.drop_prefix {a : Nat} {pre rest : List Nat} (h : Consec a (pre ++ rest)) :
    Consec (a + pre.length) rest := by
  induction pre generalizing a with
  | nil => simpa using h
  | cons y r ih =>
    simp only [Consec, List.cons_append] at h
    have := ih h.2
    simp only [List.length_cons]
    rwa [show a + (r.length + 1) = a + 1 + r.length by omega]

theorem Consec.get {a : Nat} {l : List Nat} (h : Consec a l) (i : Nat) (x : Nat) (hx : l[i]? = some x) :
    x = a + i := by
  induction l generalizing a i with
  | nil => simp at hx
  | cons y r ih =>
    cases i with
    | zero => simp at hx; simp [Consec] at h; omega
    | succ j =>
      simp at hx
      have := ih h.2 j hx
      omega

theorem Consec.suffix {a : Nat} {l l' : List Nat} (h : Consec a l) (hs : l' <:+ l) :
    Consec (a + (l.length - l'.length)) l' := by
  obtain ⟨pre, rfl⟩ := hs
  have := h.drop_prefix
  simpa using this

theorem Consec.lt_of_mem {a : Nat} {l : List Nat} (h : Consec a l) {x : Nat} (hx : x ∈ l) :
    a ≤ x ∧ x < a + l.length := by
  obtain ⟨i, hi, rfl⟩ := List.getElem_of_mem hx
  have := h.get i l[i] (by simp [hi])
  omega

/-! ### entries -/

def Entry.isGap : Entry → Bool
  | .gap _ => true
  | .seg _ => false

def Entry.parts : Entry → List Part
  | .gap _ => []
  | .seg g => g.parts

/-- gap entries only at the head -/
def GapsThenReals : List Entry → Prop
  | [] => True
  | .gap _ :: r => GapsThenReals r
  | .seg _ :: r => ∀ e ∈ r, e.isGap = false

theorem GapsThenReals.of_allReal {l : List Entry} (h : ∀ e ∈ l, e.isGap = false) : GapsThenReals l := by
  cases l with
  | nil => trivial
  | cons e r =>
    cases e with
    | gap d => simpa [Entry.isGap] using h (.gap d) (by simp)
    | seg g => exact fun e he => h e (by simp [he])

theorem GapsThenReals.tail {e : Entry} {r : List Entry} (h : GapsThenReals (e :: r)) : GapsThenReals r := by
  cases e with
  | gap d => exact h
  | seg g => exact GapsThenReals.of_allReal h

theorem GapsThenReals.append_seg {l : List Entry} (h : GapsThenReals l) (g : Seg) :
    GapsThenReals (l ++ [.seg g]) := by
  induction l with
  | nil => simp [GapsThenReals]
  | cons e r ih =>
    cases e with
    | gap d => exact ih h
    | seg g' =>
      intro e he
      simp at he
      rcases he with he | he
      · exact h e he
      · subst he; rfl

/-- `gs ++ rs` form of `GapsThenReals`. -/
theorem GapsThenReals.split {l : List Entry} (h : GapsThenReals l) :
    ∃ (gs : List Int) (rs : List Seg), l = gs.map Entry.gap ++ rs.map Entry.seg := by
  induction l with
  | nil => exact ⟨[], [], rfl⟩
  | cons e r ih =>
    cases e with
    | gap d =>
      obtain ⟨gs, rs, hr⟩ := ih h
      exact ⟨d :: gs, rs, by simp [hr]⟩
    | seg g =>
      have hall : ∀ e ∈ r, e.isGap = false := h
      obtain ⟨gs, rs, hr⟩ := ih (GapsThenReals.of_allReal hall)
      have : gs = [] := by
        cases gs with
        | nil => rfl
        | cons d gs' =>
          have := hall (.gap d) (by simp [hr])
          simp [Entry.isGap] at this
      subst this
      exact ⟨[], g :: rs, by simp [hr]⟩

/-- Entry at position i has media sequence number `n + i`: real entries carry it as id (and in
    every variant the gap entries occupy numbers below `llGapCount`). -/
def MsnFrom : Nat → List Entry → Prop
  | _, [] => True
  | n, .gap _ :: r => n < llGapCount ∧ MsnFrom (n + 1) r
  | n, .seg g :: r => g.id = n ∧ MsnFrom (n + 1) r

theorem MsnFrom.tail {n : Nat} {e : Entry} {r : List Entry} (h : MsnFrom n (e :: r)) : MsnFrom (n + 1) r := by
  cases e <;> exact h.2

theorem MsnFrom.append_seg {n : Nat} {l : List Entry} {g : Seg} (h : MsnFrom n l) (hg : g.id = n + l.length) :
    MsnFrom n (l ++ [.seg g]) := by
  induction l generalizing n with
  | nil => simpa [MsnFrom] using hg
  | cons e r ih =>
    have hg' : g.id = n + 1 + r.length := by simp at hg; omega
    cases e with
    | gap d => exact ⟨h.1, ih h.2 hg'⟩
    | seg g' => exact ⟨h.1, ih h.2 hg'⟩

theorem MsnFrom.get_seg {n : Nat} {l : List Entry} (h : MsnFrom n l) (i : Nat) (g : Seg)
    (hg : l[i]? = some (.seg g)) : g.id = n + i := by
  induction l generalizing n i with
  | nil => simp at hg
  | cons e r ih =>
    cases i with
    | zero =>
      simp at hg; subst hg; exact h.1
    | succ j =>
      simp at hg
      have := ih h.tail j hg
      omega

theorem MsnFrom.get_gap {n : Nat} {l : List Entry} (h : MsnFrom n l) (i : Nat) (d : Int)
    (hg : l[i]? = some (.gap d)) : n + i < llGapCount := by
  induction l generalizing n i with
  | nil => simp at hg
  | cons e r ih =>
    cases i with
    | zero =>
      simp at hg; subst hg; exact h.1
    | succ j =>
      simp at hg
      have := ih h.tail j hg
      omega

theorem MsnFrom.mem_seg {n : Nat} {l : List Entry} (h : MsnFrom n l) {g : Seg} (hg : .seg g ∈ l) :
    n ≤ g.id ∧ g.id < n + l.length := by
  obtain ⟨i, hi, he⟩ := List.getElem_of_mem hg
  have := h.get_seg i g (by simp [hi, he])
  omega

/-- two listed real entries with the same id are the same entry -/
theorem MsnFrom.inj {n : Nat} {l : List Entry} (h : MsnFrom n l) {g g' : Seg}
    (hg : .seg g ∈ l) (hg' : .seg g' ∈ l) (hid : g.id = g'.id) : g = g' := by
  obtain ⟨i, hi, he⟩ := List.getElem_of_mem hg
  obtain ⟨j, hj, he'⟩ := List.getElem_of_mem hg'
  have h1 := h.get_seg i g (by simp [hi, he])
  have h2 := h.get_seg j g' (by simp [hj, he'])
  have : i = j := by omega
  subst this
  rw [he] at he'
  exact Entry.seg.inj he'

theorem msnFrom_gaps (d : Int) : MsnFrom 0 (gaps d) := by
  simp [gaps, llGapCount, List.replicate, MsnFrom]

theorem gapsThenReals_gaps (d : Int) : GapsThenReals (gaps d) := by
  simp [gaps, llGapCount, List.replicate, GapsThenReals]

theorem length_gaps (d : Int) : (gaps d).length = 7 := by simp [gaps, llGapCount]

/-! ### finalized segments tile the timeline -/

/-- start DTS of the first real entry of `l`, or `e` when there is none -/
def firstStart : List Entry → Int → Int
  | [], e => e
  | .seg g :: _, _ => g.startDTS
  | .gap _ :: r, e => firstStart r e

/-- every listed real segment ends where the next one (or, for the last, the open segment starting at `e`) starts -/
def Tiled : List Entry → Int → Prop
  | [], _ => True
  | .gap _ :: r, e => Tiled r e
  | .seg g :: r, e => g.endDTS = firstStart r e ∧ Tiled r e

theorem Tiled.tail {x : Entry} {r : List Entry} {e : Int} (h : Tiled (x :: r) e) : Tiled r e := by
  cases x with
  | gap d => exact h
  | seg g => exact h.2

theorem firstStart_append_seg (l : List Entry) (g : Seg) (d : Int) :
    firstStart (l ++ [.seg g]) d = firstStart l g.startDTS := by
  induction l with
  | nil => rfl
  | cons x r ih =>
    cases x with
    | gap _ => exact ih
    | seg _ => rfl

theorem Tiled.append_seg {l : List Entry} {e : Int} (h : Tiled l e) (g : Seg) (hs : g.startDTS = e) :
    Tiled (l ++ [.seg g]) g.endDTS := by
  induction l with
  | nil => exact ⟨rfl, trivial⟩
  | cons x r ih =>
    cases x with
    | gap _ => exact ih h
    | seg g' =>
      refine ⟨?_, ih h.2⟩
      show g'.endDTS = firstStart (r ++ [.seg g]) g.endDTS
      rw [firstStart_append_seg, hs]; exact h.1

theorem tiled_gaps (d e : Int) : Tiled (gaps d) e := by
  simp [gaps, llGapCount, List.replicate, Tiled]

/-! ### counting -/

theorem length_le_of_nodup_subset {α} [DecidableEq α] :
    ∀ (l l' : List α), l.Nodup → (∀ x ∈ l, x ∈ l') → l.length ≤ l'.length := by
  intro l
  induction l with
  | nil => intro l' _ _; simp
  | cons a t ih =>
    intro l' hnd hsub
    have ha : a ∈ l' := hsub a (by simp)
    have hnd' := List.nodup_cons.mp hnd
    have := ih (l'.erase a) hnd'.2 (fun x hx => by
      have hne : x ≠ a := fun h => hnd'.1 (h ▸ hx)
      exact (List.mem_erase_of_ne hne).mpr (hsub x (by simp [hx])))
    rw [List.length_erase_of_mem ha] at this
    have : 0 < l'.length := List.length_pos_of_mem ha
    simp only [List.length_cons]
    omega

end Hls.Muxer
