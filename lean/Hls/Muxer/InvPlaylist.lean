import Hls.Muxer.InvStart
/-! What `mediaPlaylist` lists, in terms of the stream's window (used by C04 / C18). -/
namespace Hls.Muxer

theorem filterMap_zipIdx_all {α β} (l : List α) (m t : Nat) (ht : t ≤ m) (F : α → Nat → β) :
    (l.zipIdx m).filterMap (fun (x : α × Nat) => if x.2 < t then none else some (F x.1 x.2)) =
      (l.zipIdx m).map (fun x => F x.1 x.2) := by
  induction l generalizing m with
  | nil => simp
  | cons a r ih =>
    have h1 : ¬ m < t := by omega
    simp only [List.zipIdx_cons, List.filterMap_cons, h1, if_false, List.map_cons]
    rw [ih (m + 1) (by omega)]

/-- filtering out the first `k` positions of an indexed list = dropping `k` -/
theorem filterMap_zipIdx_drop {α β} (l : List α) (m k : Nat) (F : α → Nat → β) :
    (l.zipIdx m).filterMap (fun (x : α × Nat) => if x.2 < m + k then none else some (F x.1 x.2)) =
      ((l.zipIdx m).drop k).map (fun x => F x.1 x.2) := by
  induction k generalizing l m with
  | zero => simpa using filterMap_zipIdx_all l m m (Nat.le_refl m) F
  | succ k ih =>
    cases l with
    | nil => simp
    | cons a r =>
      have h1 : m < m + (k + 1) := by omega
      simp only [List.zipIdx_cons, List.filterMap_cons, h1, if_true, List.drop_succ_cons]
      have := ih r (m + 1)
      rw [show m + 1 + k = m + (k + 1) by omega] at this
      exact this


/-- playlist entry made from window entry `e` at position `i` of a window of length `n` -/
def plSegOf (si n : Nat) (isLL : Prop) [Decidable isLL] (e : Entry) (i : Nat) : PlSeg :=
  match e with
  | .seg g => { dur := g.duration, gap := false, key := some (.seg si g.id),
                pdt := if n - i ≤ 2 then some g.startNTP else none,
                parts := if isLL ∧ n - i ≤ 2 then g.parts.map (plPart si) else [] }
  | .gap d => { dur := d, gap := true, key := none, pdt := none, parts := [] }

/-- number of head entries a delta playlist replaces by EXT-X-SKIP -/
def skippedOf (s : StreamSt) (delta : Bool) : Nat :=
  if delta then s.segments.length - shownCount s.segments 0 (s.targetDur * 6 * S) else 0

theorem mp_mediaSeq (st : State) (si : Nat) (delta : Bool) :
    (mediaPlaylist st si delta).mediaSeq = (st.stream si).deleteCount := by
  unfold mediaPlaylist
  cases st.cfg.variant <;> rfl

theorem mp_segments_fmp4 (st : State) (si : Nat) (delta : Bool) (hv : st.cfg.variant ≠ .mpegts) :
    (mediaPlaylist st si delta).segments =
      (((st.stream si).segments.zipIdx).drop (skippedOf (st.stream si) delta)).map
        (fun x => plSegOf si (st.stream si).segments.length (st.cfg.variant = .ll) x.1 x.2) := by
  have key := filterMap_zipIdx_drop (st.stream si).segments 0 (skippedOf (st.stream si) delta)
    (fun e i => plSegOf si (st.stream si).segments.length (st.cfg.variant = .ll) e i)
  rw [← key]
  unfold mediaPlaylist
  cases hvv : st.cfg.variant with
  | mpegts => exact absurd hvv hv
  | fmp4 =>
    simp only [skippedOf, Nat.zero_add]
    apply congrArg (fun f => List.filterMap f _)
    funext x
    obtain ⟨e, i⟩ := x
    cases delta <;> cases e <;> simp [plSegOf]
  | ll =>
    simp only [skippedOf, Nat.zero_add]
    apply congrArg (fun f => List.filterMap f _)
    funext x
    obtain ⟨e, i⟩ := x
    cases delta <;> cases e <;> simp [plSegOf]


/-- the three attributes RFC 8216 ties to a media sequence number -/
def PlSeg.core (g : PlSeg) : Int × Bool × Option PathKey := (g.dur, g.gap, g.key)

def entryCore (si : Nat) (e : Entry) : Int × Bool × Option PathKey :=
  match e with
  | .seg g => (g.duration, false, some (.seg si g.id))
  | .gap d => (d, true, none)

theorem core_plSegOf (si n : Nat) (isLL : Prop) [Decidable isLL] (e : Entry) (i : Nat) :
    (plSegOf si n isLL e i).core = entryCore si e := by
  cases e <;> rfl

def tsSegOf (si : Nat) (e : Entry) : PlSeg :=
  match e with
  | .seg g => { dur := g.duration, gap := false, key := some (.seg si g.id), pdt := some g.startNTP, parts := [] }
  | .gap _ => { dur := (0:Int) - 0, gap := false, key := some (.seg si 0), pdt := some 0, parts := [] }

theorem mp_segments_ts {st : State} {si : Nat} (hI : StreamInv st.cfg (st.stream si)) (delta : Bool)
    (hv : st.cfg.variant = .mpegts) :
    (mediaPlaylist st si delta).segments = (st.stream si).segments.map (tsSegOf si) := by
  have hreal := hI.gapsLL (by rw [hv]; decide)
  unfold mediaPlaylist
  simp only [hv]
  show List.filterMap _ _ = _
  generalize (st.stream si).segments = l at hreal
  induction l with
  | nil => rfl
  | cons a r ih =>
    have ha := hreal a (by simp)
    cases a with
    | gap d => simp [Entry.isGap] at ha
    | seg g =>
      simp only [List.filterMap_cons, List.map_cons]
      rw [ih (fun e he => hreal e (by simp [he]))]
      rfl

/-- entry `j` of the playlist is window entry `j + skipped` (all variants; MPEG-TS lists the whole window) -/
theorem mp_get {st : State} {si : Nat} (hI : StreamInv st.cfg (st.stream si)) (delta : Bool) (j : Nat) :
    ((mediaPlaylist st si delta).segments[j]?).map PlSeg.core =
      ((st.stream si).segments[j + (if st.cfg.variant = .mpegts then 0 else skippedOf (st.stream si) delta)]?).map
        (entryCore si) := by
  by_cases hv : st.cfg.variant = .mpegts
  · simp only [hv, if_true, Nat.add_zero]
    have hreal := hI.gapsLL (by rw [hv]; decide)
    rw [mp_segments_ts hI delta hv, List.getElem?_map]
    cases hj : (st.stream si).segments[j]? with
    | none => rfl
    | some e =>
      cases e with
      | seg g => rfl
      | gap d =>
        have := hreal _ (List.mem_of_getElem? hj)
        simp [Entry.isGap] at this
  · simp only [hv, if_false]
    rw [mp_segments_fmp4 st si delta hv, List.getElem?_map, List.getElem?_drop, List.getElem?_zipIdx,
      show j + skippedOf (st.stream si) delta = skippedOf (st.stream si) delta + j from Nat.add_comm _ _]
    cases h : (st.stream si).segments[skippedOf (st.stream si) delta + j]? with
    | none => rfl
    | some e => simp [core_plSegOf]

theorem mp_length {st : State} {si : Nat} (hI : StreamInv st.cfg (st.stream si)) (delta : Bool) :
    (mediaPlaylist st si delta).segments.length =
      (st.stream si).segments.length - (if st.cfg.variant = .mpegts then 0 else skippedOf (st.stream si) delta) := by
  by_cases hv : st.cfg.variant = .mpegts
  · simp only [hv, if_true, Nat.sub_zero]
    rw [mp_segments_ts hI delta hv, List.length_map]
  · simp only [hv, if_false]
    rw [mp_segments_fmp4 st si delta hv]
    simp


theorem skippedOf_false (s : StreamSt) : skippedOf s false = 0 := rfl

/-- full (non-delta) playlist: entry `j` is window entry `j` -/
theorem mp_get_full {st : State} {si : Nat} (hI : StreamInv st.cfg (st.stream si)) (j : Nat) :
    ((mediaPlaylist st si false).segments[j]?).map PlSeg.core =
      ((st.stream si).segments[j]?).map (entryCore si) := by
  have := mp_get hI false j
  simpa [skippedOf_false] using this

theorem mp_length_full {st : State} {si : Nat} (hI : StreamInv st.cfg (st.stream si)) :
    (mediaPlaylist st si false).segments.length = (st.stream si).segments.length := by
  have := mp_length hI false
  simpa [skippedOf_false] using this

/-- If the window of `s'` is the window of `s` minus `k` head entries plus a tail, every surviving position
    carries the same (duration, gap flag, URI). The URI part uses "id = media sequence number". -/
theorem win_rel {cfg : Cfg} {si : Nat} {s s' : StreamSt} (hI : StreamInv cfg s) (hI' : StreamInv cfg s')
    {k : Nat} {new : List (Bool × Int)} (hs : (core s').shape = ((core s).shape ++ new).drop k)
    (hd : s'.deleteCount = s.deleteCount + k) (j : Nat) (hj : j + k < s.segments.length) :
    (s'.segments[j]?).map (entryCore si) = (s.segments[j + k]?).map (entryCore si) := by
  have h1 : (s'.segments[j]?).map Entry.shape = (s.segments[j + k]?).map Entry.shape := by
    have := congrArg (fun l => l[j]?) hs
    simp only [core, List.getElem?_map, List.getElem?_drop] at this
    rw [this, List.getElem?_append_left (by simpa using (by omega : k + j < s.segments.length)), List.getElem?_map,
      Nat.add_comm]
  have hlt : j + k < s.segments.length := hj
  rw [List.getElem?_eq_getElem hlt] at h1 ⊢
  cases h' : s'.segments[j]? with
  | none => rw [h'] at h1; simp at h1
  | some e' =>
    rw [h'] at h1
    simp only [Option.map_some, Option.some.injEq] at h1 ⊢
    have hm := hI.msn
    have hm' := hI'.msn
    cases e' with
    | gap d' =>
      cases he : s.segments[j + k] with
      | gap d => rw [he] at h1; simp [Entry.shape, Entry.isGap, Entry.duration] at h1; simp [entryCore, h1]
      | seg g => rw [he] at h1; simp [Entry.shape, Entry.isGap] at h1
    | seg g' =>
      cases he : s.segments[j + k] with
      | gap d => rw [he] at h1; simp [Entry.shape, Entry.isGap] at h1
      | seg g =>
        rw [he] at h1
        simp only [Entry.shape, Entry.isGap, Entry.duration, Prod.mk.injEq, true_and] at h1
        have i1 := hm'.get_seg j g' h'
        have i2 := hm.get_seg (j + k) g (by rw [List.getElem?_eq_getElem hlt, he])
        simp only [entryCore, h1, Prod.mk.injEq, true_and, Option.some.injEq, PathKey.seg.injEq]
        omega


/-- at most one rotation: at most one head entry leaves, at most one entry is appended
    (8 = 7 gaps + 1 when an empty Low-Latency window gets its first segment) -/
theorem CoreStep.window {cfg : Cfg} {c c' : Core} (h : CoreStep cfg c c') :
    ∃ (k : Nat) (new : List (Bool × Int)), k ≤ 1 ∧ c'.shape = (c.shape ++ new).drop k ∧ c'.dc = c.dc + k ∧
      k ≤ (c.shape ++ new).length ∧ (c.shape ≠ [] → new.length ≤ 1) ∧ new.length ≤ 8 := by
  rcases h with h | ⟨d, c0, h1, h2⟩
  · exact ⟨0, [], Nat.zero_le _, by simp [h.2], by simp [h.1], Nat.zero_le _, fun _ => Nat.zero_le _, Nat.zero_le _⟩
  · cases ho : c0.openStart with
    | none =>
      rw [rotCore_closed cfg d c0 ho] at h2
      have h := h1.trans h2
      exact ⟨0, [], Nat.zero_le _, by simp [h.2], by simp [h.1], Nat.zero_le _, fun _ => Nat.zero_le _, Nat.zero_le _⟩
    | some start =>
      obtain ⟨k, new, e1, e2, e3, e4, e5⟩ := rotCore_window cfg d c0 start ho
      refine ⟨k, new, e3, ?_, ?_, ?_, ?_, ?_⟩
      · rw [h2.2, e1, h1.2]
      · rw [h2.1, e2, h1.1]
      · rw [← h1.2]; exact e4
      · intro hne
        rw [← h1.2] at hne
        have : c0.shape.isEmpty = false := by
          cases hs : c0.shape with
          | nil => exact absurd hs hne
          | cons _ _ => rfl
        rw [e5]; simp [this]
      · rw [e5]
        split <;> simp [llGapCount]


/-- playlist-level reading of "window of `st'` = window of `st` minus `k` head entries plus `new`" -/
theorem playlists_of_window {st st' : State} {si : Nat} (hI : StreamInv st.cfg (st.stream si))
    (hI' : StreamInv st'.cfg (st'.stream si)) (hcfg : st'.cfg = st.cfg) {k : Nat} {new : List (Bool × Int)}
    (hs : (core (st'.stream si)).shape = ((core (st.stream si)).shape ++ new).drop k)
    (hd : (core (st'.stream si)).dc = (core (st.stream si)).dc + k)
    (hk : k ≤ ((core (st.stream si)).shape ++ new).length) :
    (mediaPlaylist st' si false).mediaSeq = (mediaPlaylist st si false).mediaSeq + k ∧
    (mediaPlaylist st' si false).segments.length + k = (mediaPlaylist st si false).segments.length + new.length ∧
    ∀ j, j + k < (mediaPlaylist st si false).segments.length →
      ((mediaPlaylist st' si false).segments[j]?).map PlSeg.core =
        ((mediaPlaylist st si false).segments[j + k]?).map PlSeg.core := by
  rw [mp_mediaSeq, mp_mediaSeq, mp_length_full hI, mp_length_full hI']
  refine ⟨hd, ?_, fun j hj => ?_⟩
  · have := congrArg List.length hs
    simp only [core, List.length_map, List.length_drop, List.length_append] at this hk
    omega
  · rw [mp_get_full hI', mp_get_full hI]
    rw [hcfg] at hI'
    exact win_rel hI hI' hs hd j hj

/-! ### parts -/

theorem Consec.eq_range' {a : Nat} {l : List Nat} (h : Consec a l) : l = List.range' a l.length := by
  induction l generalizing a with
  | nil => rfl
  | cons x r ih =>
    simp only [List.length_cons, List.range'_succ]
    rw [h.1, ← ih h.2]

/-- parts a playlist shows under window entry `x.1` at position `x.2` of a window of length `n` -/
def winPartsOf (n : Nat) (x : Entry × Nat) : List Part := if n - x.2 ≤ 2 then x.1.parts else []

theorem winParts_all (n : Nat) (l : List Entry) (m : Nat) (h : n - m ≤ 2) :
    (l.zipIdx m).flatMap (winPartsOf n) = l.flatMap Entry.parts := by
  induction l generalizing m with
  | nil => rfl
  | cons a r ih =>
    simp only [List.zipIdx_cons, List.flatMap_cons, winPartsOf, h, if_true]
    rw [← ih (m + 1) (by omega)]

theorem winParts_suffix (n : Nat) (l : List Entry) (m : Nat) :
    (l.zipIdx m).flatMap (winPartsOf n) <:+ l.flatMap Entry.parts := by
  induction l generalizing m with
  | nil => exact List.suffix_refl _
  | cons a r ih =>
    simp only [List.zipIdx_cons, List.flatMap_cons]
    by_cases h : n - m ≤ 2
    · rw [winParts_all n r (m + 1) (by omega)]
      simp only [winPartsOf, h, if_true]
      exact List.suffix_refl _
    · simp only [winPartsOf, h, if_false, List.nil_append]
      exact (ih (m + 1)).trans (List.suffix_append _ _)

theorem flatMap_congr' {α β} (l : List α) (f g : α → List β) (h : ∀ x ∈ l, f x = g x) :
    l.flatMap f = l.flatMap g := by
  induction l with
  | nil => rfl
  | cons a r ih =>
    simp only [List.flatMap_cons]
    rw [h a (by simp), ih (fun x hx => h x (by simp [hx]))]

theorem flatMap_drop_suffix {α β} (l : List α) (k : Nat) (f : α → List β) :
    (l.drop k).flatMap f <:+ l.flatMap f := by
  conv => rhs; rw [← List.take_append_drop k l]
  rw [List.flatMap_append]
  exact List.suffix_append _ _

theorem parts_plSegOf (si n : Nat) (e : Entry) (i : Nat) :
    (plSegOf si n True e i).parts = (winPartsOf n (e, i)).map (plPart si) := by
  cases e with
  | gap d => simp [plSegOf, winPartsOf, Entry.parts]
  | seg g =>
    simp only [plSegOf, winPartsOf, Entry.parts, true_and]
    split <;> simp

/-- Low-Latency: the parts a playlist itemises (under its segments, then of the open segment) are a suffix
    of the stream's parts list -/
theorem mp_parts_ll (st : State) (si : Nat) (delta : Bool) (hll : st.cfg.variant = .ll) :
    ∃ l, l <:+ allParts (st.stream si) ∧
      (mediaPlaylist st si delta).segments.flatMap (·.parts) ++ (mediaPlaylist st si delta).parts =
        l.map (plPart si) := by
  have hv : st.cfg.variant ≠ .mpegts := by rw [hll]; decide
  have hopen : (mediaPlaylist st si delta).parts = (openParts (st.stream si)).map (plPart si) := by
    unfold mediaPlaylist openParts
    simp only [hll]
    cases (st.stream si).nextSegment <;> simp
  rw [hopen, mp_segments_fmp4 st si delta hv]
  refine ⟨((st.stream si).segments.zipIdx.drop (skippedOf (st.stream si) delta)).flatMap
      (winPartsOf (st.stream si).segments.length) ++ openParts (st.stream si), ?_, ?_⟩
  · unfold allParts
    obtain ⟨t, ht⟩ := (flatMap_drop_suffix _ (skippedOf (st.stream si) delta) _).trans
      (winParts_suffix (st.stream si).segments.length (st.stream si).segments 0)
    exact ⟨t, by rw [← ht, List.append_assoc]⟩
  · rw [List.map_append, List.flatMap_map]
    congr 1
    rw [List.map_flatMap]
    apply flatMap_congr'
    intro x _
    simp only [hll]
    exact parts_plSegOf si _ x.1 x.2

end Hls.Muxer
