import Hls.Muxer.InvPlaylist
/-! Counting the path table (C18): every registered key is in an explicit list built from the windows. -/
namespace Hls.Muxer

def realKeys (si : Nat) (l : List Entry) : List PathKey :=
  l.filterMap fun e => match e with | .seg g => some (.seg si g.id) | .gap _ => none

/-- every key stream `si` may have registered -/
def streamKeys (si : Nat) (s : StreamSt) : List PathKey :=
  [.playlist si, .init si] ++ realKeys si s.segments ++ (allParts s).map (fun p => .part si p.id) ++ [.part si s.nextPartID]

def allowedList (st : State) : List PathKey :=
  .index :: (List.range st.streams.length).flatMap (fun si => streamKeys si (st.stream si))

theorem length_realKeys_le (si : Nat) (l : List Entry) : (realKeys si l).length ≤ l.length :=
  List.length_filterMap_le _ _

theorem mem_realKeys {si : Nat} {l : List Entry} {g : Seg} (h : .seg g ∈ l) : PathKey.seg si g.id ∈ realKeys si l := by
  unfold realKeys
  rw [List.mem_filterMap]
  exact ⟨.seg g, h, rfl⟩

theorem Allowed.mem_list {st : State} {k : PathKey} (h : Allowed st k) : k ∈ allowedList st := by
  unfold allowedList
  cases k with
  | index => simp
  | playlist s =>
    obtain ⟨hs, _⟩ := h
    simp only [List.mem_cons, List.mem_flatMap, List.mem_range]
    exact Or.inr ⟨s, hs, by simp [streamKeys]⟩
  | init s =>
    obtain ⟨hs, _⟩ := h
    simp only [List.mem_cons, List.mem_flatMap, List.mem_range]
    exact Or.inr ⟨s, hs, by simp [streamKeys]⟩
  | seg s id =>
    obtain ⟨hs, g, hg, rfl⟩ := h
    simp only [List.mem_cons, List.mem_flatMap, List.mem_range]
    refine Or.inr ⟨s, hs, ?_⟩
    simp only [streamKeys, List.mem_append]
    exact Or.inl (Or.inl (Or.inr (mem_realKeys hg)))
  | part s id =>
    obtain ⟨hs, _, hp⟩ := h
    simp only [List.mem_cons, List.mem_flatMap, List.mem_range]
    refine Or.inr ⟨s, hs, ?_⟩
    simp only [streamKeys, List.mem_append]
    rcases hp with hp | rfl
    · left; right
      simp only [List.mem_map] at hp ⊢
      obtain ⟨p, hp, rfl⟩ := hp
      exact ⟨p, hp, rfl⟩
    · right; simp

theorem length_allowedList (st : State) :
    (allowedList st).length =
      1 + ((List.range st.streams.length).map fun si =>
        3 + (realKeys si (st.stream si).segments).length + (allParts (st.stream si)).length).sum := by
  unfold allowedList
  simp only [List.length_cons, List.length_flatMap, streamKeys, List.length_append, List.length_map,
    List.length_nil]
  rw [Nat.add_comm]
  congr 2
  apply List.map_congr_left
  intro si _
  omega

theorem PathsOK.length_le {st : State} (h : PathsOK st) : st.paths.length ≤ (allowedList st).length := by
  have : st.paths.length = (keys st.paths).length := by simp [keys]
  rw [this]
  exact length_le_of_nodup_subset _ _ h.1 (fun k hk => (h.2 k hk).mem_list)

theorem lookupPath_none {ps : List (PathKey × Handler)} {k : PathKey} (h : k ∉ keys ps) : lookupPath ps k = none := by
  unfold lookupPath
  rw [Option.map_eq_none_iff, List.find?_eq_none]
  intro x hx
  simp only [decide_eq_true_eq]
  intro hk
  exact h (by unfold keys; exact List.mem_map.mpr ⟨x, hx, hk⟩)

theorem get_none_of_unregistered {st : State} {k : PathKey} (h : k ∉ keys st.paths) : get st k = .none := by
  unfold get
  rw [lookupPath_none h]

end Hls.Muxer
