import Hls.Muxer.TimeTs
/-!
# The init segment: which tracks it declares and when it is regenerated (helper file for C02)
-/
namespace Hls.Muxer
open Hls.Gen

theorem lookup_init_playlists (l : List Nat) : ∀ (ps : List (PathKey × Handler)) (si : Nat),
    lookupPath (l.foldl (fun ps i => regPath ps (.playlist i) (.mediaPlaylist i)) ps) (.init si) = lookupPath ps (.init si) := by
  induction l with
  | nil => intro ps si; rfl
  | cons x r ih =>
    intro ps si
    simp only [List.foldl_cons]
    rw [ih, lookup_regPath]
    simp

theorem InitOK_start {cfg0 : Cfg} {st : State} (h : start cfg0 = .ok st) : InitOK st := by
  rw [(start_ok h).eq]
  intro si hh hl
  unfold startState at hl
  simp only at hl
  rw [lookup_init_playlists, lookup_regPath] at hl
  simp [lookupPath] at hl

/-- in every reachable state every registered init handler lists exactly the stream's tracks -/
theorem reach_InitOK {cfg : Cfg} {st0 : State} (h0 : start cfg = .ok st0) (ops : List WriteOp) : InitOK (run st0 ops) :=
  (reach_step h0 ops).irel.initOK (InitOK_start h0)

/-- stream tracks never change -/
theorem reach_tracks {cfg : Cfg} {st0 : State} (h0 : start cfg = .ok st0) (ops : List WriteOp) (si : Nat) :
    ((run st0 ops).stream si).tracks = (st0.stream si).tracks := (reach_step h0 ops).irel.1 si

/-- rotating stream `sj` leaves the init of every other stream alone -/
theorem rss_init_other (st : State) (si sj : Nat) (d n : Int) (f : Bool) (hne : si ≠ sj) :
    lookupPath (rotateSegmentsStream st sj d n f).paths (.init si) = lookupPath st.paths (.init si) := by
  rw [rotateSegmentsStream_eq]
  split
  · exact rsPre_paths_init st sj d si
  · rw [rsCore_paths_init, if_neg (fun h => hne h.1)]
    exact rsPre_paths_init st sj d si

theorem rsPre_params (st : State) (si : Nat) (d : Int) (t : Nat) :
    ((rsPre st si d).track t).params = (st.track t).params := by
  unfold rsPre; split
  · rcases rps_track st si d false t with e | e <;> rw [e]; rfl
  · rfl

/-- **the init registered by a rotation carries the current parameters**: when stream `si` (fMP4 variants) is rotated
while no init exists yet or its open segment was opened by a forced rotation, the init registered in that step is
built from the parameters the stream's tracks have at that moment. -/
theorem rss_init {st : State} {si : Nat} (hl : si < st.streams.length) (hv : st.cfg.variant ≠ .mpegts)
    {o : Seg} {p : Part} (ho : (st.stream si).nextSegment = some o) (hp : (st.stream si).nextPart = some p)
    (hf : (st.stream si).initPresent = false ∨ o.forced = true) (d n : Int) (f : Bool) :
    lookupPath (rotateSegmentsStream st si d n f).paths (.init si) =
      some (.init ((st.stream si).tracks.map fun t => (st.track t).params)) := by
  have hpre := rsPre_streams st si d
  have hsi := stream_of_set_same hpre hl
  rw [if_pos hv] at hsi
  have r := rpS_some (v := st.cfg.variant) (fpContent st si) d false ho hp
  have hcfg : (rsPre st si d).cfg = st.cfg := (rsPre_sameCtl st si d).1
  rw [rotateSegmentsStream_eq]
  have hns : ((rsPre st si d).stream si).nextSegment = some (segWithPart st.cfg.variant o (closePart p (fpContent st si) d)) := by
    rw [hsi]; exact r.nextSegment
  simp only [hns]
  rw [rsCore_paths_init]
  have hc : si = si ∧ (rsPre st si d).cfg.variant ≠ .mpegts ∧
      (!((rsPre st si d).stream si).initPresent || (segWithPart st.cfg.variant o (closePart p (fpContent st si) d)).forced) = true := by
    refine ⟨rfl, by rw [hcfg]; exact hv, ?_⟩
    rw [hsi, r.initPresent]
    have : (segWithPart st.cfg.variant o (closePart p (fpContent st si) d)).forced = o.forced := rfl
    rw [this]
    rcases hf with h | h <;> simp [h]
  rw [if_pos hc, hsi, r.tracks]
  congr 2
  apply List.map_congr_left
  intro t _
  exact rsPre_params st si d t

/-- the same at muxer level, for the leading stream (rotated first; the other streams' rotations do not touch it) -/
theorem rotateSegments_init_lead {st : State} {L : Nat} (hg : GI st L) (hv : st.cfg.variant ≠ .mpegts)
    {o : Seg} {p : Part} (ho : (st.stream L).nextSegment = some o) (hp : (st.stream L).nextPart = some p)
    (hf : (st.stream L).initPresent = false ∨ o.forced = true) (d n : Int) (f : Bool) :
    lookupPath (rotateSegments st d n f).paths (.init L) =
      some (.init ((st.stream L).tracks.map fun t => (st.track t).params)) := by
  rw [rotateSegments_eq, hg.leadingStream]
  unfold leadThenOthers
  simp only
  have h1 := rss_init hg.lt hv ho hp hf d n f
  have hs1 := rss_streams st L d n f hg.lt
  have hL1 : ((rotateSegmentsStream st L d n f).stream L).isLeading = true := by
    rw [stream_of_set_same hs1 hg.lt, rsS_isLeading]; exact (hg.lead L hg.lt).2 rfl
  have := foldl_range_inv (fun st si =>
      if (st.stream si).isLeading then st
      else (rotateSegmentsStream st si d n f).setStream si
        { (rotateSegmentsStream st si d n f).stream si with
          targetDur := ((rotateSegmentsStream st si d n f).stream L).targetDur,
          partTargetDur := ((rotateSegmentsStream st si d n f).stream L).partTargetDur })
    (fun _ s => lookupPath s.paths (.init L) = lookupPath (rotateSegmentsStream st L d n f).paths (.init L) ∧
      (s.stream L).isLeading = true ∧ s.streams.length = (rotateSegmentsStream st L d n f).streams.length)
    (rotateSegmentsStream st L d n f) (rotateSegmentsStream st L d n f).streams.length ⟨rfl, hL1, rfl⟩ (by
      intro k s hk ⟨hp1, hl1, hlen⟩
      by_cases hkl : (s.stream k).isLeading = true
      · simp only [hkl, if_true]; exact ⟨hp1, hl1, hlen⟩
      · simp only [hkl, if_false, Bool.false_eq_true]
        have hne : L ≠ k := fun e => hkl (e ▸ hl1)
        have hks : k < s.streams.length := by rw [hlen]; exact hk
        have hsk := rss_streams s k d n f hks
        refine ⟨?_, ?_, ?_⟩
        · show lookupPath (rotateSegmentsStream s k d n f).paths (.init L) = _
          rw [rss_init_other s L k d n f hne]; exact hp1
        · rw [stream_of_set_other (st := rotateSegmentsStream s k d n f) rfl hne, stream_of_set_other hsk hne]
          exact hl1
        · simp only [setStream_streams, List.length_set, length_of_set hsk, hlen])
  rw [this.1, h1]

end Hls.Muxer
