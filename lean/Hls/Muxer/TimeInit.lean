import Hls.Muxer.TimeTs
/-!
# The init segment: which tracks it declares and when it is regenerated (helper file for C02)
-/
namespace Hls.Muxer
open Hls.Gen

theorem lookup_init_playlists (l : List Nat) : ∀ (ps : List (PathKey × Handler)) (si : Nat),
    lookupPath (l.foldl (fun ps i => regPath ps (.playlist i) (.mediaPlaylist i)) ps) (.init si) = lookupPath ps (.init si) := by
  induction l with
  | nil => intro ps si; rfl
  | cons x r ih =>
    intro ps si
    simp only [List.foldl_cons]
    rw [ih, lookup_regPath]
    simp

theorem InitOK_start {cfg0 : Cfg} {st : State} (h : start cfg0 = .ok st) : InitOK st := by
  rw [(start_ok h).eq]
  intro si hh hl
  unfold startState at hl
  simp only at hl
  rw [lookup_init_playlists, lookup_regPath] at hl
  simp [lookupPath] at hl

/-- in every reachable state every registered init handler lists exactly the stream's tracks -/
theorem reach_InitOK {cfg : Cfg} {st0 : State} (h0 : start cfg = .ok st0) (ops : List WriteOp) : InitOK (run st0 ops) :=
  (reach_step h0 ops).irel.initOK (InitOK_start h0)

/-- stream tracks never change -/
theorem reach_tracks {cfg : Cfg} {st0 : State} (h0 : start cfg = .ok st0) (ops : List WriteOp) (si : Nat) :
    ((run st0 ops).stream si).tracks = (st0.stream si).tracks := (reach_step h0 ops).irel.1 si

/-- rotating stream `sj` leaves the init of every other stream alone -/
theorem rss_init_other (st : State) (si sj : Nat) (d n : Int) (f : Bool) (hne : si ≠ sj) :
    lookupPath (rotateSegmentsStream st sj d n f).paths (.init si) = lookupPath st.paths (.init si) := by
  rw [rotateSegmentsStream_eq]
  split
  · exact rsPre_paths_init st sj d si
  · rw [rsCore_paths_init, if_neg (fun h => hne h.1)]
    exact rsPre_paths_init st sj d si

theorem rsPre_params (st : State) (si : Nat) (d : Int) (t : Nat) :
    ((rsPre st si d).track t).params = (st.track t).params := by
  unfold rsPre; split
  · rcases rps_track st si d false t with e | e <;> rw [e]; rfl
  · rfl

/-- **the init registered by a rotation carries the current parameters**: when stream `si` (fMP4 variants) is rotated
while no init exists yet or its open segment was opened by a forced rotation, the init registered in that step is
built from the parameters the stream's tracks have at that moment. -/
theorem rss_init {st : State} {si : Nat} (hl : si < st.streams.length) (hv : st.cfg.variant ≠ .mpegts)
    {o : Seg} {p : Part} (ho : (st.stream si).nextSegment = some o) (hp : (st.stream si).nextPart = some p)
    (hf : (st.stream si).initPresent = false ∨ o.forced = true) (d n : Int) (f : Bool) :
    lookupPath (rotateSegmentsStream st si d n f).paths (.init si) =
      some (.init ((st.stream si).tracks.map fun t => (st.track t).params)) := by
  have hpre := rsPre_streams st si d
  have hsi := stream_of_set_same hpre hl
  rw [if_pos hv] at hsi
  have r := rpS_some (v := st.cfg.variant) (fpContent st si) d false ho hp
  have hcfg : (rsPre st si d).cfg = st.cfg := (rsPre_sameCtl st si d).1
  rw [rotateSegmentsStream_eq]
  have hns : ((rsPre st si d).stream si).nextSegment = some (segWithPart st.cfg.variant o (closePart p (fpContent st si) d)) := by
    rw [hsi]; exact r.nextSegment
  simp only [hns]
  rw [rsCore_paths_init]
  have hc : si = si ∧ (rsPre st si d).cfg.variant ≠ .mpegts ∧
      (!((rsPre st si d).stream si).initPresent || (segWithPart st.cfg.variant o (closePart p (fpContent st si) d)).forced) = true := by
    refine ⟨rfl, by rw [hcfg]; exact hv, ?_⟩
    rw [hsi, r.initPresent]
    have : (segWithPart st.cfg.variant o (closePart p (fpContent st si) d)).forced = o.forced := rfl
    rw [this]
    rcases hf with h | h <;> simp [h]
  rw [if_pos hc, hsi, r.tracks]
  congr 2
  apply List.map_congr_left
  intro t _
  exact rsPre_params st si d t

/-- the same at muxer level, for the leading stream (rotated first; the other streams' rotations do not touch it) -/
theorem rotateSegments_init_lead {st : State} {L : Nat} (hg : GI st L) (hv : st.cfg.variant ≠ .mpegts)
    {o : Seg} {p : Part} (ho : (st.stream L).nextSegment = some o) (hp : (st.stream L).nextPart = some p)
    (hf : (st.stream L).initPresent = false ∨ o.forced = true) (d n : Int) (f : Bool) :
    lookupPath (rotateSegments st d n f).paths (.init L) =
      some (.init ((st.stream L).tracks.map fun t => (st.track t).params)) := by
  rw [rotateSegments_eq, hg.leadingStream]
  unfold leadThenOthers
  simp only
  have h1 := rss_init hg.lt hv ho hp hf d n f
  have hs1 := rss_streams st L d n f hg.lt
  have hL1 : ((rotateSegmentsStream st L d n f).stream L).isLeading = true := by
    rw [stream_of_set_same hs1 hg.lt, rsS_isLeading]; exact (hg.lead L hg.lt).2 rfl
  have := foldl_range_inv (fun st si =>
      if (st.stream si).isLeading then st
      else (rotateSegmentsStream st si d n f).setStream si
        { (rotateSegmentsStream st si d n f).stream si with
          targetDur := ((rotateSegmentsStream st si d n f).stream L).targetDur,
          partTargetDur := ((rotateSegmentsStream st si d n f).stream L).partTargetDur })
    (fun _ s => lookupPath s.paths (.init L) = lookupPath (rotateSegmentsStream st L d n f).paths (.init L) ∧
      (s.stream L).isLeading = true ∧ s.streams.length = (rotateSegmentsStream st L d n f).streams.length)
    (rotateSegmentsStream st L d n f) (rotateSegmentsStream st L d n f).streams.length ⟨rfl, hL1, rfl⟩ (by
      intro k s hk ⟨hp1, hl1, hlen⟩
      by_cases hkl : (s.stream k).isLeading = true
      · simp only [hkl, if_true]; exact ⟨hp1, hl1, hlen⟩
      · simp only [hkl, if_false, Bool.false_eq_true]
        have hne : L ≠ k := fun e => hkl (e ▸ hl1)
        have hks : k < s.streams.length := by rw [hlen]; exact hk
        have hsk := rss_streams s k d n f hks
        refine ⟨?_, ?_, ?_⟩
        · show lookupPath (rotateSegmentsStream s k d n f).paths (.init L) = _
          rw [rss_init_other s L k d n f hne]; exact hp1
        · rw [stream_of_set_other (st := rotateSegmentsStream s k d n f) rfl hne, stream_of_set_other hsk hne]
          exact hl1
        · simp only [setStream_streams, List.length_set, length_of_set hsk, hlen])
  rw [this.1, h1]


/-! ## every stream: the fold over the streams in `rotateSegments` -/

/-- a fold over the stream indices whose step `j` touches only stream `j` and only the value `val · j`:
afterwards `val · si` is what step `si` produced, on an intermediate state that still had the original stream `si` -/
theorem fold_range_val {β : Type} (F : State → Nat → State) (val : State → Nat → β)
    (R : State → State → Prop) (Rrefl : ∀ a, R a a) (Rtrans : ∀ a b c, R a b → R b c → R a c)
    (hF : ∀ s j, j < s.streams.length → R s (F s j) ∧ (F s j).streams.length = s.streams.length ∧
      (∀ i, i ≠ j → (F s j).stream i = s.stream i) ∧ (∀ i, i ≠ j → val (F s j) i = val s i))
    (st : State) : ∀ n, n ≤ st.streams.length →
      ((List.range n).foldl F st).streams.length = st.streams.length ∧ R st ((List.range n).foldl F st) ∧
      (∀ j, n ≤ j → ((List.range n).foldl F st).stream j = st.stream j) ∧
      ∀ si, si < n → ∃ st', R st st' ∧ st'.streams.length = st.streams.length ∧
        (∀ j, si ≤ j → st'.stream j = st.stream j) ∧ val ((List.range n).foldl F st) si = val (F st' si) si := by
  intro n
  induction n with
  | zero =>
    intro _
    simp only [List.range_zero, List.foldl_nil]
    exact ⟨trivial, Rrefl st, fun _ _ => trivial, fun si h => absurd h (Nat.not_lt_zero _)⟩
  | succ n ih =>
    intro hn
    obtain ⟨hlen, hR, hge, hlt⟩ := ih (Nat.le_of_succ_le hn)
    rw [List.range_succ, List.foldl_append]
    simp only [List.foldl_cons, List.foldl_nil]
    have hnl : n < ((List.range n).foldl F st).streams.length := by rw [hlen]; exact hn
    obtain ⟨r1, r2, r3, r4⟩ := hF ((List.range n).foldl F st) n hnl
    refine ⟨r2.trans hlen, Rtrans _ _ _ hR r1, ?_, ?_⟩
    · intro j hj; rw [r3 j (by omega)]; exact hge j (by omega)
    · intro si hsi
      by_cases hsn : si = n
      · subst hsn
        exact ⟨_, hR, hlen, fun j hj => hge j hj, rfl⟩
      · obtain ⟨st', h1, h2, h3, h4⟩ := hlt si (by omega)
        exact ⟨st', h1, h2, h3, by rw [r4 si hsn]; exact h4⟩

theorem frame_params {a b : State} (h : Frame a b) (t : Nat) : (b.track t).params = (a.track t).params := by
  rcases h.2.1 t with e | e <;> rw [e]; rfl

/-- **after a rotation every stream's init carries the current parameters**: muxer level, any stream `si` whose
open segment was opened by a forced rotation (or that has no init yet) -/
theorem rotateSegments_init_all {st : State} {L : Nat} (hg : GI st L) (hv : st.cfg.variant ≠ .mpegts)
    (si : Nat) (hsi : si < st.streams.length)
    {o : Seg} {p : Part} (ho : (st.stream si).nextSegment = some o) (hp : (st.stream si).nextPart = some p)
    (hf : (st.stream si).initPresent = false ∨ o.forced = true) (d n : Int) (f : Bool) :
    lookupPath (rotateSegments st d n f).paths (.init si) =
      some (.init ((st.stream si).tracks.map fun t => (st.track t).params)) := by
  by_cases hL : si = L
  · subst hL; exact rotateSegments_init_lead hg hv ho hp hf d n f
  rw [rotateSegments_eq, hg.leadingStream]
  unfold leadThenOthers
  simp only
  have hs1 := rss_streams st L d n f hg.lt
  have hlen1 : (rotateSegmentsStream st L d n f).streams.length = st.streams.length := length_of_set hs1
  have hf1 : Frame st (rotateSegmentsStream st L d n f) := rss_frame st L d n f
  obtain ⟨_, _, _, hlt⟩ := fold_range_val (fun st si =>
      if (st.stream si).isLeading then st
      else (rotateSegmentsStream st si d n f).setStream si
        { (rotateSegmentsStream st si d n f).stream si with
          targetDur := ((rotateSegmentsStream st si d n f).stream L).targetDur,
          partTargetDur := ((rotateSegmentsStream st si d n f).stream L).partTargetDur })
    (fun s i => lookupPath s.paths (.init i)) Frame Frame.refl (fun _ _ _ => Frame.trans)
    (by
      intro s j hj
      by_cases hl : (s.stream j).isLeading = true
      · simp only [hl, if_true]
        exact ⟨Frame.refl _, trivial, fun _ _ => trivial, fun _ _ => trivial⟩
      · simp only [hl, if_false, Bool.false_eq_true]
        have hsj := rss_streams s j d n f hj
        refine ⟨Frame.trans (rss_frame s j d n f) ⟨⟨rfl, rfl, rfl, rfl, rfl⟩, fun _ => Or.inl rfl, rfl⟩, ?_, ?_, ?_⟩
        · simp only [setStream_streams, List.length_set, length_of_set hsj]
        · intro i hi
          rw [stream_of_set_other (st := rotateSegmentsStream s j d n f) rfl hi, stream_of_set_other hsj hi]
        · intro i hi
          show lookupPath (rotateSegmentsStream s j d n f).paths (.init i) = _
          exact rss_init_other s i j d n f hi)
    (rotateSegmentsStream st L d n f) (rotateSegmentsStream st L d n f).streams.length (Nat.le_refl _)
  obtain ⟨st', h1, h2, h3, h4⟩ := hlt si (by rw [hlen1]; exact hsi)
  rw [h4]
  -- the intermediate state still has the original stream `si`
  have es : st'.stream si = st.stream si := (h3 si (Nat.le_refl _)).trans (stream_of_set_other hs1 hL)
  have hfr : Frame st st' := Frame.trans hf1 h1
  have hnl : ¬ (st'.stream si).isLeading = true := by
    rw [es]; intro hc; exact hL ((hg.lead si hsi).1 hc)
  simp only [hnl, if_false, Bool.false_eq_true]
  show lookupPath (rotateSegmentsStream st' si d n f).paths (.init si) = _
  have hsi' : si < st'.streams.length := by rw [h2, hlen1]; exact hsi
  rw [rss_init hsi' (by rw [hfr.cfg]; exact hv) (by rw [es]; exact ho) (by rw [es]; exact hp) (by rw [es]; exact hf) d n f, es]
  congr 2
  apply List.map_congr_left
  intro t _
  exact frame_params hfr t

end Hls.Muxer
