import Hls.Muxer.TimeStart
/-!
# Reachable states: consequences of the global invariant in index form (helper file for C02 / C03)
-/
namespace Hls.Muxer
open Hls.Gen

/-- index of the leading stream of a started muxer -/
def leadStream (st0 : State) : Nat := st0.streamOf (leadingIdx st0.cfg.tracks)

theorem run_append (st : State) (a b : List WriteOp) : run st (a ++ b) = run (run st a) b := by
  induction a generalizing st with
  | nil => rfl
  | cons x r ih => simp only [List.cons_append, run]; exact ih _

theorem reach_step {cfg : Cfg} {st0 : State} (h0 : start cfg = .ok st0) (ops : List WriteOp) :
    Step st0 (run st0 ops) (leadStream st0) := Step_run ops (GI_start h0)

theorem reach_GI {cfg : Cfg} {st0 : State} (h0 : start cfg = .ok st0) (ops : List WriteOp) :
    GI (run st0 ops) (leadStream st0) := (reach_step h0 ops).gi

theorem start_variant {cfg : Cfg} {st0 : State} (h0 : start cfg = .ok st0) : st0.cfg.variant = cfg.variant := by
  rw [(start_ok h0).eq]; rfl

theorem start_tracks {cfg : Cfg} {st0 : State} (h0 : start cfg = .ok st0) : st0.cfg.tracks = cfg.tracks := by
  rw [(start_ok h0).eq]; rfl

theorem run_cfg {cfg : Cfg} {st0 : State} (h0 : start cfg = .ok st0) (ops : List WriteOp) :
    (run st0 ops).cfg = st0.cfg := (reach_step h0 ops).cfg

theorem run_len {cfg : Cfg} {st0 : State} (h0 : start cfg = .ok st0) (ops : List WriteOp) :
    (run st0 ops).streams.length = st0.streams.length := (reach_step h0 ops).len

/-- index form of `Tiles` -/
theorem Tiles_index {α} {s e : α → Int} {l : List α} {a b : Int} (h : Tiles s e a l b) :
    (∀ x, l.head? = some x → s x = a) ∧
    (∀ k x y, l[k]? = some x → l[k+1]? = some y → e x = s y) ∧
    (∀ x, l.getLast? = some x → e x = b) ∧ (l = [] → a = b) :=
  ⟨Tiles_head h, Tiles_adjacent h, Tiles_last h, fun hl => by subst hl; exact h⟩

end Hls.Muxer
