import Hls.Muxer.AcceptMicro
/-!
# C01 helper lemmas, part 10 (specification level): on the LEADING track `accepted` is exactly
"drop until the first random-access unit, drop units that stay negative" — `accepted_lead`.
-/
set_option linter.unusedSimpArgs false
set_option linter.unusedVariables false
namespace Hls.Muxer.Accept
open Hls.Muxer

/-- what the drop rules leave of the LEADING track's units: video starts at the first random-access unit;
units whose decode time stays negative after the offset are removed -/
def leadKeep (cfg : Cfg) (us : List AU) : List AU :=
  let L := leadOf cfg
  let g := if (trackCfg cfg L).codec.isVideo then us.dropWhile (fun u => !u.sync) else us
  g.filter (fun u => decide (0 ≤ u.dts + 10 * (trackCfg cfg L).clockRate))

theorem dropWhile_snoc {α} (p : α → Bool) (l : List α) (x : α) :
    (l ++ [x]).dropWhile p = if l.all p then (if p x then [] else [x]) else l.dropWhile p ++ [x] := by
  induction l with
  | nil => cases h : p x <;> simp [List.dropWhile, h]
  | cons a l ih =>
    by_cases h : p a
    · simp only [List.cons_append, List.dropWhile_cons, h, if_true, List.all_cons, Bool.true_and]
      exact ih
    · simp [List.dropWhile_cons, h]

theorem dropWhile_all {α} (p : α → Bool) (l : List α) (h : l.all p = true) : l.dropWhile p = [] := by
  induction l with
  | nil => rfl
  | cons a l ih =>
    simp only [List.all_cons, Bool.and_eq_true] at h
    simp [List.dropWhile_cons, h.1, ih h.2]

/-- invariant of the scan for `t = L` after the units `U` of the leading track -/
structure LeadP (cfg : Cfg) (s : Scan) (U : List AU) : Prop where
  keep : s.out ++ s.pend.toList = leadKeep cfg U
  seen : (trackCfg cfg (leadOf cfg)).codec.isVideo = true → s.seenRA.contains (leadOf cfg) = U.any (·.sync)

theorem contains_cons_ne (k L : Nat) (l : List Nat) (h : k ≠ L) : (k :: l).contains L = l.contains L := by
  simp [List.contains_cons, Ne.symm h]

theorem leadP_other (cfg : Cfg) (s : Scan) (U : List AU) (k : Nat) (u : AU) (hk : k ≠ leadOf cfg)
    (h : LeadP cfg s U) : LeadP cfg (scanUnit cfg (leadOf cfg) k s u) U := by
  rw [scanUnit_eq]
  by_cases c1 : ((trackCfg cfg k).codec.isVideo && !u.sync && !s.seenRA.contains k) = true
  · rw [if_pos c1]; exact h
  · rw [if_neg c1]
    have hm : LeadP cfg (if (trackCfg cfg k).codec.isVideo = true then { s with seenRA := k :: s.seenRA } else s) U := by
      split
      · exact ⟨h.keep, fun hv => by simp only [contains_cons_ne k _ _ hk]; exact h.seen hv⟩
      · exact h
    generalize (if (trackCfg cfg k).codec.isVideo = true then { s with seenRA := k :: s.seenRA } else s) = s1 at hm
    unfold scanCore
    by_cases c2 : u.dts + 10 * (trackCfg cfg k).clockRate < 0
    · rw [if_pos c2]; exact hm
    · rw [if_neg c2]
      simp only [hk, if_false, ne_eq, not_false_eq_true, if_true]
      exact hm

theorem any_eq_false_all {l : List AU} (h : l.any (·.sync) = false) : l.all (fun u => !u.sync) = true := by
  induction l with
  | nil => rfl
  | cons a l ih =>
    simp only [List.any_cons, Bool.or_eq_false_iff] at h
    simp [h.1, ih h.2]

theorem all_not_any {l : List AU} (h : l.all (fun u => !u.sync) = true) : l.any (·.sync) = false := by
  induction l with
  | nil => rfl
  | cons a l ih =>
    simp only [List.all_cons, Bool.and_eq_true, Bool.not_eq_true'] at h
    simp [h.1, ih h.2]

theorem leadP_self (cfg : Cfg) (s : Scan) (U : List AU) (u : AU)
    (h : LeadP cfg s U) : LeadP cfg (scanUnit cfg (leadOf cfg) (leadOf cfg) s u) (U ++ [u]) := by
  rw [scanUnit_eq]
  by_cases hv : (trackCfg cfg (leadOf cfg)).codec.isVideo = true
  · -- video
    have hseen := h.seen hv
    by_cases c1 : ((trackCfg cfg (leadOf cfg)).codec.isVideo && !u.sync && !s.seenRA.contains (leadOf cfg)) = true
    · rw [if_pos c1]
      simp only [hv, Bool.true_and, Bool.and_eq_true, Bool.not_eq_true'] at c1
      have hall : U.all (fun u => !u.sync) = true := any_eq_false_all (by rw [← hseen]; exact c1.2)
      refine ⟨?_, fun _ => ?_⟩
      · rw [h.keep]
        unfold leadKeep
        simp only [hv, if_true]
        rw [dropWhile_snoc, hall, dropWhile_all _ _ hall]
        simp [c1.1]
      · rw [hseen, List.any_append]; simp [c1.1]
    · rw [if_neg c1, hv, if_pos rfl]
      have hor : s.seenRA.contains (leadOf cfg) = true ∨ u.sync = true := by
        simp only [hv, Bool.true_and, Bool.and_eq_true, Bool.not_eq_true', not_and, Bool.not_eq_false] at c1
        cases hs : u.sync
        · exact Or.inl (c1 hs)
        · exact Or.inr rfl
      have hgate : (U ++ [u]).dropWhile (fun u => !u.sync) = U.dropWhile (fun u => !u.sync) ++ [u] := by
        rw [dropWhile_snoc]
        by_cases hall : U.all (fun u => !u.sync) = true
        · have hany := all_not_any hall
          rw [← hseen] at hany
          rcases hor with e | e
          · rw [e] at hany; cases hany
          · simp [hall, e, dropWhile_all _ _ hall]
        · simp [hall]
      have hkeep' : leadKeep cfg (U ++ [u]) = leadKeep cfg U ++
          (if u.dts + 10 * (trackCfg cfg (leadOf cfg)).clockRate < 0 then [] else [u]) := by
        unfold leadKeep
        simp only [hv, if_true, hgate, List.filter_append, List.filter_cons, List.filter_nil]
        by_cases c2 : u.dts + 10 * (trackCfg cfg (leadOf cfg)).clockRate < 0
        · simp [c2, show ¬ (0 ≤ u.dts + 10 * (trackCfg cfg (leadOf cfg)).clockRate) by omega]
        · simp [c2, show (0 ≤ u.dts + 10 * (trackCfg cfg (leadOf cfg)).clockRate) by omega]
      have hseen' : (leadOf cfg :: s.seenRA).contains (leadOf cfg) = (U ++ [u]).any (·.sync) := by
        rw [List.any_append, ← hseen]
        have : (leadOf cfg :: s.seenRA).contains (leadOf cfg) = true := by simp [List.contains_cons]
        rw [this]
        rcases hor with e | e
        · rw [e]; rfl
        · simp [e]
      unfold scanCore
      by_cases c2 : u.dts + 10 * (trackCfg cfg (leadOf cfg)).clockRate < 0
      · rw [if_pos c2]
        exact ⟨by rw [hkeep', if_pos c2]; simpa using h.keep, fun _ => hseen'⟩
      · rw [if_neg c2]
        simp only [if_true, ne_eq, not_true_eq_false, if_false]
        refine ⟨?_, fun _ => ?_⟩
        · rw [hkeep', if_neg c2, ← h.keep]
          cases hp : s.pend <;> simp [hp]
        · cases hp : s.pend <;> simp only [hp] <;> exact hseen'
  · -- audio-only muxer
    have hv' : (trackCfg cfg (leadOf cfg)).codec.isVideo = false := by simpa using hv
    rw [hv']
    simp only [Bool.false_and, Bool.false_eq_true, if_false]
    have hkeep' : leadKeep cfg (U ++ [u]) = leadKeep cfg U ++
        (if u.dts + 10 * (trackCfg cfg (leadOf cfg)).clockRate < 0 then [] else [u]) := by
      unfold leadKeep
      simp only [hv', Bool.false_eq_true, if_false, List.filter_append, List.filter_cons, List.filter_nil]
      by_cases c2 : u.dts + 10 * (trackCfg cfg (leadOf cfg)).clockRate < 0
      · simp [c2, show ¬ (0 ≤ u.dts + 10 * (trackCfg cfg (leadOf cfg)).clockRate) by omega]
      · simp [c2, show (0 ≤ u.dts + 10 * (trackCfg cfg (leadOf cfg)).clockRate) by omega]
    unfold scanCore
    by_cases c2 : u.dts + 10 * (trackCfg cfg (leadOf cfg)).clockRate < 0
    · rw [if_pos c2]
      exact ⟨by rw [hkeep', if_pos c2]; simpa using h.keep, fun hh => by rw [hv'] at hh; cases hh⟩
    · rw [if_neg c2]
      simp only [if_true, ne_eq, not_true_eq_false, if_false]
      refine ⟨?_, fun hh => by rw [hv'] at hh; cases hh⟩
      rw [hkeep', if_neg c2, ← h.keep]
      cases hp : s.pend <;> simp [hp]

theorem leadP_units (cfg : Cfg) (k : Nat) : ∀ (us : List AU) (s : Scan) (U : List AU), LeadP cfg s U →
    LeadP cfg (us.foldl (scanUnit cfg (leadOf cfg) k) s) (U ++ if k = leadOf cfg then us else []) := by
  intro us
  induction us with
  | nil => intro s U h; simpa using h
  | cons u us ih =>
    intro s U h
    simp only [List.foldl_cons]
    by_cases hk : k = leadOf cfg
    · subst hk
      have := ih _ _ (leadP_self cfg s U u h)
      simpa using this
    · have := ih _ _ (leadP_other cfg s U k u hk h)
      simpa [hk] using this

theorem leadP_ops (cfg : Cfg) : ∀ (ops : List WriteOp) (s : Scan) (U : List AU), LeadP cfg s U →
    LeadP cfg (scan cfg (leadOf cfg) s ops) (U ++ unitsOn cfg ops (leadOf cfg)) := by
  intro ops
  induction ops with
  | nil => intro s U h; simpa [scan, unitsOn] using h
  | cons op ops ih =>
    intro s U h
    have h1 := leadP_units cfg op.track (unitsOf (trackCfg cfg op.track) op) s U h
    have h2 := ih _ _ h1
    simp only [scan, List.foldl_cons, unitsOn, List.flatMap_cons] at h2 ⊢
    rw [← List.append_assoc]
    by_cases hk : op.track = leadOf cfg
    · simpa [hk, scanOp] using h2
    · simpa [hk, scanOp] using h2

/-- The leading track: nothing but the drop rules of the property text shapes the accepted list. -/
theorem accepted_lead (cfg : Cfg) (ops : List WriteOp) :
    accepted cfg ops (leadOf cfg) = leadKeep cfg (unitsOn cfg ops (leadOf cfg)) := by
  have h0 : LeadP cfg {} [] := ⟨by simp [leadKeep], fun _ => rfl⟩
  have := (leadP_ops cfg ops {} [] h0).keep
  simpa [accepted] using this

end Hls.Muxer.Accept
