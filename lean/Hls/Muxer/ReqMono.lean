import Hls.Muxer.ReqWrite
import Hls.Muxer.ReqScan
/-!
# C06 (sequential half) — monotonicity along `Steps`

Once part (M,P) is matched by `hasPart` it stays matched until M expires; part paths below the next
part id are never re-registered (only removed).  Helper lemmas only.
-/
namespace Hls.Muxer

/-! ## `hasPart` reads the view only -/

theorem openPartCount_view (s : StreamSt) :
    s.openPartCount = (match s.view.openSeg with | some g => g.2.length | none => 0) := by
  unfold StreamSt.openPartCount StreamSt.view
  cases s.nextSegment <;> rfl

theorem hasPart_view (s : StreamSt) (m p : Nat) :
    s.hasPart m p = (if m = s.view.nextSegmentID then
        decide (p < (match s.view.openSeg with | some g => g.2.length | none => 0))
      else hasPartScan s.view.nextSegmentID (match s.view.openSeg with | some g => g.2.length | none => 0)
        (s.view.nextSegmentID - s.view.segments.length) s.view.segments m p) := by
  unfold StreamSt.hasPart
  rw [openPartCount_view]
  rfl

theorem hasPart_of_view {s s' : StreamSt} (h : s'.view = s.view) (m p : Nat) : s'.hasPart m p = s.hasPart m p := by
  rw [hasPart_view, hasPart_view, h]

/-! ## scan lemmas that need no invariant -/

theorem scan_mono_op (next op op' : Nat) (hop : op ≤ op') (k : Nat) (l : List Entry) (m p : Nat)
    (h : hasPartScan next op k l m p = true) : hasPartScan next op' k l m p = true := by
  induction l generalizing k m p with
  | nil =>
    simp only [hasPartScan, decide_eq_true_eq] at h ⊢
    exact ⟨h.1, by omega⟩
  | cons e r ih =>
    cases e with
    | gap d =>
      unfold hasPartScan at h ⊢
      split
      · rename_i h1; rw [if_pos h1] at h; exact ih _ _ _ h
      · rename_i h1; rw [if_neg h1] at h; exact ih _ _ _ h
    | seg g =>
      unfold hasPartScan at h ⊢
      split
      · split
        · rename_i h1 h2; rw [if_pos h1, if_pos h2] at h; exact ih _ _ _ h
        · rfl
      · rename_i h1; rw [if_neg h1] at h; exact ih _ _ _ h

/-- appending the finished open segment: whatever matched (in the list or in the open segment) still matches -/
theorem scan_append (next : Nat) (g : Seg) (hg : g.id = next) (k : Nat) (l : List Entry) (m p : Nat)
    (h : hasPartScan next g.parts.length k l m p = true) :
    hasPartScan (next + 1) 0 k (l ++ [.seg g]) m p = true := by
  induction l generalizing k m p with
  | nil =>
    simp only [hasPartScan, decide_eq_true_eq] at h
    simp only [List.nil_append, hasPartScan, hg, h.1, if_true]
    have : ¬ p ≥ g.parts.length := by omega
    rw [if_neg this]
  | cons e r ih =>
    simp only [List.cons_append]
    cases e with
    | gap d =>
      unfold hasPartScan at h ⊢
      split
      · rename_i h1; rw [if_pos h1] at h; exact ih _ _ _ h
      · rename_i h1; rw [if_neg h1] at h; exact ih _ _ _ h
    | seg q =>
      unfold hasPartScan at h ⊢
      split
      · split
        · rename_i h1 h2; rw [if_pos h1, if_pos h2] at h; exact ih _ _ _ h
        · rfl
      · rename_i h1; rw [if_neg h1] at h; exact ih _ _ _ h

/-- a request at or beyond MSN 7 walks over the seven initial gaps (MSN 0..6) -/
theorem scan_gaps (next op : Nat) (d : Int) (l : List Entry) (m p : Nat) (hm : 7 ≤ m) :
    hasPartScan next op 0 (gaps d ++ l) m p = hasPartScan next op 7 l m p := by
  have h0 : m ≠ 0 := by omega
  have h1 : m ≠ 1 := by omega
  have h2 : m ≠ 2 := by omega
  have h3 : m ≠ 3 := by omega
  have h4 : m ≠ 4 := by omega
  have h5 : m ≠ 5 := by omega
  have h6 : m ≠ 6 := by omega
  simp [gaps, llGapCount, List.replicate, hasPartScan, h0, h1, h2, h3, h4, h5, h6]

theorem scan_le_next (next op : Nat) (l : List Entry) (k m p : Nat) (hw : WinFrom k l) (hk : k + l.length ≤ next)
    (h : hasPartScan next op k l m p = true) : m ≤ next := by
  induction l generalizing k m p with
  | nil => simp only [hasPartScan, decide_eq_true_eq] at h; omega
  | cons e r ih =>
    simp only [List.length_cons] at hk
    cases e with
    | gap d =>
      unfold hasPartScan at h
      split at h
      · omega
      · exact ih (k + 1) m p hw.2 (by omega) h
    | seg g =>
      unfold hasPartScan at h
      split at h
      · rename_i h1
        have := hw.1; omega
      · exact ih (k + 1) m p hw.2.2 (by omega) h

/-- the open segment's parts are found by the scan as well -/
theorem scan_at_next (next op : Nat) (l : List Entry) (k p : Nat) (hw : WinFrom k l) (hk : k + l.length ≤ next)
    (hp : p < op) : hasPartScan next op k l next p = true := by
  induction l generalizing k with
  | nil => simp [hasPartScan, hp]
  | cons e r ih =>
    simp only [List.length_cons] at hk
    cases e with
    | gap d =>
      unfold hasPartScan
      rw [if_neg (by omega)]
      exact ih (k + 1) hw.2 (by omega)
    | seg g =>
      unfold hasPartScan
      have : next ≠ g.id := by have := hw.1; omega
      rw [if_neg this]
      exact ih (k + 1) hw.2.2 (by omega)

/-! ## the monotonicity relation between two views of one stream -/

def View.openCount (v : View) : Nat := match v.openSeg with | some g => g.2.length | none => 0

def View.hasPart (v : View) (m p : Nat) : Bool :=
  if m = v.nextSegmentID then decide (p < v.openCount)
  else hasPartScan v.nextSegmentID v.openCount (v.nextSegmentID - v.segments.length) v.segments m p

theorem hasPart_eq_view (s : StreamSt) (m p : Nat) : s.hasPart m p = s.view.hasPart m p := hasPart_view s m p

structure MonoS (ps ps' : List (PathKey × Handler)) (si : Nat) (v v' : View) : Prop where
  next : v.nextSegmentID ≤ v'.nextSegmentID
  del : v.deleteCount ≤ v'.deleteCount
  content : v.segments ≠ [] → v'.segments ≠ []
  npid : v.nextPartID ≤ v'.nextPartID
  hp : ∀ m p, v.hasPart m p = true → m ≤ v'.deleteCount ∨ v'.hasPart m p = true
  look : ∀ id, id < v.nextPartID →
    lookupPath ps' (.part si id) = lookupPath ps (.part si id) ∨ lookupPath ps' (.part si id) = none

theorem MonoS.rfl' (ps : List (PathKey × Handler)) (si : Nat) (v : View) : MonoS ps ps si v v :=
  ⟨Nat.le_refl _, Nat.le_refl _, id, Nat.le_refl _, fun _ _ h => .inr h, fun _ _ => .inl rfl⟩

theorem MonoS.of_eq {ps ps' : List (PathKey × Handler)} {si : Nat} {v v' : View} (hv : v' = v)
    (hl : ∀ id, lookupPath ps' (.part si id) = lookupPath ps (.part si id)) : MonoS ps ps' si v v' := by
  subst hv
  exact ⟨Nat.le_refl _, Nat.le_refl _, id, Nat.le_refl _, fun _ _ h => .inr h, fun id _ => .inl (hl id)⟩

theorem MonoS.trans {p1 p2 p3 : List (PathKey × Handler)} {si : Nat} {v1 v2 v3 : View}
    (h12 : MonoS p1 p2 si v1 v2) (h23 : MonoS p2 p3 si v2 v3) : MonoS p1 p3 si v1 v3 := by
  refine ⟨Nat.le_trans h12.next h23.next, Nat.le_trans h12.del h23.del, fun h => h23.content (h12.content h),
    Nat.le_trans h12.npid h23.npid, fun m p h => ?_, fun id hid => ?_⟩
  · rcases h12.hp m p h with h | h
    · exact .inl (Nat.le_trans h h23.del)
    · exact h23.hp m p h
  · rcases h23.look id (Nat.lt_of_lt_of_le hid h12.npid) with h | h
    · rcases h12.look id hid with h' | h'
      · exact .inl (h.trans h')
      · exact .inr (h.trans h')
    · exact .inr h

/-! ## single steps -/

theorem rotP_mono (st : State) (si : Nat) (d : Int) (b : Bool) (part : Part) (seg : Seg)
    (hv : st.cfg.variant = .ll) (hsi : si < st.streams.length)
    (h1 : (st.stream si).nextPart = some part) (h2 : (st.stream si).nextSegment = some seg)
    (hinv : VInv si st.paths (st.stream si).view) :
    MonoS st.paths (rotatePartsStream st si d b).paths si (st.stream si).view ((rotatePartsStream st si d b).stream si).view := by
  obtain ⟨part', hid, hc, hl, hoth, hview, hpaths⟩ := rotatePartsStream_obs st si d b part seg hv hsi h1 h2
  have hpid : part.id = (st.stream si).nextPartID := hinv.partId part.id (by simp [StreamSt.view, h1])
  have hos : (st.stream si).view.openSeg = some (seg.id, seg.parts) := by simp [StreamSt.view, h2]
  rw [hview, hpaths]
  refine ⟨Nat.le_refl _, Nat.le_refl _, id, Nat.le_succ _, fun m p h => .inr ?_, fun id hid' => .inl ?_⟩
  · unfold View.hasPart View.openCount at h ⊢
    simp only [hos] at h
    simp only [List.length_append, List.length_singleton]
    show (if m = (st.stream si).nextSegmentID then _ else _) = true
    have hn : (st.stream si).view.nextSegmentID = (st.stream si).nextSegmentID := rfl
    have hs : (st.stream si).view.segments = (st.stream si).segments := rfl
    rw [hn, hs] at h
    split
    · rename_i hm; rw [if_pos hm] at h
      simp only [decide_eq_true_eq] at h ⊢; omega
    · rename_i hm; rw [if_neg hm] at h
      exact scan_mono_op _ _ _ (Nat.le_succ _) _ _ _ _ h
  · have hid'' : id < (st.stream si).nextPartID := hid'
    rw [lookup_regPath_ne _ _ _ _ (by simp; omega), lookup_regPath_ne _ _ _ _ (by simp; omega)]

theorem rotSegRest_mono (st : State) (si : Nat) (d n : Int) (f : Bool) (seg : Seg)
    (hv : st.cfg.variant = .ll) (hsi : si < st.streams.length)
    (h2 : (st.stream si).nextSegment = some seg)
    (hinv : VInv si st.paths (st.stream si).view)
    (hinv' : VInv si (rotSegRest st si d n f).paths ((rotSegRest st si d n f).stream si).view) :
    MonoS st.paths (rotSegRest st si d n f).paths si (st.stream si).view ((rotSegRest st si d n f).stream si).view := by
  obtain ⟨hc, hl, hoth, hview, hlook⟩ := rotSegRest_obs st si d n f seg _ hv hsi h2 rfl
  have hos : (st.stream si).view.openSeg = some (seg.id, seg.parts) := by simp [StreamSt.view, h2]
  have hsid : seg.id = (st.stream si).nextSegmentID := hinv.openId _ hos
  obtain ⟨hw1, hlen1⟩ := winAppend_win _ si st.paths hinv { seg with endDTS := d } hsid
  have hw : WinFrom (st.stream si).deleteCount (st.stream si).segments := hinv.win
  have hge7 : 7 ≤ (st.stream si).nextSegmentID := hinv.ge7
  have hklen : (st.stream si).deleteCount + (st.stream si).segments.length ≤ (st.stream si).nextSegmentID := by
    by_cases he : (st.stream si).segments = []
    · have h0 : (st.stream si).deleteCount = 0 := (hinv.fresh he).2
      rw [he, h0]; simp only [List.length_nil]; omega
    · exact Nat.le_of_eq (hinv.len he)
  have hfresh := hinv'.fresh
  rw [hview] at hfresh ⊢
  have hw1' : WinFrom (st.stream si).deleteCount (winAppend True (st.stream si).segments { seg with endDTS := d }) := hw1
  have hlen1' : (st.stream si).deleteCount + (winAppend True (st.stream si).segments { seg with endDTS := d }).length =
      (st.stream si).nextSegmentID + 1 := hlen1
  clear hw1 hlen1
  generalize hsegs : winAppend True (st.stream si).segments { seg with endDTS := d } = segs1 at *
  refine ⟨Nat.le_succ _, ?_, fun _ h0 => ?_, Nat.le_refl _, fun m p h => ?_, fun id _ => ?_⟩
  · show (st.stream si).deleteCount ≤ (if _ then _ else _)
    split
    · exact Nat.le_succ _
    · exact Nat.le_refl _
  · have h8 : (st.stream si).nextSegmentID + 1 = 7 := (hfresh h0).1
    omega
  · -- the scan over the window after appending the finished segment (and the initial gaps)
    have hB : hasPartScan ((st.stream si).nextSegmentID + 1) 0 (st.stream si).deleteCount segs1 m p = true ∧
        m ≤ (st.stream si).nextSegmentID := by
      unfold View.hasPart View.openCount at h
      simp only [hos] at h
      have h' : (if m = (st.stream si).nextSegmentID then decide (p < seg.parts.length)
          else hasPartScan (st.stream si).nextSegmentID seg.parts.length
            ((st.stream si).nextSegmentID - (st.stream si).segments.length) (st.stream si).segments m p) = true := h
      by_cases he : (st.stream si).segments = []
      · -- first rotation: the request can only name the open segment 7
        obtain ⟨h7, h0⟩ := hinv.fresh he
        have h7' : (st.stream si).nextSegmentID = 7 := h7
        have h0' : (st.stream si).deleteCount = 0 := h0
        have hm : m = (st.stream si).nextSegmentID ∧ p < seg.parts.length := by
          split at h'
          · rename_i hm; exact ⟨hm, by simpa using h'⟩
          · rw [he] at h'; simpa [hasPartScan] using h'
        refine ⟨?_, by omega⟩
        rw [← hsegs, h0']
        unfold winAppend
        rw [he]
        simp only [List.isEmpty_nil, and_self, if_true]
        rw [scan_gaps _ _ _ _ _ _ (by omega)]
        have hid : seg.id = m := by omega
        simp only [hasPartScan, hid, if_true]
        have : ¬ p ≥ seg.parts.length := by omega
        rw [if_neg this]
      · have hk : (st.stream si).nextSegmentID - (st.stream si).segments.length = (st.stream si).deleteCount := by
          have hl0 : (st.stream si).deleteCount + (st.stream si).segments.length = (st.stream si).nextSegmentID :=
            hinv.len he
          omega
        rw [hk] at h'
        have hA : hasPartScan (st.stream si).nextSegmentID seg.parts.length (st.stream si).deleteCount
            (st.stream si).segments m p = true := by
          split at h'
          · rename_i hm; subst hm
            exact scan_at_next _ _ _ _ _ hw hklen (by simpa using h')
          · exact h'
        refine ⟨?_, scan_le_next _ _ _ _ _ _ hw hklen hA⟩
        have := scan_append (st.stream si).nextSegmentID { seg with endDTS := d } hsid _ (st.stream si).segments m p hA
        rw [← hsegs]
        unfold winAppend
        rw [if_neg (by simp [he])]
        exact this
    obtain ⟨hB, hmle⟩ := hB
    have hne : m ≠ (st.stream si).nextSegmentID + 1 := by omega
    show m ≤ (if _ then _ else _) ∨ (if m = (st.stream si).nextSegmentID + 1 then _ else
      hasPartScan ((st.stream si).nextSegmentID + 1) 0
        ((st.stream si).nextSegmentID + 1 - (if segs1.length > st.cfg.segmentCount then segs1.tail else segs1).length)
        (if segs1.length > st.cfg.segmentCount then segs1.tail else segs1) m p) = true
    rw [if_neg hne]
    by_cases hgt : segs1.length > st.cfg.segmentCount
    · rw [if_pos hgt, if_pos hgt]
      cases hs1 : segs1 with
      | nil => rw [hs1] at hlen1'; simp only [List.length_nil] at hlen1'; omega
      | cons e r =>
        rw [hs1] at hB hw1' hlen1'
        simp only [List.tail_cons, List.length_cons] at hlen1' ⊢
        rw [show (st.stream si).nextSegmentID + 1 - r.length = (st.stream si).deleteCount + 1 by omega]
        cases e with
        | gap g0 =>
          unfold hasPartScan at hB
          by_cases hm : m = (st.stream si).deleteCount
          · left; omega
          · rw [if_neg hm] at hB; exact .inr hB
        | seg q =>
          unfold hasPartScan at hB
          by_cases hm : m = q.id
          · left; have := hw1'.1; omega
          · rw [if_neg hm] at hB; exact .inr hB
    · rw [if_neg hgt, if_neg hgt]
      rw [show (st.stream si).nextSegmentID + 1 - segs1.length = (st.stream si).deleteCount by omega]
      exact .inr hB
  · rw [hlook]
    split
    · exact .inr rfl
    · exact .inl rfl

/-- `createFirstSegment` leaves every view unchanged or installs an empty open segment -/
theorem createAll_view (st : State) (d n : Int) (hinv : Inv st) (j : Nat) :
    ((createFirstSegment st d n).stream j).view = (st.stream j).view ∨
    ((createFirstSegment st d n).stream j).view = { (st.stream j).view with
      openSeg := some ((st.stream j).nextSegmentID, []), openPart := some (st.stream j).nextPartID } := by
  unfold createFirstSegment
  have key : ∀ (l : List Nat) (st1 : State), Inv st1 →
      ((st1.stream j).view = (st.stream j).view ∨ (st1.stream j).view = { (st.stream j).view with
        openSeg := some ((st.stream j).nextSegmentID, []), openPart := some (st.stream j).nextPartID }) →
      let r := l.foldl (fun st si => createFirstSegmentStream st si d n) st1
      ((r.stream j).view = (st.stream j).view ∨ (r.stream j).view = { (st.stream j).view with
        openSeg := some ((st.stream j).nextSegmentID, []), openPart := some (st.stream j).nextPartID }) := by
    intro l
    induction l with
    | nil => intro st1 _ h; exact h
    | cons a l ih =>
      intro st1 h1 h
      apply ih (createFirstSegmentStream st1 a d n) (create_inv st1 a d n h1)
      obtain ⟨hc, hp, hl, hoth, hview⟩ := createFirstSegmentStream_obs st1 a d n h1.ll
      by_cases e : j = a
      · subst e
        by_cases hj : j < st1.streams.length
        · right
          rw [hview hj]
          have hn : (st1.stream j).nextSegmentID = (st.stream j).nextSegmentID := by
            rcases h with h | h <;> exact congrArg View.nextSegmentID h
          have hN : (st1.stream j).nextPartID = (st.stream j).nextPartID := by
            rcases h with h | h <;> exact congrArg View.nextPartID h
          rw [hn, hN]
          rcases h with h | h <;> rw [h]
        · have : createFirstSegmentStream st1 j d n = { st1 with files := st1.files ++ [.seg j (st1.stream j).nextSegmentID] } := by
            unfold createFirstSegmentStream
            simp only [h1.ll]
            rw [setStream_oob _ _ _ (Nat.le_of_not_lt hj)]
          rw [this]; exact h
      · rw [hoth j e]; exact h
  exact key (List.range st.streams.length) st hinv (.inl rfl)

theorem createAll_mono (st : State) (d n : Int) (hinv : Inv st) (hg : ∀ i, (st.stream i).nextSegment = none) (si : Nat) :
    MonoS st.paths (createFirstSegment st d n).paths si (st.stream si).view ((createFirstSegment st d n).stream si).view := by
  obtain ⟨_, _, _, _, hp⟩ := createAll_keeps st d n hinv
  rcases createAll_view st d n hinv si with h | h
  · exact MonoS.of_eq h (fun id => by rw [hp])
  · rw [h, hp]
    have hos : (st.stream si).view.openSeg = none := by simp [StreamSt.view, hg si]
    refine ⟨Nat.le_refl _, Nat.le_refl _, id, Nat.le_refl _, fun m p hh => .inr ?_, fun _ _ => .inl rfl⟩
    unfold View.hasPart View.openCount at hh ⊢
    simp only [hos] at hh
    exact hh

theorem rotP_step_mono (st : State) (hinv : Inv st) (sj : Nat) (d : Int) (b : Bool) (si : Nat) (hsi : si < st.streams.length) :
    MonoS st.paths (rotatePartsStream st sj d b).paths si (st.stream si).view ((rotatePartsStream st sj d b).stream si).view := by
  by_cases hsj : sj < st.streams.length
  · cases h1 : (st.stream sj).nextPart with
    | none => rw [rotatePartsStream_noop _ _ _ _ (.inl h1)]; exact .rfl' _ _ _
    | some part =>
      cases h2 : (st.stream sj).nextSegment with
      | none => rw [rotatePartsStream_noop _ _ _ _ (.inr h2)]; exact .rfl' _ _ _
      | some seg =>
        by_cases e : si = sj
        · subst e
          exact rotP_mono st si d b part seg hinv.ll hsi h1 h2 (hinv.streams si hsi)
        · obtain ⟨_, _, hoth, hlook, _⟩ := rotP_vinv st sj d b part seg hinv.ll hsj h1 h2 (hinv.streams sj hsj)
          exact MonoS.of_eq (by rw [hoth si e]) (fun id => hlook si id e)
  · have := stream_oob_default st sj (Nat.le_of_not_lt hsj)
    rw [rotatePartsStream_noop _ _ _ _ (.inl (by rw [this]))]; exact .rfl' _ _ _

theorem rotS_step_mono (st : State) (hinv : Inv st) (sj : Nat) (d n : Int) (f : Bool) (si : Nat) (hsi : si < st.streams.length) :
    MonoS st.paths (rotateSegmentsStream st sj d n f).paths si (st.stream si).view
      ((rotateSegmentsStream st sj d n f).stream si).view := by
  rw [rotateSegmentsStream_eq]
  have hne : st.cfg.variant ≠ .mpegts := by rw [hinv.ll]; decide
  rw [if_pos hne]
  by_cases hsj : sj < st.streams.length
  · cases h2 : (st.stream sj).nextSegment with
    | none =>
      rw [rotatePartsStream_noop _ _ _ _ (.inr h2), rotSegRest_noop _ _ _ _ _ h2]; exact .rfl' _ _ _
    | some seg =>
      have hps := hinv.both sj hsj (by rw [h2]; rfl)
      obtain ⟨part, h1⟩ := Option.isSome_iff_exists.mp hps
      obtain ⟨hc, hl, hoth, hlook, hv, hN, hseg1, _⟩ :=
        rotP_vinv st sj d false part seg hinv.ll hsj h1 h2 (hinv.streams sj hsj)
      obtain ⟨seg1, hs1⟩ := Option.isSome_iff_exists.mp hseg1
      obtain ⟨hc2, hl2, hoth2, hlook2, hv2, _, _⟩ :=
        rotSegRest_vinv (rotatePartsStream st sj d false) sj d n f seg1 (by rw [hc]; exact hinv.ll)
          (by rw [hc]; exact hinv.cnt) (by rw [hl]; exact hsj) hs1 hN hv
      by_cases e : si = sj
      · subst e
        exact (rotP_mono st si d false part seg hinv.ll hsi h1 h2 (hinv.streams si hsi)).trans
          (rotSegRest_mono _ si d n f seg1 (by rw [hc]; exact hinv.ll) (by rw [hl]; exact hsi) hs1 hv hv2)
      · exact MonoS.of_eq (by rw [hoth2 si e, hoth si e]) (fun id => (hlook2 si id e).trans (hlook si id e))
  · have hd := stream_oob_default st sj (Nat.le_of_not_lt hsj)
    have h2 : (st.stream sj).nextSegment = none := by rw [hd]
    rw [rotatePartsStream_noop _ _ _ _ (.inr h2), rotSegRest_noop _ _ _ _ _ h2]; exact .rfl' _ _ _

theorem steps_mono {a b : State} (h : Steps a b) (ha : InvU a) (si : Nat) (hsi : si < a.streams.length) :
    MonoS a.paths b.paths si (a.stream si).view (b.stream si).view := by
  induction h with
  | refl => exact MonoS.rfl' _ _ _
  | same _ hs ih => exact ih.trans (MonoS.of_eq (hs.view si) (fun id => by rw [hs.paths]))
  | createAll d n hab hg ih => exact ih.trans (createAll_mono _ d n (steps_inv hab ha) hg si)
  | rotP sj d hab ih =>
    exact ih.trans (rotP_step_mono _ (steps_inv hab ha) sj d true si (by rw [(steps_len hab ha).1]; exact hsi))
  | rotS sj d n f hab ih =>
    exact ih.trans (rotS_step_mono _ (steps_inv hab ha) sj d n f si (by rw [(steps_len hab ha).1]; exact hsi))

end Hls.Muxer
