import Hls.Muxer.TimeRun
/-!
# `fmp4Write`, `write`, `run` preserve the global time invariant (helper file for C02 / C03)
-/
namespace Hls.Muxer
open Hls.Gen

/-- one step of the muxer as far as C03 is concerned -/
structure Step (st st' : State) (L : Nat) : Prop where
  gi : GI st' L
  cfg : st'.cfg = st.cfg
  len : st'.streams.length = st.streams.length
  mono : (st.stream L).targetDur ≤ (st'.stream L).targetDur
  irel : IRel st st'

theorem Step.refl {st : State} {L : Nat} (h : GI st L) : Step st st L := ⟨h, rfl, rfl, Int.le_refl _, IRel.refl _⟩
theorem Step.trans {a b c : State} {L : Nat} (h1 : Step a b L) (h2 : Step b c L) : Step a c L :=
  ⟨h2.gi, h2.cfg.trans h1.cfg, h2.len.trans h1.len, Int.le_trans h1.mono h2.mono, h1.irel.trans h2.irel⟩

theorem Step_congr {st st' : State} {L : Nat} (h : GI st L) (hc : st'.cfg = st.cfg) (hs : st'.streams = st.streams)
    (hp : st'.paths = st.paths) : Step st st' L :=
  ⟨GI_congr h hc hs, hc, by rw [hs], by rw [stream_eq_of_streams hs]; exact Int.le_refl _,
   IRel_of_same (fun si => by rw [stream_eq_of_streams hs]) hp⟩

theorem Step_setTrack {st : State} {L : Nat} (h : GI st L) (i t) : Step st (st.setTrack i t) L :=
  Step_congr h rfl rfl rfl

theorem Step_createFirstSegment {st : State} {L : Nat} (h : GI st L) (hn : (st.stream L).nextSegment = none) (d n : Int) :
    Step st (createFirstSegment st d n) L := by
  obtain ⟨hf, hlen, hs⟩ := createFirstSegment_spec st d n
  refine ⟨GI_createFirstSegment h hn d n, hf.1.1, hlen, ?_, ?_⟩
  · rw [hs L h.lt, (cfS_fields ..).2.1]; exact Int.le_refl _
  · refine IRel_of_same (fun si => ?_) hf.2.2
    by_cases hsi : si < st.streams.length
    · rw [hs si hsi, (cfS_fields ..).2.2.2.1]
    · have hd : ∀ x : State, x.streams.length = st.streams.length → x.stream si = { tracks := [], isLeading := false, nextSegmentID := 0 } := by
        intro x hx
        simp [State.stream, List.getD_eq_getElem?_getD, List.getElem?_eq_none (by rw [hx]; exact Nat.le_of_not_lt hsi)]
      rw [hd _ hlen, hd _ rfl]

theorem Step_rotateParts {st : State} {L : Nat} (h : GI st L) (hv : st.cfg.variant ≠ .mpegts) (d : Int) :
    Step st (rotateParts st d) L := by
  obtain ⟨hg, hf, hlen, hL, _⟩ := GI_rotateParts h hv d
  refine ⟨hg, hf.cfg, hlen, ?_, IRel_rotateParts st d (by rw [h.leadingStream]; exact h.lt)⟩
  rw [hL, rpS_targetDur]; exact Int.le_refl _

theorem rsS_targetDur_mono (v n s c d ntp f) : s.targetDur ≤ (rsS v n s c d ntp f).targetDur := by
  have key : ∀ s' : StreamSt, s'.targetDur ≤ (rsTailS v n s' d ntp f).targetDur := by
    intro s'
    unfold rsTailS
    split
    · exact Int.le_refl _
    · simp only
      split
      · exact (newTarget_ge _ _ (targetDuration_nonneg _)).2
      · exact Int.le_refl _
  unfold rsS
  split
  · have := key (rpS v s c d false)
    rw [rpS_targetDur] at this; exact this
  · exact key s

theorem Step_rotateSegments {st : State} {L : Nat} (h : GI st L) (d n : Int) (f : Bool) :
    Step st (rotateSegments st d n f) L := by
  obtain ⟨hg, hf, hlen, hL, _⟩ := GI_rotateSegments h d n f
  refine ⟨hg, hf.cfg, hlen, ?_, IRel_rotateSegments st d n f (by rw [h.leadingStream]; exact h.lt)⟩
  rw [hL]; exact rsS_targetDur_mono ..

theorem pws_cfg_len {st st' : State} (ti : Nat) (smp : Sample) (r : WriteRes)
    (hw : partWriteSample st ti smp = (st', r)) : st'.cfg = st.cfg ∧ st'.streams.length = st.streams.length ∧
    (∀ j, (st'.stream j).targetDur = (st.stream j).targetDur) ∧ IRel st st' := by
  cases r with
  | err => rw [pws_err st ti smp st' hw]; exact ⟨rfl, rfl, fun _ => rfl, IRel.refl _⟩
  | ok =>
    obtain ⟨indep, e, _⟩ := pws_ok st ti smp st' hw
    have hs : st'.streams = st.streams.set (st.streamOf ti) (pwS (st.stream (st.streamOf ti)) smp.size indep) := by rw [e]; rfl
    refine ⟨by rw [e]; rfl, length_of_set hs, fun j => ?_,
      IRel_of_same (stream_tracks_of_set hs (pwS_fields ..).2.2.2.1) (by rw [e]; rfl)⟩
    rw [stream_of_set hs]
    split
    · rename_i hj; rw [(pwS_fields ..).2.1, hj.1]
    · rfl

theorem Step_partWriteSample {st st' : State} {L : Nat} (h : GI st L) (ti : Nat) (smp : Sample) (r : WriteRes)
    (hw : partWriteSample st ti smp = (st', r)) : Step st st' L := by
  obtain ⟨h1, h2, h3, h4⟩ := pws_cfg_len ti smp r hw
  exact ⟨GI_partWriteSample h ti smp r hw, h1, h2, by rw [h3]; exact Int.le_refl _, h4⟩

theorem Step_tsWrite {st st' : State} {L : Nat} (h : GI st L) (u size e c) (r : WriteRes)
    (hw : tsWrite st u size e c = (st', r)) : Step st st' L := by
  refine ⟨GI_tsWrite h u size e c r hw, ?_, ?_, ?_, ?_⟩
  all_goals
    cases r with
    | err => have e0 := tsw_err st u size e c st' hw; subst e0; first | rfl | exact Int.le_refl _ | exact IRel.refl _
    | ok =>
      obtain ⟨e', _⟩ := tsw_ok st u size e c st' hw
      have hs : st'.streams = st.streams.set 0 (twS (st.stream 0) u size e c) := by rw [e']; rfl
      first
        | (rw [e']; rfl)
        | exact length_of_set hs
        | exact IRel_of_same (stream_tracks_of_set hs (twS_fields ..).2.2.2.1) (by rw [e']; rfl)
        | (rw [stream_of_set hs]; split
           · rename_i hj; rw [(twS_fields ..).2.1, hj.1]; exact Int.le_refl _
           · exact Int.le_refl _)

theorem Step_adjust {st : State} {L : Nat} (h : GI st L) (sd : Int) : Step st (adjustPartDuration st sd) L := by
  unfold adjustPartDuration
  split
  · exact Step.refl h
  · split
    · exact Step.refl h
    · split
      · exact Step.refl h
      · exact Step_congr h rfl rfl rfl

/-! ## fmp4Write in factored form -/

/-- the sample with the 10 s offset applied -/
def fwSmp (st : State) (ti : Nat) (smp : Sample) : Sample :=
  { smp with dts := smp.dts + toTs fmp4StartDTS (st.tcfg ti).clockRate }

/-- look-ahead swapped in -/
def fwSt1 (st : State) (ti : Nat) (smp : Sample) : State :=
  st.setTrack ti { st.track ti with next := some (fwSmp st ti smp) }

/-- the sample that leaves the look-ahead, with its duration -/
def fwOld (st : State) (ti : Nat) (smp old : Sample) : Sample :=
  { old with dur := ((fwSmp st ti smp).dts - old.dts) % 4294967296 }

/-- first segment created / part duration adjusted -/
def fwSt2 (st : State) (ti : Nat) (smp old : Sample) : State :=
  let rate := (st.tcfg ti).clockRate
  let st1 := fwSt1 st ti smp
  let lead := st1.isLeadingTrack ti
  let hasSeg := (st1.stream (st1.streamOf ti)).nextSegment.isSome
  let st2 := if lead && !hasSeg then createFirstSegment st1 (toDur old.dts rate) old.ntp else st1
  if lead then adjustPartDuration st2 (toDur ((fwSmp st ti smp).dts - old.dts) rate) else st2

/-- start of the open segment / open part of the stream of track `ti` (0 when there is none) -/
def openSegStart (st : State) (si : Nat) : Int :=
  match (st.stream si).nextSegment with | some g => g.startDTS | none => 0
def openPartStart (st : State) (si : Nat) : Int :=
  match (st.stream si).nextPart with | some p => p.startDTS | none => 0

/-- the segment-switch condition of `fmp4WriteSample` -/
def fwDue (st0 : State) (ti : Nat) (ra changed : Bool) (smp : Sample) (st : State) : Bool :=
  ra && (changed || decide (toDur (fwSmp st0 ti smp).dts (st0.tcfg ti).clockRate -
    openSegStart st ((fwSt1 st0 ti smp).streamOf ti) ≥ st.cfg.segmentMinDur))

/-- the part-switch condition -/
def fwPartDue (st0 : State) (ti : Nat) (smp : Sample) (st : State) : Prop :=
  st.cfg.variant = .ll ∧ toDur (fwSmp st0 ti smp).dts (st0.tcfg ti).clockRate -
    openPartStart st ((fwSt1 st0 ti smp).streamOf ti) ≥ st.adjusted

instance (st0 ti smp st) : Decidable (fwPartDue st0 ti smp st) := by unfold fwPartDue; exact inferInstance

/-- what follows a due segment switch -/
def fwRotate (st0 : State) (ti : Nat) (changed : Bool) (smp : Sample) (st : State) : State :=
  let st := rotateSegments st (toDur (fwSmp st0 ti smp).dts (st0.tcfg ti).clockRate) (fwSmp st0 ti smp).ntp changed
  if changed then { st with freeze := false, durs := [] } else { st with freeze := true }

/-- the switch decision after the sample has been written (leading track) -/
def fwTail (st0 : State) (ti : Nat) (ra changed : Bool) (smp : Sample) (st : State) : State × WriteRes :=
  if fwDue st0 ti ra changed smp st then (fwRotate st0 ti changed smp st, .ok)
  else if fwPartDue st0 ti smp st then
    (rotateParts st (toDur (fwSmp st0 ti smp).dts (st0.tcfg ti).clockRate), .ok)
  else (st, .ok)

theorem fmp4Write_eq (st : State) (ti : Nat) (ra changed : Bool) (smp : Sample) :
    fmp4Write st ti ra changed smp =
      if (fwSmp st ti smp).dts < 0 then (st, .ok) else
      match (st.track ti).next with
      | none => (fwSt1 st ti smp, .ok)
      | some old =>
        let st1 := fwSt1 st ti smp
        let lead := st1.isLeadingTrack ti
        let hasSeg := (st1.stream (st1.streamOf ti)).nextSegment.isSome
        if !lead && !hasSeg then (st1, .ok) else
        match partWriteSample (fwSt2 st ti smp old) ti (fwOld st ti smp old) with
        | (st', .err) => (st', .err)
        | (st', .ok) => if !lead then (st', .ok) else fwTail st ti ra changed smp st' := rfl


theorem Step_fwSt2 {st : State} {L : Nat} (h : GI st L) (ti : Nat) (smp old : Sample) :
    Step st (fwSt2 st ti smp old) L := by
  have h1 : Step st (fwSt1 st ti smp) L := Step_setTrack h _ _
  unfold fwSt2
  simp only
  have h2 : Step st (if ((fwSt1 st ti smp).isLeadingTrack ti && !((fwSt1 st ti smp).stream ((fwSt1 st ti smp).streamOf ti)).nextSegment.isSome) = true
      then createFirstSegment (fwSt1 st ti smp) (toDur old.dts (st.tcfg ti).clockRate) old.ntp else fwSt1 st ti smp) L := by
    split
    · rename_i hc
      simp only [Bool.and_eq_true, Bool.not_eq_true', State.isLeadingTrack, decide_eq_true_eq] at hc
      have hL : (fwSt1 st ti smp).streamOf ti = L := by rw [hc.1]; exact h1.gi.lidx
      rw [hL] at hc
      have : ((fwSt1 st ti smp).stream L).nextSegment = none := by
        cases hx : ((fwSt1 st ti smp).stream L).nextSegment with
        | none => rfl
        | some g => rw [hx] at hc; simp at hc
      exact h1.trans (Step_createFirstSegment h1.gi this _ _)
    · exact h1
  split
  · exact h2.trans (Step_adjust h2.gi _)
  · exact h2

theorem Step_fwTail {st0 st : State} {L : Nat} (h : GI st L) (ti : Nat) (ra changed : Bool) (smp : Sample) :
    Step st (fwTail st0 ti ra changed smp st).1 L := by
  unfold fwTail
  by_cases h1 : fwDue st0 ti ra changed smp st = true
  · simp only [h1, if_true]
    have := Step_rotateSegments h (toDur (fwSmp st0 ti smp).dts (st0.tcfg ti).clockRate) (fwSmp st0 ti smp).ntp changed
    refine this.trans ?_
    unfold fwRotate
    cases changed <;> exact Step_congr this.gi rfl rfl rfl
  · simp only [h1, if_false, Bool.false_eq_true]
    by_cases h2 : fwPartDue st0 ti smp st
    · simp only [h2, if_true]
      exact Step_rotateParts h (by rw [h2.1]; decide) _
    · simp only [h2, if_false]
      exact Step.refl h

theorem Step_fmp4Write {st : State} {L : Nat} (h : GI st L) (ti : Nat) (ra changed : Bool) (smp : Sample) :
    Step st (fmp4Write st ti ra changed smp).1 L := by
  rw [fmp4Write_eq]
  split
  · exact Step.refl h
  · split
    · exact Step_setTrack h _ _
    · rename_i old _
      simp only
      split
      · exact Step_setTrack h _ _
      · have h2 := Step_fwSt2 h ti smp old
        cases hw : partWriteSample (fwSt2 st ti smp old) ti (fwOld st ti smp old) with
        | mk st' r =>
          have h3 := h2.trans (Step_partWriteSample h2.gi ti _ r hw)
          cases r with
          | err => exact h3
          | ok =>
            simp only
            split
            · exact h3
            · exact h3.trans (Step_fwTail h3.gi ti ra changed smp)

theorem Step_fmp4WriteMany {L : Nat} (ti : Nat) : ∀ (l : List Sample) {st : State}, GI st L →
    Step st (fmp4WriteMany st ti l).1 L := by
  intro l
  induction l with
  | nil => intro st h; exact Step.refl h
  | cons x r ih =>
    intro st h
    have h1 := Step_fmp4Write h ti true false x
    unfold fmp4WriteMany
    cases hw : fmp4Write st ti true false x with
    | mk st' res =>
      rw [hw] at h1
      cases res with
      | err => exact h1
      | ok => exact h1.trans (ih h1.gi)

/-! ## `write` in factored form -/

def vidSample (op : WriteOp) : Sample :=
  { dts := op.dts, ptsOff := op.pts - op.dts, sync := op.ra, pay := op.pays.headD 0, size := op.sizes.headD 0, ntp := op.ntp }

def av1Sample (op : WriteOp) : Sample :=
  { dts := op.pts, ptsOff := 0, sync := op.ra, pay := op.pays.headD 0, size := op.sizes.headD 0, ntp := op.ntp }

/-- h265 / vp9 / av1 after `paramsStep`: first-random-access gate, then `fmp4Write` -/
def wVidGate (st : State) (op : WriteOp) (changed : Bool) (smp : Sample) : State × WriteRes :=
  let t := st.track op.track
  if !t.firstRA && !op.ra then (st, .ok) else
  let st := st.setTrack op.track { t with firstRA := true }
  fmp4Write st op.track op.ra changed smp

def h264Unit (st : State) (op : WriteOp) : TsUnit :=
  { track := op.track, pts := mulDiv op.pts 90000 (st.tcfg op.track).clockRate,
    dts := mulDiv op.dts 90000 (st.tcfg op.track).clockRate, pays := [op.pays.headD 0] }

/-- MPEG-TS: first segment / segment switch before the unit is written -/
def tsVideoPre (st : State) (op : WriteOp) (changed : Bool) (nd : Int) : State :=
  match (st.stream 0).nextSegment with
  | none => createFirstSegment st nd op.ntp
  | some seg =>
    if op.ra && (decide (nd - seg.startDTS ≥ st.cfg.segmentMinDur) || changed) then rotateSegments st nd op.ntp false
    else st

/-- h264 after the extractor accepted the unit -/
def wH264Emit (st0 st : State) (op : WriteOp) (changed : Bool) : State × WriteRes :=
  if st.cfg.variant = .mpegts then
    let nd := toDur op.dts (st0.tcfg op.track).clockRate
    tsWrite (tsVideoPre st op changed nd) (h264Unit st0 op) (op.sizes.headD 0) (some nd) false
  else
    fmp4Write st op.track op.ra changed (vidSample op)

/-- "DTS is not monotonically increasing" of the H264 DTS extractor -/
def extrReject (prev : Option Int) (dts : Int) : Bool :=
  match prev with | some p => decide (dts < p) | none => false

/-- the h264 track after the first-random-access gate (DTS extractor created / fed with the SPS) -/
def h264T1 (t : TrackSt) (op : WriteOp) : TrackSt :=
  { t with firstRA := true, extrSPS := t.extrSPS || decide (op.par ≠ 0) }
/-- … and after the extractor accepted the DTS -/
def h264T2 (t : TrackSt) (op : WriteOp) : TrackSt :=
  { h264T1 t op with extrPrev := some op.dts }

/-- h264 after `paramsStep`: gate, DTS extractor, emit -/
def wH264Gate (st0 st : State) (op : WriteOp) (changed : Bool) : State × WriteRes :=
  let t := st.track op.track
  if !t.firstRA && !op.ra then (st, .ok) else
  let st1 := st.setTrack op.track (h264T1 t op)
  if !(h264T1 t op).extrSPS then (st1, .err) else
  if extrReject (h264T1 t op).extrPrev op.dts then (st1, .err) else
  wH264Emit st0 (st1.setTrack op.track (h264T2 t op)) op changed

/-- the three ways through the h264 gate -/
theorem wH264Gate_cases (st0 st : State) (op : WriteOp) (changed : Bool) :
    (((st.track op.track).firstRA = false ∧ op.ra = false) ∧ wH264Gate st0 st op changed = (st, .ok)) ∨
    (¬ ((st.track op.track).firstRA = false ∧ op.ra = false) ∧
      wH264Gate st0 st op changed = (st.setTrack op.track (h264T1 (st.track op.track) op), .err)) ∨
    (¬ ((st.track op.track).firstRA = false ∧ op.ra = false) ∧
      (h264T1 (st.track op.track) op).extrSPS = true ∧
      extrReject (h264T1 (st.track op.track) op).extrPrev op.dts = false ∧
      wH264Gate st0 st op changed =
        wH264Emit st0 ((st.setTrack op.track (h264T1 (st.track op.track) op)).setTrack op.track
          (h264T2 (st.track op.track) op)) op changed) := by
  unfold wH264Gate
  simp only
  by_cases h1 : (!(st.track op.track).firstRA && !op.ra) = true
  · left
    simp only [h1, if_true]
    simp only [Bool.and_eq_true, Bool.not_eq_true'] at h1
    exact ⟨h1, trivial⟩
  · right
    have h1' : ¬ ((st.track op.track).firstRA = false ∧ op.ra = false) := by
      simpa [Bool.and_eq_true, Bool.not_eq_true'] using h1
    simp only [h1, if_false, Bool.false_eq_true]
    by_cases h2 : (!(h264T1 (st.track op.track) op).extrSPS) = true
    · left; simp only [h2, if_true]; exact ⟨h1', trivial⟩
    · simp only [h2, if_false, Bool.false_eq_true]
      by_cases h3 : extrReject (h264T1 (st.track op.track) op).extrPrev op.dts = true
      · left; simp only [h3, if_true]; exact ⟨h1', trivial⟩
      · right
        simp only [h3, if_false, Bool.false_eq_true]
        refine ⟨h1', ?_, ?_, trivial⟩
        · simpa using h2
        · simp

def h264Absorb (st : State) (op : WriteOp) : State :=
  let t := st.track op.track
  if op.par ≠ 0 ∧ op.par ≠ t.params then { (st.setTrack op.track { t with params := op.par }) with pending := true } else st

def wH264 (st : State) (op : WriteOp) : State × WriteRes :=
  if !op.ra && !op.pic then (h264Absorb st op, .ok) else
  wH264Gate st (paramsStep st op.track op.par op.ra).1 op (paramsStep st op.track op.par op.ra).2

def tsAudioPre (st : State) (op : WriteOp) (nd : Int) : State :=
  if st.isLeadingTrack op.track then
    match (st.stream 0).nextSegment with
    | none => createFirstSegment st nd op.ntp
    | some seg =>
      if seg.audioAUCount ≥ mpegtsSegmentMinAUCount ∧ nd - seg.startDTS ≥ st.cfg.segmentMinDur then
        rotateSegments st nd op.ntp false
      else st
  else st

def aacUnit (st : State) (op : WriteOp) : TsUnit :=
  { track := op.track, pts := mulDiv op.pts 90000 (st.tcfg op.track).clockRate,
    dts := mulDiv op.pts 90000 (st.tcfg op.track).clockRate, pays := op.pays }

def wAac (st : State) (op : WriteOp) : State × WriteRes :=
  let rate := (st.tcfg op.track).clockRate
  if st.cfg.variant = .mpegts then
    let lead := st.isLeadingTrack op.track
    let nd := toDur op.pts rate
    if !lead && (st.stream 0).nextSegment.isNone then (st, .ok) else
    tsWrite (tsAudioPre st op nd) (aacUnit st op) (sumSizes op.sizes) (if lead then some nd else none) lead
  else
    fmp4WriteMany st op.track (buildAac op.pts op.ntp rate (st.tcfg op.track).sampleRate 0 op.pays op.sizes)

theorem write_eq (st : State) (op : WriteOp) :
    write st op =
      match (st.tcfg op.track).codec with
      | .h264 => wH264 st op
      | .h265 | .vp9 => wVidGate (paramsStep st op.track op.par op.ra).1 op (paramsStep st op.track op.par op.ra).2 (vidSample op)
      | .av1 => wVidGate (paramsStep st op.track op.par op.ra).1 op (paramsStep st op.track op.par op.ra).2 (av1Sample op)
      | .opus => fmp4WriteMany st op.track (buildOpus op.pays op.sizes op.durs op.pts op.ntp)
      | .aac => wAac st op := by
  rfl

/-- parameter sets differing from the stored ones are stored and set `pendingParamsChange` -/
def paramsAbsorb (st : State) (ti par : Nat) : State :=
  if par ≠ 0 ∧ par ≠ (st.track ti).params then
    { (st.setTrack ti { st.track ti with params := par }) with pending := true }
  else st

theorem paramsStep_eq (st : State) (ti par : Nat) (ra : Bool) :
    paramsStep st ti par ra =
      if ra && (paramsAbsorb st ti par).pending then ({ paramsAbsorb st ti par with pending := false }, true)
      else (paramsAbsorb st ti par, false) := rfl

theorem h264Absorb_eq (st : State) (op : WriteOp) : h264Absorb st op = paramsAbsorb st op.track op.par := rfl

theorem paramsStep_frame (st : State) (ti par : Nat) (ra : Bool) :
    (paramsStep st ti par ra).1.cfg = st.cfg ∧ (paramsStep st ti par ra).1.streams = st.streams ∧
    (paramsStep st ti par ra).1.paths = st.paths := by
  unfold paramsStep
  simp only
  split <;> split <;> exact ⟨rfl, rfl, rfl⟩

theorem Step_paramsStep {st : State} {L : Nat} (h : GI st L) (ti par : Nat) (ra : Bool) :
    Step st (paramsStep st ti par ra).1 L :=
  Step_congr h (paramsStep_frame ..).1 (paramsStep_frame ..).2.1 (paramsStep_frame ..).2.2

theorem GI.L0 {st : State} {L : Nat} (h : GI st L) (hv : st.cfg.variant = .mpegts) : L = 0 := by
  have := h.ts1 hv; have := h.lt; omega

theorem Step_wVidGate {st : State} {L : Nat} (h : GI st L) (op : WriteOp) (changed : Bool) (smp : Sample) :
    Step st (wVidGate st op changed smp).1 L := by
  unfold wVidGate
  simp only
  split
  · exact Step.refl h
  · have h1 := Step_setTrack h op.track { st.track op.track with firstRA := true }
    exact h1.trans (Step_fmp4Write h1.gi _ _ _ _)

theorem Step_tsVideoPre {st : State} {L : Nat} (h : GI st L) (hv : st.cfg.variant = .mpegts) (op : WriteOp)
    (changed : Bool) (nd : Int) : Step st (tsVideoPre st op changed nd) L := by
  unfold tsVideoPre
  have hL := h.L0 hv
  split
  · rename_i hn; exact Step_createFirstSegment h (by rw [hL]; exact hn) _ _
  · split
    · exact Step_rotateSegments h _ _ _
    · exact Step.refl h

theorem Step_tsAudioPre {st : State} {L : Nat} (h : GI st L) (hv : st.cfg.variant = .mpegts) (op : WriteOp)
    (nd : Int) : Step st (tsAudioPre st op nd) L := by
  unfold tsAudioPre
  have hL := h.L0 hv
  split
  · split
    · rename_i hn; exact Step_createFirstSegment h (by rw [hL]; exact hn) _ _
    · split
      · exact Step_rotateSegments h _ _ _
      · exact Step.refl h
  · exact Step.refl h

theorem Step_wH264Emit {st0 st : State} {L : Nat} (h : GI st L) (op : WriteOp) (changed : Bool) :
    Step st (wH264Emit st0 st op changed).1 L := by
  unfold wH264Emit
  split
  · rename_i hv
    simp only
    have h1 := Step_tsVideoPre h hv op changed (toDur op.dts (st0.tcfg op.track).clockRate)
    cases hw : tsWrite (tsVideoPre st op changed (toDur op.dts (st0.tcfg op.track).clockRate)) (h264Unit st0 op)
      (op.sizes.headD 0) (some (toDur op.dts (st0.tcfg op.track).clockRate)) false with
    | mk st' r => exact h1.trans (Step_tsWrite h1.gi _ _ _ _ r hw)
  · exact Step_fmp4Write h _ _ _ _

theorem Step_wH264Gate {st0 st : State} {L : Nat} (h : GI st L) (op : WriteOp) (changed : Bool) :
    Step st (wH264Gate st0 st op changed).1 L := by
  rcases wH264Gate_cases st0 st op changed with ⟨_, e⟩ | ⟨_, e⟩ | ⟨_, _, _, e⟩
  · rw [e]; exact Step.refl h
  · rw [e]; exact Step_setTrack h _ _
  · rw [e]
    have h1 := Step_setTrack h op.track (h264T1 (st.track op.track) op)
    have h2 := h1.trans (Step_setTrack h1.gi op.track (h264T2 (st.track op.track) op))
    exact h2.trans (Step_wH264Emit h2.gi op changed)

theorem Step_wH264 {st : State} {L : Nat} (h : GI st L) (op : WriteOp) : Step st (wH264 st op).1 L := by
  unfold wH264
  split
  · unfold h264Absorb
    simp only
    split
    · exact Step_congr h rfl rfl rfl
    · exact Step.refl h
  · have h1 := Step_paramsStep h op.track op.par op.ra
    exact h1.trans (Step_wH264Gate h1.gi op _)

theorem Step_wAac {st : State} {L : Nat} (h : GI st L) (op : WriteOp) : Step st (wAac st op).1 L := by
  unfold wAac
  simp only
  split
  · rename_i hv
    split
    · exact Step.refl h
    · have h1 := Step_tsAudioPre h hv op (toDur op.pts (st.tcfg op.track).clockRate)
      cases hw : tsWrite (tsAudioPre st op (toDur op.pts (st.tcfg op.track).clockRate)) (aacUnit st op)
        (sumSizes op.sizes) (if st.isLeadingTrack op.track = true then some (toDur op.pts (st.tcfg op.track).clockRate) else none)
        (st.isLeadingTrack op.track) with
      | mk st' r => exact h1.trans (Step_tsWrite h1.gi _ _ _ _ r hw)
  · exact Step_fmp4WriteMany _ _ h

theorem Step_write {st : State} {L : Nat} (h : GI st L) (op : WriteOp) : Step st (write st op).1 L := by
  rw [write_eq]
  have hp := Step_paramsStep h op.track op.par op.ra
  split
  · exact Step_wH264 h op
  · exact hp.trans (Step_wVidGate hp.gi op _ _)
  · exact hp.trans (Step_wVidGate hp.gi op _ _)
  · exact hp.trans (Step_wVidGate hp.gi op _ _)
  · exact Step_fmp4WriteMany _ _ h
  · exact Step_wAac h op

theorem Step_run {L : Nat} : ∀ (ops : List WriteOp) {st : State}, GI st L → Step st (run st ops) L := by
  intro ops
  induction ops with
  | nil => intro st h; exact Step.refl h
  | cons op r ih =>
    intro st h
    have h1 := Step_write h op
    exact h1.trans (ih h1.gi)

end Hls.Muxer
