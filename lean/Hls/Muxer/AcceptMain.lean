import Hls.Muxer.AcceptRun
/-!
# C01 helper lemmas, part 8: list-level consequences (exact durations, contiguity, decoding) and `fmp4_main`
-/
namespace Hls.Muxer.Accept
open Hls.Muxer

/-- durations are exactly the distance to the successor -/
def ChainExact : List Sample → Prop
  | a :: b :: rest => a.dur = b.dts - a.dts ∧ ChainExact (b :: rest)
  | _ => True

def key4 (s : Sample) : Nat × Int × Int × Bool := (s.pay, s.dts, s.ptsOff, s.sync)

theorem chainExact_of (l : List Sample) (h : Chain l) (g : gapsOk (l.map (·.dts)) = true) : ChainExact l := by
  induction l with
  | nil => trivial
  | cons a l ih =>
    cases l with
    | nil => trivial
    | cons b rest =>
      simp only [Chain] at h
      simp only [List.map_cons, gapsOk, Bool.and_eq_true, decide_eq_true_eq] at g
      refine ⟨?_, ih h.2 (by simpa [gapsOk] using g.2)⟩
      rw [h.1]
      exact Int.emod_eq_of_lt (by omega) (by omega)

theorem chainExact_left : ∀ (l1 l2 : List Sample), ChainExact (l1 ++ l2) → ChainExact l1
  | [], _, _ => trivial
  | [_], _, _ => trivial
  | a :: b :: rest, l2, h => by
    simp only [List.cons_append, ChainExact] at h ⊢
    exact ⟨h.1, chainExact_left (b :: rest) l2 h.2⟩

theorem chainExact_right : ∀ (l1 l2 : List Sample), ChainExact (l1 ++ l2) → ChainExact l2
  | [], _, h => h
  | [a], l2, h => by
    cases l2 with
    | nil => trivial
    | cons b r => exact h.2
  | a :: b :: rest, l2, h => by
    simp only [List.cons_append, ChainExact] at h
    exact chainExact_right (b :: rest) l2 h.2

/-- the durations of a run of samples add up to the distance to the next sample -/
theorem sum_dur_bridge : ∀ (s : Sample) (l : List Sample) (nx : Sample) (rest : List Sample),
    ChainExact (s :: l ++ nx :: rest) → ((s :: l).map (·.dur)).sum = nx.dts - s.dts
  | s, [], nx, rest, h => by
    simp only [List.nil_append, List.cons_append, ChainExact] at h
    simp [h.1]
  | s, b :: l, nx, rest, h => by
    simp only [List.cons_append, ChainExact] at h
    have ih := sum_dur_bridge b l nx rest (by simpa using h.2)
    simp only [List.map_cons, List.sum_cons] at ih ⊢
    rw [ih, h.1]; omega

theorem decodeFrom_eq : ∀ (s : Sample) (l : List Sample), ChainExact (s :: l) →
    decodeFrom s.dts (s :: l) = (s :: l).map key4
  | s, [], _ => rfl
  | s, b :: l, h => by
    simp only [ChainExact] at h
    have ih := decodeFrom_eq b l h.2
    simp only [decodeFrom, List.map_cons] at ih ⊢
    rw [h.1, show s.dts + (b.dts - s.dts) = b.dts by omega, ih]
    rfl

/-- consecutive fragments have contiguous base times -/
def Contig : List PartTrack → Prop
  | p :: q :: rest => q.baseTime = endTime p ∧ Contig (q :: rest)
  | _ => True

theorem contig_of : ∀ (F : List PartTrack) (nx : List Sample), (∀ pt ∈ F, WF pt) →
    ChainExact (F.flatMap (·.samples) ++ nx) → Contig F
  | [], _, _, _ => trivial
  | [_], _, _, _ => trivial
  | p :: q :: rest, nx, hwf, hch => by
    obtain ⟨_, s, l, hs, hb⟩ := hwf p (by simp)
    obtain ⟨_, s', l', hs', hb'⟩ := hwf q (by simp)
    refine ⟨?_, contig_of (q :: rest) nx (fun pt h => hwf pt (by simp [h])) ?_⟩
    · simp only [List.flatMap_cons, hs, hs', List.append_assoc] at hch
      have := sum_dur_bridge s l s' (l' ++ (rest.flatMap (·.samples) ++ nx)) (by simpa using hch)
      unfold endTime
      rw [hb', hb, hs, this]; omega
    · have : (p :: q :: rest).flatMap (·.samples) ++ nx = p.samples ++ ((q :: rest).flatMap (·.samples) ++ nx) := by
        simp [List.flatMap_cons]
      rw [this] at hch
      exact chainExact_right _ _ hch

theorem decode_of (F : List PartTrack) (nx : List Sample) (hwf : ∀ pt ∈ F, WF pt)
    (hch : ChainExact (F.flatMap (·.samples) ++ nx)) :
    F.flatMap decode = (F.flatMap (·.samples)).map key4 := by
  induction F with
  | nil => rfl
  | cons p rest ih =>
    obtain ⟨_, s, l, hs, hb⟩ := hwf p (by simp)
    simp only [List.flatMap_cons, List.map_append, List.append_assoc] at hch ⊢
    rw [ih (fun pt h => hwf pt (by simp [h])) (chainExact_right _ _ hch)]
    congr 1
    unfold decode
    rw [hb, hs]
    exact decodeFrom_eq s l (by rw [← hs]; exact chainExact_left _ _ hch)

/-! ## the package for the fMP4 variants -/

theorem histA_eq (log : List Seg) (st : State) (t : Nat) :
    histA (lpOf log) (abs st t) = fragments log st t ++ cur (openPart st t) (st.track t).startDTS := rfl

theorem hist_samples (log : List Seg) (st : State) (t : Nat) :
    (histA (lpOf log) (abs st t)).flatMap (·.samples) = emitted log st t ++ openPart st t := by
  rw [histA_eq, List.flatMap_append]
  unfold emitted cur openPart
  cases (st.track t).samples <;> simp

theorem accepted_withDefaults (cfg : Cfg) (ops : List WriteOp) (t : Nat) :
    accepted cfg.withDefaults ops t = accepted cfg ops t := rfl

theorem fmp4_main (cfg0 : Cfg) (st0 : State) (ops : List WriteOp) (t : Nat)
    (hstart : start cfg0 = .ok st0) (hv : cfg0.variant ≠ .mpegts)
    (hin : InRange cfg0 ops = true) (hok : AllOk st0 ops = true) (ht : t < cfg0.tracks.length) :
    (runLog t st0 [] ops).1 = run st0 ops ∧
    TInv (lpOf (runLog t st0 [] ops).2) (abs (run st0 ops) t) (scan cfg0 t {} ops) (10 * (trackCfg cfg0 t).clockRate) := by
  obtain ⟨hcfg, g, tv⟩ := start_inv cfg0 st0 hstart hv t (10 * (trackCfg cfg0 t).clockRate)
  have hr : ∀ op ∈ ops, op.track < cfg0.tracks.length := by
    intro op hop
    have := List.all_eq_true.mp hin op hop
    simpa using this
  have := run_sim (n := cfg0.tracks.length) cfg0.withDefaults t ht ops st0 [] {} hcfg g tv hr hok
  exact ⟨this.1, this.2.2⟩

end Hls.Muxer.Accept
