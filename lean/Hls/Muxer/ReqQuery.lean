import Hls.Muxer.ReqSpec
/-!
# C06 — the query string copied into listed URIs: lemmas about `filterOutHLSParams`
Helper lemmas only.
-/
namespace Hls.Muxer

theorem insertKV_perm (kv : String × String) (l : List (String × String)) : (insertKV kv l).Perm (kv :: l) := by
  induction l with
  | nil => exact List.Perm.refl _
  | cons x xs ih =>
    unfold insertKV
    split
    · exact (List.Perm.cons x ih).trans (List.Perm.swap kv x xs)
    · exact List.Perm.refl _

theorem encodeOrder_perm (q : List (String × String)) : (encodeOrder q).Perm q := by
  unfold encodeOrder
  induction q with
  | nil => exact List.Perm.refl _
  | cons x xs ih =>
    rw [List.foldr_cons]
    exact (insertKV_perm x _).trans (List.Perm.cons x ih)

theorem mem_encodeOrder (q : List (String × String)) (kv : String × String) : kv ∈ encodeOrder q ↔ kv ∈ q :=
  (encodeOrder_perm q).mem_iff

/-- the pairs that survive the filter -/
theorem filter_pairs (raw : String) (q : List (String × String)) (ok : Bool) :
    ∃ out, filterOutHLSParams (.parsed raw q ok) = .pairs out ∧
      (∀ kv, kv ∈ out ↔ (kv ∈ q ∧ isHLSKey kv.1 = false)) ∧
      out.Perm (q.filter fun kv => !isHLSKey kv.1) := by
  refine ⟨_, rfl, fun kv => ?_, encodeOrder_perm _⟩
  rw [mem_encodeOrder, List.mem_filter]
  simp

theorem filter_hlsFree (rq : RawQuery) : (filterOutHLSParams rq).hlsFree := by
  cases rq with
  | empty => trivial
  | parsed raw q ok =>
    obtain ⟨out, ho, hm, _⟩ := filter_pairs raw q ok
    rw [ho]
    intro kv hkv
    exact ((hm kv).mp hkv).2

/-- every listed URI carries exactly the filtered query (the literal `gap.mp4` carries none) -/
theorem playlistUris_query (pl : Playlist) (o : OutQuery) (u : Uri) (hu : u ∈ playlistUris pl o) :
    u.query = o ∨ (u.key = none ∧ u.query = .none) := by
  unfold playlistUris at hu
  simp only [List.mem_append, List.mem_flatMap, List.mem_map] at hu
  rcases hu with ((hu | ⟨g, _, hu⟩) | ⟨p, _, hu⟩) | hu
  · split at hu
    · simp only [List.mem_singleton] at hu; subst hu; exact .inl rfl
    · cases hu
  · rcases hu with hu | ⟨p, _, hu⟩
    · split at hu
      · simp only [List.mem_singleton] at hu; subst hu; exact .inl rfl
      · simp only [List.mem_singleton] at hu; subst hu; exact .inr ⟨rfl, rfl⟩
    · subst hu; exact .inl rfl
  · subst hu; exact .inl rfl
  · split at hu
    · simp only [List.mem_singleton] at hu; subst hu; exact .inl rfl
    · cases hu

/-- F20 (fixed by commit 2aaf62b): the legacy filter passed a query that `url.ParseQuery` rejects
    through unfiltered, directives included. -/
theorem filterLegacy_copies_directive :
    ¬ (filterLegacy (.parsed "_HLS_msn=8&x=%zz" [("_HLS_msn", "8")] false)).hlsFree := by
  intro h
  exact h 0 (by decide)

end Hls.Muxer
