import Hls.Muxer.TimeFirst
/-!
# The first-unit invariant along `write` / `run` under the property's well-formedness (helper file for C02 / C03)
-/
namespace Hls.Muxer
open Hls.Gen

/-- FS only looks at the leading stream, three fields of the leading track and the configuration -/
theorem FS_of_fields {st st' : State} {L : Nat} (h : FS st L) (hc : st'.cfg = st.cfg)
    (hs : st'.stream L = st.stream L) (hl : st'.tracks.length = st.tracks.length)
    (hn : (st'.track L).next = (st.track L).next) (hm : (st'.track L).samples = (st.track L).samples) : FS st' L := by
  have e3 : st'.tcfg L = st.tcfg L := tcfg_congr hc L
  obtain ⟨a0, a, b, c, e, f, g⟩ := h
  exact ⟨by rw [hl]; exact a0, by rw [hs]; exact a, by rw [hs, hn]; exact b, by rw [hs, hm]; exact c,
    by rw [hs, hn]; exact e, by rw [hs, e3]; exact f, by rw [hs, hn, hm, e3]; exact g⟩

/-- nothing the leading stream / leading track can see has changed -/
structure SameL (st st' : State) (L : Nat) : Prop where
  cfg : st'.cfg = st.cfg
  stream : st'.stream L = st.stream L
  track : st'.track L = st.track L
  tlen : st'.tracks.length = st.tracks.length
  slen : st'.streams.length = st.streams.length

theorem SameL.refl (st : State) (L : Nat) : SameL st st L := ⟨rfl, rfl, rfl, rfl, rfl⟩
theorem SameL.trans {a b c : State} {L : Nat} (h1 : SameL a b L) (h2 : SameL b c L) : SameL a c L :=
  ⟨h2.cfg.trans h1.cfg, h2.stream.trans h1.stream, h2.track.trans h1.track, h2.tlen.trans h1.tlen, h2.slen.trans h1.slen⟩

theorem SameL.fs {st st' : State} {L : Nat} (h : SameL st st' L) (hfs : FS st L) : FS st' L :=
  FS_of_fields hfs h.cfg h.stream h.tlen (by rw [h.track]) (by rw [h.track])

theorem SameL_setTrack (st : State) {L i : Nat} (hne : i ≠ L) (t : TrackSt) : SameL st (st.setTrack i t) L := by
  refine ⟨rfl, rfl, ?_, by simp [State.setTrack], rfl⟩
  rw [track_setTrack, if_neg (fun h => hne h.1)]

theorem SameL_pws {st st' : State} {L ti : Nat} (hne : ti ≠ L) (hso : st.streamOf ti ≠ L) (smp : Sample) (r : WriteRes)
    (hw : partWriteSample st ti smp = (st', r)) : SameL st st' L := by
  cases r with
  | err => rw [pws_err st ti smp st' hw]; exact SameL.refl _ _
  | ok =>
    obtain ⟨indep, e, _⟩ := pws_ok st ti smp st' hw
    subst e
    refine ⟨rfl, ?_, ?_, by simp [State.setTrack, State.setStream], by simp [State.setStream]⟩
    · exact stream_of_set_other (st := st.setTrack ti (pwT (st.track ti) smp)) rfl (Ne.symm hso)
    · rw [setStream_track, track_setTrack, if_neg (fun h => hne h.1)]

/-- `fmp4Write` for a track that is not the leading one (and lives in another stream) -/
theorem SameL_fmp4Write {st : State} {L ti : Nat} (hne : ti ≠ L) (hso : st.streamOf ti ≠ L)
    (hnl : st.isLeadingTrack ti = false) (ra ch : Bool) (smp : Sample) :
    SameL st (fmp4Write st ti ra ch smp).1 L := by
  rw [fmp4Write_eq]
  have h1 : SameL st (fwSt1 st ti smp) L := SameL_setTrack st hne _
  have hl1 : (fwSt1 st ti smp).isLeadingTrack ti = false := hnl
  have e2 : ∀ old, fwSt2 st ti smp old = fwSt1 st ti smp := by
    intro old; unfold fwSt2; simp only [hl1, Bool.false_and, Bool.false_eq_true, if_false]
  split
  · exact SameL.refl _ _
  · split
    · exact h1
    · rename_i old _
      simp only [hl1, Bool.not_false, Bool.true_and]
      split
      · exact h1
      · rw [e2 old]
        cases hw : partWriteSample (fwSt1 st ti smp) ti (fwOld st ti smp old) with
        | mk st' r =>
          have h2 := h1.trans (SameL_pws hne (by exact hso) _ r hw)
          cases r with
          | err => exact h2
          | ok => simp only [if_true]; exact h2

theorem SameL_fmp4WriteMany {L ti : Nat} (hne : ti ≠ L) : ∀ (l : List Sample) {st : State},
    st.streamOf ti ≠ L → st.isLeadingTrack ti = false → SameL st (fmp4WriteMany st ti l).1 L := by
  intro l
  induction l with
  | nil => intro st _ _; exact SameL.refl _ _
  | cons x r ih =>
    intro st hso hnl
    have h1 := SameL_fmp4Write hne hso hnl true false x
    unfold fmp4WriteMany
    cases hw : fmp4Write st ti true false x with
    | mk st' res =>
      rw [hw] at h1
      cases res with
      | err => exact h1
      | ok =>
        refine h1.trans (ih ?_ ?_)
        · rw [streamOf_congr h1.cfg]; exact hso
        · unfold State.isLeadingTrack at hnl ⊢; rw [h1.cfg]; exact hnl

theorem SameL_paramsAbsorb (st : State) {L ti : Nat} (hne : ti ≠ L) (par : Nat) :
    SameL st (paramsAbsorb st ti par) L := by
  unfold paramsAbsorb
  split
  · have := SameL_setTrack st hne { st.track ti with params := par }
    exact ⟨this.cfg, this.stream, this.track, this.tlen, this.slen⟩
  · exact SameL.refl _ _

theorem SameL_paramsStep (st : State) {L ti : Nat} (hne : ti ≠ L) (par : Nat) (ra : Bool) :
    SameL st (paramsStep st ti par ra).1 L := by
  have h0 := SameL_paramsAbsorb st hne par
  rw [paramsStep_eq]
  split
  · exact ⟨h0.cfg, h0.stream, h0.track, h0.tlen, h0.slen⟩
  · exact h0

/-- a write to a non-leading track of an fMP4-variant muxer -/
theorem SameL_write {st : State} {L : Nat} (hv : st.cfg.variant ≠ .mpegts) (hL : leadingIdx st.cfg.tracks = L)
    (op : WriteOp) (hne : op.track ≠ L) : SameL st (write st op).1 L := by
  have hso : ∀ st' : State, st'.cfg = st.cfg → st'.streamOf op.track ≠ L := by
    intro st' hc
    unfold State.streamOf; rw [hc]
    cases hvv : st.cfg.variant with
    | mpegts => exact absurd hvv hv
    | fmp4 => exact hne
    | ll => exact hne
  have hnl : ∀ st' : State, st'.cfg = st.cfg → st'.isLeadingTrack op.track = false := by
    intro st' hc
    unfold State.isLeadingTrack; rw [hc, hL]; simpa using hne
  have gate : ∀ (st1 : State) (ch : Bool) (smp : Sample), SameL st st1 L → SameL st (wVidGate st1 op ch smp).1 L := by
    intro st1 ch smp h1
    unfold wVidGate
    simp only
    split
    · exact h1
    · have h2 := h1.trans (SameL_setTrack st1 hne { st1.track op.track with firstRA := true })
      exact h2.trans (SameL_fmp4Write hne (hso _ h2.cfg) (hnl _ h2.cfg) _ _ _)
  rw [write_eq]
  have hp := SameL_paramsStep st hne op.par op.ra
  split
  · -- h264
    unfold wH264
    split
    · rw [h264Absorb_eq]; exact SameL_paramsAbsorb st hne op.par
    · rcases wH264Gate_cases st (paramsStep st op.track op.par op.ra).1 op (paramsStep st op.track op.par op.ra).2
        with ⟨_, e⟩ | ⟨_, e⟩ | ⟨_, _, _, e⟩
      · rw [e]; exact hp
      · rw [e]; exact hp.trans (SameL_setTrack _ hne _)
      · rw [e]
        have h2 := hp.trans (SameL_setTrack _ hne (h264T1 ((paramsStep st op.track op.par op.ra).1.track op.track) op))
        have h3 := h2.trans (SameL_setTrack _ hne (h264T2 ((paramsStep st op.track op.par op.ra).1.track op.track) op))
        unfold wH264Emit
        rw [if_neg (by rw [h3.cfg]; exact hv)]
        exact h3.trans (SameL_fmp4Write hne (hso _ h3.cfg) (hnl _ h3.cfg) _ _ _)
  · exact gate _ _ _ hp
  · exact gate _ _ _ hp
  · exact gate _ _ _ hp
  · exact SameL_fmp4WriteMany hne _ (hso st rfl) (hnl st rfl)
  · unfold wAac
    simp only [hv, if_false]
    exact SameL_fmp4WriteMany hne _ (hso st rfl) (hnl st rfl)


/-! ## well-formed writes of the leading track -/

/-- the samples a write operation hands to `fmp4WriteSample` (before the +10 s offset) -/
def opSamples (st : State) (op : WriteOp) : List Sample :=
  match (st.tcfg op.track).codec with
  | .h264 | .h265 | .vp9 => [vidSample op]
  | .av1 => [av1Sample op]
  | .opus => buildOpus op.pays op.sizes op.durs op.pts op.ntp
  | .aac => buildAac op.pts op.ntp (st.tcfg op.track).clockRate (st.tcfg op.track).sampleRate 0 op.pays op.sizes

/-- a well-formed write (the quantifier of C01–C03): the call succeeds and no unit lies before −10 s -/
def WFWrite (st : State) (op : WriteOp) : Prop :=
  (write st op).2 = .ok ∧
  ∀ s ∈ opSamples st op, 0 ≤ s.dts + toTs fmp4StartDTS (st.tcfg op.track).clockRate

instance (st : State) (op : WriteOp) : Decidable (WFWrite st op) := by unfold WFWrite; exact inferInstance

/-- every write to track `T` along the run is well-formed (writes to other tracks are unconstrained) -/
def WFRun (T : Nat) : State → List WriteOp → Prop
  | _, [] => True
  | st, op :: r => (op.track = T → WFWrite st op) ∧ WFRun T (write st op).1 r

instance (T : Nat) : ∀ (ops : List WriteOp) (st : State), Decidable (WFRun T st ops)
  | [], _ => isTrue trivial
  | op :: r, st =>
    have := instDecidableWFRun T r (write st op).1
    by unfold WFRun; exact inferInstance

theorem buildOpus_sync : ∀ (pays sizes : List Nat) (durs : List Int) (pts ntp : Int),
    ∀ s ∈ buildOpus pays sizes durs pts ntp, s.sync = true := by
  intro pays
  induction pays with
  | nil => intro sizes durs pts ntp s hs; simp [buildOpus] at hs
  | cons p ps ih =>
    intro sizes durs pts ntp s hs
    cases sizes with
    | nil => simp [buildOpus] at hs
    | cons z zs =>
      cases durs with
      | nil => simp [buildOpus] at hs
      | cons d ds =>
        simp only [buildOpus, List.mem_cons] at hs
        rcases hs with h | h
        · rw [h]
        · exact ih _ _ _ _ s h

theorem buildAac_sync : ∀ (pays sizes : List Nat) (pts ntp rate sr : Int) (i : Nat),
    ∀ s ∈ buildAac pts ntp rate sr i pays sizes, s.sync = true := by
  intro pays
  induction pays with
  | nil => intro sizes pts ntp rate sr i s hs; simp [buildAac] at hs
  | cons p ps ih =>
    intro sizes pts ntp rate sr i s hs
    cases sizes with
    | nil => simp [buildAac] at hs
    | cons z zs =>
      simp only [buildAac, List.mem_cons] at hs
      rcases hs with h | h
      · rw [h]
      · exact ih _ _ _ _ _ _ s h

/-- a batch of sync samples through the leading track -/
theorem FS_fmp4WriteMany_lead {L : Nat} : ∀ (l : List Sample) {st : State}, GI st L → FS st L →
    st.cfg.variant ≠ .mpegts → st.isLeadingTrack L = true → st.streamOf L = L →
    (∀ s ∈ l, s.sync = true ∧ 0 ≤ s.dts + toTs fmp4StartDTS (st.tcfg L).clockRate) →
    (fmp4WriteMany st L l).2 = .ok →
    FS (fmp4WriteMany st L l).1 L ∧ (l ≠ [] → ((fmp4WriteMany st L l).1.track L).next.isSome) ∧
    (l = [] → (fmp4WriteMany st L l).1 = st) := by
  intro l
  induction l with
  | nil => intro st _ hfs _ _ _ _ _; exact ⟨hfs, fun h => absurd rfl h, fun _ => rfl⟩
  | cons x r ih =>
    intro st hg hfs hv hlead hso hall hok
    have hx := hall x (List.mem_cons_self)
    unfold fmp4WriteMany at hok ⊢
    cases hw : fmp4Write st L true false x with
    | mk st' res =>
      rw [hw] at hok
      cases res with
      | err => cases hok
      | ok =>
        simp only at hok ⊢
        have h1 := FS_fmp4Write_lead hg hfs hv hlead hso true false x hx.1.symm
          (by unfold fwSmp; simp only; omega) (fun _ => hx.1) (by rw [hw])
        rw [hw] at h1
        have hst := Step_fmp4Write hg L true false x
        rw [hw] at hst
        have hc : st'.cfg = st.cfg := hst.cfg
        have h2 := ih hst.gi h1.1 (by rw [hc]; exact hv)
          (by unfold State.isLeadingTrack at hlead ⊢; rw [hc]; exact hlead)
          (by rw [streamOf_congr hc]; exact hso)
          (fun s hs => by rw [tcfg_congr hc]; exact hall s (List.mem_cons_of_mem _ hs)) hok
        refine ⟨h2.1, fun _ => ?_, fun h => by cases h⟩
        cases r with
        | nil => rw [h2.2.2 rfl]; exact h1.2
        | cons y ys => exact h2.2.1 (by simp)


/-- `FS` plus: once the first random-access unit of the leading track was seen, the look-ahead is filled -/
def FSR (st : State) (L : Nat) : Prop := FS st L ∧ ((st.track L).firstRA = true → (st.track L).next.isSome)

structure TrackFieldsSame (st st' : State) : Prop where
  cfg : st'.cfg = st.cfg
  streams : st'.streams = st.streams
  tlen : st'.tracks.length = st.tracks.length
  next : ∀ tj, (st'.track tj).next = (st.track tj).next
  samples : ∀ tj, (st'.track tj).samples = (st.track tj).samples
  firstRA : ∀ tj, (st'.track tj).firstRA = (st.track tj).firstRA

theorem TrackFieldsSame.refl (st : State) : TrackFieldsSame st st :=
  ⟨rfl, rfl, rfl, fun _ => rfl, fun _ => rfl, fun _ => rfl⟩

theorem setTrack_fields (st : State) (i : Nat) (t : TrackSt) (h1 : t.next = (st.track i).next)
    (h2 : t.samples = (st.track i).samples) (h3 : t.firstRA = (st.track i).firstRA) :
    TrackFieldsSame st (st.setTrack i t) := by
  refine ⟨rfl, rfl, by simp [State.setTrack], ?_, ?_, ?_⟩
  all_goals
    intro tj
    rw [track_setTrack]
    split
    · rename_i h; rw [← h.1]; assumption
    · rfl

theorem paramsAbsorb_fields (st : State) (ti par : Nat) : TrackFieldsSame st (paramsAbsorb st ti par) := by
  unfold paramsAbsorb
  split
  · have := setTrack_fields st ti { st.track ti with params := par } rfl rfl rfl
    exact ⟨this.cfg, this.streams, this.tlen, this.next, this.samples, this.firstRA⟩
  · exact TrackFieldsSame.refl st

theorem paramsStep_fields (st : State) (ti par : Nat) (ra : Bool) :
    TrackFieldsSame st (paramsStep st ti par ra).1 := by
  have h := paramsAbsorb_fields st ti par
  rw [paramsStep_eq]
  split
  · exact ⟨h.cfg, h.streams, h.tlen, h.next, h.samples, h.firstRA⟩
  · exact h

theorem TrackFieldsSame.fsr {st st' : State} {L : Nat} (h : TrackFieldsSame st st') (hf : FSR st L) : FSR st' L :=
  ⟨FS_of_fields hf.1 h.cfg (stream_eq_of_streams h.streams L) h.tlen (h.next L) (h.samples L),
   by rw [h.firstRA, h.next]; exact hf.2⟩

theorem TrackFieldsSame.gi {st st' : State} {L : Nat} (h : TrackFieldsSame st st') (hg : GI st L) : GI st' L :=
  GI_congr hg h.cfg h.streams

/-- the video gate followed by `fmp4Write`, leading track -/
theorem FSR_gate_lead {st : State} {L : Nat} (hg : GI st L) (hf : FSR st L) (hv : st.cfg.variant ≠ .mpegts)
    (hlead : st.isLeadingTrack L = true) (hso : st.streamOf L = L) (ra ch : Bool) (smp : Sample)
    (hra : ra = smp.sync) (hnn : 0 ≤ smp.dts + toTs fmp4StartDTS (st.tcfg L).clockRate)
    (t' : TrackSt) (h1 : t'.next = (st.track L).next) (h2 : t'.samples = (st.track L).samples)
    (hopen : ¬ ((st.track L).firstRA = false ∧ ra = false))
    (hok : (fmp4Write (st.setTrack L t') L ra ch smp).2 = .ok) :
    FSR (fmp4Write (st.setTrack L t') L ra ch smp).1 L := by
  have e1 : (st.setTrack L t').track L = t' := by rw [track_setTrack]; simp [hf.1.trackLt]
  have hfs1 : FS (st.setTrack L t') L :=
    FS_of_fields hf.1 rfl rfl (by simp [State.setTrack]) (by rw [e1, h1]) (by rw [e1, h2])
  have hg1 : GI (st.setTrack L t') L := GI_congr hg rfl rfl
  have hfirst : ((st.setTrack L t').track L).next = none → smp.sync = true := by
    rw [e1, h1]
    intro hn
    cases hfr : (st.track L).firstRA with
    | true => have := hf.2 hfr; rw [hn] at this; cases this
    | false =>
      rw [← hra]
      cases hr : ra with
      | true => rfl
      | false => exact absurd ⟨hfr, hr⟩ hopen
  have := FS_fmp4Write_lead hg1 hfs1 hv hlead hso ra ch smp hra (by unfold fwSmp; simp only; show ¬ _ < (0:Int); have : (st.setTrack L t').tcfg L = st.tcfg L := rfl; rw [this]; omega) hfirst hok
  exact ⟨this.1, fun _ => this.2⟩


theorem setTrack_setTrack (st : State) (i : Nat) (a b : TrackSt) : (st.setTrack i a).setTrack i b = st.setTrack i b := by
  simp [State.setTrack, List.set_set]

/-- a well-formed write to the leading track keeps the first-unit invariant (fMP4 variants) -/
theorem FSR_write_lead {st : State} {L : Nat} (hg : GI st L) (hf : FSR st L) (hv : st.cfg.variant ≠ .mpegts)
    (hlead : st.isLeadingTrack L = true) (hso : st.streamOf L = L) (op : WriteOp) (hop : op.track = L)
    (hwf : WFWrite st op) : FSR (write st op).1 L := by
  obtain ⟨hok, hnn⟩ := hwf
  have hps := paramsStep_fields st op.track op.par op.ra
  have hgp := hps.gi hg
  have hfp := hps.fsr hf
  have hvp : (paramsStep st op.track op.par op.ra).1.cfg.variant ≠ .mpegts := by rw [hps.cfg]; exact hv
  have hlp : (paramsStep st op.track op.par op.ra).1.isLeadingTrack L = true := by
    unfold State.isLeadingTrack at hlead ⊢; rw [hps.cfg]; exact hlead
  have hsp : (paramsStep st op.track op.par op.ra).1.streamOf L = L := by rw [streamOf_congr hps.cfg]; exact hso
  have hrp : (paramsStep st op.track op.par op.ra).1.tcfg L = st.tcfg L := tcfg_congr hps.cfg L
  -- the generic video gate (h265 / vp9 / av1)
  have gate : ∀ (smp : Sample), smp.sync = op.ra → 0 ≤ smp.dts + toTs fmp4StartDTS (st.tcfg L).clockRate →
      (wVidGate (paramsStep st op.track op.par op.ra).1 op (paramsStep st op.track op.par op.ra).2 smp).2 = .ok →
      FSR (wVidGate (paramsStep st op.track op.par op.ra).1 op (paramsStep st op.track op.par op.ra).2 smp).1 L := by
    intro smp hsy hn hk
    unfold wVidGate at hk ⊢
    simp only at hk ⊢
    rw [hop] at hk ⊢
    by_cases hc : (!((paramsStep st L op.par op.ra).1.track L).firstRA && !op.ra) = true
    · rw [hop] at hfp; simp only [hc, if_true]; exact hfp
    · simp only [hc, if_false, Bool.false_eq_true] at hk ⊢
      rw [hop] at hgp hfp hvp hlp hsp hrp
      exact FSR_gate_lead hgp hfp hvp hlp hsp op.ra _ smp hsy.symm (by rw [hrp]; exact hn) _ rfl rfl
        (by simpa [Bool.and_eq_true, Bool.not_eq_true'] using hc) hk
  rw [write_eq] at hok ⊢
  unfold opSamples at hnn
  cases hcd : (st.tcfg op.track).codec with
  | h264 =>
    simp only [hcd] at hok hnn ⊢
    have hn : 0 ≤ (vidSample op).dts + toTs fmp4StartDTS (st.tcfg L).clockRate := by
      rw [← hop]; exact hnn _ (List.mem_singleton.2 rfl)
    unfold wH264 at hok ⊢
    by_cases hc : (!op.ra && !op.pic) = true
    · simp only [hc, if_true]
      rw [h264Absorb_eq]
      exact (paramsAbsorb_fields st op.track op.par).fsr hf
    · simp only [hc, if_false, Bool.false_eq_true] at hok ⊢
      rcases wH264Gate_cases st (paramsStep st op.track op.par op.ra).1 op (paramsStep st op.track op.par op.ra).2
        with ⟨_, e⟩ | ⟨_, e⟩ | ⟨hopen, _, _, e⟩
      · rw [e]; exact hfp
      · rw [e] at hok; cases hok
      · rw [e] at hok ⊢
        rw [setTrack_setTrack] at hok ⊢
        unfold wH264Emit at hok ⊢
        have hv3 : ¬ ((paramsStep st op.track op.par op.ra).1.setTrack op.track
            (h264T2 ((paramsStep st op.track op.par op.ra).1.track op.track) op)).cfg.variant = .mpegts := hvp
        rw [if_neg hv3] at hok ⊢
        rw [hop] at hok hopen hgp hfp hvp hlp hsp hrp ⊢
        exact FSR_gate_lead hgp hfp hvp hlp hsp op.ra _ (vidSample op) rfl (by rw [hrp]; exact hn) _ rfl rfl hopen hok
  | h265 =>
    simp only [hcd] at hok hnn ⊢
    exact gate _ rfl (by rw [← hop]; exact hnn _ (List.mem_singleton.2 rfl)) hok
  | vp9 =>
    simp only [hcd] at hok hnn ⊢
    exact gate _ rfl (by rw [← hop]; exact hnn _ (List.mem_singleton.2 rfl)) hok
  | av1 =>
    simp only [hcd] at hok hnn ⊢
    exact gate _ rfl (by rw [← hop]; exact hnn _ (List.mem_singleton.2 rfl)) hok
  | opus =>
    simp only [hcd] at hok hnn ⊢
    rw [hop] at hok hnn ⊢
    have := FS_fmp4WriteMany_lead (buildOpus op.pays op.sizes op.durs op.pts op.ntp) hg hf.1 hv hlead hso
      (fun s hs => ⟨buildOpus_sync _ _ _ _ _ s hs, hnn s hs⟩) hok
    refine ⟨this.1, ?_⟩
    cases hl : buildOpus op.pays op.sizes op.durs op.pts op.ntp with
    | nil => rw [hl] at this; rw [this.2.2 rfl]; exact hf.2
    | cons y ys => rw [hl] at this; exact fun _ => this.2.1 (by simp)
  | aac =>
    simp only [hcd] at hok hnn ⊢
    unfold wAac at hok ⊢
    simp only [hv, if_false] at hok ⊢
    rw [hop] at hok hnn ⊢
    have := FS_fmp4WriteMany_lead (buildAac op.pts op.ntp (st.tcfg L).clockRate (st.tcfg L).sampleRate 0 op.pays op.sizes)
      hg hf.1 hv hlead hso (fun s hs => ⟨buildAac_sync _ _ _ _ _ _ _ s hs, hnn s hs⟩) hok
    refine ⟨this.1, ?_⟩
    cases hl : buildAac op.pts op.ntp (st.tcfg L).clockRate (st.tcfg L).sampleRate 0 op.pays op.sizes with
    | nil => rw [hl] at this; rw [this.2.2 rfl]; exact hf.2
    | cons y ys => rw [hl] at this; exact fun _ => this.2.1 (by simp)


theorem streamOf_fmp4 {st : State} (hv : st.cfg.variant ≠ .mpegts) (t : Nat) : st.streamOf t = t := by
  unfold State.streamOf
  cases hvv : st.cfg.variant with
  | mpegts => exact absurd hvv hv
  | fmp4 => rfl
  | ll => rfl

theorem FSR_write {st : State} {L : Nat} (hg : GI st L) (hf : FSR st L) (hv : st.cfg.variant ≠ .mpegts)
    (hL : leadingIdx st.cfg.tracks = L) (op : WriteOp) (hwf : op.track = L → WFWrite st op) :
    FSR (write st op).1 L := by
  by_cases hop : op.track = L
  · exact FSR_write_lead hg hf hv (by unfold State.isLeadingTrack; rw [hL]; simp) (streamOf_fmp4 hv L) op hop (hwf hop)
  · have h := SameL_write hv hL op hop
    exact ⟨h.fs hf.1, by rw [h.track]; exact hf.2⟩

theorem FSR_run {L : Nat} : ∀ (ops : List WriteOp) {st : State}, GI st L → FSR st L → st.cfg.variant ≠ .mpegts →
    leadingIdx st.cfg.tracks = L → WFRun L st ops → FSR (run st ops) L := by
  intro ops
  induction ops with
  | nil => intro st _ hf _ _ _; exact hf
  | cons op r ih =>
    intro st hg hf hv hL hwf
    have hs := Step_write hg op
    exact ih hs.gi (FSR_write hg hf hv hL op hwf.1) (by rw [hs.cfg]; exact hv) (by rw [hs.cfg]; exact hL) hwf.2

theorem FSR_start {cfg0 : Cfg} {st : State} (h : start cfg0 = .ok st) (hv : st.cfg.variant ≠ .mpegts) :
    FSR st (leadingIdx st.cfg.tracks) := by
  obtain ⟨e, hne, _, _⟩ := start_ok h
  subst e
  generalize hc : cfg0.withDefaults = cfg at *
  have hlt := leadingIdx_lt hne
  have hcfg : (startState cfg).cfg = cfg := rfl
  rw [hcfg] at hv ⊢
  have hs : (startState cfg).streams = (List.range cfg.tracks.length).map fun i =>
      ({ tracks := [i], isLeading := (i = leadingIdx cfg.tracks), nextSegmentID := if cfg.variant = .ll then 7 else 0 } : StreamSt) := by
    cases hvv : cfg.variant with
    | mpegts => exact absurd hvv hv
    | fmp4 => simp [startState, startStreams, hvv]
    | ll => simp [startState, startStreams, hvv]
  have es : (startState cfg).stream (leadingIdx cfg.tracks) =
      { tracks := [leadingIdx cfg.tracks], isLeading := (leadingIdx cfg.tracks = leadingIdx cfg.tracks),
        nextSegmentID := if cfg.variant = .ll then 7 else 0 } := by
    simp [State.stream, hs, List.getD_eq_getElem?_getD, hlt]
  have et : (startState cfg).track (leadingIdx cfg.tracks) = { params := 1 } := by
    simp [State.track, startState, List.getD_eq_getElem?_getD, hlt]
  refine ⟨⟨(by simp [startState]; exact hlt), (by rw [es]), fun hx => (by rw [es] at hx; cases hx), fun _ => (by rw [et]),
    fun _ x hx => (by rw [et] at hx; cases hx), ?_, ?_⟩, fun hx => (by rw [et] at hx; cases hx)⟩
  · rw [es]; intro g hgm; simp [reals] at hgm
  · rw [es]; intro o ho; cases ho

/-- reachable states of an fMP4-variant muxer under well-formed leading writes satisfy the first-unit invariant -/
theorem reach_FSR {cfg : Cfg} {st0 : State} (h0 : start cfg = .ok st0) (hv : cfg.variant ≠ .mpegts)
    (ops : List WriteOp) (hwf : WFRun (leadStream st0) st0 ops) : FSR (run st0 ops) (leadStream st0) := by
  have hv0 : st0.cfg.variant ≠ .mpegts := by rw [start_variant h0]; exact hv
  have hL : leadStream st0 = leadingIdx st0.cfg.tracks := streamOf_fmp4 hv0 _
  rw [hL] at hwf ⊢
  have hg := GI_start h0
  rw [show st0.streamOf (leadingIdx st0.cfg.tracks) = leadingIdx st0.cfg.tracks from streamOf_fmp4 hv0 _] at hg
  exact FSR_run ops hg (FSR_start h0 hv0) hv0 rfl hwf

end Hls.Muxer

namespace Hls.Muxer

/-- streams with equal boundary keys list real segments with equal keys, position by position -/
theorem reals_key {l l' : List Entry} (h : l.map Entry.key = l'.map Entry.key) :
    (reals l).map Seg.key = (reals l').map Seg.key := by
  induction l generalizing l' with
  | nil =>
    cases l' with
    | nil => rfl
    | cons e r => simp at h
  | cons e r ih =>
    cases l' with
    | nil => simp at h
    | cons e' r' =>
      simp only [List.map_cons, List.cons.injEq] at h
      obtain ⟨h1, h2⟩ := h
      have := ih h2
      cases e with
      | gap d =>
        cases e' with
        | gap d' => exact this
        | seg g' => simp [Entry.key] at h1
      | seg g =>
        cases e' with
        | gap d' => simp [Entry.key] at h1
        | seg g' =>
          simp only [Entry.key, Prod.mk.injEq, Option.some.injEq, and_true] at h1
          simp only [reals, List.map_cons, h1, this]

theorem reals_key_index {l l' : List Entry} (h : l.map Entry.key = l'.map Entry.key) (k : Nat) (g : Seg)
    (hg : (reals l)[k]? = some g) : ∃ g', (reals l')[k]? = some g' ∧ g'.key = g.key := by
  have := congrArg (fun x => x[k]?) (reals_key h)
  simp only [List.getElem?_map, hg, Option.map_some] at this
  cases hx : (reals l')[k]? with
  | none => rw [hx] at this; simp at this
  | some g' => rw [hx] at this; simp only [Option.map_some, Option.some.injEq] at this; exact ⟨g', rfl, this.symm⟩

end Hls.Muxer
