import Hls.Muxer.TimeBasic
/-!
# Stream-level views of the muxer primitives (helper file for C02 / C03)

The frozen model's primitives are re-stated in factored form (`rpCore`, `rsCore`; the equations with the
model are `rfl`), and for each of them a pure function on one `StreamSt` (`cfS`, `rpS`, `rsS`, `pwS`, `twS`)
is shown to describe what happens to "its" stream; everything else is framed.
-/
namespace Hls.Muxer
open Hls.Gen

/-! ## createFirstSegmentStream -/

def cfS (v : Variant) (s : StreamSt) (d n : Int) : StreamSt :=
  let seg : Seg := { id := s.nextSegmentID, startDTS := d, startNTP := n }
  match v with
  | .mpegts => { s with nextSegment := some seg }
  | _ => { s with nextSegment := some seg, nextPart := some { id := s.nextPartID, startDTS := d } }

theorem cfs_streams (st : State) (si : Nat) (d n : Int) :
    (createFirstSegmentStream st si d n).streams = st.streams.set si (cfS st.cfg.variant (st.stream si) d n) := by
  unfold createFirstSegmentStream cfS
  cases st.cfg.variant <;> rfl

theorem cfs_frame (st : State) (si : Nat) (d n : Int) :
    (createFirstSegmentStream st si d n).tracks = st.tracks ∧
    (createFirstSegmentStream st si d n).paths = st.paths ∧
    SameCtl st (createFirstSegmentStream st si d n) := by
  unfold createFirstSegmentStream SameCtl
  cases st.cfg.variant <;> exact ⟨rfl, rfl, rfl, rfl, rfl, rfl, rfl⟩

/-! ## rotatePartsStream -/

/-- the part that `rotateParts` closes -/
def closePart (p : Part) (c : List PartTrack) (d : Int) : Part := { p with content := c, endDTS := d }

/-- PART-TARGET update of the leading stream -/
def rpTgt (s : StreamSt) (parts : List Part) : StreamSt × Nat :=
  if s.isLeading then
    let pt := partTargetDuration s.segments parts
    if s.partTargetDur = 0 then ({ s with partTargetDur := pt }, 0)
    else if pt ≠ s.partTargetDur then ({ s with partTargetDur := pt }, 1)
    else (s, 0)
  else (s, 0)

def rpCore (st0 : State) (si : Nat) (part0 : Part) (seg0 : Seg) (d : Int) (b : Bool) : State :=
  let nextPartID := (st0.stream si).nextPartID + 1
  let st := fpState st0 si
  let part := closePart part0 (fpContent st0 si) d
  let seg := { seg0 with stored := seg0.stored ++ [part] }
  let sp : Seg × List (PathKey × Handler) :=
    if st.cfg.variant = .ll then
      ({ seg with parts := seg.parts ++ [part] },
       regPath (regPath st.paths (.part si part.id) (.part part)) (.part si nextPartID) (.hint si nextPartID))
    else (seg, st.paths)
  let nextPart : Option Part := if b then some { id := nextPartID, startDTS := d } else none
  let s := { (st.stream si) with nextPartID := nextPartID, nextSegment := some sp.1, nextPart := nextPart }
  let tg := rpTgt s sp.1.parts
  { (st.setStream si tg.1) with paths := sp.2, encErrs := st.encErrs + tg.2 }

theorem rotatePartsStream_eq (st : State) (si : Nat) (d : Int) (b : Bool) :
    rotatePartsStream st si d b =
      match (st.stream si).nextPart, (st.stream si).nextSegment with
      | some part, some seg => rpCore st si part seg d b
      | _, _ => st := rfl

def rpS (v : Variant) (s : StreamSt) (c : List PartTrack) (d : Int) (b : Bool) : StreamSt :=
  match s.nextPart, s.nextSegment with
  | some part, some seg =>
    let part' := closePart part c d
    let parts' := if v = .ll then seg.parts ++ [part'] else seg.parts
    let seg' := { seg with stored := seg.stored ++ [part'], parts := parts' }
    { s with nextPartID := s.nextPartID + 1, nextSegment := some seg',
             nextPart := if b then some { id := s.nextPartID + 1, startDTS := d } else none,
             partTargetDur := if s.isLeading then partTargetDuration s.segments parts' else s.partTargetDur }
  | _, _ => s

theorem rpTgt_fst (s : StreamSt) (parts : List Part) :
    (rpTgt s parts).1 =
      { s with partTargetDur := if s.isLeading then partTargetDuration s.segments parts else s.partTargetDur } := by
  unfold rpTgt
  by_cases hl : s.isLeading = true
  · simp only [hl, if_true]
    by_cases h0 : s.partTargetDur = 0
    · simp only [h0, if_true]
    · simp only [h0, if_false]
      split
      · rfl
      · rename_i h; simp only [ne_eq, Decidable.not_not] at h; simp only [h]
        cases s; simp_all
  · simp only [hl, if_false, Bool.false_eq_true]
    cases s; simp_all

theorem rps_none (st : State) (si : Nat) (d : Int) (b : Bool)
    (h : (st.stream si).nextPart = none ∨ (st.stream si).nextSegment = none) :
    rotatePartsStream st si d b = st := by
  rw [rotatePartsStream_eq]
  rcases h with h | h
  · simp only [h]
  · simp only [h]; split <;> simp_all

theorem rps_some (st : State) (si : Nat) (d : Int) (b : Bool) (part seg)
    (hp : (st.stream si).nextPart = some part) (hs : (st.stream si).nextSegment = some seg) :
    rotatePartsStream st si d b = rpCore st si part seg d b := by
  rw [rotatePartsStream_eq]; simp only [hp, hs]

theorem rpS_none (v s c d b) (h : s.nextPart = none ∨ s.nextSegment = none) : rpS v s c d b = s := by
  unfold rpS
  rcases h with h | h
  · simp only [h]
  · simp only [h]; split <;> simp_all

theorem rpCore_streams (st : State) (si : Nat) (d : Int) (b : Bool) (part seg)
    (hp : (st.stream si).nextPart = some part) (hs : (st.stream si).nextSegment = some seg) :
    (rpCore st si part seg d b).streams =
      st.streams.set si (rpS st.cfg.variant (st.stream si) (fpContent st si) d b) := by
  have ho := fpState_onlyTracks st si
  unfold rpCore rpS
  simp only [hp, hs, rpTgt_fst, ho.cfg, ho.stream si, setStream_streams, ho.streams]
  by_cases hv : st.cfg.variant = .ll <;> simp only [hv, if_true, if_false]

theorem rps_streams (st : State) (si : Nat) (d : Int) (b : Bool) :
    (rotatePartsStream st si d b).streams =
      st.streams.set si (rpS st.cfg.variant (st.stream si) (fpContent st si) d b) := by
  cases hp : (st.stream si).nextPart with
  | none => rw [rps_none _ _ _ _ (Or.inl hp), rpS_none _ _ _ _ _ (Or.inl hp)]; exact streams_set_self st si
  | some part =>
    cases hs : (st.stream si).nextSegment with
    | none => rw [rps_none _ _ _ _ (Or.inr hs), rpS_none _ _ _ _ _ (Or.inr hs)]; exact streams_set_self st si
    | some seg => rw [rps_some _ _ _ _ _ _ hp hs]; exact rpCore_streams st si d b part seg hp hs

theorem rpCore_sameCtl (st : State) (si : Nat) (d : Int) (b : Bool) (part seg) :
    SameCtl st (rpCore st si part seg d b) := by
  have ho := (fpState_onlyTracks st si).sameCtl
  unfold SameCtl at *
  exact ho

theorem rps_sameCtl (st : State) (si : Nat) (d : Int) (b : Bool) : SameCtl st (rotatePartsStream st si d b) := by
  rw [rotatePartsStream_eq]
  split
  · exact rpCore_sameCtl ..
  · exact SameCtl.refl _

/-- tracks after `rotatePartsStream`: sample lists of the stream's tracks emptied (or nothing happened) -/
theorem rps_track (st : State) (si : Nat) (d : Int) (b : Bool) (tj : Nat) :
    (rotatePartsStream st si d b).track tj = st.track tj ∨
    (rotatePartsStream st si d b).track tj = clearSamples (st.track tj) := by
  rw [rotatePartsStream_eq]
  split
  · have : (rpCore st si ‹_› ‹_› d b).track tj = (fpState st si).track tj := rfl
    rw [this, fpState_track]
    split
    · exact Or.inr rfl
    · exact Or.inl rfl
  · exact Or.inl rfl

theorem rps_tracks_length (st : State) (si : Nat) (d : Int) (b : Bool) :
    (rotatePartsStream st si d b).tracks.length = st.tracks.length := by
  rw [rotatePartsStream_eq]
  split
  · exact fpState_tracks_length st si
  · rfl

theorem rps_track_some (st : State) (si : Nat) (d : Int) (b : Bool) (tj : Nat) (part seg)
    (hp : (st.stream si).nextPart = some part) (hs : (st.stream si).nextSegment = some seg) :
    (rotatePartsStream st si d b).track tj =
      if tj ∈ (st.stream si).tracks then clearSamples (st.track tj) else st.track tj := by
  rw [rps_some _ _ _ _ _ _ hp hs]
  have : (rpCore st si part seg d b).track tj = (fpState st si).track tj := rfl
  rw [this, fpState_track]


/-! ## rotateSegmentsStream -/

/-- "delete old segments and parts" -/
def rsDel (st : State) (si : Nat) (s : StreamSt) (segments : List Entry) (paths : List (PathKey × Handler)) :
    List Entry × List (PathKey × Handler) × List PathKey × Nat :=
  if segments.length > st.cfg.segmentCount then
    match segments with
    | .seg old :: rest =>
      let paths := old.parts.foldl (fun ps p => unregPath ps (.part si p.id)) paths
      let paths := unregPath paths (.seg si old.id)
      (rest, paths, st.files.filter (· ≠ .seg si old.id), s.deleteCount + 1)
    | .gap _ :: rest => (rest, paths, st.files, s.deleteCount + 1)
    | [] => (segments, paths, st.files, s.deleteCount)
  else (segments, paths, st.files, s.deleteCount)

/-- "regenerate init" -/
def rsInit (st : State) (si : Nat) (s : StreamSt) (seg : Seg) (paths : List (PathKey × Handler)) :
    List (PathKey × Handler) × Bool :=
  if st.cfg.variant ≠ .mpegts ∧ (!s.initPresent || seg.forced) then
    (regPath paths (.init si) (.init (s.tracks.map fun t => (st.track t).params)), true)
  else (paths, s.initPresent)

/-- TARGETDURATION update of the leading stream -/
def rsTgt (s : StreamSt) : StreamSt × Nat :=
  if s.isLeading then
    let td := targetDuration s.segments
    if s.targetDur = 0 then ({ s with targetDur := td }, 0)
    else if td > s.targetDur then ({ s with targetDur := td }, 1)
    else (s, 0)
  else (s, 0)

/-- the list of segments after a rotation, before trimming -/
def appendSeg (v : Variant) (segs : List Entry) (g : Seg) : List Entry :=
  (if v = .ll ∧ segs.isEmpty then gaps g.duration else segs) ++ [.seg g]

def closeSeg (g : Seg) (d : Int) : Seg := { g with endDTS := d }

def rsCore (st : State) (si : Nat) (seg0 : Seg) (nextDTS nextNTP : Int) (force : Bool) : State :=
  let s := st.stream si
  let seg := closeSeg seg0 nextDTS
  let h : Handler := if st.cfg.variant = .mpegts then .segTS seg.tsUnits else .segFMP4 seg.stored
  let del := rsDel st si s (appendSeg st.cfg.variant s.segments seg) (regPath st.paths (.seg si seg.id) h)
  let ini := rsInit st si s seg del.2.1
  let newSeg : Seg := { id := s.nextSegmentID + 1, startDTS := nextDTS, startNTP := nextNTP,
                        forced := if st.cfg.variant = .mpegts then false else force }
  let nextPart : Option Part :=
    if st.cfg.variant = .mpegts then none else some { id := s.nextPartID, startDTS := nextDTS }
  let s' := { s with nextSegmentID := s.nextSegmentID + 1, segments := del.1, deleteCount := del.2.2.2,
                     initPresent := ini.2, nextSegment := some newSeg, nextPart := nextPart }
  let tg := rsTgt s'
  { (st.setStream si tg.1) with paths := ini.1, files := del.2.2.1 ++ [.seg si newSeg.id], encErrs := st.encErrs + tg.2 }

/-- the state on which the second half of `rotateSegmentsStream` works -/
def rsPre (st : State) (si : Nat) (d : Int) : State :=
  if st.cfg.variant ≠ .mpegts then rotatePartsStream st si d false else st

theorem rotateSegmentsStream_eq (st : State) (si : Nat) (d n : Int) (f : Bool) :
    rotateSegmentsStream st si d n f =
      match ((rsPre st si d).stream si).nextSegment with
      | none => rsPre st si d
      | some seg => rsCore (rsPre st si d) si seg d n f := rfl

def trimSegs (segCount : Nat) (l : List Entry) : List Entry := if l.length > segCount then l.drop 1 else l

def newTarget (T td : Int) : Int := if T = 0 then td else if td > T then td else T

def rsTailS (v : Variant) (segCount : Nat) (s : StreamSt) (d n : Int) (f : Bool) : StreamSt :=
  match s.nextSegment with
  | none => s
  | some seg =>
    let all := appendSeg v s.segments (closeSeg seg d)
    let segments := trimSegs segCount all
    { s with nextSegmentID := s.nextSegmentID + 1, segments := segments,
             deleteCount := if all.length > segCount then s.deleteCount + 1 else s.deleteCount,
             initPresent := if v ≠ .mpegts ∧ (!s.initPresent || seg.forced) then true else s.initPresent,
             nextSegment := some { id := s.nextSegmentID + 1, startDTS := d, startNTP := n,
                                   forced := if v = .mpegts then false else f },
             nextPart := if v = .mpegts then none else some { id := s.nextPartID, startDTS := d },
             targetDur := if s.isLeading then newTarget s.targetDur (targetDuration segments) else s.targetDur }

def rsS (v : Variant) (segCount : Nat) (s : StreamSt) (c : List PartTrack) (d n : Int) (f : Bool) : StreamSt :=
  rsTailS v segCount (if v ≠ .mpegts then rpS v s c d false else s) d n f

theorem appendSeg_ne_nil (v segs g) : appendSeg v segs g ≠ [] := by
  unfold appendSeg; simp

theorem rsDel_fst (st : State) (si : Nat) (s : StreamSt) (l : List Entry) (paths) (hne : l ≠ []) :
    (rsDel st si s l paths).1 = trimSegs st.cfg.segmentCount l := by
  unfold rsDel trimSegs
  split
  · cases l with
    | nil => exact absurd rfl hne
    | cons e r => cases e <;> rfl
  · rfl

theorem rsDel_count (st : State) (si : Nat) (s : StreamSt) (l : List Entry) (paths) (hne : l ≠ []) :
    (rsDel st si s l paths).2.2.2 = if l.length > st.cfg.segmentCount then s.deleteCount + 1 else s.deleteCount := by
  unfold rsDel
  split
  · cases l with
    | nil => exact absurd rfl hne
    | cons e r => cases e <;> rfl
  · rfl

theorem rsInit_snd (st : State) (si : Nat) (s : StreamSt) (seg : Seg) (paths) :
    (rsInit st si s seg paths).2 =
      if st.cfg.variant ≠ .mpegts ∧ (!s.initPresent || seg.forced) then true else s.initPresent := by
  unfold rsInit; split <;> rfl

theorem rsTgt_fst (s : StreamSt) :
    (rsTgt s).1 = { s with targetDur := if s.isLeading then newTarget s.targetDur (targetDuration s.segments) else s.targetDur } := by
  unfold rsTgt newTarget
  by_cases hl : s.isLeading = true
  · simp only [hl, if_true]
    by_cases h0 : s.targetDur = 0
    · simp only [h0, if_true]
    · simp only [h0, if_false]
      split
      · rfl
      · cases s; simp_all
  · simp only [hl, if_false, Bool.false_eq_true]
    cases s; simp_all

theorem rsCore_streams (st : State) (si : Nat) (seg : Seg) (d n : Int) (f : Bool)
    (hs : (st.stream si).nextSegment = some seg) :
    (rsCore st si seg d n f).streams =
      st.streams.set si (rsTailS st.cfg.variant st.cfg.segmentCount (st.stream si) d n f) := by
  unfold rsCore rsTailS
  simp only [hs, rsTgt_fst, rsDel_fst _ _ _ _ _ (appendSeg_ne_nil _ _ _), rsDel_count _ _ _ _ _ (appendSeg_ne_nil _ _ _),
    rsInit_snd, setStream_streams]
  rfl

theorem rsCore_sameCtl (st : State) (si : Nat) (seg : Seg) (d n : Int) (f : Bool) :
    SameCtl st (rsCore st si seg d n f) := ⟨rfl, rfl, rfl, rfl, rfl⟩

theorem rsCore_tracks (st : State) (si : Nat) (seg : Seg) (d n : Int) (f : Bool) :
    (rsCore st si seg d n f).tracks = st.tracks := rfl

theorem rsPre_streams (st : State) (si : Nat) (d : Int) :
    (rsPre st si d).streams =
      st.streams.set si (if st.cfg.variant ≠ .mpegts then rpS st.cfg.variant (st.stream si) (fpContent st si) d false
                         else st.stream si) := by
  unfold rsPre
  split
  · exact rps_streams ..
  · exact streams_set_self st si

theorem rsPre_sameCtl (st : State) (si : Nat) (d : Int) : SameCtl st (rsPre st si d) := by
  unfold rsPre
  split
  · exact rps_sameCtl ..
  · exact SameCtl.refl _

theorem rss_streams (st : State) (si : Nat) (d n : Int) (f : Bool) (hl : si < st.streams.length) :
    (rotateSegmentsStream st si d n f).streams =
      st.streams.set si (rsS st.cfg.variant st.cfg.segmentCount (st.stream si) (fpContent st si) d n f) := by
  rw [rotateSegmentsStream_eq]
  have hpre := rsPre_streams st si d
  have hcfg : (rsPre st si d).cfg = st.cfg := (rsPre_sameCtl st si d).1
  have hsi := stream_of_set_same hpre hl
  unfold rsS
  cases hs : ((rsPre st si d).stream si).nextSegment with
  | none =>
    simp only
    rw [hpre]
    rw [hsi] at hs
    simp only [rsTailS, hs]
  | some seg =>
    simp only
    rw [rsCore_streams _ _ _ _ _ _ hs, hpre, hcfg, hsi, List.set_set]

theorem rss_sameCtl (st : State) (si : Nat) (d n : Int) (f : Bool) : SameCtl st (rotateSegmentsStream st si d n f) := by
  rw [rotateSegmentsStream_eq]
  split
  · exact rsPre_sameCtl ..
  · exact (rsPre_sameCtl ..).trans (rsCore_sameCtl ..)

theorem rss_tracks_length (st : State) (si : Nat) (d n : Int) (f : Bool) :
    (rotateSegmentsStream st si d n f).tracks.length = st.tracks.length := by
  have h : (rsPre st si d).tracks.length = st.tracks.length := by
    unfold rsPre; split
    · exact rps_tracks_length ..
    · rfl
  rw [rotateSegmentsStream_eq]
  split
  · exact h
  · exact h

theorem rss_track (st : State) (si : Nat) (d n : Int) (f : Bool) (tj : Nat) :
    (rotateSegmentsStream st si d n f).track tj = (rsPre st si d).track tj := by
  rw [rotateSegmentsStream_eq]
  split <;> rfl


/-! ## partWriteSample / tsWrite -/

def pwS (s : StreamSt) (sz : Nat) (indep : Bool) : StreamSt :=
  match s.nextSegment, s.nextPart with
  | some seg, some part =>
    { s with nextSegment := some { seg with size := seg.size + sz },
             nextPart := some (if indep then { part with independent := true } else part) }
  | _, _ => s

/-- the track after `muxerPart.writeSample` -/
def pwT (t : TrackSt) (smp : Sample) : TrackSt :=
  let t := match t.samples with
    | [] => { t with startDTS := smp.dts }
    | _ => t
  { t with samples := t.samples ++ [smp] }

theorem pwT_samples (t : TrackSt) (smp : Sample) : (pwT t smp).samples = t.samples ++ [smp] := by
  unfold pwT; split <;> simp_all
theorem pwT_next (t : TrackSt) (smp : Sample) : (pwT t smp).next = t.next := by
  unfold pwT; split <;> rfl
theorem pwT_params (t : TrackSt) (smp : Sample) : (pwT t smp).params = t.params := by
  unfold pwT; split <;> rfl
theorem pwT_firstRA (t : TrackSt) (smp : Sample) : (pwT t smp).firstRA = t.firstRA := by
  unfold pwT; split <;> rfl
theorem pwT_startDTS (t : TrackSt) (smp : Sample) :
    (pwT t smp).startDTS = match t.samples with | [] => smp.dts | _ => t.startDTS := by
  unfold pwT; split <;> rfl

theorem pws_err (st : State) (ti : Nat) (smp : Sample) (st' : State)
    (h : partWriteSample st ti smp = (st', .err)) : st' = st := by
  simp only [partWriteSample] at h
  split at h
  · split at h
    · exact (Prod.mk.inj h).1.symm
    · exact absurd (Prod.mk.inj h).2 (by decide)
  · exact (Prod.mk.inj h).1.symm

theorem pws_ok (st : State) (ti : Nat) (smp : Sample) (st' : State)
    (h : partWriteSample st ti smp = (st', .ok)) :
    ∃ indep, st' = (st.setTrack ti (pwT (st.track ti) smp)).setStream (st.streamOf ti)
        (pwS (st.stream (st.streamOf ti)) smp.size indep) ∧
      ((st.stream (st.streamOf ti)).nextSegment.isSome ∧ (st.stream (st.streamOf ti)).nextPart.isSome) ∧
      (indep = true → smp.sync = true) ∧
      ((st.isLeadingTrack ti = true ∨ (st.stream (st.streamOf ti)).tracks.length = 1) → indep = smp.sync) := by
  simp only [partWriteSample] at h
  split at h
  · rename_i seg part hs hp
    split at h
    · exact absurd (Prod.mk.inj h).2 (by decide)
    · refine ⟨(st.isLeadingTrack ti || decide ((st.stream (st.streamOf ti)).tracks.length = 1)) && smp.sync, ?_, ?_, ?_, ?_⟩
      · rw [← (Prod.mk.inj h).1]
        unfold pwS pwT
        simp only [hs, hp]
        rfl
      · simp [hs, hp]
      · intro hi; simp only [Bool.and_eq_true] at hi; exact hi.2
      · intro hi
        have : (st.isLeadingTrack ti || decide ((st.stream (st.streamOf ti)).tracks.length = 1)) = true := by
          rcases hi with hi | hi <;> simp [hi]
        rw [this, Bool.true_and]
  · exact absurd (Prod.mk.inj h).2 (by decide)

def twS (s : StreamSt) (u : TsUnit) (size : Nat) (endDTS : Option Int) (countAU : Bool) : StreamSt :=
  match s.nextSegment with
  | none => s
  | some seg =>
    let seg := { seg with size := seg.size + size, tsUnits := seg.tsUnits ++ [u] }
    let seg := if countAU then { seg with audioAUCount := seg.audioAUCount + 1 } else seg
    let seg := match endDTS with | some e => { seg with endDTS := e } | none => seg
    { s with nextSegment := some seg }

theorem tsw_err (st : State) (u size e c) (st' : State) (h : tsWrite st u size e c = (st', .err)) : st' = st := by
  simp only [tsWrite] at h
  split at h
  · exact (Prod.mk.inj h).1.symm
  · split at h
    · exact (Prod.mk.inj h).1.symm
    · exact absurd (Prod.mk.inj h).2 (by decide)

theorem tsw_ok (st : State) (u size e c) (st' : State) (h : tsWrite st u size e c = (st', .ok)) :
    st' = st.setStream 0 (twS (st.stream 0) u size e c) ∧ (st.stream 0).nextSegment.isSome := by
  simp only [tsWrite] at h
  split at h
  · exact absurd (Prod.mk.inj h).2 (by decide)
  · rename_i seg hs
    split at h
    · exact absurd (Prod.mk.inj h).2 (by decide)
    · rw [← (Prod.mk.inj h).1]
      unfold twS
      simp only [hs]
      exact ⟨rfl, rfl⟩

end Hls.Muxer
