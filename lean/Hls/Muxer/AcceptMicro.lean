import Hls.Muxer.AcceptInv
/-!
# C01 helper lemmas, part 5: one `fmp4WriteSample` against one step of the specification's scan (`micro`)
-/
namespace Hls.Muxer.Accept
open Hls.Muxer

/-- the scan of the spec after the random-access gate -/
def scanCore (cfg : Cfg) (t k : Nat) (s : Scan) (u : AU) : Scan :=
  if u.dts + 10 * (trackCfg cfg k).clockRate < 0 then s else
  let s := if k = leadOf cfg then { s with leadN := s.leadN + 1 } else s
  if k ≠ t then s else
  match s.pend with
  | none => { s with pend := some u }
  | some p => { s with out := if k = leadOf cfg ∨ s.leadN ≥ 2 then s.out ++ [p] else s.out, pend := some u }

theorem scanUnit_eq (cfg : Cfg) (t k : Nat) (s : Scan) (u : AU) :
    scanUnit cfg t k s u =
      if (trackCfg cfg k).codec.isVideo && !u.sync && !s.seenRA.contains k then s
      else scanCore cfg t k (if (trackCfg cfg k).codec.isVideo then { s with seenRA := k :: s.seenRA } else s) u := rfl

theorem toTs_start (r : Int) : toTs fmp4StartDTS r = 10 * r := by
  simp [toTs, fmp4StartDTS, S, Hls.Gen.durationToTimestamp, Hls.Gen.multiplyAndDivide]

theorem leadOf_eq_leadingIdx (cfg : Cfg) : leadOf cfg = leadingIdx cfg.tracks := by
  unfold leadOf leadingIdx
  cases List.findIdx? (fun x => x.codec.isVideo) cfg.tracks <;> rfl

def lpOf (log : List Seg) : List PartTrack := partTracks (log.flatMap (·.stored))

theorem lpOf_obs (t : Nat) (st st' : State) (log : List Seg) :
    lpOf (obs t st st' log) = obsA (abs st t) (abs st' t) (lpOf log) := by
  unfold obs obsA lpOf
  simp only [abs]
  by_cases h : (st'.stream t).nextSegmentID ≠ (st.stream t).nextSegmentID
  · simp only [if_pos h]; simp [partTracks, h]
  · simp only [if_neg h]; simp [h]

structure GInv (st : State) (n L : Nat) (sp : Scan) : Prop where
  shape : Shape st n L
  seg   : ∀ j, j < n → (abs st j).hasSeg = decide (sp.leadN ≥ 2)
  part  : ∀ j, j < n → (abs st j).hasPart = decide (sp.leadN ≥ 2)
  lead  : (abs st L).next.isSome = decide (sp.leadN ≥ 1)
  ra    : ∀ k, k < n → (trackCfg st.cfg k).codec.isVideo = true → (abs st k).firstRA = sp.seenRA.contains k

theorem TInv.congr_sp {lp : List PartTrack} {a : Abs} {sp sp' : Scan} {off : Int} (t : TInv lp a sp off)
    (e1 : sp'.out = sp.out) (e2 : sp'.pend = sp.pend) : TInv lp a sp' off :=
  ⟨by rw [e1]; exact t.out, by rw [e2]; exact t.pend, t.chain, t.wf, t.empty⟩

theorem obsA_same (a a' : Abs) (lp : List PartTrack) (h : a'.segId = a.segId) : obsA a a' lp = lp := by
  simp [obsA, h]

theorem scanCore_seenRA (cfg : Cfg) (t k : Nat) (s : Scan) (u : AU) : (scanCore cfg t k s u).seenRA = s.seenRA := by
  unfold scanCore
  split
  · rfl
  · simp only []
    split
    · split <;> rfl
    · split <;> split <;> rfl

theorem pend_none_of {lp : List PartTrack} {a : Abs} {sp : Scan} {off : Int} (t : TInv lp a sp off)
    (h : a.next = none) : sp.pend = none := by
  have := t.pend
  rw [h] at this
  cases hp : sp.pend with
  | none => rfl
  | some p => rw [hp] at this; simp at this

theorem pend_some_of {lp : List PartTrack} {a : Abs} {sp : Scan} {off : Int} (t : TInv lp a sp off)
    (old : Sample) (h : a.next = some old) : ∃ p, sp.pend = some p := by
  have := t.pend
  rw [h] at this
  cases hp : sp.pend with
  | none => rw [hp] at this; simp at this
  | some p => exact ⟨p, rfl⟩

theorem TInv.emit' {lp : List PartTrack} {a : Abs} {sp : Scan} {off : Int} (t : TInv lp a sp off)
    (old old' smp : Sample) (p u : AU) (hn : a.next = some old) (hp : sp.pend = some p)
    (e1 : old'.dts = old.dts) (e2 : old'.dur = (smp.dts - old.dts) % 4294967296) (e3 : AU.ofSample old' = AU.ofSample old)
    (hu : AU.ofSample smp = shiftAU off u) (c : Prop) [Decidable c] (hc : c ↔ a.hasSeg = false) :
    TInv lp ((if c then absOpen else id) (absPush old' { a with next := some smp }))
      { sp with out := sp.out ++ [p], pend := some u } off := by
  by_cases h : c
  · have := t.emit old old' smp p u hn hp e1 e2 e3 hu true (by rw [hc.mp h]; rfl)
    simpa [h] using this
  · have hs : a.hasSeg = true := by
      cases hh : a.hasSeg
      · exact absurd (hc.mpr hh) h
      · rfl
    have := t.emit old old' smp p u hn hp e1 e2 e3 hu false (by rw [hs]; rfl)
    simpa [h] using this

theorem obsA_congr (a b a' : Abs) (lp : List PartTrack) (h : a.segId = b.segId) : obsA a a' lp = obsA b a' lp := by
  simp [obsA, h]

theorem mid_fields (c : Prop) [Decidable c] (p : Prop) [Decidable p] (old' smp' : Sample) (a : Abs) :
    ((if c then absOpen else id) (if p then absPush old' { a with next := some smp' } else a)).firstRA = a.firstRA ∧
    ((if c then absOpen else id) (if p then absPush old' { a with next := some smp' } else a)).segId = a.segId ∧
    ((if c then absOpen else id) (if p then absPush old' { a with next := some smp' } else a)).next
      = (if p then some smp' else a.next) := by
  by_cases hc : c <;> by_cases hp : p <;> simp [hc, hp, absOpen, absPush]

theorem micro {st st' : State} {n L : Nat} {sp : Scan} {lp : List PartTrack} (t : Nat) (ht : t < n) (ti : Nat) (hti : ti < n)
    (g : GInv st n L sp) (tv : TInv lp (abs st t) sp (10 * (trackCfg st.cfg t).clockRate))
    (ra ch : Bool) (smp : Sample) (hr : fmp4Write st ti ra ch smp = (st', .ok)) :
    GInv st' n L (scanCore st.cfg t ti sp (AU.ofSample smp)) ∧ st'.cfg = st.cfg ∧
    TInv (obsA (abs st t) (abs st' t) lp) (abs st' t) (scanCore st.cfg t ti sp (AU.ofSample smp))
      (10 * (trackCfg st.cfg t).clockRate) := by
  have hL : leadOf st.cfg = L := by rw [leadOf_eq_leadingIdx]; exact g.shape.leq
  have eff := fmp4Write_eff g.shape ti hti ra ch smp (decide (sp.leadN ≥ 2)) g.seg hr
  rw [toTs_start] at eff
  have htc : st.tcfg ti = trackCfg st.cfg ti := rfl
  rw [htc] at eff
  generalize hsmp' : ({ smp with dts := smp.dts + 10 * (trackCfg st.cfg ti).clockRate } : Sample) = smp' at eff
  have hd : smp'.dts = (AU.ofSample smp).dts + 10 * (trackCfg st.cfg ti).clockRate := by subst hsmp'; rfl
  have hu : AU.ofSample smp' = shiftAU (10 * (trackCfg st.cfg ti).clockRate) (AU.ofSample smp) := by subst hsmp'; rfl
  cases eff with
  | dropNeg hneg e =>
    subst e
    have : scanCore st'.cfg t ti sp (AU.ofSample smp) = sp := by
      unfold scanCore; rw [if_pos (by omega)]
    rw [this, obsA_same _ _ _ rfl]
    exact ⟨g, rfl, tv⟩
  | first hpos hn s =>
    have hnn : ¬ (AU.ofSample smp).dts + 10 * (trackCfg st.cfg ti).clockRate < 0 := by omega
    have hsame : ∀ j, j < n → (abs st' j).hasSeg = (abs st j).hasSeg ∧ (abs st' j).hasPart = (abs st j).hasPart ∧
        (abs st' j).firstRA = (abs st j).firstRA ∧ (abs st' j).segId = (abs st j).segId := by
      intro j hj; rw [s.eq j hj]; by_cases e : j = ti <;> simp [e]
    have hlead0 : ti = L → sp.leadN = 0 := by
      intro e; subst e
      have := g.lead; rw [hn] at this; simp at this; omega
    -- the scan
    have hpend : ti = t → sp.pend = none := by intro e; subst e; exact pend_none_of tv hn
    have hscan : scanCore st.cfg t ti sp (AU.ofSample smp) =
        { sp with leadN := if ti = L then sp.leadN + 1 else sp.leadN,
                  pend := if ti = t then some (AU.ofSample smp) else sp.pend } := by
      unfold scanCore
      rw [if_neg hnn, hL]
      by_cases e2 : ti = t
      · have hp := hpend e2
        subst e2
        by_cases e1 : ti = L <;> simp [e1, hp]
      · by_cases e1 : ti = L
        · subst e1; simp [e2]
        · simp [e1, e2]
    rw [hscan, obsA_same _ _ _ (hsame t ht).2.2.2]
    refine ⟨⟨g.shape.of_same s.same, ?_, ?_, ?_, ?_⟩, s.same.cfg, ?_⟩
    · intro j hj; rw [(hsame j hj).1, g.seg j hj]
      by_cases e : ti = L
      · simp [e, hlead0 e]
      · simp [e]
    · intro j hj; rw [(hsame j hj).2.1, g.part j hj]
      by_cases e : ti = L
      · simp [e, hlead0 e]
      · simp [e]
    · rw [s.eq L g.shape.lead]
      by_cases e : ti = L
      · simp [e]
      · have := g.lead
        simp [e, Ne.symm e, this]
    · intro k hk hv
      rw [(hsame k hk).2.2.1]
      rw [s.same.cfg] at hv
      exact g.ra k hk hv
    · rw [s.eq t ht]
      by_cases e : t = ti
      · subst e
        simp only [if_true]
        have := tv.setNext (Or.inl hn) smp' (AU.ofSample smp) hu
        exact this.congr_sp rfl rfl
      · simp only [e, if_false, Ne.symm e]
        exact tv.congr_sp rfl rfl
  | dropOld hpos old hn hl ho s =>
    have hnn : ¬ (AU.ofSample smp).dts + 10 * (trackCfg st.cfg ti).clockRate < 0 := by omega
    have hsame : ∀ j, j < n → (abs st' j).hasSeg = (abs st j).hasSeg ∧ (abs st' j).hasPart = (abs st j).hasPart ∧
        (abs st' j).firstRA = (abs st j).firstRA ∧ (abs st' j).segId = (abs st j).segId := by
      intro j hj; rw [s.eq j hj]; by_cases e : j = ti <;> simp [e]
    have hlt : ¬ sp.leadN ≥ 2 := by simpa using ho
    have hscan : scanCore st.cfg t ti sp (AU.ofSample smp) =
        { sp with pend := if ti = t then some (AU.ofSample smp) else sp.pend } := by
      unfold scanCore
      rw [if_neg hnn, hL]
      by_cases e2 : ti = t
      · subst e2
        obtain ⟨p, hp⟩ := pend_some_of tv old hn
        simp [hl, hp, hlt]
      · simp [hl, e2]
    rw [hscan, obsA_same _ _ _ (hsame t ht).2.2.2]
    refine ⟨⟨g.shape.of_same s.same, ?_, ?_, ?_, ?_⟩, s.same.cfg, ?_⟩
    · intro j hj; rw [(hsame j hj).1, g.seg j hj]
    · intro j hj; rw [(hsame j hj).2.1, g.part j hj]
    · rw [s.eq L g.shape.lead]
      simp only [Ne.symm hl, if_false]
      exact g.lead
    · intro k hk hv
      rw [(hsame k hk).2.2.1]
      rw [s.same.cfg] at hv
      exact g.ra k hk hv
    · rw [s.eq t ht]
      by_cases e : t = ti
      · subst e
        simp only [if_true]
        have hseg : (abs st t).hasSeg = false := by rw [g.seg t ht]; exact ho
        have := tv.setNext (Or.inr hseg) smp' (AU.ofSample smp) hu
        exact this.congr_sp rfl rfl
      · simp only [e, if_false, Ne.symm e]
        exact tv.congr_sp rfl rfl
  | emit hpos old hn hlo r hrn s =>
    have hnn : ¬ (AU.ofSample smp).dts + 10 * (trackCfg st.cfg ti).clockRate < 0 := by omega
    generalize hold' : ({ old with dur := (smp'.dts - old.dts) % 4294967296 } : Sample) = old' at s
    have eo1 : old'.dts = old.dts := by subst hold'; rfl
    have eo2 : old'.dur = (smp'.dts - old.dts) % 4294967296 := by subst hold'; rfl
    have eo3 : AU.ofSample old' = AU.ofSample old := by subst hold'; rfl
    -- the middle state of track j
    have hmid : ∀ j, j < n →
        ((if ti = L ∧ decide (sp.leadN ≥ 2) = false then absOpen else id)
          (if j = ti then absPush old' { (abs st j) with next := some smp' } else abs st j)).hasSeg = true ∧
        ((if ti = L ∧ decide (sp.leadN ≥ 2) = false then absOpen else id)
          (if j = ti then absPush old' { (abs st j) with next := some smp' } else abs st j)).hasPart = true := by
      intro j hj
      have h1 := g.seg j hj
      have h2 := g.part j hj
      by_cases c : ti = L ∧ decide (sp.leadN ≥ 2) = false
      · rw [if_pos c]; exact ⟨rfl, rfl⟩
      · rw [if_neg c]
        have ho : decide (sp.leadN ≥ 2) = true := by
          rcases hlo with e | e
          · cases hh : decide (sp.leadN ≥ 2)
            · exact absurd ⟨e, hh⟩ c
            · rfl
          · exact e
        rw [ho] at h1 h2
        by_cases e : j = ti
        · subst e; simp [absPush, h1, h2]
        · simp [e, h1, h2]
    have hlead1 : ti = L → sp.leadN ≥ 1 := by
      intro e; subst e
      have := g.lead; rw [hn] at this; simpa using this.symm
    have hnew2 : (if ti = L then sp.leadN + 1 else sp.leadN) ≥ 2 := by
      by_cases e : ti = L
      · have := hlead1 e; simp [e]; omega
      · rcases hlo with e' | e'
        · exact absurd e' e
        · simp [e]; simpa using e'
    -- the scan
    have hscan : scanCore st.cfg t ti sp (AU.ofSample smp) =
        { sp with leadN := if ti = L then sp.leadN + 1 else sp.leadN,
                  out := if ti = t then (match sp.pend with | some p => sp.out ++ [p] | none => sp.out) else sp.out,
                  pend := if ti = t then some (AU.ofSample smp) else sp.pend } := by
      unfold scanCore
      rw [if_neg hnn, hL]
      by_cases e2 : ti = t
      · subst e2
        obtain ⟨p, hp⟩ := pend_some_of tv old hn
        by_cases e1 : ti = L
        · subst e1; simp [hp]
        · have : 2 ≤ sp.leadN := by simpa [e1] using hnew2
          simp [e1, hp, this]
      · by_cases e1 : ti = L
        · subst e1; simp [e2]
        · simp [e1, e2]
    rw [hscan]
    refine ⟨⟨g.shape.of_same s.same, ?_, ?_, ?_, ?_⟩, s.same.cfg, ?_⟩
    · intro j hj
      rw [s.eq j hj, Rot.app_hasSeg, (hmid j hj).1]
      simp [hnew2]
    · intro j hj
      rw [s.eq j hj, Rot.app_hasPart _ _ ((hmid j hj).1.trans (hmid j hj).2.symm), (hmid j hj).2]
      simp [hnew2]
    · rw [s.eq L g.shape.lead, Rot.app_next]
      rw [(mid_fields _ _ old' smp' (abs st L)).2.2]
      by_cases e : ti = L
      · simp [e]
      · have := g.lead
        simp [e, Ne.symm e, this]
    · intro k hk hv
      rw [s.same.cfg] at hv
      rw [s.eq k hk, Rot.app_firstRA, ← g.ra k hk hv]
      exact (mid_fields _ _ old' smp' (abs st k)).1
    · rw [s.eq t ht]
      generalize ha2 : ((if ti = L ∧ decide (sp.leadN ≥ 2) = false then absOpen else id)
          (if t = ti then absPush old' { (abs st t) with next := some smp' } else abs st t)) = a2
      have hseg2 : a2.segId = (abs st t).segId := by
        subst ha2
        exact (mid_fields _ _ old' smp' (abs st t)).2.1
      rw [obsA_congr _ a2 _ _ hseg2.symm]
      apply TInv.rot
      · subst ha2
        by_cases e : t = ti
        · subst e
          obtain ⟨p, hp⟩ := pend_some_of tv old hn
          simp only [if_true, hp]
          have hc : (t = L ∧ decide (sp.leadN ≥ 2) = false) ↔ (abs st t).hasSeg = false := by
            rw [g.seg t ht]
            constructor
            · exact fun h => h.2
            · intro h
              rcases hlo with e | e
              · exact ⟨e, h⟩
              · rw [h] at e; exact absurd e (by decide)
          have := tv.emit' old old' smp' p (AU.ofSample smp) hn hp eo1 eo2 eo3 hu _ hc
          exact this.congr_sp rfl rfl
        · simp only [e, Ne.symm e, if_false]
          by_cases c : ti = L ∧ decide (sp.leadN ≥ 2) = false
          · rw [if_pos c]
            have hs : (abs st t).hasSeg = false := by rw [g.seg t ht]; exact c.2
            exact (tv.opn hs).congr_sp rfl rfl
          · rw [if_neg c]
            exact tv.congr_sp rfl rfl
      · have := hmid t ht
        rw [ha2] at this
        exact this.1.trans this.2.symm

end Hls.Muxer.Accept
