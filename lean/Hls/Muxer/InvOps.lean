import Hls.Muxer.InvAgree
/-!
  The full invariant `Inv` and its preservation by the muxer-level operations
  `createFirstSegment`, `rotateParts`, `rotateSegments` (all streams inside one critical section).
-/
namespace Hls.Muxer

theorem lt_of_open {st : State} {si : Nat} {g : Seg} (h : (st.stream si).nextSegment = some g) :
    si < st.streams.length := by
  apply Classical.byContradiction
  intro hc
  have : st.stream si = { tracks := [], isLeading := false, nextSegmentID := 0 } := by
    have hle : st.streams.length ≤ si := Nat.le_of_not_lt hc
    simp [State.stream, hle]
  rw [this] at h; cases h

/-! ### what one primitive does to its own stream -/

theorem rotatePartsStream_stream (st : State) (si : Nat) (d : Int) (cn : Bool) :
    core ((rotatePartsStream st si d cn).stream si) = core (st.stream si) ∧
    ((rotatePartsStream st si d cn).stream si).isLeading = (st.stream si).isLeading ∧
    ((rotatePartsStream st si d cn).stream si).targetDur = (st.stream si).targetDur := by
  cases hp : (st.stream si).nextPart with
  | none => rw [rotatePartsStream_noop d cn (Or.inl hp)]; exact ⟨rfl, rfl, rfl⟩
  | some p =>
  cases hg : (st.stream si).nextSegment with
  | none => rw [rotatePartsStream_noop d cn (Or.inr hg)]; exact ⟨rfl, rfl, rfl⟩
  | some g =>
  obtain ⟨c, trk, pt, enc, heq⟩ := rotatePartsStream_spec d cn hp hg
  rw [heq, stream_of_set rfl (lt_of_open hg)]
  exact ⟨core_rotPartsS _ _ _ hg _ _ _ _, rfl, rfl⟩

theorem rotSegCore_stream (st : State) (si : Nat) (d ntp : Int) (f : Bool) :
    core ((rotSegCore st si d ntp f).stream si) = rotCore st.cfg d (core (st.stream si)) ∧
    ((rotSegCore st si d ntp f).stream si).isLeading = (st.stream si).isLeading ∧
    ((rotSegCore st si d ntp f).stream si).partTargetDur = (st.stream si).partTargetDur := by
  cases hg : (st.stream si).nextSegment with
  | none =>
    rw [rotSegCore_noop d ntp f hg]
    refine ⟨?_, rfl, rfl⟩
    simp [rotCore, core, hg]
  | some g =>
  obtain ⟨ip, regen, pl, fc, td, enc, heq⟩ := rotSegCore_spec d ntp f hg
  dsimp only at heq
  rw [heq, stream_of_set rfl (lt_of_open hg)]
  exact ⟨core_rotSegS _ _ _ hg _ _ _ _ _, rfl, rfl⟩

theorem rotateSegmentsStream_stream (st : State) (si : Nat) (d ntp : Int) (f : Bool) :
    core ((rotateSegmentsStream st si d ntp f).stream si) = rotCore st.cfg d (core (st.stream si)) ∧
    ((rotateSegmentsStream st si d ntp f).stream si).isLeading = (st.stream si).isLeading := by
  rw [rotateSegmentsStream_eq]
  by_cases hv : st.cfg.variant ≠ .mpegts
  · rw [if_pos hv]
    obtain ⟨a1, a2, _⟩ := rotSegCore_stream (rotatePartsStream st si d false) si d ntp f
    obtain ⟨b1, b2, _⟩ := rotatePartsStream_stream st si d false
    rw [a1, a2, b1, b2, (rotatePartsStream_cfg st si d false).1]
    exact ⟨rfl, rfl⟩
  · rw [if_neg hv]
    obtain ⟨a1, a2, _⟩ := rotSegCore_stream st si d ntp f
    exact ⟨a1, a2⟩

/-! ### the invariant -/

structure Agree (st : State) : Prop where
  core : ∀ i, i < st.streams.length → core (st.stream i) = core (st.stream (leadIdx st.cfg))
  td : ∀ i, i < st.streams.length → (st.stream i).targetDur = (st.stream (leadIdx st.cfg)).targetDur
  ptd : ∀ i, i < st.streams.length → (st.stream i).partTargetDur = (st.stream (leadIdx st.cfg)).partTargetDur

structure Inv (st : State) : Prop where
  inv0 : Inv0 st
  sync : SyncAll st
  struct : StructOK st
  agree : Agree st


/-- `StructOK` and `Agree` only need: same cfg, same length, and per stream the leading flag / core / targets. -/
theorem StructOK.transfer {st st' : State} (h : StructOK st) (hcfg : st'.cfg = st.cfg)
    (hlen : st'.streams.length = st.streams.length)
    (hl : ∀ i, i < st.streams.length → (st'.stream i).isLeading = (st.stream i).isLeading) : StructOK st' := by
  refine ⟨hcfg ▸ h.tracksNe, by rw [hlen, hcfg]; exact h.n, fun i hi => ?_⟩
  rw [hlen] at hi
  rw [hl i hi, hcfg]; exact h.lead i hi

/-! ### createFirstSegment -/

theorem Inv.createFirstSegment {st : State} (h : Inv st)
    (hclosed : ∀ i, i < st.streams.length → (st.stream i).nextSegment = none) (d ntp : Int) :
    Inv (createFirstSegment st d ntp) ∧ (createFirstSegment st d ntp).cfg = st.cfg ∧
    (createFirstSegment st d ntp).streams.length = st.streams.length ∧
    ∀ i, i < st.streams.length → (createFirstSegment st d ntp).stream i = firstSegS st.cfg (st.stream i) d ntp := by
  unfold Hls.Muxer.createFirstSegment
  have key := foldl_streams (n := st.streams.length)
    (f := fun st si => createFirstSegmentStream st si d ntp)
    (P := fun s => Inv0 s ∧ SyncAll s ∧ s.cfg = st.cfg)
    (Q := fun _ s s' => s' = firstSegS st.cfg s d ntp)
    st rfl ⟨h.inv0, h.sync, rfl⟩
    (by
      intro s k _ hlen hk
      simp only [createFirstSegmentStream_spec]
      exact ⟨by simp [hlen], fun j hj => stream_of_set_ne rfl hj⟩)
    (by
      intro s k ⟨p1, p2, p3⟩ hlen hk hsame
      have hk' : k < s.streams.length := hlen ▸ hk
      refine ⟨p1.createFirst hk' (by rw [hsame]; exact hclosed k hk) d ntp, p2.createFirst hk' d ntp, ?_⟩
      simp only [createFirstSegmentStream_spec]; exact p3)
    (by
      intro s k ⟨_, _, p3⟩ hlen hk hsame
      simp only [createFirstSegmentStream_spec]
      rw [stream_of_set rfl (hlen ▸ hk), p3, hsame])
  obtain ⟨⟨k1, k2, k3⟩, klen, kQ⟩ := key
  refine ⟨⟨k1, k2, ?_, ?_⟩, k3, klen, kQ⟩
  · exact h.struct.transfer k3 klen (fun i hi => by rw [kQ i hi]; rfl)
  · have hli := h.struct.leadIdx_lt
    refine ⟨fun i hi => ?_, fun i hi => ?_, fun i hi => ?_⟩ <;> rw [klen] at hi <;> rw [k3, kQ i hi, kQ _ hli]
    · rw [core_firstSegS, core_firstSegS, h.agree.core i hi]
    · exact h.agree.td i hi
    · exact h.agree.ptd i hi


/-! ### leader first, then every non-leading stream (shape shared by `rotateParts` and `rotateSegments`) -/

/-- the control structure of `rotatePartsInner` / `rotateSegmentsInner` -/
def leaderThenOthers (G : State → Nat → State) (cp : StreamSt → StreamSt → StreamSt) (st : State) : State :=
  let li := st.leadingStream
  let st := G st li
  (List.range st.streams.length).foldl (fun st si =>
    if (st.stream si).isLeading then st
    else
      let st := G st si
      st.setStream si (cp (st.stream si) (st.stream li))) st

theorem rotateParts_eq (st : State) (d : Int) :
    rotateParts st d = leaderThenOthers (fun s k => rotatePartsStream s k d true)
      (fun a b => { a with partTargetDur := b.partTargetDur }) st := rfl

theorem rotateSegments_eq (st : State) (d ntp : Int) (f : Bool) :
    rotateSegments st d ntp f = leaderThenOthers (fun s k => rotateSegmentsStream s k d ntp f)
      (fun a b => { a with targetDur := b.targetDur, partTargetDur := b.partTargetDur }) st := rfl

/-- `cp a b` changes nothing the invariants look at -/
structure CopyOK (cp : StreamSt → StreamSt → StreamSt) : Prop where
  segments : ∀ a b, (cp a b).segments = a.segments
  nextSegment : ∀ a b, (cp a b).nextSegment = a.nextSegment
  nextPart : ∀ a b, (cp a b).nextPart = a.nextPart
  nextSegmentID : ∀ a b, (cp a b).nextSegmentID = a.nextSegmentID
  nextPartID : ∀ a b, (cp a b).nextPartID = a.nextPartID
  deleteCount : ∀ a b, (cp a b).deleteCount = a.deleteCount
  isLeading : ∀ a b, (cp a b).isLeading = a.isLeading

theorem CopyOK.core {cp : StreamSt → StreamSt → StreamSt} (h : CopyOK cp) (a b : StreamSt) :
    Hls.Muxer.core (cp a b) = Hls.Muxer.core a := by
  simp [Hls.Muxer.core, h.segments, h.nextSegment, h.nextSegmentID, h.deleteCount]

theorem leaderThenOthers_spec {G : State → Nat → State} {cp : StreamSt → StreamSt → StreamSt}
    {R : StreamSt → StreamSt → Prop} {st : State} (h : Inv st)
    (G_inv0 : ∀ s k, Inv0 s → k < s.streams.length → Inv0 (G s k))
    (G_sync : ∀ s k, SyncAll s → k < s.streams.length → SyncAll (G s k))
    (G_frame : ∀ s k, (G s k).cfg = s.cfg ∧ (G s k).streams.length = s.streams.length ∧
      ∀ j, j ≠ k → (G s k).stream j = s.stream j)
    (G_R : ∀ s k, s.cfg = st.cfg → R (s.stream k) ((G s k).stream k))
    (R_lead : ∀ a b, R a b → b.isLeading = a.isLeading)
    (hcp : CopyOK cp) :
    Inv0 (leaderThenOthers G cp st) ∧ SyncAll (leaderThenOthers G cp st) ∧
    (leaderThenOthers G cp st).cfg = st.cfg ∧
    (leaderThenOthers G cp st).streams.length = st.streams.length ∧
    R (st.stream (leadIdx st.cfg)) ((leaderThenOthers G cp st).stream (leadIdx st.cfg)) ∧
    ∀ i, i < st.streams.length → i ≠ leadIdx st.cfg →
      ∃ y, R (st.stream i) y ∧
        (leaderThenOthers G cp st).stream i = cp y ((leaderThenOthers G cp st).stream (leadIdx st.cfg)) := by
  unfold leaderThenOthers
  simp only [h.struct.leadingStream]
  generalize hli : leadIdx st.cfg = li
  have hlil : li < st.streams.length := hli ▸ h.struct.leadIdx_lt
  obtain ⟨g1, g2, g3⟩ := G_frame st li
  have hR1 := G_R st li rfl
  have hlead1 : ∀ i, i < st.streams.length → ((G st li).stream i).isLeading = decide (i = li) := by
    intro i hi
    by_cases hil : i = li
    · subst hil; rw [R_lead _ _ hR1, h.struct.lead i hi, hli]
    · rw [g3 i hil, h.struct.lead i hi, hli]
  rw [g2]
  have key := foldl_streams (n := st.streams.length)
    (f := fun s si => if (s.stream si).isLeading then s
      else (G s si).setStream si (cp ((G s si).stream si) ((G s si).stream li)))
    (P := fun s => Inv0 s ∧ SyncAll s ∧ s.cfg = st.cfg ∧ s.stream li = (G st li).stream li)
    (Q := fun k s s' => (k = li → s' = s) ∧
      (k ≠ li → ∃ y, R s y ∧ s' = cp y ((G st li).stream li)))
    (G st li) g2 ⟨G_inv0 st li h.inv0 hlil, G_sync st li h.sync hlil, g1, rfl⟩
    (by
      intro s k _ hlen hk
      split
      · exact ⟨hlen, fun _ _ => rfl⟩
      · obtain ⟨f1, f2, f3⟩ := G_frame s k
        exact ⟨by simp [f2, hlen], fun j hj => by rw [stream_setStream_ne _ (Ne.symm hj), f3 j hj]⟩)
    (by
      intro s k ⟨p1, p2, p3, p4⟩ hlen hk hsame
      have hk' : k < s.streams.length := hlen ▸ hk
      rw [hsame, hlead1 k hk]
      by_cases hkl : k = li
      · rw [show decide (k = li) = true from by simp [hkl]]
        simp only [if_true]; exact ⟨p1, p2, p3, p4⟩
      · rw [show decide (k = li) = false from by simp [hkl]]
        simp only [Bool.false_eq_true, if_false]
        obtain ⟨f1, f2, f3⟩ := G_frame s k
        have hk'' : k < (G s k).streams.length := f2 ▸ hk'
        refine ⟨(G_inv0 s k p1 hk').setSame hk'' (hcp.segments _ _) (hcp.nextSegment _ _) (hcp.nextPart _ _)
          (hcp.nextSegmentID _ _) (hcp.nextPartID _ _) (hcp.deleteCount _ _),
          (G_sync s k p2 hk').setSame hk'' (hcp.nextSegment _ _) (hcp.nextPart _ _), ?_, ?_⟩
        · simp [f1, p3]
        · rw [stream_setStream_ne _ hkl, f3 li (Ne.symm hkl), p4])
    (by
      intro s k ⟨p1, p2, p3, p4⟩ hlen hk hsame
      have hk' : k < s.streams.length := hlen ▸ hk
      rw [hsame, hlead1 k hk]
      by_cases hkl : k = li
      · rw [show decide (k = li) = true from by simp [hkl]]
        simp only [if_true]
        exact ⟨fun _ => hsame, fun hc => absurd hkl hc⟩
      · rw [show decide (k = li) = false from by simp [hkl]]
        simp only [Bool.false_eq_true, if_false]
        obtain ⟨f1, f2, f3⟩ := G_frame s k
        refine ⟨fun hc => absurd hc hkl, fun _ => ?_⟩
        rw [stream_setStream_self _ (f2 ▸ hk')]
        refine ⟨(G s k).stream k, ?_, ?_⟩
        · rw [← hsame]; exact G_R s k p3
        · rw [f3 li (Ne.symm hkl), p4])
  obtain ⟨⟨k1, k2, k3, k4⟩, klen, kQ⟩ := key
  refine ⟨k1, k2, k3, klen, ?_, fun i hi hil => ?_⟩
  · rw [(kQ li hlil).1 rfl]; exact hR1
  · obtain ⟨y, hy1, hy2⟩ := (kQ i hi).2 hil
    rw [g3 i hil] at hy1
    refine ⟨y, hy1, ?_⟩
    rw [hy2, (kQ li hlil).1 rfl]


theorem SyncAll.rotateParts {st : State} {si : Nat} (h : SyncAll st) (hsi : si < st.streams.length)
    (d : Int) : SyncAll (rotatePartsStream st si d true) := by
  by_cases hv : st.cfg.variant = .mpegts
  · have := h si hsi
    unfold PartSync at this
    simp only [hv, if_true] at this
    rw [rotatePartsStream_noop d true (Or.inl this)]; exact h
  · exact h.rotateParts_true hsi hv d

/-! ### rotateParts -/

theorem Inv.rotateParts {st : State} (h : Inv st) (d : Int) :
    Inv (rotateParts st d) ∧ (rotateParts st d).cfg = st.cfg ∧
    (rotateParts st d).streams.length = st.streams.length ∧
    ∀ i, i < st.streams.length → core ((rotateParts st d).stream i) = core (st.stream i) := by
  rw [rotateParts_eq]
  have key := leaderThenOthers_spec (G := fun s k => rotatePartsStream s k d true)
    (cp := fun a b => { a with partTargetDur := b.partTargetDur })
    (R := fun a b => core b = core a ∧ b.isLeading = a.isLeading ∧ b.targetDur = a.targetDur) h
    (fun s k hs hk => hs.rotateParts hk d true)
    (fun s k hs hk => hs.rotateParts hk d)
    (fun s k => by
      obtain ⟨a, b, c, _⟩ := rotatePartsStream_cfg s k d true
      exact ⟨a, b, c⟩)
    (fun s k _ => rotatePartsStream_stream s k d true)
    (fun a b hr => hr.2.1)
    ⟨fun _ _ => rfl, fun _ _ => rfl, fun _ _ => rfl, fun _ _ => rfl, fun _ _ => rfl, fun _ _ => rfl, fun _ _ => rfl⟩
  obtain ⟨k1, k2, k3, klen, kL, kO⟩ := key
  generalize leaderThenOthers _ _ st = st' at *
  have hcore : ∀ i, i < st.streams.length → core (st'.stream i) = core (st.stream i) ∧
      (st'.stream i).isLeading = (st.stream i).isLeading ∧ (st'.stream i).targetDur = (st.stream i).targetDur ∧
      (st'.stream i).partTargetDur = (st'.stream (leadIdx st.cfg)).partTargetDur := by
    intro i hi
    by_cases hil : i = leadIdx st.cfg
    · subst hil; exact ⟨kL.1, kL.2.1, kL.2.2, rfl⟩
    · obtain ⟨y, hy, he⟩ := kO i hi hil
      rw [he]; exact ⟨hy.1, hy.2.1, hy.2.2, rfl⟩
  have hli := h.struct.leadIdx_lt
  refine ⟨⟨k1, k2, h.struct.transfer k3 klen (fun i hi => (hcore i hi).2.1), ?_⟩, k3, klen, fun i hi => (hcore i hi).1⟩
  refine ⟨fun i hi => ?_, fun i hi => ?_, fun i hi => ?_⟩ <;> rw [klen] at hi <;> rw [k3]
  · rw [(hcore i hi).1, (hcore _ hli).1]; exact h.agree.core i hi
  · rw [(hcore i hi).2.2.1, (hcore _ hli).2.2.1]; exact h.agree.td i hi
  · exact (hcore i hi).2.2.2

/-! ### rotateSegments -/

theorem Inv.rotateSegments {st : State} (h : Inv st) (d ntp : Int) (f : Bool) :
    Inv (rotateSegments st d ntp f) ∧ (rotateSegments st d ntp f).cfg = st.cfg ∧
    (rotateSegments st d ntp f).streams.length = st.streams.length ∧
    ∀ i, i < st.streams.length →
      core ((rotateSegments st d ntp f).stream i) = rotCore st.cfg d (core (st.stream i)) := by
  rw [rotateSegments_eq]
  have key := leaderThenOthers_spec (G := fun s k => rotateSegmentsStream s k d ntp f)
    (cp := fun a b => { a with targetDur := b.targetDur, partTargetDur := b.partTargetDur })
    (R := fun a b => core b = rotCore st.cfg d (core a) ∧ b.isLeading = a.isLeading) h
    (fun s k hs hk => hs.rotateSegmentsStream hk d ntp f)
    (fun s k hs hk => hs.rotateSegmentsStream hk d ntp f)
    (fun s k => rotateSegmentsStream_cfg s k d ntp f)
    (fun s k hc => by
      have := rotateSegmentsStream_stream s k d ntp f
      rw [hc] at this; exact this)
    (fun a b hr => hr.2)
    ⟨fun _ _ => rfl, fun _ _ => rfl, fun _ _ => rfl, fun _ _ => rfl, fun _ _ => rfl, fun _ _ => rfl, fun _ _ => rfl⟩
  obtain ⟨k1, k2, k3, klen, kL, kO⟩ := key
  generalize leaderThenOthers _ _ st = st' at *
  have hcore : ∀ i, i < st.streams.length → core (st'.stream i) = rotCore st.cfg d (core (st.stream i)) ∧
      (st'.stream i).isLeading = (st.stream i).isLeading ∧
      (st'.stream i).targetDur = (st'.stream (leadIdx st.cfg)).targetDur ∧
      (st'.stream i).partTargetDur = (st'.stream (leadIdx st.cfg)).partTargetDur := by
    intro i hi
    by_cases hil : i = leadIdx st.cfg
    · subst hil; exact ⟨kL.1, kL.2, rfl, rfl⟩
    · obtain ⟨y, hy, he⟩ := kO i hi hil
      rw [he]; exact ⟨hy.1, hy.2, rfl, rfl⟩
  have hli := h.struct.leadIdx_lt
  refine ⟨⟨k1, k2, h.struct.transfer k3 klen (fun i hi => (hcore i hi).2.1), ?_⟩, k3, klen, fun i hi => (hcore i hi).1⟩
  refine ⟨fun i hi => ?_, fun i hi => ?_, fun i hi => ?_⟩ <;> rw [klen] at hi <;> rw [k3]
  · rw [(hcore i hi).1, (hcore _ hli).1, h.agree.core i hi]
  · exact (hcore i hi).2.2.1
  · exact (hcore i hi).2.2.2

end Hls.Muxer
