import Hls.Muxer.InvOps
/-!
  `Inv` along `fmp4Write` / `write` / `run`, together with the step relations between the state before
  and after (`SameWin`: windows untouched; `Step1`: every stream's window rotated at most once;
  `Evolves`: the reflexive-transitive RFC 8216 relation on windows).
-/
namespace Hls.Muxer

/-! ### relations on the shared core -/

def Core.sameWin (a b : Core) : Prop := b.dc = a.dc ∧ b.shape = a.shape

/-- at most one rotation -/
def CoreStep (cfg : Cfg) (c c' : Core) : Prop :=
  c.sameWin c' ∨ ∃ d c0, c.sameWin c0 ∧ (rotCore cfg d c0).sameWin c'

/-- the window of `c'` is the window of `c` minus `k` head entries plus some tail entries -/
def WinEvolves (c c' : Core) : Prop :=
  ∃ (k : Nat) (new : List (Bool × Int)),
    c'.shape = (c.shape ++ new).drop k ∧ c'.dc = c.dc + k ∧ k ≤ (c.shape ++ new).length

theorem Core.sameWin.refl (a : Core) : a.sameWin a := ⟨rfl, rfl⟩
theorem Core.sameWin.trans {a b c : Core} (h1 : a.sameWin b) (h2 : b.sameWin c) : a.sameWin c :=
  ⟨h2.1.trans h1.1, h2.2.trans h1.2⟩

theorem WinEvolves.refl (c : Core) : WinEvolves c c := ⟨0, [], by simp, by simp, by simp⟩

theorem WinEvolves.of_sameWin {a b : Core} (h : a.sameWin b) : WinEvolves a b :=
  ⟨0, [], by simp [h.2], by simp [h.1], by simp⟩

theorem WinEvolves.trans {a b c : Core} (h1 : WinEvolves a b) (h2 : WinEvolves b c) : WinEvolves a c := by
  obtain ⟨k1, n1, s1, d1, l1⟩ := h1
  obtain ⟨k2, n2, s2, d2, l2⟩ := h2
  refine ⟨k1 + k2, n1 ++ n2, ?_, by omega, ?_⟩
  · rw [s2, s1, ← List.append_assoc, ← List.drop_drop, List.drop_append_of_le_length l1]
  · rw [s1] at l2
    simp only [List.length_append, List.length_drop] at *
    omega

/-- what one rotation does to the window: at most one entry leaves at the head, exactly one real entry
    is appended (preceded by the 7 gap entries when the Low-Latency window was empty) -/
theorem rotCore_window (cfg : Cfg) (d : Int) (c : Core) (start : Int) (ho : c.openStart = some start) :
    ∃ (k : Nat) (new : List (Bool × Int)),
      (rotCore cfg d c).shape = (c.shape ++ new).drop k ∧ (rotCore cfg d c).dc = c.dc + k ∧ k ≤ 1 ∧
      k ≤ (c.shape ++ new).length ∧
      new = (if cfg.variant = .ll ∧ c.shape.isEmpty then List.replicate llGapCount (true, d - start) else []) ++
              [(false, d - start)] := by
  have happ : appShape cfg c.shape (d - start) =
      c.shape ++ ((if cfg.variant = .ll ∧ c.shape.isEmpty then List.replicate llGapCount (true, d - start) else []) ++
              [(false, d - start)]) := by
    unfold appShape
    split
    · rename_i h
      have : c.shape = [] := by simpa [List.isEmpty_iff] using h.2
      simp [this]
    · simp
  simp only [rotCore, ho]
  by_cases hov : (appShape cfg c.shape (d - start)).length > cfg.segmentCount
  · refine ⟨1, _, ?_, ?_, Nat.le_refl 1, ?_, rfl⟩
    · simp only [hov, if_true]; rw [happ, List.drop_one]
    · simp only [hov, if_true]
    · simp only [List.length_append, List.length_cons, List.length_nil]; omega
  · refine ⟨0, _, ?_, ?_, Nat.zero_le 1, Nat.zero_le _, rfl⟩
    · simp only [hov, if_false]; rw [happ, List.drop_zero]
    · simp only [hov, if_false, Nat.add_zero]

theorem rotCore_closed (cfg : Cfg) (d : Int) (c : Core) (ho : c.openStart = none) : rotCore cfg d c = c := by
  simp [rotCore, ho]

theorem WinEvolves.rotCore (cfg : Cfg) (d : Int) (c : Core) : WinEvolves c (rotCore cfg d c) := by
  cases ho : c.openStart with
  | none => rw [rotCore_closed cfg d c ho]; exact WinEvolves.refl c
  | some start =>
    obtain ⟨k, new, h1, h2, _, h4, _⟩ := rotCore_window cfg d c start ho
    exact ⟨k, new, h1, h2, h4⟩

theorem CoreStep.evolves {cfg : Cfg} {c c' : Core} (h : CoreStep cfg c c') : WinEvolves c c' := by
  rcases h with h | ⟨d, c0, h1, h2⟩
  · exact WinEvolves.of_sameWin h
  · exact (WinEvolves.of_sameWin h1).trans ((WinEvolves.rotCore cfg d c0).trans (WinEvolves.of_sameWin h2))

/-! ### relations on states -/

structure SameWin (st st' : State) : Prop where
  cfg : st'.cfg = st.cfg
  len : st'.streams.length = st.streams.length
  win : ∀ i, i < st.streams.length → (core (st.stream i)).sameWin (core (st'.stream i))

structure Step1 (st st' : State) : Prop where
  cfg : st'.cfg = st.cfg
  len : st'.streams.length = st.streams.length
  win : ∀ i, i < st.streams.length → CoreStep st.cfg (core (st.stream i)) (core (st'.stream i))

structure Evolves (st st' : State) : Prop where
  cfg : st'.cfg = st.cfg
  len : st'.streams.length = st.streams.length
  win : ∀ i, i < st.streams.length → WinEvolves (core (st.stream i)) (core (st'.stream i))

theorem SameWin.refl (st : State) : SameWin st st := ⟨rfl, rfl, fun _ _ => Core.sameWin.refl _⟩
theorem SameWin.trans {a b c : State} (h1 : SameWin a b) (h2 : SameWin b c) : SameWin a c :=
  ⟨h2.cfg.trans h1.cfg, h2.len.trans h1.len, fun i hi => (h1.win i hi).trans (h2.win i (h1.len ▸ hi))⟩
theorem SameWin.step1 {a b : State} (h : SameWin a b) : Step1 a b := ⟨h.cfg, h.len, fun i hi => Or.inl (h.win i hi)⟩
theorem Step1.evolves {a b : State} (h : Step1 a b) : Evolves a b := ⟨h.cfg, h.len, fun i hi => (h.win i hi).evolves⟩
theorem Evolves.refl (st : State) : Evolves st st := ⟨rfl, rfl, fun _ _ => WinEvolves.refl _⟩
theorem Evolves.trans {a b c : State} (h1 : Evolves a b) (h2 : Evolves b c) : Evolves a c :=
  ⟨h2.cfg.trans h1.cfg, h2.len.trans h1.len, fun i hi => (h1.win i hi).trans (h2.win i (h1.len ▸ hi))⟩

theorem Step1.after {a b c : State} (h1 : Step1 a b) (h2 : SameWin b c) : Step1 a c := by
  refine ⟨h2.cfg.trans h1.cfg, h2.len.trans h1.len, fun i hi => ?_⟩
  have w2 := h2.win i (h1.len ▸ hi)
  rcases h1.win i hi with w | ⟨d, c0, w1, w1'⟩
  · exact Or.inl (w.trans w2)
  · exact Or.inr ⟨d, c0, w1, w1'.trans w2⟩

/-- same windows, then every stream rotated once -/
theorem Step1.of_rot {a b c : State} {d : Int} (h1 : SameWin a b) (hcfg : c.cfg = b.cfg)
    (hlen : c.streams.length = b.streams.length)
    (hrot : ∀ i, i < b.streams.length → core (c.stream i) = rotCore b.cfg d (core (b.stream i))) : Step1 a c := by
  refine ⟨hcfg.trans h1.cfg, hlen.trans h1.len, fun i hi => Or.inr ⟨d, core (b.stream i), h1.win i hi, ?_⟩⟩
  rw [hrot i (h1.len ▸ hi), h1.cfg]; exact Core.sameWin.refl _


/-! ### `Inv` only reads cfg, streams, paths, files -/

theorem Inv.of_fields {st st' : State} (h : Inv st) (h1 : st'.cfg = st.cfg) (h2 : st'.streams = st.streams)
    (h3 : st'.paths = st.paths) (h4 : st'.files = st.files) : Inv st' := by
  cases st; cases st'
  simp only at h1 h2 h3 h4
  subst h1 h2 h3 h4
  obtain ⟨⟨a1, a2, a3, a4⟩, b, ⟨c1, c2, c3⟩, ⟨d1, d2, d3⟩⟩ := h
  exact ⟨⟨a1, a2, a3, a4⟩, b, ⟨c1, c2, c3⟩, ⟨d1, d2, d3⟩⟩

theorem SameWin.of_streams {st st' : State} (h1 : st'.cfg = st.cfg) (h2 : st'.streams = st.streams) : SameWin st st' :=
  ⟨h1, by rw [h2], fun i _ => by
    have : st'.stream i = st.stream i := by simp [State.stream, h2]
    rw [this]; exact Core.sameWin.refl _⟩

/-- a change of one stream that keeps its core, leading flag and targets -/
theorem Inv.transfer {st st' : State} (h : Inv st) (h0 : Inv0 st') (hs : SyncAll st') (hcfg : st'.cfg = st.cfg)
    (hlen : st'.streams.length = st.streams.length)
    (hc : ∀ i, i < st.streams.length → core (st'.stream i) = core (st.stream i) ∧
      (st'.stream i).isLeading = (st.stream i).isLeading ∧ (st'.stream i).targetDur = (st.stream i).targetDur ∧
      (st'.stream i).partTargetDur = (st.stream i).partTargetDur) : Inv st' := by
  have hli := h.struct.leadIdx_lt
  refine ⟨h0, hs, h.struct.transfer hcfg hlen (fun i hi => (hc i hi).2.1), ?_⟩
  refine ⟨fun i hi => ?_, fun i hi => ?_, fun i hi => ?_⟩ <;> rw [hlen] at hi <;> rw [hcfg]
  · rw [(hc i hi).1, (hc _ hli).1]; exact h.agree.core i hi
  · rw [(hc i hi).2.2.1, (hc _ hli).2.2.1]; exact h.agree.td i hi
  · rw [(hc i hi).2.2.2, (hc _ hli).2.2.2]; exact h.agree.ptd i hi

theorem Inv.setOne {st st' : State} {si : Nat} {s' : StreamSt} (h : Inv st) (hcfg : st'.cfg = st.cfg)
    (hstr : st'.streams = st.streams.set si s') (hsi : si < st.streams.length) (h0 : Inv0 st') (hs : SyncAll st')
    (hcore : core s' = core (st.stream si)) (hl : s'.isLeading = (st.stream si).isLeading)
    (htd : s'.targetDur = (st.stream si).targetDur) (hptd : s'.partTargetDur = (st.stream si).partTargetDur) :
    Inv st' ∧ SameWin st st' := by
  have hc : ∀ i, i < st.streams.length → core (st'.stream i) = core (st.stream i) ∧
      (st'.stream i).isLeading = (st.stream i).isLeading ∧ (st'.stream i).targetDur = (st.stream i).targetDur ∧
      (st'.stream i).partTargetDur = (st.stream i).partTargetDur := by
    intro i hi
    by_cases hj : i = si
    · subst hj; rw [stream_of_set hstr hsi]; exact ⟨hcore, hl, htd, hptd⟩
    · rw [stream_of_set_ne hstr hj]; exact ⟨rfl, rfl, rfl, rfl⟩
  refine ⟨h.transfer h0 hs hcfg (length_of_set hstr) hc, ⟨hcfg, length_of_set hstr, fun i hi => ?_⟩⟩
  rw [(hc i hi).1]; exact Core.sameWin.refl _

theorem Inv.partWriteSample {st : State} (h : Inv st) (ti : Nat) (smp : Sample) :
    Inv (partWriteSample st ti smp).1 ∧ SameWin st (partWriteSample st ti smp).1 := by
  have h0 := h.inv0.partWriteSample ti smp
  have hs := h.sync.partWriteSample ti smp
  rcases partWriteSample_spec st ti smp with ⟨g, p, hg, hp, hsz, trk, indep, heq⟩ | ⟨heq, _⟩
  · rw [heq] at h0 hs ⊢
    exact h.setOne rfl rfl (lt_of_open hg) h0 hs (by simp [core, partWriteS, hg]) rfl rfl rfl
  · rw [heq]; exact ⟨h, SameWin.refl st⟩

theorem Inv.tsWrite {st : State} (h : Inv st) (u : TsUnit) (size : Nat) (e : Option Int) (cnt : Bool) :
    Inv (tsWrite st u size e cnt).1 ∧ SameWin st (tsWrite st u size e cnt).1 := by
  have h0 := h.inv0.tsWrite u size e cnt
  have hs := h.sync.tsWrite u size e cnt
  rcases tsWrite_spec st u size e cnt with ⟨g, hg, hsz, g', hid, hst, hsize, hparts, heq⟩ | ⟨heq, _⟩
  · rw [heq] at h0 hs ⊢
    exact h.setOne rfl rfl (lt_of_open hg) h0 hs (by simp [core, hg, hst]) rfl rfl rfl
  · rw [heq]; exact ⟨h, SameWin.refl st⟩

theorem adjustPartDuration_fields (st : State) (sd : Int) :
    (adjustPartDuration st sd).cfg = st.cfg ∧ (adjustPartDuration st sd).streams = st.streams ∧
    (adjustPartDuration st sd).paths = st.paths ∧ (adjustPartDuration st sd).files = st.files := by
  unfold adjustPartDuration
  split
  · exact ⟨rfl, rfl, rfl, rfl⟩
  · split
    · exact ⟨rfl, rfl, rfl, rfl⟩
    · split <;> exact ⟨rfl, rfl, rfl, rfl⟩

/-! ### fmp4WriteSample in stages -/

/-- the rotation decision of `fmp4WriteSample` with its two conditions abstracted -/
def rotateDecide (st : State) (c1 : Bool) (c2 : Prop) [Decidable c2] (changed : Bool) (nd ntp : Int) : State × WriteRes :=
  if c1 then
    let st := rotateSegments st nd ntp changed
    let st := if changed then { st with freeze := false, durs := [] } else { st with freeze := true }
    (st, .ok)
  else if c2 then
    (rotateParts st nd, .ok)
  else (st, .ok)

/-- last stage of `fmp4WriteSample` on the leading track: rotate segments or parts (verbatim) -/
def fmp4Rotate (st : State) (si : Nat) (ra changed : Bool) (smp : Sample) (rate : Int) : State × WriteRes :=
  let s := st.stream si
  let nd := toDur smp.dts rate
  let segStart := match s.nextSegment with | some g => g.startDTS | none => 0
  let partStart := match s.nextPart with | some p => p.startDTS | none => 0
  rotateDecide st (ra && (changed || decide (nd - segStart ≥ st.cfg.segmentMinDur)))
    (st.cfg.variant = .ll ∧ nd - partStart ≥ st.adjusted) changed nd smp.ntp

/-- the stages of `fmp4WriteSample` after the look-ahead swap (verbatim) -/
def fmp4Emit (st : State) (ti : Nat) (ra changed : Bool) (smp old0 : Sample) (rate : Int) : State × WriteRes :=
  let duration := smp.dts - old0.dts
  let old := { old0 with dur := duration % 4294967296 }
  let si := st.streamOf ti
  let lead := st.isLeadingTrack ti
  let hasSeg := (st.stream si).nextSegment.isSome
  if !lead && !hasSeg then (st, .ok) else
  let st := if lead && !hasSeg then createFirstSegment st (toDur old.dts rate) old.ntp else st
  let st := if lead then adjustPartDuration st (toDur duration rate) else st
  match partWriteSample st ti old with
  | (st, .err) => (st, .err)
  | (st, .ok) => if !lead then (st, .ok) else fmp4Rotate st si ra changed smp rate

theorem fmp4Write_eq (st : State) (ti : Nat) (ra changed : Bool) (smp0 : Sample) :
    fmp4Write st ti ra changed smp0 =
      (let rate := (st.tcfg ti).clockRate
       let smp := { smp0 with dts := smp0.dts + toTs fmp4StartDTS rate }
       if smp.dts < 0 then (st, .ok) else
       match (st.track ti).next with
       | none => (st.setTrack ti { st.track ti with next := some smp }, .ok)
       | some old => fmp4Emit (st.setTrack ti { st.track ti with next := some smp }) ti ra changed smp old rate) := rfl


theorem Inv.closed_all {st : State} (h : Inv st) (hc : (st.stream (leadIdx st.cfg)).nextSegment = none) :
    ∀ i, i < st.streams.length → (st.stream i).nextSegment = none := by
  intro i hi
  have := h.agree.core i hi
  have : (core (st.stream i)).openStart = (core (st.stream (leadIdx st.cfg))).openStart := by rw [this]
  simp only [core, hc, Option.map_none, Option.map_eq_none_iff] at this
  exact this

theorem streamOf_lead {st : State} {ti : Nat} (h : st.isLeadingTrack ti = true) : st.streamOf ti = leadIdx st.cfg := by
  unfold State.isLeadingTrack at h
  unfold State.streamOf leadIdx
  have : ti = leadingIdx st.cfg.tracks := by simpa using h
  cases hv : st.cfg.variant <;> simp [this]

theorem Inv.rotateDecide {st : State} (h : Inv st) (c1 : Bool) (c2 : Prop) [Decidable c2] (changed : Bool)
    (nd ntp : Int) :
    Inv (rotateDecide st c1 c2 changed nd ntp).1 ∧ Step1 st (rotateDecide st c1 c2 changed nd ntp).1 := by
  obtain ⟨i1, i2, i3, i4⟩ := h.rotateSegments nd ntp changed
  have hstep : Step1 st (Hls.Muxer.rotateSegments st nd ntp changed) :=
    Step1.of_rot (SameWin.refl st) i2 i3 i4
  obtain ⟨j1, j2, j3, j4⟩ := h.rotateParts nd
  unfold Hls.Muxer.rotateDecide
  cases c1
  · simp only [Bool.false_eq_true, if_false]
    by_cases hc2 : c2
    · simp only [hc2, if_true]
      refine ⟨j1, SameWin.step1 ⟨j2, j3, fun i hi => ?_⟩⟩
      rw [j4 i hi]; exact Core.sameWin.refl _
    · simp only [hc2, if_false]
      exact ⟨h, (SameWin.refl st).step1⟩
  · simp only [if_true]
    cases changed
    · exact ⟨i1.of_fields rfl rfl rfl rfl, hstep.after (SameWin.of_streams rfl rfl)⟩
    · exact ⟨i1.of_fields rfl rfl rfl rfl, hstep.after (SameWin.of_streams rfl rfl)⟩

theorem Inv.fmp4Rotate {st : State} (h : Inv st) (si : Nat) (ra changed : Bool) (smp : Sample) (rate : Int) :
    Inv (fmp4Rotate st si ra changed smp rate).1 ∧ Step1 st (fmp4Rotate st si ra changed smp rate).1 := by
  unfold Hls.Muxer.fmp4Rotate
  exact h.rotateDecide _ _ _ _ _

theorem Inv.fmp4Emit {st : State} (h : Inv st) (ti : Nat) (ra changed : Bool) (smp old0 : Sample) (rate : Int) :
    Inv (fmp4Emit st ti ra changed smp old0 rate).1 ∧ Step1 st (fmp4Emit st ti ra changed smp old0 rate).1 := by
  unfold Hls.Muxer.fmp4Emit
  simp only []
  split
  · exact ⟨h, (SameWin.refl st).step1⟩
  · -- stage B: first segment
    have hB : ∃ stB, stB = (if (st.isLeadingTrack ti && !((st.stream (st.streamOf ti)).nextSegment.isSome)) = true then
          Hls.Muxer.createFirstSegment st (toDur old0.dts rate) old0.ntp else st) ∧ Inv stB ∧ SameWin st stB := by
      refine ⟨_, rfl, ?_⟩
      split
      · rename_i hc
        simp only [Bool.and_eq_true, Bool.not_eq_true', Option.isSome_eq_false_iff, Option.isNone_iff_eq_none] at hc
        rw [streamOf_lead hc.1] at hc
        obtain ⟨i1, i2, i3, i4⟩ := h.createFirstSegment (h.closed_all hc.2) (toDur old0.dts rate) old0.ntp
        refine ⟨i1, ⟨i2, i3, fun i hi => ?_⟩⟩
        rw [i4 i hi, core_firstSegS]; exact ⟨rfl, rfl⟩
      · exact ⟨h, SameWin.refl st⟩
    obtain ⟨stB, hBeq, hBinv, hBwin⟩ := hB
    rw [← hBeq]
    -- stage C: part duration
    have hC : ∃ stC, stC = (if st.isLeadingTrack ti = true then
          adjustPartDuration stB (toDur (smp.dts - old0.dts) rate) else stB) ∧ Inv stC ∧ SameWin st stC := by
      refine ⟨_, rfl, ?_⟩
      split
      · obtain ⟨a1, a2, a3, a4⟩ := adjustPartDuration_fields stB (toDur (smp.dts - old0.dts) rate)
        exact ⟨hBinv.of_fields a1 a2 a3 a4, hBwin.trans (SameWin.of_streams a1 a2)⟩
      · exact ⟨hBinv, hBwin⟩
    obtain ⟨stC, hCeq, hCinv, hCwin⟩ := hC
    rw [← hCeq]
    -- stage D: the sample enters the open part
    obtain ⟨d1, d2⟩ := hCinv.partWriteSample ti { old0 with dur := (smp.dts - old0.dts) % 4294967296 }
    generalize Hls.Muxer.partWriteSample stC ti { old0 with dur := (smp.dts - old0.dts) % 4294967296 } = r at d1 d2
    obtain ⟨stD, res⟩ := r
    simp only at d1 d2
    cases res with
    | err => exact ⟨d1, (hCwin.trans d2).step1⟩
    | ok =>
      simp only
      split
      · exact ⟨d1, (hCwin.trans d2).step1⟩
      · obtain ⟨e1, e2⟩ := d1.fmp4Rotate (st.streamOf ti) ra changed smp rate
        refine ⟨e1, ?_⟩
        -- same windows up to stage D, then at most one rotation
        have hw := hCwin.trans d2
        refine ⟨e2.cfg.trans hw.cfg, e2.len.trans hw.len, fun i hi => ?_⟩
        have w1 := hw.win i hi
        rcases e2.win i (hw.len ▸ hi) with w | ⟨d, c0, w2, w3⟩
        · exact Or.inl (w1.trans w)
        · exact Or.inr ⟨d, c0, w1.trans w2, by rw [← hw.cfg]; exact w3⟩

theorem Inv.fmp4Write {st : State} (h : Inv st) (ti : Nat) (ra changed : Bool) (smp : Sample) :
    Inv (fmp4Write st ti ra changed smp).1 ∧ Step1 st (fmp4Write st ti ra changed smp).1 := by
  rw [fmp4Write_eq]
  simp only []
  split
  · exact ⟨h, (SameWin.refl st).step1⟩
  · have hA : Inv (st.setTrack ti { st.track ti with next := some { smp with dts := smp.dts + toTs fmp4StartDTS (st.tcfg ti).clockRate } }) :=
      h.of_fields rfl rfl rfl rfl
    have hAw : ∀ t, SameWin st (st.setTrack ti t) := fun t => SameWin.of_streams rfl rfl
    split
    · exact ⟨hA, (hAw _).step1⟩
    · obtain ⟨e1, e2⟩ := hA.fmp4Emit ti ra changed { smp with dts := smp.dts + toTs fmp4StartDTS (st.tcfg ti).clockRate } (by assumption) (st.tcfg ti).clockRate
      exact ⟨e1, ⟨e2.cfg, e2.len, e2.win⟩⟩

/-! ### write, run -/

theorem paramsStep_fields (st : State) (ti par : Nat) (ra : Bool) :
    (paramsStep st ti par ra).1.cfg = st.cfg ∧ (paramsStep st ti par ra).1.streams = st.streams ∧
    (paramsStep st ti par ra).1.paths = st.paths ∧ (paramsStep st ti par ra).1.files = st.files := by
  unfold paramsStep
  simp only []
  split <;> split <;> exact ⟨rfl, rfl, rfl, rfl⟩

/-- first segment / rotation decision of the MPEG-TS front ends, condition abstracted -/
def tsRotate (st : State) (c : Seg → Prop) [∀ g, Decidable (c g)] (nd ntp : Int) : State :=
  match (st.stream 0).nextSegment with
  | none => createFirstSegment st nd ntp
  | some seg => if c seg then rotateSegments st nd ntp false else st

theorem leadIdx_ts {cfg : Cfg} (hv : cfg.variant = .mpegts) : leadIdx cfg = 0 := by simp [leadIdx, hv]

theorem Inv.tsRotate {st : State} (h : Inv st) (hv : st.cfg.variant = .mpegts) (c : Seg → Prop)
    [∀ g, Decidable (c g)] (nd ntp : Int) :
    Inv (Hls.Muxer.tsRotate st c nd ntp) ∧ Step1 st (Hls.Muxer.tsRotate st c nd ntp) := by
  unfold Hls.Muxer.tsRotate
  split
  · rename_i hn
    have hcl := h.closed_all (by rw [leadIdx_ts hv]; exact hn)
    obtain ⟨i1, i2, i3, i4⟩ := h.createFirstSegment hcl nd ntp
    refine ⟨i1, SameWin.step1 ⟨i2, i3, fun i hi => ?_⟩⟩
    rw [i4 i hi, core_firstSegS]; exact ⟨rfl, rfl⟩
  · split
    · obtain ⟨i1, i2, i3, i4⟩ := h.rotateSegments nd ntp false
      exact ⟨i1, Step1.of_rot (SameWin.refl st) i2 i3 i4⟩
    · exact ⟨h, (SameWin.refl st).step1⟩

theorem Inv.tsFront {st : State} (h : Inv st) (hv : st.cfg.variant = .mpegts) (c : Seg → Prop)
    [∀ g, Decidable (c g)] (nd ntp : Int) (u : TsUnit) (size : Nat) (e : Option Int) (cnt : Bool) :
    Inv (Hls.Muxer.tsWrite (Hls.Muxer.tsRotate st c nd ntp) u size e cnt).1 ∧
      Step1 st (Hls.Muxer.tsWrite (Hls.Muxer.tsRotate st c nd ntp) u size e cnt).1 := by
  obtain ⟨a1, a2⟩ := h.tsRotate hv c nd ntp
  obtain ⟨b1, b2⟩ := a1.tsWrite u size e cnt
  exact ⟨b1, a2.after b2⟩

theorem Inv.fmp4WriteMany {st : State} (h : Inv st) (ti : Nat) (l : List Sample) :
    Inv (fmp4WriteMany st ti l).1 ∧ Evolves st (fmp4WriteMany st ti l).1 := by
  induction l generalizing st with
  | nil => exact ⟨h, Evolves.refl st⟩
  | cons s rest ih =>
    unfold Hls.Muxer.fmp4WriteMany
    obtain ⟨a1, a2⟩ := h.fmp4Write ti true false s
    generalize Hls.Muxer.fmp4Write st ti true false s = r at a1 a2
    obtain ⟨st1, res⟩ := r
    cases res with
    | err => exact ⟨a1, a2.evolves⟩
    | ok =>
      simp only at a1 a2 ⊢
      obtain ⟨b1, b2⟩ := ih a1
      exact ⟨b1, a2.evolves.trans b2⟩

/-- ops that go through at most one `fmp4WriteSample` / one MPEG-TS write -/
def singleOp (st : State) (op : WriteOp) : Prop :=
  (st.tcfg op.track).codec.isVideo = true ∨ (st.cfg.variant = .mpegts ∧ (st.tcfg op.track).codec = .aac)

instance (st : State) (op : WriteOp) : Decidable (singleOp st op) := by unfold singleOp; infer_instance

theorem Step1.before {a b c : State} (h1 : SameWin a b) (h2 : Step1 b c) : Step1 a c := by
  refine ⟨h2.cfg.trans h1.cfg, h2.len.trans h1.len, fun i hi => ?_⟩
  have w1 := h1.win i hi
  rcases h2.win i (h1.len ▸ hi) with w | ⟨d, c0, w2, w3⟩
  · exact Or.inl (w1.trans w)
  · exact Or.inr ⟨d, c0, w1.trans w2, by rw [← h1.cfg]; exact w3⟩

/-- the fMP4 video front ends after parameter bookkeeping -/
theorem Inv.videoFmp4 {st stP : State} (hP : Inv stP) (hPw : SameWin st stP) (ti : Nat) (t : TrackSt)
    (ra changed : Bool) (smp : Sample) :
    Inv (Hls.Muxer.fmp4Write (stP.setTrack ti t) ti ra changed smp).1 ∧
      Step1 st (Hls.Muxer.fmp4Write (stP.setTrack ti t) ti ra changed smp).1 := by
  have hX : Inv (stP.setTrack ti t) := hP.of_fields rfl rfl rfl rfl
  obtain ⟨a1, a2⟩ := hX.fmp4Write ti ra changed smp
  have hw : SameWin st (stP.setTrack ti t) := hPw.trans (SameWin.of_streams rfl rfl)
  exact ⟨a1, Step1.before hw a2⟩

/-- the H264 front end after the DTS extractor: MPEG-TS write or `fmp4WriteSample` -/
theorem Inv.h264Tail {st X : State} (hX : Inv X) (hXw : SameWin st X) (c : Seg → Prop) [∀ g, Decidable (c g)]
    (nd ntp : Int) (u : TsUnit) (size : Nat) (e : Option Int) (cnt : Bool) (ti : Nat) (ra changed : Bool)
    (smp : Sample) :
    Inv (if X.cfg.variant = .mpegts then Hls.Muxer.tsWrite (Hls.Muxer.tsRotate X c nd ntp) u size e cnt
         else Hls.Muxer.fmp4Write X ti ra changed smp).1 ∧
    Step1 st (if X.cfg.variant = .mpegts then Hls.Muxer.tsWrite (Hls.Muxer.tsRotate X c nd ntp) u size e cnt
         else Hls.Muxer.fmp4Write X ti ra changed smp).1 := by
  split
  · rename_i hv
    obtain ⟨a1, a2⟩ := hX.tsFront hv c nd ntp u size e cnt
    exact ⟨a1, Step1.before hXw a2⟩
  · obtain ⟨a1, a2⟩ := hX.fmp4Write ti ra changed smp
    exact ⟨a1, Step1.before hXw a2⟩

theorem fieldsOK {st stP st' : State} (hP : Inv stP) (hPw : SameWin st stP) (h1 : st'.cfg = stP.cfg)
    (h2 : st'.streams = stP.streams) (h3 : st'.paths = stP.paths) (h4 : st'.files = stP.files) :
    Inv st' ∧ Step1 st st' :=
  ⟨hP.of_fields h1 h2 h3 h4, (hPw.trans (SameWin.of_streams h1 h2)).step1⟩

theorem Inv.write {st : State} (h : Inv st) (op : WriteOp) :
    Inv (write st op).1 ∧ Evolves st (write st op).1 ∧ (singleOp st op → Step1 st (write st op).1) := by
  have conv : ∀ {st' : State}, Inv st' ∧ Step1 st st' → Inv st' ∧ Evolves st st' ∧ (singleOp st op → Step1 st st') :=
    fun hh => ⟨hh.1, hh.2.evolves, fun _ => hh.2⟩
  have hp := paramsStep_fields st op.track op.par op.ra
  have hP : Inv (paramsStep st op.track op.par op.ra).1 := h.of_fields hp.1 hp.2.1 hp.2.2.1 hp.2.2.2
  have hPw : SameWin st (paramsStep st op.track op.par op.ra).1 := SameWin.of_streams hp.1 hp.2.1
  unfold Hls.Muxer.write
  simp only []
  generalize paramsStep st op.track op.par op.ra = ps at hP hPw ⊢
  obtain ⟨stP, changed⟩ := ps
  simp only at hP hPw ⊢
  clear hp
  split
  · -- h264
    split
    · apply conv
      split <;> exact fieldsOK h (SameWin.refl st) rfl rfl rfl rfl
    · split
      · exact conv ⟨hP, hPw.step1⟩
      · split
        · exact conv (fieldsOK hP hPw rfl rfl rfl rfl)
        · have hXw : ∀ t1 t2, SameWin st ((stP.setTrack op.track t1).setTrack op.track t2) :=
            fun _ _ => hPw.trans (SameWin.of_streams rfl rfl)
          have hX : ∀ t1 t2, Inv ((stP.setTrack op.track t1).setTrack op.track t2) :=
            fun _ _ => hP.of_fields rfl rfl rfl rfl
          split
          · split
            · exact conv (fieldsOK hP hPw rfl rfl rfl rfl)
            · exact conv (Inv.h264Tail (hX _ _) (hXw _ _) _ _ _ _ _ _ _ _ _ _ _)
          · simp only [Bool.false_eq_true, if_false]
            exact conv (Inv.h264Tail (hX _ _) (hXw _ _) _ _ _ _ _ _ _ _ _ _ _)
  · -- h265
    split
    · exact conv ⟨hP, hPw.step1⟩
    · exact conv (Inv.videoFmp4 hP hPw _ _ _ _ _)
  · -- vp9
    split
    · exact conv ⟨hP, hPw.step1⟩
    · exact conv (Inv.videoFmp4 hP hPw _ _ _ _ _)
  · -- av1
    split
    · exact conv ⟨hP, hPw.step1⟩
    · exact conv (Inv.videoFmp4 hP hPw _ _ _ _ _)
  · -- opus
    rename_i hcodec
    obtain ⟨a1, a2⟩ := h.fmp4WriteMany op.track (buildOpus op.pays op.sizes op.durs op.pts op.ntp)
    refine ⟨a1, a2, fun hs => ?_⟩
    rcases hs with hv | ⟨_, hc⟩
    · rw [hcodec] at hv; simp [Codec.isVideo] at hv
    · rw [hcodec] at hc; cases hc
  · -- aac
    rename_i hcodec
    split
    · rename_i hv
      apply conv
      split
      · exact ⟨h, (SameWin.refl st).step1⟩
      · cases hl : st.isLeadingTrack op.track
        · simp only [Bool.false_eq_true, ↓reduceIte]
          exact (fun x => ⟨x.1, x.2.step1⟩) (h.tsWrite _ _ _ _)
        · simp only [↓reduceIte]
          exact h.tsFront hv _ _ _ _ _ _ _
    · rename_i hv
      obtain ⟨a1, a2⟩ := h.fmp4WriteMany op.track
        (buildAac op.pts op.ntp (st.tcfg op.track).clockRate (st.tcfg op.track).sampleRate 0 op.pays op.sizes)
      refine ⟨a1, a2, fun hs => ?_⟩
      rcases hs with hv' | ⟨hv', _⟩
      · rw [hcodec] at hv'; simp [Codec.isVideo] at hv'
      · exact absurd hv' hv

theorem Inv.run {st : State} (h : Inv st) (ops : List WriteOp) : Inv (run st ops) ∧ Evolves st (run st ops) := by
  induction ops generalizing st with
  | nil => exact ⟨h, Evolves.refl st⟩
  | cons op rest ih =>
    unfold Hls.Muxer.run
    obtain ⟨a1, a2, _⟩ := h.write op
    obtain ⟨b1, b2⟩ := ih a1
    exact ⟨b1, a2.trans b2⟩

end Hls.Muxer
