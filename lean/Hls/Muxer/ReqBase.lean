import Hls.Muxer.Model
/-!
# C06 (sequential half) — base layer

* `View`: the part of a stream that the request decision (`reqDecision`, `hasPart`) and the
  preload-hint handler (`get` on a part path) read.
* `Same`: two states with the same configuration, path table and per-stream views.
* `Steps a b`: `b` is obtained from `a` by the muxer's primitive mutations
  (`createFirstSegment` when no stream has an open segment, `rotatePartsStream … true`,
  `rotateSegmentsStream`) interleaved with view-preserving changes.  `write_steps`/`run_steps`
  (`ReqWrite.lean`): every `write` / `run` of a Low-Latency muxer is such a sequence.  All invariants
  and monotonicity statements of C06 are proved by induction over `Steps`, so the case analysis of
  `write` is done exactly once.

Helper lemmas only; the property theorems are in `Hls/Props/C06.lean`.
-/
namespace Hls.Muxer
open Hls.Gen

/-! ## generic list / state lemmas -/

theorem foldl_pres {α β} (P : β → Prop) (f : β → α → β) (l : List α) (b : β) (hb : P b)
    (h : ∀ b a, P b → P (f b a)) : P (l.foldl f b) := by
  induction l generalizing b with
  | nil => exact hb
  | cons a l ih => exact ih _ (h _ _ hb)

theorem stream_setStream_same (st : State) (si : Nat) (s : StreamSt) (h : si < st.streams.length) :
    (st.setStream si s).stream si = s := by
  simp [State.setStream, State.stream, List.getD_eq_getElem?_getD, h]

theorem stream_setStream_ne (st : State) (si sj : Nat) (s : StreamSt) (h : si ≠ sj) :
    (st.setStream si s).stream sj = st.stream sj := by
  simp [State.setStream, State.stream, List.getD_eq_getElem?_getD, h]

theorem setStream_oob (st : State) (si : Nat) (s : StreamSt) (h : st.streams.length ≤ si) :
    st.setStream si s = st := by
  have : st.streams.set si s = st.streams := List.set_eq_of_length_le h
  simp [State.setStream, this]

theorem stream_congr {a b : State} (h : a.streams = b.streams) (i : Nat) : a.stream i = b.stream i := by
  simp [State.stream, h]

theorem find_filter_self (ps : List (PathKey × Handler)) (k : PathKey) :
    List.find? (fun x => decide (x.1 = k)) (List.filter (fun x => decide (x.1 ≠ k)) ps) = none := by
  induction ps with
  | nil => rfl
  | cons x xs ih =>
    by_cases h1 : x.1 = k
    · rw [List.filter_cons_of_neg (by simpa using h1)]; exact ih
    · rw [List.filter_cons_of_pos (by simpa using h1), List.find?_cons_of_neg (by simpa using h1)]; exact ih

theorem lookup_filter_ne (ps : List (PathKey × Handler)) (k k' : PathKey) (hk : k' ≠ k) :
    List.find? (fun x => decide (x.1 = k')) (List.filter (fun x => decide (x.1 ≠ k)) ps) =
    List.find? (fun x => decide (x.1 = k')) ps := by
  induction ps with
  | nil => rfl
  | cons x xs ih =>
    by_cases h1 : x.1 = k
    · have h2 : x.1 ≠ k' := by rw [h1]; exact fun h => hk h.symm
      rw [List.filter_cons_of_neg (by simpa using h1), List.find?_cons_of_neg (by simpa using h2)]; exact ih
    · rw [List.filter_cons_of_pos (by simpa using h1)]
      by_cases h2 : x.1 = k'
      · rw [List.find?_cons_of_pos (by simpa using h2), List.find?_cons_of_pos (by simpa using h2)]
      · rw [List.find?_cons_of_neg (by simpa using h2), List.find?_cons_of_neg (by simpa using h2)]; exact ih

theorem lookup_regPath_same (ps : List (PathKey × Handler)) (k : PathKey) (h : Handler) :
    lookupPath (regPath ps k h) k = some h := by
  unfold lookupPath regPath
  rw [List.find?_append, find_filter_self]
  simp

theorem lookup_regPath_ne (ps : List (PathKey × Handler)) (k k' : PathKey) (h : Handler) (hk : k' ≠ k) :
    lookupPath (regPath ps k h) k' = lookupPath ps k' := by
  unfold lookupPath regPath
  rw [List.find?_append, lookup_filter_ne ps k k' hk]
  have : k ≠ k' := fun h => hk h.symm
  cases hf : List.find? (fun x => decide (x.1 = k')) ps <;> simp [this]

theorem lookup_unregPath_same (ps : List (PathKey × Handler)) (k : PathKey) :
    lookupPath (unregPath ps k) k = none := by
  unfold lookupPath unregPath
  rw [find_filter_self]; rfl

theorem lookup_unregPath_ne (ps : List (PathKey × Handler)) (k k' : PathKey) (hk : k' ≠ k) :
    lookupPath (unregPath ps k) k' = lookupPath ps k' := by
  unfold lookupPath unregPath
  rw [lookup_filter_ne ps k k' hk]

/-- unregistering a list of part paths: a key survives iff it is not one of them -/
theorem lookup_unregParts (si : Nat) (parts : List Part) (ps : List (PathKey × Handler)) (k : PathKey) :
    lookupPath (parts.foldl (fun ps p => unregPath ps (.part si p.id)) ps) k =
      if ∃ p ∈ parts, PathKey.part si p.id = k then none else lookupPath ps k := by
  induction parts generalizing ps with
  | nil => simp
  | cons p rest ih =>
    rw [List.foldl_cons, ih]
    by_cases h1 : ∃ q ∈ rest, PathKey.part si q.id = k
    · have : ∃ q ∈ p :: rest, PathKey.part si q.id = k := by
        obtain ⟨q, hq, e⟩ := h1; exact ⟨q, List.mem_cons_of_mem _ hq, e⟩
      simp only [h1, this, if_true]
    · by_cases h2 : PathKey.part si p.id = k
      · have : ∃ q ∈ p :: rest, PathKey.part si q.id = k := ⟨p, List.mem_cons_self, h2⟩
        simp only [h1, this, if_true, if_false]
        rw [← h2]; exact lookup_unregPath_same _ _
      · have : ¬ ∃ q ∈ p :: rest, PathKey.part si q.id = k := by
          rintro ⟨q, hq, e⟩
          rcases List.mem_cons.mp hq with rfl | hq
          · exact h2 e
          · exact h1 ⟨q, hq, e⟩
        simp only [h1, this, if_false]
        exact lookup_unregPath_ne _ _ _ (fun h => h2 h.symm)

/-! ## views, view-preserving changes, primitive steps -/

/-- What `reqDecision` / `hasPart` / the preload-hint handler read of a stream. -/
structure View where
  segments      : List Entry
  nextSegmentID : Nat
  nextPartID    : Nat
  deleteCount   : Nat
  openSeg       : Option (Nat × List Part)   -- id and advertised parts of the open segment
  openPart      : Option Nat                 -- id of the open part

def StreamSt.view (s : StreamSt) : View :=
  { segments := s.segments, nextSegmentID := s.nextSegmentID, nextPartID := s.nextPartID,
    deleteCount := s.deleteCount, openSeg := s.nextSegment.map fun g => (g.id, g.parts),
    openPart := s.nextPart.map (·.id) }

structure Same (a b : State) : Prop where
  cfg : b.cfg = a.cfg
  paths : b.paths = a.paths
  len : b.streams.length = a.streams.length
  view : ∀ i, (b.stream i).view = (a.stream i).view

theorem Same.refl (a : State) : Same a a := ⟨rfl, rfl, rfl, fun _ => rfl⟩

theorem Same.trans {a b c : State} (h1 : Same a b) (h2 : Same b c) : Same a c :=
  ⟨h2.cfg.trans h1.cfg, h2.paths.trans h1.paths, h2.len.trans h1.len, fun i => (h2.view i).trans (h1.view i)⟩

theorem same_setTrack (st : State) (i : Nat) (t : TrackSt) : Same st (st.setTrack i t) :=
  ⟨rfl, rfl, rfl, fun _ => rfl⟩

theorem same_setStream (st : State) (i : Nat) (s : StreamSt) (h : s.view = (st.stream i).view) :
    Same st (st.setStream i s) := by
  refine ⟨rfl, rfl, by simp [State.setStream], fun j => ?_⟩
  by_cases hj : i = j
  · subst hj
    by_cases hl : i < st.streams.length
    · rw [stream_setStream_same _ _ _ hl]; exact h
    · rw [setStream_oob _ _ _ (Nat.le_of_not_lt hl)]
  · rw [stream_setStream_ne _ _ _ _ hj]

/-- `b` is reachable from `a` by primitive mutations of the muxer. -/
inductive Steps : State → State → Prop
  | refl (a : State) : Steps a a
  | same {a b c : State} : Steps a b → Same b c → Steps a c
  | createAll {a b : State} (d n : Int) : Steps a b → (∀ i, (b.stream i).nextSegment = none) →
      Steps a (createFirstSegment b d n)
  | rotP {a b : State} (si : Nat) (d : Int) : Steps a b → Steps a (rotatePartsStream b si d true)
  | rotS {a b : State} (si : Nat) (d n : Int) (f : Bool) : Steps a b → Steps a (rotateSegmentsStream b si d n f)

theorem Steps.trans {a b c : State} (h1 : Steps a b) (h2 : Steps b c) : Steps a c := by
  induction h2 with
  | refl => exact h1
  | same _ hs ih => exact .same ih hs
  | createAll d n _ hg ih => exact .createAll d n ih hg
  | rotP si d _ ih => exact .rotP si d ih
  | rotS si d n f _ ih => exact .rotS si d n f ih

theorem Steps.of_same {a b : State} (h : Same a b) : Steps a b := .same (.refl a) h

end Hls.Muxer
