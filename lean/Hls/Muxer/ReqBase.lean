import Hls.Muxer.Model
/-!
# C06 (sequential half) — base layer

* `View`: the part of a stream that the request decision (`reqDecision`, `hasPart`) and the
  preload-hint handler (`get` on a part path) read.
* `Same`: two states with the same configuration, path table and per-stream views.
* `Steps a b`: `b` is obtained from `a` by the muxer's primitive mutations
  (`createFirstSegmentStream`, `rotatePartsStream … true`, `rotateSegmentsStream`) interleaved with
  view-preserving changes.  `write_steps`/`run_steps`: every `write` / `run` is such a sequence.  All
  invariants and monotonicity statements of C06 are proved by induction over `Steps`, so the case
  analysis of `write` is done exactly once (here).
* decomposition of `rotateSegmentsStream` into named pieces (`rotateSegmentsStream_eq`, by `rfl`) and
  closed-form observations of the two rotations.

Helper lemmas only; the property theorems are in `Hls/Props/C06.lean`.
-/
namespace Hls.Muxer
open Hls.Gen

/-! ## generic list / state lemmas -/

theorem foldl_pres {α β} (P : β → Prop) (f : β → α → β) (l : List α) (b : β) (hb : P b)
    (h : ∀ b a, P b → P (f b a)) : P (l.foldl f b) := by
  induction l generalizing b with
  | nil => exact hb
  | cons a l ih => exact ih _ (h _ _ hb)

theorem stream_setStream_same (st : State) (si : Nat) (s : StreamSt) (h : si < st.streams.length) :
    (st.setStream si s).stream si = s := by
  simp [State.setStream, State.stream, List.getD_eq_getElem?_getD, h]

theorem stream_setStream_ne (st : State) (si sj : Nat) (s : StreamSt) (h : si ≠ sj) :
    (st.setStream si s).stream sj = st.stream sj := by
  simp [State.setStream, State.stream, List.getD_eq_getElem?_getD, h]

theorem setStream_oob (st : State) (si : Nat) (s : StreamSt) (h : st.streams.length ≤ si) :
    st.setStream si s = st := by
  have : st.streams.set si s = st.streams := List.set_eq_of_length_le h
  simp [State.setStream, this]

theorem stream_congr {a b : State} (h : a.streams = b.streams) (i : Nat) : a.stream i = b.stream i := by
  simp [State.stream, h]

theorem find_filter_self (ps : List (PathKey × Handler)) (k : PathKey) :
    List.find? (fun x => decide (x.1 = k)) (List.filter (fun x => decide (x.1 ≠ k)) ps) = none := by
  induction ps with
  | nil => rfl
  | cons x xs ih =>
    by_cases h1 : x.1 = k
    · rw [List.filter_cons_of_neg (by simpa using h1)]; exact ih
    · rw [List.filter_cons_of_pos (by simpa using h1), List.find?_cons_of_neg (by simpa using h1)]; exact ih

theorem lookup_filter_ne (ps : List (PathKey × Handler)) (k k' : PathKey) (hk : k' ≠ k) :
    List.find? (fun x => decide (x.1 = k')) (List.filter (fun x => decide (x.1 ≠ k)) ps) =
    List.find? (fun x => decide (x.1 = k')) ps := by
  induction ps with
  | nil => rfl
  | cons x xs ih =>
    by_cases h1 : x.1 = k
    · have h2 : x.1 ≠ k' := by rw [h1]; exact fun h => hk h.symm
      rw [List.filter_cons_of_neg (by simpa using h1), List.find?_cons_of_neg (by simpa using h2)]; exact ih
    · rw [List.filter_cons_of_pos (by simpa using h1)]
      by_cases h2 : x.1 = k'
      · rw [List.find?_cons_of_pos (by simpa using h2), List.find?_cons_of_pos (by simpa using h2)]
      · rw [List.find?_cons_of_neg (by simpa using h2), List.find?_cons_of_neg (by simpa using h2)]; exact ih

theorem lookup_regPath_same (ps : List (PathKey × Handler)) (k : PathKey) (h : Handler) :
    lookupPath (regPath ps k h) k = some h := by
  unfold lookupPath regPath
  rw [List.find?_append, find_filter_self]
  simp

theorem lookup_regPath_ne (ps : List (PathKey × Handler)) (k k' : PathKey) (h : Handler) (hk : k' ≠ k) :
    lookupPath (regPath ps k h) k' = lookupPath ps k' := by
  unfold lookupPath regPath
  rw [List.find?_append, lookup_filter_ne ps k k' hk]
  have : k ≠ k' := fun h => hk h.symm
  cases hf : List.find? (fun x => decide (x.1 = k')) ps <;> simp [this]

theorem lookup_unregPath_same (ps : List (PathKey × Handler)) (k : PathKey) :
    lookupPath (unregPath ps k) k = none := by
  unfold lookupPath unregPath
  rw [find_filter_self]; rfl

theorem lookup_unregPath_ne (ps : List (PathKey × Handler)) (k k' : PathKey) (hk : k' ≠ k) :
    lookupPath (unregPath ps k) k' = lookupPath ps k' := by
  unfold lookupPath unregPath
  rw [lookup_filter_ne ps k k' hk]

/-- unregistering a list of part paths: a key survives iff it is not one of them -/
theorem lookup_unregParts (si : Nat) (parts : List Part) (ps : List (PathKey × Handler)) (k : PathKey) :
    lookupPath (parts.foldl (fun ps p => unregPath ps (.part si p.id)) ps) k =
      if ∃ p ∈ parts, PathKey.part si p.id = k then none else lookupPath ps k := by
  induction parts generalizing ps with
  | nil => simp
  | cons p rest ih =>
    rw [List.foldl_cons, ih]
    by_cases h1 : ∃ q ∈ rest, PathKey.part si q.id = k
    · have : ∃ q ∈ p :: rest, PathKey.part si q.id = k := by
        obtain ⟨q, hq, e⟩ := h1; exact ⟨q, List.mem_cons_of_mem _ hq, e⟩
      simp only [h1, this, if_true]
    · by_cases h2 : PathKey.part si p.id = k
      · have : ∃ q ∈ p :: rest, PathKey.part si q.id = k := ⟨p, List.mem_cons_self, h2⟩
        simp only [h1, this, if_true, if_false]
        rw [← h2]; exact lookup_unregPath_same _ _
      · have : ¬ ∃ q ∈ p :: rest, PathKey.part si q.id = k := by
          rintro ⟨q, hq, e⟩
          rcases List.mem_cons.mp hq with rfl | hq
          · exact h2 e
          · exact h1 ⟨q, hq, e⟩
        simp only [h1, this, if_false]
        exact lookup_unregPath_ne _ _ _ (fun h => h2 h.symm)

/-! ## views, view-preserving changes, primitive steps -/

/-- What `reqDecision` / `hasPart` / the preload-hint handler read of a stream. -/
structure View where
  segments      : List Entry
  nextSegmentID : Nat
  nextPartID    : Nat
  deleteCount   : Nat
  openSeg       : Option (Nat × List Part)   -- id and advertised parts of the open segment
  openPart      : Option Nat                 -- id of the open part

def StreamSt.view (s : StreamSt) : View :=
  { segments := s.segments, nextSegmentID := s.nextSegmentID, nextPartID := s.nextPartID,
    deleteCount := s.deleteCount, openSeg := s.nextSegment.map fun g => (g.id, g.parts),
    openPart := s.nextPart.map (·.id) }

structure Same (a b : State) : Prop where
  cfg : b.cfg = a.cfg
  paths : b.paths = a.paths
  len : b.streams.length = a.streams.length
  view : ∀ i, (b.stream i).view = (a.stream i).view

theorem Same.refl (a : State) : Same a a := ⟨rfl, rfl, rfl, fun _ => rfl⟩

theorem Same.trans {a b c : State} (h1 : Same a b) (h2 : Same b c) : Same a c :=
  ⟨h2.cfg.trans h1.cfg, h2.paths.trans h1.paths, h2.len.trans h1.len, fun i => (h2.view i).trans (h1.view i)⟩

theorem same_setTrack (st : State) (i : Nat) (t : TrackSt) : Same st (st.setTrack i t) :=
  ⟨rfl, rfl, rfl, fun _ => rfl⟩

theorem same_setStream (st : State) (i : Nat) (s : StreamSt) (h : s.view = (st.stream i).view) :
    Same st (st.setStream i s) := by
  refine ⟨rfl, rfl, by simp [State.setStream], fun j => ?_⟩
  by_cases hj : i = j
  · subst hj
    by_cases hl : i < st.streams.length
    · rw [stream_setStream_same _ _ _ hl]; exact h
    · rw [setStream_oob _ _ _ (Nat.le_of_not_lt hl)]
  · rw [stream_setStream_ne _ _ _ _ hj]

/-- `b` is reachable from `a` by primitive mutations of the muxer. -/
inductive Steps : State → State → Prop
  | refl (a : State) : Steps a a
  | same {a b c : State} : Steps a b → Same b c → Steps a c
  | create {a b : State} (si : Nat) (d n : Int) : Steps a b → Steps a (createFirstSegmentStream b si d n)
  | rotP {a b : State} (si : Nat) (d : Int) : Steps a b → Steps a (rotatePartsStream b si d true)
  | rotS {a b : State} (si : Nat) (d n : Int) (f : Bool) : Steps a b → Steps a (rotateSegmentsStream b si d n f)

theorem Steps.trans {a b c : State} (h1 : Steps a b) (h2 : Steps b c) : Steps a c := by
  induction h2 with
  | refl => exact h1
  | same _ hs ih => exact .same ih hs
  | create si d n _ ih => exact .create si d n ih
  | rotP si d _ ih => exact .rotP si d ih
  | rotS si d n f _ ih => exact .rotS si d n f ih

theorem Steps.of_same {a b : State} (h : Same a b) : Steps a b := .same (.refl a) h

/-! ## `write` is a sequence of primitive steps -/

theorem createFirstSegment_steps (st : State) (d n : Int) : Steps st (createFirstSegment st d n) := by
  unfold createFirstSegment
  exact foldl_pres (Steps st) _ _ _ (.refl st) (fun b a hb => .create a d n hb)

theorem rotateParts_steps (st : State) (d : Int) : Steps st (rotateParts st d) := by
  unfold rotateParts
  apply foldl_pres (Steps st)
  · exact .rotP _ d (.refl st)
  · intro b a hb
    simp only
    split
    · exact hb
    · refine .same (.rotP a d hb) (same_setStream _ _ _ rfl)

theorem rotateSegments_steps (st : State) (d n : Int) (f : Bool) : Steps st (rotateSegments st d n f) := by
  unfold rotateSegments
  apply foldl_pres (Steps st)
  · exact .rotS _ d n f (.refl st)
  · intro b a hb
    simp only
    split
    · exact hb
    · refine .same (.rotS a d n f hb) (same_setStream _ _ _ rfl)

theorem adjustPartDuration_same (st : State) (x : Int) : Same st (adjustPartDuration st x) := by
  unfold adjustPartDuration
  split
  · exact .refl _
  · split
    · exact .refl _
    · split
      · exact .refl _
      · exact ⟨rfl, rfl, rfl, fun _ => rfl⟩

theorem partWriteSample_same (st : State) (ti : Nat) (smp : Sample) : Same st (partWriteSample st ti smp).1 := by
  unfold partWriteSample
  simp only
  split
  · rename_i seg part h1 h2
    split
    · exact .refl _
    · simp only
      refine (same_setTrack st ti _).trans (same_setStream _ _ _ ?_)
      show _ = (st.stream (st.streamOf ti)).view
      simp only [StreamSt.view, h1, h2]
      split <;> rfl
  · exact .refl _

theorem steps_ite {a x y : State} (c : Prop) [Decidable c] (hx : Steps a x) (hy : Steps a y) :
    Steps a (if c then x else y) := by
  split <;> assumption

/-- the part of `fmp4WriteSample` after the sample has been appended to the open part (leading track) -/
def fwTail0 (st : State) (ra changed : Bool) (smp : Sample) (rate segStart partStart : Int) : State × WriteRes :=
  let nd := toDur smp.dts rate
  if ra && (changed || decide (nd - segStart ≥ st.cfg.segmentMinDur)) then
    let st := rotateSegments st nd smp.ntp changed
    let st := if changed then { st with freeze := false, durs := [] } else { st with freeze := true }
    (st, .ok)
  else if st.cfg.variant = .ll ∧ nd - partStart ≥ st.adjusted then
    (rotateParts st nd, .ok)
  else (st, .ok)

def fwTail (st : State) (si : Nat) (ra changed : Bool) (smp : Sample) (rate : Int) : State × WriteRes :=
  let s := st.stream si
  fwTail0 st ra changed smp rate (match s.nextSegment with | some g => g.startDTS | none => 0)
    (match s.nextPart with | some p => p.startDTS | none => 0)

def fwMid (st : State) (ti si : Nat) (lead ra changed : Bool) (smp old : Sample) (rate : Int) : State × WriteRes :=
  match partWriteSample st ti old with
  | (st, .err) => (st, .err)
  | (st, .ok) => if !lead then (st, .ok) else fwTail st si ra changed smp rate

def fwPre (st : State) (lead hasSeg : Bool) (old : Sample) (duration rate : Int) : State :=
  let st := if lead && !hasSeg then createFirstSegment st (toDur old.dts rate) old.ntp else st
  if lead then adjustPartDuration st (toDur duration rate) else st

theorem fmp4Write_eq (st : State) (ti : Nat) (ra changed : Bool) (smp0 : Sample) :
    fmp4Write st ti ra changed smp0 =
      (let rate := (st.tcfg ti).clockRate
       let smp := { smp0 with dts := smp0.dts + toTs fmp4StartDTS rate }
       if smp.dts < 0 then (st, .ok) else
       let t := st.track ti
       let st := st.setTrack ti { t with next := some smp }
       match t.next with
       | none => (st, .ok)
       | some old =>
         let duration := smp.dts - old.dts
         let old := { old with dur := duration % 4294967296 }
         let si := st.streamOf ti
         let lead := st.isLeadingTrack ti
         let hasSeg := (st.stream si).nextSegment.isSome
         if !lead && !hasSeg then (st, .ok) else
         fwMid (fwPre st lead hasSeg old duration rate) ti si lead ra changed smp old rate) := rfl

theorem fwTail_steps (st : State) (si : Nat) (ra changed : Bool) (smp : Sample) (rate : Int) :
    Steps st (fwTail st si ra changed smp rate).1 := by
  unfold fwTail
  simp only
  generalize (match (st.stream si).nextSegment with | some g => g.startDTS | none => 0) = a
  generalize (match (st.stream si).nextPart with | some p => p.startDTS | none => 0) = b
  unfold fwTail0
  simp only
  split
  · cases changed
    · exact .same (rotateSegments_steps _ _ _ _) ⟨rfl, rfl, rfl, fun _ => rfl⟩
    · exact .same (rotateSegments_steps _ _ _ _) ⟨rfl, rfl, rfl, fun _ => rfl⟩
  · split
    · exact rotateParts_steps _ _
    · exact .refl _

theorem fwMid_steps (st : State) (ti si : Nat) (lead ra changed : Bool) (smp old : Sample) (rate : Int) :
    Steps st (fwMid st ti si lead ra changed smp old rate).1 := by
  unfold fwMid
  have h := partWriteSample_same st ti old
  split
  · rename_i st2 heq
    rw [heq] at h; exact .of_same h
  · rename_i st2 heq
    rw [heq] at h
    split
    · exact .of_same h
    · exact (Steps.of_same h).trans (fwTail_steps _ _ _ _ _ _)

theorem fwPre_steps (st : State) (lead hasSeg : Bool) (old : Sample) (duration rate : Int) :
    Steps st (fwPre st lead hasSeg old duration rate) := by
  unfold fwPre
  simp only
  have h1 : Steps st (if (lead && !hasSeg) = true then createFirstSegment st (toDur old.dts rate) old.ntp else st) :=
    steps_ite _ (createFirstSegment_steps _ _ _) (.refl _)
  split
  · exact .same h1 (adjustPartDuration_same _ _)
  · exact h1

theorem fmp4Write_steps (st : State) (ti : Nat) (ra changed : Bool) (smp : Sample) :
    Steps st (fmp4Write st ti ra changed smp).1 := by
  rw [fmp4Write_eq]
  simp only
  split
  · exact .refl _
  · split
    · exact .of_same (same_setTrack _ _ _)
    · split
      · exact .of_same (same_setTrack _ _ _)
      · exact ((Steps.of_same (same_setTrack _ _ _)).trans (fwPre_steps _ _ _ _ _ _)).trans (fwMid_steps _ _ _ _ _ _ _ _ _)

theorem fmp4WriteMany_steps (st : State) (ti : Nat) (l : List Sample) :
    Steps st (fmp4WriteMany st ti l).1 := by
  induction l generalizing st with
  | nil => exact .refl _
  | cons s rest ih =>
    unfold fmp4WriteMany
    have h := fmp4Write_steps st ti true false s
    split
    · rename_i st2 heq; rw [heq] at h; exact h
    · rename_i st2 heq; rw [heq] at h; exact h.trans (ih st2)

theorem tsWrite_same (st : State) (u : TsUnit) (size : Nat) (e : Option Int) (c : Bool) :
    Same st (tsWrite st u size e c).1 := by
  unfold tsWrite
  simp only
  split
  · exact .refl _
  · rename_i seg hseg
    split
    · exact .refl _
    · refine same_setStream _ _ _ ?_
      simp only [StreamSt.view, hseg]
      cases e <;> cases c <;> rfl

theorem paramsStep_same (st : State) (ti par : Nat) (ra : Bool) : Same st (paramsStep st ti par ra).1 := by
  unfold paramsStep
  simp only
  split <;> split <;> exact ⟨rfl, rfl, rfl, fun _ => rfl⟩

local macro "h264_tail " h:ident : tactic => `(tactic|
  (have h3 := fun i t => Steps.trans $h (Steps.of_same (same_setTrack _ i t))
   split
   · refine Steps.trans ?_ (Steps.of_same (tsWrite_same _ _ _ _ _))
     split
     · exact Steps.trans (h3 _ _) (createFirstSegment_steps _ _ _)
     · split
       · exact Steps.trans (h3 _ _) (rotateSegments_steps _ _ _ _)
       · exact h3 _ _
   · exact Steps.trans (h3 _ _) (fmp4Write_steps _ _ _ _ _)))

theorem write_steps (st : State) (op : WriteOp) : Steps st (write st op).1 := by
  unfold write
  simp only
  split
  · -- h264
    split
    · split <;> first | exact .refl _ | exact .of_same ⟨rfl, rfl, rfl, fun _ => rfl⟩
    · have hp := paramsStep_same st op.track op.par op.ra
      generalize paramsStep st op.track op.par op.ra = pr at hp
      obtain ⟨st1, changed⟩ := pr
      simp only at hp ⊢
      split
      · exact .of_same hp
      · have h2 := Steps.of_same (hp.trans (same_setTrack st1 op.track
            { st1.track op.track with firstRA := true,
                                       extrSPS := (st1.track op.track).extrSPS || decide (op.par ≠ 0) }))
        split
        · exact h2
        · split
          · split
            · exact h2
            · h264_tail h2
          · split
            · exact h2
            · h264_tail h2
  · -- h265 / vp9
    have hp := paramsStep_same st op.track op.par op.ra
    generalize paramsStep st op.track op.par op.ra = pr at hp
    obtain ⟨st1, changed⟩ := pr
    simp only at hp ⊢
    split
    · exact .of_same hp
    · exact (Steps.of_same (hp.trans (same_setTrack _ _ _))).trans (fmp4Write_steps _ _ _ _ _)
  · have hp := paramsStep_same st op.track op.par op.ra
    generalize paramsStep st op.track op.par op.ra = pr at hp
    obtain ⟨st1, changed⟩ := pr
    simp only at hp ⊢
    split
    · exact .of_same hp
    · exact (Steps.of_same (hp.trans (same_setTrack _ _ _))).trans (fmp4Write_steps _ _ _ _ _)
  · -- av1
    have hp := paramsStep_same st op.track op.par op.ra
    generalize paramsStep st op.track op.par op.ra = pr at hp
    obtain ⟨st1, changed⟩ := pr
    simp only at hp ⊢
    split
    · exact .of_same hp
    · exact (Steps.of_same (hp.trans (same_setTrack _ _ _))).trans (fmp4Write_steps _ _ _ _ _)
  · exact fmp4WriteMany_steps _ _ _
  · -- aac
    split
    · split
      · exact .refl _
      · refine Steps.trans ?_ (Steps.of_same (tsWrite_same _ _ _ _ _))
        split
        · split
          · exact createFirstSegment_steps _ _ _
          · split
            · exact rotateSegments_steps _ _ _ _
            · exact .refl _
        · exact .refl _
    · exact fmp4WriteMany_steps _ _ _

theorem run_steps (st : State) (ops : List WriteOp) : Steps st (run st ops) := by
  induction ops generalizing st with
  | nil => exact .refl _
  | cons op ops ih => exact (write_steps st op).trans (ih _)

end Hls.Muxer
