import Hls.Muxer.Model
/-!
# C01 — the INDEPENDENT specification of "which access units must come out"

Written from the property text (properties.jsonl C01) and the readings of DESIGN §6 C01 / §9, not from
the muxing logic: nothing here knows about segments, parts, the look-ahead sample or rotations. The only
model definitions reused are the data types (`Cfg`, `WriteOp`, `Codec`, `TsUnit`) and the two unit
expansions `buildOpus` / `buildAac` (one unit per Opus packet / AAC access unit with its own timestamp).

`accepted cfg ops t` (fMP4 / Low-Latency) : the units of track `t` that must be delivered, in writing order.
`acceptedTs cfg ops`  (MPEG-TS)           : the PES units that must be delivered, in writing order.
-/
namespace Hls.Muxer.Accept
open Hls.Muxer

/-- An access unit as the caller wrote it: payload id, decode time (ticks of the track's clock),
presentation offset, random-access flag, wall-clock time (ns). -/
structure AU where
  pay    : Nat
  dts    : Int
  ptsOff : Int
  sync   : Bool
  ntp    : Int
  deriving DecidableEq, Repr

def AU.ofSample (s : Sample) : AU := ⟨s.pay, s.dts, s.ptsOff, s.sync, s.ntp⟩

def trackCfg (cfg : Cfg) (k : Nat) : TrackCfg := cfg.tracks.getD k { codec := .aac, clockRate := 1 }

/-- the leading track: the video track, or track 0 of an audio-only muxer -/
def leadOf (cfg : Cfg) : Nat := (cfg.tracks.findIdx? (·.codec.isVideo)).getD 0

/-- The units one `Write*` call carries. H264: a call with neither an IDR nor a non-IDR slice is not a
picture (DESIGN §9) and carries no unit. Audio: one unit per packet / access unit. -/
def unitsOf (tc : TrackCfg) (op : WriteOp) : List AU :=
  let one (dts ptsOff : Int) : List AU := [⟨op.pays.headD 0, dts, ptsOff, op.ra, op.ntp⟩]
  match tc.codec with
  | .h264 => if !op.ra && !op.pic then [] else one op.dts (op.pts - op.dts)
  | .h265 | .vp9 => one op.dts (op.pts - op.dts)
  | .av1 => one op.pts 0
  | .opus => (buildOpus op.pays op.sizes op.durs op.pts op.ntp).map AU.ofSample
  | .aac => (buildAac op.pts op.ntp tc.clockRate tc.sampleRate 0 op.pays op.sizes).map AU.ofSample

/-- State of the scan for track `t`. -/
structure Scan where
  seenRA : List Nat := []      -- video tracks whose first random-access unit has arrived
  leadN  : Nat := 0            -- units of the leading track that survived the drop rules so far
  out    : List AU := []       -- units of `t` that are certainly delivered
  pend   : Option AU := none   -- the newest surviving unit of `t` (it has no successor yet)
  deriving Repr

/-- One unit `u` of track `k` arrives. -/
def scanUnit (cfg : Cfg) (t : Nat) (k : Nat) (s : Scan) (u : AU) : Scan :=
  let tc := trackCfg cfg k
  -- video: units before the first random-access unit are dropped
  if tc.codec.isVideo && !u.sync && !s.seenRA.contains k then s else
  let s := if tc.codec.isVideo then { s with seenRA := k :: s.seenRA } else s
  -- fMP4: a unit whose decode time stays negative after the +10 s offset is dropped
  if u.dts + 10 * tc.clockRate < 0 then s else
  let s := if k = leadOf cfg then { s with leadN := s.leadN + 1 } else s
  if k ≠ t then s else
  match s.pend with
  | none => { s with pend := some u }
  | some p =>
    -- `p` gets its successor now. A unit of a non-leading track is delivered only if, at this moment,
    -- the leading track has started the stream (its first unit has got ITS successor).
    { s with out := if k = leadOf cfg ∨ s.leadN ≥ 2 then s.out ++ [p] else s.out, pend := some u }

def scanOp (cfg : Cfg) (t : Nat) (s : Scan) (op : WriteOp) : Scan :=
  (unitsOf (trackCfg cfg op.track) op).foldl (scanUnit cfg t op.track) s

def scan (cfg : Cfg) (t : Nat) (s : Scan) (ops : List WriteOp) : Scan := ops.foldl (scanOp cfg t) s

/-- fMP4 variants: the units of track `t` that must come out, in order (the last one is the unit that is
still waiting for its successor). -/
def accepted (cfg : Cfg) (ops : List WriteOp) (t : Nat) : List AU :=
  let s := scan cfg t {} ops
  s.out ++ s.pend.toList

/-! ## MPEG-TS -/

structure ScanTs where
  seenRA  : List Nat := []       -- video tracks whose first random-access unit has arrived
  started : Bool := false        -- a unit of the leading track has been accepted
  out     : List TsUnit := []
  deriving Repr

/-- MPEG-TS: one PES per call, time stamps rescaled to 90 kHz (`multiplyAndDivide x 90000 rate`);
audio next to video is dropped until the first video unit was accepted. -/
def scanTsOp (cfg : Cfg) (s : ScanTs) (op : WriteOp) : ScanTs :=
  let k := op.track
  let tc := trackCfg cfg k
  let r := tc.clockRate
  if tc.codec.isVideo then
    if !op.ra && !op.pic then s else
    if !op.ra && !s.seenRA.contains k then s else
    { s with seenRA := k :: s.seenRA, started := true,
             out := s.out ++ [{ track := k, pts := Hls.Gen.multiplyAndDivide op.pts 90000 r,
                                dts := Hls.Gen.multiplyAndDivide op.dts 90000 r, pays := [op.pays.headD 0] }] }
  else
    if k ≠ leadOf cfg ∧ !s.started then s else
    { s with started := s.started || decide (k = leadOf cfg),
             out := s.out ++ [{ track := k, pts := Hls.Gen.multiplyAndDivide op.pts 90000 r,
                                dts := Hls.Gen.multiplyAndDivide op.pts 90000 r, pays := op.pays }] }

def acceptedTs (cfg : Cfg) (ops : List WriteOp) : List TsUnit := (ops.foldl (scanTsOp cfg) {}).out

end Hls.Muxer.Accept
