import Hls.Muxer.ReqInv
import Hls.Muxer.ReqSpec
/-!
# C06 (sequential half) — `hasPartScan` against the specification, under the window invariant
Helper lemmas only.
-/
namespace Hls.Muxer

theorem WinFrom_drop (k : Nat) (l : List Entry) (j : Nat) (h : WinFrom k l) : WinFrom (k + j) (l.drop j) := by
  induction j generalizing k l with
  | zero => simpa using h
  | succ j ih =>
    cases l with
    | nil => simp [WinFrom]
    | cons e r =>
      have := WinFrom_tail k (e :: r) h
      simp only [List.tail_cons] at this
      have h2 := ih (k + 1) r this
      simp only [List.drop_succ_cons]
      rw [show k + (j + 1) = k + 1 + j by omega]
      exact h2

/-- below the window nothing matches -/
theorem scan_lt (next op : Nat) (l : List Entry) (k m p : Nat) (h : WinFrom k l) (hm : m < k) :
    hasPartScan next op k l m p = decide (m = next ∧ p < op) := by
  induction l generalizing k with
  | nil => rfl
  | cons e r ih =>
    cases e with
    | gap d =>
      have hne : m ≠ k := by omega
      simp only [hasPartScan, hne, if_false]
      exact ih (k + 1) h.2 (by omega)
    | seg g =>
      have hne : m ≠ g.id := by rw [h.1]; omega
      simp only [hasPartScan, hne, if_false]
      exact ih (k + 1) h.2.2 (by omega)

/-- entries before position `j` are skipped when the request names the entry at position `j` -/
theorem scan_skip (next op : Nat) (l : List Entry) (k j m p : Nat) (h : WinFrom k l) (hm : m = k + j) :
    hasPartScan next op k l m p = hasPartScan next op (k + j) (l.drop j) m p := by
  induction j generalizing k l with
  | zero => simp
  | succ j ih =>
    cases l with
    | nil => simp [hasPartScan]
    | cons e r =>
      simp only [List.drop_succ_cons]
      rw [show k + (j + 1) = k + 1 + j by omega]
      cases e with
      | gap d =>
        have hne : m ≠ k := by omega
        simp only [hasPartScan, hne, if_false]
        exact ih r (k + 1) h.2 (by omega)
      | seg g =>
        have hne : m ≠ g.id := by rw [h.1]; omega
        simp only [hasPartScan, hne, if_false]
        exact ih r (k + 1) h.2.2 (by omega)

/-- the head index is irrelevant for an empty list -/
theorem scan_nil (next op k m p : Nat) : hasPartScan next op k [] m p = decide (m = next ∧ p < op) := rfl

/-! ### the scan before the F7 repair -/

theorem scanL_lt (next op : Nat) (l : List Entry) (k m p : Nat) (h : WinFrom k l) (hm : m < k) :
    hasPartScanLegacy next op l m p = decide (m = next ∧ p < op) := by
  induction l generalizing k with
  | nil => rfl
  | cons e r ih =>
    cases e with
    | gap d => exact ih (k + 1) h.2 (by omega)
    | seg g =>
      have hne : m ≠ g.id := by rw [h.1]; omega
      simp only [hasPartScanLegacy, hne, if_false]
      exact ih (k + 1) h.2.2 (by omega)

theorem scanL_skip (next op : Nat) (l : List Entry) (k j m p : Nat) (h : WinFrom k l) (hm : m = k + j) :
    hasPartScanLegacy next op l m p = hasPartScanLegacy next op (l.drop j) m p := by
  induction j generalizing k l with
  | zero => simp
  | succ j ih =>
    cases l with
    | nil => simp
    | cons e r =>
      simp only [List.drop_succ_cons]
      cases e with
      | gap d => exact ih r (k + 1) h.2 (by omega)
      | seg g =>
        have hne : m ≠ g.id := by rw [h.1]; omega
        simp only [hasPartScanLegacy, hne, if_false]
        exact ih r (k + 1) h.2.2 (by omega)

/-- real segments are followed by real segments only -/
theorem WinFrom_nogap (k : Nat) (l : List Entry) (h : WinFrom k l) (hk : llGapCount ≤ k) :
    ∀ e ∈ l, ∃ g, e = Entry.seg g := by
  induction l generalizing k with
  | nil => intro e he; cases he
  | cons e r ih =>
    intro e' he'
    cases e with
    | gap d => exact absurd h.1 (by omega)
    | seg g =>
      rcases List.mem_cons.mp he' with rfl | hr
      · exact ⟨g, rfl⟩
      · exact ih (k + 1) h.2.2 (by omega) e' hr

theorem normFrom_ge (l : List Entry) (M P : Nat) : M ≤ (normFrom l M P).1 := by
  induction l generalizing M P with
  | nil => exact Nat.le_refl _
  | cons e r ih =>
    unfold normFrom
    split
    · exact Nat.le_refl _
    · exact Nat.le_trans (Nat.le_succ _) (ih _ _)

/-- "published" over a window given as a list: `segs` listed from media sequence number `del`,
    the open segment `next` has `op` parts -/
def pubL (del : Nat) (segs : List Entry) (next op : Nat) (M P : Nat) : Prop :=
  (M = next ∧ P < op) ∨ (∃ e, del ≤ M ∧ segs[M - del]? = some e ∧ P < e.partCount)

/-- the scan from the entry at position `j` on -/
theorem scan_suffix (del : Nat) (segs : List Entry) (next op : Nat)
    (hw : WinFrom del segs) (hlen : del + segs.length = next) :
    ∀ (n j m p : Nat), n = segs.length - j → j ≤ segs.length → m = del + j →
      (hasPartScan next op m (segs.drop j) m p = true ↔
        pubL del segs next op (normFrom (segs.drop j) m p).1 (normFrom (segs.drop j) m p).2) := by
  intro n
  induction n with
  | zero =>
    intro j m p hn hj hm
    have hj' : j = segs.length := by omega
    have hd : segs.drop j = [] := by rw [hj']; exact List.drop_length
    rw [hd]
    simp only [hasPartScan, normFrom, pubL, decide_eq_true_eq]
    constructor
    · intro h; exact .inl h
    · rintro (h | ⟨e, _, he, _⟩)
      · exact h
      · have : segs[m - del]? = none := List.getElem?_eq_none (by omega)
        rw [this] at he; cases he
  | succ n ih =>
    intro j m p hn hj hm
    have hjlt : j < segs.length := by omega
    have hd : segs.drop j = segs[j] :: segs.drop (j + 1) := List.drop_eq_getElem_cons hjlt
    have hwd := WinFrom_drop del segs j hw
    rw [hd]
    cases hg : segs[j] with
    | gap d0 =>
      unfold hasPartScan normFrom
      simp only [if_true, Entry.partCount, Nat.not_lt_zero, if_false]
      exact ih (j + 1) (m + 1) 0 (by omega) (by omega) (by omega)
    | seg g =>
      rw [hd, hg] at hwd
      have hgid : g.id = m := by rw [hm]; exact hwd.1
      have hget : segs[m - del]? = some (Entry.seg g) := by
        rw [show m - del = j by omega, List.getElem?_eq_getElem hjlt, hg]
      unfold hasPartScan normFrom
      simp only [hgid, if_true, Entry.partCount]
      by_cases hp : p < g.parts.length
      · have : ¬ p ≥ g.parts.length := by omega
        simp only [this, if_false, hp, if_true]
        simp only [true_iff]
        exact .inr ⟨_, by omega, hget, hp⟩
      · have : p ≥ g.parts.length := by omega
        simp only [this, if_true, hp, if_false]
        exact ih (j + 1) (m + 1) 0 (by omega) (by omega) (by omega)

/-! ## stream level -/

theorem entryAt_lt_next (s : StreamSt) (si : Nat) (ps : List (PathKey × Handler)) (hinv : VInv si ps s.view)
    (M : Nat) (e : Entry) (h : s.entryAt M = some e) : s.deleteCount ≤ M ∧ M < s.nextSegmentID ∧ s.segments ≠ [] := by
  unfold StreamSt.entryAt at h
  split at h
  · cases h
  · rename_i hge
    have hlt : M - s.deleteCount < s.segments.length := by
      by_cases hl : M - s.deleteCount < s.segments.length
      · exact hl
      · rw [List.getElem?_eq_none (by omega)] at h; cases h
    have hne : s.segments ≠ [] := by intro h0; rw [h0] at hlt; simp at hlt
    have := hinv.len hne
    have h1 : s.view.deleteCount = s.deleteCount := rfl
    have h2 : s.view.segments = s.segments := rfl
    have h3 : s.view.nextSegmentID = s.nextSegmentID := rfl
    rw [h1, h2, h3] at this
    exact ⟨by omega, by omega, hne⟩

theorem entryAt_next_none (s : StreamSt) (si : Nat) (ps : List (PathKey × Handler)) (hinv : VInv si ps s.view)
    (M : Nat) (h : s.nextSegmentID ≤ M) : s.entryAt M = none := by
  cases he : s.entryAt M with
  | none => rfl
  | some e => have := entryAt_lt_next s si ps hinv M e he; omega

/-- F7 (before the repair): a request naming a listed gap entry WITH a part index matched nothing -/
theorem hasPartLegacy_gap (s : StreamSt) (si : Nat) (ps : List (PathKey × Handler)) (hinv : VInv si ps s.view)
    (m p : Nat) (d : Int) (h : s.entryAt m = some (.gap d)) : s.hasPartLegacy m p = false := by
  obtain ⟨hge, hlt, hne⟩ := entryAt_lt_next s si ps hinv m _ h
  have hw : WinFrom s.deleteCount s.segments := hinv.win
  unfold StreamSt.entryAt at h
  rw [if_neg (by omega)] at h
  have hj : m - s.deleteCount < s.segments.length := by
    by_cases hl : m - s.deleteCount < s.segments.length
    · exact hl
    · rw [List.getElem?_eq_none (by omega)] at h; cases h
  have hd : s.segments.drop (m - s.deleteCount) = s.segments[m - s.deleteCount] :: s.segments.drop (m - s.deleteCount + 1) :=
    List.drop_eq_getElem_cons hj
  rw [List.getElem?_eq_getElem hj] at h
  have hg : s.segments[m - s.deleteCount] = Entry.gap d := Option.some.inj h
  have hwd := WinFrom_drop _ _ (m - s.deleteCount) hw
  rw [hd, hg] at hwd
  unfold StreamSt.hasPartLegacy
  rw [if_neg (by omega), scanL_skip _ _ _ s.deleteCount (m - s.deleteCount) m p hw (by omega), hd, hg]
  unfold hasPartScanLegacy
  rw [scanL_lt _ _ _ (s.deleteCount + (m - s.deleteCount) + 1) m p hwd.2 (by omega)]
  simp; omega

/-- the head of the list is listed under `deleteCount` -/
theorem headIndex_eq (s : StreamSt) (si : Nat) (ps : List (PathKey × Handler)) (hinv : VInv si ps s.view)
    (hne : s.segments ≠ []) : s.nextSegmentID - s.segments.length = s.deleteCount := by
  have hlen : s.deleteCount + s.segments.length = s.nextSegmentID := hinv.len hne
  omega

theorem published_iff_pubL (s : StreamSt) (M P : Nat) :
    s.published M P ↔ pubL s.deleteCount s.segments s.nextSegmentID s.openPartCount M P := by
  unfold StreamSt.published pubL StreamSt.entryAt
  constructor
  · rintro (h | ⟨e, he, hp⟩)
    · exact .inl h
    · split at he
      · cases he
      · exact .inr ⟨e, by omega, he, hp⟩
  · rintro (h | ⟨e, hge, he, hp⟩)
    · exact .inl h
    · exact .inr ⟨e, by rw [if_neg (by omega)]; exact he, hp⟩

/-- the code's `hasPart` agrees with "the normalised part is published" -/
theorem hasPart_iff (s : StreamSt) (si : Nat) (ps : List (PathKey × Handler)) (hinv : VInv si ps s.view)
    (hne : s.segments ≠ []) (m p : Nat) (hge : s.deleteCount ≤ m) :
    s.hasPart m p = true ↔ s.published (s.normalise m p).1 (s.normalise m p).2 := by
  have hw : WinFrom s.deleteCount s.segments := hinv.win
  have hlen : s.deleteCount + s.segments.length = s.nextSegmentID := hinv.len hne
  have hk := headIndex_eq s si ps hinv hne
  rw [published_iff_pubL]
  unfold StreamSt.normalise
  rw [if_neg (by omega)]
  by_cases hle : m ≤ s.nextSegmentID
  · have hj : m - s.deleteCount ≤ s.segments.length := by omega
    have hsuf := scan_suffix s.deleteCount s.segments s.nextSegmentID s.openPartCount hw hlen
      (s.segments.length - (m - s.deleteCount)) (m - s.deleteCount) m p rfl hj (by omega)
    rw [← hsuf]
    unfold StreamSt.hasPart
    by_cases hm : m = s.nextSegmentID
    · rw [if_pos hm, List.drop_eq_nil_of_le (by omega)]
      simp [hasPartScan, hm]
    · rw [if_neg hm, hk, scan_skip _ _ _ s.deleteCount (m - s.deleteCount) m p hw (by omega)]
      rw [show s.deleteCount + (m - s.deleteCount) = m by omega]
  · have hdn : s.segments.drop (m - s.deleteCount) = [] := List.drop_eq_nil_of_le (by omega)
    rw [hdn]
    unfold StreamSt.hasPart
    rw [if_neg (by omega), hk, scan_skip _ _ _ s.deleteCount (m - s.deleteCount) m p hw (by omega), hdn]
    simp only [hasPartScan, normFrom, pubL, decide_eq_true_eq]
    constructor
    · intro h; omega
    · rintro (h | ⟨e, _, he, _⟩)
      · omega
      · rw [List.getElem?_eq_none (by omega)] at he; cases he

/-- the expiry threshold, under the invariant and without uint64 overflow of the segment counter -/
theorem lowerBound_eq (s : StreamSt) (si : Nat) (ps : List (PathKey × Handler)) (hinv : VInv si ps s.view)
    (hne : s.segments ≠ []) (h64 : s.nextSegmentID < two64) : s.lowerBound = s.deleteCount + 1 := by
  have hlen : s.deleteCount + s.segments.length = s.nextSegmentID := hinv.len hne
  have hpos : 0 < s.segments.length := List.length_pos_iff.mpr hne
  unfold StreamSt.lowerBound
  unfold two64 at *
  omega

theorem lowerBound_empty (s : StreamSt) (hne : s.segments = []) (h64 : s.nextSegmentID + 1 < two64) :
    s.lowerBound = s.nextSegmentID + 1 := by
  unfold StreamSt.lowerBound
  rw [hne]
  unfold two64 at *
  simp only [List.length_nil]
  omega

end Hls.Muxer
