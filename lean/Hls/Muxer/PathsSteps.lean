import Hls.Muxer.PathsFrame
/-!
  Every `write` is a finite sequence of primitive steps (`Prim`): this is the only place where the
  control structure of `write` / `fmp4Write` / `rotateParts` / `rotateSegments` is analysed; the
  invariant and frame properties are then proved per primitive.
-/
namespace Hls.Muxer.Paths
open Hls.Muxer

inductive Prim : State → State → Prop
  | core {st st' : State} : CoreEq st st' → Prim st st'
  | upd (st : State) (si : Nat) (s' : StreamSt) : LocalEq (st.stream si) s' → Prim st (st.setStream si s')
  | cfsAll (st : State) (si : Nat) (d n : Int) : (st.stream si).nextSegment = none →
      (st.cfg.variant = .mpegts ∧ si = 0 ∨ st.cfg.variant ≠ .mpegts ∧ si = leadingIdx st.cfg.tracks) →
      Prim st (createFirstSegment st d n)
  | rps (st : State) (si : Nat) (d : Int) : st.cfg.variant = .ll → Prim st (rotatePartsStream st si d true)
  | rss (st : State) (si : Nat) (d n : Int) (f : Bool) : Prim st (rotateSegmentsStream st si d n f)

inductive Steps : State → State → Prop
  | refl (st : State) : Steps st st
  | tail {a b c : State} : Steps a b → Prim b c → Steps a c

theorem Steps.single {a b : State} (h : Prim a b) : Steps a b := .tail (.refl a) h

theorem Steps.trans {a b c : State} (h1 : Steps a b) (h2 : Steps b c) : Steps a c := by
  induction h2 with
  | refl => exact h1
  | tail _ hp ih => exact .tail ih hp

theorem Steps.core {a b : State} (h : CoreEq a b) : Steps a b := .single (.core h)

theorem cfsAll_cfg (st : State) (d n : Int) : (createFirstSegment st d n).cfg = st.cfg := by
  unfold createFirstSegment
  generalize List.range st.streams.length = l
  induction l generalizing st with
  | nil => rfl
  | cons x l ih => rw [List.foldl_cons, ih]; rfl

theorem rss_cfg (st : State) (si : Nat) (d n : Int) (f : Bool) : (rotateSegmentsStream st si d n f).cfg = st.cfg := by
  rw [rss_eq]
  have key : ∀ st : State, (rscore st si d n f).cfg = st.cfg := by
    intro st
    cases hs : (st.stream si).nextSegment with
    | none => rw [rscore_none st si d n f hs]
    | some seg => rw [rscore_nf st si d n f seg hs]; rfl
  rw [key]
  split
  · exact rps_cfg st si d false
  · rfl

theorem Prim.cfg {a b : State} (h : Prim a b) : b.cfg = a.cfg := by
  cases h with
  | core h => exact h.cfg
  | upd => rfl
  | cfsAll => exact cfsAll_cfg _ _ _
  | rps => exact rps_cfg _ _ _ _
  | rss => exact rss_cfg _ _ _ _ _

theorem Steps.cfg {a b : State} (h : Steps a b) : b.cfg = a.cfg := by
  induction h with
  | refl => rfl
  | tail _ hp ih => rw [hp.cfg, ih]

/-- folding a step function over a list -/
theorem steps_foldl {α} (Q : State → Prop) (f : State → α → State) (l : List α)
    (hf : ∀ st x, Q st → Steps st (f st x) ∧ Q (f st x)) (st : State) (hQ : Q st) :
    Steps st (l.foldl f st) ∧ Q (l.foldl f st) := by
  induction l generalizing st with
  | nil => exact ⟨.refl st, hQ⟩
  | cons x l ih =>
    rw [List.foldl_cons]
    obtain ⟨h1, h2⟩ := hf st x hQ
    obtain ⟨h3, h4⟩ := ih (f st x) h2
    exact ⟨h1.trans h3, h4⟩

theorem steps_rotateParts (st : State) (d : Int) (hll : st.cfg.variant = .ll) : Steps st (rotateParts st d) := by
  unfold rotateParts
  have h1 : Steps st (rotatePartsStream st st.leadingStream d true) := .single (.rps st _ d hll)
  refine h1.trans (steps_foldl (fun s => s.cfg.variant = .ll) _ _ ?_ _ (by rw [rps_cfg]; exact hll)).1
  intro s x hQ
  simp only
  split
  · exact ⟨.refl s, hQ⟩
  · refine ⟨(Steps.single (.rps s x d hQ)).trans (.single (.upd _ x _ ⟨rfl, rfl, rfl, rfl, rfl, rfl, rfl⟩)), ?_⟩
    show (rotatePartsStream s x d true).cfg.variant = .ll
    rw [rps_cfg]; exact hQ

theorem steps_rotateSegments (st : State) (d n : Int) (f : Bool) : Steps st (rotateSegments st d n f) := by
  unfold rotateSegments
  have h1 : Steps st (rotateSegmentsStream st st.leadingStream d n f) := .single (.rss st _ d n f)
  refine h1.trans (steps_foldl (fun _ => True) _ _ ?_ _ trivial).1
  intro s x _
  simp only
  split
  · exact ⟨.refl s, trivial⟩
  · exact ⟨(Steps.single (.rss s x d n f)).trans (.single (.upd _ x _ ⟨rfl, rfl, rfl, rfl, rfl, rfl, rfl⟩)), trivial⟩

theorem steps_adjust (st : State) (sd : Int) : Steps st (adjustPartDuration st sd) := by
  unfold adjustPartDuration
  split
  · exact .refl st
  · split
    · exact .refl st
    · split
      · exact .refl st
      · exact .core ⟨rfl, rfl, rfl⟩

theorem steps_partWriteSample (st : State) (ti : Nat) (smp : Sample) : Steps st (partWriteSample st ti smp).1 := by
  unfold partWriteSample
  simp only
  split
  · rename_i seg part hseg hpart
    split
    · exact .refl st
    · refine (Steps.core (coreEq_setTrack st ti _)).trans (.single (.upd _ _ _ ?_))
      refine ⟨rfl, rfl, rfl, rfl, rfl, ?_, ?_⟩
      · show Option.map _ (some _) = Option.map _ (st.stream (st.streamOf ti)).nextPart
        rw [hpart]; simp only [Option.map_some]; split <;> rfl
      · show Option.map _ (some _) = Option.map _ (st.stream (st.streamOf ti)).nextSegment
        rw [hseg]; rfl
  · exact .refl st

theorem steps_tsWrite (st : State) (u : TsUnit) (size : Nat) (e : Option Int) (c : Bool) :
    Steps st (tsWrite st u size e c).1 := by
  unfold tsWrite
  simp only
  split
  · exact .refl st
  · rename_i seg hseg
    split
    · exact .refl st
    · refine .single (.upd _ _ _ ⟨rfl, rfl, rfl, rfl, rfl, rfl, ?_⟩)
      show Option.map _ (some _) = Option.map _ (st.stream 0).nextSegment
      rw [hseg]
      simp only [Option.map_some, Option.some.injEq]
      cases c <;> cases e <;> rfl

/-! ### `fmp4Write` in stages (verbatim copies, equality by `rfl`) -/

/-- last stage of `fmp4Write` (verbatim): the rotation decision after the sample was stored -/
def fmp4Tail4 (st : State) (ra changed : Bool) (nd ntp segStart partStart : Int) : State × WriteRes :=
  if ra && (changed || decide (nd - segStart ≥ st.cfg.segmentMinDur)) then
    let st := rotateSegments st nd ntp changed
    let st := if changed then { st with freeze := false, durs := [] } else { st with freeze := true }
    (st, .ok)
  else if st.cfg.variant = .ll ∧ nd - partStart ≥ st.adjusted then
    (rotateParts st nd, .ok)
  else (st, .ok)

def fmp4Tail3 (st : State) (ra changed : Bool) (rate : Int) (smp : Sample) (lead : Bool) (si : Nat) : State × WriteRes :=
  if !lead then (st, .ok) else
  let s := st.stream si
  fmp4Tail4 st ra changed (toDur smp.dts rate) smp.ntp
    (match s.nextSegment with | some g => g.startDTS | none => 0)
    (match s.nextPart with | some p => p.startDTS | none => 0)

def fmp4Tail2 (st : State) (ti : Nat) (ra changed : Bool) (rate : Int) (smp old : Sample) (lead : Bool) (si : Nat) :
    State × WriteRes :=
  match partWriteSample st ti old with
  | (st, .err) => (st, .err)
  | (st, .ok) => fmp4Tail3 st ra changed rate smp lead si

def fmp4Tail (st : State) (ti : Nat) (ra changed : Bool) (rate : Int) (smp old0 : Sample) : State × WriteRes :=
  let duration := smp.dts - old0.dts
  let old := { old0 with dur := duration % 4294967296 }
  let si := st.streamOf ti
  let lead := st.isLeadingTrack ti
  let hasSeg := (st.stream si).nextSegment.isSome
  if !lead && !hasSeg then (st, .ok) else
  let st := if lead && !hasSeg then createFirstSegment st (toDur old.dts rate) old.ntp else st
  let st := if lead then adjustPartDuration st (toDur duration rate) else st
  fmp4Tail2 st ti ra changed rate smp old lead si

theorem fmp4Write_eq (st : State) (ti : Nat) (ra ch : Bool) (smp0 : Sample) :
    fmp4Write st ti ra ch smp0 =
      (let rate := (st.tcfg ti).clockRate
       let smp := { smp0 with dts := smp0.dts + toTs fmp4StartDTS rate }
       if smp.dts < 0 then (st, .ok) else
       match (st.track ti).next with
       | none => (st.setTrack ti { st.track ti with next := some smp }, .ok)
       | some old => fmp4Tail (st.setTrack ti { st.track ti with next := some smp }) ti ra ch rate smp old) := rfl

theorem steps_fmp4Tail4 (st : State) (ra changed : Bool) (nd ntp segStart partStart : Int) :
    Steps st (fmp4Tail4 st ra changed nd ntp segStart partStart).1 := by
  unfold fmp4Tail4
  split
  · refine (steps_rotateSegments st nd ntp changed).trans ?_
    simp only
    split <;> exact .core ⟨rfl, rfl, rfl⟩
  · split
    · rename_i h; exact steps_rotateParts st _ h.1
    · exact .refl st

theorem steps_fmp4Tail3 (st : State) (ra changed : Bool) (rate : Int) (smp : Sample) (lead : Bool) (si : Nat) :
    Steps st (fmp4Tail3 st ra changed rate smp lead si).1 := by
  unfold fmp4Tail3
  split
  · exact .refl st
  · exact steps_fmp4Tail4 _ _ _ _ _ _ _

theorem steps_fmp4Tail2 (st : State) (ti : Nat) (ra changed : Bool) (rate : Int) (smp old : Sample) (lead : Bool)
    (si : Nat) : Steps st (fmp4Tail2 st ti ra changed rate smp old lead si).1 := by
  unfold fmp4Tail2
  have h := steps_partWriteSample st ti old
  split
  · rename_i st1 heq; rw [heq] at h; exact h
  · rename_i st1 heq; rw [heq] at h; exact h.trans (steps_fmp4Tail3 st1 _ _ _ _ _ _)

theorem steps_fmp4Tail (st : State) (ti : Nat) (ra changed : Bool) (rate : Int) (smp old0 : Sample) :
    Steps st (fmp4Tail st ti ra changed rate smp old0).1 := by
  unfold fmp4Tail
  simp only
  split
  · exact .refl st
  · rename_i hcond
    have h1 : Steps st (if (st.isLeadingTrack ti && !(st.stream (st.streamOf ti)).nextSegment.isSome) = true then
        createFirstSegment st (toDur old0.dts rate) old0.ntp else st) := by
      split
      · rename_i h
        simp only [Bool.and_eq_true, Bool.not_eq_eq_eq_not, Bool.not_true] at h
        refine .single (.cfsAll st (st.streamOf ti) _ _ ?_ ?_)
        · cases hn : (st.stream (st.streamOf ti)).nextSegment with
          | none => rfl
          | some g => rw [hn] at h; simp at h
        · have hl : ti = leadingIdx st.cfg.tracks := by simpa [State.isLeadingTrack] using h.1
          unfold State.streamOf
          cases hv : st.cfg.variant with
          | mpegts => left; exact ⟨rfl, rfl⟩
          | fmp4 => right; exact ⟨by simp, hl⟩
          | ll => right; exact ⟨by simp, hl⟩
      · exact .refl st
    refine h1.trans ?_
    generalize (if (st.isLeadingTrack ti && !(st.stream (st.streamOf ti)).nextSegment.isSome) = true then
        createFirstSegment st (toDur old0.dts rate) old0.ntp else st) = st1
    have h2 : Steps st1 (if st.isLeadingTrack ti = true then adjustPartDuration st1 (toDur (smp.dts - old0.dts) rate) else st1) := by
      split
      · exact steps_adjust st1 _
      · exact .refl st1
    exact h2.trans (steps_fmp4Tail2 _ _ _ _ _ _ _ _ _)

theorem steps_fmp4Write (st : State) (ti : Nat) (ra ch : Bool) (smp : Sample) :
    Steps st (fmp4Write st ti ra ch smp).1 := by
  rw [fmp4Write_eq]
  simp only
  split
  · exact .refl st
  · split
    · exact .core (coreEq_setTrack st ti _)
    · exact (Steps.core (coreEq_setTrack st ti _)).trans (steps_fmp4Tail _ _ _ _ _ _ _)

theorem steps_fmp4WriteMany (st : State) (ti : Nat) (l : List Sample) : Steps st (fmp4WriteMany st ti l).1 := by
  induction l generalizing st with
  | nil => exact .refl st
  | cons s rest ih =>
    unfold fmp4WriteMany
    have h := steps_fmp4Write st ti true false s
    split
    · rename_i st1 heq; rw [heq] at h; exact h
    · rename_i st1 heq; rw [heq] at h; exact h.trans (ih st1)


theorem coreEq_paramsStep (st : State) (ti par : Nat) (ra : Bool) : CoreEq st (paramsStep st ti par ra).1 := by
  unfold paramsStep
  simp only
  split <;> split <;> exact ⟨rfl, rfl, rfl⟩

theorem steps_video (st : State) (op : WriteOp) (smp : Bool → Sample) :
    Steps st
      (match paramsStep st op.track op.par op.ra with
        | (st, changed) =>
          if (!(st.track op.track).firstRA && !op.ra) = true then (st, WriteRes.ok)
          else fmp4Write (st.setTrack op.track { st.track op.track with firstRA := true }) op.track op.ra changed
            (smp changed)).1 := by
  have h := coreEq_paramsStep st op.track op.par op.ra
  generalize paramsStep st op.track op.par op.ra = r at h
  obtain ⟨st1, ch⟩ := r
  simp only at h ⊢
  split
  · exact .core h
  · exact (Steps.core (h.trans (coreEq_setTrack st1 _ _))).trans (steps_fmp4Write _ _ _ _ _)

theorem steps_h264Tail (st : State) (op : WriteOp) (changed : Bool) (ti : Nat) (rate nd : Int) (pay size : Nat) :
    Steps st
      (if st.cfg.variant = .mpegts then
        tsWrite
          (match (st.stream 0).nextSegment with
            | none => createFirstSegment st nd op.ntp
            | some seg =>
              if (op.ra && (decide (nd - seg.startDTS ≥ st.cfg.segmentMinDur) || changed)) = true then
                rotateSegments st nd op.ntp false
              else st)
          { track := ti, pts := mulDiv op.pts 90000 rate, dts := mulDiv op.dts 90000 rate, pays := [pay] } size (some nd) false
      else
        fmp4Write st ti op.ra changed
          { dts := op.dts, ptsOff := op.pts - op.dts, sync := op.ra, pay := pay, size := size, ntp := op.ntp }).1 := by
  split
  · rename_i hv
    refine Steps.trans ?_ (steps_tsWrite _ _ _ _ _)
    split
    · rename_i hn
      exact .single (.cfsAll _ 0 _ _ hn (Or.inl ⟨hv, rfl⟩))
    · split
      · exact steps_rotateSegments _ _ _ _
      · exact .refl _
  · exact steps_fmp4Write _ _ _ _ _

theorem steps_write_h264 (st : State) (op : WriteOp) (h : (st.tcfg op.track).codec = .h264) :
    Steps st (write st op).1 := by
  unfold write
  extract_lets ti tc rate pay size t src st1 nd1 lead s nd2 st2 sr
  split
  · split
    · have : CoreEq st st1 := by
        simp only [st1]; split <;> exact ⟨rfl, rfl, rfl⟩
      exact .core this
    · have hc := coreEq_paramsStep st ti op.par op.ra
      generalize paramsStep st ti op.par op.ra = r at hc
      obtain ⟨st3, changed⟩ := r
      simp only at hc ⊢
      split
      · exact .core hc
      · have hc3 := hc.trans (coreEq_setTrack st3 ti
          { st3.track ti with firstRA := true, extrSPS := (st3.track ti).extrSPS || decide (op.par ≠ 0) })
        split
        · exact .core hc3
        · split <;> split <;> first
            | exact .core hc3
            | exact (Steps.core (hc3.trans (coreEq_setTrack _ ti
                { st3.track ti with firstRA := true, extrSPS := (st3.track ti).extrSPS || decide (op.par ≠ 0),
                                    extrPrev := some op.dts }))).trans (steps_h264Tail _ op changed ti rate nd1 pay size)
  all_goals (rename_i hcodec; simp only [tc, ti] at hcodec; rw [h] at hcodec; cases hcodec)

theorem steps_write (st : State) (op : WriteOp) : Steps st (write st op).1 := by
  by_cases h264 : (st.tcfg op.track).codec = .h264
  · exact steps_write_h264 st op h264
  unfold write
  simp only
  split
  · rename_i h; exact absurd h h264
  · exact steps_video st op (fun _ => _)
  · exact steps_video st op (fun _ => _)
  · exact steps_video st op (fun _ => _)
  · exact steps_fmp4WriteMany _ _ _
  · -- aac
    split
    · split
      · exact .refl st
      · refine Steps.trans ?_ (steps_tsWrite _ _ _ _ _)
        split
        · split
          · rename_i hn
            refine .single (.cfsAll st 0 _ _ hn (Or.inl ⟨?_, rfl⟩))
            assumption
          · split
            · exact steps_rotateSegments _ _ _ _
            · exact .refl st
        · exact .refl st
    · exact steps_fmp4WriteMany _ _ _
end Hls.Muxer.Paths
