import Hls.Muxer.AcceptOps
/-!
# C01 helper lemmas, part 3: the abstract effect of one `fmp4WriteSample` (`Fmp4Eff`)
-/
namespace Hls.Muxer.Accept
open Hls.Muxer

inductive Rot | none | part | seg

def Rot.app : Rot → Abs → Abs
  | .none, a => a
  | .part, a => absRotP true a
  | .seg, a => absRotS a

theorem setTrack_next_step {st : State} {n L : Nat} (h : Shape st n L) (ti : Nat) (hti : ti < n) (smp : Sample) :
    AbsStep n st (st.setTrack ti { (st.track ti) with next := some smp })
      (fun j a => if j = ti then { a with next := some smp } else a) := by
  have h1 : ti < st.tracks.length := by rw [h.ntr]; exact hti
  refine ⟨⟨rfl, by simp, rfl, fun j => ⟨rfl, rfl⟩⟩, fun j hj => ?_⟩
  by_cases e : j = ti
  · subst e; simp [abs, openStored, h1]
  · simp [abs, openStored, Ne.symm e, e]

theorem isLeadingTrack_eq {st : State} {n L : Nat} (h : Shape st n L) (t : Nat) : st.isLeadingTrack t = decide (t = L) := by
  simp [State.isLeadingTrack, h.leq]

/-- the abstract effect of one successful `fmp4WriteSample` -/
inductive Fmp4Eff (n L ti : Nat) (o : Bool) (smp' : Sample) (st st' : State) : Prop
  | dropNeg (hneg : smp'.dts < 0) (e : st' = st)
  | first (hpos : 0 ≤ smp'.dts) (hn : (abs st ti).next = none)
      (s : AbsStep n st st' (fun j a => if j = ti then { a with next := some smp' } else a))
  | dropOld (hpos : 0 ≤ smp'.dts) (old : Sample) (hn : (abs st ti).next = some old) (hl : ti ≠ L) (ho : o = false)
      (s : AbsStep n st st' (fun j a => if j = ti then { a with next := some smp' } else a))
  | emit (hpos : 0 ≤ smp'.dts) (old : Sample) (hn : (abs st ti).next = some old) (hlo : ti = L ∨ o = true) (r : Rot)
      (hr : ti ≠ L → r = .none)
      (s : AbsStep n st st' (fun j a =>
        r.app ((if ti = L ∧ o = false then absOpen else id)
          (if j = ti then absPush { old with dur := (smp'.dts - old.dts) % 4294967296 } { a with next := some smp' } else a))))

@[simp] theorem streamOf_setTrack (st : State) (i t : Nat) (x : TrackSt) : (st.setTrack i x).streamOf t = st.streamOf t := rfl
@[simp] theorem isLeadingTrack_setTrack (st : State) (i t : Nat) (x : TrackSt) :
    (st.setTrack i x).isLeadingTrack t = st.isLeadingTrack t := rfl
@[simp] theorem tcfg_setTrack (st : State) (i t : Nat) (x : TrackSt) : (st.setTrack i x).tcfg t = st.tcfg t := rfl

theorem freeze_step (n : Nat) (st : State) (f : Bool) (ds : List Int) :
    AbsStep n st { st with freeze := f, durs := ds } (fun _ a => a) :=
  ⟨⟨rfl, rfl, rfl, fun _ => ⟨rfl, rfl⟩⟩, fun _ _ => rfl⟩

theorem freeze_step' (n : Nat) (st : State) (f : Bool) :
    AbsStep n st { st with freeze := f } (fun _ a => a) :=
  ⟨⟨rfl, rfl, rfl, fun _ => ⟨rfl, rfl⟩⟩, fun _ _ => rfl⟩

/-- the leading track's rotation decision at the end of `fmp4WriteSample` -/
def fmp4Tail (st : State) (rate : Int) (si : Nat) (ra ch : Bool) (smp : Sample) : State × WriteRes :=
  let s := st.stream si
  let nd := toDur smp.dts rate
  let segStart := match s.nextSegment with | some g => g.startDTS | none => 0
  let partStart := match s.nextPart with | some p => p.startDTS | none => 0
  if ra && (ch || decide (nd - segStart ≥ st.cfg.segmentMinDur)) then
    let st := rotateSegments st nd smp.ntp ch
    let st := if ch then { st with freeze := false, durs := [] } else { st with freeze := true }
    (st, .ok)
  else if st.cfg.variant = .ll ∧ nd - partStart ≥ st.adjusted then (rotateParts st nd, .ok)
  else (st, .ok)

/-- `fmp4WriteSample` from the point where the look-ahead sample `old` has been swapped out -/
def fmp4Emit (st : State) (ti : Nat) (rate : Int) (si : Nat) (lead ra ch : Bool) (smp old : Sample) : State × WriteRes :=
  let duration := smp.dts - old.dts
  let old := { old with dur := duration % 4294967296 }
  let hasSeg := (st.stream si).nextSegment.isSome
  if !lead && !hasSeg then (st, .ok) else
  let st := if lead && !hasSeg then createFirstSegment st (toDur old.dts rate) old.ntp else st
  let st := if lead then adjustPartDuration st (toDur duration rate) else st
  match partWriteSample st ti old with
  | (st, .err) => (st, .err)
  | (st, .ok) => if !lead then (st, .ok) else fmp4Tail st rate si ra ch smp

theorem fmp4Write_eq (st : State) (ti : Nat) (ra ch : Bool) (smp0 : Sample) :
    fmp4Write st ti ra ch smp0 =
      let rate := (st.tcfg ti).clockRate
      let smp : Sample := { smp0 with dts := smp0.dts + toTs fmp4StartDTS rate }
      if smp.dts < 0 then (st, .ok) else
      let st1 := st.setTrack ti { (st.track ti) with next := some smp }
      match (st.track ti).next with
      | none => (st1, .ok)
      | some old => fmp4Emit st1 ti rate (st1.streamOf ti) (st1.isLeadingTrack ti) ra ch smp old := by
  rfl

theorem fmp4Tail_step {st : State} {n L : Nat} (h : Shape st n L) (rate : Int) (si : Nat) (ra ch : Bool) (smp : Sample) :
    (fmp4Tail st rate si ra ch smp).2 = .ok ∧
    ∃ r : Rot, AbsStep n st (fmp4Tail st rate si ra ch smp).1 (fun _ a => r.app a) := by
  unfold fmp4Tail
  simp only []
  generalize (match (st.stream si).nextSegment with | some g => g.startDTS | none => 0) = segStart
  generalize (match (st.stream si).nextPart with | some p => p.startDTS | none => 0) = partStart
  by_cases c1 : (ra && (ch || decide (toDur smp.dts rate - segStart ≥ st.cfg.segmentMinDur))) = true
  · rw [if_pos c1]
    refine ⟨rfl, .seg, ?_⟩
    have s := rotateSegments_step h (toDur smp.dts rate) smp.ntp ch
    cases ch
    · exact (s.trans (freeze_step' n _ true)).congr fun _ _ => rfl
    · exact (s.trans (freeze_step n _ false [])).congr fun _ _ => rfl
  · rw [if_neg c1]
    by_cases c2 : st.cfg.variant = .ll ∧ toDur smp.dts rate - partStart ≥ st.adjusted
    · rw [if_pos c2]
      exact ⟨rfl, .part, rotateParts_step h _⟩
    · rw [if_neg c2]
      exact ⟨rfl, .none, AbsStep.refl n st⟩

theorem fmp4Emit_eff {st st' : State} {n L : Nat} (h : Shape st n L) (ti : Nat) (hti : ti < n) (rate : Int)
    (ra ch : Bool) (smp old : Sample) (o : Bool) (ho : ∀ j, j < n → (abs st j).hasSeg = o)
    (hr : fmp4Emit st ti rate ti (decide (ti = L)) ra ch smp old = (st', .ok)) :
    (ti ≠ L ∧ o = false ∧ st' = st) ∨
    ((ti = L ∨ o = true) ∧ ∃ r : Rot, (ti ≠ L → r = .none) ∧
      AbsStep n st st' (fun j a => r.app ((if ti = L ∧ o = false then absOpen else id)
        (if j = ti then absPush { old with dur := (smp.dts - old.dts) % 4294967296 } a else a)))) := by
  unfold fmp4Emit at hr
  have hseg : (st.stream ti).nextSegment.isSome = o := ho ti hti
  simp only [hseg] at hr
  generalize hold : ({ old with dur := (smp.dts - old.dts) % 4294967296 } : Sample) = old' at hr ⊢
  have e1 : old'.dts = old.dts := by subst hold; rfl
  have e2 : old'.ntp = old.ntp := by subst hold; rfl
  by_cases hl : ti = L
  · -- leading track
    subst hl
    simp only [decide_true, Bool.not_true, Bool.false_and, Bool.true_and, if_true, Bool.false_eq_true, if_false] at hr
    right
    refine ⟨Or.inl rfl, ?_⟩
    -- createFirstSegment if needed
    obtain ⟨st2, hst2, s2⟩ : ∃ st2, st2 = (if (!o) = true then createFirstSegment st (toDur old.dts rate) old.ntp else st) ∧
        AbsStep n st st2 (fun _ a => (if ti = ti ∧ o = false then absOpen else id) a) := by
      refine ⟨_, rfl, ?_⟩
      cases o
      · simpa using createFirstSegment_step h _ _
      · simpa using AbsStep.refl n st
    rw [← hst2] at hr
    have hs2 := h.of_same s2.same
    have s3 := adjustPartDuration_step n st2 (toDur (smp.dts - old.dts) rate)
    have hs3 := hs2.of_same s3.same
    generalize adjustPartDuration st2 (toDur (smp.dts - old.dts) rate) = st3 at hr s3 hs3
    cases hpw : partWriteSample st3 ti old' with
    | mk st4 res =>
      rw [hpw] at hr
      cases res with
      | err => simp at hr
      | ok =>
        simp only [] at hr
        obtain ⟨s4, -, -⟩ := partWriteSample_ok hs3 ti hti old' hpw
        have hs4 := hs3.of_same s4.same
        obtain ⟨hok, r, s5⟩ := fmp4Tail_step hs4 rate ti ra ch smp
        have e5 : (fmp4Tail st4 rate ti ra ch smp).1 = st' := by rw [hr]
        rw [e5] at s5
        refine ⟨r, fun hne => absurd rfl hne, ?_⟩
        refine (((s2.trans s3).trans s4).trans s5).congr fun j hj => ?_
        by_cases e : j = ti
        · subst e; cases o <;> simp [absOpen, absPush]
        · simp [e]
  · -- non-leading track
    have hd : decide (ti = L) = false := by simp [hl]
    simp only [hd, Bool.not_false, Bool.true_and, Bool.false_and, if_true] at hr
    cases o
    · left
      simp at hr
      exact ⟨hl, rfl, hr.symm⟩
    · right
      refine ⟨Or.inr rfl, .none, fun _ => rfl, ?_⟩
      simp only [Bool.not_true, Bool.false_eq_true, if_false] at hr
      cases hpw : partWriteSample st ti old' with
      | mk st4 res =>
        rw [hpw] at hr
        cases res with
        | err => simp at hr
        | ok =>
          simp only [Prod.mk.injEq, and_true] at hr
          subst hr
          obtain ⟨s4, -, -⟩ := partWriteSample_ok h ti hti old' hpw
          refine s4.congr fun j hj => ?_
          by_cases e : j = ti <;> simp [e, Rot.app]

theorem fmp4Write_eff {st st' : State} {n L : Nat} (h : Shape st n L) (ti : Nat) (hti : ti < n) (ra ch : Bool)
    (smp : Sample) (o : Bool) (ho : ∀ j, j < n → (abs st j).hasSeg = o)
    (hr : fmp4Write st ti ra ch smp = (st', .ok)) :
    Fmp4Eff n L ti o { smp with dts := smp.dts + toTs fmp4StartDTS (st.tcfg ti).clockRate } st st' := by
  rw [fmp4Write_eq] at hr
  simp only [] at hr
  generalize hsmp : ({ smp with dts := smp.dts + toTs fmp4StartDTS (st.tcfg ti).clockRate } : Sample) = smp' at hr ⊢
  by_cases hneg : smp'.dts < 0
  · have : smp.dts + toTs fmp4StartDTS (st.tcfg ti).clockRate < 0 := by subst hsmp; exact hneg
    rw [if_pos this] at hr
    simp only [Prod.mk.injEq, and_true] at hr
    exact .dropNeg hneg hr.symm
  · have : ¬ smp.dts + toTs fmp4StartDTS (st.tcfg ti).clockRate < 0 := by subst hsmp; exact hneg
    rw [if_neg this] at hr
    have hpos : 0 ≤ smp'.dts := by omega
    have s1 := setTrack_next_step h ti hti smp'
    have hs1 := h.of_same s1.same
    cases hn : (st.track ti).next with
    | none =>
      simp only [hn, Prod.mk.injEq, and_true] at hr
      subst hr
      exact .first hpos (by simp [abs, hn]) s1
    | some old =>
      simp only [hn] at hr
      rw [streamOf_eq hs1, isLeadingTrack_eq hs1] at hr
      have ho1 : ∀ j, j < n → (abs (st.setTrack ti { (st.track ti) with next := some smp' }) j).hasSeg = o := by
        intro j hj
        rw [s1.eq j hj, ← ho j hj]
        by_cases e : j = ti <;> simp [e]
      have hna : (abs st ti).next = some old := by simp [abs, hn]
      rcases fmp4Emit_eff hs1 ti hti _ ra ch smp' old o ho1 hr with ⟨hl, ho', e⟩ | ⟨hlo, r, hrn, s2⟩
      · subst e
        exact .dropOld hpos old hna hl ho' s1
      · refine .emit hpos old hna hlo r hrn ?_
        refine (s1.trans s2).congr fun j hj => ?_
        by_cases e : j = ti <;> simp [e]

end Hls.Muxer.Accept
