import Hls.Muxer.Model
/-!
# Arithmetic of target durations (helper file for C03)

`targetDuration` and `partTargetDuration` are running maxima that start from 0; `ceilMs` rounds a
non-negative duration up to whole milliseconds; `PART-HOLD-BACK = tdiv (25·T) 10`.
-/
namespace Hls.Muxer
open Hls.Gen

/-- the running maximum used by both target computations -/
def foldMax {α} (f : α → Int) (l : List α) (init : Int) : Int :=
  l.foldl (fun r a => if f a > r then f a else r) init

theorem foldMax_cons {α} (f : α → Int) (x : α) (xs : List α) (i : Int) :
    foldMax f (x :: xs) i = foldMax f xs (if f x > i then f x else i) := rfl

theorem foldMax_ge_init {α} (f : α → Int) (l : List α) : ∀ init, init ≤ foldMax f l init := by
  induction l with
  | nil => intro i; exact Int.le_refl _
  | cons x xs ih =>
    intro i
    rw [foldMax_cons]
    have := ih (if f x > i then f x else i)
    by_cases h : f x > i
    · rw [if_pos h] at this ⊢; omega
    · rw [if_neg h] at this ⊢; omega

theorem foldMax_ge_mem {α} (f : α → Int) (l : List α) : ∀ init, ∀ a ∈ l, f a ≤ foldMax f l init := by
  induction l with
  | nil => intro i a ha; cases ha
  | cons x xs ih =>
    intro i a ha
    rw [foldMax_cons]
    rcases List.mem_cons.1 ha with h | h
    · subst h
      have := foldMax_ge_init f xs (if f a > i then f a else i)
      by_cases h : f a > i
      · rw [if_pos h] at this ⊢; omega
      · rw [if_neg h] at this ⊢; omega
    · exact ih _ a h

theorem foldMax_mono {α} (f : α → Int) (l : List α) : ∀ i j, i ≤ j → foldMax f l i ≤ foldMax f l j := by
  induction l with
  | nil => intro i j h; exact h
  | cons x xs ih =>
    intro i j h
    rw [foldMax_cons, foldMax_cons]
    apply ih
    split <;> split <;> omega

theorem foldMax_append {α} (f : α → Int) (l m : List α) (init : Int) :
    foldMax f (l ++ m) init = foldMax f m (foldMax f l init) := by
  simp only [foldMax, List.foldl_append]

/-! ## TARGETDURATION -/

theorem targetDuration_eq (segs : List Entry) :
    targetDuration segs = foldMax (fun e => roundSeconds e.duration) segs 0 := rfl

theorem targetDuration_nonneg (segs : List Entry) : 0 ≤ targetDuration segs := foldMax_ge_init _ _ _

theorem targetDuration_ge {segs : List Entry} {e : Entry} (h : e ∈ segs) :
    roundSeconds e.duration ≤ targetDuration segs := foldMax_ge_mem _ _ _ e h

/-! ## PART-TARGET -/

/-- longest part among the listed segments and the open segment's parts (0 if none) -/
def maxPart (segs : List Entry) (nextParts : List Part) : Int :=
  foldMax Part.duration nextParts
    (segs.foldl (fun ret e =>
      match e with
      | .gap _ => ret
      | .seg s => foldMax Part.duration s.parts ret) 0)

theorem partTargetDuration_eq (segs : List Entry) (nextParts : List Part) :
    partTargetDuration segs nextParts = MS * ceilMs (maxPart segs nextParts) := rfl

/-- the inner fold over the listed segments -/
def maxSegParts (segs : List Entry) (init : Int) : Int :=
  segs.foldl (fun ret e =>
      match e with
      | .gap _ => ret
      | .seg s => foldMax Part.duration s.parts ret) init

theorem maxPart_eq (segs : List Entry) (nextParts : List Part) :
    maxPart segs nextParts = foldMax Part.duration nextParts (maxSegParts segs 0) := rfl

theorem maxSegParts_ge_init (segs : List Entry) : ∀ init, init ≤ maxSegParts segs init := by
  induction segs with
  | nil => intro i; exact Int.le_refl _
  | cons e r ih =>
    intro i
    cases e with
    | gap d => exact ih i
    | seg g =>
      have h1 := foldMax_ge_init Part.duration g.parts i
      have h2 := ih (foldMax Part.duration g.parts i)
      have e : maxSegParts (Entry.seg g :: r) i = maxSegParts r (foldMax Part.duration g.parts i) := rfl
      omega

theorem maxSegParts_ge_mem (segs : List Entry) : ∀ init, ∀ g, Entry.seg g ∈ segs → ∀ p ∈ g.parts,
    p.duration ≤ maxSegParts segs init := by
  induction segs with
  | nil => intro i g hg; cases hg
  | cons e r ih =>
    intro i g hg p hp
    rcases List.mem_cons.1 hg with h | h
    · subst h
      have h1 := foldMax_ge_mem Part.duration g.parts i p hp
      have h2 := maxSegParts_ge_init r (foldMax Part.duration g.parts i)
      have e : maxSegParts (Entry.seg g :: r) i = maxSegParts r (foldMax Part.duration g.parts i) := rfl
      omega
    · cases e with
      | gap d => exact ih i g h p hp
      | seg g' => exact ih _ g h p hp

theorem maxPart_nonneg (segs : List Entry) (nextParts : List Part) : 0 ≤ maxPart segs nextParts := by
  rw [maxPart_eq]
  have h1 := maxSegParts_ge_init segs 0
  have h2 := foldMax_ge_init Part.duration nextParts (maxSegParts segs 0)
  omega

theorem maxPart_ge_listed {segs : List Entry} {nextParts : List Part} {g : Seg} (hg : Entry.seg g ∈ segs)
    {p : Part} (hp : p ∈ g.parts) : p.duration ≤ maxPart segs nextParts := by
  rw [maxPart_eq]
  have h1 := maxSegParts_ge_mem segs 0 g hg p hp
  have h2 := foldMax_ge_init Part.duration nextParts (maxSegParts segs 0)
  omega

theorem maxPart_ge_open {segs : List Entry} {nextParts : List Part} {p : Part} (hp : p ∈ nextParts) :
    p.duration ≤ maxPart segs nextParts := by
  rw [maxPart_eq]
  exact foldMax_ge_mem Part.duration nextParts _ p hp

/-! ## ceilMs, hold-back -/

theorem MS_val : MS = 1000000 := rfl
theorem S_val : S = 1000000000 := rfl

theorem ceilMs_spec {m : Int} (h : 0 ≤ m) : m ≤ MS * ceilMs m ∧ MS * ceilMs m < m + MS ∧ 0 ≤ ceilMs m := by
  unfold ceilMs MS
  simp only [ge_iff_le, h, if_true]
  rw [Int.tdiv_eq_ediv_of_nonneg (by omega)]
  omega

theorem holdBack_ge {T : Int} (h : 0 ≤ T) : 2 * T ≤ Int.tdiv (T * 25) 10 := by
  rw [Int.tdiv_eq_ediv_of_nonneg (by omega)]; omega

/-- `roundSeconds` is the nearest integer number of seconds (half away from zero) for `d ≥ 0`. -/
theorem roundSeconds_spec {d : Int} (h : 0 ≤ d) :
    2 * S * roundSeconds d - S ≤ 2 * d ∧ 2 * d < 2 * S * roundSeconds d + S := by
  unfold roundSeconds S
  simp only [ge_iff_le, h, if_true]
  have e : (1000000000 : Int) / 2 = 500000000 := by decide
  rw [e, Int.tdiv_eq_ediv_of_nonneg (by omega)]
  omega

theorem newTarget_ge (T td : Int) (h : 0 ≤ td) :
    td ≤ (if T = 0 then td else if td > T then td else T) ∧ T ≤ (if T = 0 then td else if td > T then td else T) := by
  split
  · omega
  · split <;> omega

end Hls.Muxer
