import Hls.Muxer.AcceptFrame
/-!
# C01 helper lemmas, part 2: the muxer-wide operations (`rotateParts`, `rotateSegments`,
`createFirstSegment`, `partWriteSample`) as `AbsStep`s — what they do to every track at once.
-/
set_option linter.unusedSimpArgs false
set_option linter.unusedVariables false
namespace Hls.Muxer.Accept
open Hls.Muxer

@[simp] theorem stream_setStream_setTrack_self (st : State) (i k : Nat) (x : TrackSt) (S : StreamSt)
    (h : i < st.streams.length) : ((st.setTrack k x).setStream i S).stream i = S :=
  stream_setStream_self (st.setTrack k x) i S h

theorem stream_eq_getElem (st : State) (i : Nat) (h : i < st.streams.length) : st.stream i = st.streams[i] := by
  simp [State.stream, List.getD_eq_getElem?_getD, h]

theorem leadingStream_eq {st : State} {n L : Nat} (h : Shape st n L) : st.leadingStream = L := by
  have hL : L < st.streams.length := by rw [h.nst]; exact h.lead
  have : st.streams.findIdx? (·.isLeading) = some L := by
    rw [List.findIdx?_eq_some_iff_getElem]
    refine ⟨hL, ?_, fun j hj => ?_⟩
    · rw [← stream_eq_getElem st L hL, (h.str L h.lead).2]; simp
    · have hj' : j < n := Nat.lt_trans hj h.lead
      have hjs : j < st.streams.length := by rw [h.nst]; exact hj'
      rw [← stream_eq_getElem st j hjs, (h.str j hj').2]; simp; omega
  simp [State.leadingStream, this]

theorem rotateSegmentsStream_step {st : State} {n L : Nat} (h : Shape st n L) (si : Nat) (hsi : si < n) (d ntp : Int) (force : Bool) :
    AbsStep n st (rotateSegmentsStream st si d ntp force) (fun j a => if j = si then absRotS a else a) := by
  rw [rotateSegmentsStream_eq]
  simp only [h.var, ne_eq, not_false_eq_true, if_true]
  have s1 := rotatePartsStream_step h si hsi d false
  have s2 := rotSegTail_step (h.of_same s1.same) si hsi d ntp force
  refine (s1.trans s2).congr fun j hj => ?_
  by_cases e : j = si <;> simp [e, absRotS_eq]

/-- a change of stream `si` that C01 does not look at -/
theorem setStream_cosmetic {st : State} {n : Nat} (si : Nat) (S : StreamSt)
    (e1 : S.tracks = (st.stream si).tracks) (e2 : S.isLeading = (st.stream si).isLeading)
    (e3 : S.segments = (st.stream si).segments) (e4 : S.nextSegment = (st.stream si).nextSegment)
    (e5 : S.nextPart = (st.stream si).nextPart) (e6 : S.nextSegmentID = (st.stream si).nextSegmentID) :
    AbsStep n st (st.setStream si S) (fun _ a => a) := by
  by_cases h2 : si < st.streams.length
  · refine ⟨⟨rfl, rfl, by simp, fun j => ?_⟩, fun j _ => ?_⟩
    · by_cases e : j = si
      · subst e; simp [h2, e1, e2]
      · simp [Ne.symm e]
    · by_cases e : j = si
      · subst e; simp [abs, openStored, h2, e3, e4, e5, e6]
      · simp [abs, openStored, Ne.symm e]
  · have : st.setStream si S = st := by
      simp only [State.setStream]
      rw [List.set_eq_of_length_le (by omega)]
    rw [this]; exact AbsStep.refl n st

theorem fold_absStep {n L : Nat} (f : State → Nat → State) (F : Nat → Abs → Abs)
    (hf : ∀ st i, Shape st n L → i < n → AbsStep n st (f st i) (fun j a => if j = i then F i a else a)) :
    ∀ (l : List Nat), l.Nodup → (∀ i ∈ l, i < n) → ∀ st, Shape st n L →
      AbsStep n st (l.foldl f st) (fun j a => if j ∈ l then F j a else a) := by
  intro l
  induction l with
  | nil => intro _ _ st _; simpa using AbsStep.refl n st
  | cons i l ih =>
    intro hnd hlt st hs
    rw [List.nodup_cons] at hnd
    have s1 := hf st i hs (hlt i (by simp))
    have s2 := ih hnd.2 (fun k hk => hlt k (by simp [hk])) (f st i) (hs.of_same s1.same)
    simp only [List.foldl_cons]
    refine (s1.trans s2).congr fun j _ => ?_
    by_cases e : j = i
    · subst e; simp [hnd.1]
    · simp [e]

theorem rotateParts_step {st : State} {n L : Nat} (h : Shape st n L) (d : Int) :
    AbsStep n st (rotateParts st d) (fun _ a => absRotP true a) := by
  unfold rotateParts
  rw [leadingStream_eq h]
  have s1 := rotatePartsStream_step h L h.lead d true
  have hs1 := h.of_same s1.same
  have s2 := fold_absStep (n := n) (L := L)
    (fun st si => if (st.stream si).isLeading then st
      else (rotatePartsStream st si d true).setStream si
        { ((rotatePartsStream st si d true).stream si) with
          partTargetDur := ((rotatePartsStream st si d true).stream L).partTargetDur })
    (fun j a => if j = L then a else absRotP true a)
    (by
      intro st i hs hi
      simp only [(hs.str i hi).2, decide_eq_true_eq]
      by_cases e : i = L
      · simp only [e, if_true]
        refine (AbsStep.refl n st).congr fun j _ => ?_
        by_cases e' : j = L <;> simp [e']
      · simp only [e, if_false]
        have t1 := rotatePartsStream_step hs i hi d true
        have t2 := setStream_cosmetic (n := n) (st := rotatePartsStream st i d true) i
          { ((rotatePartsStream st i d true).stream i) with
            partTargetDur := ((rotatePartsStream st i d true).stream L).partTargetDur } rfl rfl rfl rfl rfl rfl
        refine (t1.trans t2).congr fun j _ => ?_
        by_cases e' : j = i <;> simp [e', e])
    (List.range n) List.nodup_range (fun i hi => List.mem_range.mp hi) _ hs1
  have hlen : (rotatePartsStream st L d true).streams.length = n := hs1.nst
  dsimp only; rw [hlen]
  refine (s1.trans s2).congr fun j hj => ?_
  by_cases e : j = L <;> simp [e, List.mem_range, hj]

theorem rotateSegments_step {st : State} {n L : Nat} (h : Shape st n L) (d ntp : Int) (force : Bool) :
    AbsStep n st (rotateSegments st d ntp force) (fun _ a => absRotS a) := by
  unfold rotateSegments
  rw [leadingStream_eq h]
  have s1 := rotateSegmentsStream_step h L h.lead d ntp force
  have hs1 := h.of_same s1.same
  have s2 := fold_absStep (n := n) (L := L)
    (fun st si => if (st.stream si).isLeading then st
      else (rotateSegmentsStream st si d ntp force).setStream si
        { ((rotateSegmentsStream st si d ntp force).stream si) with
          targetDur := ((rotateSegmentsStream st si d ntp force).stream L).targetDur,
          partTargetDur := ((rotateSegmentsStream st si d ntp force).stream L).partTargetDur })
    (fun j a => if j = L then a else absRotS a)
    (by
      intro st i hs hi
      simp only [(hs.str i hi).2, decide_eq_true_eq]
      by_cases e : i = L
      · simp only [e, if_true]
        refine (AbsStep.refl n st).congr fun j _ => ?_
        by_cases e' : j = L <;> simp [e']
      · simp only [e, if_false]
        have t1 := rotateSegmentsStream_step hs i hi d ntp force
        have t2 := setStream_cosmetic (n := n) (st := rotateSegmentsStream st i d ntp force) i
          { ((rotateSegmentsStream st i d ntp force).stream i) with
            targetDur := ((rotateSegmentsStream st i d ntp force).stream L).targetDur,
            partTargetDur := ((rotateSegmentsStream st i d ntp force).stream L).partTargetDur } rfl rfl rfl rfl rfl rfl
        refine (t1.trans t2).congr fun j _ => ?_
        by_cases e' : j = i <;> simp [e', e])
    (List.range n) List.nodup_range (fun i hi => List.mem_range.mp hi) _ hs1
  have hlen : (rotateSegmentsStream st L d ntp force).streams.length = n := hs1.nst
  dsimp only; rw [hlen]
  refine (s1.trans s2).congr fun j hj => ?_
  by_cases e : j = L <;> simp [e, List.mem_range, hj]

def absOpen (a : Abs) : Abs := { a with hasSeg := true, hasPart := true, stored := [] }

theorem createFirstSegmentStream_step {st : State} {n L : Nat} (h : Shape st n L) (si : Nat) (hsi : si < n) (d ntp : Int) :
    AbsStep n st (createFirstSegmentStream st si d ntp) (fun j a => if j = si then absOpen a else a) := by
  have h2 : si < st.streams.length := by rw [h.nst]; exact hsi
  have e : createFirstSegmentStream st si d ntp =
      withPE (st.setStream si { (st.stream si) with
          nextSegment := some { id := (st.stream si).nextSegmentID, startDTS := d, startNTP := ntp },
          nextPart := some { id := (st.stream si).nextPartID, startDTS := d } })
        st.paths (st.files ++ [.seg si (st.stream si).nextSegmentID]) st.encErrs := by
    unfold createFirstSegmentStream
    cases hv : st.cfg.variant
    · exact absurd hv h.var
    · rfl
    · rfl
  rw [e]
  refine ⟨⟨by simp, by simp, by simp, fun j => ?_⟩, fun j hj => ?_⟩
  · by_cases e : j = si
    · subst e; simp [h2]
    · simp [Ne.symm e]
  · by_cases e : j = si
    · subst e
      simp [abs, openStored, absOpen, h2, partTracks]
    · simp [abs, openStored, Ne.symm e, e]

theorem createFirstSegment_step {st : State} {n L : Nat} (h : Shape st n L) (d ntp : Int) :
    AbsStep n st (createFirstSegment st d ntp) (fun _ a => absOpen a) := by
  unfold createFirstSegment
  rw [h.nst]
  have s := fold_absStep (n := n) (L := L) (fun st si => createFirstSegmentStream st si d ntp) (fun _ a => absOpen a)
    (fun st i hs hi => createFirstSegmentStream_step hs i hi d ntp)
    (List.range n) List.nodup_range (fun i hi => List.mem_range.mp hi) st h
  refine s.congr fun j hj => ?_
  simp [List.mem_range, hj]

theorem adjustPartDuration_step (n : Nat) (st : State) (x : Int) : AbsStep n st (adjustPartDuration st x) (fun _ a => a) := by
  unfold adjustPartDuration
  split
  · exact AbsStep.refl n st
  · split
    · exact AbsStep.refl n st
    · split
      · exact AbsStep.refl n st
      · exact ⟨⟨rfl, rfl, rfl, fun _ => ⟨rfl, rfl⟩⟩, fun _ _ => rfl⟩

def absPush (smp : Sample) (a : Abs) : Abs :=
  { a with samples := a.samples ++ [smp], startDTS := match a.samples with | [] => smp.dts | _ => a.startDTS }

theorem streamOf_eq {st : State} {n L : Nat} (h : Shape st n L) (t : Nat) : st.streamOf t = t := by
  unfold State.streamOf
  cases hv : st.cfg.variant
  · exact absurd hv h.var
  · rfl
  · rfl

theorem partWriteSample_ok {st st' : State} {n L : Nat} (h : Shape st n L) (ti : Nat) (hti : ti < n) (smp : Sample)
    (hr : partWriteSample st ti smp = (st', .ok)) :
    AbsStep n st st' (fun j a => if j = ti then absPush smp a else a) ∧ (abs st ti).hasSeg = true ∧ (abs st ti).hasPart = true := by
  have h1 : ti < st.tracks.length := by rw [h.ntr]; exact hti
  have h2 : ti < st.streams.length := by rw [h.nst]; exact hti
  unfold partWriteSample at hr
  rw [streamOf_eq h] at hr
  cases hg : (st.stream ti).nextSegment with
  | none => simp [hg] at hr
  | some seg =>
    cases hp : (st.stream ti).nextPart with
    | none => simp [hg, hp] at hr
    | some part =>
      simp only [hg, hp] at hr
      split at hr
      · simp at hr
      · simp only [Prod.mk.injEq, and_true] at hr
        subst hr
        refine ⟨⟨⟨rfl, by simp, by simp, fun j => ?_⟩, fun j hj => ?_⟩, by simp [abs, hg], by simp [abs, hp]⟩
        · by_cases e : j = ti
          · subst e; simp [h2]
          · simp [Ne.symm e]
        · by_cases e : j = ti
          · subst e
            cases hs : (st.track j).samples with
            | nil => simp [abs, openStored, absPush, h1, h2, hs, hg, hp]
            | cons x xs => simp [abs, openStored, absPush, h1, h2, hs, hg, hp]
          · simp [abs, openStored, Ne.symm e, e]

end Hls.Muxer.Accept
