import Hls.Muxer.AcceptMain
/-!
# C01 helper lemmas, part 9: the statements of `Props/C01.lean` unpacked from the invariant
-/
namespace Hls.Muxer.Accept
open Hls.Muxer

/-- all samples of a track in output order: finalized fragments, open part, look-ahead -/
def unitsOut (log : List Seg) (st : State) (t : Nat) : List Sample := emitted log st t ++ openPart st t ++ lookahead st t

/-- all fragments of a track, the part being built counted as the (unfinished) last one -/
def allFragments (log : List Seg) (st : State) (t : Nat) : List PartTrack :=
  fragments log st t ++ cur (openPart st t) (st.track t).startDTS

theorem gapsOk_shift (off : Int) : ∀ l : List Int, gapsOk (l.map (· + off)) = gapsOk l
  | [] => rfl
  | [_] => rfl
  | a :: b :: rest => by
    have ih := gapsOk_shift off (b :: rest)
    simp only [List.map_cons, gapsOk] at ih ⊢
    rw [ih]
    congr 1
    have e1 : (a + off ≤ b + off) = (a ≤ b) := propext ⟨fun h => by omega, fun h => by omega⟩
    have e2 : (b + off - (a + off) < 4294967296) = (b - a < 4294967296) := propext ⟨fun h => by omega, fun h => by omega⟩
    simp only [e1, e2]

section pack
variable {cfg : Cfg} {log : List Seg} {st : State} {ops : List WriteOp} {t : Nat}
  (tv : TInv (lpOf log) (abs st t) (scan cfg t {} ops) (10 * (trackCfg cfg t).clockRate))
include tv

theorem pack_units : (unitsOut log st t).map AU.ofSample
    = (accepted cfg ops t).map (shiftAU (10 * (trackCfg cfg t).clockRate)) := by
  have ho := tv.out
  have hp := tv.pend
  rw [hist_samples] at ho
  unfold unitsOut accepted lookahead
  simp only [List.map_append, ho]
  congr 1
  show (abs st t).next.toList.map AU.ofSample = _
  cases hn : (abs st t).next <;> cases hq : (scan cfg t {} ops).pend <;> simp_all

theorem pack_chain : Chain (unitsOut log st t) := by
  have := tv.chain
  rw [hist_samples] at this
  exact this

theorem pack_dts : (unitsOut log st t).map (·.dts)
    = ((accepted cfg ops t).map (·.dts)).map (· + 10 * (trackCfg cfg t).clockRate) := by
  have := congrArg (List.map (·.dts)) (pack_units tv)
  simpa [List.map_map, Function.comp_def, AU.ofSample, shiftAU] using this

theorem pack_exact (hg : gapsOk ((accepted cfg ops t).map (·.dts)) = true) : ChainExact (unitsOut log st t) := by
  apply chainExact_of _ (pack_chain tv)
  rw [pack_dts tv, gapsOk_shift]; exact hg

theorem pack_contig (hg : gapsOk ((accepted cfg ops t).map (·.dts)) = true) : Contig (allFragments log st t) := by
  have he := pack_exact tv hg
  refine contig_of (allFragments log st t) (lookahead st t) (fun pt h => tv.wf pt (by rw [histA_eq]; exact h)) ?_
  have : (allFragments log st t).flatMap (·.samples) = emitted log st t ++ openPart st t := by
    rw [← hist_samples, histA_eq]; rfl
  rw [this]; exact he

theorem pack_decoded (hg : gapsOk ((accepted cfg ops t).map (·.dts)) = true) :
    (allFragments log st t).flatMap decode ++ (lookahead st t).map key4
      = (accepted cfg ops t).map (shiftKey (10 * (trackCfg cfg t).clockRate)) := by
  have he := pack_exact tv hg
  have hs : (allFragments log st t).flatMap (·.samples) = emitted log st t ++ openPart st t := by
    rw [← hist_samples, histA_eq]; rfl
  rw [decode_of (allFragments log st t) (lookahead st t) (fun pt h => tv.wf pt (by rw [histA_eq]; exact h))
    (by rw [hs]; exact he), hs, ← List.map_append]
  have := congrArg (List.map (fun u : AU => (u.pay, u.dts, u.ptsOff, u.sync))) (pack_units tv)
  have e1 : (fun x : Sample => (x.pay, x.dts, x.ptsOff, x.sync)) = key4 := rfl
  have e2 : (fun x : AU => (x.pay, x.dts + 10 * (trackCfg cfg t).clockRate, x.ptsOff, x.sync))
      = shiftKey (10 * (trackCfg cfg t).clockRate) := rfl
  simpa [List.map_map, Function.comp_def, AU.ofSample, shiftAU, unitsOut, e1, e2] using this

/-- the first fragment starts at the first accepted unit's decode time + offset -/
theorem pack_first (p : PartTrack) (rest : List PartTrack) (hF : allFragments log st t = p :: rest) :
    ∃ u us, accepted cfg ops t = u :: us ∧ p.baseTime = u.dts + 10 * (trackCfg cfg t).clockRate := by
  obtain ⟨_, s, l, hs, hb⟩ := tv.wf p (by rw [histA_eq]; unfold allFragments at hF; rw [hF]; simp)
  have hu := pack_units tv
  have hsm : (allFragments log st t).flatMap (·.samples) = emitted log st t ++ openPart st t := by
    rw [← hist_samples, histA_eq]; rfl
  rw [hF, List.flatMap_cons, hs] at hsm
  unfold unitsOut at hu
  rw [← hsm] at hu
  cases ha : accepted cfg ops t with
  | nil => rw [ha] at hu; simp at hu
  | cons u us =>
    rw [ha] at hu
    simp only [List.cons_append, List.map_cons, List.cons.injEq] at hu
    refine ⟨u, us, rfl, ?_⟩
    rw [hb]
    have := congrArg AU.dts hu.1
    simpa [AU.ofSample, shiftAU] using this

end pack

end Hls.Muxer.Accept
