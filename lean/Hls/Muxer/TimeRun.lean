import Hls.Muxer.TimeKey
import Hls.Muxer.TimePaths
/-!
# The global time invariant and its preservation by every muxer operation (helper file for C02 / C03)
-/
namespace Hls.Muxer
open Hls.Gen

/-- what a stream operation may do outside `streams`: nothing to the control fields; track sample lists may be emptied -/
def Frame (st st' : State) : Prop :=
  SameCtl st st' ∧ (∀ tj, st'.track tj = st.track tj ∨ st'.track tj = clearSamples (st.track tj)) ∧
  st'.tracks.length = st.tracks.length

theorem Frame.refl (st : State) : Frame st st := ⟨SameCtl.refl st, fun _ => Or.inl rfl, rfl⟩
theorem Frame.trans {a b c : State} (h1 : Frame a b) (h2 : Frame b c) : Frame a c := by
  refine ⟨h1.1.trans h2.1, fun tj => ?_, h2.2.2.trans h1.2.2⟩
  rcases h1.2.1 tj with e1 | e1 <;> rcases h2.2.1 tj with e2 | e2
  · exact Or.inl (e2.trans e1)
  · exact Or.inr (e2.trans (by rw [e1]))
  · exact Or.inr (e2.trans e1)
  · exact Or.inr (e2.trans (by rw [e1]; rfl))

theorem Frame.cfg {a b : State} (h : Frame a b) : b.cfg = a.cfg := h.1.1

theorem fold_range_streams (F : State → Nat → State) (f : State → Nat → StreamSt)
    (R : State → State → Prop) (Rrefl : ∀ a, R a a) (Rtrans : ∀ a b c, R a b → R b c → R a c)
    (hF : ∀ st' si, si < st'.streams.length → (F st' si).streams = st'.streams.set si (f st' si) ∧ R st' (F st' si))
    (st : State) : ∀ n, n ≤ st.streams.length →
      R st ((List.range n).foldl F st) ∧ ((List.range n).foldl F st).streams.length = st.streams.length ∧
      (∀ j, n ≤ j → ((List.range n).foldl F st).stream j = st.stream j) ∧
      ∀ si, si < n → ∃ st', R st st' ∧ st'.streams.length = st.streams.length ∧
         (∀ j, si ≤ j → st'.stream j = st.stream j) ∧
         (∀ j, j < si → st'.stream j = ((List.range n).foldl F st).stream j) ∧
         ((List.range n).foldl F st).stream si = f st' si := by
  intro n
  induction n with
  | zero =>
    intro _
    simp only [List.range_zero, List.foldl_nil]
    exact ⟨Rrefl st, trivial, fun _ _ => trivial, fun si h => absurd h (Nat.not_lt_zero _)⟩
  | succ n ih =>
    intro hn
    obtain ⟨hR, hlen, hge, hlt⟩ := ih (Nat.le_of_succ_le hn)
    rw [List.range_succ, List.foldl_append]
    simp only [List.foldl_cons, List.foldl_nil]
    have hnl : n < ((List.range n).foldl F st).streams.length := by rw [hlen]; exact hn
    obtain ⟨hs, hr⟩ := hF ((List.range n).foldl F st) n hnl
    refine ⟨Rtrans _ _ _ hR hr, by rw [length_of_set hs, hlen], ?_, ?_⟩
    · intro j hj
      rw [stream_of_set_other hs (by omega)]
      exact hge j (by omega)
    · intro si hsi
      by_cases hsn : si = n
      · subst hsn
        refine ⟨_, hR, hlen, fun j hj => hge j hj, ?_, stream_of_set_same hs hnl⟩
        intro j hj
        rw [stream_of_set_other hs (by omega)]
      · obtain ⟨st', h1, h2, h3, h4, h5⟩ := hlt si (by omega)
        refine ⟨st', h1, h2, h3, ?_, ?_⟩
        · intro j hj; rw [stream_of_set_other hs (by omega)]; exact h4 j hj
        · rw [stream_of_set_other hs hsn]; exact h5

/-! ## the invariant -/

structure GI (st : State) (L : Nat) : Prop where
  lt : L < st.streams.length
  lead : ∀ si, si < st.streams.length → ((st.stream si).isLeading = true ↔ si = L)
  ts1 : st.cfg.variant = .mpegts → st.streams.length = 1
  sinv : ∀ si, si < st.streams.length → SInv st.cfg.variant (st.stream si)
  key : ∀ si, si < st.streams.length → KeyEq (st.stream si) (st.stream L)
  tg : TgInv (st.stream L)
  same : ∀ si, si < st.streams.length →
    (st.stream si).targetDur = (st.stream L).targetDur ∧ (st.stream si).partTargetDur = (st.stream L).partTargetDur
  lidx : st.streamOf (leadingIdx st.cfg.tracks) = L

theorem streamOf_congr {st st' : State} (h : st'.cfg = st.cfg) (t : Nat) : st'.streamOf t = st.streamOf t := by
  unfold State.streamOf; rw [h]

theorem GI.leadingStream {st : State} {L : Nat} (h : GI st L) : st.leadingStream = L := by
  unfold State.leadingStream
  have : st.streams.findIdx? (·.isLeading) = some L := by
    rw [List.findIdx?_eq_some_iff_getElem]
    refine ⟨h.lt, ?_, ?_⟩
    · have := (h.lead L h.lt).2 rfl
      simpa [State.stream, List.getD_eq_getElem?_getD, List.getElem?_eq_getElem h.lt] using this
    · intro j hj hc
      have hjl : j < st.streams.length := Nat.lt_trans hj h.lt
      have : (st.stream j).isLeading = true := by
        simpa [State.stream, List.getD_eq_getElem?_getD, List.getElem?_eq_getElem hjl] using hc
      have := (h.lead j hjl).1 this
      omega
  rw [this]

theorem GI_congr {st st' : State} {L : Nat} (h : GI st L) (hc : st'.cfg = st.cfg) (hs : st'.streams = st.streams) :
    GI st' L := by
  have e : ∀ j, st'.stream j = st.stream j := stream_eq_of_streams hs
  refine ⟨hs ▸ h.lt, ?_, ?_, ?_, ?_, ?_, ?_, by rw [streamOf_congr hc, hc]; exact h.lidx⟩
  · intro si hsi; rw [e]; exact h.lead si (hs ▸ hsi)
  · rw [hc, hs]; exact h.ts1
  · intro si hsi; rw [e, hc]; exact h.sinv si (hs ▸ hsi)
  · intro si hsi; rw [e, e]; exact h.key si (hs ▸ hsi)
  · rw [e]; exact h.tg
  · intro si hsi; rw [e, e]; exact h.same si (hs ▸ hsi)

/-- replace one stream by one with the same boundaries, flags and targets -/
theorem GI_replace {st st' : State} {L si : Nat} {r : StreamSt} (h : GI st L) (hc : st'.cfg = st.cfg)
    (hs : st'.streams = st.streams.set si r) (hsi : si < st.streams.length)
    (hk : KeyEq r (st.stream si)) (hinv : SInv st.cfg.variant r) (hl : r.isLeading = (st.stream si).isLeading)
    (ht : r.targetDur = (st.stream si).targetDur) (hp : r.partTargetDur = (st.stream si).partTargetDur)
    (htg : si = L → TgInv r) : GI st' L := by
  have hlen : st'.streams.length = st.streams.length := length_of_set hs
  have e : ∀ j, j ≠ si → st'.stream j = st.stream j := fun j hj => stream_of_set_other hs hj
  have esi : st'.stream si = r := stream_of_set_same hs hsi
  have hkL : KeyEq (st'.stream L) (st.stream L) := by
    by_cases hL : L = si
    · subst hL; rw [esi]; exact hk
    · rw [e L hL]; exact KeyEq.refl _
  have htL : (st'.stream L).targetDur = (st.stream L).targetDur ∧ (st'.stream L).partTargetDur = (st.stream L).partTargetDur := by
    by_cases hL : L = si
    · subst hL; rw [esi]; exact ⟨ht, hp⟩
    · rw [e L hL]; exact ⟨rfl, rfl⟩
  refine ⟨hlen ▸ h.lt, ?_, ?_, ?_, ?_, ?_, ?_, by rw [streamOf_congr hc, hc]; exact h.lidx⟩
  · intro j hj
    by_cases hjs : j = si
    · subst hjs; rw [esi, hl]; exact h.lead j hsi
    · rw [e j hjs]; exact h.lead j (hlen ▸ hj)
  · rw [hc, hlen]; exact h.ts1
  · intro j hj
    rw [hc]
    by_cases hjs : j = si
    · subst hjs; rw [esi]; exact hinv
    · rw [e j hjs]; exact h.sinv j (hlen ▸ hj)
  · intro j hj
    refine KeyEq.trans ?_ hkL.symm
    by_cases hjs : j = si
    · subst hjs; rw [esi]; exact hk.trans (h.key j hsi)
    · rw [e j hjs]; exact h.key j (hlen ▸ hj)
  · by_cases hL : L = si
    · subst hL; rw [esi]; exact htg rfl
    · rw [e L hL]; exact h.tg
  · intro j hj
    rw [htL.1, htL.2]
    by_cases hjs : j = si
    · subst hjs; rw [esi, ht, hp]; exact h.same j hsi
    · rw [e j hjs]; exact h.same j (hlen ▸ hj)


/-! ## the three folds over all streams -/

/-- `rotatePartsInner` / `rotateSegmentsInner`: the leading stream first, then every other stream, which then
copies the leading stream's targets -/
def leadThenOthers (G : State → Nat → State) (copy : StreamSt → StreamSt → StreamSt) (st : State) (li : Nat) : State :=
  let st := G st li
  (List.range st.streams.length).foldl (fun st si =>
    if (st.stream si).isLeading then st
    else
      let st := G st si
      st.setStream si (copy (st.stream si) (st.stream li))) st

theorem rotateParts_eq (st : State) (d : Int) :
    rotateParts st d = leadThenOthers (fun st si => rotatePartsStream st si d true)
      (fun a b => { a with partTargetDur := b.partTargetDur }) st st.leadingStream := rfl

theorem rotateSegments_eq (st : State) (d n : Int) (f : Bool) :
    rotateSegments st d n f = leadThenOthers (fun st si => rotateSegmentsStream st si d n f)
      (fun a b => { a with targetDur := b.targetDur, partTargetDur := b.partTargetDur }) st st.leadingStream := rfl

theorem leadThenOthers_spec (G : State → Nat → State) (g : State → Nat → StreamSt)
    (copy : StreamSt → StreamSt → StreamSt)
    (hG : ∀ st' si, si < st'.streams.length → (G st' si).streams = st'.streams.set si (g st' si) ∧ Frame st' (G st' si))
    (st : State) (L : Nat) (hL : L < st.streams.length)
    (hlead : ∀ si, si < st.streams.length → ((st.stream si).isLeading = true ↔ si = L))
    (hgl : (g st L).isLeading = (st.stream L).isLeading) :
    Frame st (leadThenOthers G copy st L) ∧ (leadThenOthers G copy st L).streams.length = st.streams.length ∧
    (leadThenOthers G copy st L).stream L = g st L ∧
    (∀ si, si < st.streams.length → si ≠ L → ∃ st', Frame st st' ∧ st'.streams.length = st.streams.length ∧
      st'.stream si = st.stream si ∧ (leadThenOthers G copy st L).stream si = copy (g st' si) (g st L)) ∧
    Frame (G st L) (leadThenOthers G copy st L) := by
  obtain ⟨hs1, hf1⟩ := hG st L hL
  have hlen1 : (G st L).streams.length = st.streams.length := length_of_set hs1
  have hL1 : (G st L).stream L = g st L := stream_of_set_same hs1 hL
  -- the per-index step as a stream function
  let F : State → Nat → State := fun st si =>
    if (st.stream si).isLeading then st
    else
      let st := G st si
      st.setStream si (copy (st.stream si) (st.stream L))
  let f : State → Nat → StreamSt := fun st' si =>
    if (st'.stream si).isLeading then st'.stream si
    else copy ((G st' si).stream si) ((G st' si).stream L)
  have hF : ∀ st' si, si < st'.streams.length → (F st' si).streams = st'.streams.set si (f st' si) ∧ Frame st' (F st' si) := by
    intro st' si hsi
    by_cases hl : (st'.stream si).isLeading = true
    · simp only [F, f, hl, if_true]
      exact ⟨streams_set_self st' si, Frame.refl _⟩
    · simp only [F, f, hl, if_false, Bool.false_eq_true]
      obtain ⟨hs, hf⟩ := hG st' si hsi
      refine ⟨?_, ?_⟩
      · rw [setStream_streams, hs, List.set_set]
      · refine Frame.trans hf ⟨⟨rfl, rfl, rfl, rfl, rfl⟩, fun _ => Or.inl rfl, rfl⟩
  obtain ⟨hR, hlen, _, hlt⟩ := fold_range_streams F f Frame Frame.refl (fun _ _ _ => Frame.trans) hF (G st L)
    (G st L).streams.length (Nat.le_refl _)
  have hres : leadThenOthers G copy st L = (List.range (G st L).streams.length).foldl F (G st L) := rfl
  rw [hres]
  -- stream L is skipped
  have hLres : ((List.range (G st L).streams.length).foldl F (G st L)).stream L = g st L := by
    obtain ⟨st', _, _, h3, _, h5⟩ := hlt L (hlen1 ▸ hL)
    have e : st'.stream L = g st L := (h3 L (Nat.le_refl _)).trans hL1
    rw [h5]
    simp only [f, e, hgl, (hlead L hL).2 rfl, if_true]
  refine ⟨Frame.trans hf1 hR, hlen.trans hlen1, hLres, ?_, hR⟩
  intro si hsi hne
  obtain ⟨st', h1, h2, h3, h4, h5⟩ := hlt si (hlen1 ▸ hsi)
  have esi : st'.stream si = st.stream si :=
    (h3 si (Nat.le_refl _)).trans (stream_of_set_other hs1 hne)
  have hnl : ¬ (st'.stream si).isLeading = true := by
    rw [esi]; intro hc; exact hne ((hlead si hsi).1 hc)
  have hsi' : si < st'.streams.length := by rw [h2, hlen1]; exact hsi
  obtain ⟨hs, _⟩ := hG st' si hsi'
  -- stream L as seen from st'
  have eL : st'.stream L = g st L := by
    by_cases hc : si ≤ L
    · exact (h3 L hc).trans hL1
    · exact (h4 L (by omega)).trans hLres
  refine ⟨st', Frame.trans hf1 h1, h2.trans hlen1, esi, ?_⟩
  rw [h5]
  simp only [f, hnl, if_false, Bool.false_eq_true]
  rw [stream_of_set_same hs hsi', stream_of_set_other hs (Ne.symm hne), eL]


/-- a reflexive-transitive relation carried through `leadThenOthers` -/
theorem leadThenOthers_rel (R : State → State → Prop) (Rrefl : ∀ a, R a a) (Rtrans : ∀ a b c, R a b → R b c → R a c)
    (G : State → Nat → State) (copy : StreamSt → StreamSt → StreamSt) (st : State) (li : Nat)
    (hG : ∀ s si, si < s.streams.length → R s (G s si))
    (hc : ∀ s si, R s (s.setStream si (copy (s.stream si) (s.stream li))))
    (hlen : ∀ s si, (G s si).streams.length = s.streams.length) (hli : li < st.streams.length) :
    R st (leadThenOthers G copy st li) := by
  unfold leadThenOthers
  simp only
  have h1 := hG st li hli
  have := foldl_range_inv (fun st si =>
      if (st.stream si).isLeading then st
      else (G st si).setStream si (copy ((G st si).stream si) ((G st si).stream li)))
    (fun _ s => R (G st li) s ∧ s.streams.length = (G st li).streams.length) (G st li) (G st li).streams.length
    ⟨Rrefl _, rfl⟩ (by
      intro k s hk ⟨hr, hl⟩
      split
      · exact ⟨hr, hl⟩
      · refine ⟨Rtrans _ _ _ hr (Rtrans _ _ _ (hG s k (by rw [hl]; exact hk)) (hc _ _)), ?_⟩
        simp only [setStream_streams, List.length_set, hlen, hl])
  exact Rtrans _ _ _ h1 this.1

theorem IRel_setStream_copy (s : State) (si : Nat) (r : StreamSt) (h : r.tracks = (s.stream si).tracks) :
    IRel s (s.setStream si r) :=
  ⟨stream_tracks_of_set (st' := s.setStream si r) rfl h, fun _ => Or.inl rfl⟩

theorem IRel_rotateParts (st : State) (d : Int) (hli : st.leadingStream < st.streams.length) :
    IRel st (rotateParts st d) := by
  rw [rotateParts_eq]
  exact leadThenOthers_rel IRel IRel.refl (fun _ _ _ => IRel.trans) _ _ st _
    (fun s si _ => IRel_rps s si d true) (fun s si => IRel_setStream_copy s si _ rfl)
    (fun s si => length_of_set (rps_streams s si d true)) hli

theorem IRel_rotateSegments (st : State) (d n : Int) (f : Bool) (hli : st.leadingStream < st.streams.length) :
    IRel st (rotateSegments st d n f) := by
  rw [rotateSegments_eq]
  refine leadThenOthers_rel IRel IRel.refl (fun _ _ _ => IRel.trans) _ _ st _
    (fun s si hsi => IRel_rss s si d n f hsi) (fun s si => IRel_setStream_copy s si _ rfl) ?_ hli
  intro s si
  by_cases hsi : si < s.streams.length
  · exact length_of_set (rss_streams s si d n f hsi)
  · -- out of range: nothing happens to the list of streams
    have hd : ∀ x : State, x.streams.length = s.streams.length → x.stream si = { tracks := [], isLeading := false, nextSegmentID := 0 } := by
      intro x hx
      simp [State.stream, List.getD_eq_getElem?_getD, List.getElem?_eq_none (by rw [hx]; exact Nat.le_of_not_lt hsi)]
    have hpre : (rsPre s si d).streams.length = s.streams.length := length_of_set (rsPre_streams s si d)
    rw [rotateSegmentsStream_eq, hd _ hpre]
    exact hpre

/-- a copy of targets only -/
structure CopyOK (copy : StreamSt → StreamSt → StreamSt) : Prop where
  segments : ∀ a b, (copy a b).segments = a.segments
  nextSegment : ∀ a b, (copy a b).nextSegment = a.nextSegment
  nextPart : ∀ a b, (copy a b).nextPart = a.nextPart
  nextSegmentID : ∀ a b, (copy a b).nextSegmentID = a.nextSegmentID
  isLeading : ∀ a b, (copy a b).isLeading = a.isLeading

theorem GI_leadThenOthers {st : State} {L : Nat} (h : GI st L)
    (G : State → Nat → State) (g : State → Nat → StreamSt) (copy : StreamSt → StreamSt → StreamSt)
    (gS : StreamSt → List PartTrack → StreamSt)
    (hG : ∀ st' si, si < st'.streams.length → (G st' si).streams = st'.streams.set si (g st' si) ∧ Frame st' (G st' si))
    (hg : ∀ st' si, st'.cfg = st.cfg → g st' si = gS (st'.stream si) (fpContent st' si))
    (hcopy : CopyOK copy)
    (hlead : ∀ s c, (gS s c).isLeading = s.isLeading)
    (hinv : ∀ s c, SInv st.cfg.variant s → SInv st.cfg.variant (gS s c))
    (hkey : ∀ s s' c c', KeyEq s s' → SInv st.cfg.variant s → SInv st.cfg.variant s' → KeyEq (gS s c) (gS s' c'))
    (htg : ∀ s c, TgInv s → SInv st.cfg.variant s → s.isLeading = true → TgInv (gS s c))
    (hsame : ∀ s c s' c', s.targetDur = s'.targetDur → s.partTargetDur = s'.partTargetDur →
      (copy (gS s c) (gS s' c')).targetDur = (gS s' c').targetDur ∧
      (copy (gS s c) (gS s' c')).partTargetDur = (gS s' c').partTargetDur) :
    GI (leadThenOthers G copy st L) L ∧ Frame st (leadThenOthers G copy st L) ∧
    (leadThenOthers G copy st L).streams.length = st.streams.length ∧
    (leadThenOthers G copy st L).stream L = gS (st.stream L) (fpContent st L) ∧
    Frame (G st L) (leadThenOthers G copy st L) := by
  have hgL : g st L = gS (st.stream L) (fpContent st L) := hg st L rfl
  obtain ⟨hfr, hlen, hLr, hoth, hfr2⟩ := leadThenOthers_spec G g copy hG st L h.lt h.lead (by rw [hgL, hlead])
  have hcfg : (leadThenOthers G copy st L).cfg = st.cfg := hfr.cfg
  -- every stream of the result, described
  have hdesc : ∀ si, si < st.streams.length → si ≠ L → ∃ c,
      (leadThenOthers G copy st L).stream si = copy (gS (st.stream si) c) (gS (st.stream L) (fpContent st L)) := by
    intro si hsi hne
    obtain ⟨st', hf', _, es, er⟩ := hoth si hsi hne
    refine ⟨fpContent st' si, ?_⟩
    rw [er, hg st' si hf'.cfg, es, hgL]
  refine ⟨⟨hlen ▸ h.lt, ?_, ?_, ?_, ?_, ?_, ?_, by rw [streamOf_congr hcfg, hcfg]; exact h.lidx⟩, hfr, hlen, hLr.trans hgL, hfr2⟩
  · intro si hsi
    rw [hlen] at hsi
    by_cases hne : si = L
    · subst hne; rw [hLr, hgL, hlead]; exact h.lead si hsi
    · obtain ⟨c, e⟩ := hdesc si hsi hne
      rw [e, hcopy.isLeading, hlead]; exact h.lead si hsi
  · rw [hcfg, hlen]; exact h.ts1
  · intro si hsi
    rw [hlen] at hsi
    rw [hcfg]
    by_cases hne : si = L
    · subst hne; rw [hLr, hgL]; exact hinv _ _ (h.sinv si hsi)
    · obtain ⟨c, e⟩ := hdesc si hsi hne
      rw [e]
      exact SInv_of_eq (hinv _ c (h.sinv si hsi)) (hcopy.segments _ _) (hcopy.nextSegment _ _) (hcopy.nextPart _ _)
  · intro si hsi
    rw [hlen] at hsi
    rw [hLr, hgL]
    by_cases hne : si = L
    · subst hne; rw [hLr, hgL]; exact KeyEq.refl _
    · obtain ⟨c, e⟩ := hdesc si hsi hne
      rw [e]
      exact (KeyEq_of_eq (hcopy.nextSegmentID _ _) (hcopy.segments _ _) (hcopy.nextSegment _ _) (hcopy.nextPart _ _)).trans
        (hkey _ _ c _ (h.key si hsi) (h.sinv si hsi) (h.sinv L h.lt))
  · rw [hLr, hgL]; exact htg _ _ h.tg (h.sinv L h.lt) ((h.lead L h.lt).2 rfl)
  · intro si hsi
    rw [hlen] at hsi
    rw [hLr, hgL]
    by_cases hne : si = L
    · subst hne; rw [hLr, hgL]; exact ⟨rfl, rfl⟩
    · obtain ⟨c, e⟩ := hdesc si hsi hne
      rw [e]
      exact hsame _ c _ _ (h.same si hsi).1 (h.same si hsi).2

theorem rpS_isLeading (v s c d b) : (rpS v s c d b).isLeading = s.isLeading := by
  unfold rpS; split <;> rfl
theorem rpS_targetDur (v s c d b) : (rpS v s c d b).targetDur = s.targetDur := by
  unfold rpS; split <;> rfl
theorem rsTailS_isLeading (v n s d ntp f) : (rsTailS v n s d ntp f).isLeading = s.isLeading := by
  unfold rsTailS; split <;> rfl
theorem rsS_isLeading (v n s c d ntp f) : (rsS v n s c d ntp f).isLeading = s.isLeading := by
  unfold rsS; rw [rsTailS_isLeading]; split
  · exact rpS_isLeading ..
  · rfl

theorem rps_frame (st : State) (si : Nat) (d : Int) (b : Bool) : Frame st (rotatePartsStream st si d b) :=
  ⟨rps_sameCtl st si d b, fun tj => rps_track st si d b tj, rps_tracks_length st si d b⟩

theorem rss_frame (st : State) (si : Nat) (d n : Int) (f : Bool) : Frame st (rotateSegmentsStream st si d n f) := by
  refine ⟨rss_sameCtl st si d n f, fun tj => ?_, rss_tracks_length st si d n f⟩
  rw [rss_track]
  unfold rsPre
  split
  · exact rps_track ..
  · exact Or.inl rfl

theorem GI_rotateParts {st : State} {L : Nat} (h : GI st L) (hv : st.cfg.variant ≠ .mpegts) (d : Int) :
    GI (rotateParts st d) L ∧ Frame st (rotateParts st d) ∧ (rotateParts st d).streams.length = st.streams.length ∧
    (rotateParts st d).stream L = rpS st.cfg.variant (st.stream L) (fpContent st L) d true ∧
    Frame (rotatePartsStream st L d true) (rotateParts st d) := by
  rw [rotateParts_eq, h.leadingStream]
  refine GI_leadThenOthers h _ (fun st' si => rpS st'.cfg.variant (st'.stream si) (fpContent st' si) d true) _
    (fun s c => rpS st.cfg.variant s c d true) ?_ ?_ ⟨fun _ _ => rfl, fun _ _ => rfl, fun _ _ => rfl, fun _ _ => rfl, fun _ _ => rfl⟩
    ?_ ?_ ?_ ?_ ?_
  · intro st' si _; exact ⟨rps_streams st' si d true, rps_frame st' si d true⟩
  · intro st' si hc; simp only [hc]
  · intro s c; exact rpS_isLeading ..
  · intro s c hs; exact SInv_rpS hs hv c d
  · intro s s' c c' hk _ _; exact KeyEq_rpS hk c c' d true
  · intro s c ht _ hl; exact TgInv_rpS ht hl c d true
  · intro s c s' c' h1 _
    refine ⟨?_, rfl⟩
    show (rpS st.cfg.variant s c d true).targetDur = (rpS st.cfg.variant s' c' d true).targetDur
    rw [rpS_targetDur, rpS_targetDur, h1]

theorem GI_rotateSegments {st : State} {L : Nat} (h : GI st L) (d n : Int) (f : Bool) :
    GI (rotateSegments st d n f) L ∧ Frame st (rotateSegments st d n f) ∧
    (rotateSegments st d n f).streams.length = st.streams.length ∧
    (rotateSegments st d n f).stream L =
      rsS st.cfg.variant st.cfg.segmentCount (st.stream L) (fpContent st L) d n f ∧
    Frame (rotateSegmentsStream st L d n f) (rotateSegments st d n f) := by
  rw [rotateSegments_eq, h.leadingStream]
  refine GI_leadThenOthers h _
    (fun st' si => rsS st'.cfg.variant st'.cfg.segmentCount (st'.stream si) (fpContent st' si) d n f) _
    (fun s c => rsS st.cfg.variant st.cfg.segmentCount s c d n f) ?_ ?_
    ⟨fun _ _ => rfl, fun _ _ => rfl, fun _ _ => rfl, fun _ _ => rfl, fun _ _ => rfl⟩ ?_ ?_ ?_ ?_ ?_
  · intro st' si hsi; exact ⟨rss_streams st' si d n f hsi, rss_frame st' si d n f⟩
  · intro st' si hc; simp only [hc]
  · intro s c; exact rsS_isLeading ..
  · intro s c hs; exact SInv_rsS hs c d n f
  · intro s s' c c' hk h1 h2; exact KeyEq_rsS hk h1 h2 c c' d n f
  · intro s c ht hs hl; exact TgInv_rsS ht hs hl c d n f
  · intro s c s' c' _ _; exact ⟨rfl, rfl⟩


/-- frame of `createFirstSegment` -/
def FrameC (a b : State) : Prop := SameCtl a b ∧ b.tracks = a.tracks ∧ b.paths = a.paths

theorem createFirstSegment_spec (st : State) (d n : Int) :
    FrameC st (createFirstSegment st d n) ∧ (createFirstSegment st d n).streams.length = st.streams.length ∧
    ∀ si, si < st.streams.length → (createFirstSegment st d n).stream si = cfS st.cfg.variant (st.stream si) d n := by
  obtain ⟨hR, hlen, _, hlt⟩ := fold_range_streams (fun st si => createFirstSegmentStream st si d n)
    (fun st' si => cfS st'.cfg.variant (st'.stream si) d n) FrameC
    (fun a => ⟨SameCtl.refl a, rfl, rfl⟩)
    (fun a b c h1 h2 => ⟨h1.1.trans h2.1, h2.2.1.trans h1.2.1, h2.2.2.trans h1.2.2⟩)
    (fun st' si _ => ⟨cfs_streams st' si d n, (cfs_frame st' si d n).2.2, (cfs_frame st' si d n).1, (cfs_frame st' si d n).2.1⟩)
    st st.streams.length (Nat.le_refl _)
  refine ⟨hR, hlen, fun si hsi => ?_⟩
  obtain ⟨st', h1, _, h3, _, h5⟩ := hlt si hsi
  have : (createFirstSegment st d n).stream si = cfS st'.cfg.variant (st'.stream si) d n := h5
  rw [this, h1.1.1, h3 si (Nat.le_refl _)]

theorem cfS_fields (v : Variant) (s : StreamSt) (d n : Int) :
    (cfS v s d n).isLeading = s.isLeading ∧ (cfS v s d n).targetDur = s.targetDur ∧
    (cfS v s d n).partTargetDur = s.partTargetDur ∧ (cfS v s d n).tracks = s.tracks ∧
    (cfS v s d n).segments = s.segments ∧ (cfS v s d n).nextSegmentID = s.nextSegmentID ∧
    (cfS v s d n).initPresent = s.initPresent := by
  unfold cfS; cases v <;> exact ⟨rfl, rfl, rfl, rfl, rfl, rfl, rfl⟩

theorem GI_createFirstSegment {st : State} {L : Nat} (h : GI st L) (hn : (st.stream L).nextSegment = none) (d n : Int) :
    GI (createFirstSegment st d n) L := by
  obtain ⟨hf, hlen, hs⟩ := createFirstSegment_spec st d n
  have hcfg : (createFirstSegment st d n).cfg = st.cfg := hf.1.1
  have hnone : ∀ si, si < st.streams.length → (st.stream si).nextSegment = none := by
    intro si hsi
    have := (h.key si hsi).opn
    rw [hn] at this
    exact opt_map_none this.symm
  refine ⟨hlen ▸ h.lt, ?_, ?_, ?_, ?_, ?_, ?_, by rw [streamOf_congr hcfg, hcfg]; exact h.lidx⟩
  · intro si hsi; rw [hlen] at hsi; rw [hs si hsi, (cfS_fields ..).1]; exact h.lead si hsi
  · rw [hcfg, hlen]; exact h.ts1
  · intro si hsi; rw [hlen] at hsi; rw [hs si hsi, hcfg]; exact SInv_cfS (h.sinv si hsi) (hnone si hsi) d n
  · intro si hsi; rw [hlen] at hsi; rw [hs si hsi, hs L h.lt]; exact KeyEq_cfS (h.key si hsi) d n
  · rw [hs L h.lt]; exact TgInv_cfS h.tg d n
  · intro si hsi; rw [hlen] at hsi
    rw [hs si hsi, hs L h.lt, (cfS_fields ..).2.1, (cfS_fields ..).2.2.1, (cfS_fields ..).2.1, (cfS_fields ..).2.2.1]
    exact h.same si hsi

theorem pwS_fields (s : StreamSt) (sz : Nat) (b : Bool) :
    (pwS s sz b).isLeading = s.isLeading ∧ (pwS s sz b).targetDur = s.targetDur ∧
    (pwS s sz b).partTargetDur = s.partTargetDur ∧ (pwS s sz b).tracks = s.tracks ∧
    (pwS s sz b).segments = s.segments ∧ (pwS s sz b).nextSegmentID = s.nextSegmentID ∧
    (pwS s sz b).initPresent = s.initPresent := by
  unfold pwS; split <;> exact ⟨rfl, rfl, rfl, rfl, rfl, rfl, rfl⟩

theorem twS_fields (s : StreamSt) (u size e c) :
    (twS s u size e c).isLeading = s.isLeading ∧ (twS s u size e c).targetDur = s.targetDur ∧
    (twS s u size e c).partTargetDur = s.partTargetDur ∧ (twS s u size e c).tracks = s.tracks ∧
    (twS s u size e c).segments = s.segments ∧ (twS s u size e c).nextSegmentID = s.nextSegmentID ∧
    (twS s u size e c).initPresent = s.initPresent := by
  unfold twS; split <;> exact ⟨rfl, rfl, rfl, rfl, rfl, rfl, rfl⟩

theorem KeyEq_twS (s : StreamSt) (u size e c) : KeyEq (twS s u size e c) s := by
  unfold twS
  split
  · exact KeyEq.refl s
  · rename_i seg ho
    refine ⟨rfl, rfl, ?_, rfl⟩
    rw [ho]
    simp only [Option.map_some, Option.some.injEq, Seg.okey]
    split <;> split <;> rfl

theorem GI_partWriteSample {st st' : State} {L : Nat} (h : GI st L) (ti : Nat) (smp : Sample) (r : WriteRes)
    (hw : partWriteSample st ti smp = (st', r)) : GI st' L := by
  cases r with
  | err => rw [pws_err st ti smp st' hw]; exact h
  | ok =>
    obtain ⟨indep, e, ⟨hso, _⟩, _, _⟩ := pws_ok st ti smp st' hw
    have hsi : st.streamOf ti < st.streams.length := by
      apply Classical.byContradiction; intro hc
      have : st.stream (st.streamOf ti) = { tracks := [], isLeading := false, nextSegmentID := 0 } := by
        simp [State.stream, List.getD_eq_getElem?_getD, List.getElem?_eq_none (Nat.le_of_not_lt hc)]
      rw [this] at hso; simp at hso
    have f := pwS_fields (st.stream (st.streamOf ti)) smp.size indep
    exact GI_replace (si := st.streamOf ti) h (by rw [e]; rfl) (by rw [e]; rfl) hsi (KeyEq_pwS _ _ _)
      (SInv_pwS (h.sinv _ hsi) _ _) f.1 f.2.1 f.2.2.1 (fun hl => TgInv_pwS (hl ▸ h.tg) _ _)

theorem GI_tsWrite {st st' : State} {L : Nat} (h : GI st L) (u size e c) (r : WriteRes)
    (hw : tsWrite st u size e c = (st', r)) : GI st' L := by
  cases r with
  | err => rw [tsw_err st u size e c st' hw]; exact h
  | ok =>
    obtain ⟨e', hso⟩ := tsw_ok st u size e c st' hw
    have hsi : 0 < st.streams.length := Nat.lt_of_le_of_lt (Nat.zero_le _) h.lt
    have f := twS_fields (st.stream 0) u size e c
    exact GI_replace (si := 0) h (by rw [e']; rfl) (by rw [e']; rfl) hsi (KeyEq_twS _ _ _ _ _)
      (SInv_twS (h.sinv _ hsi) _ _ _ _) f.1 f.2.1 f.2.2.1 (fun hl => TgInv_twS (hl ▸ h.tg) _ _ _ _)

end Hls.Muxer
