import Hls.Muxer.TimeWrite
/-!
# The initial state produced by `start` satisfies the global time invariant (helper file for C02 / C03)
-/
namespace Hls.Muxer
open Hls.Gen

/-- the streams `start` creates -/
def startStreams (cfg : Cfg) : List StreamSt :=
  let nextSegmentID := if cfg.variant = .ll then 7 else 0
  match cfg.variant with
  | .mpegts => [{ tracks := List.range cfg.tracks.length, isLeading := true, nextSegmentID := nextSegmentID }]
  | _ => (List.range cfg.tracks.length).map fun i =>
      { tracks := [i], isLeading := (i = leadingIdx cfg.tracks), nextSegmentID := nextSegmentID }

def startE1 (cfg : Cfg) : Option StartErr :=
  match cfg.variant with
  | .mpegts => tsCheck cfg.tracks false false
  | _ => if countVideo cfg.tracks > 1 then some .multiVideo else none

def startState (cfg : Cfg) : State :=
  { cfg := cfg, tracks := cfg.tracks.map (fun _ => { params := 1 }), streams := startStreams cfg,
    paths := (List.range (startStreams cfg).length).foldl (fun ps i => regPath ps (.playlist i) (.mediaPlaylist i))
      (regPath [] .index .multivariant) }

theorem start_eq (cfg0 : Cfg) :
    start cfg0 =
      if cfg0.withDefaults.tracks.isEmpty then .error .noTracks else
      match startE1 cfg0.withDefaults with
      | some e => .error e
      | none =>
        if cfg0.withDefaults.segmentCount < (if cfg0.withDefaults.variant = .ll then 7 else 3) then .error .segCount
        else .ok (startState cfg0.withDefaults) := rfl

structure StartOK (cfg0 : Cfg) (st : State) : Prop where
  eq : st = startState cfg0.withDefaults
  nonempty : cfg0.withDefaults.tracks ≠ []
  segCount : (if cfg0.withDefaults.variant = .ll then 7 else 3) ≤ cfg0.withDefaults.segmentCount
  e1 : startE1 cfg0.withDefaults = none

theorem start_ok {cfg0 : Cfg} {st : State} (h : start cfg0 = .ok st) : StartOK cfg0 st := by
  rw [start_eq] at h
  by_cases h1 : cfg0.withDefaults.tracks.isEmpty = true
  · simp only [h1, if_true] at h; cases h
  · simp only [h1, if_false, Bool.false_eq_true] at h
    cases h2 : startE1 cfg0.withDefaults with
    | some e => simp only [h2] at h; cases h
    | none =>
      simp only [h2] at h
      by_cases h3 : cfg0.withDefaults.segmentCount < (if cfg0.withDefaults.variant = .ll then 7 else 3)
      · simp only [h3, if_true] at h; cases h
      · simp only [h3, if_false] at h
        exact ⟨(Except.ok.inj h).symm, fun hc => by simp [hc] at h1, by omega, h2⟩

theorem leadingIdx_lt {ts : List TrackCfg} (h : ts ≠ []) : leadingIdx ts < ts.length := by
  unfold leadingIdx
  split
  · rename_i i hi
    have := List.findIdx?_eq_some_iff_getElem.1 hi
    exact this.1
  · exact List.length_pos_iff.2 h

/-- the state `start` returns satisfies the global invariant, with the leading stream where `start` put it -/
theorem GI_start {cfg0 : Cfg} {st : State} (h : start cfg0 = .ok st) :
    GI st (st.streamOf (leadingIdx st.cfg.tracks)) := by
  obtain ⟨e, hne, _, _⟩ := start_ok h
  subst e
  generalize hc : cfg0.withDefaults = cfg at *
  have hlt := leadingIdx_lt hne
  cases hv : cfg.variant with
  | mpegts =>
    have hs : (startState cfg).streams = [{ tracks := List.range cfg.tracks.length, isLeading := true, nextSegmentID := 0 }] := by
      simp [startState, startStreams, hv]
    have hL : (startState cfg).streamOf (leadingIdx (startState cfg).cfg.tracks) = 0 := by
      simp [State.streamOf, startState, hv]
    rw [hL]
    have hs0 : ∀ si, si < (startState cfg).streams.length → si = 0 := by
      intro si hsi; rw [hs] at hsi; simpa using hsi
    have e0 : (startState cfg).stream 0 = { tracks := List.range cfg.tracks.length, isLeading := true, nextSegmentID := 0 } := by
      simp [State.stream, hs]
    refine ⟨by rw [hs]; simp, ?_, fun _ => by rw [hs]; rfl, ?_, ?_, ?_, ?_, hL⟩
    · intro si hsi; have := hs0 si hsi; subst this; rw [e0]; simp
    · intro si hsi; have := hs0 si hsi; subst this; rw [e0]; exact SInv_init _ _ rfl rfl rfl
    · intro si hsi; have := hs0 si hsi; subst this; exact KeyEq.refl _
    · rw [e0]; exact TgInv_init _ rfl rfl rfl
    · intro si hsi; have := hs0 si hsi; subst this; exact ⟨rfl, rfl⟩
  | fmp4 | ll =>
    have hL : (startState cfg).streamOf (leadingIdx (startState cfg).cfg.tracks) = leadingIdx cfg.tracks := by
      simp [State.streamOf, startState, hv]
    rw [hL]
    have hs : (startState cfg).streams = (List.range cfg.tracks.length).map fun i =>
        ({ tracks := [i], isLeading := (i = leadingIdx cfg.tracks), nextSegmentID := if cfg.variant = .ll then 7 else 0 } : StreamSt) := by
      simp [startState, startStreams, hv]
    have hlen : (startState cfg).streams.length = cfg.tracks.length := by rw [hs]; simp
    have es : ∀ si, si < cfg.tracks.length → (startState cfg).stream si =
        { tracks := [si], isLeading := (si = leadingIdx cfg.tracks), nextSegmentID := if cfg.variant = .ll then 7 else 0 } := by
      intro si hsi
      simp [State.stream, hs, List.getD_eq_getElem?_getD, hsi]
    refine ⟨by rw [hlen]; exact hlt, ?_, fun hx => by simp [startState, hv] at hx, ?_, ?_, ?_, ?_, hL⟩
    · intro si hsi; rw [hlen] at hsi; rw [es si hsi]; simp
    · intro si hsi; rw [hlen] at hsi; rw [es si hsi]; exact SInv_init _ _ rfl rfl rfl
    · intro si hsi; rw [hlen] at hsi; rw [es si hsi, es _ hlt]; exact ⟨rfl, rfl, rfl, rfl⟩
    · rw [es _ hlt]; exact TgInv_init _ rfl rfl rfl
    · intro si hsi; rw [hlen] at hsi; rw [es si hsi, es _ hlt]; exact ⟨rfl, rfl⟩

end Hls.Muxer
