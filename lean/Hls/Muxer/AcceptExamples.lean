import Hls.Muxer.Accept
/-!
# C01 — concrete runs used by the non-vacuity examples of `Props/C01.lean`

Three muxers (fMP4 audio+video, Low-Latency video+Opus, MPEG-TS audio+video), each started mid-GOP, with a prefix of
units below −10 s (dropped) and enough key frames to rotate segments (and, Low-Latency, parts); audio written in
multi-AU calls and before the video has started.
-/
namespace Hls.Muxer.Accept.Ex
open Hls.Muxer

def vid (t : Nat) (pts : Int) (ra : Bool) (pay : Nat) (par : Nat := 0) : WriteOp :=
  { track := t, pts := pts, dts := pts, ntp := 0, ra := ra, par := par, pays := [pay], sizes := [10] }

def aud (t : Nat) (pts : Int) (pays : List Nat) : WriteOp :=
  { track := t, pts := pts, dts := pts, ntp := 0, pays := pays, sizes := pays.map (fun _ => 5), durs := pays.map (fun _ => 960) }

def stOf (c : Cfg) : State :=
  match start c with
  | .ok s => s
  | .error _ => { cfg := c, tracks := [], streams := [], paths := [] }

/-- fMP4: AAC 48 kHz (track 0) next to H264 (track 1, leading) -/
def cfgA : Cfg :=
  { variant := .fmp4, segmentCount := 3, segmentMinDur := 1000000000, partMinDur := 0, segmentMaxSize := 0,
    tracks := [{ codec := .aac, clockRate := 48000, sampleRate := 48000 }, { codec := .h264, clockRate := 90000 }] }

def opsA : List WriteOp := [
  aud 0 (-490000) [100, 101], vid 1 (-903000) false 1, aud 0 (-480000) [102], vid 1 (-900000) false 2,
  vid 1 (-897000) true 3 1, aud 0 (-478976) [103, 104], vid 1 (-894000) false 4, aud 0 (-476928) [105],
  vid 1 (-891000) false 5, aud 0 (-475904) [106], vid 1 (-800000) true 6, aud 0 (-474880) [107],
  vid 1 (-797000) false 7, vid 1 (-700000) true 8, aud 0 (-473856) [108], vid 1 (-600000) true 9,
  vid 1 (-500000) true 10, vid 1 (-400000) true 11, aud 0 (-472832) [109] ]

/-- Low-Latency: H264 (track 0, leading) next to Opus (track 1) -/
def cfgL : Cfg :=
  { variant := .ll, segmentCount := 7, segmentMinDur := 1000000000, partMinDur := 100000000, segmentMaxSize := 0,
    tracks := [{ codec := .h264, clockRate := 90000 }, { codec := .opus, clockRate := 48000 }] }

def opsL : List WriteOp := [
  aud 1 (-481000) [100], vid 0 (-903000) false 1, aud 1 (-480000) [102, 103], vid 0 (-900000) true 2 1,
  vid 0 (-897000) false 3, aud 1 (-478080) [104, 105], vid 0 (-894000) false 4, vid 0 (-891000) false 5,
  vid 0 (-888000) false 6, vid 0 (-885000) false 7, aud 1 (-476160) [106], vid 0 (-882000) false 8,
  vid 0 (-879000) false 9, vid 0 (-800000) true 10, aud 1 (-475200) [107], vid 0 (-797000) false 11,
  vid 0 (-700000) true 12, vid 0 (-600000) true 13 ]

/-- MPEG-TS: AAC (track 0) next to H264 (track 1, leading) -/
def cfgT : Cfg :=
  { variant := .mpegts, segmentCount := 3, segmentMinDur := 1000000000, partMinDur := 0, segmentMaxSize := 0,
    tracks := [{ codec := .aac, clockRate := 48000, sampleRate := 48000 }, { codec := .h264, clockRate := 90000 }] }

def opsT : List WriteOp := [
  aud 0 (-490000) [100, 101], vid 1 (-903000) false 1, aud 0 (-480000) [102], vid 1 (-900000) false 2,
  vid 1 (-897000) true 3 1, aud 0 (-478976) [103, 104], vid 1 (-894000) false 4, aud 0 (-476928) [105],
  vid 1 (-800000) true 6, aud 0 (-474880) [107], vid 1 (-797000) false 7, vid 1 (-700000) true 8,
  aud 0 (-473856) [108], vid 1 (-600000) true 9 ]

end Hls.Muxer.Accept.Ex
