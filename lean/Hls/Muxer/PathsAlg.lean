import Hls.Muxer.Model
/-!
  Algebra of the association-list operations `regPath` / `unregPath` / `lookupPath`
  (`muxerServer.registerPath / unregisterPath / pathHandlers[path]`), used by C05.
-/
namespace Hls.Muxer.Paths
open Hls.Muxer

abbrev PL := List (PathKey × Handler)

/-- the registered keys -/
def keys (ps : PL) : List PathKey := ps.map (·.1)

theorem lookup_nil (k : PathKey) : lookupPath [] k = none := rfl

theorem lookup_cons (a : PathKey × Handler) (ps : PL) (k : PathKey) :
    lookupPath (a :: ps) k = if a.1 = k then some a.2 else lookupPath ps k := by
  unfold lookupPath
  by_cases h : a.1 = k <;> simp [h]

theorem lookup_filter_ne_same (ps : PL) (k : PathKey) :
    lookupPath (ps.filter (·.1 ≠ k)) k = none := by
  induction ps with
  | nil => rfl
  | cons a ps ih =>
    by_cases h : a.1 = k
    · simp only [List.filter_cons, h, ne_eq, not_true_eq_false, decide_false]
      simpa using ih
    · simp only [List.filter_cons, h, ne_eq, not_false_eq_true, decide_true, if_true, lookup_cons, if_false]
      exact ih

theorem lookup_filter_ne_other (ps : PL) (k k' : PathKey) (hne : k' ≠ k) :
    lookupPath (ps.filter (·.1 ≠ k)) k' = lookupPath ps k' := by
  induction ps with
  | nil => rfl
  | cons a ps ih =>
    by_cases h : a.1 = k
    · have h' : ¬ k = k' := fun e => hne e.symm
      simp only [List.filter_cons, h, ne_eq, not_true_eq_false, decide_false, lookup_cons, h', if_false]
      simpa using ih
    · simp only [List.filter_cons, h, ne_eq, not_false_eq_true, decide_true, if_true, lookup_cons]
      rw [ih]

theorem lookup_append (ps qs : PL) (k : PathKey) :
    lookupPath (ps ++ qs) k = (lookupPath ps k).or (lookupPath qs k) := by
  induction ps with
  | nil => simp [lookup_nil]
  | cons a ps ih =>
    simp only [List.cons_append, lookup_cons]
    by_cases h : a.1 = k <;> simp [h, ih]

theorem lookup_reg_same (ps : PL) (k : PathKey) (h : Handler) :
    lookupPath (regPath ps k h) k = some h := by
  unfold regPath
  rw [lookup_append, lookup_filter_ne_same, lookup_cons]
  simp

theorem lookup_reg_other (ps : PL) (k k' : PathKey) (h : Handler) (hne : k' ≠ k) :
    lookupPath (regPath ps k h) k' = lookupPath ps k' := by
  unfold regPath
  rw [lookup_append, lookup_filter_ne_other _ _ _ hne, lookup_cons]
  have : ¬ k = k' := fun e => hne e.symm
  simp [this, lookup_nil]

theorem lookup_reg (ps : PL) (k k' : PathKey) (h : Handler) :
    lookupPath (regPath ps k h) k' = if k' = k then some h else lookupPath ps k' := by
  by_cases e : k' = k
  · subst e; simp [lookup_reg_same]
  · simp [e, lookup_reg_other _ _ _ _ e]

theorem lookup_unreg_same (ps : PL) (k : PathKey) : lookupPath (unregPath ps k) k = none :=
  lookup_filter_ne_same ps k

theorem lookup_unreg_other (ps : PL) (k k' : PathKey) (hne : k' ≠ k) :
    lookupPath (unregPath ps k) k' = lookupPath ps k' :=
  lookup_filter_ne_other ps k k' hne

theorem lookup_unreg (ps : PL) (k k' : PathKey) :
    lookupPath (unregPath ps k) k' = if k' = k then none else lookupPath ps k' := by
  by_cases e : k' = k
  · subst e; simp [lookup_unreg_same]
  · simp [e, lookup_unreg_other _ _ _ e]

/-- unregistering a list of keys (the `for _, part := range toDeleteSeg.parts` loop) -/
theorem lookup_unreg_list {α} (l : List α) (f : α → PathKey) (ps : PL) (k : PathKey) :
    lookupPath (l.foldl (fun ps a => unregPath ps (f a)) ps) k
      = if k ∈ l.map f then none else lookupPath ps k := by
  induction l generalizing ps with
  | nil => simp
  | cons a l ih =>
    simp only [List.foldl_cons, ih, List.map_cons, List.mem_cons, lookup_unreg]
    by_cases h1 : k ∈ l.map f <;> by_cases h2 : k = f a <;> simp [h1, h2]

/-! ### keys / no duplicates -/

theorem mem_keys_filter (ps : PL) (k k' : PathKey) :
    k' ∈ keys (ps.filter (·.1 ≠ k)) ↔ k' ∈ keys ps ∧ k' ≠ k := by
  unfold keys
  simp only [List.mem_map, List.mem_filter, ne_eq, decide_not, Bool.not_eq_eq_eq_not, Bool.not_true,
    decide_eq_false_iff_not]
  constructor
  · rintro ⟨a, ⟨ha, hne⟩, rfl⟩; exact ⟨⟨a, ha, rfl⟩, hne⟩
  · rintro ⟨⟨a, ha, rfl⟩, hne⟩; exact ⟨a, ⟨ha, hne⟩, rfl⟩

theorem nodup_filter (ps : PL) (k : PathKey) (h : (keys ps).Nodup) : (keys (ps.filter (·.1 ≠ k))).Nodup := by
  unfold keys at *
  exact (List.Sublist.map _ List.filter_sublist).nodup h

theorem nodup_unreg (ps : PL) (k : PathKey) (h : (keys ps).Nodup) : (keys (unregPath ps k)).Nodup :=
  nodup_filter ps k h

theorem nodup_reg (ps : PL) (k : PathKey) (hd : Handler) (h : (keys ps).Nodup) :
    (keys (regPath ps k hd)).Nodup := by
  have h1 := nodup_filter ps k h
  have h2 : k ∉ keys (ps.filter (·.1 ≠ k)) := fun hm => ((mem_keys_filter ps k k).1 hm).2 rfl
  unfold regPath
  unfold keys at *
  rw [List.map_append, List.nodup_append]
  refine ⟨h1, by simp, ?_⟩
  intro a ha b hb
  simp only [List.map_cons, List.map_nil, List.mem_singleton] at hb
  subst hb
  intro e; subst e; exact h2 ha

theorem nodup_unreg_list {α} (l : List α) (f : α → PathKey) (ps : PL) (h : (keys ps).Nodup) :
    (keys (l.foldl (fun ps a => unregPath ps (f a)) ps)).Nodup := by
  induction l generalizing ps with
  | nil => exact h
  | cons a l ih => exact ih _ (nodup_unreg _ _ h)

theorem lookup_some_mem (ps : PL) (k : PathKey) (h : Handler) (hl : lookupPath ps k = some h) : (k, h) ∈ ps := by
  induction ps with
  | nil => simp [lookup_nil] at hl
  | cons a ps ih =>
    rw [lookup_cons] at hl
    by_cases e : a.1 = k
    · simp only [e, if_true, Option.some.injEq] at hl
      have : a = (k, h) := by cases a; simp_all
      simp [this]
    · simp only [e, if_false] at hl
      exact List.mem_cons_of_mem _ (ih hl)

theorem mem_lookup_of_nodup (ps : PL) (k : PathKey) (h : Handler) (hnd : (keys ps).Nodup) (hm : (k, h) ∈ ps) :
    lookupPath ps k = some h := by
  induction ps with
  | nil => simp at hm
  | cons a ps ih =>
    rw [lookup_cons]
    unfold keys at hnd ih
    simp only [List.map_cons, List.nodup_cons] at hnd
    rcases List.mem_cons.1 hm with e | hm'
    · subst e; simp
    · have hk : k ∈ ps.map (·.1) := List.mem_map.2 ⟨(k, h), hm', rfl⟩
      have : ¬ a.1 = k := fun e => hnd.1 (e ▸ hk)
      simp only [this, if_false]
      exact ih hnd.2 hm'

theorem mem_iff_lookup (ps : PL) (k : PathKey) (h : Handler) (hnd : (keys ps).Nodup) :
    (k, h) ∈ ps ↔ lookupPath ps k = some h :=
  ⟨mem_lookup_of_nodup ps k h hnd, lookup_some_mem ps k h⟩

theorem lookup_none_iff (ps : PL) (k : PathKey) : lookupPath ps k = none ↔ k ∉ keys ps := by
  induction ps with
  | nil => simp [lookup_nil, keys]
  | cons a ps ih =>
    rw [lookup_cons]
    unfold keys at *
    by_cases e : a.1 = k
    · simp [e]
    · have e' : ¬ k = a.1 := fun x => e x.symm
      simp [e, e', ih]

end Hls.Muxer.Paths
