import Hls.Muxer.InvFrame
/-!
  The per-stream invariant `StreamInv` (C04 / C18) and its preservation by the stream-level
  effect of every primitive (`firstSegS`, `rotPartsS`, `rotSegS`, `partWriteS`, an MPEG-TS write).
-/
namespace Hls.Muxer

/-- what `Start` guarantees about the configuration -/
def CfgOK (cfg : Cfg) : Prop := (if cfg.variant = .ll then 7 else 3) ≤ cfg.segmentCount

def openParts (s : StreamSt) : List Part :=
  match s.nextSegment with
  | some g => g.parts
  | none => []

/-- every part the stream still advertises: parts of the listed segments, then of the open one -/
def allParts (s : StreamSt) : List Part := s.segments.flatMap Entry.parts ++ openParts s

structure StreamInv (cfg : Cfg) (s : StreamSt) : Prop where
  gtr : GapsThenReals s.segments
  gapsLL : cfg.variant ≠ .ll → ∀ e ∈ s.segments, e.isGap = false
  msn : MsnFrom s.deleteCount s.segments
  countEmpty : cfg.variant = .ll → s.segments = [] → s.deleteCount = 0 ∧ s.nextSegmentID = 7
  count : ¬(cfg.variant = .ll ∧ s.segments = []) → s.deleteCount + s.segments.length = s.nextSegmentID
  len : s.segments.length ≤ cfg.segmentCount
  llNext : cfg.variant = .ll → 7 ≤ s.nextSegmentID
  llReal : cfg.variant = .ll → ∀ g, .seg g ∈ s.segments → 7 ≤ g.id
  openId : ∀ g, s.nextSegment = some g → g.id = s.nextSegmentID
  closedEmpty : s.nextSegment = none → s.segments = []
  partId : ∀ p, s.nextPart = some p → p.id = s.nextPartID
  partIds : ∃ a, Consec a ((allParts s).map (·.id)) ∧ a + (allParts s).length = s.nextPartID
  partsLL : cfg.variant ≠ .ll → allParts s = []
  sizeListed : ∀ g, .seg g ∈ s.segments → g.size ≤ cfg.segmentMaxSize
  sizeOpen : ∀ g, s.nextSegment = some g → g.size ≤ cfg.segmentMaxSize
  tiled : ∀ o, s.nextSegment = some o → Tiled s.segments o.startDTS

/-- the open part exists exactly when an open fMP4 segment exists -/
def PartSync (cfg : Cfg) (s : StreamSt) : Prop :=
  if cfg.variant = .mpegts then s.nextPart = none else s.nextPart.isSome = s.nextSegment.isSome

/-- `StreamInv` only looks at these six components. -/
theorem StreamInv.congr {cfg : Cfg} {s s' : StreamSt} (h : StreamInv cfg s)
    (h1 : s'.segments = s.segments) (h2 : s'.nextSegment = s.nextSegment) (h3 : s'.nextPart = s.nextPart)
    (h4 : s'.nextSegmentID = s.nextSegmentID) (h5 : s'.nextPartID = s.nextPartID)
    (h6 : s'.deleteCount = s.deleteCount) : StreamInv cfg s' := by
  have hp : allParts s' = allParts s := by simp [allParts, openParts, h1, h2]
  constructor
  all_goals first | rw [hp] | skip
  all_goals try simp only [h1, h2, h3, h4, h5, h6]
  all_goals first
    | exact h.gtr | exact h.gapsLL | exact h.msn | exact h.countEmpty | exact h.count | exact h.len
    | exact h.llNext | exact h.llReal | exact h.openId | exact h.closedEmpty | exact h.partId | exact h.partIds
    | exact h.partsLL | exact h.sizeListed | exact h.sizeOpen | exact h.tiled

theorem PartSync.congr {cfg : Cfg} {s s' : StreamSt} (h : PartSync cfg s)
    (h2 : s'.nextSegment = s.nextSegment) (h3 : s'.nextPart = s.nextPart) : PartSync cfg s' := by
  unfold PartSync at *; rw [h2, h3]; exact h


/-! ### createFirstSegment -/

theorem StreamInv.firstSeg {cfg : Cfg} {s : StreamSt} (h : StreamInv cfg s) (hn : s.nextSegment = none)
    (d ntp : Int) : StreamInv cfg (firstSegS cfg s d ntp) := by
  have hp : allParts (firstSegS cfg s d ntp) = allParts s := by
    simp [allParts, openParts, firstSegS, hn]
  constructor
  all_goals first | rw [hp] | skip
  all_goals try simp only [firstSegS]
  all_goals first
    | exact h.gtr | exact h.gapsLL | exact h.msn | exact h.countEmpty | exact h.count | exact h.len
    | exact h.llNext | exact h.llReal | exact h.partIds | exact h.partsLL | exact h.sizeListed | skip
  · intro g hg; cases hg; rfl
  · intro hc; cases hc
  · intro p hp
    split at hp
    · exact h.partId p hp
    · cases hp; rfl
  · intro g hg; cases hg; exact Nat.zero_le _
  · intro o ho; rw [h.closedEmpty hn]; trivial

theorem PartSync.firstSeg {cfg : Cfg} {s : StreamSt} (h : PartSync cfg s) (d ntp : Int) :
    PartSync cfg (firstSegS cfg s d ntp) := by
  unfold PartSync firstSegS at *
  by_cases hv : cfg.variant = .mpegts <;> simp_all

/-! ### rotateParts -/

theorem StreamInv.rotParts {cfg : Cfg} {s : StreamSt} {g : Seg} {p part : Part} (h : StreamInv cfg s)
    (hg : s.nextSegment = some g) (hp : s.nextPart = some p) (hid : part.id = p.id) (cn : Bool) (d pt : Int) :
    StreamInv cfg (rotPartsS cfg s g part cn d pt) := by
  have hpid : part.id = s.nextPartID := by rw [hid]; exact h.partId p hp
  have hap : allParts (rotPartsS cfg s g part cn d pt) =
      allParts s ++ (if cfg.variant = .ll then [part] else []) := by
    simp only [allParts, openParts, rotPartsS, partsSeg, hg]
    split <;> simp
  constructor
  all_goals first | rw [hap] | skip
  all_goals try simp only [rotPartsS]
  all_goals first
    | exact h.gtr | exact h.gapsLL | exact h.msn | exact h.countEmpty | exact h.count | exact h.len
    | exact h.llNext | exact h.llReal | exact h.sizeListed | skip
  · intro g' hg'; cases hg'
    have := h.openId g hg
    simp only [partsSeg]; split <;> exact this
  · intro hc; cases hc
  · intro p' hp'
    split at hp'
    · cases hp'; rfl
    · cases hp'
  · obtain ⟨a, hc, ha⟩ := h.partIds
    by_cases hll : cfg.variant = .ll
    · refine ⟨a, ?_, ?_⟩
      · simp only [hll, if_true, List.map_append, List.map_cons, List.map_nil]
        exact hc.append (by simp; omega)
      · simp [hll]; omega
    · have := h.partsLL hll
      refine ⟨s.nextPartID + 1, ?_, ?_⟩ <;> simp [hll, this, Consec]
  · intro hll
    rw [h.partsLL hll]; simp [hll]
  · intro g' hg'; cases hg'
    have := h.sizeOpen g hg
    simp only [partsSeg]; split <;> exact this
  · intro o ho; cases ho
    have := h.tiled g hg
    simp only [partsSeg]; split <;> exact this

theorem PartSync.rotParts_true {cfg : Cfg} {s : StreamSt} {g : Seg} {part : Part} (hv : cfg.variant ≠ .mpegts)
    (d pt : Int) : PartSync cfg (rotPartsS cfg s g part true d pt) := by
  unfold PartSync rotPartsS; simp [hv]

/-! ### writes into the open segment -/

theorem StreamInv.openUpd {cfg : Cfg} {s : StreamSt} {g g' : Seg} {np : Option Part} (h : StreamInv cfg s)
    (hg : s.nextSegment = some g) (hid : g'.id = g.id) (hparts : g'.parts = g.parts)
    (hstart : g'.startDTS = g.startDTS)
    (hsize : g'.size ≤ cfg.segmentMaxSize) (hnp : ∀ p, np = some p → p.id = s.nextPartID) :
    StreamInv cfg { s with nextSegment := some g', nextPart := np } := by
  have hp : allParts { s with nextSegment := some g', nextPart := np } = allParts s := by
    simp [allParts, openParts, hg, hparts]
  constructor
  all_goals first | rw [hp] | skip
  all_goals try simp only
  all_goals first
    | exact h.gtr | exact h.gapsLL | exact h.msn | exact h.countEmpty | exact h.count | exact h.len
    | exact h.llNext | exact h.llReal | exact h.partIds | exact h.partsLL | exact h.sizeListed | skip
  · intro g'' hg''; cases hg''; rw [hid]; exact h.openId g hg
  · intro hc; cases hc
  · exact hnp
  · intro g'' hg''; cases hg''; exact hsize
  · intro o ho; cases ho; rw [hstart]; exact h.tiled g hg

theorem StreamInv.partWrite {cfg : Cfg} {s : StreamSt} {g : Seg} {p : Part} (h : StreamInv cfg s)
    (hg : s.nextSegment = some g) (hp : s.nextPart = some p) (size : Nat) (indep : Bool)
    (hsz : g.size + size ≤ cfg.segmentMaxSize) : StreamInv cfg (partWriteS s g p size indep) := by
  unfold partWriteS
  refine h.openUpd hg rfl rfl rfl hsz ?_
  intro p' hp'
  cases hp'
  have := h.partId p hp
  split <;> exact this

theorem PartSync.partWrite {cfg : Cfg} {s : StreamSt} {g : Seg} {p : Part} (h : PartSync cfg s)
    (_hg : s.nextSegment = some g) (hp : s.nextPart = some p) (size : Nat) (indep : Bool) :
    PartSync cfg (partWriteS s g p size indep) := by
  unfold PartSync partWriteS at *
  by_cases hv : cfg.variant = .mpegts <;> simp_all


/-! ### rotateSegments -/

/-- everything the proofs need to know about the window right after the finished segment was appended -/
structure AppFacts (cfg : Cfg) (s : StreamSt) (d : Int) (app : List Entry) : Prop where
  gtr : GapsThenReals app
  gapsLL : cfg.variant ≠ .ll → ∀ e ∈ app, e.isGap = false
  msn : MsnFrom s.deleteCount app
  count : s.deleteCount + app.length = s.nextSegmentID + 1
  len : app.length ≤ cfg.segmentCount + 1
  parts : app.flatMap Entry.parts = allParts s
  size : ∀ g, .seg g ∈ app → g.size ≤ cfg.segmentMaxSize
  llReal : cfg.variant = .ll → ∀ g, .seg g ∈ app → 7 ≤ g.id
  ne : app ≠ []
  tiled : Tiled app d

theorem flatMap_parts_gaps (d : Int) : (gaps d).flatMap Entry.parts = [] := by
  simp [gaps, llGapCount, List.replicate, Entry.parts]

theorem appFacts {cfg : Cfg} {s : StreamSt} {g : Seg} (hc : CfgOK cfg) (h : StreamInv cfg s)
    (hg : s.nextSegment = some g) (d : Int) : AppFacts cfg s d (appended cfg s.segments { g with endDTS := d }) := by
  have hid := h.openId g hg
  have hsz := h.sizeOpen g hg
  by_cases hE : cfg.variant = .ll ∧ s.segments = []
  · obtain ⟨hll, hempty⟩ := hE
    have hce := h.countEmpty hll hempty
    have happ : appended cfg s.segments { g with endDTS := d } =
        gaps ({ g with endDTS := d } : Seg).duration ++ [.seg { g with endDTS := d }] := by
      simp [appended, hll, hempty]
    rw [happ]
    unfold CfgOK at hc; simp only [hll, if_true] at hc
    refine ⟨(gapsThenReals_gaps _).append_seg _, fun hn => absurd hll hn, ?_, ?_, ?_, ?_, ?_, ?_, by simp,
      (tiled_gaps _ g.startDTS).append_seg { g with endDTS := d } rfl⟩
    · rw [hce.1]; exact (msnFrom_gaps _).append_seg (by simp [length_gaps]; omega)
    · simp [length_gaps]; omega
    · simp [length_gaps]; omega
    · simp [flatMap_parts_gaps, allParts, hempty, openParts, hg, Entry.parts]
    · intro g' hg'
      simp [gaps] at hg'
      subst hg'; exact hsz
    · intro _ g' hg'
      simp [gaps] at hg'
      subst hg'; simp; omega
  · have happ : appended cfg s.segments { g with endDTS := d } = s.segments ++ [.seg { g with endDTS := d }] := by
      unfold appended
      rw [if_neg]
      simpa [List.isEmpty_iff] using hE
    rw [happ]
    have hcnt := h.count hE
    refine ⟨h.gtr.append_seg _, ?_, h.msn.append_seg (by simp; omega), by simp; omega, ?_, ?_, ?_, ?_, by simp,
      (h.tiled g hg).append_seg { g with endDTS := d } rfl⟩
    · intro hn e he
      simp at he
      rcases he with he | he
      · exact h.gapsLL hn e he
      · subst he; rfl
    · have := h.len; simp; omega
    · simp [allParts, openParts, hg, Entry.parts]
    · intro g' hg'
      simp at hg'
      rcases hg' with hg' | hg'
      · exact h.sizeListed g' hg'
      · subst hg'; exact hsz
    · intro hll g' hg'
      simp at hg'
      rcases hg' with hg' | hg'
      · exact h.llReal hll g' hg'
      · subst hg'; have := h.llNext hll; simp; omega

theorem StreamInv.rotSeg {cfg : Cfg} {s : StreamSt} {g : Seg} (hc : CfgOK cfg) (h : StreamInv cfg s)
    (hg : s.nextSegment = some g) (d ntp : Int) (ip fc : Bool) (td : Int) :
    StreamInv cfg (rotSegS cfg s g d ntp ip fc td) := by
  have A := appFacts hc h hg d
  generalize happ : appended cfg s.segments { g with endDTS := d } = app at A
  have hN : 3 ≤ cfg.segmentCount := by unfold CfgOK at hc; split at hc <;> omega
  by_cases hov : overfull cfg app
  · -- one entry leaves at the head
    obtain ⟨e, rest, rfl⟩ := List.exists_cons_of_ne_nil A.ne
    have hlen : rest.length = cfg.segmentCount := by
      have := A.len; unfold overfull at hov; simp at this hov; omega
    have hne : rest ≠ [] := by intro h0; rw [h0] at hlen; simp at hlen; omega
    have hap : allParts (rotSegS cfg s g d ntp ip fc td) = rest.flatMap Entry.parts := by
      simp [allParts, openParts, rotSegS, happ, hov]
    constructor
    all_goals first | rw [hap] | skip
    all_goals try simp only [rotSegS, happ, hov, if_true, List.tail_cons]
    · exact A.gtr.tail
    · intro hn e' he'; exact A.gapsLL hn e' (by simp [he'])
    · exact A.msn.tail
    · intro _ h0; exact absurd h0 hne
    · intro _; have := A.count; simp at this; omega
    · omega
    · intro hll; have := h.llNext hll; omega
    · intro hll g' hg'; exact A.llReal hll g' (by simp [hg'])
    · intro g' hg'; cases hg'; rfl
    · intro h0; cases h0
    · intro p hp; split at hp
      · cases hp
      · cases hp; rfl
    · obtain ⟨a, hcs, ha⟩ := h.partIds
      rw [← A.parts] at hcs ha
      simp only [List.flatMap_cons, List.map_append, List.length_append] at hcs ha
      refine ⟨a + (e.parts.map (·.id)).length, hcs.drop_prefix, ?_⟩
      simp only [List.length_map]; omega
    · intro hll
      have := h.partsLL hll
      rw [← A.parts] at this
      simp only [List.flatMap_cons, List.append_eq_nil_iff] at this
      exact this.2
    · intro g' hg'; exact A.size g' (by simp [hg'])
    · intro g' hg'; cases hg'; exact Nat.zero_le _
    · intro o ho; cases ho; exact A.tiled.tail
  · have hap : allParts (rotSegS cfg s g d ntp ip fc td) = app.flatMap Entry.parts := by
      simp [allParts, openParts, rotSegS, happ, hov]
    have hlen : app.length ≤ cfg.segmentCount := by unfold overfull at hov; omega
    constructor
    all_goals first | rw [hap] | skip
    all_goals try simp only [rotSegS, happ, hov, if_false]
    · exact A.gtr
    · exact A.gapsLL
    · exact A.msn
    · intro _ h0; exact absurd h0 A.ne
    · intro _; exact A.count
    · exact hlen
    · intro hll; have := h.llNext hll; omega
    · exact A.llReal
    · intro g' hg'; cases hg'; rfl
    · intro h0; cases h0
    · intro p hp; split at hp
      · cases hp
      · cases hp; rfl
    · rw [A.parts]; exact h.partIds
    · intro hll; rw [A.parts]; exact h.partsLL hll
    · exact A.size
    · intro g' hg'; cases hg'; exact Nat.zero_le _
    · intro o ho; cases ho; exact A.tiled

theorem PartSync.rotSeg (cfg : Cfg) (s : StreamSt) (g : Seg) (d ntp : Int) (ip fc : Bool) (td : Int) :
    PartSync cfg (rotSegS cfg s g d ntp ip fc td) := by
  unfold PartSync rotSegS
  by_cases hv : cfg.variant = .mpegts <;> simp [hv]

end Hls.Muxer
