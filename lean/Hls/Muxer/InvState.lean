import Hls.Muxer.InvPaths
/-!
  State-level invariant `Inv0` (+ `SyncAll`) and its preservation by every primitive that acts on one
  stream: `createFirstSegmentStream`, `rotatePartsStream`, `rotateSegmentsStream`, `partWriteSample`, `tsWrite`.
-/
namespace Hls.Muxer

structure Inv0 (st : State) : Prop where
  cfgOK : CfgOK st.cfg
  streams : ∀ si, si < st.streams.length → StreamInv st.cfg (st.stream si)
  paths : PathsOK st
  files : FilesOK st

def SyncAll (st : State) : Prop := ∀ si, si < st.streams.length → PartSync st.cfg (st.stream si)

theorem Inv0.update {st st' : State} {si : Nat} {s' : StreamSt} (h : Inv0 st)
    (hcfg : st'.cfg = st.cfg) (hs : st'.streams = st.streams.set si s') (hsi : si < st.streams.length)
    (hinv : StreamInv st.cfg s') (hp : PathsOK st') (hf : FilesOK st') : Inv0 st' := by
  refine ⟨hcfg ▸ h.cfgOK, fun sj hsj => ?_, hp, hf⟩
  rw [length_of_set hs] at hsj
  rw [hcfg]
  by_cases hj : sj = si
  · subst hj; rw [stream_of_set hs hsi]; exact hinv
  · rw [stream_of_set_ne hs hj]; exact h.streams sj hsj

theorem SyncAll.update {st st' : State} {si : Nat} {s' : StreamSt} (h : ∀ sj, sj < st.streams.length → sj ≠ si → PartSync st.cfg (st.stream sj))
    (hcfg : st'.cfg = st.cfg) (hs : st'.streams = st.streams.set si s') (hsi : si < st.streams.length)
    (hsync : PartSync st.cfg s') : SyncAll st' := by
  intro sj hsj
  rw [length_of_set hs] at hsj
  rw [hcfg]
  by_cases hj : sj = si
  · subst hj; rw [stream_of_set hs hsi]; exact hsync
  · rw [stream_of_set_ne hs hj]; exact h sj hsj hj

/-- paths untouched, allowed-set of the changed stream unchanged -/
theorem PathsOK.same {st st' : State} {si : Nat} {s' : StreamSt} (h : PathsOK st)
    (hcfg : st'.cfg = st.cfg) (hs : st'.streams = st.streams.set si s') (hsi : si < st.streams.length)
    (hpaths : st'.paths = st.paths)
    (h1 : s'.segments = (st.stream si).segments) (h2 : allParts s' = allParts (st.stream si))
    (h3 : s'.nextPartID = (st.stream si).nextPartID) : PathsOK st' := by
  refine h.update hcfg hs hsi (hpaths ▸ h.1) (fun k hk => ⟨fun _ _ _ => hpaths ▸ hk, fun hks => ?_⟩)
  have := h.2 k (hpaths ▸ hk)
  unfold Allowed at this
  simp only [hks] at this
  exact this.2.congr h1 h2 h3

/-- files untouched, file-set of the changed stream unchanged -/
theorem FilesOK.same {st st' : State} {si : Nat} {s' : StreamSt} (h : FilesOK st)
    (hs : st'.streams = st.streams.set si s') (hsi : si < st.streams.length)
    (hfiles : st'.files = st.files)
    (hfi : ∀ id, FileIn s' id ↔ FileIn (st.stream si) id) : FilesOK st' := by
  refine h.update hs hsi (hfiles ▸ h.1) (fun k => ?_)
  rw [hfiles]
  constructor
  · intro hk
    obtain ⟨sj, id, rfl, hsj, hin⟩ := (h.2 k).mp hk
    by_cases hj : sj = si
    · subst hj; exact Or.inr ⟨id, rfl, (hfi id).mpr hin⟩
    · exact Or.inl ⟨hk, fun id' e => hj (by cases e; rfl)⟩
  · rintro (⟨hk, _⟩ | ⟨id, rfl, hin⟩)
    · exact hk
    · exact (h.2 _).mpr ⟨si, id, rfl, hsi, (hfi id).mp hin⟩


/-! ### createFirstSegmentStream -/

theorem fileIn_closed {cfg : Cfg} {s : StreamSt} (h : StreamInv cfg s) (hn : s.nextSegment = none) (id : Nat) :
    ¬ FileIn s id := by
  rintro (⟨g, hg, _⟩ | ⟨g, hg, _⟩)
  · rw [h.closedEmpty hn] at hg; simp at hg
  · rw [hn] at hg; cases hg

theorem Inv0.createFirst {st : State} {si : Nat} (h : Inv0 st) (hsi : si < st.streams.length)
    (hn : (st.stream si).nextSegment = none) (d ntp : Int) : Inv0 (createFirstSegmentStream st si d ntp) := by
  rw [createFirstSegmentStream_spec]
  have hI := h.streams si hsi
  have hnot : PathKey.seg si (st.stream si).nextSegmentID ∉ st.files := by
    intro hc
    obtain ⟨sj, id, he, _, hin⟩ := (h.files.2 _).mp hc
    cases he
    exact fileIn_closed hI hn _ hin
  refine h.update rfl rfl hsi (hI.firstSeg hn d ntp) ?_ ?_
  · refine h.paths.same rfl rfl hsi rfl rfl ?_ rfl
    simp [allParts, openParts, firstSegS, hn]
  · refine h.files.update rfl hsi ?_ (fun k => ?_)
    · simp only
      rw [List.nodup_append]
      refine ⟨h.files.1, by simp, ?_⟩
      intro a ha b hb
      simp at hb; subst hb
      intro e; subst e; exact hnot ha
    · simp only [List.mem_append, List.mem_singleton]
      constructor
      · rintro (hk | rfl)
        · obtain ⟨sj, id, rfl, hsj, hin⟩ := (h.files.2 k).mp hk
          by_cases hj : sj = si
          · subst hj; exact absurd hin (fileIn_closed hI hn id)
          · exact Or.inl ⟨hk, fun id' e => hj (by cases e; rfl)⟩
        · exact Or.inr ⟨_, rfl, Or.inr ⟨_, rfl, rfl⟩⟩
      · rintro (⟨hk, _⟩ | ⟨id, rfl, hin⟩)
        · exact Or.inl hk
        · rcases hin with ⟨g, hg, _⟩ | ⟨g, hg, hid⟩
          · simp only [firstSegS] at hg
            rw [hI.closedEmpty hn] at hg; simp at hg
          · simp only [firstSegS] at hg
            cases hg; right; rw [← hid]

theorem SyncAll.createFirst {st : State} {si : Nat} (h : SyncAll st) (hsi : si < st.streams.length)
    (d ntp : Int) : SyncAll (createFirstSegmentStream st si d ntp) := by
  rw [createFirstSegmentStream_spec]
  exact SyncAll.update (fun sj hsj _ => h sj hsj) rfl rfl hsi ((h si hsi).firstSeg d ntp)

/-! ### rotatePartsStream -/

theorem rotatePartsStream_noop {st : State} {si : Nat} (d : Int) (cn : Bool)
    (h : (st.stream si).nextPart = none ∨ (st.stream si).nextSegment = none) :
    rotatePartsStream st si d cn = st := by
  unfold rotatePartsStream
  rcases h with h | h
  · simp [h]
  · simp only [h]
    cases (st.stream si).nextPart <;> rfl

theorem Inv0.rotateParts {st : State} {si : Nat} (h : Inv0 st) (hsi : si < st.streams.length)
    (d : Int) (cn : Bool) : Inv0 (rotatePartsStream st si d cn) := by
  cases hp : (st.stream si).nextPart with
  | none => rw [rotatePartsStream_noop d cn (Or.inl hp)]; exact h
  | some p =>
  cases hg : (st.stream si).nextSegment with
  | none => rw [rotatePartsStream_noop d cn (Or.inr hg)]; exact h
  | some g =>
  obtain ⟨c, trk, pt, enc, heq⟩ := rotatePartsStream_spec d cn hp hg
  rw [heq]
  have hI := h.streams si hsi
  have hI' := hI.rotParts hg hp (part := { p with content := c, endDTS := d }) rfl cn d pt
  have hpid : p.id = (st.stream si).nextPartID := hI.partId p hp
  have hap : allParts (rotPartsS st.cfg (st.stream si) g { p with content := c, endDTS := d } cn d pt) =
      allParts (st.stream si) ++ (if st.cfg.variant = .ll then [{ p with content := c, endDTS := d }] else []) := by
    simp only [allParts, openParts, rotPartsS, partsSeg, hg]
    split <;> simp
  refine h.update rfl rfl hsi hI' ?_ ?_
  · by_cases hll : st.cfg.variant = .ll
    · refine h.paths.update rfl rfl hsi ?_ (fun k hk => ?_)
      · simp only [partsPaths, hll, if_true]
        exact nodup_keys_regPath (nodup_keys_regPath h.paths.1)
      · simp only [partsPaths, hll, if_true, mem_keys_regPath] at hk
        refine ⟨fun sj hks hj => ?_, fun hks => ?_⟩
        · rcases hk with rfl | rfl | hk
          · simp [keyStream] at hks; exact absurd hks.symm hj
          · simp [keyStream] at hks; exact absurd hks.symm hj
          · exact hk
        · rcases hk with rfl | rfl | hk
          · exact ⟨hll, Or.inr rfl⟩
          · refine ⟨hll, Or.inl ?_⟩
            rw [hap]; simp [hll]
          · have := h.paths.2 k hk
            unfold Allowed at this
            simp only [hks] at this
            have hA := this.2
            cases k with
            | seg s id => exact hA
            | part s id =>
              obtain ⟨_, hA⟩ := hA
              refine ⟨hll, Or.inl ?_⟩
              rw [hap]
              rcases hA with hA | hA
              · simp only [List.map_append, List.mem_append]; exact Or.inl hA
              · simp [hll, hA, hpid]
            | _ => trivial
    · have : partsPaths st.cfg st.paths si { p with content := c, endDTS := d } ((st.stream si).nextPartID + 1) = st.paths := by
        simp [partsPaths, hll]
      refine h.paths.update rfl rfl hsi (by simp only [this]; exact h.paths.1) (fun k hk => ?_)
      simp only [this] at hk
      refine ⟨fun _ _ _ => hk, fun hks => ?_⟩
      have := h.paths.2 k hk
      unfold Allowed at this
      simp only [hks] at this
      have hA := this.2
      cases k with
      | seg s id => exact hA
      | part s id => exact absurd hA.1 hll
      | _ => trivial
  · refine h.files.same rfl hsi rfl (fun id => ?_)
    simp only [FileIn, rotPartsS, hg, Option.some.injEq]
    have : (partsSeg st.cfg g { p with content := c, endDTS := d }).id = g.id := by
      simp only [partsSeg]; split <;> rfl
    constructor
    · rintro (hl | ⟨g', rfl, hid⟩)
      · exact Or.inl hl
      · exact Or.inr ⟨g, rfl, this ▸ hid⟩
    · rintro (hl | ⟨g', rfl, hid⟩)
      · exact Or.inl hl
      · exact Or.inr ⟨_, rfl, this ▸ hid⟩

theorem SyncAll.rotateParts_true {st : State} {si : Nat} (h : SyncAll st) (hsi : si < st.streams.length)
    (hv : st.cfg.variant ≠ .mpegts) (d : Int) : SyncAll (rotatePartsStream st si d true) := by
  cases hp : (st.stream si).nextPart with
  | none => rw [rotatePartsStream_noop d true (Or.inl hp)]; exact h
  | some p =>
  cases hg : (st.stream si).nextSegment with
  | none => rw [rotatePartsStream_noop d true (Or.inr hg)]; exact h
  | some g =>
  obtain ⟨c, trk, pt, enc, heq⟩ := rotatePartsStream_spec d true hp hg
  rw [heq]
  exact SyncAll.update (fun sj hsj _ => h sj hsj) rfl rfl hsi (PartSync.rotParts_true hv d pt)


/-! ### rotateSegmentsStream -/

theorem mem_seg_appended {cfg : Cfg} {segs : List Entry} {gf g' : Seg} :
    .seg g' ∈ appended cfg segs gf ↔ .seg g' ∈ segs ∨ g' = gf := by
  unfold appended
  split
  · rename_i h
    have : segs = [] := by simpa [List.isEmpty_iff] using h.2
    subst this
    simp [gaps]
  · simp

theorem mem_keys_foldl_unreg {si : Nat} {parts : List Part} {ps : List (PathKey × Handler)} {k : PathKey} :
    k ∈ keys (parts.foldl (fun ps p => unregPath ps (.part si p.id)) ps) ↔
      k ∈ keys ps ∧ ∀ p ∈ parts, k ≠ .part si p.id := by
  induction parts generalizing ps with
  | nil => simp
  | cons p r ih =>
    simp only [List.foldl_cons, ih, mem_keys_unregPath, List.mem_cons, forall_eq_or_imp]
    constructor
    · rintro ⟨⟨a, b⟩, c⟩; exact ⟨a, b, c⟩
    · rintro ⟨a, b, c⟩; exact ⟨⟨a, b⟩, c⟩

theorem nodup_keys_foldl_unreg {si : Nat} {parts : List Part} {ps : List (PathKey × Handler)}
    (h : (keys ps).Nodup) : (keys (parts.foldl (fun ps p => unregPath ps (.part si p.id)) ps)).Nodup := by
  induction parts generalizing ps with
  | nil => exact h
  | cons p r ih => exact ih (nodup_keys_unregPath h)

theorem rotSegCore_noop {st : State} {si : Nat} (d ntp : Int) (f : Bool)
    (h : (st.stream si).nextSegment = none) : rotSegCore st si d ntp f = st := by
  unfold rotSegCore; simp [h]

theorem mem_keys_dropPaths {si : Nat} {e : Entry} {ps : List (PathKey × Handler)} {k : PathKey} :
    k ∈ keys (dropPaths si e ps) ↔
      k ∈ keys ps ∧ ∀ old, e = .seg old → k ≠ .seg si old.id ∧ ∀ p ∈ old.parts, k ≠ .part si p.id := by
  cases e with
  | gap d => simp [dropPaths]
  | seg old =>
    simp only [dropPaths, mem_keys_unregPath, mem_keys_foldl_unreg, Entry.seg.injEq, forall_eq']
    constructor
    · rintro ⟨⟨a, b⟩, c⟩; exact ⟨a, c, b⟩
    · rintro ⟨a, c, b⟩; exact ⟨⟨a, b⟩, c⟩

theorem nodup_keys_dropPaths {si : Nat} {e : Entry} {ps : List (PathKey × Handler)} (h : (keys ps).Nodup) :
    (keys (dropPaths si e ps)).Nodup := by
  cases e with
  | gap d => exact h
  | seg old => exact nodup_keys_unregPath (nodup_keys_foldl_unreg h)

theorem mem_keys_initPaths {si : Nat} {regen : Bool} {pl : List Nat} {ps : List (PathKey × Handler)} {k : PathKey}
    (h : k ∈ keys (initPaths si regen pl ps)) : k = .init si ∨ k ∈ keys ps := by
  unfold initPaths at h
  split at h
  · exact mem_keys_regPath.mp h
  · exact Or.inr h

theorem nodup_keys_initPaths {si : Nat} {regen : Bool} {pl : List Nat} {ps : List (PathKey × Handler)}
    (h : (keys ps).Nodup) : (keys (initPaths si regen pl ps)).Nodup := by
  unfold initPaths
  split
  · exact nodup_keys_regPath h
  · exact h


/-- the real segment that leaves the window in this rotation, if any -/
def droppedSeg (cfg : Cfg) (app : List Entry) : Option Seg :=
  if overfull cfg app then
    match app.head? with
    | some (.seg old) => some old
    | _ => none
  else none

def windowAfter (cfg : Cfg) (app : List Entry) : List Entry := if overfull cfg app then app.tail else app

theorem windowAfter_sub {cfg : Cfg} {app : List Entry} {e : Entry} (h : e ∈ windowAfter cfg app) : e ∈ app := by
  unfold windowAfter at h
  split at h
  · exact List.mem_of_mem_tail h
  · exact h

theorem windowAfter_keep {cfg : Cfg} {app : List Entry} {g' : Seg} (h : .seg g' ∈ app)
    (hne : ∀ old, droppedSeg cfg app = some old → g' ≠ old) : .seg g' ∈ windowAfter cfg app := by
  unfold windowAfter droppedSeg at *
  by_cases hov : overfull cfg app
  · simp only [hov, if_true] at *
    rcases app with _ | ⟨(gd | old), rest⟩
    · simp at h
    · simpa using h
    · simp only [List.head?, List.tail] at *
      simp at h
      rcases h with h | h
      · exact absurd h (hne old rfl)
      · exact h
  · simpa [hov] using h

theorem windowAfter_parts {cfg : Cfg} {app : List Entry} :
    app.flatMap Entry.parts =
      (match droppedSeg cfg app with | some old => old.parts | none => []) ++
        (windowAfter cfg app).flatMap Entry.parts := by
  unfold windowAfter droppedSeg
  by_cases hov : overfull cfg app
  · simp only [hov, if_true]
    rcases app with _ | ⟨(gd | old), rest⟩ <;> simp [Entry.parts]
  · simp [hov]

theorem windowAfter_fresh {cfg : Cfg} {app : List Entry} {n : Nat} {old g' : Seg} (hm : MsnFrom n app)
    (hd : droppedSeg cfg app = some old) (hg : .seg g' ∈ windowAfter cfg app) : g'.id ≠ old.id := by
  unfold windowAfter droppedSeg at *
  by_cases hov : overfull cfg app
  · simp only [hov, if_true] at *
    rcases app with _ | ⟨(gd | old'), rest⟩
    · simp at hd
    · simp at hd
    · simp only [List.head?, Option.some.injEq] at hd
      subst hd
      simp only [List.tail] at hg
      have h1 : old'.id = n := hm.1
      have h2 := (MsnFrom.mem_seg hm.2 hg).1
      omega
  · simp [hov] at hd

theorem mem_keys_dropWindow {cfg : Cfg} {app : List Entry} {si : Nat} {ps : List (PathKey × Handler)} {k : PathKey} :
    k ∈ keys (if overfull cfg app then dropPaths si (app.head?.getD (.gap 0)) ps else ps) ↔
      k ∈ keys ps ∧ ∀ old, droppedSeg cfg app = some old →
        k ≠ .seg si old.id ∧ ∀ p ∈ old.parts, k ≠ .part si p.id := by
  unfold droppedSeg
  by_cases hov : overfull cfg app
  · simp only [hov, if_true, mem_keys_dropPaths]
    rcases app with _ | ⟨(gd | old), rest⟩ <;> simp
  · simp [hov]

theorem mem_dropWindow_files {cfg : Cfg} {app : List Entry} {si : Nat} {fs : List PathKey} {k : PathKey} :
    k ∈ (if overfull cfg app then dropFiles si (app.head?.getD (.gap 0)) fs else fs) ↔
      k ∈ fs ∧ ∀ old, droppedSeg cfg app = some old → k ≠ .seg si old.id := by
  unfold droppedSeg
  by_cases hov : overfull cfg app
  · simp only [hov, if_true]
    rcases app with _ | ⟨(gd | old), rest⟩ <;> simp [dropFiles]
  · simp [hov]

theorem nodup_dropWindow_files {cfg : Cfg} {app : List Entry} {si : Nat} {fs : List PathKey} (h : fs.Nodup) :
    (if overfull cfg app then dropFiles si (app.head?.getD (.gap 0)) fs else fs).Nodup := by
  split
  · unfold dropFiles
    split
    · exact h.sublist List.filter_sublist
    · exact h
  · exact h

theorem nodup_keys_dropWindow {cfg : Cfg} {app : List Entry} {si : Nat} {ps : List (PathKey × Handler)}
    (h : (keys ps).Nodup) :
    (keys (if overfull cfg app then dropPaths si (app.head?.getD (.gap 0)) ps else ps)).Nodup := by
  split
  · exact nodup_keys_dropPaths h
  · exact h


theorem rotSegS_segments (cfg : Cfg) (s : StreamSt) (g : Seg) (d ntp : Int) (ip fc : Bool) (td : Int) :
    (rotSegS cfg s g d ntp ip fc td).segments = windowAfter cfg (appended cfg s.segments { g with endDTS := d }) := rfl

theorem allParts_rotSegS (cfg : Cfg) (s : StreamSt) (g : Seg) (d ntp : Int) (ip fc : Bool) (td : Int) :
    allParts (rotSegS cfg s g d ntp ip fc td) =
      (windowAfter cfg (appended cfg s.segments { g with endDTS := d })).flatMap Entry.parts := by
  simp [allParts, openParts, rotSegS, windowAfter]

/-- a listed id is below the id of the open segment -/
theorem StreamInv.listed_lt {cfg : Cfg} {s : StreamSt} (h : StreamInv cfg s) {g : Seg} (hg : .seg g ∈ s.segments) :
    g.id < s.nextSegmentID := by
  have h1 := (h.msn.mem_seg hg).2
  have h2 := h.count (fun hc => by rw [hc.2] at hg; simp at hg)
  omega

theorem Inv0.rotSegCore {st : State} {si : Nat} (h : Inv0 st) (hsi : si < st.streams.length)
    (d ntp : Int) (f : Bool) : Inv0 (rotSegCore st si d ntp f) := by
  cases hg : (st.stream si).nextSegment with
  | none => rw [rotSegCore_noop d ntp f hg]; exact h
  | some g =>
  obtain ⟨ip, regen, pl, fc, td, enc, heq⟩ := rotSegCore_spec d ntp f hg
  dsimp only at heq
  rw [heq]
  have hI := h.streams si hsi
  have A := appFacts h.cfgOK hI hg d
  have hI' := hI.rotSeg h.cfgOK hg d ntp ip fc td
  have hseg := rotSegS_segments st.cfg (st.stream si) g d ntp ip fc td
  have hap := allParts_rotSegS st.cfg (st.stream si) g d ntp ip fc td
  have hmem := @mem_seg_appended st.cfg (st.stream si).segments { g with endDTS := d }
  have hW := @windowAfter_parts st.cfg (appended st.cfg (st.stream si).segments { g with endDTS := d })
  generalize appended st.cfg (st.stream si).segments { g with endDTS := d } = app at *
  have hgid : g.id = (st.stream si).nextSegmentID := hI.openId g hg
  refine h.update rfl rfl hsi hI' ?_ ?_
  · -- path table
    refine h.paths.update rfl rfl hsi ?_ (fun k hk => ?_)
    · exact nodup_keys_initPaths (nodup_keys_dropWindow (nodup_keys_regPath h.paths.1))
    · have hk' := mem_keys_initPaths hk
      rw [mem_keys_dropWindow, mem_keys_regPath] at hk'
      refine ⟨fun sj hks hj => ?_, fun hks => ?_⟩
      · rcases hk' with rfl | ⟨rfl | hk', _⟩
        · simp [keyStream] at hks; exact absurd hks.symm hj
        · simp [keyStream] at hks; exact absurd hks.symm hj
        · exact hk'
      · cases k with
        | index => trivial
        | playlist s => trivial
        | init s => trivial
        | seg s id =>
          rcases hk' with hk' | ⟨hk', hdrop⟩
          · cases hk'
          · show ∃ g', .seg g' ∈ (rotSegS st.cfg (st.stream si) g d ntp ip fc td).segments ∧ g'.id = id
            rw [hseg]
            have hs : s = si := by simpa [keyStream] using hks
            subst hs
            have : ∃ g', .seg g' ∈ app ∧ g'.id = id := by
              rcases hk' with hk' | hk'
              · cases hk'; exact ⟨_, hmem.mpr (Or.inr rfl), rfl⟩
              · have := h.paths.2 _ hk'
                unfold Allowed at this
                simp only [keyStream] at this
                obtain ⟨g', hg', hid⟩ := this.2
                exact ⟨g', hmem.mpr (Or.inl hg'), hid⟩
            obtain ⟨g', hg', hid⟩ := this
            refine ⟨g', windowAfter_keep hg' (fun old ho e => ?_), hid⟩
            subst e
            exact (hdrop g' ho).1 (by rw [hid])
        | part s id =>
          rcases hk' with hk' | ⟨hk', hdrop⟩
          · cases hk'
          · rcases hk' with hk' | hk'
            · cases hk'
            · have hs : s = si := by simpa [keyStream] using hks
              subst hs
              have := h.paths.2 _ hk'
              unfold Allowed at this
              simp only [keyStream] at this
              obtain ⟨hll, hA⟩ := this.2
              refine ⟨hll, ?_⟩
              rw [hap]
              rcases hA with hA | hA
              · left
                rw [← A.parts, hW, List.map_append, List.mem_append] at hA
                rcases hA with hA | hA
                · exfalso
                  cases ho : droppedSeg st.cfg app with
                  | none => simp [ho] at hA
                  | some old =>
                    simp only [ho, List.mem_map] at hA
                    obtain ⟨p, hp, hpid⟩ := hA
                    exact (hdrop old ho).2 p hp (by rw [hpid])
                · exact hA
              · right; exact hA
  · -- files
    refine h.files.update rfl hsi ?_ (fun k => ?_)
    · simp only
      rw [List.nodup_append]
      refine ⟨nodup_dropWindow_files h.files.1, by simp, ?_⟩
      intro a ha b hb
      simp at hb; subst hb
      intro e; subst e
      rw [mem_dropWindow_files] at ha
      obtain ⟨sj, id, he, _, hin⟩ := (h.files.2 _).mp ha.1
      cases he
      rcases hin with ⟨g', hg', hid⟩ | ⟨g', hg', hid⟩
      · have := hI.listed_lt hg'; omega
      · rw [hg] at hg'; cases hg'; omega
    · simp only [List.mem_append, List.mem_singleton, mem_dropWindow_files]
      constructor
      · rintro (⟨hk, hdrop⟩ | rfl)
        · obtain ⟨sj, id, rfl, hsj, hin⟩ := (h.files.2 k).mp hk
          by_cases hj : sj = si
          · subst hj
            right
            refine ⟨id, rfl, Or.inl ?_⟩
            rw [hseg]
            have : ∃ g', .seg g' ∈ app ∧ g'.id = id := by
              rcases hin with ⟨g', hg', hid⟩ | ⟨g', hg', hid⟩
              · exact ⟨g', hmem.mpr (Or.inl hg'), hid⟩
              · rw [hg] at hg'; cases hg'
                exact ⟨_, hmem.mpr (Or.inr rfl), hid⟩
            obtain ⟨g', hg', hid⟩ := this
            refine ⟨g', windowAfter_keep hg' (fun old ho e => ?_), hid⟩
            subst e
            exact hdrop g' ho (by rw [hid])
          · exact Or.inl ⟨hk, fun id' e => hj (by cases e; rfl)⟩
        · exact Or.inr ⟨_, rfl, Or.inr ⟨_, rfl, rfl⟩⟩
      · rintro (⟨hk, hne⟩ | ⟨id, rfl, hin⟩)
        · exact Or.inl ⟨hk, fun old _ => hne old.id⟩
        · rcases hin with ⟨g', hg', hid⟩ | ⟨g', hg', hid⟩
          · left
            rw [hseg] at hg'
            have hin' : FileIn (st.stream si) id := by
              rcases hmem.mp (windowAfter_sub hg') with hm | hm
              · exact Or.inl ⟨g', hm, hid⟩
              · subst hm; exact Or.inr ⟨g, hg, hid⟩
            refine ⟨(h.files.2 _).mpr ⟨si, id, rfl, hsi, hin'⟩, fun old ho e => ?_⟩
            cases e
            exact windowAfter_fresh A.msn ho hg' hid
          · simp only [rotSegS, Option.some.injEq] at hg'
            subst hg'; right; rw [← hid]


theorem rotatePartsStream_cfg (st : State) (si : Nat) (d : Int) (cn : Bool) :
    (rotatePartsStream st si d cn).cfg = st.cfg ∧
    (rotatePartsStream st si d cn).streams.length = st.streams.length ∧
    (∀ sj, sj ≠ si → (rotatePartsStream st si d cn).stream sj = st.stream sj) ∧
    (rotatePartsStream st si d cn).files = st.files := by
  cases hp : (st.stream si).nextPart with
  | none => rw [rotatePartsStream_noop d cn (Or.inl hp)]; exact ⟨rfl, rfl, fun _ _ => rfl, rfl⟩
  | some p =>
  cases hg : (st.stream si).nextSegment with
  | none => rw [rotatePartsStream_noop d cn (Or.inr hg)]; exact ⟨rfl, rfl, fun _ _ => rfl, rfl⟩
  | some g =>
  obtain ⟨c, trk, pt, enc, heq⟩ := rotatePartsStream_spec d cn hp hg
  rw [heq]
  exact ⟨rfl, by simp, fun sj hj => stream_of_set_ne rfl hj, rfl⟩

theorem rotSegCore_cfg (st : State) (si : Nat) (d ntp : Int) (f : Bool) :
    (rotSegCore st si d ntp f).cfg = st.cfg ∧
    (rotSegCore st si d ntp f).streams.length = st.streams.length ∧
    (∀ sj, sj ≠ si → (rotSegCore st si d ntp f).stream sj = st.stream sj) ∧
    (rotSegCore st si d ntp f).tracks = st.tracks := by
  cases hg : (st.stream si).nextSegment with
  | none => rw [rotSegCore_noop d ntp f hg]; exact ⟨rfl, rfl, fun _ _ => rfl, rfl⟩
  | some g =>
  obtain ⟨ip, regen, pl, fc, td, enc, heq⟩ := rotSegCore_spec d ntp f hg
  dsimp only at heq
  rw [heq]
  exact ⟨rfl, by simp, fun sj hj => stream_of_set_ne rfl hj, rfl⟩

theorem rotateSegmentsStream_cfg (st : State) (si : Nat) (d ntp : Int) (f : Bool) :
    (rotateSegmentsStream st si d ntp f).cfg = st.cfg ∧
    (rotateSegmentsStream st si d ntp f).streams.length = st.streams.length ∧
    (∀ sj, sj ≠ si → (rotateSegmentsStream st si d ntp f).stream sj = st.stream sj) := by
  rw [rotateSegmentsStream_eq]
  obtain ⟨b1, b2, b3, _⟩ := rotatePartsStream_cfg st si d false
  by_cases hv : st.cfg.variant ≠ .mpegts
  · rw [if_pos hv]
    obtain ⟨a1, a2, a3, _⟩ := rotSegCore_cfg (rotatePartsStream st si d false) si d ntp f
    exact ⟨a1.trans b1, a2.trans b2, fun sj hj => (a3 sj hj).trans (b3 sj hj)⟩
  · rw [if_neg hv]
    obtain ⟨a1, a2, a3, _⟩ := rotSegCore_cfg st si d ntp f
    exact ⟨a1, a2, a3⟩

theorem Inv0.rotateSegmentsStream {st : State} {si : Nat} (h : Inv0 st) (hsi : si < st.streams.length)
    (d ntp : Int) (f : Bool) : Inv0 (rotateSegmentsStream st si d ntp f) := by
  rw [rotateSegmentsStream_eq]
  split
  · exact (h.rotateParts hsi d false).rotSegCore (by rw [(rotatePartsStream_cfg st si d false).2.1]; exact hsi) d ntp f
  · exact h.rotSegCore hsi d ntp f

theorem SyncAll.rotSegCore {st : State} {si : Nat}
    (h : ∀ sj, sj < st.streams.length → sj ≠ si → PartSync st.cfg (st.stream sj))
    (hsi : si < st.streams.length)
    (hself : (st.stream si).nextSegment = none → PartSync st.cfg (st.stream si))
    (d ntp : Int) (f : Bool) : SyncAll (rotSegCore st si d ntp f) := by
  cases hg : (st.stream si).nextSegment with
  | none =>
    rw [rotSegCore_noop d ntp f hg]
    intro sj hsj
    by_cases hj : sj = si
    · subst hj; exact hself hg
    · exact h sj hsj hj
  | some g =>
  obtain ⟨ip, regen, pl, fc, td, enc, heq⟩ := rotSegCore_spec d ntp f hg
  dsimp only at heq
  rw [heq]
  exact SyncAll.update h rfl rfl hsi (PartSync.rotSeg _ _ _ _ _ _ _ _)

theorem SyncAll.rotateSegmentsStream {st : State} {si : Nat} (h : SyncAll st) (hsi : si < st.streams.length)
    (d ntp : Int) (f : Bool) : SyncAll (rotateSegmentsStream st si d ntp f) := by
  rw [rotateSegmentsStream_eq]
  split
  · rename_i hv
    obtain ⟨b1, b2, b3, _⟩ := rotatePartsStream_cfg st si d false
    refine SyncAll.rotSegCore (fun sj hsj hj => ?_) (by rw [b2]; exact hsi) (fun hn => ?_) d ntp f
    · rw [b1, b3 sj hj]; rw [b2] at hsj; exact h sj hsj
    · -- the open segment survives rotateParts, so `none` afterwards means `none` before: nothing happened
      cases hp : (st.stream si).nextPart with
      | none => rw [rotatePartsStream_noop d false (Or.inl hp)]; exact h si hsi
      | some p =>
      cases hg : (st.stream si).nextSegment with
      | none => rw [rotatePartsStream_noop d false (Or.inr hg)]; exact h si hsi
      | some g =>
        exfalso
        obtain ⟨c, trk, pt, enc, heq⟩ := rotatePartsStream_spec d false hp hg
        rw [heq, stream_of_set rfl hsi] at hn
        simp [rotPartsS] at hn
  · exact SyncAll.rotSegCore (fun sj hsj _ => h sj hsj) hsi (fun _ => h si hsi) d ntp f

/-! ### writes into the open segment, target durations -/

theorem Inv0.setSame {st : State} {si : Nat} {s' : StreamSt} (h : Inv0 st) (hsi : si < st.streams.length)
    (h1 : s'.segments = (st.stream si).segments) (h2 : s'.nextSegment = (st.stream si).nextSegment)
    (h3 : s'.nextPart = (st.stream si).nextPart) (h4 : s'.nextSegmentID = (st.stream si).nextSegmentID)
    (h5 : s'.nextPartID = (st.stream si).nextPartID) (h6 : s'.deleteCount = (st.stream si).deleteCount) :
    Inv0 (st.setStream si s') := by
  have hap : allParts s' = allParts (st.stream si) := by simp [allParts, openParts, h1, h2]
  refine h.update rfl rfl hsi ((h.streams si hsi).congr h1 h2 h3 h4 h5 h6) ?_ ?_
  · exact h.paths.same rfl rfl hsi rfl h1 hap h5
  · exact h.files.same rfl hsi rfl (fun id => by simp [FileIn, h1, h2])

theorem SyncAll.setSame {st : State} {si : Nat} {s' : StreamSt} (h : SyncAll st) (hsi : si < st.streams.length)
    (h2 : s'.nextSegment = (st.stream si).nextSegment) (h3 : s'.nextPart = (st.stream si).nextPart) :
    SyncAll (st.setStream si s') :=
  SyncAll.update (fun sj hsj _ => h sj hsj) rfl rfl hsi ((h si hsi).congr h2 h3)

theorem Inv0.tracks {st : State} (h : Inv0 st) (trk : List TrackSt) : Inv0 { st with tracks := trk } :=
  ⟨h.cfgOK, h.streams, h.paths, h.files⟩

theorem Inv0.openWrite {st : State} {si : Nat} {g g' : Seg} {np : Option Part} {trk : List TrackSt} (h : Inv0 st)
    (hsi : si < st.streams.length) (hg : (st.stream si).nextSegment = some g) (hid : g'.id = g.id)
    (hparts : g'.parts = g.parts) (hstart : g'.startDTS = g.startDTS) (hsize : g'.size ≤ st.cfg.segmentMaxSize)
    (hnp : ∀ p, np = some p → p.id = (st.stream si).nextPartID) :
    Inv0 { st with tracks := trk
                   streams := st.streams.set si { (st.stream si) with nextSegment := some g', nextPart := np } } := by
  have hI := (h.streams si hsi).openUpd hg hid hparts hstart hsize hnp
  refine h.update rfl rfl hsi hI ?_ ?_
  · refine h.paths.same rfl rfl hsi rfl rfl ?_ rfl
    simp [allParts, openParts, hg, hparts]
  · refine h.files.same rfl hsi rfl (fun id => ?_)
    simp only [FileIn, hg, Option.some.injEq]
    constructor
    · rintro (hl | ⟨g'', rfl, hid'⟩)
      · exact Or.inl hl
      · exact Or.inr ⟨g, rfl, hid ▸ hid'⟩
    · rintro (hl | ⟨g'', rfl, hid'⟩)
      · exact Or.inl hl
      · exact Or.inr ⟨g', rfl, hid.trans hid'⟩

theorem Inv0.partWriteSample {st : State} (h : Inv0 st) (ti : Nat) (smp : Sample) :
    Inv0 (partWriteSample st ti smp).1 := by
  rcases partWriteSample_spec st ti smp with ⟨g, p, hg, hp, hsz, trk, indep, heq⟩ | ⟨heq, _⟩
  · rw [heq]
    by_cases hsi : st.streamOf ti < st.streams.length
    · simp only [partWriteS]
      refine h.openWrite hsi hg rfl rfl rfl hsz ?_
      intro p' hp'; cases hp'
      have := (h.streams _ hsi).partId p hp
      split <;> exact this
    · have : st.streams.set (st.streamOf ti) (partWriteS (st.stream (st.streamOf ti)) g p smp.size indep) = st.streams := by
        rw [List.set_eq_of_length_le (by omega)]
      simp only [this]
      exact h.tracks trk
  · rw [heq]; exact h

theorem SyncAll.partWriteSample {st : State} (h : SyncAll st) (ti : Nat) (smp : Sample) :
    SyncAll (partWriteSample st ti smp).1 := by
  rcases partWriteSample_spec st ti smp with ⟨g, p, hg, hp, hsz, trk, indep, heq⟩ | ⟨heq, _⟩
  · rw [heq]
    by_cases hsi : st.streamOf ti < st.streams.length
    · exact SyncAll.update (st := st) (fun sj hsj _ => h sj hsj) rfl rfl hsi ((h _ hsi).partWrite hg hp _ _)
    · have : st.streams.set (st.streamOf ti) (partWriteS (st.stream (st.streamOf ti)) g p smp.size indep) = st.streams := by
        rw [List.set_eq_of_length_le (by omega)]
      simp only [this]
      exact h
  · rw [heq]; exact h

theorem Inv0.tsWrite {st : State} (h : Inv0 st) (u : TsUnit) (size : Nat) (e : Option Int) (cnt : Bool) :
    Inv0 (tsWrite st u size e cnt).1 := by
  rcases tsWrite_spec st u size e cnt with ⟨g, hg, hsz, g', hid, hstart, hsize, hparts, heq⟩ | ⟨heq, _⟩
  · rw [heq]
    by_cases hsi : 0 < st.streams.length
    · have := h.openWrite (trk := st.tracks) (np := (st.stream 0).nextPart) hsi hg hid hparts hstart (by omega)
        (fun p hp => (h.streams 0 hsi).partId p hp)
      exact this
    · have : st.streams = [] := List.eq_nil_of_length_eq_zero (by omega)
      simp only [this, List.set_nil]
      rw [← this]; exact h
  · rw [heq]; exact h

theorem SyncAll.tsWrite {st : State} (h : SyncAll st) (u : TsUnit) (size : Nat) (e : Option Int) (cnt : Bool) :
    SyncAll (tsWrite st u size e cnt).1 := by
  rcases tsWrite_spec st u size e cnt with ⟨g, hg, hsz, g', hid, _, hsize, hparts, heq⟩ | ⟨heq, _⟩
  · rw [heq]
    by_cases hsi : 0 < st.streams.length
    · refine SyncAll.update (st := st) (fun sj hsj _ => h sj hsj) rfl rfl hsi ?_
      have := h 0 hsi
      unfold PartSync at *
      split <;> simp_all
    · have : st.streams = [] := List.eq_nil_of_length_eq_zero (by omega)
      simp only [this, List.set_nil]
      rw [← this]; exact h
  · rw [heq]; exact h

end Hls.Muxer
