import Hls.Muxer.AcceptFront
/-!
# C01 helper lemmas, part 11: MPEG-TS — history of finished segments ++ open segment = `acceptedTs` (`ts_main`)
-/
set_option linter.unusedSimpArgs false
set_option linter.unusedVariables false
namespace Hls.Muxer.Accept
open Hls.Muxer

/-- shape of an MPEG-TS muxer state: one stream, leading, carrying all `n` tracks -/
structure ShapeT (st : State) (n : Nat) : Prop where
  var  : st.cfg.variant = .mpegts
  ntr  : st.tracks.length = n
  ncf  : st.cfg.tracks.length = n
  nst  : st.streams.length = 1
  lead : (st.stream 0).isLeading = true
  cnt  : 1 ≤ st.cfg.segmentCount

/-- the part of the state C01 looks at, MPEG-TS -/
structure AbsT where
  hasSeg : Bool
  units  : List TsUnit
  segId  : Nat
  last   : List TsUnit

def absT (st : State) : AbsT :=
  { hasSeg := (st.stream 0).nextSegment.isSome, units := tsOpen st, segId := (st.stream 0).nextSegmentID,
    last := (lastSeg (st.stream 0).segments).flatMap (·.tsUnits) }

theorem leadingStream_T {st : State} {n : Nat} (h : ShapeT st n) : st.leadingStream = 0 := by
  have h0 : 0 < st.streams.length := by rw [h.nst]; exact Nat.one_pos
  have : st.streams.findIdx? (·.isLeading) = some 0 := by
    rw [List.findIdx?_eq_some_iff_getElem]
    refine ⟨h0, ?_, fun j hj => absurd hj (Nat.not_lt_zero j)⟩
    rw [← stream_eq_getElem st 0 h0]; exact h.lead
  simp [State.leadingStream, this]

/-- `rotateSegments` on an MPEG-TS muxer -/
theorem rotateSegments_T {st : State} {n : Nat} (h : ShapeT st n) (d ntp : Int) (f : Bool) :
    ShapeT (rotateSegments st d ntp f) n ∧ (rotateSegments st d ntp f).tracks = st.tracks ∧
    (rotateSegments st d ntp f).cfg = st.cfg ∧
    absT (rotateSegments st d ntp f) =
      (if (absT st).hasSeg then { hasSeg := true, units := [], segId := (absT st).segId + 1, last := (absT st).units }
       else absT st) := by
  have h0 : 0 < st.streams.length := by rw [h.nst]; exact Nat.one_pos
  have e1 : rotateSegmentsStream st 0 d ntp f = rotSegTail st 0 d ntp f := by
    rw [rotateSegmentsStream_eq]; simp [h.var]
  -- the single-stream form
  have key : ShapeT (rotSegTail st 0 d ntp f) n ∧ (rotSegTail st 0 d ntp f).tracks = st.tracks ∧
      (rotSegTail st 0 d ntp f).cfg = st.cfg ∧
      absT (rotSegTail st 0 d ntp f) =
        (if (absT st).hasSeg then { hasSeg := true, units := [], segId := (absT st).segId + 1, last := (absT st).units }
         else absT st) := by
    unfold rotSegTail
    cases hg : (st.stream 0).nextSegment with
    | none => exact ⟨h, rfl, rfl, by simp [absT, hg]⟩
    | some seg0 =>
      simp only []
      refine ⟨⟨by simpa using h.var, by simpa using h.ntr, by simpa using h.ncf, by simpa using h.nst, ?_, by simpa using h.cnt⟩,
        by simp, by simp, ?_⟩
      · simp [h0, h.lead]
      · simp [absT, tsOpen, h0, hg, lastSeg_trim, h.cnt, h.var]
  unfold rotateSegments
  rw [leadingStream_T h]
  simp only []
  rw [e1]
  have hlen : (rotSegTail st 0 d ntp f).streams.length = 1 := key.1.nst
  rw [hlen]
  simp only [List.range_one, List.foldl_cons, List.foldl_nil, key.1.lead, if_true]
  exact key

theorem createFirstSegment_T {st : State} {n : Nat} (h : ShapeT st n) (d ntp : Int) :
    ShapeT (createFirstSegment st d ntp) n ∧ (createFirstSegment st d ntp).tracks = st.tracks ∧
    (createFirstSegment st d ntp).cfg = st.cfg ∧
    absT (createFirstSegment st d ntp) = { hasSeg := true, units := [], segId := (absT st).segId, last := (absT st).last } := by
  have h0 : 0 < st.streams.length := by rw [h.nst]; exact Nat.one_pos
  have e : createFirstSegment st d ntp =
      withPE (st.setStream 0 { (st.stream 0) with
          nextSegment := some { id := (st.stream 0).nextSegmentID, startDTS := d, startNTP := ntp } })
        st.paths (st.files ++ [.seg 0 (st.stream 0).nextSegmentID]) st.encErrs := by
    unfold createFirstSegment
    rw [h.nst]
    simp only [List.range_one, List.foldl_cons, List.foldl_nil]
    unfold createFirstSegmentStream
    simp only [h.var]
    rfl
  rw [e]
  refine ⟨⟨by simpa using h.var, by simpa using h.ntr, by simpa using h.ncf, by simpa using h.nst, ?_, by simpa using h.cnt⟩,
    by simp, by simp, ?_⟩
  · simp [h0, h.lead]
  · simp [absT, tsOpen, h0]

theorem tsWrite_T {st st' : State} {n : Nat} (h : ShapeT st n) (u : TsUnit) (size : Nat) (e : Option Int) (c : Bool)
    (hr : tsWrite st u size e c = (st', .ok)) :
    ShapeT st' n ∧ st'.tracks = st.tracks ∧ st'.cfg = st.cfg ∧ (absT st).hasSeg = true ∧
    absT st' = { (absT st) with units := (absT st).units ++ [u] } := by
  have h0 : 0 < st.streams.length := by rw [h.nst]; exact Nat.one_pos
  unfold tsWrite at hr
  cases hg : (st.stream 0).nextSegment with
  | none => simp [hg] at hr
  | some seg =>
    simp only [hg] at hr
    split at hr
    · simp at hr
    · simp only [Prod.mk.injEq, and_true] at hr
      subst hr
      refine ⟨⟨h.var, h.ntr, h.ncf, by simpa using h.nst, ?_, h.cnt⟩, rfl, rfl, by simp [absT, hg], ?_⟩
      · simp [h0, h.lead]
      · cases c <;> cases e <;> simp [absT, tsOpen, h0, hg]

def luOf (log : List Seg) : List TsUnit := log.flatMap (·.tsUnits)

theorem luOf_obs (st st' : State) (log : List Seg) :
    luOf (obs 0 st st' log) = if (absT st').segId ≠ (absT st).segId then luOf log ++ (absT st').last else luOf log := by
  unfold obs luOf
  simp only [absT]
  by_cases h : (st'.stream 0).nextSegmentID ≠ (st.stream 0).nextSegmentID
  · simp only [if_pos h]; simp [h]
  · simp only [if_neg h]; simp [h]

/-- MPEG-TS: history ++ open segment against the scan of the spec -/
structure TsInv (st : State) (n : Nat) (lu : List TsUnit) (sp : ScanTs) : Prop where
  shape : ShapeT st n
  seg   : (absT st).hasSeg = sp.started
  ra    : ∀ k, k < n → (trackCfg st.cfg k).codec.isVideo = true → (st.track k).firstRA = sp.seenRA.contains k
  out   : lu ++ (absT st).units = sp.out

/-- the leading track's "first segment / switch segment" step -/
def openOrRotate (st : State) (nd ntp : Int) (cond : Seg → Bool) : State :=
  match (st.stream 0).nextSegment with
  | none => createFirstSegment st nd ntp
  | some seg => if cond seg then rotateSegments st nd ntp false else st

theorem openOrRotate_T {st : State} {n : Nat} (h : ShapeT st n) (nd ntp : Int) (cond : Seg → Bool) (lu : List TsUnit) :
    ShapeT (openOrRotate st nd ntp cond) n ∧ (openOrRotate st nd ntp cond).tracks = st.tracks ∧
    (openOrRotate st nd ntp cond).cfg = st.cfg ∧ (absT (openOrRotate st nd ntp cond)).hasSeg = true ∧
    (if (absT (openOrRotate st nd ntp cond)).segId ≠ (absT st).segId then lu ++ (absT (openOrRotate st nd ntp cond)).last else lu)
      ++ (absT (openOrRotate st nd ntp cond)).units = lu ++ (absT st).units := by
  unfold openOrRotate
  cases hg : (st.stream 0).nextSegment with
  | none =>
    obtain ⟨a, b, c, d⟩ := createFirstSegment_T h nd ntp
    simp only []
    refine ⟨a, b, c, by rw [d], ?_⟩
    rw [d]; simp [absT, tsOpen, hg]
  | some seg =>
    simp only []
    by_cases hc : cond seg = true
    · rw [if_pos hc]
      obtain ⟨a, b, c, d⟩ := rotateSegments_T h nd ntp false
      have hs : (absT st).hasSeg = true := by simp [absT, hg]
      rw [hs, if_pos rfl] at d
      refine ⟨a, b, c, by rw [d], ?_⟩
      rw [d]; simp
    · rw [if_neg hc]
      exact ⟨h, rfl, rfl, by simp [absT, hg], by simp⟩

/-- `st'` differs from `st` only in track records; `firstRA` of track `ti` may have been set -/
structure TrackOnly (st st' : State) (ti : Nat) (set : Bool) : Prop where
  streams : st'.streams = st.streams
  cfg : st'.cfg = st.cfg
  len : st'.tracks.length = st.tracks.length
  ra : ∀ k, (st'.track k).firstRA = if k = ti ∧ set = true then true else (st.track k).firstRA

theorem TrackOnly.refl (st : State) (ti : Nat) : TrackOnly st st ti false :=
  ⟨rfl, rfl, rfl, fun k => by simp⟩

theorem TrackOnly.trans {a b c : State} {ti : Nat} {s1 s2 : Bool} (h1 : TrackOnly a b ti s1) (h2 : TrackOnly b c ti s2) :
    TrackOnly a c ti (s1 || s2) :=
  ⟨h2.streams.trans h1.streams, h2.cfg.trans h1.cfg, h2.len.trans h1.len, fun k => by
    rw [h2.ra k, h1.ra k]
    by_cases e : k = ti <;> cases s1 <;> cases s2 <;> simp [e]⟩

theorem setTrack_trackOnly (st : State) (ti : Nat) (x : TrackSt) (hti : ti < st.tracks.length) (set : Bool)
    (hx : x.firstRA = if set then true else (st.track ti).firstRA) : TrackOnly st (st.setTrack ti x) ti set := by
  refine ⟨rfl, rfl, by simp, fun k => ?_⟩
  by_cases e : k = ti
  · subst e; simp only [track_setTrack_self _ _ _ hti, hx, true_and]
  · simp [e, Ne.symm e]

theorem pending_trackOnly (st : State) (ti : Nat) (b : Bool) : TrackOnly st { st with pending := b } ti false :=
  ⟨rfl, rfl, rfl, fun k => by simp; rfl⟩

theorem params_trackOnly (st : State) (ti : Nat) (hti : ti < st.tracks.length) (par : Nat) :
    TrackOnly st
      (if par ≠ 0 ∧ par ≠ (st.track ti).params then
        { (st.setTrack ti { (st.track ti) with params := par }) with pending := true } else st) ti false := by
  split
  · exact (setTrack_trackOnly st ti { (st.track ti) with params := par } hti false (by simp)).trans
      (pending_trackOnly _ ti true)
  · exact TrackOnly.refl st ti

theorem paramsStep_trackOnly (st : State) (ti : Nat) (hti : ti < st.tracks.length) (par : Nat) (ra : Bool) :
    TrackOnly st (paramsStep st ti par ra).1 ti false := by
  unfold paramsStep
  have s1 := params_trackOnly st ti hti par
  simp only []
  generalize (if par ≠ 0 ∧ par ≠ (st.track ti).params then
        { (st.setTrack ti { (st.track ti) with params := par }) with pending := true } else st) = st1 at s1 ⊢
  by_cases c : (ra && st1.pending) = true
  · rw [if_pos c]; exact s1.trans (pending_trackOnly _ ti false)
  · rw [if_neg c]; exact s1

theorem absT_congr {a b : State} (h : b.streams = a.streams) : absT b = absT a := by
  simp [absT, tsOpen, State.stream, h]

theorem ShapeT.of_trackOnly {st st' : State} {n ti : Nat} {set : Bool} (h : ShapeT st n) (t : TrackOnly st st' ti set) :
    ShapeT st' n :=
  ⟨by rw [t.cfg]; exact h.var, by rw [t.len]; exact h.ntr, by rw [t.cfg]; exact h.ncf, by rw [t.streams]; exact h.nst,
   by simp only [State.stream, t.streams]; exact h.lead, by rw [t.cfg]; exact h.cnt⟩

theorem contains_cons_self (k : Nat) (l : List Nat) : (k :: l).contains k = true := by simp [List.contains_cons]

/-- the common tail of both MPEG-TS front ends: (maybe) first segment / switch, then write-through -/
theorem ts_tail {st st4 st5 st' : State} {n : Nat} {lu : List TsUnit} {sp : ScanTs} (g : TsInv st n lu sp)
    (ti : Nat) (set : Bool) (tr : TrackOnly st st4 ti set) (nd ntp : Int) (cond : Seg → Bool)
    (u : TsUnit) (size : Nat) (e : Option Int) (c : Bool)
    (h5 : st5 = openOrRotate st4 nd ntp cond ∨ (st5 = st4 ∧ sp.started = true))
    (hr : tsWrite st5 u size e c = (st', .ok))
    (seen' : List Nat)
    (hra : ∀ k, k < n → (trackCfg st.cfg k).codec.isVideo = true →
      (if k = ti ∧ set = true then true else sp.seenRA.contains k) = seen'.contains k) :
    TsInv st' n (if (absT st').segId ≠ (absT st).segId then lu ++ (absT st').last else lu)
      { seenRA := seen', started := true, out := sp.out ++ [u] } ∧ st'.cfg = st.cfg := by
  have h4 := g.shape.of_trackOnly tr
  have a4 : absT st4 = absT st := absT_congr tr.streams
  obtain ⟨h5', t5, c5, s5, o5⟩ : ShapeT st5 n ∧ st5.tracks = st4.tracks ∧ st5.cfg = st4.cfg ∧
      (absT st5).hasSeg = true ∧
      (if (absT st5).segId ≠ (absT st).segId then lu ++ (absT st5).last else lu) ++ (absT st5).units
        = lu ++ (absT st).units := by
    rcases h5 with h5 | ⟨h5, hst⟩
    · subst h5
      have := openOrRotate_T h4 nd ntp cond lu
      rw [a4] at this
      exact this
    · subst h5
      refine ⟨h4, rfl, rfl, ?_, by rw [a4]; simp⟩
      rw [a4, g.seg]; exact hst
  obtain ⟨h6, t6, c6, _, a6⟩ := tsWrite_T h5' u size e c hr
  have htr : ∀ k, st'.track k = st4.track k := by
    intro k; simp only [State.track, t6, t5]
  refine ⟨⟨h6, by rw [a6]; exact s5, ?_, ?_⟩, by rw [c6, c5, tr.cfg]⟩
  · intro k hk hv
    rw [c6, c5, tr.cfg] at hv
    rw [htr k, tr.ra k, g.ra k hk hv]
    exact hra k hk hv
  · rw [a6]
    simp only []
    rw [← List.append_assoc, o5, g.out]

theorem scanTs_video_nopic (cfg : Cfg) (sp : ScanTs) (op : WriteOp)
    (hv : (trackCfg cfg op.track).codec.isVideo = true) (hpic : (!op.ra && !op.pic) = true) :
    scanTsOp cfg sp op = sp := by
  unfold scanTsOp
  simp only [hv, if_true, hpic]

theorem scanTs_video_gate (cfg : Cfg) (sp : ScanTs) (op : WriteOp)
    (hv : (trackCfg cfg op.track).codec.isVideo = true)
    (hgate : (!sp.seenRA.contains op.track && !op.ra) = true) :
    scanTsOp cfg sp op = sp := by
  unfold scanTsOp
  simp only [hv, if_true]
  split
  · rfl
  · have : (!op.ra && !sp.seenRA.contains op.track) = true := by rw [Bool.and_comm]; exact hgate
    rw [if_pos this]

theorem scanTs_video_pass (cfg : Cfg) (sp : ScanTs) (op : WriteOp)
    (hv : (trackCfg cfg op.track).codec.isVideo = true) (hpic : ¬ (!op.ra && !op.pic) = true)
    (hgate : ¬ (!sp.seenRA.contains op.track && !op.ra) = true) :
    scanTsOp cfg sp op = ScanTs.mk (op.track :: sp.seenRA) true
      (sp.out ++ [TsUnit.mk op.track (Hls.Gen.multiplyAndDivide op.pts 90000 (trackCfg cfg op.track).clockRate)
        (Hls.Gen.multiplyAndDivide op.dts 90000 (trackCfg cfg op.track).clockRate) [op.pays.headD 0]]) := by
  unfold scanTsOp
  simp only [hv, if_true]
  rw [if_neg hpic]
  have : ¬ (!op.ra && !sp.seenRA.contains op.track) = true := by rw [Bool.and_comm]; exact hgate
  rw [if_neg this]

theorem scanTs_audio (cfg : Cfg) (sp : ScanTs) (op : WriteOp)
    (hv : (trackCfg cfg op.track).codec.isVideo = false) :
    scanTsOp cfg sp op =
      if op.track ≠ leadOf cfg ∧ (!sp.started) = true then sp
      else ScanTs.mk sp.seenRA (sp.started || decide (op.track = leadOf cfg))
        (sp.out ++ [TsUnit.mk op.track (Hls.Gen.multiplyAndDivide op.pts 90000 (trackCfg cfg op.track).clockRate)
          (Hls.Gen.multiplyAndDivide op.pts 90000 (trackCfg cfg op.track).clockRate) op.pays]) := by
  unfold scanTsOp
  simp only [hv, Bool.false_eq_true, if_false]

/-- what one MPEG-TS write must establish -/
def SimTs (n : Nat) (st : State) (log : List Seg) (sp : ScanTs) (op : WriteOp) : Prop :=
  writeLog 0 st log op = ((write st op).1, obs 0 st (write st op).1 log, (write st op).2) ∧
  TsInv (write st op).1 n (luOf (obs 0 st (write st op).1 log)) (scanTsOp st.cfg sp op) ∧ (write st op).1.cfg = st.cfg

theorem TsInv.trackOnly {st st2 : State} {n ti : Nat} {lu : List TsUnit} {sp : ScanTs} (g : TsInv st n lu sp)
    (tr : TrackOnly st st2 ti false) : TsInv st2 n lu sp ∧ (absT st2).segId = (absT st).segId := by
  have a2 : absT st2 = absT st := absT_congr tr.streams
  refine ⟨⟨g.shape.of_trackOnly tr, by rw [a2]; exact g.seg, fun k hk hv => ?_, by rw [a2]; exact g.out⟩, by rw [a2]⟩
  rw [tr.cfg] at hv
  rw [tr.ra k]; simpa using g.ra k hk hv

theorem write_ts_h264 {n : Nat} (st : State) (log : List Seg) (sp : ScanTs) (op : WriteOp)
    (hop : op.track < n) (g : TsInv st n (luOf log) sp)
    (hc : (st.tcfg op.track).codec = .h264) (hok : (write st op).2 = .ok) : SimTs n st log sp op := by
  have htc : trackCfg st.cfg op.track = st.tcfg op.track := rfl
  have hti : op.track < st.tracks.length := by rw [g.shape.ntr]; exact hop
  have hv : (trackCfg st.cfg op.track).codec.isVideo = true := by rw [htc, hc]; rfl
  have hwl : writeLog 0 st log op = ((write st op).1, obs 0 st (write st op).1 log, (write st op).2) := by
    unfold writeLog; simp only [hc]
  refine ⟨hwl, ?_⟩
  rw [luOf_obs]
  cases hwr : write st op with
  | mk st' res =>
  rw [hwr] at hok
  simp only at hok
  subst hok
  simp only []
  by_cases hpic : (!op.ra && !op.pic) = true
  · have hw : write st op =
        ((if op.par ≠ 0 ∧ op.par ≠ (st.track op.track).params then
            { (st.setTrack op.track { (st.track op.track) with params := op.par }) with pending := true } else st), .ok) := by
      unfold write; simp only [hc, hpic, if_true]
    rw [hw] at hwr
    simp only [Prod.mk.injEq, and_true] at hwr
    subst hwr
    rw [scanTs_video_nopic st.cfg sp op hv hpic]
    have tr := params_trackOnly st op.track hti op.par
    obtain ⟨g2, e2⟩ := g.trackOnly tr
    simp only [e2, ne_eq, not_true_eq_false, if_false]
    exact ⟨g2, tr.cfg⟩
  · rw [write_h264_form st op hc hpic] at hwr
    have tr2 := paramsStep_trackOnly st op.track hti op.par op.ra
    generalize (paramsStep st op.track op.par op.ra).2 = changed at hwr
    generalize (paramsStep st op.track op.par op.ra).1 = st2 at hwr tr2
    have hfr : (st2.track op.track).firstRA = sp.seenRA.contains op.track := by
      rw [tr2.ra]; simpa using g.ra op.track hop hv
    by_cases hgate : (!(st2.track op.track).firstRA && !op.ra) = true
    · rw [if_pos hgate] at hwr
      simp only [Prod.mk.injEq, and_true] at hwr
      subst hwr
      rw [scanTs_video_gate st.cfg sp op hv (by rw [← hfr]; exact hgate)]
      obtain ⟨g2, e2⟩ := g.trackOnly tr2
      simp only [e2, ne_eq, not_true_eq_false, if_false]
      exact ⟨g2, tr2.cfg⟩
    · rw [if_neg hgate] at hwr
      simp only [] at hwr
      have h2 : op.track < st2.tracks.length := by rw [tr2.len]; exact hti
      generalize hsps : ((st2.track op.track).extrSPS || decide (op.par ≠ 0)) = sps at hwr
      have tr3 := setTrack_trackOnly st2 op.track { (st2.track op.track) with firstRA := true, extrSPS := sps } h2 true rfl
      have h3 : op.track < (st2.setTrack op.track { (st2.track op.track) with firstRA := true, extrSPS := sps }).tracks.length := by
        simpa using h2
      have tr4 := setTrack_trackOnly _ op.track
        { (st2.track op.track) with firstRA := true, extrSPS := sps, extrPrev := some op.dts } h3 true rfl
      have tr := (tr2.trans tr3).trans tr4
      simp only [Bool.false_or, Bool.or_self] at tr
      have hvar4 : ((st2.setTrack op.track { (st2.track op.track) with firstRA := true, extrSPS := sps }).setTrack op.track
          { (st2.track op.track) with firstRA := true, extrSPS := sps, extrPrev := some op.dts }).cfg.variant = .mpegts := by
        simp only [cfg_setTrack, tr2.cfg]; exact g.shape.var
      cases sps
      · simp at hwr
      · simp only [Bool.not_true, Bool.false_eq_true, if_false] at hwr
        rw [scanTs_video_pass st.cfg sp op hv hpic (by rw [← hfr]; exact hgate)]
        have fin : ∀ cond st5 u size e c, st5 = openOrRotate
              ((st2.setTrack op.track { (st2.track op.track) with firstRA := true, extrSPS := true }).setTrack op.track
                { (st2.track op.track) with firstRA := true, extrSPS := true, extrPrev := some op.dts })
              (toDur op.dts (st.tcfg op.track).clockRate) op.ntp cond →
            tsWrite st5 u size e c = (st', .ok) →
            TsInv st' n (if (absT st').segId ≠ (absT st).segId then luOf log ++ (absT st').last else luOf log)
              { seenRA := op.track :: sp.seenRA, started := true, out := sp.out ++ [u] } ∧ st'.cfg = st.cfg := by
          intro cond st5 u size e c h5 hr
          exact ts_tail g op.track true tr _ _ cond u size e c (Or.inl h5) hr (op.track :: sp.seenRA) (by
            intro k hk hvk
            by_cases e : k = op.track
            · subst e; simp [contains_cons_self]
            · simp [e, List.contains_cons])
        simp only [cfg_setTrack, tr2.cfg, g.shape.var, if_true] at hwr
        split at hwr
        · split at hwr
          · simp at hwr
          · exact fin (fun seg => op.ra && (decide (toDur op.dts (st.tcfg op.track).clockRate - seg.startDTS ≥ st.cfg.segmentMinDur) || changed))
              _ _ _ _ _ rfl hwr
        · simp only [Bool.false_eq_true, if_false] at hwr
          exact fin (fun seg => op.ra && (decide (toDur op.dts (st.tcfg op.track).clockRate - seg.startDTS ≥ st.cfg.segmentMinDur) || changed))
              _ _ _ _ _ rfl hwr

theorem write_ts_aac {n : Nat} (st : State) (log : List Seg) (sp : ScanTs) (op : WriteOp)
    (hop : op.track < n) (g : TsInv st n (luOf log) sp)
    (hc : (st.tcfg op.track).codec = .aac) (hok : (write st op).2 = .ok) : SimTs n st log sp op := by
  have htc : trackCfg st.cfg op.track = st.tcfg op.track := rfl
  have hv : (trackCfg st.cfg op.track).codec.isVideo = false := by rw [htc, hc]; rfl
  have hvar := g.shape.var
  have hwl : writeLog 0 st log op = ((write st op).1, obs 0 st (write st op).1 log, (write st op).2) := by
    unfold writeLog; simp only [hc, hvar, if_true]
  refine ⟨hwl, ?_⟩
  rw [luOf_obs, scanTs_audio st.cfg sp op hv, leadOf_eq_leadingIdx]
  cases hwr : write st op with
  | mk st' res =>
  rw [hwr] at hok
  simp only at hok
  subst hok
  simp only []
  unfold write at hwr
  simp only [hc, hvar, if_true] at hwr
  have hlead : st.isLeadingTrack op.track = decide (op.track = leadingIdx st.cfg.tracks) := rfl
  rw [hlead] at hwr
  have hsome : (st.stream 0).nextSegment.isSome = sp.started := g.seg
  by_cases hl : op.track = leadingIdx st.cfg.tracks
  · -- leading audio track (audio-only muxer)
    have hd : decide (op.track = leadingIdx st.cfg.tracks) = true := by simp [hl]
    simp only [hd, Bool.not_true, Bool.false_and, Bool.false_eq_true, if_false, if_true] at hwr
    have hne : ¬ (op.track ≠ leadingIdx st.cfg.tracks ∧ (!sp.started) = true) := fun h => h.1 hl
    rw [if_neg hne, hd, Bool.or_true]
    exact ts_tail g op.track false (TrackOnly.refl st op.track) (toDur op.pts (st.tcfg op.track).clockRate) op.ntp
      (fun seg => decide (seg.audioAUCount ≥ mpegtsSegmentMinAUCount ∧
        toDur op.pts (st.tcfg op.track).clockRate - seg.startDTS ≥ st.cfg.segmentMinDur))
      _ _ _ _ (Or.inl (by
        unfold openOrRotate
        cases (st.stream 0).nextSegment with
        | none => rfl
        | some seg => simp)) hwr sp.seenRA (by intro k _ _; simp)
  · -- audio next to video
    have hd : decide (op.track = leadingIdx st.cfg.tracks) = false := by simp [hl]
    simp only [hd, Bool.not_false, Bool.true_and, Bool.false_eq_true, if_false] at hwr
    by_cases hst : sp.started = true
    · have hnone : (st.stream 0).nextSegment.isNone = false := by
        cases hh : (st.stream 0).nextSegment with
        | none => rw [hh] at hsome; rw [hst] at hsome; cases hsome
        | some _ => rfl
      rw [hnone] at hwr
      simp only [Bool.false_eq_true, if_false] at hwr
      have hne : ¬ (op.track ≠ leadingIdx st.cfg.tracks ∧ (!sp.started) = true) := by
        rw [hst]; intro h; cases h.2
      rw [if_neg hne, hd, Bool.or_false, hst]
      exact ts_tail g op.track false (TrackOnly.refl st op.track) 0 0 (fun _ => false)
        _ _ _ _ (Or.inr ⟨rfl, hst⟩) hwr sp.seenRA (by intro k _ _; simp)
    · have hst' : sp.started = false := by simpa using hst
      have hnone : (st.stream 0).nextSegment.isNone = true := by
        cases hh : (st.stream 0).nextSegment with
        | none => rfl
        | some _ => rw [hh] at hsome; rw [hst'] at hsome; cases hsome
      rw [hnone] at hwr
      simp only [if_true, Prod.mk.injEq, and_true] at hwr
      subst hwr
      have hy : (op.track ≠ leadingIdx st.cfg.tracks ∧ (!sp.started) = true) := ⟨hl, by rw [hst']; rfl⟩
      rw [if_pos hy]
      simp only [ne_eq, not_true_eq_false, if_false]
      exact ⟨g, trivial⟩

theorem tsCheck_codecs : ∀ (ts : List TrackCfg) (hv ha : Bool), tsCheck ts hv ha = none →
    ∀ t ∈ ts, t.codec = .h264 ∨ t.codec = .aac
  | [], _, _, _ => fun _ h => by cases h
  | t :: ts, hv, ha, h => by
    unfold tsCheck at h
    intro x hx
    by_cases hvid : t.codec.isVideo = true
    · rw [if_pos hvid] at h
      cases hv
      · simp only [Bool.false_eq_true, if_false] at h
        by_cases hc : t.codec ≠ .h264
        · rw [if_pos hc] at h; cases h
        · rw [if_neg hc] at h
          rcases List.mem_cons.mp hx with e | e
          · subst e; exact Or.inl (by simpa using hc)
          · exact tsCheck_codecs ts true ha h x e
      · simp at h
    · rw [if_neg hvid] at h
      cases ha
      · simp only [Bool.false_eq_true, if_false] at h
        by_cases hc : t.codec ≠ .aac
        · rw [if_pos hc] at h; cases h
        · rw [if_neg hc] at h
          rcases List.mem_cons.mp hx with e | e
          · subst e; exact Or.inr (by simpa using hc)
          · exact tsCheck_codecs ts hv true h x e
      · simp at h

theorem start_form_ts (cfg0 : Cfg) (st0 : State) (h : start cfg0 = .ok st0) (hv : cfg0.variant = .mpegts) :
    st0.cfg = cfg0.withDefaults ∧ cfg0.tracks ≠ [] ∧ 3 ≤ st0.cfg.segmentCount ∧
    st0.tracks = cfg0.tracks.map (fun _ => ({ params := 1 } : TrackSt)) ∧
    st0.streams = [({ tracks := List.range cfg0.tracks.length, isLeading := true, nextSegmentID := 0 } : StreamSt)] ∧
    tsCheck cfg0.tracks false false = none := by
  unfold start at h
  simp only [] at h
  have ht : cfg0.withDefaults.tracks = cfg0.tracks := rfl
  have hvv : cfg0.withDefaults.variant = cfg0.variant := rfl
  rw [ht, hvv] at h
  by_cases hemp : cfg0.tracks.isEmpty = true
  · rw [if_pos hemp] at h; cases h
  rw [if_neg hemp] at h
  have hne : cfg0.tracks ≠ [] := by simpa using hemp
  simp only [hv, reduceCtorEq, if_false] at h
  cases hts : tsCheck cfg0.tracks false false with
  | some e => simp only [hts] at h; cases h
  | none =>
    simp only [hts] at h
    by_cases hcnt : cfg0.withDefaults.segmentCount < 3
    · simp only [hcnt, if_true] at h; cases h
    simp only [hcnt, if_false, Except.ok.injEq] at h
    subst h
    exact ⟨rfl, hne, by show 3 ≤ cfg0.withDefaults.segmentCount; omega, rfl, rfl, rfl⟩

theorem write_ts {n : Nat} (st : State) (log : List Seg) (sp : ScanTs) (op : WriteOp)
    (hop : op.track < n) (g : TsInv st n (luOf log) sp)
    (hcod : (st.tcfg op.track).codec = .h264 ∨ (st.tcfg op.track).codec = .aac)
    (hok : (write st op).2 = .ok) : SimTs n st log sp op := by
  rcases hcod with hc | hc
  · exact write_ts_h264 st log sp op hop g hc hok
  · exact write_ts_aac st log sp op hop g hc hok

theorem run_ts {n : Nat} (cfg : Cfg)
    (hcod : ∀ k, k < n → (trackCfg cfg k).codec = .h264 ∨ (trackCfg cfg k).codec = .aac) :
    ∀ (ops : List WriteOp) (st : State) (log : List Seg) (sp : ScanTs), st.cfg = cfg → TsInv st n (luOf log) sp →
      (∀ op ∈ ops, op.track < n) → AllOk st ops = true →
      (runLog 0 st log ops).1 = run st ops ∧
      TsInv (run st ops) n (luOf (runLog 0 st log ops).2) (ops.foldl (scanTsOp cfg) sp) := by
  intro ops
  induction ops with
  | nil => intro st log sp _ g _ _; exact ⟨rfl, g⟩
  | cons op rest ih =>
    intro st log sp hc g hr hok
    simp only [AllOk, Bool.and_eq_true, decide_eq_true_eq] at hok
    subst hc
    have hop := hr op (by simp)
    obtain ⟨e1, g1, c1⟩ := write_ts st log sp op hop g (hcod op.track hop) hok.1
    have := ih (write st op).1 (obs 0 st (write st op).1 log) (scanTsOp st.cfg sp op) c1 g1
      (fun o ho => hr o (by simp [ho])) hok.2
    simp only [runLog, run, List.foldl_cons]
    rw [e1]
    exact this

/-- MPEG-TS package: history ++ open segment = accepted PES units -/
theorem ts_main (cfg0 : Cfg) (st0 : State) (ops : List WriteOp)
    (hstart : start cfg0 = .ok st0) (hv : cfg0.variant = .mpegts)
    (hin : InRange cfg0 ops = true) (hok : AllOk st0 ops = true) :
    (runLog 0 st0 [] ops).1 = run st0 ops ∧
    tsEmitted (runLog 0 st0 [] ops).2 (run st0 ops) = acceptedTs cfg0 ops := by
  obtain ⟨hcfg, hne, hcnt, htr, hstr, hts⟩ := start_form_ts cfg0 st0 hstart hv
  have hcod : ∀ k, k < cfg0.tracks.length →
      (trackCfg cfg0.withDefaults k).codec = .h264 ∨ (trackCfg cfg0.withDefaults k).codec = .aac := by
    intro k hk
    have : trackCfg cfg0.withDefaults k = cfg0.tracks[k] := by
      simp [trackCfg, Cfg.withDefaults, List.getD_eq_getElem?_getD, hk]
    rw [this]
    exact tsCheck_codecs _ _ _ hts _ (List.getElem_mem hk)
  have hs0 : st0.stream 0 = { tracks := List.range cfg0.tracks.length, isLeading := true, nextSegmentID := 0 } := by
    simp [State.stream, hstr]
  have g0 : TsInv st0 cfg0.tracks.length (luOf []) {} := by
    refine ⟨⟨by rw [hcfg]; exact hv, by rw [htr]; simp, by rw [hcfg]; rfl, by rw [hstr]; rfl, by rw [hs0], by omega⟩,
      by simp [absT, hs0], ?_, by simp [luOf, absT, tsOpen, hs0]⟩
    intro k _ _
    simp only [State.track, htr, List.getD_eq_getElem?_getD]
    by_cases hj : k < cfg0.tracks.length
    · simp [hj]
    · simp [Nat.le_of_not_lt hj]
  have hr : ∀ op ∈ ops, op.track < cfg0.tracks.length := by
    intro op hop
    have := List.all_eq_true.mp hin op hop
    simpa using this
  obtain ⟨e1, g1⟩ := run_ts cfg0.withDefaults hcod ops st0 [] {} hcfg g0 hr hok
  refine ⟨e1, ?_⟩
  have := g1.out
  have e : scanTsOp cfg0.withDefaults = scanTsOp cfg0 := rfl
  rw [e] at this
  simpa [tsEmitted, luOf, absT, acceptedTs] using this

end Hls.Muxer.Accept
