import Hls.Muxer.PathsGet
/-!
  Which segment a part belongs to never changes (`OwnMono`): used for "the parts of a segment that has
  left the window return nothing".
-/
namespace Hls.Muxer.Paths
open Hls.Muxer

/-- part id `pid` is advertised under the segment numbered `m` (a window segment or the open one) -/
def OwnAt (s : StreamSt) (m pid : Nat) : Prop :=
  ∃ g, (Entry.seg g ∈ s.segments ∨ s.nextSegment = some g) ∧ g.id = m ∧ ∃ p, p ∈ g.parts ∧ p.id = pid

structure OwnMono (st st' : State) : Prop where
  npid : ∀ si, (st.stream si).nextPartID ≤ (st'.stream si).nextPartID
  own : ∀ si m pid, pid < (st.stream si).nextPartID → OwnAt (st'.stream si) m pid → OwnAt (st.stream si) m pid

theorem OwnMono.refl (st : State) : OwnMono st st := ⟨fun _ => Nat.le_refl _, fun _ _ _ _ h => h⟩

theorem OwnMono.trans {a b c : State} (h1 : OwnMono a b) (h2 : OwnMono b c) : OwnMono a c :=
  ⟨fun si => Nat.le_trans (h1.npid si) (h2.npid si),
   fun si m pid hlt h => h1.own si m pid hlt (h2.own si m pid (Nat.lt_of_lt_of_le hlt (h1.npid si)) h)⟩

theorem OwnMono.of_coreEq {st st' : State} (h : CoreEq st st') : OwnMono st st' := by
  constructor
  · intro si; rw [h.stream]; exact Nat.le_refl _
  · intro si m pid _ ho; rw [h.stream] at ho; exact ho

/-- a state whose stream `si` was replaced by `s'` -/
theorem ownMono_of_set {st st' : State} (si : Nat) (s' : StreamSt)
    (hstr : ∀ sj, st'.stream sj = (st.setStream si s').stream sj)
    (h1 : (st.stream si).nextPartID ≤ s'.nextPartID)
    (h2 : ∀ m pid, pid < (st.stream si).nextPartID → OwnAt s' m pid → OwnAt (st.stream si) m pid) :
    OwnMono st st' := by
  have key : ∀ sj, st'.stream sj = st.stream sj ∨ (sj = si ∧ st'.stream sj = s') := by
    intro sj
    rw [hstr]
    by_cases e : sj = si
    · subst e
      by_cases hsi : sj < st.streams.length
      · right; exact ⟨rfl, stream_setStream_same st sj s' hsi⟩
      · left; rw [setStream_oob st sj s' (Nat.le_of_not_lt hsi)]
    · left; exact stream_setStream_other st si sj s' e
  constructor
  · intro sj
    rcases key sj with h | ⟨rfl, h⟩
    · rw [h]; exact Nat.le_refl _
    · rw [h]; exact h1
  · intro sj m pid hlt ho
    rcases key sj with h | ⟨rfl, h⟩
    · rw [h] at ho; exact ho
    · rw [h] at ho; exact h2 m pid hlt ho

theorem OwnAt.congr {s s' : StreamSt} (hl : LocalEq s s') {m pid : Nat} (h : OwnAt s' m pid) : OwnAt s m pid := by
  obtain ⟨g, hg, hid, hp⟩ := h
  rcases hg with hg | hg
  · exact ⟨g, Or.inl (hl.segments ▸ hg), hid, hp⟩
  · obtain ⟨g0, hg0, hid0, hp0, _⟩ := hl.seg_some hg
    exact ⟨g0, Or.inr hg0, hid0.trans hid, by rw [hp0]; exact hp⟩

theorem ownMono_setStream_localEq (st : State) (si : Nat) (s' : StreamSt) (hl : LocalEq (st.stream si) s') :
    OwnMono st (st.setStream si s') :=
  ownMono_of_set si s' (fun _ => rfl) (by rw [hl.npid]; exact Nat.le_refl _) (fun _ _ _ h => h.congr hl)

theorem cfsStream_facts (v : Variant) (s : StreamSt) (d n : Int) :
    (cfsStream v s d n).segments = s.segments ∧ (cfsStream v s d n).nextPartID = s.nextPartID ∧
    ∀ g, (cfsStream v s d n).nextSegment = some g → g.parts = [] := by
  unfold cfsStream
  cases v <;> refine ⟨rfl, rfl, ?_⟩ <;> intro g hg <;> simp only [Option.some.injEq] at hg <;> subst hg <;> rfl

theorem cfs_ownMono (st : State) (si : Nat) (d n : Int) : OwnMono st (createFirstSegmentStream st si d n) := by
  rw [cfs_eq]
  obtain ⟨h1, h2, h3⟩ := cfsStream_facts st.cfg.variant (st.stream si) d n
  refine ownMono_of_set si _ (fun _ => rfl) (by rw [h2]; exact Nat.le_refl _) ?_
  intro m pid _ ⟨g, hg, hid, p, hp, hpid⟩
  rcases hg with hg | hg
  · exact ⟨g, Or.inl (h1 ▸ hg), hid, p, hp, hpid⟩
  · rw [h3 g hg] at hp; simp at hp

theorem cfsAll_ownMono (st : State) (d n : Int) : OwnMono st (createFirstSegment st d n) := by
  unfold createFirstSegment
  generalize List.range st.streams.length = l
  induction l generalizing st with
  | nil => exact OwnMono.refl st
  | cons x l ih => rw [List.foldl_cons]; exact (cfs_ownMono st x d n).trans (ih _)

theorem rps_ownMono (st : State) (si : Nat) (d : Int) (b : Bool)
    (hid : ∀ part, (st.stream si).nextPart = some part → part.id = (st.stream si).nextPartID) :
    OwnMono st (rotatePartsStream st si d b) := by
  cases hp : (st.stream si).nextPart with
  | none => rw [rps_noop st si d b (Or.inl hp)]; exact OwnMono.refl st
  | some part =>
    cases hs : (st.stream si).nextSegment with
    | none => rw [rps_noop st si d b (Or.inr hs)]; exact OwnMono.refl st
    | some seg =>
      obtain ⟨p, ptd, hpid, _, _, hstreams⟩ := rps_eq st si d b part seg hp hs
      have hpid' : p.id = (st.stream si).nextPartID := hpid.trans (hid part hp)
      refine ownMono_of_set si _ (stream_of_streams_set hstreams) (Nat.le_succ _) ?_
      intro m pid hlt ⟨g, hg, hgid, q, hq, hqid⟩
      rcases hg with hg | hg
      · exact ⟨g, Or.inl hg, hgid, q, hq, hqid⟩
      · simp only [rpsStream, Option.some.injEq] at hg
        subst hg
        refine ⟨seg, Or.inr hs, ?_, q, ?_, hqid⟩
        · rw [← hgid]; unfold rpsSeg; split <;> rfl
        · unfold rpsSeg at hq
          split at hq
          · simp only [List.mem_append, List.mem_singleton] at hq
            rcases hq with hq | rfl
            · exact hq
            · omega
          · exact hq

theorem rscore_ownMono (st : State) (si : Nat) (d n : Int) (f : Bool) : OwnMono st (rscore st si d n f) := by
  cases hs : (st.stream si).nextSegment with
  | none => rw [rscore_none st si d n f hs]; exact OwnMono.refl st
  | some seg =>
    rw [rscore_nf st si d n f seg hs]
    obtain ⟨e, B, F', hAB, _, hr⟩ := delHead_spec si st.cfg.segmentCount
      (rscSegs st.cfg.variant (st.stream si) { seg with endDTS := d })
      (regPath st.paths (.seg si seg.id) (segHandler st.cfg.variant { seg with endDTS := d }))
      st.files (st.stream si).deleteCount (rscSegs_ne_nil _ _ _)
    obtain ⟨_, _, hstreams⟩ := rscoreNF_eq st si d n f seg B _ F' _ hr
    refine ownMono_of_set si _ (stream_of_streams_set hstreams) ?_ ?_
    · rw [(tdStep_localEq _).npid]; exact Nat.le_refl _
    · intro m pid _ ho
      have ho' := ho.congr (tdStep_localEq _)
      obtain ⟨g, hg, hgid, q, hq, hqid⟩ := ho'
      rcases hg with hg | hg
      · have hgA : Entry.seg g ∈ rscSegs st.cfg.variant (st.stream si) { seg with endDTS := d } := by
          rw [hAB]; exact List.mem_append_right _ hg
        rcases (rscSegs_mem _ _ _ _).1 hgA with h1 | h1
        · exact ⟨g, Or.inl h1, hgid, q, hq, hqid⟩
        · subst h1; exact ⟨seg, Or.inr hs, hgid, q, hq, hqid⟩
      · simp only [rscStream, Option.some.injEq] at hg
        subst hg; simp at hq

theorem rss_ownMono {st : State} (si : Nat) (d n : Int) (f : Bool) (hI : InvAt none st) :
    OwnMono st (rotateSegmentsStream st si d n f) := by
  rw [rss_eq]
  split
  · refine (rps_ownMono st si d false ?_).trans (rscore_ownMono _ si d n f)
    by_cases hsi : si < st.streams.length
    · exact (hI.sinv' hsi).open_part_id
    · intro part hp; rw [stream_oob st si (Nat.le_of_not_lt hsi)] at hp; cases hp
  · exact rscore_ownMono st si d n f

theorem Prim.own {a b : State} (h : Prim a b) (hI : Inv a) : OwnMono a b := by
  cases h with
  | core h => exact OwnMono.of_coreEq h
  | upd si s' hl => exact ownMono_setStream_localEq a si s' hl
  | cfsAll si d n _ _ => exact cfsAll_ownMono a d n
  | rps si d _ =>
    refine rps_ownMono a si d true ?_
    by_cases hsi : si < a.streams.length
    · exact (hI.inv.sinv' hsi).open_part_id
    · intro part hp; rw [stream_oob a si (Nat.le_of_not_lt hsi)] at hp; cases hp
  | rss si d n f => exact rss_ownMono si d n f hI.inv

theorem Steps.own {a b : State} (h : Steps a b) (hI : Inv a) : OwnMono a b := by
  induction h with
  | refl => exact OwnMono.refl _
  | tail hs hp ih => exact ih.trans (hp.own (hs.ok hI).1)

theorem own_run {st : State} (ops : List WriteOp) (hI : Inv st) : OwnMono st (run st ops) := by
  induction ops generalizing st with
  | nil => exact OwnMono.refl st
  | cons op ops ih => exact ((steps_write st op).own hI).trans (ih (inv_write op hI))

/-! ### a part has one owner -/

theorem owner_unique_list (W : List Seg) (hnd : ((W.flatMap (·.parts)).map (·.id)).Nodup)
    {g g' : Seg} (hg : g ∈ W) (hg' : g' ∈ W) {p p' : Part} (hp : p ∈ g.parts) (hp' : p' ∈ g'.parts)
    (hid : p.id = p'.id) : g = g' := by
  induction W with
  | nil => simp at hg
  | cons x rest ih =>
    simp only [List.flatMap_cons, List.map_append, List.nodup_append] at hnd
    obtain ⟨_, h2, h3⟩ := hnd
    have inR : ∀ {y : Seg} {q : Part}, y ∈ rest → q ∈ y.parts → q.id ∈ (rest.flatMap (·.parts)).map (·.id) :=
      fun hy hq => List.mem_map.2 ⟨_, List.mem_flatMap.2 ⟨_, hy, hq⟩, rfl⟩
    rcases List.mem_cons.1 hg with e1 | hgr <;> rcases List.mem_cons.1 hg' with e2 | hgr'
    · rw [e1, e2]
    · subst e1; exact absurd hid (h3 _ (List.mem_map.2 ⟨p, hp, rfl⟩) _ (inR hgr' hp'))
    · subst e2; exact absurd hid.symm (h3 _ (List.mem_map.2 ⟨p', hp', rfl⟩) _ (inR hgr hp))
    · exact ih h2 hgr hgr'

theorem winParts_flat (s : StreamSt) :
    winParts s = (realSegs s ++ s.nextSegment.toList).flatMap (·.parts) := by
  unfold winParts openParts
  cases s.nextSegment <;> simp

theorem own_unique {v : Variant} {mid : Bool} {s : StreamSt} (hS : SInv v mid s) {m m' pid : Nat}
    (h1 : OwnAt s m pid) (h2 : OwnAt s m' pid) : m = m' := by
  obtain ⟨g, hg, rfl, p, hp, hpid⟩ := h1
  obtain ⟨g', hg', rfl, p', hp', hpid'⟩ := h2
  have hW : ∀ x : Seg, (Entry.seg x ∈ s.segments ∨ s.nextSegment = some x) → x ∈ realSegs s ++ s.nextSegment.toList := by
    intro x hx
    rcases hx with hx | hx
    · exact List.mem_append_left _ ((mem_realSegs s x).2 hx)
    · rw [hx]; simp
  have hll : v = .ll := by
    by_cases hv : v = .ll
    · exact hv
    · exfalso
      have : g.parts = [] := by
        rcases hg with hg | hg
        · have := hS.parts_win g hg; rwa [if_neg hv] at this
        · have := hS.parts_open g hg; rwa [if_neg hv] at this
      rw [this] at hp; simp at hp
  have hnd : (((realSegs s ++ s.nextSegment.toList).flatMap (·.parts)).map (·.id)).Nodup := by
    rw [← winParts_flat, hS.winParts_eq, if_pos hll]; exact hS.stored_nodup
  rw [owner_unique_list _ hnd (hW g hg) (hW g' hg') hp hp' (hpid.trans hpid'.symm)]

theorem ownAt_of_winParts {s : StreamSt} {q : Part} (hq : q ∈ winParts s) :
    ∃ g, (Entry.seg g ∈ s.segments ∨ s.nextSegment = some g) ∧ q ∈ g.parts := by
  unfold winParts at hq
  rcases List.mem_append.1 hq with h | h
  · obtain ⟨g, hg, hqg⟩ := List.mem_flatMap.1 h
    exact ⟨g, Or.inl ((mem_realSegs s g).1 hg), hqg⟩
  · unfold openParts at h
    cases hn : s.nextSegment with
    | none => rw [hn] at h; simp at h
    | some g => rw [hn] at h; exact ⟨g, Or.inr rfl, h⟩

/-- The parts of a segment that is no longer in the window of a later state return nothing there. -/
theorem expired_part_none {st : State} (hI : Inv st) (ops : List WriteOp) {si : Nat} {g : Seg} {p : Part}
    (hg : Entry.seg g ∈ (st.stream si).segments) (hp : p ∈ g.parts)
    (hgone : ∀ g', Entry.seg g' ∈ ((run st ops).stream si).segments → g'.id ≠ g.id) :
    get (run st ops) (.part si p.id) = .none := by
  have hI' := inv_run ops hI
  have hm := mono_run ops hI
  have ho := own_run ops hI
  have hsi := InvAt.lt_of_seg hg
  have hS := hI.inv.sinv' hsi
  have hpw : p ∈ winParts (st.stream si) := mem_winParts_of_seg hg hp
  have hplt := hS.part_id_lt p hpw
  have hglt := (hS.seg_id_lt g hg).2
  rcases get_part_cases hI'.inv si p.id with h | ⟨q, hq, hqid, _⟩ | ⟨e, _, _⟩
  · exact h
  · exfalso
    obtain ⟨g'', hg'', hqg⟩ := ownAt_of_winParts hq
    have hO' : OwnAt ((run st ops).stream si) g''.id p.id := ⟨g'', hg'', rfl, q, hqg, hqid⟩
    have hO := ho.own si g''.id p.id hplt hO'
    have hOg : OwnAt (st.stream si) g.id p.id := ⟨g, Or.inl hg, rfl, p, hp, rfl⟩
    have hid : g''.id = g.id := own_unique hS hO hOg
    rcases hg'' with h1 | h1
    · exact hgone g'' h1 hid
    · have hsi' : si < (run st ops).streams.length := by
        by_cases h : si < (run st ops).streams.length
        · exact h
        · rw [stream_oob _ si (Nat.le_of_not_lt h)] at h1; cases h1
      have := (hI'.inv.sinv' hsi').open_seg_id g'' h1
      have := hm.nsid si
      omega
  · have := ho.npid si; omega

end Hls.Muxer.Paths
