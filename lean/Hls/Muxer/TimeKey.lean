import Hls.Muxer.TimeInv
/-!
# Cross-stream agreement and target-duration invariants at stream level (helper file for C02 / C03)

`KeyEq s s'`: two streams have the same segment counter, the same boundaries (start, end, NTP, part spans) of the
listed segments, of the open segment and the same open-part start.  `TgInv`: what the leading stream's
TARGETDURATION / PART-TARGET dominate.
-/
namespace Hls.Muxer
open Hls.Gen

def Part.span (p : Part) : Int × Int := (p.startDTS, p.endDTS)
def Seg.key (g : Seg) : Int × Int × Int × List (Int × Int) := (g.startDTS, g.endDTS, g.startNTP, g.parts.map Part.span)
def Entry.key : Entry → Option (Int × Int × Int × List (Int × Int)) × Int
  | .gap d => (none, d)
  | .seg g => (some g.key, 0)
def Seg.okey (g : Seg) : Int × Int × Bool × List (Int × Int) := (g.startDTS, g.startNTP, g.forced, g.parts.map Part.span)

structure KeyEq (s s' : StreamSt) : Prop where
  sid : s.nextSegmentID = s'.nextSegmentID
  segs : s.segments.map Entry.key = s'.segments.map Entry.key
  opn : s.nextSegment.map Seg.okey = s'.nextSegment.map Seg.okey
  part : s.nextPart.map Part.startDTS = s'.nextPart.map Part.startDTS

theorem KeyEq.refl (s : StreamSt) : KeyEq s s := ⟨rfl, rfl, rfl, rfl⟩
theorem KeyEq.symm {s s' : StreamSt} (h : KeyEq s s') : KeyEq s' s := ⟨h.sid.symm, h.segs.symm, h.opn.symm, h.part.symm⟩
theorem KeyEq.trans {a b c : StreamSt} (h1 : KeyEq a b) (h2 : KeyEq b c) : KeyEq a c :=
  ⟨h1.sid.trans h2.sid, h1.segs.trans h2.segs, h1.opn.trans h2.opn, h1.part.trans h2.part⟩

theorem KeyEq_of_eq {s r : StreamSt} (h0 : r.nextSegmentID = s.nextSegmentID) (h1 : r.segments = s.segments)
    (h2 : r.nextSegment = s.nextSegment) (h3 : r.nextPart = s.nextPart) : KeyEq r s :=
  ⟨h0, by rw [h1], by rw [h2], by rw [h3]⟩

theorem Entry.key_duration {e e' : Entry} (h : e.key = e'.key) : e.duration = e'.duration := by
  cases e <;> cases e' <;> simp_all [Entry.key, Entry.duration, Seg.key, Seg.duration]

theorem map_eq_nil_iff' {α β} {f : α → β} {l l' : List α} (h : l.map f = l'.map f) : l.isEmpty = l'.isEmpty := by
  cases l <;> cases l' <;> simp_all

theorem map_key_length {l l' : List Entry} (h : l.map Entry.key = l'.map Entry.key) : l.length = l'.length := by
  have := congrArg List.length h; simpa using this

theorem trimSegs_key {n : Nat} {l l' : List Entry} (h : l.map Entry.key = l'.map Entry.key) :
    (trimSegs n l).map Entry.key = (trimSegs n l').map Entry.key := by
  unfold trimSegs
  rw [map_key_length h]
  split
  · rw [List.map_drop, List.map_drop, h]
  · exact h

theorem gaps_key (d : Int) : (gaps d).map Entry.key = List.replicate llGapCount (none, d) := by
  unfold gaps; simp [Entry.key]

theorem appendSeg_key {v : Variant} {l l' : List Entry} {g g' : Seg} (h : l.map Entry.key = l'.map Entry.key)
    (hg : g.key = g'.key) : (appendSeg v l g).map Entry.key = (appendSeg v l' g').map Entry.key := by
  unfold appendSeg
  have hd : g.duration = g'.duration := Entry.key_duration (e := .seg g) (e' := .seg g') (by simp [Entry.key, hg])
  rw [map_eq_nil_iff' h, hd]
  simp only [List.map_append, List.map_cons, List.map_nil, Entry.key, hg]
  split
  · rfl
  · rw [h]

theorem opt_map_some {α β} {f : α → β} {a : α} {o : Option α} (h : (some a).map f = o.map f) :
    ∃ a', o = some a' ∧ f a' = f a := by
  cases o with
  | none => simp at h
  | some a' => exact ⟨a', rfl, by simpa using h.symm⟩

theorem opt_map_none {α β} {f : α → β} {o : Option α} (h : (none : Option α).map f = o.map f) : o = none := by
  cases o with
  | none => rfl
  | some a' => simp at h

theorem KeyEq_cfS {v : Variant} {s s' : StreamSt} (h : KeyEq s s') (d n : Int) :
    KeyEq (cfS v s d n) (cfS v s' d n) := by
  unfold cfS
  cases v <;> exact ⟨h.sid, h.segs, rfl, by first | rfl | exact h.part⟩

theorem KeyEq_rpS {v : Variant} {s s' : StreamSt} (h : KeyEq s s') (c c' : List PartTrack) (d : Int) (b : Bool) :
    KeyEq (rpS v s c d b) (rpS v s' c' d b) := by
  cases ho : s.nextSegment with
  | none =>
    have ho' : s'.nextSegment = none := opt_map_none (ho ▸ h.opn)
    rw [rpS_none _ _ _ _ _ (Or.inr ho), rpS_none _ _ _ _ _ (Or.inr ho')]; exact h
  | some o =>
    obtain ⟨o', ho', hk⟩ := opt_map_some (ho ▸ h.opn)
    cases hp : s.nextPart with
    | none =>
      have hp' : s'.nextPart = none := opt_map_none (hp ▸ h.part)
      rw [rpS_none _ _ _ _ _ (Or.inl hp), rpS_none _ _ _ _ _ (Or.inl hp')]; exact h
    | some p =>
      obtain ⟨p', hp', hpk⟩ := opt_map_some (hp ▸ h.part)
      have r := rpS_some (v := v) c d b ho hp
      have r' := rpS_some (v := v) c' d b ho' hp'
      refine ⟨by rw [r.nextSegmentID, r'.nextSegmentID, h.sid], by rw [r.segments, r'.segments, h.segs], ?_, ?_⟩
      · rw [r.nextSegment, r'.nextSegment]
        simp only [Option.map_some, Option.some.injEq]
        simp only [Seg.okey, Prod.mk.injEq] at hk ⊢
        obtain ⟨k1, k2, kf, k3⟩ := hk
        refine ⟨k1.symm, k2.symm, kf.symm, ?_⟩
        simp only [segWithPart]
        split
        · simp only [List.map_append, k3, List.map_cons, List.map_nil, Part.span, closePart, hpk]
        · exact k3.symm
      · rw [r.nextPart, r'.nextPart]
        split <;> rfl

theorem closed_key {v : Variant} {o o' : Seg} {p p' : Part} (hk : o'.okey = o.okey) (hpk : p'.startDTS = p.startDTS)
    (c c' : List PartTrack) (d : Int) :
    (closeSeg (segWithPart v o (closePart p c d)) d).key = (closeSeg (segWithPart v o' (closePart p' c' d)) d).key := by
  simp only [Seg.okey, Prod.mk.injEq] at hk
  obtain ⟨k1, k2, _, k3⟩ := hk
  simp only [Seg.key, closeSeg, segWithPart, Prod.mk.injEq]
  refine ⟨k1.symm, trivial, k2.symm, ?_⟩
  split
  · simp only [List.map_append, k3, List.map_cons, List.map_nil, Part.span, closePart, hpk]
  · exact k3.symm

theorem KeyEq_rsS {v : Variant} {n : Nat} {s s' : StreamSt} (h : KeyEq s s') (hi : SInv v s) (hi' : SInv v s')
    (c c' : List PartTrack) (d ntp : Int) (f : Bool) :
    KeyEq (rsS v n s c d ntp f) (rsS v n s' c' d ntp f) := by
  cases ho : s.nextSegment with
  | none =>
    have ho' : s'.nextSegment = none := opt_map_none (ho ▸ h.opn)
    rw [rsS_none _ _ _ _ ho, rsS_none _ _ _ _ ho']; exact h
  | some o =>
    obtain ⟨o', ho', hk⟩ := opt_map_some (ho ▸ h.opn)
    by_cases hv : v = .mpegts
    · subst hv
      have r := (rsS_ts (n := n) c d ntp f ho).1
      have r' := (rsS_ts (n := n) c' d ntp f ho').1
      refine ⟨by rw [r.nextSegmentID, r'.nextSegmentID, h.sid], ?_, by rw [r.nextSegment, r'.nextSegment, h.sid],
        by rw [r.nextPart, r'.nextPart]; rfl⟩
      rw [r.segments, r'.segments]
      apply trimSegs_key
      apply appendSeg_key h.segs
      simp only [Seg.okey, Prod.mk.injEq] at hk
      simp only [Seg.key, closeSeg, Prod.mk.injEq]
      exact ⟨hk.1.symm, trivial, hk.2.1.symm, hk.2.2.2.symm⟩
    · obtain ⟨p, hp⟩ := Option.isSome_iff_exists.1 ((hi.partIff hv).1 (by rw [ho]; rfl))
      obtain ⟨p', hp', hpk⟩ := opt_map_some (hp ▸ h.part)
      have r := (rsS_fmp4 (n := n) c d ntp f hv ho hp).1
      have r' := (rsS_fmp4 (n := n) c' d ntp f hv ho' hp').1
      refine ⟨by rw [r.nextSegmentID, r'.nextSegmentID, h.sid], ?_, by rw [r.nextSegment, r'.nextSegment, h.sid],
        by rw [r.nextPart, r'.nextPart]; simp [hv]⟩
      rw [r.segments, r'.segments]
      apply trimSegs_key
      apply appendSeg_key h.segs
      exact closed_key hk hpk c c' d

theorem KeyEq_pwS (s : StreamSt) (sz : Nat) (indep : Bool) : KeyEq (pwS s sz indep) s := by
  unfold pwS
  split
  · rename_i seg part ho hp
    refine ⟨rfl, rfl, by rw [ho]; rfl, ?_⟩
    rw [hp]; simp only; split <;> rfl
  · exact KeyEq.refl s

/-! ## what the targets dominate -/

structure TgInv (s : StreamSt) : Prop where
  target : ∀ e ∈ s.segments, roundSeconds e.duration ≤ s.targetDur
  ptarget : ∃ m, 0 ≤ m ∧ s.partTargetDur = MS * ceilMs m ∧
    (∀ g, Entry.seg g ∈ s.segments → ∀ p ∈ g.parts, p.duration ≤ m) ∧
    (∀ o, s.nextSegment = some o → ∀ p ∈ o.parts, p.duration ≤ m)

theorem TgInv_init (s : StreamSt) (h1 : s.segments = []) (h2 : s.nextSegment = none) (h3 : s.partTargetDur = 0) :
    TgInv s := by
  refine ⟨fun e he => (by rw [h1] at he; cases he), 0, Int.le_refl _, ?_, ?_, ?_⟩
  · rw [h3]; decide
  · intro g hg; rw [h1] at hg; cases hg
  · intro o ho; rw [h2] at ho; cases ho

theorem TgInv_cfS {v : Variant} {s : StreamSt} (h : TgInv s) (d n : Int) : TgInv (cfS v s d n) := by
  have e1 : (cfS v s d n).segments = s.segments := by unfold cfS; cases v <;> rfl
  have e2 : (cfS v s d n).nextSegment = some { id := s.nextSegmentID, startDTS := d, startNTP := n } := by
    unfold cfS; cases v <;> rfl
  have e3 : (cfS v s d n).targetDur = s.targetDur := by unfold cfS; cases v <;> rfl
  have e4 : (cfS v s d n).partTargetDur = s.partTargetDur := by unfold cfS; cases v <;> rfl
  obtain ⟨m, hm, hp, hl, _⟩ := h.ptarget
  refine ⟨by rw [e1, e3]; exact h.target, m, hm, by rw [e4]; exact hp, by rw [e1]; exact hl, ?_⟩
  intro o ho; rw [e2] at ho; cases ho; intro p hp; cases hp

theorem TgInv_rpS {v : Variant} {s : StreamSt} (h : TgInv s) (hl : s.isLeading = true) (c : List PartTrack) (d : Int)
    (b : Bool) : TgInv (rpS v s c d b) := by
  cases ho : s.nextSegment with
  | none => rw [rpS_none _ _ _ _ _ (Or.inr ho)]; exact h
  | some o =>
    cases hp : s.nextPart with
    | none => rw [rpS_none _ _ _ _ _ (Or.inl hp)]; exact h
    | some p =>
      have r := rpS_some (v := v) c d b ho hp
      refine ⟨by rw [r.segments, r.targetDur]; exact h.target,
        maxPart s.segments (segWithPart v o (closePart p c d)).parts, maxPart_nonneg _ _, ?_, ?_, ?_⟩
      · rw [r.partTargetDur, hl]; rfl
      · rw [r.segments]; intro g hg q hq; exact maxPart_ge_listed hg hq
      · rw [r.nextSegment]; intro x hx q hq; cases hx; exact maxPart_ge_open hq

theorem TgInv_rsS {v : Variant} {n : Nat} {s : StreamSt} (h : TgInv s) (hi : SInv v s) (hl : s.isLeading = true)
    (c : List PartTrack) (d ntp : Int) (f : Bool) : TgInv (rsS v n s c d ntp f) := by
  cases ho : s.nextSegment with
  | none => rw [rsS_none _ _ _ _ ho]; exact h
  | some o =>
    have tgt : ∀ {r : StreamSt} {o1 npid}, RsRes v n s o1 npid d ntp f r → ∀ e ∈ r.segments, roundSeconds e.duration ≤ r.targetDur := by
      intro r o1 npid rr e he
      rw [rr.targetDur, hl]
      simp only [if_true]
      have h1 := targetDuration_ge he
      have h2 := newTarget_ge s.targetDur (targetDuration r.segments) (targetDuration_nonneg _)
      unfold newTarget
      omega
    by_cases hv : v = .mpegts
    · subst hv
      obtain ⟨r, rp⟩ := rsS_ts (n := n) c d ntp f ho
      obtain ⟨m, hm, hp, hlst, hop⟩ := h.ptarget
      refine ⟨tgt r, m, hm, by rw [rp]; exact hp, ?_, ?_⟩
      · rw [r.segments]
        intro g hg q hq
        have := mem_reals.1 (mem_reals_trim (mem_reals.2 hg))
        have : g ∈ reals s.segments ++ [closeSeg o d] := by rw [← reals_appendSeg]; exact mem_reals.2 this
        rcases List.mem_append.1 this with h1 | h1
        · exact hlst g (mem_reals.1 h1) q hq
        · simp only [List.mem_singleton] at h1; subst h1; exact hop o ho q hq
      · rw [r.nextSegment]; intro x hx q hq; cases hx; cases hq
    · obtain ⟨p, hp⟩ := Option.isSome_iff_exists.1 ((hi.partIff hv).1 (by rw [ho]; rfl))
      obtain ⟨r, rp⟩ := rsS_fmp4 (n := n) c d ntp f hv ho hp
      refine ⟨tgt r, maxPart s.segments (segWithPart v o (closePart p c d)).parts, maxPart_nonneg _ _, ?_, ?_, ?_⟩
      · rw [rp, hl]; rfl
      · rw [r.segments]
        intro g hg q hq
        have := mem_reals.1 (mem_reals_trim (mem_reals.2 hg))
        have : g ∈ reals s.segments ++ [closeSeg (segWithPart v o (closePart p c d)) d] := by
          rw [← reals_appendSeg]; exact mem_reals.2 this
        rcases List.mem_append.1 this with h1 | h1
        · exact maxPart_ge_listed (mem_reals.1 h1) hq
        · simp only [List.mem_singleton] at h1; subst h1; exact maxPart_ge_open hq
      · rw [r.nextSegment]; intro x hx q hq; cases hx; cases hq

/-- operations that keep segments, the open segment's parts and both targets -/
theorem TgInv_of_eq {s r : StreamSt} (h : TgInv s) (h1 : r.segments = s.segments)
    (h2 : ∀ o', r.nextSegment = some o' → ∃ o, s.nextSegment = some o ∧ o'.parts = o.parts)
    (h3 : r.targetDur = s.targetDur) (h4 : r.partTargetDur = s.partTargetDur) : TgInv r := by
  obtain ⟨m, hm, hp, hlst, hop⟩ := h.ptarget
  refine ⟨by rw [h1, h3]; exact h.target, m, hm, by rw [h4]; exact hp, by rw [h1]; exact hlst, ?_⟩
  intro o' ho' q hq
  obtain ⟨o, ho, e⟩ := h2 o' ho'
  rw [e] at hq; exact hop o ho q hq

theorem TgInv_pwS {s : StreamSt} (h : TgInv s) (sz : Nat) (indep : Bool) : TgInv (pwS s sz indep) := by
  unfold pwS
  split
  · rename_i seg part ho hp
    exact TgInv_of_eq h rfl (fun o' ho' => ⟨seg, ho, by cases ho'; rfl⟩) rfl rfl
  · exact h

theorem TgInv_twS {s : StreamSt} (h : TgInv s) (u size e c) : TgInv (twS s u size e c) := by
  unfold twS
  split
  · exact h
  · rename_i seg ho
    refine TgInv_of_eq h rfl (fun o' ho' => ⟨seg, ho, ?_⟩) rfl rfl
    cases ho'
    simp only; split <;> split <;> rfl

/-- a stream that agrees with a `TgInv` stream on boundaries and carries its targets -/
theorem TgInv_of_key {s r : StreamSt} (h : TgInv s) (hk : KeyEq r s) (h3 : r.targetDur = s.targetDur)
    (h4 : r.partTargetDur = s.partTargetDur) : TgInv r := by
  obtain ⟨m, hm, hp, hlst, hop⟩ := h.ptarget
  have hmem : ∀ e ∈ r.segments, ∃ e' ∈ s.segments, e.key = e'.key := by
    intro e he
    have : e.key ∈ s.segments.map Entry.key := by rw [← hk.segs]; exact List.mem_map_of_mem he
    obtain ⟨e', he', hke⟩ := List.mem_map.1 this
    exact ⟨e', he', hke.symm⟩
  refine ⟨?_, m, hm, by rw [h4]; exact hp, ?_, ?_⟩
  · intro e he
    obtain ⟨e', he', hke⟩ := hmem e he
    rw [h3, Entry.key_duration hke]; exact h.target e' he'
  · intro g hg q hq
    obtain ⟨e', he', hke⟩ := hmem _ hg
    cases e' with
    | gap d => simp [Entry.key] at hke
    | seg g' =>
      simp only [Entry.key, Prod.mk.injEq, Option.some.injEq, and_true, Seg.key] at hke
      have : q.span ∈ g'.parts.map Part.span := by rw [← hke.2.2.2]; exact List.mem_map_of_mem hq
      obtain ⟨q', hq', hs⟩ := List.mem_map.1 this
      have hd : q.duration = q'.duration := by
        simp only [Part.span, Prod.mk.injEq] at hs; simp only [Part.duration, hs.1, hs.2]
      rw [hd]; exact hlst g' he' q' hq'
  · intro o ho q hq
    obtain ⟨o', ho', hko⟩ := opt_map_some (ho ▸ hk.opn)
    simp only [Seg.okey, Prod.mk.injEq] at hko
    have : q.span ∈ o'.parts.map Part.span := by rw [hko.2.2.2]; exact List.mem_map_of_mem hq
    obtain ⟨q', hq', hs⟩ := List.mem_map.1 this
    have hd : q.duration = q'.duration := by
      simp only [Part.span, Prod.mk.injEq] at hs; simp only [Part.duration, hs.1, hs.2]
    rw [hd]; exact hop o' ho' q' hq'

end Hls.Muxer
