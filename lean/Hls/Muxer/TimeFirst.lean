import Hls.Muxer.TimeReach
/-!
# The first unit of every segment (fMP4 variants) — helper file for C02 / C03

`FS st L`: in the leading stream `L` (= leading track `L`) every listed segment's first stored sample, and the first
sample of the open segment (stored, pending in the track, or still in the look-ahead), is a sync sample whose
DTS / NTP are the segment's `startDTS` / `startNTP`.  Preserved by every leading-track write that succeeds and is
not dropped for negative time (the property's well-formedness), and by every non-leading write.
-/
namespace Hls.Muxer
open Hls.Gen

/-- first sample of the first part-track of the first stored part -/
def segFirst (g : Seg) : Option Sample :=
  match g.stored with
  | p :: _ => (match p.content with | c :: _ => c.samples.head? | [] => none)
  | [] => none

def FirstOK (rate sd sn : Int) (x : Sample) : Prop := x.sync = true ∧ toDur x.dts rate = sd ∧ x.ntp = sn

/-- the open segment's first unit: stored, else pending in the track's sample list, else the sample `pend` -/
def OpenOK (rate : Int) (o : Seg) (samples : List Sample) (pend : Option Sample) : Prop :=
  match o.stored with
  | _ :: _ => ∃ x, segFirst o = some x ∧ FirstOK rate o.startDTS o.startNTP x
  | [] =>
    match samples with
    | x :: _ => FirstOK rate o.startDTS o.startNTP x
    | [] => ∃ x, pend = some x ∧ FirstOK rate o.startDTS o.startNTP x

structure FS (st : State) (L : Nat) : Prop where
  trackLt : L < st.tracks.length
  tracks1 : (st.stream L).tracks = [L]
  nextOfSeg : (st.stream L).nextSegment.isSome → (st.track L).next.isSome
  samplesNil : (st.stream L).nextSegment = none → (st.track L).samples = []
  preSync : (st.stream L).nextSegment = none → ∀ x, (st.track L).next = some x → x.sync = true
  listed : ∀ g ∈ reals (st.stream L).segments,
    ∃ x, segFirst g = some x ∧ FirstOK (st.tcfg L).clockRate g.startDTS g.startNTP x
  opn : ∀ o, (st.stream L).nextSegment = some o → OpenOK (st.tcfg L).clockRate o (st.track L).samples (st.track L).next

theorem lt_of_next_isSome {st : State} {L : Nat} (h : (st.track L).next.isSome) : L < st.tracks.length := by
  apply Classical.byContradiction; intro hc
  rw [track_default_next st L (Nat.le_of_not_lt hc)] at h; cases h

theorem segFirst_congr {g g' : Seg} (h : g.stored = g'.stored) : segFirst g = segFirst g' := by
  unfold segFirst; rw [h]

theorem OpenOK_congr {rate : Int} {o o' : Seg} {samples : List Sample} {pend : Option Sample}
    (h : OpenOK rate o samples pend) (h1 : o'.stored = o.stored) (h2 : o'.startDTS = o.startDTS)
    (h3 : o'.startNTP = o.startNTP) : OpenOK rate o' samples pend := by
  unfold OpenOK at *
  rw [h1, h2, h3, segFirst_congr h1]
  exact h

/-- closing the open part keeps / establishes the segment's first unit -/
theorem first_after_close {rate : Int} {v : Variant} {o : Seg} {samples : List Sample} {pend : Option Sample}
    (h : OpenOK rate o samples pend) (hne : samples ≠ []) (p : Part) (b d : Int) :
    ∃ x, segFirst (segWithPart v o (closePart p [{ id := 1, baseTime := b, samples := samples }] d)) = some x ∧
      FirstOK rate o.startDTS o.startNTP x := by
  unfold OpenOK at h
  cases hs : o.stored with
  | nil =>
    rw [hs] at h
    cases hsm : samples with
    | nil => exact absurd hsm hne
    | cons x xs =>
      rw [hsm] at h
      refine ⟨x, ?_, h⟩
      simp [segFirst, segWithPart, hs, closePart]
  | cons q r =>
    rw [hs] at h
    obtain ⟨x, hx, hok⟩ := h
    refine ⟨x, ?_, hok⟩
    rw [← hx]
    simp [segFirst, segWithPart, hs]

/-- the leading stream's part content when it has exactly its own track -/
theorem fpContent_lead {st : State} {L : Nat} (h1 : (st.stream L).tracks = [L]) (hne : (st.track L).samples ≠ []) :
    fpContent st L = [{ id := 1, baseTime := (st.track L).startDTS, samples := (st.track L).samples }] := by
  rw [fpContent_single st L L h1]
  split
  · rename_i h; exact absurd h hne
  · rfl

theorem rotateSegments_trackL {st : State} {L : Nat} (h : GI st L) (hv : st.cfg.variant ≠ .mpegts)
    (h1 : (st.stream L).tracks = [L]) {o : Seg} {p : Part} (ho : (st.stream L).nextSegment = some o)
    (hp : (st.stream L).nextPart = some p) (d n : Int) (f : Bool) :
    (rotateSegments st d n f).track L = clearSamples (st.track L) := by
  obtain ⟨_, _, _, _, hf⟩ := GI_rotateSegments h d n f
  have hx : (rotateSegmentsStream st L d n f).track L = clearSamples (st.track L) := by
    rw [rss_track]
    unfold rsPre
    rw [if_pos hv, rps_track_some st L d false L p o hp ho, h1]
    simp
  rcases hf.2.1 L with e | e
  · rw [e, hx]
  · rw [e, hx]; rfl

theorem rotateParts_trackL {st : State} {L : Nat} (h : GI st L) (hv : st.cfg.variant ≠ .mpegts)
    (h1 : (st.stream L).tracks = [L]) {o : Seg} {p : Part} (ho : (st.stream L).nextSegment = some o)
    (hp : (st.stream L).nextPart = some p) (d : Int) :
    (rotateParts st d).track L = clearSamples (st.track L) := by
  obtain ⟨_, _, _, _, hf⟩ := GI_rotateParts h hv d
  have hx : (rotatePartsStream st L d true).track L = clearSamples (st.track L) := by
    rw [rps_track_some st L d true L p o hp ho, h1]
    simp
  rcases hf.2.1 L with e | e
  · rw [e, hx]
  · rw [e, hx]; rfl

theorem tcfg_congr {st st' : State} (h : st'.cfg = st.cfg) (t : Nat) : st'.tcfg t = st.tcfg t := by
  unfold State.tcfg; rw [h]

/-- the state after the sample has been written into the open part of the leading stream -/
structure FSPost (st : State) (L : Nat) (nxt : Sample) : Prop where
  tracks1 : (st.stream L).tracks = [L]
  next : (st.track L).next = some nxt
  ne : (st.track L).samples ≠ []
  listed : ∀ g ∈ reals (st.stream L).segments,
    ∃ x, segFirst g = some x ∧ FirstOK (st.tcfg L).clockRate g.startDTS g.startNTP x
  opn : ∃ o p, (st.stream L).nextSegment = some o ∧ (st.stream L).nextPart = some p ∧
    OpenOK (st.tcfg L).clockRate o (st.track L).samples none

theorem FSPost.toFS {st : State} {L : Nat} {nxt : Sample} (h : FSPost st L nxt) : FS st L := by
  obtain ⟨o, p, ho, hp, hok⟩ := h.opn
  refine ⟨lt_of_next_isSome (by rw [h.next]; rfl), h.tracks1, fun _ => (by rw [h.next]; rfl), fun hn => (by rw [ho] at hn; cases hn),
    fun hn => (by rw [ho] at hn; cases hn), h.listed, ?_⟩
  intro o' ho'
  rw [ho] at ho'; cases ho'
  unfold OpenOK at hok ⊢
  cases hs : o.stored with
  | nil =>
    rw [hs] at hok
    cases hsm : (st.track L).samples with
    | nil => exact absurd hsm h.ne
    | cons x xs => rw [hsm] at hok; exact hok
  | cons q r => rw [hs] at hok; exact hok

/-- a due segment switch after the write -/
theorem FS_rotateSegments {st : State} {L : Nat} {nxt : Sample} (hg : GI st L) (hv : st.cfg.variant ≠ .mpegts)
    (h : FSPost st L nxt) (hsync : nxt.sync = true) (f : Bool) :
    FS (rotateSegments st (toDur nxt.dts (st.tcfg L).clockRate) nxt.ntp f) L := by
  obtain ⟨o, p, ho, hp, hok⟩ := h.opn
  obtain ⟨_, hfr, _, hL, _⟩ := GI_rotateSegments hg (toDur nxt.dts (st.tcfg L).clockRate) nxt.ntp f
  have htr := rotateSegments_trackL hg hv h.tracks1 ho hp (toDur nxt.dts (st.tcfg L).clockRate) nxt.ntp f
  have hc := fpContent_lead h.tracks1 h.ne
  obtain ⟨r, _⟩ := rsS_fmp4 (n := st.cfg.segmentCount) (fpContent st L) (toDur nxt.dts (st.tcfg L).clockRate) nxt.ntp f hv ho hp
  rw [← hL] at r
  have hrate := tcfg_congr hfr.cfg L
  refine ⟨lt_of_next_isSome (by rw [htr]; simp [h.next]), (by rw [r.tracks]; exact h.tracks1),
    fun _ => (by rw [htr]; simp [h.next]), ?_, ?_, ?_, ?_⟩
  · intro hn; rw [r.nextSegment] at hn; cases hn
  · intro hn; rw [r.nextSegment] at hn; cases hn
  · intro g hgm
    rw [r.segments] at hgm
    have := mem_reals_trim hgm
    rw [reals_appendSeg] at this
    rw [hrate]
    rcases List.mem_append.1 this with h1 | h1
    · exact h.listed g h1
    · simp only [List.mem_singleton] at h1
      subst h1
      rw [hc]
      exact first_after_close (v := st.cfg.variant) hok h.ne p _ _
  · intro o' ho'
    rw [r.nextSegment] at ho'; cases ho'
    rw [htr, hrate]
    simp only [OpenOK, clearSamples_samples, clearSamples_next, h.next]
    exact ⟨nxt, rfl, hsync, rfl, rfl⟩

/-- a due part switch after the write -/
theorem FS_rotateParts {st : State} {L : Nat} {nxt : Sample} (hg : GI st L) (hv : st.cfg.variant ≠ .mpegts)
    (h : FSPost st L nxt) (d : Int) : FS (rotateParts st d) L := by
  obtain ⟨o, p, ho, hp, hok⟩ := h.opn
  obtain ⟨_, hfr, _, hL, _⟩ := GI_rotateParts hg hv d
  have htr := rotateParts_trackL hg hv h.tracks1 ho hp d
  have hc := fpContent_lead h.tracks1 h.ne
  have r := rpS_some (v := st.cfg.variant) (fpContent st L) d true ho hp
  rw [← hL] at r
  have hrate := tcfg_congr hfr.cfg L
  refine ⟨lt_of_next_isSome (by rw [htr]; simp [h.next]), (by rw [r.tracks]; exact h.tracks1),
    fun _ => (by rw [htr]; simp [h.next]), ?_, ?_, ?_, ?_⟩
  · intro hn; rw [r.nextSegment] at hn; cases hn
  · intro hn; rw [r.nextSegment] at hn; cases hn
  · intro g hgm; rw [r.segments] at hgm; rw [hrate]; exact h.listed g hgm
  · intro o' ho'
    rw [r.nextSegment] at ho'; cases ho'
    rw [hrate, hc]
    obtain ⟨x, hx, hfo⟩ := first_after_close (v := st.cfg.variant) hok h.ne p (st.track L).startDTS d
    unfold OpenOK
    have hst : (segWithPart st.cfg.variant o (closePart p [{ id := 1, baseTime := (st.track L).startDTS, samples := (st.track L).samples }] d)).stored ≠ [] := by
      simp [segWithPart]
    split
    · exact ⟨x, hx, hfo⟩
    · rename_i hnil; exact absurd hnil hst


theorem FS_congr {st st' : State} {L : Nat} (h : FS st L) (hc : st'.cfg = st.cfg) (hs : st'.streams = st.streams)
    (ht : st'.tracks = st.tracks) : FS st' L := by
  have e1 : st'.stream L = st.stream L := stream_eq_of_streams hs L
  have e2 : st'.track L = st.track L := by simp only [State.track, ht]
  have e3 : st'.tcfg L = st.tcfg L := tcfg_congr hc L
  obtain ⟨a0, a, b, c, e, f, g⟩ := h
  exact ⟨by rw [ht]; exact a0, by rw [e1]; exact a, by rw [e1, e2]; exact b, by rw [e1, e2]; exact c,
    by rw [e1, e2]; exact e, by rw [e1, e3]; exact f, by rw [e1, e2, e3]; exact g⟩

theorem adjust_frame (st : State) (sd : Int) :
    (adjustPartDuration st sd).cfg = st.cfg ∧ (adjustPartDuration st sd).streams = st.streams ∧
    (adjustPartDuration st sd).tracks = st.tracks ∧ (adjustPartDuration st sd).pending = st.pending := by
  unfold adjustPartDuration
  split
  · exact ⟨rfl, rfl, rfl, rfl⟩
  · split
    · exact ⟨rfl, rfl, rfl, rfl⟩
    · split <;> exact ⟨rfl, rfl, rfl, rfl⟩

/-- `fwSt2` when the track is the leading one -/
theorem fwSt2_lead {st : State} {L : Nat} (hg : GI st L) (hlead : st.isLeadingTrack L = true) (hso : st.streamOf L = L)
    (smp old : Sample) :
    (fwSt2 st L smp old).cfg = st.cfg ∧ (fwSt2 st L smp old).tracks = (fwSt1 st L smp).tracks ∧
    (fwSt2 st L smp old).streams.length = st.streams.length ∧
    (fwSt2 st L smp old).stream L =
      if (st.stream L).nextSegment.isSome then st.stream L
      else cfS st.cfg.variant (st.stream L) (toDur old.dts (st.tcfg L).clockRate) old.ntp := by
  have hl1 : (fwSt1 st L smp).isLeadingTrack L = true := hlead
  have hs1 : (fwSt1 st L smp).streamOf L = L := hso
  unfold fwSt2
  simp only [hl1, hs1, Bool.true_and, if_true]
  have e1 : (fwSt1 st L smp).stream L = st.stream L := rfl
  rw [e1]
  cases hx : (st.stream L).nextSegment with
  | some o =>
    simp only [Option.isSome_some, Bool.not_true, Bool.false_eq_true, if_false, if_true]
    obtain ⟨a, b, c, _⟩ := adjust_frame (fwSt1 st L smp) (toDur ((fwSmp st L smp).dts - old.dts) (st.tcfg L).clockRate)
    exact ⟨a, c, by rw [b]; rfl, by rw [stream_eq_of_streams b]; rfl⟩
  | none =>
    simp only [Option.isSome_none, Bool.not_false, if_true, Bool.false_eq_true, if_false]
    obtain ⟨a, b, c, _⟩ := adjust_frame (createFirstSegment (fwSt1 st L smp) (toDur old.dts (st.tcfg L).clockRate) old.ntp)
      (toDur ((fwSmp st L smp).dts - old.dts) (st.tcfg L).clockRate)
    obtain ⟨hf, hlen, hs⟩ := createFirstSegment_spec (fwSt1 st L smp) (toDur old.dts (st.tcfg L).clockRate) old.ntp
    refine ⟨a.trans hf.1.1, c.trans hf.2.1, by rw [b, hlen]; rfl, ?_⟩
    rw [stream_eq_of_streams b, hs L hg.lt]
    rfl

theorem sample_dur_FirstOK {rate sd sn : Int} {x : Sample} (h : FirstOK rate sd sn x) (d : Int) :
    FirstOK rate sd sn { x with dur := d } := h

theorem FS_fmp4Write_lead {st : State} {L : Nat} (hg : GI st L) (hfs : FS st L) (hv : st.cfg.variant ≠ .mpegts)
    (hlead : st.isLeadingTrack L = true) (hso : st.streamOf L = L)
    (ra ch : Bool) (smp : Sample) (hra : ra = smp.sync) (hnn : ¬ (fwSmp st L smp).dts < 0)
    (hfirst : (st.track L).next = none → smp.sync = true)
    (hok : (fmp4Write st L ra ch smp).2 = .ok) :
    FS (fmp4Write st L ra ch smp).1 L ∧ ((fmp4Write st L ra ch smp).1.track L).next.isSome := by
  rw [fmp4Write_eq] at hok ⊢
  simp only [hnn, if_false] at hok ⊢
  have hl1 : (fwSt1 st L smp).isLeadingTrack L = true := hlead
  have hs1 : (fwSt1 st L smp).streamOf L = L := hso
  have ht1 : (fwSt1 st L smp).track L = { st.track L with next := some (fwSmp st L smp) } := by
    unfold fwSt1; rw [track_setTrack]; simp [hfs.trackLt]
  cases hnx : (st.track L).next with
  | none =>
    simp only [hnx] at hok ⊢
    have hnoseg : (st.stream L).nextSegment = none := by
      cases hx : (st.stream L).nextSegment with
      | none => rfl
      | some o => have := hfs.nextOfSeg (by rw [hx]; rfl); rw [hnx] at this; cases this
    have e1 : (fwSt1 st L smp).stream L = st.stream L := rfl
    refine ⟨⟨by unfold fwSt1; simp [hfs.trackLt], by rw [e1]; exact hfs.tracks1, fun _ => by rw [ht1]; rfl,
      fun _ => by rw [ht1]; exact hfs.samplesNil hnoseg, ?_, ?_, ?_⟩, by rw [ht1]; rfl⟩
    · intro _ x hx
      rw [ht1] at hx
      simp only [Option.some.injEq] at hx
      subst hx
      exact hfirst hnx
    · rw [e1, hg.sinv L hg.lt |>.noSeg hnoseg]; intro g hgm; simp [reals] at hgm
    · rw [e1, hnoseg]; intro o ho; cases ho
  | some old =>
    simp only [hnx, hl1, hs1, Bool.not_true, Bool.false_and, Bool.false_eq_true, if_false] at hok ⊢
    obtain ⟨c2, t2, len2, s2⟩ := fwSt2_lead hg hlead hso smp old
    have hg2 : GI (fwSt2 st L smp old) L := (Step_fwSt2 hg L smp old).gi
    have htr2 : (fwSt2 st L smp old).track L = { st.track L with next := some (fwSmp st L smp) } := by
      rw [← ht1]; simp only [State.track, t2]
    have hrate2 : (fwSt2 st L smp old).tcfg L = st.tcfg L := tcfg_congr c2 L
    -- the open segment before the sample is written
    have hmid : ∃ o p, ((fwSt2 st L smp old).stream L).nextSegment = some o ∧
        ((fwSt2 st L smp old).stream L).nextPart = some p ∧
        OpenOK (st.tcfg L).clockRate o (st.track L).samples (some old) ∧
        ((fwSt2 st L smp old).stream L).segments = (st.stream L).segments ∧
        ((fwSt2 st L smp old).stream L).tracks = [L] := by
      have hv2 : (fwSt2 st L smp old).cfg.variant ≠ .mpegts := by rw [c2]; exact hv
      have hp : ∀ o, ((fwSt2 st L smp old).stream L).nextSegment = some o →
          ∃ p, ((fwSt2 st L smp old).stream L).nextPart = some p := by
        intro o ho
        have := ((hg2.sinv L hg2.lt).partIff hv2).1 (by rw [ho]; rfl)
        exact Option.isSome_iff_exists.1 this
      cases hx : (st.stream L).nextSegment with
      | some o =>
        rw [hx] at s2
        simp only [Option.isSome_some, if_true] at s2
        obtain ⟨p, hp'⟩ := hp o (by rw [s2]; exact hx)
        refine ⟨o, p, by rw [s2]; exact hx, hp', ?_, by rw [s2], by rw [s2]; exact hfs.tracks1⟩
        have := hfs.opn o hx
        rw [hnx] at this; exact this
      | none =>
        rw [hx] at s2
        simp only [Option.isSome_none, Bool.false_eq_true, if_false] at s2
        have f := cfS_fields st.cfg.variant (st.stream L) (toDur old.dts (st.tcfg L).clockRate) old.ntp
        have e2 : (cfS st.cfg.variant (st.stream L) (toDur old.dts (st.tcfg L).clockRate) old.ntp).nextSegment =
            some { id := (st.stream L).nextSegmentID, startDTS := toDur old.dts (st.tcfg L).clockRate, startNTP := old.ntp } := by
          unfold cfS; cases st.cfg.variant <;> rfl
        obtain ⟨p, hp'⟩ := hp _ (by rw [s2]; exact e2)
        refine ⟨_, p, by rw [s2]; exact e2, hp', ?_, by rw [s2]; exact f.2.2.2.2.1,
          by rw [s2, f.2.2.2.1]; exact hfs.tracks1⟩
        simp only [OpenOK, hfs.samplesNil hx]
        exact ⟨old, rfl, hfs.preSync hx old hnx, rfl, rfl⟩
    obtain ⟨o, p, ho2, hp2, hok2, hseg2, htk2⟩ := hmid
    cases hw : partWriteSample (fwSt2 st L smp old) L (fwOld st L smp old) with
    | mk st3 r =>
      rw [hw] at hok
      cases r with
      | err => cases hok
      | ok =>
        simp only at hok ⊢
        have hg3 : GI st3 L := GI_partWriteSample hg2 L _ .ok hw
        obtain ⟨indep, e3, _, _, _⟩ := pws_ok _ _ _ _ hw
        have hso2 : (fwSt2 st L smp old).streamOf L = L := by rw [streamOf_congr c2]; exact hso
        rw [hso2] at e3
        have c3 : st3.cfg = st.cfg := by rw [e3]; exact c2
        have hs3 : st3.streams = (fwSt2 st L smp old).streams.set L (pwS ((fwSt2 st L smp old).stream L) (fwOld st L smp old).size indep) := by
          rw [e3]; rfl
        have hL2 : L < (fwSt2 st L smp old).streams.length := by rw [len2]; exact hg.lt
        have hst3 : st3.stream L = pwS ((fwSt2 st L smp old).stream L) (fwOld st L smp old).size indep :=
          stream_of_set_same hs3 hL2
        have hLt2 : L < (fwSt2 st L smp old).tracks.length := by
          rw [t2]; unfold fwSt1; simp [hfs.trackLt]
        have htr3 : st3.track L = pwT ((fwSt2 st L smp old).track L) (fwOld st L smp old) := by
          rw [e3]; simp only [setStream_track, track_setTrack, hLt2, and_self, if_true]
        have hrate3 : st3.tcfg L = st.tcfg L := tcfg_congr c3 L
        -- open segment after the write
        have hpw : ∃ o3 p3, (st3.stream L).nextSegment = some o3 ∧ (st3.stream L).nextPart = some p3 ∧
            o3.stored = o.stored ∧ o3.startDTS = o.startDTS ∧ o3.startNTP = o.startNTP := by
          rw [hst3]; unfold pwS; simp only [ho2, hp2]
          exact ⟨_, _, rfl, rfl, rfl, rfl, rfl⟩
        obtain ⟨o3, p3, ho3, hp3, k1, k2, k3⟩ := hpw
        have hsm3 : (st3.track L).samples = (st.track L).samples ++ [fwOld st L smp old] := by
          rw [htr3, pwT_samples, htr2]
        have hpost : FSPost st3 L (fwSmp st L smp) := by
          refine ⟨by rw [hst3, (pwS_fields ..).2.2.2.1]; exact htk2, by rw [htr3, pwT_next, htr2],
            by rw [hsm3]; simp, ?_, o3, p3, ho3, hp3, ?_⟩
          · rw [hst3, (pwS_fields ..).2.2.2.2.1, hseg2, hrate3]; exact hfs.listed
          · rw [hrate3, hsm3]
            refine OpenOK_congr ?_ k1 k2 k3
            unfold OpenOK at hok2 ⊢
            cases hso : o.stored with
            | cons q r => rw [hso] at hok2; exact hok2
            | nil =>
              rw [hso] at hok2
              cases hsm : (st.track L).samples with
              | cons x xs => rw [hsm] at hok2; exact hok2
              | nil =>
                rw [hsm] at hok2
                obtain ⟨x, hx, hfo⟩ := hok2
                cases hx
                exact hfo
        -- the switch decision
        unfold fwTail
        by_cases h1 : fwDue st L ra ch smp st3 = true
        · simp only [h1, if_true]
          have hra1 : (fwSmp st L smp).sync = true := by
            unfold fwDue at h1
            simp only [Bool.and_eq_true] at h1
            have : smp.sync = true := by rw [← hra]; exact h1.1
            exact this
          have hv3 : st3.cfg.variant ≠ .mpegts := by rw [c3]; exact hv
          have := FS_rotateSegments hg3 hv3 hpost hra1 ch
          rw [hrate3] at this
          have hfs4 : FS (fwRotate st L ch smp st3) L := by
            unfold fwRotate
            cases ch <;> exact FS_congr this rfl rfl rfl
          exact ⟨hfs4, hfs4.nextOfSeg (by
            cases hx : ((fwRotate st L ch smp st3).stream L).nextSegment with
            | some _ => rfl
            | none =>
              exfalso
              have hs := Step_rotateSegments hg3 (toDur (fwSmp st L smp).dts (st.tcfg L).clockRate) (fwSmp st L smp).ntp ch
              obtain ⟨_, _, _, hL4, _⟩ := GI_rotateSegments hg3 (toDur (fwSmp st L smp).dts (st.tcfg L).clockRate) (fwSmp st L smp).ntp ch
              obtain ⟨r4, _⟩ := rsS_fmp4 (n := st3.cfg.segmentCount) (fpContent st3 L) (toDur (fwSmp st L smp).dts (st.tcfg L).clockRate) (fwSmp st L smp).ntp ch hv3 ho3 hp3
              rw [← hL4] at r4
              have e : ((fwRotate st L ch smp st3).stream L) = ((rotateSegments st3 (toDur (fwSmp st L smp).dts (st.tcfg L).clockRate) (fwSmp st L smp).ntp ch).stream L) := by
                unfold fwRotate; cases ch <;> rfl
              rw [e, r4.nextSegment] at hx; cases hx)⟩
        · simp only [h1, if_false, Bool.false_eq_true]
          by_cases h2 : fwPartDue st L smp st3
          · simp only [h2, if_true]
            have hv3 : st3.cfg.variant ≠ .mpegts := by rw [c3]; exact hv
            have hfs4 := FS_rotateParts hg3 hv3 hpost (toDur (fwSmp st L smp).dts (st.tcfg L).clockRate)
            refine ⟨hfs4, ?_⟩
            rw [rotateParts_trackL hg3 hv3 hpost.tracks1 ho3 hp3]
            simp [hpost.next]
          · simp only [h2, if_false]
            exact ⟨hpost.toFS, by rw [hpost.next]; rfl⟩

end Hls.Muxer
