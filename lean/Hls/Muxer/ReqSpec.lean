import Hls.Muxer.Model
/-!
# C06 (sequential half) — specification vocabulary

Definitions used in the statements of `Hls/Props/C06.lean` (what "listed under media sequence number
M", "published", "roll-over normalisation" mean), the query-string model of `filterOutHLSParams`, and
the model of `parseMSNPart` (`strconv.ParseUint(_, 10, 64)` acceptance).  Definitions only.
-/
namespace Hls.Muxer

/-- number of parts itemised under an entry; a gap entry has none -/
def Entry.partCount : Entry → Nat
  | .gap _ => 0
  | .seg g => g.parts.length

/-- the entry listed under media sequence number `M` (`EXT-X-MEDIA-SEQUENCE` = `deleteCount`) -/
def StreamSt.entryAt (s : StreamSt) (M : Nat) : Option Entry :=
  if M < s.deleteCount then none else s.segments[M - s.deleteCount]?

/-- part `P` of segment `M` is published: `M` is the open segment and has more than `P` parts, or `M`
    is a listed entry with more than `P` parts. -/
def StreamSt.published (s : StreamSt) (M P : Nat) : Prop :=
  (M = s.nextSegmentID ∧ P < s.openPartCount) ∨ (∃ e, s.entryAt M = some e ∧ P < e.partCount)

/-- the complete segment `M` is listed -/
def StreamSt.listed (s : StreamSt) (M : Nat) : Prop := (s.entryAt M).isSome

/-- Roll-over over the listed entries starting at the one listed under `M`: a part index past the end
    of a COMPLETE (listed) segment counts as part 0 of the following segment (RFC 8216bis 6.2.5.2); the
    walk stops at the first entry that has more than `P` parts, or past the last listed entry (the open
    segment is not complete: no roll-over out of it).  A gap entry has no parts. -/
def normFrom : List Entry → Nat → Nat → Nat × Nat
  | [], M, P => (M, P)
  | e :: rest, M, P => if P < e.partCount then (M, P) else normFrom rest (M + 1) 0

def StreamSt.normalise (s : StreamSt) (M P : Nat) : Nat × Nat :=
  if M < s.deleteCount then (M, P) else normFrom (s.segments.drop (M - s.deleteCount)) M P

/-- the code's expiry threshold `nextSegmentID - uint64(len(segments) - 1)` in uint64 arithmetic -/
def StreamSt.lowerBound (s : StreamSt) : Nat :=
  (s.nextSegmentID + two64 - ((s.segments.length + two64 - 1) % two64)) % two64

end Hls.Muxer
