import Hls.Muxer.Model
/-!
# C06 (sequential half) — specification vocabulary

Definitions used in the statements of `Hls/Props/C06.lean` (what "listed under media sequence number
M", "published", "roll-over normalisation" mean), the query-string model of `filterOutHLSParams`, and
the model of `parseMSNPart` (`strconv.ParseUint(_, 10, 64)` acceptance).  Definitions only.
-/
namespace Hls.Muxer

/-- number of parts itemised under an entry; a gap entry has none -/
def Entry.partCount : Entry → Nat
  | .gap _ => 0
  | .seg g => g.parts.length

/-- the entry listed under media sequence number `M` (`EXT-X-MEDIA-SEQUENCE` = `deleteCount`) -/
def StreamSt.entryAt (s : StreamSt) (M : Nat) : Option Entry :=
  if M < s.deleteCount then none else s.segments[M - s.deleteCount]?

/-- part `P` of segment `M` is published: `M` is the open segment and has more than `P` parts, or `M`
    is a listed entry with more than `P` parts. -/
def StreamSt.published (s : StreamSt) (M P : Nat) : Prop :=
  (M = s.nextSegmentID ∧ P < s.openPartCount) ∨ (∃ e, s.entryAt M = some e ∧ P < e.partCount)

/-- executable form of `published` -/
def StreamSt.publishedB (s : StreamSt) (M P : Nat) : Bool :=
  (decide (M = s.nextSegmentID) && decide (P < s.openPartCount)) ||
  (match s.entryAt M with | some e => decide (P < e.partCount) | none => false)

theorem StreamSt.published_iff_B (s : StreamSt) (M P : Nat) : s.published M P ↔ s.publishedB M P = true := by
  unfold StreamSt.published StreamSt.publishedB
  cases s.entryAt M with
  | none => simp
  | some e => simp

instance (s : StreamSt) (M P : Nat) : Decidable (s.published M P) :=
  decidable_of_iff _ (s.published_iff_B M P).symm

/-- the complete segment `M` is listed -/
def StreamSt.listed (s : StreamSt) (M : Nat) : Prop := (s.entryAt M).isSome

instance (s : StreamSt) (M : Nat) : Decidable (s.listed M) := by unfold StreamSt.listed; infer_instance

/-- Roll-over over the listed entries starting at the one listed under `M`: a part index past the end
    of a COMPLETE (listed) segment counts as part 0 of the following segment (RFC 8216bis 6.2.5.2); the
    walk stops at the first entry that has more than `P` parts, or past the last listed entry (the open
    segment is not complete: no roll-over out of it).  A gap entry has no parts. -/
def normFrom : List Entry → Nat → Nat → Nat × Nat
  | [], M, P => (M, P)
  | e :: rest, M, P => if P < e.partCount then (M, P) else normFrom rest (M + 1) 0

def StreamSt.normalise (s : StreamSt) (M P : Nat) : Nat × Nat :=
  if M < s.deleteCount then (M, P) else normFrom (s.segments.drop (M - s.deleteCount)) M P

/-- `hasPart`'s scan BEFORE the F7 repair (gap entries carried no id and never matched) — kept for the
    witness lemmas about the legacy behaviour. -/
def hasPartScanLegacy (nextID openParts : Nat) : List Entry → Nat → Nat → Bool
  | [], m, p => decide (m = nextID ∧ p < openParts)
  | .gap _ :: rest, m, p => hasPartScanLegacy nextID openParts rest m p
  | .seg g :: rest, m, p =>
    if m = g.id then
      if p ≥ g.parts.length then hasPartScanLegacy nextID openParts rest (m + 1) 0
      else true
    else hasPartScanLegacy nextID openParts rest m p

def StreamSt.hasPartLegacy (s : StreamSt) (m p : Nat) : Bool :=
  if m = s.nextSegmentID then decide (p < s.openPartCount)
  else hasPartScanLegacy s.nextSegmentID s.openPartCount s.segments m p

/-- the code's expiry threshold `nextSegmentID - uint64(len(segments) - 1)` in uint64 arithmetic -/
def StreamSt.lowerBound (s : StreamSt) : Nat :=
  (s.nextSegmentID + two64 - ((s.segments.length + two64 - 1) % two64)) % two64

/-- `st` is a state of a started Low-Latency muxer after some sequence of `Write*` calls -/
def Reachable (st : State) : Prop :=
  ∃ (cfg : Cfg) (st0 : State) (ops : List WriteOp), cfg.variant = .ll ∧ start cfg = .ok st0 ∧ st = run st0 ops

/-- the served playlist `pl` (stream `si` in state `s`) covers the complete segment `M`: `M` lies in
    `[MEDIA-SEQUENCE, MEDIA-SEQUENCE + SKIPPED-SEGMENTS + #entries)`, and if its entry is itemised (not
    replaced by `EXT-X-SKIP`) it is the gap entry / the URI of segment `M`. -/
def containsSeg (si : Nat) (s : StreamSt) (pl : Playlist) (M : Nat) : Prop :=
  ∃ e, s.entryAt M = some e ∧
    pl.mediaSeq ≤ M ∧ M < pl.mediaSeq + pl.skipped.getD 0 + pl.segments.length ∧
    ∀ j q, pl.mediaSeq + pl.skipped.getD 0 + j = M → pl.segments[j]? = some q →
      match e with
      | .gap _ => q.gap = true ∧ q.key = none
      | .seg _ => q.gap = false ∧ q.key = some (.seg si M)

/-- the served playlist contains part `P` of segment `M`: either `M` is the open segment and the part
    is the `P`-th `EXT-X-PART` after the last segment, or `M` is a listed complete segment that really
    has a `P`-th part `p`, the playlist covers `M`, and — when the entry is itemised — it carries the URI
    of segment `M` and lists `p` as its `P`-th part if `M` is one of the last two complete segments; for
    older segments parts are no longer itemised (`parts = []`): the part is contained in the listed
    segment file (consistency of a segment with its parts is property C05). -/
def containsPart (si : Nat) (s : StreamSt) (pl : Playlist) (M P : Nat) : Prop :=
  (M = s.nextSegmentID ∧ ∃ g p, s.nextSegment = some g ∧ g.parts[P]? = some p ∧ pl.parts[P]? = some (plPart si p)) ∨
  (∃ g p, s.entryAt M = some (.seg g) ∧ g.parts[P]? = some p ∧
    pl.mediaSeq ≤ M ∧ M < pl.mediaSeq + pl.skipped.getD 0 + pl.segments.length ∧
    ∀ j q, pl.mediaSeq + pl.skipped.getD 0 + j = M → pl.segments[j]? = some q →
      q.key = some (.seg si M) ∧
      (if s.nextSegmentID ≤ M + 2 then q.parts[P]? = some (plPart si p) else q.parts = []))

/-- cumulative duration of a list of entries -/
def cumDur (l : List Entry) : Int := (l.map Entry.duration).sum

/-! ## `parseMSNPart` and the request as the handler sees it -/

/-- `strconv.ParseUint(s, 10, 64)` acceptance: non-empty, decimal digits only (no sign, no `_`), value `< 2^64`. -/
def parseUint64 (s : String) : Option Nat :=
  if s.isEmpty then none
  else if s.toList.all Char.isDigit then
    let v := s.toList.foldl (fun a c => 10 * a + (c.toNat - 48)) 0
    if v < two64 then some v else none
  else none

/-- `parseMSNPart(msn, part)`: `""` = parameter absent (`queryVal`); `none` = error ⇒ 400. -/
def parseMSNPart (msn part : String) : Option (Option Nat × Option Nat) :=
  let one (s : String) : Option (Option Nat) := if s = "" then some none else (parseUint64 s).map some
  match one msn, one part with
  | some m, some p => some (m, p)
  | _, _ => none

/-- the decision of `handleMediaPlaylist` from the raw query values -/
def reqDecisionRaw (st : State) (si : Nat) (msn part : String) (skip : Bool) : ReqDecision :=
  if st.cfg.variant = .ll then
    match parseMSNPart msn part with
    | none => .bad400
    | some (m, p) => reqDecision st si m p skip
  else reqDecision st si none none skip

/-! ## the query string copied into the listed URIs -/

/-- The raw query as `filterOutHLSParams` sees it (`url.ParseQuery` / `Values.Encode` are trusted):
    empty, or a non-empty text `raw` that `url.ParseQuery` turns into key/value pairs `q` (in order of
    appearance; malformed pairs — invalid `%` escape, `;` separator — are dropped) and an error flag
    (`ok = false` iff some pair was malformed).  `URL.Query()`, which the handler uses to read the
    directives, returns the same `q` and ignores the error. -/
inductive RawQuery
  | empty
  | parsed (raw : String) (q : List (String × String)) (ok : Bool)
  deriving Repr, DecidableEq

/-- what is appended after `?` to every listed URI -/
inductive OutQuery
  | none
  | pairs (q : List (String × String))
  | raw (s : String)
  deriving Repr, DecidableEq

def isHLSKey (k : String) : Bool := "_HLS_".isPrefixOf k

/-- insert a pair before the first pair whose key is not smaller (stable for equal keys) -/
def insertKV (kv : String × String) : List (String × String) → List (String × String)
  | [] => [kv]
  | x :: xs => if x.1 < kv.1 then x :: insertKV kv xs else kv :: x :: xs

/-- `Values.Encode` emits the keys in sorted order (values of one key keep their order): a stable
    insertion sort by key. -/
def encodeOrder (q : List (String × String)) : List (String × String) :=
  q.foldr insertKV []

/-- `filterOutHLSParams(rawQuery)` (after commit 2aaf62b): the pairs that could be parsed, minus the
    `_HLS_*` keys, re-encoded; the parse error is ignored exactly as `URL.Query()` ignores it. -/
def filterOutHLSParams : RawQuery → OutQuery
  | .empty => .none
  | .parsed _ q _ => .pairs (encodeOrder (q.filter fun kv => !isHLSKey kv.1))

/-- the behaviour BEFORE commit 2aaf62b (finding F20): a query that `url.ParseQuery` rejects was
    passed through unfiltered. -/
def filterLegacy : RawQuery → OutQuery
  | .empty => .none
  | .parsed raw q ok => if ok then .pairs (encodeOrder (q.filter fun kv => !isHLSKey kv.1)) else .raw raw

/-- a listed URI: the path (`none` = the literal `gap.mp4`, which never gets a query) and its query -/
structure Uri where
  key   : Option PathKey
  query : OutQuery
  deriving Repr, DecidableEq

def uriOf (k : PathKey) (o : OutQuery) : Uri := { key := some k, query := o }

/-- every URI a media playlist lists, rendered with the filtered query -/
def playlistUris (pl : Playlist) (o : OutQuery) : List Uri :=
  (match pl.map with | some k => [uriOf k o] | none => []) ++
  (pl.segments.flatMap fun g =>
    (match g.key with | some k => [uriOf k o] | none => [{ key := none, query := .none }]) ++
    g.parts.map (fun p => uriOf p.key o)) ++
  pl.parts.map (fun p => uriOf p.key o) ++
  (match pl.hint with | some k => [uriOf k o] | none => [])

/-- no `_HLS_` directive in a query -/
def OutQuery.hlsFree : OutQuery → Prop
  | .none => True
  | .pairs q => ∀ kv ∈ q, isHLSKey kv.1 = false
  | .raw s => ∀ i, ¬ ("_HLS_".toList.isPrefixOf (s.toList.drop i))   -- no occurrence of the text "_HLS_"

end Hls.Muxer
