import Hls.Muxer.Model
/-!
  Specification vocabulary of C05 (DEFINITIONS ONLY — no lemmas here).

  Everything that occurs in a statement of `Hls/Props/C05.lean` and is not defined in
  `Hls/Muxer/Model.lean` is defined in this file, so that the property statements can be read
  against two files only.
-/
namespace Hls.Muxer.Paths
open Hls.Muxer

/-- the real (non-gap) entries of a stream's segment window, in order -/
def realSegs (s : StreamSt) : List Seg :=
  s.segments.filterMap fun e => match e with | .seg g => some g | .gap _ => none

/-- parts advertised under the open segment (`nextSegment.parts`) -/
def openParts (s : StreamSt) : List Part :=
  match s.nextSegment with | some g => g.parts | none => []

/-- finalized storage parts of the open segment -/
def openStored (s : StreamSt) : List Part :=
  match s.nextSegment with | some g => g.stored | none => []

/-- every advertised part of the stream: parts of the window's real segments, then of the open one -/
def winParts (s : StreamSt) : List Part := (realSegs s).flatMap (·.parts) ++ openParts s

/-- every finalized storage part of the stream, in storage order -/
def winStored (s : StreamSt) : List Part := (realSegs s).flatMap (·.stored) ++ openStored s

/-- the closure registered for a finished segment (`segment.reader()` copied to the response) -/
def segHandler (v : Variant) (g : Seg) : Handler :=
  if v = .mpegts then .segTS g.tsUnits else .segFMP4 g.stored

/-- the body a finished segment is served with -/
def segBody (v : Variant) (g : Seg) : Body :=
  if v = .mpegts then .segTS g.tsUnits else .segFMP4 g.stored

/-- `Registered st k h`: key `k` is supposed to be bound to handler `h` in state `st`
    (the right-hand side of `c05_paths_exact`). -/
def Registered (st : State) : PathKey → Handler → Prop
  | .index, h => h = .multivariant
  | .playlist si, h => si < st.streams.length ∧ h = .mediaPlaylist si
  | .init si, h => (st.stream si).initPresent = true ∧ ∃ ps, h = .init ps
  | .seg si id, h => ∃ g, Entry.seg g ∈ (st.stream si).segments ∧ g.id = id ∧ h = segHandler st.cfg.variant g
  | .part si id, h => st.cfg.variant = .ll ∧
      ((∃ p, p ∈ winParts (st.stream si) ∧ p.id = id ∧ h = .part p) ∨
       (id = (st.stream si).nextPartID ∧ 0 < id ∧ h = .hint si id))

def isInitKey : PathKey → Bool
  | .init _ => true
  | _ => false

/-- segment and part keys (the media URIs whose content must never change) -/
def isMediaKey : PathKey → Bool
  | .seg _ _ | .part _ _ => true
  | _ => false

/-- a body that is real media content (not "nothing", not the waiting preload hint, not init / playlist) -/
def isContent : Body → Bool
  | .segFMP4 _ | .segTS _ | .part _ => true
  | _ => false

/-- the segment keys and part keys listed by a media playlist (not the map, not the hint) -/
def listedMedia (p : Playlist) : List PathKey :=
  (p.segments.flatMap fun g => (match g.key with | some k => [k] | none => []) ++ g.parts.map (·.key)) ++
  p.parts.map (·.key)

/-- a state reachable from `start cfg` by a list of writes -/
def Reachable (cfg : Cfg) (st : State) : Prop :=
  ∃ st0 ops, start cfg = .ok st0 ∧ st = run st0 ops

end Hls.Muxer.Paths
