import Hls.Muxer.InvStream
/-! Path table and Directory invariants (C18 / C05): what is registered is allowed by the current windows. -/
namespace Hls.Muxer

def keys (ps : List (PathKey × Handler)) : List PathKey := ps.map (·.1)

theorem mem_keys_regPath {ps : List (PathKey × Handler)} {k k' : PathKey} {h : Handler} :
    k' ∈ keys (regPath ps k h) ↔ k' = k ∨ k' ∈ keys ps := by
  simp only [keys, regPath, List.map_append, List.mem_append, List.mem_map, List.mem_filter]
  constructor
  · rintro (⟨x, ⟨hx, hne⟩, rfl⟩ | ⟨x, hx, rfl⟩)
    · exact Or.inr ⟨x, hx, rfl⟩
    · simp at hx; subst hx; exact Or.inl rfl
  · rintro (rfl | ⟨x, hx, rfl⟩)
    · exact Or.inr ⟨(k', h), by simp, rfl⟩
    · by_cases hk : x.1 = k
      · exact Or.inr ⟨(k, h), by simp, hk.symm⟩
      · exact Or.inl ⟨x, ⟨hx, by simpa using hk⟩, rfl⟩

theorem mem_keys_unregPath {ps : List (PathKey × Handler)} {k k' : PathKey} :
    k' ∈ keys (unregPath ps k) ↔ k' ∈ keys ps ∧ k' ≠ k := by
  simp only [keys, unregPath, List.mem_map, List.mem_filter]
  constructor
  · rintro ⟨x, ⟨hx, hne⟩, rfl⟩
    exact ⟨⟨x, hx, rfl⟩, by simpa using hne⟩
  · rintro ⟨⟨x, hx, rfl⟩, hne⟩
    exact ⟨x, ⟨hx, by simpa using hne⟩, rfl⟩

theorem nodup_keys_unregPath {ps : List (PathKey × Handler)} {k : PathKey} (h : (keys ps).Nodup) :
    (keys (unregPath ps k)).Nodup := by
  unfold keys unregPath at *
  exact List.Nodup.sublist (List.Sublist.map _ (List.filter_sublist)) h

theorem nodup_keys_regPath {ps : List (PathKey × Handler)} {k : PathKey} {hd : Handler} (h : (keys ps).Nodup) :
    (keys (regPath ps k hd)).Nodup := by
  have h1 : (keys (unregPath ps k)).Nodup := nodup_keys_unregPath h
  have h2 : k ∉ keys (unregPath ps k) := by
    intro hc; exact (mem_keys_unregPath.mp hc).2 rfl
  unfold regPath
  unfold keys unregPath at *
  rw [List.map_append, List.nodup_append]
  refine ⟨h1, by simp, ?_⟩
  intro a ha b hb
  simp at hb
  subst hb
  intro hab; subst hab; exact h2 ha

/-! ### allowed keys -/

def keyStream : PathKey → Option Nat
  | .index => none
  | .playlist s | .init s | .seg s _ | .part s _ => some s

/-- keys a stream may have registered, given its current window -/
def AllowedIn (cfg : Cfg) (s : StreamSt) : PathKey → Prop
  | .seg _ id => ∃ g, .seg g ∈ s.segments ∧ g.id = id
  | .part _ id => cfg.variant = .ll ∧ (id ∈ (allParts s).map (·.id) ∨ id = s.nextPartID)
  | _ => True

def Allowed (st : State) (k : PathKey) : Prop :=
  match keyStream k with
  | none => True
  | some si => si < st.streams.length ∧ AllowedIn st.cfg (st.stream si) k

def PathsOK (st : State) : Prop := (keys st.paths).Nodup ∧ ∀ k ∈ keys st.paths, Allowed st k

/-- segment `id` of the stream has a file: it is listed or open -/
def FileIn (s : StreamSt) (id : Nat) : Prop :=
  (∃ g, .seg g ∈ s.segments ∧ g.id = id) ∨ (∃ g, s.nextSegment = some g ∧ g.id = id)

def FilesOK (st : State) : Prop :=
  st.files.Nodup ∧ ∀ k, k ∈ st.files ↔ ∃ si id, k = .seg si id ∧ si < st.streams.length ∧ FileIn (st.stream si) id

theorem stream_of_set {st st' : State} {si : Nat} {s' : StreamSt} (h : st'.streams = st.streams.set si s')
    (hsi : si < st.streams.length) : st'.stream si = s' := by
  simp [State.stream, h, hsi]

theorem stream_of_set_ne {st st' : State} {si sj : Nat} {s' : StreamSt} (h : st'.streams = st.streams.set si s')
    (hne : sj ≠ si) : st'.stream sj = st.stream sj := by
  simp [State.stream, h, List.getElem?_set, Ne.symm hne]

theorem length_of_set {st st' : State} {si : Nat} {s' : StreamSt} (h : st'.streams = st.streams.set si s') :
    st'.streams.length = st.streams.length := by simp [h]

theorem PathsOK.update {st st' : State} {si : Nat} {s' : StreamSt} (h : PathsOK st)
    (hcfg : st'.cfg = st.cfg) (hs : st'.streams = st.streams.set si s') (hsi : si < st.streams.length)
    (hnd : (keys st'.paths).Nodup)
    (hk : ∀ k ∈ keys st'.paths, (∀ sj, keyStream k = some sj → sj ≠ si → k ∈ keys st.paths) ∧
      (keyStream k = some si → AllowedIn st.cfg s' k)) : PathsOK st' := by
  refine ⟨hnd, fun k hkm => ?_⟩
  unfold Allowed
  cases hks : keyStream k with
  | none => trivial
  | some sj =>
    simp only
    rw [length_of_set hs, hcfg]
    by_cases hj : sj = si
    · subst hj
      rw [stream_of_set hs hsi]
      exact ⟨hsi, (hk k hkm).2 hks⟩
    · rw [stream_of_set_ne hs hj]
      have := h.2 k ((hk k hkm).1 sj hks hj)
      unfold Allowed at this
      simpa [hks] using this

theorem FilesOK.update {st st' : State} {si : Nat} {s' : StreamSt} (h : FilesOK st)
    (hs : st'.streams = st.streams.set si s') (hsi : si < st.streams.length)
    (hnd : st'.files.Nodup)
    (hf : ∀ k, k ∈ st'.files ↔ (k ∈ st.files ∧ ∀ id, k ≠ .seg si id) ∨ (∃ id, k = .seg si id ∧ FileIn s' id)) :
    FilesOK st' := by
  refine ⟨hnd, fun k => ?_⟩
  rw [hf k, length_of_set hs]
  constructor
  · rintro (⟨hk, hne⟩ | ⟨id, rfl, hin⟩)
    · obtain ⟨sj, id, rfl, hsj, hin⟩ := (h.2 k).mp hk
      have hj : sj ≠ si := fun e => hne id (e ▸ rfl)
      exact ⟨sj, id, rfl, hsj, by rw [stream_of_set_ne hs hj]; exact hin⟩
    · exact ⟨si, id, rfl, hsi, by rw [stream_of_set hs hsi]; exact hin⟩
  · rintro ⟨sj, id, rfl, hsj, hin⟩
    by_cases hj : sj = si
    · subst hj
      rw [stream_of_set hs hsi] at hin
      exact Or.inr ⟨id, rfl, hin⟩
    · rw [stream_of_set_ne hs hj] at hin
      refine Or.inl ⟨(h.2 _).mpr ⟨sj, id, rfl, hsj, hin⟩, fun id' e => hj ?_⟩
      cases e; rfl

theorem AllowedIn.congr {cfg : Cfg} {s s' : StreamSt} {k : PathKey} (h : AllowedIn cfg s k)
    (h1 : s'.segments = s.segments) (h2 : allParts s' = allParts s) (h3 : s'.nextPartID = s.nextPartID) :
    AllowedIn cfg s' k := by
  cases k <;> simp only [AllowedIn, h1, h2, h3] at * <;> exact h

end Hls.Muxer
