import Hls.Muxer.InvList
namespace Hls.Muxer

theorem stream_setStream (st : State) (i j : Nat) (s : StreamSt) :
    (st.setStream i s).stream j = if i = j ∧ i < st.streams.length then s else st.stream j := by
  simp only [State.setStream, State.stream, List.getD_eq_getElem?_getD, List.getElem?_set]
  by_cases h : i = j
  · subst h
    by_cases h2 : i < st.streams.length
    · simp [h2]
    · simp [h2]
  · simp [h]

theorem stream_setStream_self {st : State} {i : Nat} (s : StreamSt) (h : i < st.streams.length) :
    (st.setStream i s).stream i = s := by simp [stream_setStream, h]

theorem stream_setStream_ne {st : State} {i j : Nat} (s : StreamSt) (h : i ≠ j) :
    (st.setStream i s).stream j = st.stream j := by simp [stream_setStream, h]

@[simp] theorem setStream_cfg (st : State) (i : Nat) (s : StreamSt) : (st.setStream i s).cfg = st.cfg := rfl
@[simp] theorem setStream_paths (st : State) (i : Nat) (s : StreamSt) : (st.setStream i s).paths = st.paths := rfl
@[simp] theorem setStream_files (st : State) (i : Nat) (s : StreamSt) : (st.setStream i s).files = st.files := rfl
@[simp] theorem setStream_tracks (st : State) (i : Nat) (s : StreamSt) : (st.setStream i s).tracks = st.tracks := rfl
@[simp] theorem setStream_length (st : State) (i : Nat) (s : StreamSt) :
    (st.setStream i s).streams.length = st.streams.length := by simp [State.setStream]
@[simp] theorem setTrack_cfg (st : State) (i : Nat) (t : TrackSt) : (st.setTrack i t).cfg = st.cfg := rfl
@[simp] theorem setTrack_streams (st : State) (i : Nat) (t : TrackSt) : (st.setTrack i t).streams = st.streams := rfl
@[simp] theorem setTrack_stream (st : State) (i j : Nat) (t : TrackSt) : (st.setTrack i t).stream j = st.stream j := rfl
@[simp] theorem setTrack_paths (st : State) (i : Nat) (t : TrackSt) : (st.setTrack i t).paths = st.paths := rfl
@[simp] theorem setTrack_files (st : State) (i : Nat) (t : TrackSt) : (st.setTrack i t).files = st.files := rfl

/-- two states that differ at most in `tracks` -/
def SameButTracks (a b : State) : Prop :=
  a.cfg = b.cfg ∧ a.streams = b.streams ∧ a.paths = b.paths ∧ a.files = b.files ∧ a.encErrs = b.encErrs ∧
  a.pending = b.pending ∧ a.durs = b.durs ∧ a.adjusted = b.adjusted ∧ a.freeze = b.freeze

theorem finalizePart_fst (st : State) (si : Nat) (p : Part) (d : Int) :
    SameButTracks (finalizePart st si p d).1 st := by
  unfold finalizePart
  simp only
  generalize (st.stream si).tracks.zipIdx = l
  suffices h : ∀ (acc : State × List PartTrack), SameButTracks acc.1 st →
      SameButTracks (List.foldl (fun (acc : State × List PartTrack) (ti : Nat × Nat) =>
        match acc with
        | (st, c) =>
          match (st.track ti.1).samples with
          | [] => (st, c)
          | smp => (st.setTrack ti.1 { st.track ti.1 with samples := [] },
                    c ++ [{ id := 1 + ti.2, baseTime := (st.track ti.1).startDTS, samples := smp }])) acc l).1 st by
    exact h (st, []) ⟨rfl, rfl, rfl, rfl, rfl, rfl, rfl, rfl, rfl⟩
  induction l with
  | nil => intro acc h; exact h
  | cons x r ih =>
    intro acc h
    simp only [List.foldl_cons]
    apply ih
    obtain ⟨s0, c0⟩ := acc
    simp only
    split
    · exact h
    · exact h

theorem finalizePart_snd (st : State) (si : Nat) (p : Part) (d : Int) :
    ∃ c, (finalizePart st si p d).2 = { p with content := c, endDTS := d } := by
  unfold finalizePart
  exact ⟨_, rfl⟩


/-! ### `rotatePartsStream` -/

/-- the finished part as it is appended to the open segment -/
def partsSeg (cfg : Cfg) (g : Seg) (part : Part) : Seg :=
  if cfg.variant = .ll then { g with stored := g.stored ++ [part], parts := g.parts ++ [part] }
  else { g with stored := g.stored ++ [part] }

def partsPaths (cfg : Cfg) (paths : List (PathKey × Handler)) (si : Nat) (part : Part) (npid : Nat) :
    List (PathKey × Handler) :=
  if cfg.variant = .ll then regPath (regPath paths (.part si part.id) (.part part)) (.part si npid) (.hint si npid)
  else paths

/-- the stream after `rotateParts` (`pt` = the new part target duration) -/
def rotPartsS (cfg : Cfg) (s : StreamSt) (g : Seg) (part : Part) (cn : Bool) (d pt : Int) : StreamSt :=
  { s with
    nextPartID := s.nextPartID + 1
    nextSegment := some (partsSeg cfg g part)
    nextPart := if cn then some { id := s.nextPartID + 1, startDTS := d } else none
    partTargetDur := pt }

theorem rotatePartsStream_spec {st : State} {si : Nat} {p : Part} {g : Seg} (d : Int) (cn : Bool)
    (hp : (st.stream si).nextPart = some p) (hg : (st.stream si).nextSegment = some g) :
    ∃ (c : List PartTrack) (trk : List TrackSt) (pt : Int) (enc : Nat),
      rotatePartsStream st si d cn =
        { st with
          tracks := trk
          streams := st.streams.set si (rotPartsS st.cfg (st.stream si) g { p with content := c, endDTS := d } cn d pt)
          paths := partsPaths st.cfg st.paths si { p with content := c, endDTS := d } ((st.stream si).nextPartID + 1)
          encErrs := st.encErrs + enc } := by
  unfold rotatePartsStream
  simp only [hp, hg]
  obtain ⟨hcfg, hstr, hpaths, hfiles, henc, h6, h7, h8, h9⟩ := finalizePart_fst st si p d
  obtain ⟨c, hc⟩ := finalizePart_snd st si p d
  generalize hfp : finalizePart st si p d = fp at *
  obtain ⟨st1, part⟩ := fp
  simp only at hcfg hstr hpaths hfiles henc h6 h7 h8 h9 hc
  subst hc
  have hs1 : st1.stream si = st.stream si := by simp [State.stream, hstr]
  refine ⟨c, st1.tracks, ?_⟩
  simp only [hcfg, hpaths, hs1, partsSeg, partsPaths, State.setStream, hstr, henc, rotPartsS]
  cases st1
  simp only at *
  subst hcfg hstr hpaths hfiles henc h6 h7 h8 h9
  by_cases hll : st.cfg.variant = .ll <;> simp only [hll, if_true, if_false]
  all_goals
    split
    · split
      · exact ⟨_, _, rfl⟩
      · split <;> exact ⟨_, _, rfl⟩
    · exact ⟨_, _, rfl⟩

/-! ### `rotateSegmentsStream` = optional `rotatePartsStream`, then `rotSegCore` -/

/-- the body of `rotateSegmentsStream` after the initial `rotateParts(nextDTS, false)` (verbatim copy) -/
def rotSegCore (st : State) (si : Nat) (nextDTS nextNTP : Int) (force : Bool) : State :=
  let s := st.stream si
  match s.nextSegment with
  | none => st
  | some seg =>
    let nextSegmentID := s.nextSegmentID + 1
    let seg := { seg with endDTS := nextDTS }
    let segments :=
      if st.cfg.variant = .ll ∧ s.segments.isEmpty then gaps seg.duration else s.segments
    let segments := segments ++ [.seg seg]
    let h : Handler := if st.cfg.variant = .mpegts then .segTS seg.tsUnits else .segFMP4 seg.stored
    let paths := regPath st.paths (.seg si seg.id) h
    let (segments, paths, files, deleteCount) :=
      if segments.length > st.cfg.segmentCount then
        match segments with
        | .seg old :: rest =>
          let paths := old.parts.foldl (fun ps p => unregPath ps (.part si p.id)) paths
          let paths := unregPath paths (.seg si old.id)
          (rest, paths, st.files.filter (· ≠ .seg si old.id), s.deleteCount + 1)
        | .gap _ :: rest => (rest, paths, st.files, s.deleteCount + 1)
        | [] => (segments, paths, st.files, s.deleteCount)
      else (segments, paths, st.files, s.deleteCount)
    let (paths, initPresent) :=
      if st.cfg.variant ≠ .mpegts ∧ (!s.initPresent || seg.forced) then
        (regPath paths (.init si) (.init (s.tracks.map fun t => (st.track t).params)), true)
      else (paths, s.initPresent)
    let newSeg : Seg := { id := nextSegmentID, startDTS := nextDTS, startNTP := nextNTP,
                          forced := if st.cfg.variant = .mpegts then false else force }
    let nextPart : Option Part :=
      if st.cfg.variant = .mpegts then none else some { id := s.nextPartID, startDTS := nextDTS }
    let s := { s with nextSegmentID := nextSegmentID, segments := segments, deleteCount := deleteCount,
                      initPresent := initPresent, nextSegment := some newSeg, nextPart := nextPart }
    let (s, enc) :=
      if s.isLeading then
        let td := targetDuration s.segments
        if s.targetDur = 0 then ({ s with targetDur := td }, 0)
        else if td > s.targetDur then ({ s with targetDur := td }, 1)
        else (s, 0)
      else (s, 0)
    { (st.setStream si s) with paths := paths, files := files ++ [.seg si newSeg.id], encErrs := st.encErrs + enc }

theorem rotateSegmentsStream_eq (st : State) (si : Nat) (d n : Int) (f : Bool) :
    rotateSegmentsStream st si d n f =
      rotSegCore (if st.cfg.variant ≠ .mpegts then rotatePartsStream st si d false else st) si d n f := rfl

/-- window after appending the finished segment -/
def appended (cfg : Cfg) (segs : List Entry) (g : Seg) : List Entry :=
  (if cfg.variant = .ll ∧ segs.isEmpty then gaps g.duration else segs) ++ [.seg g]

def overfull (cfg : Cfg) (l : List Entry) : Prop := l.length > cfg.segmentCount
instance (cfg : Cfg) (l : List Entry) : Decidable (overfull cfg l) := by unfold overfull; infer_instance

/-- paths after the head entry `e` has been deleted -/
def dropPaths (si : Nat) (e : Entry) (paths : List (PathKey × Handler)) : List (PathKey × Handler) :=
  match e with
  | .seg old => unregPath (old.parts.foldl (fun ps p => unregPath ps (.part si p.id)) paths) (.seg si old.id)
  | .gap _ => paths

def dropFiles (si : Nat) (e : Entry) (files : List PathKey) : List PathKey :=
  match e with
  | .seg old => files.filter (· ≠ .seg si old.id)
  | .gap _ => files

def segHandler (cfg : Cfg) (g : Seg) : Handler :=
  if cfg.variant = .mpegts then .segTS g.tsUnits else .segFMP4 g.stored

def initPaths (si : Nat) (regen : Bool) (ps : List Nat) (paths : List (PathKey × Handler)) :=
  if regen then regPath paths (.init si) (.init ps) else paths

/-- the stream after the core of `rotateSegments` -/
def rotSegS (cfg : Cfg) (s : StreamSt) (g : Seg) (d ntp : Int) (ip fc : Bool) (td : Int) : StreamSt :=
  let app := appended cfg s.segments { g with endDTS := d }
  { s with
    nextSegmentID := s.nextSegmentID + 1
    segments := if overfull cfg app then app.tail else app
    deleteCount := if overfull cfg app then s.deleteCount + 1 else s.deleteCount
    initPresent := ip
    nextSegment := some { id := s.nextSegmentID + 1, startDTS := d, startNTP := ntp, forced := fc }
    nextPart := if cfg.variant = .mpegts then none else some { id := s.nextPartID, startDTS := d }
    targetDur := td }

theorem rotSegCore_spec {st : State} {si : Nat} {g : Seg} (d ntp : Int) (force : Bool)
    (hg : (st.stream si).nextSegment = some g) :
    ∃ (ip regen : Bool) (ps : List Nat) (fc : Bool) (td : Int) (enc : Nat),
      let s := st.stream si
      let gf : Seg := { g with endDTS := d }
      let app := appended st.cfg s.segments gf
      let paths1 := regPath st.paths (.seg si g.id) (segHandler st.cfg gf)
      rotSegCore st si d ntp force =
        { st with
          streams := st.streams.set si (rotSegS st.cfg s g d ntp ip fc td)
          paths := initPaths si regen ps
            (if overfull st.cfg app then dropPaths si (app.head?.getD (.gap 0)) paths1 else paths1)
          files := (if overfull st.cfg app then dropFiles si (app.head?.getD (.gap 0)) st.files else st.files)
                     ++ [.seg si (s.nextSegmentID + 1)]
          encErrs := st.encErrs + enc } := by
  refine ⟨if st.cfg.variant ≠ .mpegts ∧ (!(st.stream si).initPresent || g.forced) then true else (st.stream si).initPresent,
    decide (st.cfg.variant ≠ .mpegts ∧ (!(st.stream si).initPresent || g.forced) = true),
    (st.stream si).tracks.map (fun t => (st.track t).params),
    if st.cfg.variant = .mpegts then false else force, ?_⟩
  dsimp only [rotSegS]
  generalize happ : appended st.cfg (st.stream si).segments { g with endDTS := d } = app
  have happ' : (if st.cfg.variant = Variant.ll ∧ (st.stream si).segments.isEmpty = true then
      gaps ({ g with endDTS := d } : Seg).duration else (st.stream si).segments) ++
      [Entry.seg { g with endDTS := d }] = app := happ
  unfold rotSegCore
  simp only [hg, happ', overfull, segHandler, initPaths]
  by_cases hts : st.cfg.variant = .mpegts <;>
  by_cases hinit : (!(st.stream si).initPresent || g.forced) = true <;>
  simp only [hts, hinit, if_true, if_false, ne_eq, not_true_eq_false, not_false_eq_true, false_and, true_and,
    and_self, and_true, decide_true, decide_false]
  all_goals
    by_cases hov : app.length > st.cfg.segmentCount
    · simp only [hov, if_true]
      rcases app with _ | ⟨(gd | old), rest⟩
      · simp at hov
      all_goals
        simp only [List.head?, Option.getD, List.tail, dropPaths, dropFiles]
        split
        · split
          · exact ⟨_, _, rfl⟩
          · split <;> exact ⟨_, _, rfl⟩
        · exact ⟨_, _, rfl⟩
    · simp only [hov, if_false]
      split
      · split
        · exact ⟨_, _, rfl⟩
        · split <;> exact ⟨_, _, rfl⟩
      · exact ⟨_, _, rfl⟩

/-! ### `createFirstSegmentStream`, `partWriteSample`, `tsWrite` -/

def firstSegS (cfg : Cfg) (s : StreamSt) (d ntp : Int) : StreamSt :=
  { s with
    nextSegment := some { id := s.nextSegmentID, startDTS := d, startNTP := ntp }
    nextPart := if cfg.variant = .mpegts then s.nextPart else some { id := s.nextPartID, startDTS := d } }

theorem createFirstSegmentStream_spec (st : State) (si : Nat) (d ntp : Int) :
    createFirstSegmentStream st si d ntp =
      { st with streams := st.streams.set si (firstSegS st.cfg (st.stream si) d ntp)
                files := st.files ++ [.seg si (st.stream si).nextSegmentID] } := by
  unfold createFirstSegmentStream firstSegS State.setStream
  cases h : st.cfg.variant <;> simp

/-- the stream after an accepted `muxerPart.writeSample` -/
def partWriteS (s : StreamSt) (g : Seg) (p : Part) (size : Nat) (indep : Bool) : StreamSt :=
  { s with nextSegment := some { g with size := g.size + size }
           nextPart := some (if indep then { p with independent := true } else p) }

theorem partWriteSample_spec (st : State) (ti : Nat) (smp : Sample) :
    (∃ g p, (st.stream (st.streamOf ti)).nextSegment = some g ∧ (st.stream (st.streamOf ti)).nextPart = some p ∧
        g.size + smp.size ≤ st.cfg.segmentMaxSize ∧
        ∃ trk indep, partWriteSample st ti smp =
          ({ st with tracks := trk
                     streams := st.streams.set (st.streamOf ti) (partWriteS (st.stream (st.streamOf ti)) g p smp.size indep) }, .ok)) ∨
    (partWriteSample st ti smp = (st, .err) ∧
      ∀ g p, (st.stream (st.streamOf ti)).nextSegment = some g → (st.stream (st.streamOf ti)).nextPart = some p →
        g.size + smp.size > st.cfg.segmentMaxSize) := by
  unfold partWriteSample
  simp only
  cases hg : (st.stream (st.streamOf ti)).nextSegment with
  | none => right; simp
  | some g =>
    cases hp : (st.stream (st.streamOf ti)).nextPart with
    | none => right; simp
    | some p =>
      simp only
      by_cases hsz : g.size + smp.size > st.cfg.segmentMaxSize
      · right; simp [hsz]
      · left
        refine ⟨g, p, rfl, rfl, by omega, ?_⟩
        simp only [hsz, if_false]
        refine ⟨?trk, ((st.isLeadingTrack ti || decide ((st.stream (st.streamOf ti)).tracks.length = 1)) && smp.sync), ?h⟩
        case h =>
          simp only [partWriteS, State.setStream, State.setTrack, Bool.and_eq_true]
          rfl

theorem tsWrite_spec (st : State) (u : TsUnit) (size : Nat) (e : Option Int) (cnt : Bool) :
    (∃ g, (st.stream 0).nextSegment = some g ∧ g.size + size ≤ st.cfg.segmentMaxSize ∧
        ∃ g' : Seg, g'.id = g.id ∧ g'.startDTS = g.startDTS ∧ g'.size = g.size + size ∧ g'.parts = g.parts ∧
          tsWrite st u size e cnt =
            ({ st with streams := st.streams.set 0 { (st.stream 0) with nextSegment := some g' } }, .ok)) ∨
    (tsWrite st u size e cnt = (st, .err) ∧
      ∀ g, (st.stream 0).nextSegment = some g → g.size + size > st.cfg.segmentMaxSize) := by
  unfold tsWrite
  simp only
  cases hg : (st.stream 0).nextSegment with
  | none => right; simp
  | some g =>
    simp only
    by_cases hsz : g.size + size > st.cfg.segmentMaxSize
    · right; simp [hsz]
    · left
      refine ⟨g, rfl, by omega, ?_⟩
      simp only [hsz, if_false, State.setStream]
      refine ⟨_, ?_, ?_, ?_, ?_, rfl⟩ <;> (cases e <;> cases cnt <;> simp)

end Hls.Muxer
