import Hls.Gen.Arith
/-
  Executable model of the gohlslib Muxer's sequential behaviour (the writer side and
  what the HTTP handlers compute from one muxer state).  Core Lean only.

  Mirrors, statement by statement (see DESIGN.md Appendix B):
    muxer.go            Start (variant/tracks/streams), createFirstSegment, rotatePartsInner, rotateSegmentsInner
    muxer_segmenter.go  writeH264/H265/VP9/AV1/Opus/MPEG4Audio front ends, fmp4AdjustPartDuration, fmp4WriteSample
    muxer_stream.go     createFirstSegment, rotateParts, rotateSegments, targetDuration, partTargetDuration,
                        hasContent, hasPart, generateMediaPlaylistMPEGTS/FMP4, the request decision of handleMediaPlaylist
    muxer_part.go       writeSample, finalize
    muxer_segment_*.go  writeH264 / writeMPEG4Audio (MPEG-TS), finalize
    muxer_server.go     registerPath / unregisterPath / lookup
  Arithmetic (`timestampToDuration`, `durationToTimestamp`, `multiplyAndDivide`,
  `findCompatiblePartDuration`) is NOT re-typed here: it is `Hls.Gen.*`, regenerated from the Go source.

  Abstracted (DESIGN §2): payload bytes are ids; container encoding is mediacommon's; values only an
  unmodelled component can produce (DTS chosen by the DTSExtractor, payload byte counts after AVCC/OBU
  framing, Opus packet durations) enter as parameters of the write op.
-/
namespace Hls.Muxer
open Hls.Gen

inductive Variant | mpegts | fmp4 | ll
  deriving DecidableEq, Repr

inductive Codec | h264 | h265 | vp9 | av1 | aac | opus
  deriving DecidableEq, Repr

def Codec.isVideo : Codec → Bool
  | .h264 | .h265 | .vp9 | .av1 => true
  | _ => false

structure TrackCfg where
  codec      : Codec
  clockRate  : Int
  sampleRate : Int := 0      -- MPEG-4 Audio config sample rate
  deriving Repr

structure Cfg where
  variant        : Variant
  segmentCount   : Nat
  segmentMinDur  : Int       -- ns
  partMinDur     : Int       -- ns
  segmentMaxSize : Nat
  tracks         : List TrackCfg
  deriving Repr

def S : Int := 1000000000
def fmp4StartDTS : Int := 10 * S
def mpegtsSegmentMinAUCount : Nat := 100
def llGapCount : Nat := 7

/-- A unit as it travels through `fmp4WriteSample` / sits in a part. -/
structure Sample where
  dts    : Int
  ptsOff : Int
  sync   : Bool
  pay    : Nat
  size   : Nat
  ntp    : Int        -- ns since the Unix epoch
  dur    : Int := 0
  deriving Repr, DecidableEq

/-- One PES as written to an MPEG-TS segment. -/
structure TsUnit where
  track : Nat
  pts   : Int         -- 90 kHz
  dts   : Int
  pays  : List Nat
  deriving Repr, DecidableEq

structure PartTrack where
  id       : Nat
  baseTime : Int
  samples  : List Sample
  deriving Repr, DecidableEq

structure Part where
  id          : Nat
  startDTS    : Int
  endDTS      : Int := 0
  independent : Bool := false
  content     : List PartTrack := []
  deriving Repr, DecidableEq

structure Seg where
  id           : Nat
  startDTS     : Int
  endDTS       : Int := 0
  startNTP     : Int
  forced       : Bool := false
  size         : Nat := 0            -- payload byte counter checked against SegmentMaxSize
  parts        : List Part := []     -- LL: parts advertised under this segment
  stored       : List Part := []     -- every finalized part, in storage order (segment bytes = their concatenation)
  tsUnits      : List TsUnit := []   -- MPEG-TS
  audioAUCount : Nat := 0            -- MPEG-TS
  deriving Repr, DecidableEq

def Seg.duration (s : Seg) : Int := s.endDTS - s.startDTS
def Part.duration (p : Part) : Int := p.endDTS - p.startDTS

inductive Entry
  | gap (dur : Int)
  | seg (s : Seg)
  deriving Repr, DecidableEq

def Entry.duration : Entry → Int
  | .gap d => d
  | .seg s => s.duration

inductive PathKey
  | index
  | playlist (stream : Nat)
  | init (stream : Nat)
  | seg (stream : Nat) (id : Nat)
  | part (stream : Nat) (id : Nat)
  deriving Repr, DecidableEq

/-- What a registered closure will answer (closures capture the finished object, which is immutable). -/
inductive Handler
  | multivariant
  | mediaPlaylist (stream : Nat)
  | init (params : List Nat)
  | segFMP4 (stored : List Part)
  | segTS (units : List TsUnit)
  | part (p : Part)
  | hint (stream : Nat) (id : Nat)
  deriving Repr, DecidableEq

structure TrackSt where
  firstRA  : Bool := false
  params   : Nat := 0              -- id of the parameter sets currently stored in the codec
  next     : Option Sample := none -- fmp4NextSample
  samples  : List Sample := []     -- fmp4Samples (nil ⇔ [])
  startDTS : Int := 0              -- fmp4StartDTS
  extrSPS  : Bool := false         -- the track's H264 DTS extractor has seen an SPS (it is created at the first random-access unit)
  extrPrev : Option Int := none    -- the DTS extractor's previous DTS ("DTS is not monotonically increasing")
  deriving Repr

structure StreamSt where
  tracks        : List Nat         -- indices into the muxer's track list
  isLeading     : Bool
  segments      : List Entry := []
  nextSegment   : Option Seg := none
  nextPart      : Option Part := none
  nextSegmentID : Nat
  nextPartID    : Nat := 0
  deleteCount   : Nat := 0
  initPresent   : Bool := false
  targetDur     : Int := 0         -- seconds
  partTargetDur : Int := 0         -- ns
  deriving Repr

structure State where
  cfg        : Cfg
  tracks     : List TrackSt
  streams    : List StreamSt
  paths      : List (PathKey × Handler)
  files      : List PathKey := []     -- files existing in Directory (ghost when RAM-backed)
  pending    : Bool := false          -- pendingParamsChange
  durs       : List Int := []         -- fmp4SampleDurations (a set)
  adjusted   : Int := 0               -- fmp4AdjustedPartDuration
  freeze     : Bool := false
  encErrs    : Nat := 0               -- OnEncodeError invocations so far
  deriving Repr

/-! ## Start -/

inductive StartErr
  | noTracks | tsMultiVideo | tsVideoCodec | tsMultiAudio | tsAudioCodec | multiVideo | segCount
  deriving Repr, DecidableEq

def countVideo (ts : List TrackCfg) : Nat := (ts.filter (·.codec.isVideo)).length

def leadingIdx (ts : List TrackCfg) : Nat :=
  match ts.findIdx? (·.codec.isVideo) with
  | some i => i
  | none => 0

def regPath (paths : List (PathKey × Handler)) (k : PathKey) (h : Handler) : List (PathKey × Handler) :=
  (paths.filter (·.1 ≠ k)) ++ [(k, h)]

def unregPath (paths : List (PathKey × Handler)) (k : PathKey) : List (PathKey × Handler) :=
  paths.filter (·.1 ≠ k)

def lookupPath (paths : List (PathKey × Handler)) (k : PathKey) : Option Handler :=
  (paths.find? (·.1 = k)).map (·.2)

/-- MPEG-TS track checks in source order (first failing track decides the error). -/
def tsCheck : List TrackCfg → Bool → Bool → Option StartErr
  | [], _, _ => none
  | t :: ts, hasV, hasA =>
    if t.codec.isVideo then
      if hasV then some .tsMultiVideo
      else if t.codec ≠ .h264 then some .tsVideoCodec
      else tsCheck ts true hasA
    else
      if hasA then some .tsMultiAudio
      else if t.codec ≠ .aac then some .tsAudioCodec
      else tsCheck ts hasV true

/-- the zero-value defaults of `Muxer.Start` -/
def Cfg.withDefaults (c : Cfg) : Cfg :=
  { c with segmentCount := if c.segmentCount = 0 then 7 else c.segmentCount,
           segmentMinDur := if c.segmentMinDur = 0 then 1 * S else c.segmentMinDur,
           partMinDur := if c.partMinDur = 0 then 200 * 1000000 else c.partMinDur,
           segmentMaxSize := if c.segmentMaxSize = 0 then 50 * 1024 * 1024 else c.segmentMaxSize }

def start (cfg0 : Cfg) : Except StartErr State :=
  let cfg := cfg0.withDefaults
  if cfg.tracks.isEmpty then .error .noTracks else
  let e1 : Option StartErr :=
    match cfg.variant with
    | .mpegts => tsCheck cfg.tracks false false
    | _ => if countVideo cfg.tracks > 1 then some .multiVideo else none
  match e1 with
  | some e => .error e
  | none =>
  let minCount := if cfg.variant = .ll then 7 else 3
  if cfg.segmentCount < minCount then .error .segCount else
  let nextSegmentID := if cfg.variant = .ll then 7 else 0
  let lead := leadingIdx cfg.tracks
  let streams : List StreamSt :=
    match cfg.variant with
    | .mpegts => [{ tracks := List.range cfg.tracks.length, isLeading := true, nextSegmentID := nextSegmentID }]
    | _ => (List.range cfg.tracks.length).map fun i =>
        { tracks := [i], isLeading := (i = lead), nextSegmentID := nextSegmentID }
  let paths0 := regPath [] .index .multivariant
  let paths := (List.range streams.length).foldl (fun ps i => regPath ps (.playlist i) (.mediaPlaylist i)) paths0
  .ok { cfg := cfg, tracks := cfg.tracks.map (fun _ => { params := 1 }), streams := streams, paths := paths }

/-! ## Helpers -/

def toDur (ts : Int) (rate : Int) : Int := timestampToDuration ts rate
def toTs (d : Int) (rate : Int) : Int := durationToTimestamp d rate

def setAt {α} (l : List α) (i : Nat) (a : α) : List α := l.set i a

def State.track (st : State) (i : Nat) : TrackSt := st.tracks.getD i {}
def State.tcfg (st : State) (i : Nat) : TrackCfg := st.cfg.tracks.getD i { codec := .aac, clockRate := 1 }
def State.setTrack (st : State) (i : Nat) (t : TrackSt) : State := { st with tracks := st.tracks.set i t }
def State.setStream (st : State) (i : Nat) (s : StreamSt) : State := { st with streams := st.streams.set i s }
def State.stream (st : State) (i : Nat) : StreamSt :=
  st.streams.getD i { tracks := [], isLeading := false, nextSegmentID := 0 }

/-- index of the stream that carries track `t` -/
def State.streamOf (st : State) (t : Nat) : Nat :=
  match st.cfg.variant with
  | .mpegts => 0
  | _ => t

def State.isLeadingTrack (st : State) (t : Nat) : Bool := t = leadingIdx st.cfg.tracks

def State.leadingStream (st : State) : Nat :=
  match st.streams.findIdx? (·.isLeading) with
  | some i => i
  | none => 0

/-- `math.Round(d.Seconds())` as exact integer rounding half away from zero. -/
def roundSeconds (d : Int) : Int :=
  if d ≥ 0 then Int.tdiv (d + S / 2) S else - Int.tdiv (-d + S / 2) S

/-- `targetDuration(segments)` -/
def targetDuration (segs : List Entry) : Int :=
  segs.foldl (fun ret e => let v := roundSeconds e.duration; if v > ret then v else ret) 0

def MS : Int := 1000000

/-- `math.Ceil(float64(ret)/float64(time.Millisecond))` for integer `ret`. -/
def ceilMs (d : Int) : Int :=
  if d ≥ 0 then Int.tdiv (d + MS - 1) MS else - Int.tdiv (-d) MS

/-- `partTargetDuration(segments, nextSegmentParts)` -/
def partTargetDuration (segs : List Entry) (nextParts : List Part) : Int :=
  let m1 := segs.foldl (fun ret e =>
    match e with
    | .gap _ => ret
    | .seg s => s.parts.foldl (fun r p => if p.duration > r then p.duration else r) ret) 0
  let m2 := nextParts.foldl (fun r p => if p.duration > r then p.duration else r) m1
  MS * ceilMs m2

/-! ## Stream operations -/

def createFirstSegmentStream (st : State) (si : Nat) (nextDTS nextNTP : Int) : State :=
  let s := st.stream si
  let seg : Seg := { id := s.nextSegmentID, startDTS := nextDTS, startNTP := nextNTP }
  let s' : StreamSt :=
    match st.cfg.variant with
    | .mpegts => { s with nextSegment := some seg }
    | _ => { s with nextSegment := some seg, nextPart := some { id := s.nextPartID, startDTS := nextDTS } }
  { (st.setStream si s') with files := st.files ++ [.seg si seg.id] }

def createFirstSegment (st : State) (nextDTS nextNTP : Int) : State :=
  (List.range st.streams.length).foldl (fun st si => createFirstSegmentStream st si nextDTS nextNTP) st

/-- `muxerPart.finalize`: collect the stream's tracks that have samples, clear them. -/
def finalizePart (st : State) (si : Nat) (p : Part) (endDTS : Int) : State × Part :=
  let s := st.stream si
  let (st', content) := (s.tracks.zipIdx).foldl (fun (acc : State × List PartTrack) (ti : Nat × Nat) =>
      let (st, c) := acc
      let t := st.track ti.1
      match t.samples with
      | [] => (st, c)
      | smp => (st.setTrack ti.1 { t with samples := [] }, c ++ [{ id := 1 + ti.2, baseTime := t.startDTS, samples := smp }]))
    (st, [])
  (st', { p with content := content, endDTS := endDTS })

/-- `muxerStream.rotateParts(nextDTS, createNew)` -/
def rotatePartsStream (st : State) (si : Nat) (nextDTS : Int) (createNew : Bool) : State :=
  let s := st.stream si
  match s.nextPart, s.nextSegment with
  | some part, some seg =>
    let nextPartID := s.nextPartID + 1
    let (st, part) := finalizePart st si part nextDTS
    let seg := { seg with stored := seg.stored ++ [part] }
    let (seg, paths) :=
      if st.cfg.variant = .ll then
        let seg := { seg with parts := seg.parts ++ [part] }
        let paths := regPath st.paths (.part si part.id) (.part part)
        let paths := regPath paths (.part si nextPartID) (.hint si nextPartID)
        (seg, paths)
      else (seg, st.paths)
    let nextPart : Option Part := if createNew then some { id := nextPartID, startDTS := nextDTS } else none
    let s := { (st.stream si) with nextPartID := nextPartID, nextSegment := some seg, nextPart := nextPart }
    let (s, enc) :=
      if s.isLeading then
        let pt := partTargetDuration s.segments seg.parts
        if s.partTargetDur = 0 then ({ s with partTargetDur := pt }, 0)
        else if pt ≠ s.partTargetDur then ({ s with partTargetDur := pt }, 1)
        else (s, 0)
      else (s, 0)
    { (st.setStream si s) with paths := paths, encErrs := st.encErrs + enc }
  | _, _ => st   -- nil dereference in Go; unreachable (see invariants)

def gaps (d : Int) : List Entry := List.replicate llGapCount (.gap d)

/-- `muxerStream.rotateSegments(nextDTS, nextNTP, force)` -/
def rotateSegmentsStream (st : State) (si : Nat) (nextDTS nextNTP : Int) (force : Bool) : State :=
  let st := if st.cfg.variant ≠ .mpegts then rotatePartsStream st si nextDTS false else st
  let s := st.stream si
  match s.nextSegment with
  | none => st
  | some seg =>
    let nextSegmentID := s.nextSegmentID + 1
    let seg := { seg with endDTS := nextDTS }
    let segments :=
      if st.cfg.variant = .ll ∧ s.segments.isEmpty then gaps seg.duration else s.segments
    let segments := segments ++ [.seg seg]
    let h : Handler := if st.cfg.variant = .mpegts then .segTS seg.tsUnits else .segFMP4 seg.stored
    let paths := regPath st.paths (.seg si seg.id) h
    -- delete old segments and parts
    let (segments, paths, files, deleteCount) :=
      if segments.length > st.cfg.segmentCount then
        match segments with
        | .seg old :: rest =>
          let paths := old.parts.foldl (fun ps p => unregPath ps (.part si p.id)) paths
          let paths := unregPath paths (.seg si old.id)
          (rest, paths, st.files.filter (· ≠ .seg si old.id), s.deleteCount + 1)
        | .gap _ :: rest => (rest, paths, st.files, s.deleteCount + 1)   -- unregisterPath("") is a no-op
        | [] => (segments, paths, st.files, s.deleteCount)
      else (segments, paths, st.files, s.deleteCount)
    -- regenerate init
    let (paths, initPresent) :=
      if st.cfg.variant ≠ .mpegts ∧ (!s.initPresent || seg.forced) then
        (regPath paths (.init si) (.init (s.tracks.map fun t => (st.track t).params)), true)
      else (paths, s.initPresent)
    let newSeg : Seg := { id := nextSegmentID, startDTS := nextDTS, startNTP := nextNTP,
                          forced := if st.cfg.variant = .mpegts then false else force }
    let nextPart : Option Part :=
      if st.cfg.variant = .mpegts then none else some { id := s.nextPartID, startDTS := nextDTS }
    let s := { s with nextSegmentID := nextSegmentID, segments := segments, deleteCount := deleteCount,
                      initPresent := initPresent, nextSegment := some newSeg, nextPart := nextPart }
    let (s, enc) :=
      if s.isLeading then
        let td := targetDuration s.segments
        if s.targetDur = 0 then ({ s with targetDur := td }, 0)
        else if td > s.targetDur then ({ s with targetDur := td }, 1)
        else (s, 0)
      else (s, 0)
    { (st.setStream si s) with paths := paths, files := files ++ [.seg si newSeg.id], encErrs := st.encErrs + enc }

/-- `Muxer.rotatePartsInner` -/
def rotateParts (st : State) (nextDTS : Int) : State :=
  let li := st.leadingStream
  let st := rotatePartsStream st li nextDTS true
  (List.range st.streams.length).foldl (fun st si =>
    if (st.stream si).isLeading then st
    else
      let st := rotatePartsStream st si nextDTS true
      st.setStream si { (st.stream si) with partTargetDur := (st.stream li).partTargetDur }) st

/-- `Muxer.rotateSegmentsInner` -/
def rotateSegments (st : State) (nextDTS nextNTP : Int) (force : Bool) : State :=
  let li := st.leadingStream
  let st := rotateSegmentsStream st li nextDTS nextNTP force
  (List.range st.streams.length).foldl (fun st si =>
    if (st.stream si).isLeading then st
    else
      let st := rotateSegmentsStream st si nextDTS nextNTP force
      st.setStream si { (st.stream si) with targetDur := (st.stream li).targetDur,
                                            partTargetDur := (st.stream li).partTargetDur }) st

/-! ## fMP4 write path -/

inductive WriteRes | ok | err
  deriving Repr, DecidableEq

/-- `fmp4AdjustPartDuration` -/
def adjustPartDuration (st : State) (sampleDuration : Int) : State :=
  if st.cfg.variant ≠ .ll ∨ st.freeze then st
  else if sampleDuration = 0 then st
  else if st.durs.contains sampleDuration then st
  else
    let durs := st.durs ++ [sampleDuration]
    { st with durs := durs, adjusted := findCompatiblePartDuration st.cfg.partMinDur durs }

/-- `muxerPart.writeSample` on the stream's open part. -/
def partWriteSample (st : State) (ti : Nat) (smp : Sample) : State × WriteRes :=
  let si := st.streamOf ti
  let s := st.stream si
  match s.nextSegment, s.nextPart with
  | some seg, some part =>
    if seg.size + smp.size > st.cfg.segmentMaxSize then (st, .err)
    else
      let seg := { seg with size := seg.size + smp.size }
      let t := st.track ti
      let t := match t.samples with
        | [] => { t with startDTS := smp.dts }
        | _ => t
      let part :=
        if (st.isLeadingTrack ti || s.tracks.length = 1) && smp.sync then { part with independent := true } else part
      let t := { t with samples := t.samples ++ [smp] }
      let st := st.setTrack ti t
      (st.setStream si { s with nextSegment := some seg, nextPart := some part }, .ok)
  | _, _ => (st, .err)

/-- `fmp4WriteSample(track, randomAccess, paramsChanged, sample)` -/
def fmp4Write (st : State) (ti : Nat) (ra changed : Bool) (smp : Sample) : State × WriteRes :=
  let rate := (st.tcfg ti).clockRate
  let smp := { smp with dts := smp.dts + toTs fmp4StartDTS rate }
  if smp.dts < 0 then (st, .ok) else
  let t := st.track ti
  let st := st.setTrack ti { t with next := some smp }
  match t.next with
  | none => (st, .ok)
  | some old =>
    let duration := smp.dts - old.dts
    let old := { old with dur := duration % 4294967296 }   -- `sample.Duration = uint32(duration)`
    let si := st.streamOf ti
    let lead := st.isLeadingTrack ti
    let hasSeg := (st.stream si).nextSegment.isSome
    if !lead && !hasSeg then (st, .ok) else
    let st := if lead && !hasSeg then createFirstSegment st (toDur old.dts rate) old.ntp else st
    let st := if lead then adjustPartDuration st (toDur duration rate) else st
    match partWriteSample st ti old with
    | (st, .err) => (st, .err)
    | (st, .ok) =>
      if !lead then (st, .ok) else
      let s := st.stream si
      let nd := toDur smp.dts rate
      let segStart := match s.nextSegment with | some g => g.startDTS | none => 0
      let partStart := match s.nextPart with | some p => p.startDTS | none => 0
      if ra && (changed || decide (nd - segStart ≥ st.cfg.segmentMinDur)) then
        let st := rotateSegments st nd smp.ntp changed
        let st := if changed then { st with freeze := false, durs := [] } else { st with freeze := true }
        (st, .ok)
      else if st.cfg.variant = .ll ∧ nd - partStart ≥ st.adjusted then
        (rotateParts st nd, .ok)
      else (st, .ok)

/-! ## Codec front ends -/

/-- One `Write*` call, after NALU/OBU classification (done by the harness, which builds the real units). -/
structure WriteOp where
  track  : Nat
  pts    : Int
  dts    : Int            -- chosen by the DTS extractor (video); = pts otherwise
  ntp    : Int            -- ns since the Unix epoch
  ra     : Bool := false  -- contains an IDR / key frame / sequence header
  pic    : Bool := true   -- H264: contains an IDR or non-IDR slice
  par    : Nat := 0       -- id of the parameter sets carried by this unit (0 = none)
  pays   : List Nat := []   -- payload ids (one per AU / packet; video: one)
  sizes  : List Nat := []   -- payload byte counts as the size check sees them
  durs   : List Int := []   -- Opus: packet durations (ticks)
  deriving Repr

def mulDiv := multiplyAndDivide

/-- MPEG-TS segment `writeH264` / `writeMPEG4Audio` size check and bookkeeping. -/
def tsWrite (st : State) (u : TsUnit) (size : Nat) (endDTS : Option Int) (countAU : Bool) : State × WriteRes :=
  let s := st.stream 0
  match s.nextSegment with
  | none => (st, .err)
  | some seg =>
    if seg.size + size > st.cfg.segmentMaxSize then (st, .err)
    else
      let seg := { seg with size := seg.size + size, tsUnits := seg.tsUnits ++ [u] }
      let seg := if countAU then { seg with audioAUCount := seg.audioAUCount + 1 } else seg
      let seg := match endDTS with | some e => { seg with endDTS := e } | none => seg
      (st.setStream 0 { s with nextSegment := some seg }, .ok)

/-- parameter-set bookkeeping common to the video front ends: returns (state, paramsChanged) -/
def paramsStep (st : State) (ti : Nat) (par : Nat) (ra : Bool) : State × Bool :=
  let t := st.track ti
  let st := if par ≠ 0 ∧ par ≠ t.params then { (st.setTrack ti { t with params := par }) with pending := true } else st
  if ra && st.pending then ({ st with pending := false }, true) else (st, false)

def sumSizes (l : List Nat) : Nat := l.foldl (· + ·) 0

def fmp4WriteMany (st : State) (ti : Nat) : List Sample → State × WriteRes
  | [] => (st, .ok)
  | s :: rest =>
    match fmp4Write st ti true false s with
    | (st, .err) => (st, .err)
    | (st, .ok) => fmp4WriteMany st ti rest

/-- `writeOpus`: one sample per packet, pts/ntp advanced by the packet duration. -/
def buildOpus (pays sizes : List Nat) (durs : List Int) (pts ntp : Int) : List Sample :=
  match pays, sizes, durs with
  | p :: ps, z :: zs, d :: ds =>
    { dts := pts, ptsOff := 0, sync := true, pay := p, size := z, ntp := ntp } ::
      buildOpus ps zs ds (pts + d) (ntp + toDur d 48000)
  | _, _, _ => []

/-- `writeMPEG4Audio` (fMP4): AU i at `pts + i*1024*rate/sampleRate`. -/
def buildAac (pts ntp rate sr : Int) (i : Nat) (pays sizes : List Nat) : List Sample :=
  match pays, sizes with
  | p :: ps, z :: zs =>
    { dts := pts + Int.tdiv ((i : Int) * 1024 * rate) sr, ptsOff := 0, sync := true, pay := p, size := z,
      ntp := ntp + Int.tdiv ((i : Int) * 1024 * S) sr } :: buildAac pts ntp rate sr (i+1) ps zs
  | _, _ => []

def write (st : State) (op : WriteOp) : State × WriteRes :=
  let ti := op.track
  let tc := st.tcfg ti
  let rate := tc.clockRate
  let pay := op.pays.headD 0
  let size := op.sizes.headD 0
  match tc.codec with
  | .h264 =>
    -- parameter sets are absorbed even when the unit carries no picture
    let t := st.track ti
    let st1 := if op.par ≠ 0 ∧ op.par ≠ t.params then { (st.setTrack ti { t with params := op.par }) with pending := true } else st
    if !op.ra && !op.pic then (st1, .ok) else
    let (st, changed) := paramsStep st ti op.par op.ra
    let t := st.track ti
    if !t.firstRA && !op.ra then (st, .ok) else
    let t := { t with firstRA := true, extrSPS := t.extrSPS || decide (op.par ≠ 0) }
    let st := st.setTrack ti t
    -- h264.DTSExtractor: "SPS not received yet" (mediacommon; only what decides success is modelled)
    if !t.extrSPS then (st, .err) else
    if (match t.extrPrev with | some p => decide (op.dts < p) | none => false) then (st, .err) else
    let st := st.setTrack ti { t with extrPrev := some op.dts }
    if st.cfg.variant = .mpegts then
      let nd := toDur op.dts rate
      let s := st.stream 0
      let st :=
        match s.nextSegment with
        | none => createFirstSegment st nd op.ntp
        | some seg =>
          if op.ra && (decide (nd - seg.startDTS ≥ st.cfg.segmentMinDur) || changed) then rotateSegments st nd op.ntp false
          else st
      tsWrite st { track := ti, pts := mulDiv op.pts 90000 rate, dts := mulDiv op.dts 90000 rate, pays := [pay] } size (some nd) false
    else
      fmp4Write st ti op.ra changed { dts := op.dts, ptsOff := op.pts - op.dts, sync := op.ra, pay := pay, size := size, ntp := op.ntp }
  | .h265 | .vp9 =>
    let (st, changed) := paramsStep st ti op.par op.ra
    let t := st.track ti
    if !t.firstRA && !op.ra then (st, .ok) else
    let st := st.setTrack ti { t with firstRA := true }
    fmp4Write st ti op.ra changed { dts := op.dts, ptsOff := op.pts - op.dts, sync := op.ra, pay := pay, size := size, ntp := op.ntp }
  | .av1 =>
    let (st, changed) := paramsStep st ti op.par op.ra
    let t := st.track ti
    if !t.firstRA && !op.ra then (st, .ok) else
    let st := st.setTrack ti { t with firstRA := true }
    fmp4Write st ti op.ra changed { dts := op.pts, ptsOff := 0, sync := op.ra, pay := pay, size := size, ntp := op.ntp }
  | .opus =>
    fmp4WriteMany st ti (buildOpus op.pays op.sizes op.durs op.pts op.ntp)
  | .aac =>
    if st.cfg.variant = .mpegts then
      let lead := st.isLeadingTrack ti
      let s := st.stream 0
      let nd := toDur op.pts rate
      if !lead && s.nextSegment.isNone then (st, .ok) else
      let st :=
        if lead then
          match s.nextSegment with
          | none => createFirstSegment st nd op.ntp
          | some seg =>
            if seg.audioAUCount ≥ mpegtsSegmentMinAUCount ∧ nd - seg.startDTS ≥ st.cfg.segmentMinDur then
              rotateSegments st nd op.ntp false
            else st
        else st
      tsWrite st { track := ti, pts := mulDiv op.pts 90000 rate, dts := mulDiv op.pts 90000 rate, pays := op.pays }
        (sumSizes op.sizes) (if lead then some nd else none) lead
    else
      let sr := tc.sampleRate
      fmp4WriteMany st ti (buildAac op.pts op.ntp rate sr 0 op.pays op.sizes)

/-! ## What the handlers compute -/

structure PlPart where
  dur   : Int
  key   : PathKey
  indep : Bool
  deriving Repr, DecidableEq

structure PlSeg where
  dur   : Int
  gap   : Bool
  key   : Option PathKey    -- none = "gap.mp4"
  pdt   : Option Int
  parts : List PlPart
  deriving Repr, DecidableEq

structure Playlist where
  version       : Nat
  allowCacheNo  : Bool
  targetDur     : Int
  mediaSeq      : Nat
  serverControl : Option (Int × Int)    -- (PART-HOLD-BACK ns, CAN-SKIP-UNTIL ns); CAN-BLOCK-RELOAD=YES
  partInf       : Option Int
  map           : Option PathKey
  skipped       : Option Nat
  segments      : List PlSeg
  parts         : List PlPart           -- parts of the open segment
  hint          : Option PathKey
  deriving Repr, DecidableEq

def StreamSt.hasContent (s : StreamSt) (v : Variant) : Bool :=
  if v = .fmp4 then s.segments.length ≥ 2 else s.segments.length ≥ 1

def plPart (si : Nat) (p : Part) : PlPart := { dur := p.duration, key := .part si p.id, indep := p.independent }

/-- number of head segments shown before the skip boundary is reached (`shown` loop) -/
def shownCount : List Entry → Int → Int → Nat
  | [], _, _ => 0
  | e :: rest, cur, boundary =>
    let cur := cur + e.duration
    if cur ≥ boundary then 0 else 1 + shownCount rest cur boundary

def mediaPlaylist (st : State) (si : Nat) (delta : Bool) : Playlist :=
  let s := st.stream si
  match st.cfg.variant with
  | .mpegts =>
    { version := 3, allowCacheNo := true, targetDur := s.targetDur, mediaSeq := s.deleteCount,
      serverControl := none, partInf := none, map := none, skipped := none,
      segments := s.segments.filterMap fun e =>
        match e with
        | .seg g => some { dur := g.duration, gap := false, key := some (.seg si g.id), pdt := some g.startNTP, parts := [] }
        | .gap _ => none,
      parts := [], hint := none }
  | v =>
    let skipBoundary := s.targetDur * 6 * S
    let isLL := v = .ll
    let skipped := if delta then s.segments.length - shownCount s.segments 0 skipBoundary else 0
    let n := s.segments.length
    let segs := (s.segments.zipIdx).filterMap fun (e, i) =>
      if i < skipped then none else
      match e with
      | .seg g =>
        some { dur := g.duration, gap := false, key := some (.seg si g.id),
               pdt := if n - i ≤ 2 then some g.startNTP else none,
               parts := if isLL ∧ n - i ≤ 2 then g.parts.map (plPart si) else [] }
      | .gap d => some { dur := d, gap := true, key := none, pdt := none, parts := [] }
    { version := 10, allowCacheNo := false, targetDur := s.targetDur, mediaSeq := s.deleteCount,
      serverControl := if isLL then some (Int.tdiv (s.partTargetDur * 25) 10, skipBoundary) else none,
      partInf := if isLL then some s.partTargetDur else none,
      map := if delta then none else some (.init si),
      skipped := if delta then some skipped else none,
      segments := segs,
      parts := if isLL then (match s.nextSegment with | some g => g.parts.map (plPart si) | none => []) else [],
      hint := if isLL then some (.part si s.nextPartID) else none }

/-- `hasPart(segmentID, partID)` including the roll-over `continue` over the REMAINING list; when the
    roll-over runs past the last complete segment, the open segment (`nextID`, `openParts` parts) is tested.
    `k` is the media sequence number of the list head (`muxerGap.id` of a gap entry: the initial gaps are
    created with ids 0..6 and `deleteCount + len(segments) = nextSegmentID`); a gap entry named by the request
    is a complete segment WITHOUT parts: the part index rolls over to part 0 of the following segment. -/
def hasPartScan (nextID openParts : Nat) : Nat → List Entry → Nat → Nat → Bool
  | _, [], m, p => decide (m = nextID ∧ p < openParts)
  | k, .gap _ :: rest, m, p =>
    if m = k then hasPartScan nextID openParts (k + 1) rest (m + 1) 0
    else hasPartScan nextID openParts (k + 1) rest m p
  | k, .seg g :: rest, m, p =>
    if m = g.id then
      if p ≥ g.parts.length then hasPartScan nextID openParts (k + 1) rest (m + 1) 0
      else true
    else hasPartScan nextID openParts (k + 1) rest m p

def StreamSt.openPartCount (s : StreamSt) : Nat :=
  match s.nextSegment with
  | some g => g.parts.length
  | none => 0

def StreamSt.hasPart (s : StreamSt) (m p : Nat) : Bool :=
  if m = s.nextSegmentID then decide (p < s.openPartCount)
  else hasPartScan s.nextSegmentID s.openPartCount (s.nextSegmentID - s.segments.length) s.segments m p

inductive ReqDecision
  | bad400
  | wait
  | respond (delta : Bool)
  deriving Repr, DecidableEq

def two64 : Nat := 18446744073709551616

/-- The decision of `handleMediaPlaylist` for already-parsed query values
    (`none` = parameter absent; unparsable numbers are handled by the caller as 400). -/
def reqDecision (st : State) (si : Nat) (msn part : Option Nat) (skip : Bool) : ReqDecision :=
  let s := st.stream si
  let v := st.cfg.variant
  let delta := v = .ll ∧ skip
  if v = .ll then
    match msn, part with
    | some m, p =>
      let pp := p.getD 0
      -- uint64 arithmetic: nextSegmentID - uint64(len(segments)-1)
      let lower := (s.nextSegmentID + two64 - ((s.segments.length + two64 - 1) % two64)) % two64
      if m > s.nextSegmentID + 1 ∨ m < lower then .bad400
      -- without `_HLS_part` the playlist must contain the whole segment
      else if s.hasContent v && ((p.isSome && s.hasPart m pp) || (p.isNone && decide (m < s.nextSegmentID))) then .respond delta
      else .wait
    | none, some _ => .bad400
    | none, none => if s.hasContent v then .respond delta else .wait
  else
    if s.hasContent v then .respond false else .wait

inductive Body
  | none                               -- unknown path: nothing written
  | init (params : List Nat)
  | segFMP4 (stored : List Part)
  | segTS (units : List TsUnit)
  | part (p : Part)
  | hintWait                           -- preload hint whose part is not complete yet
  | dynamic                            -- playlists (observed through `mediaPlaylist`)
  deriving Repr, DecidableEq

/-- `muxerServer.handle` for a media URI. -/
def get (st : State) (k : PathKey) : Body :=
  match lookupPath st.paths k with
  | none => .none
  | some (.init ps) => .init ps
  | some (.segFMP4 ps) => .segFMP4 ps
  | some (.segTS us) => .segTS us
  | some (.part p) => .part p
  | some (.hint si id) =>
    if (st.stream si).nextPartID > id then
      match lookupPath st.paths k with
      | some (.part p) => .part p
      | _ => .none
    else .hintWait
  | some _ => .dynamic

def run (st : State) : List WriteOp → State
  | [] => st
  | op :: ops => run (write st op).1 ops

end Hls.Muxer
