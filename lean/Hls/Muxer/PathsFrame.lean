import Hls.Muxer.PathsRot
/-!
  Frame facts for C05's immutability: identifiers only grow, and a segment / part key below the
  current identifiers keeps its handler or loses it — it is never re-bound (`Mono`).
  Also: which primitives keep `nextSegment.isSome` per stream (`SomeEq`, for `Sync`).
-/
namespace Hls.Muxer.Paths
open Hls.Muxer

structure Mono (st st' : State) : Prop where
  nsid : ∀ si, (st.stream si).nextSegmentID ≤ (st'.stream si).nextSegmentID
  npid : ∀ si, (st.stream si).nextPartID ≤ (st'.stream si).nextPartID
  seg : ∀ si id, id < (st.stream si).nextSegmentID →
    lookupPath st'.paths (.seg si id) = lookupPath st.paths (.seg si id) ∨ lookupPath st'.paths (.seg si id) = none
  part : ∀ si id, id < (st.stream si).nextPartID →
    lookupPath st'.paths (.part si id) = lookupPath st.paths (.part si id) ∨ lookupPath st'.paths (.part si id) = none

theorem Mono.refl (st : State) : Mono st st :=
  ⟨fun _ => Nat.le_refl _, fun _ => Nat.le_refl _, fun _ _ _ => Or.inl rfl, fun _ _ _ => Or.inl rfl⟩

theorem Mono.trans {a b c : State} (h1 : Mono a b) (h2 : Mono b c) : Mono a c := by
  constructor
  · intro si; exact Nat.le_trans (h1.nsid si) (h2.nsid si)
  · intro si; exact Nat.le_trans (h1.npid si) (h2.npid si)
  · intro si id hid
    rcases h2.seg si id (Nat.lt_of_lt_of_le hid (h1.nsid si)) with e2 | e2
    · rcases h1.seg si id hid with e1 | e1
      · left; rw [e2, e1]
      · right; rw [e2, e1]
    · right; exact e2
  · intro si id hid
    rcases h2.part si id (Nat.lt_of_lt_of_le hid (h1.npid si)) with e2 | e2
    · rcases h1.part si id hid with e1 | e1
      · left; rw [e2, e1]
      · right; rw [e2, e1]
    · right; exact e2

def SomeEq (st st' : State) : Prop :=
  ∀ si, (st'.stream si).nextSegment.isSome = (st.stream si).nextSegment.isSome

theorem SomeEq.refl (st : State) : SomeEq st st := fun _ => rfl
theorem SomeEq.trans {a b c : State} (h1 : SomeEq a b) (h2 : SomeEq b c) : SomeEq a c :=
  fun si => (h2 si).trans (h1 si)

theorem Mono.of_coreEq {st st' : State} (h : CoreEq st st') : Mono st st' := by
  constructor
  · intro si; rw [h.stream]; exact Nat.le_refl _
  · intro si; rw [h.stream]; exact Nat.le_refl _
  · intro si id _; left; rw [h.paths]
  · intro si id _; left; rw [h.paths]

theorem SomeEq.of_coreEq {st st' : State} (h : CoreEq st st') : SomeEq st st' := by
  intro si; rw [h.stream]

/-- a state whose paths are unchanged and whose stream `si` was replaced -/
theorem mono_of_set {st st' : State} (si : Nat) (s' : StreamSt)
    (hstr : ∀ sj, st'.stream sj = (st.setStream si s').stream sj) (hpaths : st'.paths = st.paths)
    (h1 : (st.stream si).nextSegmentID ≤ s'.nextSegmentID) (h2 : (st.stream si).nextPartID ≤ s'.nextPartID) :
    Mono st st' := by
  have key : ∀ sj, (st.stream sj).nextSegmentID ≤ (st'.stream sj).nextSegmentID ∧
      (st.stream sj).nextPartID ≤ (st'.stream sj).nextPartID := by
    intro sj
    rw [hstr]
    by_cases e : sj = si
    · subst e
      by_cases hsi : sj < st.streams.length
      · rw [stream_setStream_same st sj s' hsi]; exact ⟨h1, h2⟩
      · rw [setStream_oob st sj s' (Nat.le_of_not_lt hsi)]; exact ⟨Nat.le_refl _, Nat.le_refl _⟩
    · rw [stream_setStream_other st si sj s' e]; exact ⟨Nat.le_refl _, Nat.le_refl _⟩
  exact ⟨fun sj => (key sj).1, fun sj => (key sj).2, fun _ _ _ => Or.inl (by rw [hpaths]),
    fun _ _ _ => Or.inl (by rw [hpaths])⟩

theorem someEq_of_set {st st' : State} (si : Nat) (s' : StreamSt)
    (hstr : ∀ sj, st'.stream sj = (st.setStream si s').stream sj)
    (h : s'.nextSegment.isSome = (st.stream si).nextSegment.isSome) : SomeEq st st' := by
  intro sj
  rw [hstr]
  by_cases e : sj = si
  · subst e
    by_cases hsi : sj < st.streams.length
    · rw [stream_setStream_same st sj s' hsi]; exact h
    · rw [setStream_oob st sj s' (Nat.le_of_not_lt hsi)]
  · rw [stream_setStream_other st si sj s' e]

theorem stream_of_streams_set {st st' : State} {si : Nat} {s' : StreamSt}
    (h : st'.streams = st.streams.set si s') : ∀ sj, st'.stream sj = (st.setStream si s').stream sj := by
  intro sj; simp only [State.stream, h, State.setStream]

/-! ### `LocalEq` updates, `createFirstSegmentStream` -/

theorem mono_setStream_localEq (st : State) (si : Nat) (s' : StreamSt) (hl : LocalEq (st.stream si) s') :
    Mono st (st.setStream si s') :=
  mono_of_set si s' (fun _ => rfl) rfl (by rw [hl.nsid]; exact Nat.le_refl _) (by rw [hl.npid]; exact Nat.le_refl _)

theorem someEq_setStream_localEq (st : State) (si : Nat) (s' : StreamSt) (hl : LocalEq (st.stream si) s') :
    SomeEq st (st.setStream si s') :=
  someEq_of_set si s' (fun _ => rfl) hl.seg_isSome

theorem cfs_mono (st : State) (si : Nat) (d n : Int) : Mono st (createFirstSegmentStream st si d n) := by
  rw [cfs_eq]
  refine mono_of_set si _ (fun _ => rfl) rfl ?_ ?_ <;> (unfold cfsStream; cases st.cfg.variant <;> exact Nat.le_refl _)

theorem cfs_stream_other (st : State) (si sj : Nat) (d n : Int) (e : sj ≠ si) :
    (createFirstSegmentStream st si d n).stream sj = st.stream sj := by
  rw [cfs_eq]; exact stream_setStream_other st si sj _ e

theorem cfs_stream_same (st : State) (si : Nat) (d n : Int) (hsi : si < st.streams.length) :
    (createFirstSegmentStream st si d n).stream si = cfsStream st.cfg.variant (st.stream si) d n := by
  rw [cfs_eq]; exact stream_setStream_same st si _ hsi

theorem cfsStream_isSome (v : Variant) (s : StreamSt) (d n : Int) : (cfsStream v s d n).nextSegment.isSome = true := by
  unfold cfsStream; cases v <;> rfl

/-! ### `rotatePartsStream` -/

theorem rps_mono (st : State) (si : Nat) (d : Int) (b : Bool)
    (hid : ∀ part, (st.stream si).nextPart = some part → part.id = (st.stream si).nextPartID) :
    Mono st (rotatePartsStream st si d b) := by
  cases hp : (st.stream si).nextPart with
  | none => rw [rps_noop st si d b (Or.inl hp)]; exact Mono.refl st
  | some part =>
    cases hs : (st.stream si).nextSegment with
    | none => rw [rps_noop st si d b (Or.inr hs)]; exact Mono.refl st
    | some seg =>
      obtain ⟨p, ptd, hpid, hcfg, hpaths, hstreams⟩ := rps_eq st si d b part seg hp hs
      have hstr := stream_of_streams_set hstreams
      have hm := mono_of_set (st' := { st.setStream si (rpsStream st.cfg.variant (st.stream si) seg p b d ptd) with paths := st.paths })
        si (rpsStream st.cfg.variant (st.stream si) seg p b d ptd) (fun _ => rfl) rfl
        (Nat.le_refl _) (Nat.le_succ _)
      have hpid' : p.id = (st.stream si).nextPartID := hpid.trans (hid part hp)
      constructor
      · intro sj; rw [hstr]; exact hm.nsid sj
      · intro sj; rw [hstr]; exact hm.npid sj
      · intro sj id _; left; rw [hpaths, rps_lookup]; simp
      · intro sj id hlt
        left
        rw [hpaths, rps_lookup]
        split
        · by_cases e : sj = si
          · subst e
            have h1 : ¬ id = (st.stream sj).nextPartID + 1 := by omega
            have h2 : ¬ id = p.id := by omega
            simp [h1, h2]
          · simp [e]
        · rfl

theorem rps_someEq (st : State) (si : Nat) (d : Int) (b : Bool) : SomeEq st (rotatePartsStream st si d b) := by
  cases hp : (st.stream si).nextPart with
  | none => rw [rps_noop st si d b (Or.inl hp)]; exact SomeEq.refl st
  | some part =>
    cases hs : (st.stream si).nextSegment with
    | none => rw [rps_noop st si d b (Or.inr hs)]; exact SomeEq.refl st
    | some seg =>
      obtain ⟨p, ptd, _, _, _, hstreams⟩ := rps_eq st si d b part seg hp hs
      exact someEq_of_set si _ (stream_of_streams_set hstreams) (by rw [hs]; rfl)

/-! ### `rscore`, `rotateSegmentsStream` -/

theorem rscore_facts (st : State) (si : Nat) (d n : Int) (f : Bool) (seg : Seg)
    (hs : (st.stream si).nextSegment = some seg) :
    ∃ (S : StreamSt) (e : Option Entry) (P : PL → PL),
      (∀ sj, (rscore st si d n f).stream sj = (st.setStream si S).stream sj) ∧
      S.nextSegmentID = (st.stream si).nextSegmentID + 1 ∧ S.nextPartID = (st.stream si).nextPartID ∧
      S.nextSegment.isSome = true ∧
      (rscore st si d n f).paths =
        P (pathsAfterDel si (regPath st.paths (.seg si seg.id) (segHandler st.cfg.variant { seg with endDTS := d })) e) ∧
      (∀ Q k, k ≠ .init si → lookupPath (P Q) k = lookupPath Q k) := by
  rw [rscore_nf st si d n f seg hs]
  obtain ⟨e, B, F', _, _, hr⟩ := delHead_spec si st.cfg.segmentCount
    (rscSegs st.cfg.variant (st.stream si) { seg with endDTS := d })
    (regPath st.paths (.seg si seg.id) (segHandler st.cfg.variant { seg with endDTS := d }))
    st.files (st.stream si).deleteCount (rscSegs_ne_nil _ _ _)
  obtain ⟨_, hpaths, hstreams⟩ := rscoreNF_eq st si d n f seg B _ F' _ hr
  refine ⟨_, e, fun Q => (initStep st.cfg.variant si (st.stream si) { seg with endDTS := d } Q
        ((st.stream si).tracks.map fun t => (st.track t).params)).1, stream_of_streams_set hstreams, ?_, ?_, ?_, hpaths, ?_⟩
  · rw [(tdStep_localEq _).nsid]; rfl
  · rw [(tdStep_localEq _).npid]; rfl
  · rw [(tdStep_localEq _).seg_isSome]; rfl
  · intro Q k hk
    rw [initStep_lookup, if_neg (fun h => hk h.2)]

theorem rscore_mono (st : State) (si : Nat) (d n : Int) (f : Bool)
    (hid : ∀ seg, (st.stream si).nextSegment = some seg → seg.id = (st.stream si).nextSegmentID) :
    Mono st (rscore st si d n f) := by
  cases hs : (st.stream si).nextSegment with
  | none => rw [rscore_none st si d n f hs]; exact Mono.refl st
  | some seg =>
    obtain ⟨S, e, P, hstr, h1, h2, _, hpaths, hP⟩ := rscore_facts st si d n f seg hs
    have hm := mono_of_set (st' := { st.setStream si S with paths := st.paths }) si S (fun _ => rfl) rfl
      (by omega) (by omega)
    have hsid := hid seg hs
    constructor
    · intro sj; rw [hstr]; exact hm.nsid sj
    · intro sj; rw [hstr]; exact hm.npid sj
    · intro sj id hlt
      rw [hpaths, hP _ _ (by simp), lookup_pathsAfterDel]
      split
      · right; rfl
      · split
        · right; rfl
        · left
          rw [lookup_reg, if_neg]
          intro h
          simp only [PathKey.seg.injEq] at h
          obtain ⟨rfl, rfl⟩ := h
          omega
    · intro sj id hlt
      rw [hpaths, hP _ _ (by simp), lookup_pathsAfterDel]
      split
      · right; rfl
      · split
        · right; rfl
        · left; rw [lookup_reg, if_neg (by simp)]

theorem rscore_someEq (st : State) (si : Nat) (d n : Int) (f : Bool) : SomeEq st (rscore st si d n f) := by
  cases hs : (st.stream si).nextSegment with
  | none => rw [rscore_none st si d n f hs]; exact SomeEq.refl st
  | some seg =>
    obtain ⟨S, e, P, hstr, _, _, h3, _, _⟩ := rscore_facts st si d n f seg hs
    exact someEq_of_set si S hstr (by rw [h3, hs]; rfl)

theorem rss_someEq (st : State) (si : Nat) (d n : Int) (f : Bool) : SomeEq st (rotateSegmentsStream st si d n f) := by
  rw [rss_eq]
  split
  · exact (rps_someEq st si d false).trans (rscore_someEq _ si d n f)
  · exact rscore_someEq st si d n f

theorem rss_mono {st : State} (si : Nat) (d n : Int) (f : Bool) (hI : InvAt none st) :
    Mono st (rotateSegmentsStream st si d n f) := by
  rw [rss_eq]
  by_cases hsi : si < st.streams.length
  case neg =>
    have hso := stream_oob st si (Nat.le_of_not_lt hsi)
    have h1 : rotatePartsStream st si d false = st := rps_noop st si d false (Or.inl (by rw [hso]))
    rw [h1, ite_self, rscore_none st si d n f (by rw [hso])]
    exact Mono.refl st
  have hSI : SInv st.cfg.variant false (st.stream si) := by simpa using hI.sinv si hsi
  split
  · have hI1 := rps_inv si d false hI (by intro h; cases h)
    have hsi1 : si < (rotatePartsStream st si d false).streams.length := by rw [rps_length]; exact hsi
    refine (rps_mono st si d false hSI.open_part_id).trans (rscore_mono _ si d n f ?_)
    exact (hI1.sinv si hsi1).open_seg_id
  · exact rscore_mono st si d n f hSI.open_seg_id

end Hls.Muxer.Paths
