import Hls.Muxer.PathsAlg
import Hls.Muxer.PathsSpec
/-!
  The invariant behind C05 (`InvAt`) and its elementary consequences.

  `SInv v mid s`  — per-stream facts (ids, window numbering, part ids, parts vs stored, init/hint presence);
                    `mid = true` describes a stream between the `rotateParts(next, false)` and the rest of
                    `rotateSegments` (open part already finalized into the open segment, no new part yet).
  `InvAt mid st`  — configuration facts, all streams in step, `SInv` for every stream, the exact
                    description of `st.paths`.
-/
namespace Hls.Muxer.Paths
open Hls.Muxer

/-! ### `State` plumbing -/

theorem stream_setStream_same (st : State) (si : Nat) (s : StreamSt) (h : si < st.streams.length) :
    (st.setStream si s).stream si = s := by
  simp [State.stream, State.setStream, List.getD_eq_getElem?_getD, h]

theorem stream_setStream_other (st : State) (si sj : Nat) (s : StreamSt) (h : sj ≠ si) :
    (st.setStream si s).stream sj = st.stream sj := by
  have : ¬ si = sj := fun e => h e.symm
  simp [State.stream, State.setStream, List.getD_eq_getElem?_getD, this]

theorem setStream_oob (st : State) (si : Nat) (s : StreamSt) (h : st.streams.length ≤ si) :
    st.setStream si s = st := by
  simp [State.setStream, List.set_eq_of_length_le h]

theorem setStream_length (st : State) (si : Nat) (s : StreamSt) :
    (st.setStream si s).streams.length = st.streams.length := by
  simp [State.setStream]

theorem stream_oob (st : State) (si : Nat) (h : st.streams.length ≤ si) :
    st.stream si = { tracks := [], isLeading := false, nextSegmentID := 0 } := by
  simp [State.stream, List.getD_eq_getElem?_getD, List.getElem?_eq_none h]

/-- equality of the fields C05 looks at -/
structure CoreEq (st st' : State) : Prop where
  cfg : st'.cfg = st.cfg
  streams : st'.streams = st.streams
  paths : st'.paths = st.paths

theorem CoreEq.refl (st : State) : CoreEq st st := ⟨rfl, rfl, rfl⟩
theorem CoreEq.trans {a b c : State} (h1 : CoreEq a b) (h2 : CoreEq b c) : CoreEq a c :=
  ⟨h2.cfg.trans h1.cfg, h2.streams.trans h1.streams, h2.paths.trans h1.paths⟩
theorem CoreEq.stream {st st' : State} (h : CoreEq st st') (si : Nat) : st'.stream si = st.stream si := by
  simp [State.stream, h.streams]

theorem coreEq_setTrack (st : State) (i : Nat) (t : TrackSt) : CoreEq st (st.setTrack i t) := ⟨rfl, rfl, rfl⟩

/-! ### window vocabulary -/

theorem mem_realSegs (s : StreamSt) (g : Seg) : g ∈ realSegs s ↔ Entry.seg g ∈ s.segments := by
  unfold realSegs
  simp only [List.mem_filterMap]
  constructor
  · rintro ⟨e, he, h⟩
    cases e with
    | gap d => simp at h
    | seg g' => simp only [Option.some.injEq] at h; subst h; exact he
  · intro h; exact ⟨.seg g, h, rfl⟩

theorem inj_of_nodup_map {α β} (f : α → β) (l : List α) (h : (l.map f).Nodup) {a b : α}
    (ha : a ∈ l) (hb : b ∈ l) (e : f a = f b) : a = b := by
  induction l with
  | nil => simp at ha
  | cons x l ih =>
    simp only [List.map_cons, List.nodup_cons, List.mem_map, not_exists, not_and] at h
    rcases List.mem_cons.1 ha with rfl | ha' <;> rcases List.mem_cons.1 hb with rfl | hb'
    · rfl
    · exact absurd e.symm (h.1 b hb')
    · exact absurd e (h.1 a ha')
    · exact ih h.2 ha' hb'

theorem flatMap_congr' {α β} (l : List α) (f g : α → List β) (h : ∀ a ∈ l, f a = g a) :
    l.flatMap f = l.flatMap g := by
  induction l with
  | nil => rfl
  | cons x l ih =>
    simp only [List.flatMap_cons]
    rw [h x (by simp), ih (fun a ha => h a (by simp [ha]))]

def startSegID (v : Variant) : Nat := if v = .ll then 7 else 0

/-- per-stream invariant -/
structure SInv (v : Variant) (mid : Bool) (s : StreamSt) : Prop where
  open_seg_id : ∀ g, s.nextSegment = some g → g.id = s.nextSegmentID
  open_part_id : ∀ p, s.nextPart = some p → p.id = s.nextPartID
  open_part_ts : v = .mpegts → s.nextPart = none
  ts_npid : v = .mpegts → s.nextPartID = 0
  top : mid = false → v ≠ .mpegts → s.nextSegment.isSome = true → s.nextPart.isSome = true
  midp : mid = true → v ≠ .mpegts ∧ s.nextPart = none ∧ ∃ g, s.nextSegment = some g ∧ g.stored ≠ []
  seg_idx : ∀ i g, s.segments[i]? = some (.seg g) → g.id = s.deleteCount + i
  seg_len : s.segments ≠ [] → s.deleteCount + s.segments.length = s.nextSegmentID
  seg_empty : s.segments = [] → s.deleteCount = 0 ∧ s.nextSegmentID = startSegID v
  part_ids : ∃ lo, (winStored s).map (·.id) = List.range' lo (s.nextPartID - lo) ∧ lo ≤ s.nextPartID
              ∧ (0 < s.nextPartID → lo < s.nextPartID)
  parts_win : ∀ g, Entry.seg g ∈ s.segments → g.parts = if v = .ll then g.stored else []
  parts_open : ∀ g, s.nextSegment = some g → g.parts = if v = .ll then g.stored else []
  stored_one : v = .fmp4 → ∀ g, Entry.seg g ∈ s.segments → g.stored.length = 1
  stored_open : v = .fmp4 → ∀ g, s.nextSegment = some g → g.stored.length = if mid then 1 else 0
  init_present : v ≠ .mpegts → s.segments ≠ [] → s.initPresent = true
  hint_present : v ≠ .mpegts → s.segments ≠ [] → 0 < s.nextPartID

def RegSeg (v : Variant) (s : StreamSt) (id : Nat) (h : Handler) : Prop :=
  ∃ g, Entry.seg g ∈ s.segments ∧ g.id = id ∧ h = segHandler v g

def RegPart (v : Variant) (si : Nat) (s : StreamSt) (id : Nat) (h : Handler) : Prop :=
  v = .ll ∧ ((∃ p, p ∈ winParts s ∧ p.id = id ∧ h = .part p) ∨
             (id = s.nextPartID ∧ 0 < id ∧ h = .hint si id))

/-- the global invariant; `mid = some si` while stream `si` is inside `rotateSegments` -/
structure InvAt (mid : Option Nat) (st : State) : Prop where
  wf_tracks : st.cfg.tracks ≠ []
  wf_len : st.streams.length = if st.cfg.variant = .mpegts then 1 else st.cfg.tracks.length
  wf_count : 1 ≤ st.cfg.segmentCount
  sinv : ∀ si, si < st.streams.length → SInv st.cfg.variant (decide (mid = some si)) (st.stream si)
  nodup : (keys st.paths).Nodup
  p_index : lookupPath st.paths .index = some .multivariant
  p_playlist : ∀ si, lookupPath st.paths (.playlist si)
      = if si < st.streams.length then some (.mediaPlaylist si) else none
  p_init_some : ∀ si h, lookupPath st.paths (.init si) = some h →
      (st.stream si).initPresent = true ∧ ∃ ps, h = .init ps
  p_init_pres : ∀ si, (st.stream si).initPresent = true → ∃ ps, lookupPath st.paths (.init si) = some (.init ps)
  p_seg : ∀ si id h, lookupPath st.paths (.seg si id) = some h ↔ RegSeg st.cfg.variant (st.stream si) id h
  p_part : ∀ si id h, lookupPath st.paths (.part si id) = some h ↔ RegPart st.cfg.variant si (st.stream si) id h

/-- all streams have an open segment, or none has (`createFirstSegment` / `rotateSegments` act on all) -/
def Sync (st : State) : Prop :=
  ∀ si sj, si < st.streams.length → sj < st.streams.length →
    (st.stream si).nextSegment.isSome = (st.stream sj).nextSegment.isSome

structure Inv (st : State) : Prop where
  inv : InvAt none st
  sync : Sync st

theorem InvAt.of_coreEq {mid : Option Nat} {st st' : State} (h : CoreEq st st') (hI : InvAt mid st) : InvAt mid st' := by
  have hs : ∀ si, st'.stream si = st.stream si := h.stream
  constructor
  · rw [h.cfg]; exact hI.wf_tracks
  · rw [h.cfg, h.streams]; exact hI.wf_len
  · rw [h.cfg]; exact hI.wf_count
  · intro si; rw [h.streams, h.cfg, hs]; exact hI.sinv si
  · rw [h.paths]; exact hI.nodup
  · rw [h.paths]; exact hI.p_index
  · intro si; rw [h.paths, h.streams]; exact hI.p_playlist si
  · intro si; rw [h.paths, hs]; exact hI.p_init_some si
  · intro si; rw [h.paths, hs]; exact hI.p_init_pres si
  · intro si; rw [h.paths, hs, h.cfg]; exact hI.p_seg si
  · intro si; rw [h.paths, hs, h.cfg]; exact hI.p_part si

theorem Sync.of_coreEq {st st' : State} (h : CoreEq st st') (hS : Sync st) : Sync st' := by
  intro si sj; rw [h.streams, h.stream, h.stream]; exact hS si sj

theorem Inv.of_coreEq {st st' : State} (h : CoreEq st st') (hI : Inv st) : Inv st' :=
  ⟨hI.inv.of_coreEq h, hI.sync.of_coreEq h⟩

/-! ### streams that differ only in fields C05 does not look at -/

def segView (g : Seg) : Nat × List Part × List Part := (g.id, g.parts, g.stored)

structure LocalEq (s s' : StreamSt) : Prop where
  segments : s'.segments = s.segments
  nsid : s'.nextSegmentID = s.nextSegmentID
  npid : s'.nextPartID = s.nextPartID
  dc : s'.deleteCount = s.deleteCount
  init : s'.initPresent = s.initPresent
  part : s'.nextPart.map (·.id) = s.nextPart.map (·.id)
  seg : s'.nextSegment.map segView = s.nextSegment.map segView

theorem LocalEq.refl (s : StreamSt) : LocalEq s s := ⟨rfl, rfl, rfl, rfl, rfl, rfl, rfl⟩

theorem LocalEq.seg_some {s s' : StreamSt} (h : LocalEq s s') {g' : Seg} (hg : s'.nextSegment = some g') :
    ∃ g, s.nextSegment = some g ∧ g.id = g'.id ∧ g.parts = g'.parts ∧ g.stored = g'.stored := by
  have := h.seg
  rw [hg] at this
  cases hn : s.nextSegment with
  | none => rw [hn] at this; simp at this
  | some g =>
    rw [hn] at this
    simp only [Option.map_some, Option.some.injEq, segView, Prod.mk.injEq] at this
    exact ⟨g, rfl, this.1.symm, this.2.1.symm, this.2.2.symm⟩

theorem LocalEq.seg_isSome {s s' : StreamSt} (h : LocalEq s s') : s'.nextSegment.isSome = s.nextSegment.isSome := by
  have := congrArg Option.isSome h.seg
  simpa using this

theorem LocalEq.part_isSome {s s' : StreamSt} (h : LocalEq s s') : s'.nextPart.isSome = s.nextPart.isSome := by
  have := congrArg Option.isSome h.part
  simpa using this

theorem LocalEq.part_some {s s' : StreamSt} (h : LocalEq s s') {p' : Part} (hp : s'.nextPart = some p') :
    ∃ p, s.nextPart = some p ∧ p.id = p'.id := by
  have := h.part
  rw [hp] at this
  cases hn : s.nextPart with
  | none => rw [hn] at this; simp at this
  | some p =>
    rw [hn] at this
    simp only [Option.map_some, Option.some.injEq] at this
    exact ⟨p, rfl, this.symm⟩

theorem LocalEq.realSegs {s s' : StreamSt} (h : LocalEq s s') : realSegs s' = realSegs s := by
  unfold Paths.realSegs; rw [h.segments]

theorem LocalEq.openParts {s s' : StreamSt} (h : LocalEq s s') : openParts s' = openParts s := by
  unfold Paths.openParts
  cases hn' : s'.nextSegment with
  | none =>
    have := h.seg_isSome; rw [hn'] at this
    cases hn : s.nextSegment with
    | none => rfl
    | some g => rw [hn] at this; simp at this
  | some g' =>
    obtain ⟨g, hg, _, hp, _⟩ := h.seg_some hn'
    rw [hg]; exact hp.symm

theorem LocalEq.openStored {s s' : StreamSt} (h : LocalEq s s') : openStored s' = openStored s := by
  unfold Paths.openStored
  cases hn' : s'.nextSegment with
  | none =>
    have := h.seg_isSome; rw [hn'] at this
    cases hn : s.nextSegment with
    | none => rfl
    | some g => rw [hn] at this; simp at this
  | some g' =>
    obtain ⟨g, hg, _, _, hp⟩ := h.seg_some hn'
    rw [hg]; exact hp.symm

theorem LocalEq.winParts {s s' : StreamSt} (h : LocalEq s s') : winParts s' = winParts s := by
  unfold Paths.winParts; rw [h.realSegs, h.openParts]

theorem LocalEq.winStored {s s' : StreamSt} (h : LocalEq s s') : winStored s' = winStored s := by
  unfold Paths.winStored; rw [h.realSegs, h.openStored]

theorem SInv.congr {v mid s s'} (h : LocalEq s s') (hI : SInv v mid s) : SInv v mid s' := by
  constructor
  · intro g' hg'
    obtain ⟨g, hg, hid, _, _⟩ := h.seg_some hg'
    rw [← hid, h.nsid]; exact hI.open_seg_id g hg
  · intro p' hp'
    obtain ⟨p, hp, hid⟩ := h.part_some hp'
    rw [← hid, h.npid]; exact hI.open_part_id p hp
  · intro hv
    have h1 := hI.open_part_ts hv
    have h2 := h.part_isSome
    rw [h1] at h2
    cases hn : s'.nextPart with
    | none => rfl
    | some p => rw [hn] at h2; simp at h2
  · rw [h.npid]; exact hI.ts_npid
  · intro hm hv hsome
    rw [h.part_isSome]; rw [h.seg_isSome] at hsome
    exact hI.top hm hv hsome
  · intro hm
    obtain ⟨hv, hnp, g, hg, hne⟩ := hI.midp hm
    refine ⟨hv, ?_, ?_⟩
    · have h2 := h.part_isSome
      rw [hnp] at h2
      cases hn : s'.nextPart with
      | none => rfl
      | some p => rw [hn] at h2; simp at h2
    · have h2 := h.seg_isSome
      rw [hg] at h2
      cases hn : s'.nextSegment with
      | none => rw [hn] at h2; simp at h2
      | some g' =>
        obtain ⟨g0, hg0, _, _, hst⟩ := h.seg_some hn
        rw [hg] at hg0; cases hg0
        exact ⟨g', rfl, hst ▸ hne⟩
  · intro i g; rw [h.segments, h.dc]; exact hI.seg_idx i g
  · rw [h.segments, h.dc, h.nsid]; exact hI.seg_len
  · rw [h.segments, h.dc, h.nsid]; exact hI.seg_empty
  · rw [h.winStored, h.npid]; exact hI.part_ids
  · intro g; rw [h.segments]; exact hI.parts_win g
  · intro g' hg'
    obtain ⟨g, hg, _, hp, hst⟩ := h.seg_some hg'
    rw [← hp, ← hst]; exact hI.parts_open g hg
  · intro hv g; rw [h.segments]; exact hI.stored_one hv g
  · intro hv g' hg'
    obtain ⟨g, hg, _, _, hst⟩ := h.seg_some hg'
    rw [← hst]; exact hI.stored_open hv g hg
  · rw [h.segments, h.init]; exact hI.init_present
  · rw [h.segments, h.npid]; exact hI.hint_present

theorem RegSeg.congr {v s s' id h} (hl : LocalEq s s') : RegSeg v s' id h ↔ RegSeg v s id h := by
  unfold RegSeg; rw [hl.segments]

theorem RegPart.congr {v si s s' id h} (hl : LocalEq s s') : RegPart v si s' id h ↔ RegPart v si s id h := by
  unfold RegPart; rw [hl.winParts, hl.npid]

/-! ### consequences of `SInv` -/

theorem SInv.seg_id_lt {v mid s} (h : SInv v mid s) (g : Seg) (hg : Entry.seg g ∈ s.segments) :
    s.deleteCount ≤ g.id ∧ g.id < s.nextSegmentID := by
  obtain ⟨i, hi, hget⟩ := List.mem_iff_getElem.1 hg
  have h1 := h.seg_idx i g (by rw [List.getElem?_eq_getElem hi, hget])
  have hne : s.segments ≠ [] := by intro e; rw [e] at hi; simp at hi
  have h2 := h.seg_len hne
  omega

theorem SInv.seg_unique {v mid s} (h : SInv v mid s) (g g' : Seg) (hg : Entry.seg g ∈ s.segments)
    (hg' : Entry.seg g' ∈ s.segments) (hid : g.id = g'.id) : g = g' := by
  obtain ⟨i, hi, hget⟩ := List.mem_iff_getElem.1 hg
  obtain ⟨j, hj, hget'⟩ := List.mem_iff_getElem.1 hg'
  have h1 := h.seg_idx i g (by rw [List.getElem?_eq_getElem hi, hget])
  have h2 := h.seg_idx j g' (by rw [List.getElem?_eq_getElem hj, hget'])
  have : i = j := by omega
  subst this
  rw [hget] at hget'
  exact Entry.seg.inj hget'

theorem SInv.stored_id_lt {v mid s} (h : SInv v mid s) (p : Part) (hp : p ∈ winStored s) : p.id < s.nextPartID := by
  obtain ⟨lo, hids, hlo, _⟩ := h.part_ids
  have : p.id ∈ (winStored s).map (·.id) := List.mem_map.2 ⟨p, hp, rfl⟩
  rw [hids, List.mem_range'_1] at this
  omega

theorem SInv.stored_nodup {v mid s} (h : SInv v mid s) : ((winStored s).map (·.id)).Nodup := by
  obtain ⟨lo, hids, _⟩ := h.part_ids
  rw [hids]; exact List.nodup_range' (step := 1) (by omega)

theorem SInv.stored_unique {v mid s} (h : SInv v mid s) (p p' : Part) (hp : p ∈ winStored s)
    (hp' : p' ∈ winStored s) (hid : p.id = p'.id) : p = p' :=
  inj_of_nodup_map _ _ h.stored_nodup hp hp' hid

theorem SInv.winParts_eq {v mid s} (h : SInv v mid s) : winParts s = if v = .ll then winStored s else [] := by
  have h1 : ∀ g ∈ realSegs s, g.parts = if v = .ll then g.stored else [] :=
    fun g hg => h.parts_win g ((mem_realSegs s g).1 hg)
  have h2 : openParts s = if v = .ll then openStored s else [] := by
    unfold openParts openStored
    cases hn : s.nextSegment with
    | none => simp
    | some g => simpa using h.parts_open g hn
  unfold winParts winStored
  rw [h2]
  by_cases hv : v = .ll
  · simp only [hv, if_true] at h1 ⊢
    congr 1
    exact flatMap_congr' _ _ _ h1
  · simp only [hv, if_false] at h1 ⊢
    simp only [List.append_nil, List.flatMap_eq_nil_iff]
    exact h1

theorem SInv.part_id_lt {v mid s} (h : SInv v mid s) (p : Part) (hp : p ∈ winParts s) : p.id < s.nextPartID := by
  rw [h.winParts_eq] at hp
  by_cases hv : v = .ll
  · simp only [hv, if_true] at hp; exact h.stored_id_lt p hp
  · simp [hv] at hp

theorem SInv.part_unique {v mid s} (h : SInv v mid s) (p p' : Part) (hp : p ∈ winParts s)
    (hp' : p' ∈ winParts s) (hid : p.id = p'.id) : p = p' := by
  rw [h.winParts_eq] at hp hp'
  by_cases hv : v = .ll
  · simp only [hv, if_true] at hp hp'; exact h.stored_unique p p' hp hp' hid
  · simp [hv] at hp

end Hls.Muxer.Paths
