import Hls.Muxer.InvBound
/-! When a write is refused for size (C18): `fmp4WriteSample` returns an error exactly from
    `muxerPart.writeSample`, and then no segment's `size` counter has changed. -/
namespace Hls.Muxer

/-- payload counter of the open segment (0 when there is none) -/
def openSize (s : StreamSt) : Nat :=
  match s.nextSegment with
  | some g => g.size
  | none => 0

/-- no stream's listed segments nor its open segment's payload counter changed -/
structure SameSizes (st st' : State) : Prop where
  len : st'.streams.length = st.streams.length
  same : ∀ i, i < st.streams.length →
    (st'.stream i).segments = (st.stream i).segments ∧ openSize (st'.stream i) = openSize (st.stream i)

theorem SameSizes.refl (st : State) : SameSizes st st := ⟨rfl, fun _ _ => ⟨rfl, rfl⟩⟩
theorem SameSizes.trans {a b c : State} (h1 : SameSizes a b) (h2 : SameSizes b c) : SameSizes a c :=
  ⟨h2.len.trans h1.len, fun i hi =>
    ⟨(h2.same i (h1.len ▸ hi)).1.trans (h1.same i hi).1, (h2.same i (h1.len ▸ hi)).2.trans (h1.same i hi).2⟩⟩
theorem SameSizes.of_streams {st st' : State} (h : st'.streams = st.streams) : SameSizes st st' :=
  ⟨by rw [h], fun i _ => by
    have : st'.stream i = st.stream i := by simp [State.stream, h]
    rw [this]; exact ⟨rfl, rfl⟩⟩

theorem rotateDecide_ok (st : State) (c1 : Bool) (c2 : Prop) [Decidable c2] (changed : Bool) (nd ntp : Int) :
    (rotateDecide st c1 c2 changed nd ntp).2 = .ok := by
  unfold rotateDecide
  split
  · rfl
  · split <;> rfl

/-- `fmp4WriteSample` fails only in `muxerPart.writeSample`: the look-ahead sample `old` would push the open
    segment of the track's stream over `segmentMaxSize`; nothing was buffered. -/
theorem fmp4Write_err {st : State} (hinv : Inv st) (hv : st.cfg.variant ≠ .mpegts) (ti : Nat) (ra changed : Bool)
    (smp : Sample) (herr : (fmp4Write st ti ra changed smp).2 = .err) :
    SameSizes st (fmp4Write st ti ra changed smp).1 ∧
    ∃ g old, ((fmp4Write st ti ra changed smp).1.stream (st.streamOf ti)).nextSegment = some g ∧
      (st.track ti).next = some old ∧ g.size + old.size > st.cfg.segmentMaxSize := by
  rw [fmp4Write_eq] at herr ⊢
  simp only [] at herr ⊢
  split at herr
  · cases herr
  · rename_i hdts
    rw [if_neg hdts]
    cases hnext : (st.track ti).next with
    | none => rw [hnext] at herr; cases herr
    | some old0 =>
      rw [hnext] at herr
      simp only at herr ⊢
      -- the state after the look-ahead swap
      generalize hA : st.setTrack ti { st.track ti with next := some { smp with dts := smp.dts + toTs fmp4StartDTS (st.tcfg ti).clockRate } } = stA at herr ⊢
      have hAinv : Inv stA := by rw [← hA]; exact hinv.of_fields rfl rfl rfl rfl
      have hAcfg : stA.cfg = st.cfg := by rw [← hA]; rfl
      have hAstr : stA.streams = st.streams := by rw [← hA]; rfl
      have hAof : stA.streamOf ti = st.streamOf ti := by unfold State.streamOf; rw [hAcfg]
      have hAs : SameSizes st stA := SameSizes.of_streams hAstr
      generalize hsmp : ({ smp with dts := smp.dts + toTs fmp4StartDTS (st.tcfg ti).clockRate } : Sample) = smp' at herr ⊢
      generalize (st.tcfg ti).clockRate = rate at herr ⊢
      unfold fmp4Emit at herr ⊢
      simp only [] at herr ⊢
      split at herr
      · cases herr
      · rename_i hexit
        rw [if_neg hexit]
        -- stage B
        have hB : ∃ stB, stB = (if (stA.isLeadingTrack ti && !((stA.stream (stA.streamOf ti)).nextSegment.isSome)) = true then
            createFirstSegment stA (toDur old0.dts rate) old0.ntp else stA) ∧ Inv stB ∧ SameSizes stA stB ∧
            stB.cfg = stA.cfg ∧ (stB.stream (stA.streamOf ti)).nextSegment.isSome = true := by
          refine ⟨_, rfl, ?_⟩
          split
          · rename_i hc
            simp only [Bool.and_eq_true, Bool.not_eq_true', Option.isSome_eq_false_iff, Option.isNone_iff_eq_none] at hc
            have hsi := streamOf_lead hc.1
            rw [hsi] at hc ⊢
            have hcl := hAinv.closed_all hc.2
            obtain ⟨i1, i2, i3, i4⟩ := hAinv.createFirstSegment hcl (toDur old0.dts rate) old0.ntp
            refine ⟨i1, ⟨i3, fun i hi => ?_⟩, i2, ?_⟩
            · rw [i4 i hi]
              refine ⟨rfl, ?_⟩
              simp [openSize, firstSegS, hcl i hi]
            · rw [i4 _ hAinv.struct.leadIdx_lt]; rfl
          · rename_i hc
            refine ⟨hAinv, SameSizes.refl _, rfl, ?_⟩
            cases hl : stA.isLeadingTrack ti <;> cases hs : (stA.stream (stA.streamOf ti)).nextSegment.isSome <;>
              simp [hl, hs] at hc hexit ⊢
        obtain ⟨stB, hBeq, hBinv, hBs, hBcfg, hBopen⟩ := hB
        rw [← hBeq] at herr ⊢
        -- stage C
        have hC : ∃ stC, stC = (if stA.isLeadingTrack ti = true then
            adjustPartDuration stB (toDur (smp'.dts - old0.dts) rate) else stB) ∧ Inv stC ∧ stC.streams = stB.streams ∧
            stC.cfg = stB.cfg := by
          refine ⟨_, rfl, ?_⟩
          split
          · obtain ⟨a1, a2, a3, a4⟩ := adjustPartDuration_fields stB (toDur (smp'.dts - old0.dts) rate)
            exact ⟨hBinv.of_fields a1 a2 a3 a4, a2, a1⟩
          · exact ⟨hBinv, rfl, rfl⟩
        obtain ⟨stC, hCeq, hCinv, hCstr, hCcfg⟩ := hC
        rw [← hCeq] at herr ⊢
        have hCof : stC.streamOf ti = st.streamOf ti := by
          unfold State.streamOf; rw [hCcfg, hBcfg, hAcfg]
        have hCstream : stC.stream (st.streamOf ti) = stB.stream (stA.streamOf ti) := by
          rw [hAof]; simp [State.stream, hCstr]
        -- stage D
        rcases partWriteSample_spec stC ti { old0 with dur := (smp'.dts - old0.dts) % 4294967296 } with
          ⟨g, p, hg, hp, hsz, trk, indep, heq⟩ | ⟨heq, hexc⟩
        · exfalso
          rw [heq] at herr
          simp only at herr
          split at herr
          · cases herr
          · unfold fmp4Rotate at herr
            simp only [rotateDecide_ok] at herr
            cases herr
        · rw [heq]
          simp only
          refine ⟨hAs.trans (hBs.trans (SameSizes.of_streams hCstr)), ?_⟩
          rw [hCof] at hexc
          rw [hCstream]
          cases hgo : (stB.stream (stA.streamOf ti)).nextSegment with
          | none => rw [hgo] at hBopen; cases hBopen
          | some g =>
            refine ⟨g, old0, rfl, rfl, ?_⟩
            have hsi : st.streamOf ti < stC.streams.length := by
              rw [← hCstream] at hgo; exact lt_of_open hgo
            have hsync := hCinv.sync _ hsi
            unfold PartSync at hsync
            rw [hCcfg, hBcfg, hAcfg, if_neg hv, hCstream, hgo] at hsync
            cases hpo : (stB.stream (stA.streamOf ti)).nextPart with
            | none => rw [hpo] at hsync; cases hsync
            | some p =>
              rw [hCstream] at hexc
              have := hexc g p hgo hpo
              rw [hCcfg, hBcfg, hAcfg] at this
              exact this

end Hls.Muxer
