import Hls.Muxer.PathsPrim
/-!
  `rotateSegmentsStream` preserves the C05 invariant.

  `rotateSegmentsStream = rscore ∘ rotatePartsStream(·, false)` (by `rfl`); `rscore` is rewritten into a
  normal form built from verbatim copies of its three tuple-valued sub-expressions
  (`delHead`, `initStep`, `tdStep`).
-/
namespace Hls.Muxer.Paths
open Hls.Muxer

/-- `rotateSegmentsStream` after its leading `rotateParts(nextDTS, false)` (verbatim copy of the model text). -/
def rscore (st : State) (si : Nat) (nextDTS nextNTP : Int) (force : Bool) : State :=
  let s := st.stream si
  match s.nextSegment with
  | none => st
  | some seg =>
    let nextSegmentID := s.nextSegmentID + 1
    let seg := { seg with endDTS := nextDTS }
    let segments :=
      if st.cfg.variant = .ll ∧ s.segments.isEmpty then gaps seg.duration else s.segments
    let segments := segments ++ [.seg seg]
    let h : Handler := if st.cfg.variant = .mpegts then .segTS seg.tsUnits else .segFMP4 seg.stored
    let paths := regPath st.paths (.seg si seg.id) h
    let (segments, paths, files, deleteCount) :=
      if segments.length > st.cfg.segmentCount then
        match segments with
        | .seg old :: rest =>
          let paths := old.parts.foldl (fun ps p => unregPath ps (.part si p.id)) paths
          let paths := unregPath paths (.seg si old.id)
          (rest, paths, st.files.filter (· ≠ .seg si old.id), s.deleteCount + 1)
        | .gap _ :: rest => (rest, paths, st.files, s.deleteCount + 1)
        | [] => (segments, paths, st.files, s.deleteCount)
      else (segments, paths, st.files, s.deleteCount)
    let (paths, initPresent) :=
      if st.cfg.variant ≠ .mpegts ∧ (!s.initPresent || seg.forced) then
        (regPath paths (.init si) (.init (s.tracks.map fun t => (st.track t).params)), true)
      else (paths, s.initPresent)
    let newSeg : Seg := { id := nextSegmentID, startDTS := nextDTS, startNTP := nextNTP,
                          forced := if st.cfg.variant = .mpegts then false else force }
    let nextPart : Option Part :=
      if st.cfg.variant = .mpegts then none else some { id := s.nextPartID, startDTS := nextDTS }
    let s := { s with nextSegmentID := nextSegmentID, segments := segments, deleteCount := deleteCount,
                      initPresent := initPresent, nextSegment := some newSeg, nextPart := nextPart }
    let (s, enc) :=
      if s.isLeading then
        let td := targetDuration s.segments
        if s.targetDur = 0 then ({ s with targetDur := td }, 0)
        else if td > s.targetDur then ({ s with targetDur := td }, 1)
        else (s, 0)
      else (s, 0)
    { (st.setStream si s) with paths := paths, files := files ++ [.seg si newSeg.id], encErrs := st.encErrs + enc }

theorem rss_eq (st : State) (si : Nat) (d n : Int) (f : Bool) :
    rotateSegmentsStream st si d n f
      = rscore (if st.cfg.variant ≠ .mpegts then rotatePartsStream st si d false else st) si d n f := rfl

/-- window after appending the finished segment (incl. the 7 initial gaps) -/
def rscSegs (v : Variant) (s : StreamSt) (seg1 : Seg) : List Entry :=
  (if v = .ll ∧ s.segments.isEmpty then gaps seg1.duration else s.segments) ++ [.seg seg1]

/-- the delete-one-from-head rule (verbatim) -/
def delHead (si : Nat) (cnt : Nat) (segments : List Entry) (paths : PL) (files : List PathKey) (dc : Nat) :
    List Entry × PL × List PathKey × Nat :=
  if segments.length > cnt then
    match segments with
    | .seg old :: rest =>
      let paths := old.parts.foldl (fun ps p => unregPath ps (.part si p.id)) paths
      let paths := unregPath paths (.seg si old.id)
      (rest, paths, files.filter (· ≠ .seg si old.id), dc + 1)
    | .gap _ :: rest => (rest, paths, files, dc + 1)
    | [] => (segments, paths, files, dc)
  else (segments, paths, files, dc)

/-- init regeneration (verbatim) -/
def initStep (v : Variant) (si : Nat) (s : StreamSt) (seg : Seg) (paths : PL) (ps : List Nat) : PL × Bool :=
  if v ≠ .mpegts ∧ (!s.initPresent || seg.forced) then (regPath paths (.init si) (.init ps), true)
  else (paths, s.initPresent)

/-- target-duration update of the leading stream (verbatim) -/
def tdStep (s : StreamSt) : StreamSt × Nat :=
  if s.isLeading then
    let td := targetDuration s.segments
    if s.targetDur = 0 then ({ s with targetDur := td }, 0)
    else if td > s.targetDur then ({ s with targetDur := td }, 1)
    else (s, 0)
  else (s, 0)

/-- the stream record written by `rscore`, before the target-duration update -/
def rscStream (v : Variant) (s : StreamSt) (segs : List Entry) (dc : Nat) (ini : Bool) (d n : Int) (f : Bool) : StreamSt :=
  let newSeg : Seg := { id := s.nextSegmentID + 1, startDTS := d, startNTP := n,
                        forced := if v = .mpegts then false else f }
  let nextPart : Option Part := if v = .mpegts then none else some { id := s.nextPartID, startDTS := d }
  { s with nextSegmentID := s.nextSegmentID + 1, segments := segs, deleteCount := dc,
           initPresent := ini, nextSegment := some newSeg, nextPart := nextPart }

def rscoreNF (st : State) (si : Nat) (d n : Int) (f : Bool) (seg : Seg) : State :=
  let s := st.stream si
  let v := st.cfg.variant
  let seg1 : Seg := { seg with endDTS := d }
  let r := delHead si st.cfg.segmentCount (rscSegs v s seg1) (regPath st.paths (.seg si seg.id) (segHandler v seg1))
    st.files s.deleteCount
  let i := initStep v si s seg1 r.snd.fst (s.tracks.map fun t => (st.track t).params)
  let t := tdStep (rscStream v s r.fst r.snd.snd.snd i.snd d n f)
  { (st.setStream si t.1) with paths := i.1, files := r.snd.snd.fst ++ [.seg si (s.nextSegmentID + 1)],
                               encErrs := st.encErrs + t.2 }

theorem rscore_nf (st : State) (si : Nat) (d n : Int) (f : Bool) (seg : Seg)
    (hs : (st.stream si).nextSegment = some seg) : rscore st si d n f = rscoreNF st si d n f seg := by
  unfold rscore
  simp only [hs]
  rfl

theorem rscore_none (st : State) (si : Nat) (d n : Int) (f : Bool)
    (hs : (st.stream si).nextSegment = none) : rscore st si d n f = st := by
  unfold rscore
  simp only [hs]

theorem tdStep_localEq (s : StreamSt) : LocalEq s (tdStep s).1 := by
  unfold tdStep
  split
  · simp only
    split
    · exact ⟨rfl, rfl, rfl, rfl, rfl, rfl, rfl⟩
    · split
      · exact ⟨rfl, rfl, rfl, rfl, rfl, rfl, rfl⟩
      · exact LocalEq.refl s
  · exact LocalEq.refl s

/-! ### the deleted head -/

/-- the part keys / segment key unregistered for a deleted head entry -/
def delParts : Option Entry → List Part
  | some (.seg old) => old.parts
  | _ => []

def delStored : Option Entry → List Part
  | some (.seg old) => old.stored
  | _ => []

def delSegId : Option Entry → Option Nat
  | some (.seg old) => some old.id
  | _ => none

def pathsAfterDel (si : Nat) (P : PL) : Option Entry → PL
  | some (.seg old) => unregPath (old.parts.foldl (fun ps p => unregPath ps (.part si p.id)) P) (.seg si old.id)
  | _ => P

theorem delHead_spec (si cnt : Nat) (A : List Entry) (P : PL) (F : List PathKey) (dc : Nat) (hA : A ≠ []) :
    ∃ (e : Option Entry) (B : List Entry) (F' : List PathKey),
      A = e.toList ++ B ∧ (e.isSome = true ↔ A.length > cnt) ∧
      delHead si cnt A P F dc = (B, pathsAfterDel si P e, F', dc + e.toList.length) := by
  unfold delHead
  by_cases hlen : A.length > cnt
  · simp only [hlen, if_true]
    match A, hA with
    | .seg old :: rest, _ => exact ⟨some (.seg old), rest, _, rfl, by simp, rfl⟩
    | .gap g :: rest, _ => exact ⟨some (.gap g), rest, _, rfl, by simp, rfl⟩
  · simp only [hlen, if_false]
    exact ⟨none, A, _, rfl, by simp, rfl⟩

theorem lookup_pathsAfterDel (si : Nat) (P : PL) (e : Option Entry) (k : PathKey) :
    lookupPath (pathsAfterDel si P e) k =
      if k ∈ (delParts e).map (fun p => PathKey.part si p.id) then none
      else if (∃ id, delSegId e = some id ∧ k = .seg si id) then none
      else lookupPath P k := by
  match e with
  | none => simp [pathsAfterDel, delParts, delSegId]
  | some (.gap _) => simp [pathsAfterDel, delParts, delSegId]
  | some (.seg old) =>
    simp only [pathsAfterDel, delParts, delSegId, lookup_unreg, lookup_unreg_list, Option.some.injEq,
      exists_eq_left']
    by_cases h1 : k = .seg si old.id
    · subst h1; simp
    · simp [h1]

theorem nodup_pathsAfterDel (si : Nat) (P : PL) (e : Option Entry) (h : (keys P).Nodup) :
    (keys (pathsAfterDel si P e)).Nodup := by
  match e with
  | none => exact h
  | some (.gap _) => exact h
  | some (.seg old) => exact nodup_unreg _ _ (nodup_unreg_list _ _ _ h)

/-! ### the appended window -/

def realOf (l : List Entry) : List Seg := l.filterMap fun e => match e with | .seg g => some g | .gap _ => none

theorem realSegs_eq (s : StreamSt) : realSegs s = realOf s.segments := rfl

theorem realOf_append (a b : List Entry) : realOf (a ++ b) = realOf a ++ realOf b := by
  unfold realOf; rw [List.filterMap_append]

theorem realOf_gaps (d : Int) : realOf (gaps d) = [] := by
  unfold realOf gaps
  simp

theorem mem_realOf (l : List Entry) (g : Seg) : g ∈ realOf l ↔ Entry.seg g ∈ l := by
  unfold realOf
  simp only [List.mem_filterMap]
  constructor
  · rintro ⟨e, he, h⟩
    cases e with
    | gap d => simp at h
    | seg g' => simp only [Option.some.injEq] at h; subst h; exact he
  · intro h; exact ⟨.seg g, h, rfl⟩

theorem seg_mem_gaps (g : Seg) (d : Int) : Entry.seg g ∉ gaps d := by
  unfold gaps; simp [List.mem_replicate]

theorem gaps_length (d : Int) : (gaps d).length = 7 := by simp [gaps, llGapCount]

theorem rscSegs_nonempty (v : Variant) (s : StreamSt) (g : Seg) (h : s.segments ≠ []) :
    rscSegs v s g = s.segments ++ [.seg g] := by
  unfold rscSegs
  have : s.segments.isEmpty = false := by cases hs : s.segments <;> simp_all
  simp [this]

theorem rscSegs_empty (v : Variant) (s : StreamSt) (g : Seg) (h : s.segments = []) :
    rscSegs v s g = (if v = .ll then gaps g.duration else []) ++ [.seg g] := by
  unfold rscSegs
  simp [h]

theorem rscSegs_ne_nil (v : Variant) (s : StreamSt) (g : Seg) : rscSegs v s g ≠ [] := by
  unfold rscSegs; simp

theorem rscSegs_mem (v : Variant) (s : StreamSt) (g1 g : Seg) :
    Entry.seg g ∈ rscSegs v s g1 ↔ Entry.seg g ∈ s.segments ∨ g = g1 := by
  by_cases hE : s.segments = []
  · rw [rscSegs_empty v s g1 hE, hE]
    by_cases hv : v = .ll <;> simp [hv, seg_mem_gaps]
  · rw [rscSegs_nonempty v s g1 hE]; simp

theorem rscSegs_real (v : Variant) (s : StreamSt) (g1 : Seg) :
    realOf (rscSegs v s g1) = realSegs s ++ [g1] := by
  rw [realSegs_eq]
  by_cases hE : s.segments = []
  · rw [rscSegs_empty v s g1 hE, hE, realOf_append]
    by_cases hv : v = .ll
    · simp only [hv, if_true, realOf_gaps]; simp [realOf]
    · simp [hv, realOf]
  · rw [rscSegs_nonempty v s g1 hE, realOf_append]; simp [realOf]

theorem rscSegs_len {v : Variant} {m : Bool} {s : StreamSt} (hI : SInv v m s) (g1 : Seg) :
    s.deleteCount + (rscSegs v s g1).length = s.nextSegmentID + 1 := by
  by_cases hE : s.segments = []
  · obtain ⟨h1, h2⟩ := hI.seg_empty hE
    rw [rscSegs_empty v s g1 hE, h1, h2]
    by_cases hv : v = .ll <;> simp [hv, startSegID, gaps_length]
  · have := hI.seg_len hE
    rw [rscSegs_nonempty v s g1 hE]; simp; omega

theorem rscSegs_idx {v : Variant} {m : Bool} {s : StreamSt} (hI : SInv v m s) (g1 : Seg)
    (hid : g1.id = s.nextSegmentID) :
    ∀ i g, (rscSegs v s g1)[i]? = some (.seg g) → g.id = s.deleteCount + i := by
  intro i g hg
  by_cases hE : s.segments = []
  · obtain ⟨h1, h2⟩ := hI.seg_empty hE
    rw [rscSegs_empty v s g1 hE] at hg
    by_cases hv : v = .ll
    · simp only [hv, if_true] at hg
      rw [List.getElem?_append] at hg
      split at hg
      · rename_i hlt
        rw [List.getElem?_eq_getElem hlt] at hg
        have : (gaps g1.duration)[i] ∈ gaps g1.duration := List.getElem_mem hlt
        simp only [Option.some.injEq] at hg
        rw [hg] at this
        exact absurd this (seg_mem_gaps g _)
      · rename_i hge
        rw [gaps_length] at hge hg
        have : i = 7 := by
          cases h : i - 7 with
          | zero => omega
          | succ k => rw [h] at hg; simp at hg
        subst this
        simp at hg; subst hg
        rw [hid, h1, h2]; simp [startSegID, hv]
    · simp only [hv, if_false, List.nil_append] at hg
      cases i with
      | zero => simp at hg; subst hg; rw [hid, h1, h2]; simp [startSegID, hv]
      | succ k => simp at hg
  · have hl := hI.seg_len hE
    rw [rscSegs_nonempty v s g1 hE, List.getElem?_append] at hg
    split at hg
    · exact hI.seg_idx i g hg
    · rename_i hge
      have : i = s.segments.length := by
        cases h : i - s.segments.length with
        | zero => omega
        | succ k => rw [h] at hg; simp at hg
      subst this
      simp at hg; subst hg
      rw [hid]; omega

/-! ### after the deletion -/

theorem range'_split {l1 l2 : List Nat} {lo m : Nat} (h : l1 ++ l2 = List.range' lo m) :
    l1.length ≤ m ∧ l2 = List.range' (lo + l1.length) (m - l1.length) := by
  have hlen : l1.length + l2.length = m := by
    have := congrArg List.length h
    simpa using this
  have hk : l1.length ≤ m := by omega
  refine ⟨hk, ?_⟩
  have hsplit : List.range' lo m = List.range' lo l1.length ++ List.range' (lo + l1.length) (m - l1.length) := by
    rw [List.range'_append_1]; congr 1; omega
  rw [hsplit] at h
  exact (List.append_inj h (by simp)).2

theorem realOf_toList_append (e : Option Entry) (B : List Entry) :
    realOf (e.toList ++ B) = (match e with | some (.seg old) => [old] | _ => []) ++ realOf B := by
  match e with
  | none => simp [realOf]
  | some (.gap _) => simp [realOf]
  | some (.seg old) => simp [realOf]

theorem del_stored (e : Option Entry) (B : List Entry) :
    (realOf (e.toList ++ B)).flatMap (·.stored) = delStored e ++ (realOf B).flatMap (·.stored) := by
  rw [realOf_toList_append]
  match e with
  | none => simp [delStored]
  | some (.gap _) => simp [delStored]
  | some (.seg old) => simp [delStored]

theorem del_parts (e : Option Entry) (B : List Entry) :
    (realOf (e.toList ++ B)).flatMap (·.parts) = delParts e ++ (realOf B).flatMap (·.parts) := by
  rw [realOf_toList_append]
  match e with
  | none => simp [delParts]
  | some (.gap _) => simp [delParts]
  | some (.seg old) => simp [delParts]

theorem del_idx {A B : List Entry} {e : Option Entry} {dc : Nat} (hAB : A = e.toList ++ B)
    (hidx : ∀ i g, A[i]? = some (.seg g) → g.id = dc + i) :
    ∀ i g, B[i]? = some (.seg g) → g.id = dc + e.toList.length + i := by
  intro i g hg
  have := hidx (e.toList.length + i) g (by rw [hAB, List.getElem?_append_right (by omega)]; simpa using hg)
  omega

theorem del_mem {A B : List Entry} {e : Option Entry} {dc : Nat} (hAB : A = e.toList ++ B)
    (hidx : ∀ i g, A[i]? = some (.seg g) → g.id = dc + i) (g : Seg) :
    Entry.seg g ∈ B ↔ Entry.seg g ∈ A ∧ delSegId e ≠ some g.id := by
  match e, hAB with
  | none, hAB => simp at hAB; subst hAB; simp [delSegId]
  | some (.gap d), hAB =>
    simp at hAB; subst hAB; simp [delSegId]
  | some (.seg old), hAB =>
    simp only [Option.toList_some, List.singleton_append] at hAB
    subst hAB
    simp only [delSegId, List.mem_cons, Entry.seg.injEq, ne_eq, Option.some.injEq]
    have hold : old.id = dc + 0 := hidx 0 old (by simp)
    constructor
    · intro hg
      refine ⟨Or.inr hg, ?_⟩
      obtain ⟨i, hi, hget⟩ := List.mem_iff_getElem.1 hg
      have := hidx (i + 1) g (by simp [List.getElem?_eq_getElem hi, hget])
      omega
    · rintro ⟨h1 | h1, h2⟩
      · subst h1; exact absurd rfl h2
      · exact h1

theorem del_last {A B X : List Entry} {e : Option Entry} {x : Entry} (hAB : A = e.toList ++ B) (hA : A = X ++ [x])
    (hB : B ≠ []) : x ∈ B := by
  have h1 : A.getLast? = some x := by rw [hA]; simp
  have h2 : A.getLast? = B.getLast? := by
    rw [hAB, List.getLast?_append]
    cases hb : B.getLast? with
    | none => simp [List.getLast?_eq_none_iff] at hb; exact absurd hb hB
    | some y => simp
  rw [h2] at h1
  exact List.mem_of_getLast? h1

/-! ### `SInv` after `rscore` -/

theorem winStored_open {s : StreamSt} {seg : Seg} (hs : s.nextSegment = some seg) (seg1 : Seg)
    (h1 : seg1.stored = seg.stored) (v : Variant) :
    winStored s = (realOf (rscSegs v s seg1)).flatMap (·.stored) := by
  unfold winStored openStored
  rw [hs, rscSegs_real]
  simp [h1]

theorem winParts_open {s : StreamSt} {seg : Seg} (hs : s.nextSegment = some seg) (seg1 : Seg)
    (h1 : seg1.parts = seg.parts) (v : Variant) :
    winParts s = (realOf (rscSegs v s seg1)).flatMap (·.parts) := by
  unfold winParts openParts
  rw [hs, rscSegs_real]
  simp [h1]

theorem rsc_winStored (v : Variant) (s : StreamSt) (B : List Entry) (dc : Nat) (ini : Bool) (d n : Int) (f : Bool) :
    winStored (rscStream v s B dc ini d n f) = (realOf B).flatMap (·.stored) := by
  unfold winStored openStored rscStream
  simp [realSegs_eq]

theorem rsc_winParts (v : Variant) (s : StreamSt) (B : List Entry) (dc : Nat) (ini : Bool) (d n : Int) (f : Bool) :
    winParts (rscStream v s B dc ini d n f) = (realOf B).flatMap (·.parts) := by
  unfold winParts openParts rscStream
  simp [realSegs_eq]

theorem rsc_sinv {v : Variant} {m : Bool} {s : StreamSt} {seg : Seg} (d n : Int) (f ini : Bool) (cnt : Nat)
    (hI : SInv v m s) (hs : s.nextSegment = some seg) (hm : m = decide (v ≠ .mpegts))
    (e : Option Entry) (B : List Entry)
    (hAB : rscSegs v s { seg with endDTS := d } = e.toList ++ B)
    (hdel : e.isSome = true → (rscSegs v s { seg with endDTS := d }).length > cnt) (hcnt : 1 ≤ cnt)
    (hini : v ≠ .mpegts → ini = true) :
    SInv v false (rscStream v s B (s.deleteCount + e.toList.length) ini d n f) := by
  have hsid := hI.open_seg_id seg hs
  have hidA := rscSegs_idx hI { seg with endDTS := d } hsid
  have hlenA := rscSegs_len hI { seg with endDTS := d }
  have hlenAB : (rscSegs v s { seg with endDTS := d }).length = e.toList.length + B.length := by
    rw [hAB]; simp
  have hBne : B ≠ [] := by
    intro hB
    cases he : e with
    | none =>
      rw [he, hB] at hAB
      exact rscSegs_ne_nil v s _ (by simpa using hAB)
    | some x =>
      have := hdel (by rw [he]; rfl)
      rw [hlenAB, hB, he] at this
      simp at this; omega
  have hlast : Entry.seg { seg with endDTS := d } ∈ B := del_last hAB (by unfold rscSegs; rfl) hBne
  have hwS : winStored s = delStored e ++ winStored (rscStream v s B (s.deleteCount + e.toList.length) ini d n f) := by
    rw [winStored_open hs { seg with endDTS := d } rfl v, hAB, del_stored, rsc_winStored]
  have hmemB : ∀ g, Entry.seg g ∈ B → Entry.seg g ∈ s.segments ∨ g = { seg with endDTS := d } := by
    intro g hg
    have := ((del_mem hAB hidA g).1 hg).1
    exact (rscSegs_mem v s _ g).1 this
  have hnpid : (rscStream v s B (s.deleteCount + e.toList.length) ini d n f).nextPartID = s.nextPartID := rfl
  have hsegs : (rscStream v s B (s.deleteCount + e.toList.length) ini d n f).segments = B := rfl
  constructor
  · intro g hg; simp only [rscStream, Option.some.injEq] at hg; subst hg; rfl
  · intro p hp
    simp only [rscStream] at hp
    split at hp
    · cases hp
    · simp only [Option.some.injEq] at hp; subst hp; rfl
  · intro hv; simp [rscStream, hv]
  · intro hv; exact hI.ts_npid hv
  · intro _ hv _; simp [rscStream, hv]
  · intro h; cases h
  · intro i g hg; exact del_idx hAB hidA i g hg
  · intro _
    show s.deleteCount + e.toList.length + B.length = s.nextSegmentID + 1
    omega
  · intro h; exact absurd h hBne
  · obtain ⟨lo, hids, hlo, hpos⟩ := hI.part_ids
    rw [hwS, List.map_append] at hids
    obtain ⟨hk, hids'⟩ := range'_split hids
    refine ⟨lo + ((delStored e).map (·.id)).length, ?_, by omega, ?_⟩
    · rw [hnpid, hids']; congr 1; omega
    · intro h0
      rw [hnpid] at h0 ⊢
      have hv : v ≠ .mpegts := by intro hv; have := hI.ts_npid hv; omega
      have hm' : m = true := by rw [hm]; simp [hv]
      obtain ⟨_, _, g, hg, hne⟩ := hI.midp hm'
      rw [hs] at hg; cases hg
      have hmem : ∃ p, p ∈ winStored (rscStream v s B (s.deleteCount + e.toList.length) ini d n f) := by
        rw [rsc_winStored]
        cases hst : seg.stored with
        | nil => exact absurd hst hne
        | cons p ps =>
          refine ⟨p, ?_⟩
          simp only [List.mem_flatMap]
          exact ⟨{ seg with endDTS := d }, (mem_realOf B _).2 hlast, by simp [hst]⟩
      obtain ⟨p, hp⟩ := hmem
      have : p.id ∈ List.range' (lo + ((delStored e).map (·.id)).length)
          (s.nextPartID - lo - ((delStored e).map (·.id)).length) := by
        rw [← hids']; exact List.mem_map.2 ⟨p, hp, rfl⟩
      rw [List.mem_range'_1] at this
      omega
  · intro g hg
    rcases hmemB g hg with h | h
    · exact hI.parts_win g h
    · subst h; exact hI.parts_open seg hs
  · intro g hg; simp only [rscStream, Option.some.injEq] at hg; subst hg; simp
  · intro hv g hg
    rcases hmemB g hg with h | h
    · exact hI.stored_one hv g h
    · subst h
      have := hI.stored_open hv seg hs
      have hm' : m = true := by rw [hm, hv]; decide
      rw [hm'] at this; simpa using this
  · intro hv g hg; simp only [rscStream, Option.some.injEq] at hg; subst hg; simp
  · intro hv _; exact hini hv
  · intro hv _
    rw [hnpid]
    have hm' : m = true := by rw [hm]; simp [hv]
    obtain ⟨_, _, g, hg, hne⟩ := hI.midp hm'
    rw [hs] at hg; cases hg
    obtain ⟨lo, hids, hlo, _⟩ := hI.part_ids
    cases hst : seg.stored with
    | nil => exact absurd hst hne
    | cons p ps =>
      have hp : p ∈ winStored s := by
        unfold winStored openStored; rw [hs]; simp [hst]
      have : p.id ∈ (winStored s).map (·.id) := List.mem_map.2 ⟨p, hp, rfl⟩
      rw [hids, List.mem_range'_1] at this
      omega

/-! ### the paths after `rscore` -/

theorem initStep_lookup (v : Variant) (si : Nat) (s : StreamSt) (g : Seg) (P : PL) (ps : List Nat) (k : PathKey) :
    lookupPath (initStep v si s g P ps).1 k =
      if (v ≠ .mpegts ∧ (!s.initPresent || g.forced) = true) ∧ k = .init si then some (.init ps)
      else lookupPath P k := by
  unfold initStep
  by_cases hc : v ≠ .mpegts ∧ (!s.initPresent || g.forced) = true
  · rw [if_pos hc]
    simp only [lookup_reg]
    by_cases hk : k = .init si
    · rw [if_pos hk, if_pos ⟨hc, hk⟩]
    · rw [if_neg hk, if_neg (fun h => hk h.2)]
  · rw [if_neg hc, if_neg (fun h => hc h.1)]

theorem initStep_snd (v : Variant) (si : Nat) (s : StreamSt) (g : Seg) (P : PL) (ps : List Nat) :
    (initStep v si s g P ps).2 = if v ≠ .mpegts ∧ (!s.initPresent || g.forced) = true then true else s.initPresent := by
  unfold initStep; split <;> rfl

theorem initStep_nodup (v : Variant) (si : Nat) (s : StreamSt) (g : Seg) (P : PL) (ps : List Nat)
    (h : (keys P).Nodup) : (keys (initStep v si s g P ps).1).Nodup := by
  unfold initStep; split
  · exact nodup_reg _ _ _ h
  · exact h

theorem rscoreNF_eq (st : State) (si : Nat) (d n : Int) (f : Bool) (seg : Seg)
    (B : List Entry) (P2 : PL) (F' : List PathKey) (dc' : Nat)
    (hr : delHead si st.cfg.segmentCount (rscSegs st.cfg.variant (st.stream si) { seg with endDTS := d })
      (regPath st.paths (.seg si seg.id) (segHandler st.cfg.variant { seg with endDTS := d }))
      st.files (st.stream si).deleteCount = (B, P2, F', dc')) :
    let i := initStep st.cfg.variant si (st.stream si) { seg with endDTS := d } P2
        ((st.stream si).tracks.map fun t => (st.track t).params)
    let t := tdStep (rscStream st.cfg.variant (st.stream si) B dc' i.2 d n f)
    (rscoreNF st si d n f seg).cfg = st.cfg ∧
    (rscoreNF st si d n f seg).paths = i.1 ∧
    (rscoreNF st si d n f seg).streams = st.streams.set si t.1 := by
  simp only [rscoreNF, hr]
  refine ⟨?_, ?_, ?_⟩ <;> first | rfl | trivial

theorem rsc_inv {st : State} {mid : Option Nat} (si : Nat) (d n : Int) (f : Bool) (hI : InvAt mid st)
    (hsi : si < st.streams.length)
    (hmid : decide (mid = some si) = decide (st.cfg.variant ≠ .mpegts))
    (hmid' : ∀ sj, sj ≠ si → decide (mid = some sj) = false)
    (seg : Seg) (hs : (st.stream si).nextSegment = some seg) :
    InvAt none (rscore st si d n f) := by
  rw [rscore_nf st si d n f seg hs]
  have hSI : SInv st.cfg.variant (decide (st.cfg.variant ≠ .mpegts)) (st.stream si) := by
    rw [← hmid]; exact hI.sinv si hsi
  obtain ⟨e, B, F', hAB, hdel, hr⟩ := delHead_spec si st.cfg.segmentCount
    (rscSegs st.cfg.variant (st.stream si) { seg with endDTS := d })
    (regPath st.paths (.seg si seg.id) (segHandler st.cfg.variant { seg with endDTS := d }))
    st.files (st.stream si).deleteCount (rscSegs_ne_nil _ _ _)
  obtain ⟨hcfg, hpaths, hstreams⟩ := rscoreNF_eq st si d n f seg B _ F' _ hr
  generalize hps : ((st.stream si).tracks.map fun t => (st.track t).params) = ps at hpaths hstreams
  generalize hst' : rscoreNF st si d n f seg = st' at hcfg hpaths hstreams
  -- abbreviations
  generalize hS : rscStream st.cfg.variant (st.stream si) B ((st.stream si).deleteCount + e.toList.length)
      (initStep st.cfg.variant si (st.stream si) { seg with endDTS := d }
        (pathsAfterDel si (regPath st.paths (.seg si seg.id) (segHandler st.cfg.variant { seg with endDTS := d })) e) ps).2
      d n f = S at hstreams
  have hini : st.cfg.variant ≠ .mpegts → (initStep st.cfg.variant si (st.stream si) { seg with endDTS := d }
        (pathsAfterDel si (regPath st.paths (.seg si seg.id) (segHandler st.cfg.variant { seg with endDTS := d })) e) ps).2 = true := by
    intro hv
    rw [initStep_snd]
    by_cases hp : (st.stream si).initPresent = true <;> simp [hv, hp]
  have hS' : SInv st.cfg.variant false S := by
    rw [← hS]
    exact rsc_sinv d n f _ st.cfg.segmentCount hSI hs rfl e B hAB (fun h => hdel.1 h) hI.wf_count hini
  have hle := tdStep_localEq S
  have hstr : ∀ sj, st'.stream sj = (st.setStream si (tdStep S).1).stream sj := by
    intro sj; simp only [State.stream, hstreams, State.setStream]
  have hsame : st'.stream si = (tdStep S).1 := by rw [hstr, stream_setStream_same st si _ hsi]
  have hsid := hSI.open_seg_id seg hs
  have hidA := rscSegs_idx hSI { seg with endDTS := d } hsid
  have hSsegs : S.segments = B := by rw [← hS]; rfl
  have hSnpid : S.nextPartID = (st.stream si).nextPartID := by rw [← hS]; rfl
  have hSinit : S.initPresent = (initStep st.cfg.variant si (st.stream si) { seg with endDTS := d }
        (pathsAfterDel si (regPath st.paths (.seg si seg.id) (segHandler st.cfg.variant { seg with endDTS := d })) e) ps).2 := by
    rw [← hS]; rfl
  have hSwp : winParts (st.stream si) = delParts e ++ winParts S := by
    rw [winParts_open hs { seg with endDTS := d } rfl st.cfg.variant, hAB, del_parts, ← hS, rsc_winParts]
  -- lookups in the final paths
  have hlook : ∀ k, lookupPath st'.paths k =
      if (st.cfg.variant ≠ .mpegts ∧ (!(st.stream si).initPresent || seg.forced) = true) ∧ k = .init si
        then some (.init ps)
      else if k ∈ (delParts e).map (fun p => PathKey.part si p.id) then none
      else if (∃ id, delSegId e = some id ∧ k = .seg si id) then none
      else if k = .seg si seg.id then some (segHandler st.cfg.variant { seg with endDTS := d })
      else lookupPath st.paths k := by
    intro k
    rw [hpaths, initStep_lookup, lookup_pathsAfterDel, lookup_reg]
  refine hI.update si hcfg (by rw [hstreams]; simp) (fun sj e => by rw [hstr, stream_setStream_other st si sj _ e])
    (fun sj e => by rw [hmid' sj e]; simp) ?_ ?_ ?_ ?_ ?_ ?_ ?_
  · intro _; rw [hsame]; simpa using hS'.congr hle
  · rw [hpaths]
    exact initStep_nodup _ _ _ _ _ _ (nodup_pathsAfterDel _ _ _ (nodup_reg _ _ _ hI.nodup))
  · intro k h1 h2 h3
    rw [hlook]
    have a1 : ¬ k ∈ (delParts e).map (fun p => PathKey.part si p.id) := by
      intro hm; obtain ⟨p, _, hp⟩ := List.mem_map.1 hm; exact h2 p.id hp.symm
    have a2 : ¬ (∃ id, delSegId e = some id ∧ k = .seg si id) := by
      rintro ⟨id, _, hk⟩; exact h1 id hk
    simp [h3, a1, a2, h1 seg.id]
  · intro h hh
    rw [hlook] at hh
    rw [hsame, hle.init, hSinit, initStep_snd]
    by_cases hc : st.cfg.variant ≠ .mpegts ∧ (!(st.stream si).initPresent || seg.forced) = true
    · rw [if_pos ⟨hc, rfl⟩] at hh; rw [if_pos hc]; cases hh; exact ⟨rfl, ps, rfl⟩
    · rw [if_neg (fun x => hc x.1)] at hh; rw [if_neg hc]
      have : lookupPath st.paths (.init si) = some h := by simpa using hh
      exact hI.p_init_some si h this
  · rw [hsame, hle.init, hSinit, initStep_snd, hlook]
    by_cases hc : st.cfg.variant ≠ .mpegts ∧ (!(st.stream si).initPresent || seg.forced) = true
    · rw [if_pos hc, if_pos ⟨hc, rfl⟩]; intro _; exact ⟨ps, rfl⟩
    · rw [if_neg hc, if_neg (fun x => hc x.1)]
      intro hp
      obtain ⟨ps', hps'⟩ := hI.p_init_pres si hp
      exact ⟨ps', by simpa using hps'⟩
  · -- segment keys
    intro id h
    rw [hsame, RegSeg.congr hle, hlook]
    unfold RegSeg
    rw [hSsegs]
    simp only [reduceCtorEq, and_false, if_false, List.mem_map, exists_false, PathKey.seg.injEq, true_and,
      exists_eq_right']
    have hPA : ((if id = seg.id then some (segHandler st.cfg.variant { seg with endDTS := d })
          else lookupPath st.paths (.seg si id)) = some h) ↔
        ∃ g, Entry.seg g ∈ rscSegs st.cfg.variant (st.stream si) { seg with endDTS := d } ∧ g.id = id ∧
          h = segHandler st.cfg.variant g := by
      by_cases hid : id = seg.id
      · subst hid
        simp only [if_true, Option.some.injEq]
        constructor
        · intro e; subst e
          exact ⟨{ seg with endDTS := d }, (rscSegs_mem _ _ _ _).2 (Or.inr rfl), rfl, rfl⟩
        · rintro ⟨g, hg, hgid, rfl⟩
          rcases (rscSegs_mem _ _ _ _).1 hg with h1 | h1
          · have := (hSI.seg_id_lt g h1).2
            omega
          · subst h1; rfl
      · simp only [hid, if_false]
        rw [hI.p_seg si id h]
        unfold RegSeg
        constructor
        · rintro ⟨g, hg, hgid, rfl⟩
          exact ⟨g, (rscSegs_mem _ _ _ _).2 (Or.inl hg), hgid, rfl⟩
        · rintro ⟨g, hg, hgid, rfl⟩
          rcases (rscSegs_mem _ _ _ _).1 hg with h1 | h1
          · exact ⟨g, h1, hgid, rfl⟩
          · subst h1; exact absurd hgid.symm hid
    by_cases hd : delSegId e = some id
    · simp only [hd, if_true, reduceCtorEq, false_iff, not_exists, not_and]
      intro g hg hgid
      have := ((del_mem hAB hidA g).1 hg).2
      rw [hgid] at this; exact absurd hd this
    · simp only [hd, if_false]
      rw [hPA]
      constructor
      · rintro ⟨g, hg, hgid, rfl⟩
        exact ⟨g, (del_mem hAB hidA g).2 ⟨hg, by rw [hgid]; exact hd⟩, hgid, rfl⟩
      · rintro ⟨g, hg, hgid, rfl⟩
        exact ⟨g, ((del_mem hAB hidA g).1 hg).1, hgid, rfl⟩
  · -- part keys
    intro id h
    rw [hsame, RegPart.congr hle, hlook]
    have hold := hI.p_part si id h
    unfold RegPart at hold ⊢
    rw [hSnpid]
    rw [hSwp] at hold
    simp only [reduceCtorEq, and_false, if_false, List.mem_map, PathKey.part.injEq, true_and, exists_false]
    by_cases hll : st.cfg.variant = .ll
    case neg =>
      simp only [hll, false_and, iff_false] at hold ⊢
      split
      · simp
      · exact hold
    simp only [hll, true_and] at hold ⊢
    have hSI' := hSI
    rw [hll] at hSI'
    have hnd : ((delParts e ++ winParts S).map (·.id)).Nodup := by
      rw [← hSwp, hSI'.winParts_eq]; simpa using hSI'.stored_nodup
    rw [List.map_append, List.nodup_append] at hnd
    have hlt : ∀ q, q ∈ delParts e → q.id < (st.stream si).nextPartID := by
      intro q hq; exact hSI'.part_id_lt q (by rw [hSwp]; simp [hq])
    by_cases hdel : ∃ a, a ∈ delParts e ∧ a.id = id
    · obtain ⟨q, hq, hqid⟩ := hdel
      have : (∃ a, a ∈ delParts e ∧ a.id = id) := ⟨q, hq, hqid⟩
      simp only [this, if_true, reduceCtorEq, false_iff, not_or, not_exists, not_and]
      constructor
      · intro p hp hpid
        exact absurd (hpid.trans hqid.symm) (fun e => hnd.2.2 q.id (List.mem_map.2 ⟨q, hq, rfl⟩) p.id
          (List.mem_map.2 ⟨p, hp, rfl⟩) e.symm)
      · intro e0; have := hlt q hq; omega
    · simp only [hdel, if_false]
      rw [hold]
      constructor
      · rintro (⟨p, hp, hpid, rfl⟩ | hh)
        · simp only [List.mem_append] at hp
          rcases hp with hp | hp
          · exact absurd ⟨p, hp, hpid⟩ hdel
          · left; exact ⟨p, hp, hpid, rfl⟩
        · right; exact hh
      · rintro (⟨p, hp, hpid, rfl⟩ | hh)
        · left; exact ⟨p, by simp [hp], hpid, rfl⟩
        · right; exact hh

/-! ### `rotateSegmentsStream` -/

theorem rps_cfg (st : State) (si : Nat) (d : Int) (b : Bool) : (rotatePartsStream st si d b).cfg = st.cfg := by
  cases hp : (st.stream si).nextPart with
  | none => rw [rps_noop st si d b (Or.inl hp)]
  | some part =>
    cases hs : (st.stream si).nextSegment with
    | none => rw [rps_noop st si d b (Or.inr hs)]
    | some seg =>
      obtain ⟨_, _, _, h, _, _⟩ := rps_eq st si d b part seg hp hs
      exact h

theorem rps_length (st : State) (si : Nat) (d : Int) (b : Bool) :
    (rotatePartsStream st si d b).streams.length = st.streams.length := by
  cases hp : (st.stream si).nextPart with
  | none => rw [rps_noop st si d b (Or.inl hp)]
  | some part =>
    cases hs : (st.stream si).nextSegment with
    | none => rw [rps_noop st si d b (Or.inr hs)]
    | some seg =>
      obtain ⟨_, _, _, _, _, h⟩ := rps_eq st si d b part seg hp hs
      rw [h]; simp

theorem rss_inv {st : State} (si : Nat) (d n : Int) (f : Bool) (hI : InvAt none st) :
    InvAt none (rotateSegmentsStream st si d n f) := by
  rw [rss_eq]
  by_cases hsi : si < st.streams.length
  case neg =>
    have hso := stream_oob st si (Nat.le_of_not_lt hsi)
    have h1 : rotatePartsStream st si d false = st := rps_noop st si d false (Or.inl (by rw [hso]))
    rw [h1, ite_self, rscore_none st si d n f (by rw [hso])]
    exact hI
  have hSI : SInv st.cfg.variant false (st.stream si) := by simpa using hI.sinv si hsi
  by_cases hv : st.cfg.variant ≠ .mpegts
  · rw [if_pos hv]
    cases hs : (st.stream si).nextSegment with
    | none =>
      rw [rps_noop st si d false (Or.inr hs), rscore_none st si d n f hs]; exact hI
    | some seg =>
      have hpS : (st.stream si).nextPart.isSome = true := hSI.top rfl hv (by rw [hs]; rfl)
      have hI1 := rps_inv si d false hI (by intro h; cases h)
      simp only [Bool.false_eq_true, if_false, hpS, hs, Option.isSome_some, hsi, and_self, if_true] at hI1
      have hlen1 := rps_length st si d false
      have hcfg1 := rps_cfg st si d false
      have hsi1 : si < (rotatePartsStream st si d false).streams.length := by rw [hlen1]; exact hsi
      have hS1 := hI1.sinv si hsi1
      simp only [decide_true] at hS1
      obtain ⟨_, _, g, hg, _⟩ := hS1.midp rfl
      refine rsc_inv si d n f hI1 hsi1 ?_ ?_ g hg
      · rw [hcfg1]; simp [hv]
      · intro sj e
        have : ¬ si = sj := fun x => e x.symm
        simp [this]
  · rw [if_neg hv]
    cases hs : (st.stream si).nextSegment with
    | none => rw [rscore_none st si d n f hs]; exact hI
    | some seg =>
      refine rsc_inv si d n f hI hsi ?_ ?_ seg hs
      · simp [hv]
      · intro sj _; simp

end Hls.Muxer.Paths
