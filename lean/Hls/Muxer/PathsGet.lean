import Hls.Muxer.PathsMain
/-!
  Consequences of the C05 invariant for `get` and for the keys listed by `mediaPlaylist`.
-/
namespace Hls.Muxer.Paths
open Hls.Muxer

/-! ### `get` -/

theorem get_of_lookup_none {st : State} {k : PathKey} (h : lookupPath st.paths k = none) : get st k = .none := by
  unfold get; rw [h]

theorem get_of_lookup_part {st : State} {k : PathKey} {p : Part} (h : lookupPath st.paths k = some (.part p)) :
    get st k = .part p := by
  unfold get; rw [h]

theorem get_of_lookup_seg {st : State} {k : PathKey} {v : Variant} {g : Seg}
    (h : lookupPath st.paths k = some (segHandler v g)) : get st k = segBody v g := by
  unfold get segBody segHandler at *
  by_cases hv : v = .mpegts
  · simp only [hv, if_true] at h ⊢; rw [h]
  · simp only [hv, if_false] at h ⊢; rw [h]

theorem InvAt.stream_oob_segments {st : State} (si : Nat) (h : st.streams.length ≤ si) :
    (st.stream si).segments = [] ∧ (st.stream si).nextSegment = none ∧ winParts (st.stream si) = [] := by
  rw [stream_oob st si h]; exact ⟨rfl, rfl, rfl⟩

theorem InvAt.lt_of_seg {st : State} {si : Nat} {g : Seg} (hg : Entry.seg g ∈ (st.stream si).segments) :
    si < st.streams.length := by
  by_cases h : si < st.streams.length
  · exact h
  · rw [(InvAt.stream_oob_segments si (Nat.le_of_not_lt h)).1] at hg; simp at hg

theorem InvAt.lt_of_part {st : State} {si : Nat} {p : Part} (hp : p ∈ winParts (st.stream si)) :
    si < st.streams.length := by
  by_cases h : si < st.streams.length
  · exact h
  · rw [(InvAt.stream_oob_segments si (Nat.le_of_not_lt h)).2.2] at hp; simp at hp

theorem InvAt.sinv' {st : State} (hI : InvAt none st) {si : Nat} (h : si < st.streams.length) :
    SInv st.cfg.variant false (st.stream si) := by simpa using hI.sinv si h

theorem get_seg {st : State} (hI : InvAt none st) {si : Nat} {g : Seg}
    (hg : Entry.seg g ∈ (st.stream si).segments) : get st (.seg si g.id) = segBody st.cfg.variant g :=
  get_of_lookup_seg ((hI.p_seg si g.id _).2 ⟨g, hg, rfl, rfl⟩)

theorem ll_of_part {st : State} (hI : InvAt none st) {si : Nat} {p : Part} (hp : p ∈ winParts (st.stream si)) :
    st.cfg.variant = .ll := by
  have hS := hI.sinv' (InvAt.lt_of_part hp)
  rw [hS.winParts_eq] at hp
  by_cases hv : st.cfg.variant = .ll
  · exact hv
  · simp [hv] at hp

theorem get_part {st : State} (hI : InvAt none st) {si : Nat} {p : Part} (hp : p ∈ winParts (st.stream si)) :
    get st (.part si p.id) = .part p :=
  get_of_lookup_part ((hI.p_part si p.id _).2 ⟨ll_of_part hI hp, Or.inl ⟨p, hp, rfl, rfl⟩⟩)

theorem get_hint {st : State} (hI : InvAt none st) (si : Nat) (hll : st.cfg.variant = .ll)
    (hpos : 0 < (st.stream si).nextPartID) : get st (.part si (st.stream si).nextPartID) = .hintWait := by
  have := (hI.p_part si (st.stream si).nextPartID (.hint si (st.stream si).nextPartID)).2
    ⟨hll, Or.inr ⟨rfl, hpos, rfl⟩⟩
  unfold get; rw [this]; simp

theorem get_init {st : State} (hI : InvAt none st) (si : Nat) (hp : (st.stream si).initPresent = true) :
    ∃ ps, get st (.init si) = .init ps := by
  obtain ⟨ps, h⟩ := hI.p_init_pres si hp
  exact ⟨ps, by unfold get; rw [h]⟩

/-- a segment key answers iff a real window entry has that id -/
theorem get_seg_none {st : State} (hI : InvAt none st) (si id : Nat)
    (h : ∀ g, Entry.seg g ∈ (st.stream si).segments → g.id ≠ id) : get st (.seg si id) = .none := by
  apply get_of_lookup_none
  cases hl : lookupPath st.paths (.seg si id) with
  | none => rfl
  | some hd =>
    obtain ⟨g, hg, hid, _⟩ := (hI.p_seg si id hd).1 hl
    exact absurd hid (h g hg)

theorem get_part_none {st : State} (hI : InvAt none st) (si id : Nat)
    (h : ∀ p, p ∈ winParts (st.stream si) → p.id ≠ id) (hh : id ≠ (st.stream si).nextPartID) :
    get st (.part si id) = .none := by
  apply get_of_lookup_none
  cases hl : lookupPath st.paths (.part si id) with
  | none => rfl
  | some hd =>
    obtain ⟨_, ⟨p, hp, hid, _⟩ | ⟨e, _⟩⟩ := (hI.p_part si id hd).1 hl
    · exact absurd hid (h p hp)
    · exact absurd e hh

/-- what `get` can answer for a segment key -/
theorem get_seg_cases {st : State} (hI : InvAt none st) (si id : Nat) :
    get st (.seg si id) = .none ∨
    ∃ g, Entry.seg g ∈ (st.stream si).segments ∧ g.id = id ∧ get st (.seg si id) = segBody st.cfg.variant g := by
  cases hl : lookupPath st.paths (.seg si id) with
  | none => left; exact get_of_lookup_none hl
  | some hd =>
    obtain ⟨g, hg, hid, rfl⟩ := (hI.p_seg si id hd).1 hl
    right; exact ⟨g, hg, hid, get_of_lookup_seg hl⟩

theorem get_part_cases {st : State} (hI : InvAt none st) (si id : Nat) :
    get st (.part si id) = .none ∨
    (∃ p, p ∈ winParts (st.stream si) ∧ p.id = id ∧ get st (.part si id) = .part p) ∨
    (id = (st.stream si).nextPartID ∧ 0 < id ∧ get st (.part si id) = .hintWait) := by
  cases hl : lookupPath st.paths (.part si id) with
  | none => left; exact get_of_lookup_none hl
  | some hd =>
    obtain ⟨hll, ⟨p, hp, hid, rfl⟩ | ⟨e, hpos, rfl⟩⟩ := (hI.p_part si id hd).1 hl
    · right; left; exact ⟨p, hp, hid, get_of_lookup_part hl⟩
    · right; right
      subst e
      exact ⟨rfl, hpos, get_hint hI si hll hpos⟩

/-! ### immutability -/

theorem get_mono {st st' : State} (hI : InvAt none st) (hm : Mono st st') (k : PathKey)
    (hk : isMediaKey k = true) (hc : isContent (get st k) = true) :
    get st' k = get st k ∨ get st' k = .none := by
  match k, hk with
  | .seg si id, _ =>
    rcases get_seg_cases hI si id with h | ⟨g, hg, hid, hget⟩
    · rw [h] at hc; cases hc
    · have hlt := ((hI.sinv' (InvAt.lt_of_seg hg)).seg_id_lt g hg).2
      rw [hid] at hlt
      rcases hm.seg si id hlt with e | e
      · left
        have hl : lookupPath st.paths (.seg si id) = some (segHandler st.cfg.variant g) :=
          (hI.p_seg si id _).2 ⟨g, hg, hid, rfl⟩
        rw [hl] at e
        rw [get_of_lookup_seg e, get_of_lookup_seg hl]
      · right; exact get_of_lookup_none e
  | .part si id, _ =>
    rcases get_part_cases hI si id with h | ⟨p, hp, hid, hget⟩ | ⟨_, _, h⟩
    · rw [h] at hc; cases hc
    · have hlt := (hI.sinv' (InvAt.lt_of_part hp)).part_id_lt p hp
      rw [hid] at hlt
      rcases hm.part si id hlt with e | e
      · left
        have hl : lookupPath st.paths (.part si id) = some (.part p) :=
          (hI.p_part si id _).2 ⟨ll_of_part hI hp, Or.inl ⟨p, hp, hid, rfl⟩⟩
        rw [hl] at e
        rw [get_of_lookup_part e, get_of_lookup_part hl]
      · right; exact get_of_lookup_none e
    · rw [h] at hc; cases hc

/-- once a key below the current identifiers answers nothing, it answers nothing forever -/
theorem get_gone {st st' : State} (hm : Mono st st') (k : PathKey) :
    (∀ si id, k = .seg si id → id < (st.stream si).nextSegmentID) →
    (∀ si id, k = .part si id → id < (st.stream si).nextPartID) →
    isMediaKey k = true → lookupPath st.paths k = none → get st' k = .none := by
  intro h1 h2 hk hl
  match k, hk with
  | .seg si id, _ =>
    rcases hm.seg si id (h1 si id rfl) with e | e
    · rw [hl] at e; exact get_of_lookup_none e
    · exact get_of_lookup_none e
  | .part si id, _ =>
    rcases hm.part si id (h2 si id rfl) with e | e
    · rw [hl] at e; exact get_of_lookup_none e
    · exact get_of_lookup_none e

/-! ### what `mediaPlaylist` lists -/

theorem pl_map {st : State} {si : Nat} {delta : Bool} {k : PathKey}
    (h : (mediaPlaylist st si delta).map = some k) : k = .init si ∧ st.cfg.variant ≠ .mpegts := by
  unfold mediaPlaylist at h
  cases hv : st.cfg.variant <;> simp only [hv] at h
  · cases h
  all_goals
    cases delta <;> simp at h
    exact ⟨h.symm, by simp⟩

theorem pl_segment {st : State} {si : Nat} {delta : Bool} {pg : PlSeg} {k : PathKey}
    (hpg : pg ∈ (mediaPlaylist st si delta).segments) (hk : pg.key = some k) :
    ∃ g, Entry.seg g ∈ (st.stream si).segments ∧ k = .seg si g.id ∧ pg.dur = g.duration ∧ pg.gap = false ∧
      (pg.parts = [] ∨ (st.cfg.variant = .ll ∧ pg.parts = g.parts.map (plPart si))) := by
  unfold mediaPlaylist at hpg
  cases hv : st.cfg.variant <;> simp only [hv] at hpg
  · obtain ⟨e, he, hf⟩ := List.mem_filterMap.1 hpg
    cases e with
    | gap d => simp at hf
    | seg g =>
      simp only [Option.some.injEq] at hf; subst hf
      simp only [Option.some.injEq] at hk
      exact ⟨g, he, hk.symm, rfl, rfl, Or.inl rfl⟩
  all_goals
    generalize (if delta = true then (st.stream si).segments.length -
      shownCount (st.stream si).segments 0 ((st.stream si).targetDur * 6 * S) else 0) = sk at hpg
    obtain ⟨⟨e, i⟩, he, hf⟩ := List.mem_filterMap.1 hpg
    have hmem : e ∈ (st.stream si).segments := List.fst_mem_of_mem_zipIdx he
    simp only at hf
    by_cases hlt : i < sk
    · rw [if_pos hlt] at hf; cases hf
    · rw [if_neg hlt] at hf
      cases e with
      | gap d => simp only [Option.some.injEq] at hf; subst hf; cases hk
      | seg g =>
        simp only [Option.some.injEq] at hf; subst hf
        simp only [Option.some.injEq] at hk
        refine ⟨g, hmem, hk.symm, rfl, rfl, ?_⟩
        simp only
        split
        · rename_i h; right; exact ⟨h.1, by first | rfl | trivial⟩
        · left; rfl

theorem pl_parts {st : State} {si : Nat} {delta : Bool} {pp : PlPart}
    (h : pp ∈ (mediaPlaylist st si delta).parts) :
    st.cfg.variant = .ll ∧ ∃ p, p ∈ openParts (st.stream si) ∧ pp = plPart si p := by
  unfold mediaPlaylist at h
  cases hv : st.cfg.variant <;> simp only [hv] at h
  · simp at h
  · simp at h
  · refine ⟨rfl, ?_⟩
    unfold openParts
    simp only [if_true] at h
    split at h
    · rename_i g hg
      obtain ⟨p, hp, rfl⟩ := List.mem_map.1 h
      exact ⟨p, by rw [hg]; exact hp, rfl⟩
    · simp at h

theorem pl_hint (st : State) (si : Nat) (delta : Bool) :
    (mediaPlaylist st si delta).hint = if st.cfg.variant = .ll then some (.part si (st.stream si).nextPartID) else none := by
  unfold mediaPlaylist
  cases hv : st.cfg.variant <;> simp

theorem mem_winParts_of_seg {s : StreamSt} {g : Seg} {p : Part} (hg : Entry.seg g ∈ s.segments) (hp : p ∈ g.parts) :
    p ∈ winParts s := by
  unfold winParts
  exact List.mem_append_left _ (List.mem_flatMap.2 ⟨g, (mem_realSegs s g).2 hg, hp⟩)

theorem mem_winParts_of_open {s : StreamSt} {p : Part} (hp : p ∈ openParts s) : p ∈ winParts s := by
  unfold winParts; exact List.mem_append_right _ hp

/-- every listed segment / part key is a key of a window object and `get` returns that object -/
theorem listed_get {st : State} (hI : InvAt none st) {si : Nat} {delta : Bool} {k : PathKey}
    (hk : k ∈ listedMedia (mediaPlaylist st si delta)) :
    (∃ g, Entry.seg g ∈ (st.stream si).segments ∧ k = .seg si g.id ∧ get st k = segBody st.cfg.variant g) ∨
    (∃ p, p ∈ winParts (st.stream si) ∧ k = .part si p.id ∧ get st k = .part p) := by
  unfold listedMedia at hk
  rcases List.mem_append.1 hk with hk | hk
  · obtain ⟨pg, hpg, hk⟩ := List.mem_flatMap.1 hk
    rcases List.mem_append.1 hk with hk | hk
    · cases hkey : pg.key with
      | none => rw [hkey] at hk; simp at hk
      | some k' =>
        rw [hkey] at hk; simp only [List.mem_singleton] at hk; subst hk
        obtain ⟨g, hg, rfl, _⟩ := pl_segment hpg hkey
        left; exact ⟨g, hg, rfl, get_seg hI hg⟩
    · obtain ⟨pp, hpp, rfl⟩ := List.mem_map.1 hk
      have hsome : ∃ k', pg.key = some k' := by
        cases hkey : pg.key with
        | some k' => exact ⟨k', rfl⟩
        | none =>
          exfalso
          unfold mediaPlaylist at hpg
          cases hv : st.cfg.variant <;> simp only [hv] at hpg
          · obtain ⟨e, _, hf⟩ := List.mem_filterMap.1 hpg
            cases e <;> simp at hf
            subst hf; simp at hpp
          all_goals
            generalize (if delta = true then (st.stream si).segments.length -
              shownCount (st.stream si).segments 0 ((st.stream si).targetDur * 6 * S) else 0) = sk at hpg
            obtain ⟨⟨e, i⟩, _, hf⟩ := List.mem_filterMap.1 hpg
            simp only at hf
            by_cases hlt : i < sk
            · rw [if_pos hlt] at hf; cases hf
            · rw [if_neg hlt] at hf
              cases e <;> simp only [Option.some.injEq] at hf <;> subst hf
              · simp at hpp
              · simp at hkey
      obtain ⟨k', hkey⟩ := hsome
      obtain ⟨g, hg, _, _, _, hparts⟩ := pl_segment hpg hkey
      rcases hparts with h0 | ⟨_, h1⟩
      · rw [h0] at hpp; simp at hpp
      · rw [h1] at hpp
        obtain ⟨p, hp, rfl⟩ := List.mem_map.1 hpp
        have := mem_winParts_of_seg hg hp
        right; exact ⟨p, this, rfl, get_part hI this⟩
  · obtain ⟨pp, hpp, rfl⟩ := List.mem_map.1 hk
    obtain ⟨_, p, hp, rfl⟩ := pl_parts hpp
    have := mem_winParts_of_open hp
    right; exact ⟨p, this, rfl, get_part hI this⟩

/-! ### sequence numbers, segment = concatenation of parts, preload hint -/

theorem range'_prefix {l1 l2 : List Nat} {lo m : Nat} (h : l1 ++ l2 = List.range' lo m) :
    l1 = List.range' lo l1.length := by
  have hlen : l1.length + l2.length = m := by
    have := congrArg List.length h
    simpa using this
  have hsplit : List.range' lo m = List.range' lo l1.length ++ List.range' (lo + l1.length) (m - l1.length) := by
    rw [List.range'_append_1]; congr 1; omega
  rw [hsplit] at h
  exact (List.append_inj h (by simp)).1

/-- the ids of a published segment's storage parts are consecutive -/
theorem stored_consecutive {v : Variant} {mid : Bool} {s : StreamSt} (hI : SInv v mid s) {g : Seg}
    (hg : Entry.seg g ∈ s.segments) : ∃ a, g.stored.map (·.id) = List.range' a g.stored.length := by
  obtain ⟨lo, hids, _, _⟩ := hI.part_ids
  obtain ⟨A, B, hAB⟩ := List.append_of_mem ((mem_realSegs s g).2 hg)
  unfold winStored at hids
  rw [hAB] at hids
  simp only [List.flatMap_append, List.flatMap_cons, List.map_append, List.append_assoc] at hids
  obtain ⟨_, h2⟩ := range'_split hids
  have h3 := range'_prefix h2
  exact ⟨_, by simpa using h3⟩

theorem hint_complete {st : State} (hI : InvAt none st) (si : Nat) (hll : st.cfg.variant = .ll)
    (hpos : 0 < (st.stream si).nextPartID) :
    ∃ p, p ∈ winParts (st.stream si) ∧ p.id = (st.stream si).nextPartID - 1 ∧
      get st (.part si ((st.stream si).nextPartID - 1)) = .part p := by
  have hsi : si < st.streams.length := by
    by_cases h : si < st.streams.length
    · exact h
    · rw [stream_oob st si (Nat.le_of_not_lt h)] at hpos; simp at hpos
  have hS := hI.sinv' hsi
  obtain ⟨lo, hids, hlo, hlt⟩ := hS.part_ids
  have hmem : (st.stream si).nextPartID - 1 ∈ (winStored (st.stream si)).map (·.id) := by
    rw [hids, List.mem_range'_1]; have := hlt hpos; omega
  obtain ⟨p, hp, hpid⟩ := List.mem_map.1 hmem
  have hp' : p ∈ winParts (st.stream si) := by rw [hS.winParts_eq, if_pos hll]; exact hp
  refine ⟨p, hp', hpid, ?_⟩
  rw [← hpid]; exact get_part hI hp'

/-! ### reachable states -/

theorem run_append (st : State) (a b : List WriteOp) : run st (a ++ b) = run (run st a) b := by
  induction a generalizing st with
  | nil => rfl
  | cons x a ih => exact ih _

theorem Reachable.inv {cfg : Cfg} {st : State} (h : Reachable cfg st) : Inv st := by
  obtain ⟨st0, ops, h0, rfl⟩ := h
  exact inv_run ops (inv_start h0)

theorem Reachable.run {cfg : Cfg} {st : State} (h : Reachable cfg st) (ops : List WriteOp) :
    Reachable cfg (run st ops) := by
  obtain ⟨st0, ops0, h0, rfl⟩ := h
  exact ⟨st0, ops0 ++ ops, h0, (run_append st0 ops0 ops).symm⟩

theorem Reachable.cfg_eq {cfg : Cfg} {st : State} (h : Reachable cfg st) : st.cfg = cfg.withDefaults := by
  obtain ⟨st0, ops, h0, rfl⟩ := h
  have h1 := (start_shape h0).1
  have h2 : ∀ (ops : List WriteOp) (s : State), (Hls.Muxer.run s ops).cfg = s.cfg := by
    intro ops
    induction ops with
    | nil => intro s; rfl
    | cons op ops ih => intro s; exact (ih _).trans (steps_write s op).cfg
  rw [h2, h1]

end Hls.Muxer.Paths
