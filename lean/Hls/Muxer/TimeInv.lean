import Hls.Muxer.TimeStream
import Hls.Muxer.TimeArith
/-!
# Per-stream time invariants (helper file for C02 / C03)

`Tiles s e a l b`: the intervals `[s x, e x]` of the list `l` tile `[a, b]` in order (each starts where its
predecessor ends).  `SInv`: the listed real segments of a stream tile up to the open segment's start, the stored
parts of every segment tile the segment, the open part starts where the open segment's stored parts end.
-/
namespace Hls.Muxer
open Hls.Gen

/-! ## Tiles -/

def Tiles {α} (s e : α → Int) : Int → List α → Int → Prop
  | a, [], b => a = b
  | a, x :: r, b => s x = a ∧ Tiles s e (e x) r b

theorem Tiles_append {α} (s e : α → Int) (l m : List α) : ∀ (a b : Int),
    Tiles s e a (l ++ m) b ↔ ∃ c, Tiles s e a l c ∧ Tiles s e c m b := by
  induction l with
  | nil =>
    intro a b
    simp only [List.nil_append, Tiles]
    constructor
    · intro h; exact ⟨a, rfl, h⟩
    · rintro ⟨c, rfl, h⟩; exact h
  | cons x r ih =>
    intro a b
    simp only [List.cons_append, Tiles, ih]
    constructor
    · rintro ⟨h1, c, h2, h3⟩; exact ⟨c, ⟨h1, h2⟩, h3⟩
    · rintro ⟨c, ⟨h1, h2⟩, h3⟩; exact ⟨h1, c, h2, h3⟩

theorem Tiles_snoc {α} {s e : α → Int} {l : List α} {a c : Int} (h : Tiles s e a l c) (x : α) (hx : s x = c) :
    Tiles s e a (l ++ [x]) (e x) :=
  (Tiles_append s e l [x] a (e x)).2 ⟨c, h, hx, rfl⟩

theorem Tiles_snoc_inv {α} {s e : α → Int} {l : List α} {a b : Int} {x : α} (h : Tiles s e a (l ++ [x]) b) :
    Tiles s e a l (s x) ∧ e x = b := by
  obtain ⟨c, h1, h2, h3⟩ := (Tiles_append s e l [x] a b).1 h
  subst h2; exact ⟨h1, h3⟩

theorem Tiles_tail {α} {s e : α → Int} {x : α} {r : List α} {a b : Int} (h : Tiles s e a (x :: r) b) :
    Tiles s e (e x) r b := h.2

/-- consecutive members abut -/
theorem Tiles_adjacent {α} {s e : α → Int} : ∀ {l : List α} {a b : Int}, Tiles s e a l b →
    ∀ (k : Nat) (x y : α), l[k]? = some x → l[k+1]? = some y → e x = s y := by
  intro l
  induction l with
  | nil => intro a b _ k x y hx; simp at hx
  | cons z r ih =>
    intro a b h k x y hx hy
    cases k with
    | zero =>
      simp only [List.getElem?_cons_zero, Option.some.injEq] at hx
      subst hx
      cases r with
      | nil => simp at hy
      | cons w r' =>
        simp only [List.getElem?_cons_succ, List.getElem?_cons_zero, Option.some.injEq] at hy
        subst hy
        exact h.2.1.symm
    | succ k =>
      simp only [List.getElem?_cons_succ] at hx hy
      exact ih h.2 k x y hx hy

theorem Tiles_head {α} {s e : α → Int} {l : List α} {a b : Int} (h : Tiles s e a l b) (x : α)
    (hx : l.head? = some x) : s x = a := by
  cases l with
  | nil => simp at hx
  | cons z r => simp only [List.head?_cons, Option.some.injEq] at hx; subst hx; exact h.1

theorem Tiles_last {α} {s e : α → Int} : ∀ {l : List α} {a b : Int}, Tiles s e a l b →
    ∀ x, l.getLast? = some x → e x = b := by
  intro l
  induction l with
  | nil => intro a b _ x hx; simp at hx
  | cons z r ih =>
    intro a b h x hx
    cases r with
    | nil =>
      simp only [List.getLast?_singleton, Option.some.injEq] at hx
      subst hx; exact h.2
    | cons w r' =>
      rw [List.getLast?_cons_cons] at hx
      exact ih h.2 x hx

/-- telescoping: the lengths of the tiles add up to the whole -/
theorem Tiles_sum {α} {s e : α → Int} : ∀ {l : List α} {a b : Int}, Tiles s e a l b →
    (l.map (fun x => e x - s x)).sum = b - a := by
  intro l
  induction l with
  | nil => intro a b h; simp only [Tiles] at h; subst h; simp
  | cons z r ih =>
    intro a b h
    simp only [List.map_cons, List.sum_cons, ih h.2]
    have := h.1
    omega

theorem Tiles_empty_eq {α} {s e : α → Int} {a b : Int} (h : Tiles s e a [] b) : a = b := h

/-! ## real (non-gap) entries -/

def reals : List Entry → List Seg
  | [] => []
  | .gap _ :: r => reals r
  | .seg g :: r => g :: reals r

theorem reals_append (l m : List Entry) : reals (l ++ m) = reals l ++ reals m := by
  induction l with
  | nil => rfl
  | cons e r ih => cases e <;> simp [reals, ih]

theorem reals_gaps (d : Int) : reals (gaps d) = [] := by
  unfold gaps llGapCount
  simp [List.replicate, reals]

theorem mem_reals {l : List Entry} {g : Seg} : g ∈ reals l ↔ Entry.seg g ∈ l := by
  induction l with
  | nil => simp [reals]
  | cons e r ih => cases e <;> simp [reals, ih]

theorem reals_drop_one (l : List Entry) :
    reals (l.drop 1) = reals l ∨ ∃ g, reals l = g :: reals (l.drop 1) := by
  cases l with
  | nil => exact Or.inl rfl
  | cons e r =>
    cases e with
    | gap d => exact Or.inl rfl
    | seg g => exact Or.inr ⟨g, rfl⟩

theorem reals_trim (n : Nat) (l : List Entry) :
    reals (trimSegs n l) = reals l ∨ ∃ g, reals l = g :: reals (trimSegs n l) := by
  unfold trimSegs
  split
  · exact reals_drop_one l
  · exact Or.inl rfl

theorem mem_trim {n : Nat} {l : List Entry} {e : Entry} (h : e ∈ trimSegs n l) : e ∈ l := by
  unfold trimSegs at h
  split at h
  · exact List.mem_of_mem_drop h
  · exact h

theorem mem_reals_trim {n : Nat} {l : List Entry} {g : Seg} (h : g ∈ reals (trimSegs n l)) : g ∈ reals l :=
  mem_reals.2 (mem_trim (mem_reals.1 h))

theorem reals_appendSeg (v : Variant) (segs : List Entry) (g : Seg) :
    reals (appendSeg v segs g) = reals segs ++ [g] := by
  unfold appendSeg
  rw [reals_append]
  split
  · rename_i h
    have : segs = [] := by simpa using h.2
    subst this
    simp [reals_gaps, reals]
  · rfl

abbrev SegTiles := Tiles Seg.startDTS Seg.endDTS
abbrev PTiles := Tiles Part.startDTS Part.endDTS

/-- tiles survive dropping the head segment -/
theorem segTiles_trim {n : Nat} {l : List Entry} {a b : Int} (h : SegTiles a (reals l) b) :
    ∃ a', SegTiles a' (reals (trimSegs n l)) b := by
  rcases reals_trim n l with e | ⟨g, e⟩
  · exact ⟨a, e ▸ h⟩
  · rw [e] at h; exact ⟨_, h.2⟩


/-! ## explicit results of the stream-level rotations -/

/-- the open segment after its open part has been closed -/
def segWithPart (v : Variant) (o : Seg) (p' : Part) : Seg :=
  { o with stored := o.stored ++ [p'], parts := if v = .ll then o.parts ++ [p'] else o.parts }

structure RpRes (v : Variant) (s : StreamSt) (o : Seg) (p : Part) (c : List PartTrack) (d : Int) (b : Bool)
    (r : StreamSt) : Prop where
  segments : r.segments = s.segments
  nextSegment : r.nextSegment = some (segWithPart v o (closePart p c d))
  nextPart : r.nextPart = if b then some { id := s.nextPartID + 1, startDTS := d } else none
  nextSegmentID : r.nextSegmentID = s.nextSegmentID
  nextPartID : r.nextPartID = s.nextPartID + 1
  isLeading : r.isLeading = s.isLeading
  tracks : r.tracks = s.tracks
  targetDur : r.targetDur = s.targetDur
  deleteCount : r.deleteCount = s.deleteCount
  initPresent : r.initPresent = s.initPresent
  partTargetDur : r.partTargetDur =
    if s.isLeading then partTargetDuration s.segments (segWithPart v o (closePart p c d)).parts else s.partTargetDur

theorem rpS_some {v : Variant} {s : StreamSt} {o : Seg} {p : Part} (c : List PartTrack) (d : Int) (b : Bool)
    (ho : s.nextSegment = some o) (hp : s.nextPart = some p) : RpRes v s o p c d b (rpS v s c d b) := by
  unfold rpS
  simp only [ho, hp]
  exact ⟨rfl, rfl, rfl, rfl, rfl, rfl, rfl, rfl, rfl, rfl, rfl⟩

structure RsRes (v : Variant) (n : Nat) (s : StreamSt) (o1 : Seg) (npid : Nat) (d ntp : Int) (f : Bool)
    (r : StreamSt) : Prop where
  segments : r.segments = trimSegs n (appendSeg v s.segments (closeSeg o1 d))
  nextSegment : r.nextSegment = some { id := s.nextSegmentID + 1, startDTS := d, startNTP := ntp,
                                       forced := if v = .mpegts then false else f }
  nextPart : r.nextPart = if v = .mpegts then none else some { id := npid, startDTS := d }
  nextSegmentID : r.nextSegmentID = s.nextSegmentID + 1
  nextPartID : r.nextPartID = npid
  isLeading : r.isLeading = s.isLeading
  tracks : r.tracks = s.tracks
  targetDur : r.targetDur = if s.isLeading then newTarget s.targetDur (targetDuration r.segments) else s.targetDur
  deleteCount : r.deleteCount =
    if (appendSeg v s.segments (closeSeg o1 d)).length > n then s.deleteCount + 1 else s.deleteCount
  initPresent : r.initPresent = if v ≠ .mpegts ∧ (!s.initPresent || o1.forced) then true else s.initPresent

theorem rsTailS_some {v : Variant} {n : Nat} {s : StreamSt} {o : Seg} (d ntp : Int) (f : Bool)
    (ho : s.nextSegment = some o) : RsRes v n s o s.nextPartID d ntp f (rsTailS v n s d ntp f) := by
  unfold rsTailS
  simp only [ho]
  exact ⟨rfl, rfl, rfl, rfl, rfl, rfl, rfl, rfl, rfl, rfl⟩

theorem rsS_none {v : Variant} {n : Nat} {s : StreamSt} (c d ntp f) (ho : s.nextSegment = none) :
    rsS v n s c d ntp f = s := by
  unfold rsS
  rw [rpS_none _ _ _ _ _ (Or.inr ho)]
  simp only [ite_self, rsTailS, ho]

theorem rsS_ts {n : Nat} {s : StreamSt} {o : Seg} (c d ntp f) (ho : s.nextSegment = some o) :
    RsRes .mpegts n s o s.nextPartID d ntp f (rsS .mpegts n s c d ntp f) ∧
    (rsS .mpegts n s c d ntp f).partTargetDur = s.partTargetDur := by
  unfold rsS
  simp only [ne_eq, not_true_eq_false, if_false]
  refine ⟨rsTailS_some d ntp f ho, ?_⟩
  unfold rsTailS; simp only [ho]

theorem rsS_fmp4 {v : Variant} {n : Nat} {s : StreamSt} {o : Seg} {p : Part} (c d ntp f) (hv : v ≠ .mpegts)
    (ho : s.nextSegment = some o) (hp : s.nextPart = some p) :
    RsRes v n s (segWithPart v o (closePart p c d)) (s.nextPartID + 1) d ntp f (rsS v n s c d ntp f) ∧
    (rsS v n s c d ntp f).partTargetDur =
      if s.isLeading then partTargetDuration s.segments (segWithPart v o (closePart p c d)).parts else s.partTargetDur := by
  have h1 := rpS_some (v := v) c d false ho hp
  have h2 := rsTailS_some (v := v) (n := n) d ntp f h1.nextSegment
  unfold rsS
  simp only [ne_eq, hv, not_false_eq_true, if_true]
  refine ⟨⟨?_, ?_, ?_, ?_, ?_, ?_, ?_, ?_, ?_, ?_⟩, ?_⟩
  · rw [h2.segments, h1.segments]
  · rw [h2.nextSegment, h1.nextSegmentID]
  · rw [h2.nextPart, h1.nextPartID]
  · rw [h2.nextSegmentID, h1.nextSegmentID]
  · rw [h2.nextPartID, h1.nextPartID]
  · rw [h2.isLeading, h1.isLeading]
  · rw [h2.tracks, h1.tracks]
  · rw [h2.targetDur, h1.isLeading, h1.targetDur]
  · rw [h2.deleteCount, h1.segments, h1.deleteCount]
  · rw [h2.initPresent, h1.initPresent]
  · have : (rsTailS v n (rpS v s c d false) d ntp f).partTargetDur = (rpS v s c d false).partTargetDur := by
      unfold rsTailS; simp only [h1.nextSegment]
    rw [this, h1.partTargetDur]


/-! ## the per-stream invariant -/

structure SInvF (v : Variant) (segments : List Entry) (nextSegment : Option Seg) (nextPart : Option Part) : Prop where
  noSeg : nextSegment = none → segments = []
  partIff : v ≠ .mpegts → (nextSegment.isSome ↔ nextPart.isSome)
  tiles : ∀ o, nextSegment = some o → ∃ a, SegTiles a (reals segments) o.startDTS
  ptiles : v ≠ .mpegts → ∀ g ∈ reals segments, PTiles g.startDTS g.stored g.endDTS
  otiles : v ≠ .mpegts → ∀ o p, nextSegment = some o → nextPart = some p → PTiles o.startDTS o.stored p.startDTS
  partsLL : v = .ll → (∀ g ∈ reals segments, g.parts = g.stored) ∧ ∀ o, nextSegment = some o → o.parts = o.stored
  partsNL : v ≠ .ll → (∀ g ∈ reals segments, g.parts = []) ∧ ∀ o, nextSegment = some o → o.parts = []

def SInv (v : Variant) (s : StreamSt) : Prop := SInvF v s.segments s.nextSegment s.nextPart

theorem SInv_of_eq {v : Variant} {s r : StreamSt} (h : SInv v s) (h1 : r.segments = s.segments)
    (h2 : r.nextSegment = s.nextSegment) (h3 : r.nextPart = s.nextPart) : SInv v r := by
  unfold SInv at *; rw [h1, h2, h3]; exact h

theorem SInv_init (v : Variant) (s : StreamSt) (h1 : s.segments = []) (h2 : s.nextSegment = none)
    (h3 : s.nextPart = none) : SInv v s := by
  unfold SInv; rw [h1, h2, h3]
  refine ⟨fun _ => rfl, fun _ => by simp, ?_, ?_, ?_, ?_, ?_⟩
  · intro o h; cases h
  · intro _ g hg; simp [reals] at hg
  · intro _ o p h; cases h
  · intro _; exact ⟨fun g hg => by simp [reals] at hg, fun o h => by cases h⟩
  · intro _; exact ⟨fun g hg => by simp [reals] at hg, fun o h => by cases h⟩

theorem SInv_cfS {v : Variant} {s : StreamSt} (h : SInv v s) (hn : s.nextSegment = none) (d n : Int) :
    SInv v (cfS v s d n) := by
  have hseg : s.segments = [] := h.noSeg hn
  have e1 : (cfS v s d n).segments = [] := by unfold cfS; cases v <;> exact hseg
  have e2 : (cfS v s d n).nextSegment = some { id := s.nextSegmentID, startDTS := d, startNTP := n } := by
    unfold cfS; cases v <;> rfl
  have e3 : v ≠ .mpegts → (cfS v s d n).nextPart = some { id := s.nextPartID, startDTS := d } := by
    intro hv; unfold cfS; cases v <;> first | rfl | exact absurd rfl hv
  unfold SInv; rw [e1, e2]
  refine ⟨fun h => (by cases h), ?_, ?_, ?_, ?_, ?_, ?_⟩
  · intro hv; rw [e3 hv]; simp
  · intro o ho; cases ho; exact ⟨d, rfl⟩
  · intro _ g hg; simp [reals] at hg
  · intro hv o p ho hp
    cases ho
    rw [e3 hv] at hp; cases hp; exact rfl
  · intro _; exact ⟨fun g hg => by simp [reals] at hg, fun o h => by cases h; rfl⟩
  · intro _; exact ⟨fun g hg => by simp [reals] at hg, fun o h => by cases h; rfl⟩


theorem closed_ptiles {o : Seg} {p : Part} (h : PTiles o.startDTS o.stored p.startDTS) (c : List PartTrack) (d : Int) :
    PTiles o.startDTS (o.stored ++ [closePart p c d]) d :=
  Tiles_snoc (x := closePart p c d) h rfl

/-- the open segment / open part are replaced by ones with the same time fields -/
theorem SInvF_open_congr {v : Variant} {segs : List Entry} {o o' : Seg} {np np' : Option Part}
    (h : SInvF v segs (some o) np) (h1 : o'.startDTS = o.startDTS) (h2 : o'.stored = o.stored)
    (h3 : o'.parts = o.parts) (h4 : np'.map Part.startDTS = np.map Part.startDTS) :
    SInvF v segs (some o') np' := by
  have hsome : np'.isSome = np.isSome := by
    cases np <;> cases np' <;> simp_all
  refine ⟨fun h => (by cases h), ?_, ?_, h.ptiles, ?_, ?_, ?_⟩
  · intro hv; rw [hsome]; exact h.partIff hv
  · intro x hx; cases hx; rw [h1]; exact h.tiles o rfl
  · intro hv x q hx hq
    cases hx
    cases hnp : np with
    | none => rw [hq, hnp] at h4; simp at h4
    | some q0 =>
      rw [hq, hnp] at h4
      simp only [Option.map_some, Option.some.injEq] at h4
      rw [h1, h2, h4]; exact h.otiles hv o q0 rfl hnp
  · intro hv; exact ⟨(h.partsLL hv).1, fun x hx => by cases hx; rw [h3, h2]; exact (h.partsLL hv).2 o rfl⟩
  · intro hv; exact ⟨(h.partsNL hv).1, fun x hx => by cases hx; rw [h3]; exact (h.partsNL hv).2 o rfl⟩

/-- a rotation: the open segment is closed as `g`, appended, the window trimmed, a fresh segment opened -/
theorem SInvF_rotate {v : Variant} {n : Nat} {segs : List Entry} {o g fresh : Seg} {np np' : Option Part} {d : Int}
    (h : SInvF v segs (some o) np)
    (hg1 : g.startDTS = o.startDTS) (hg2 : g.endDTS = d)
    (hg3 : v ≠ .mpegts → PTiles g.startDTS g.stored g.endDTS)
    (hg4 : v = .ll → g.parts = g.stored) (hg5 : v ≠ .ll → g.parts = [])
    (hf1 : fresh.startDTS = d) (hf2 : fresh.stored = []) (hf3 : fresh.parts = [])
    (hnp : v ≠ .mpegts → ∃ q, np' = some q ∧ q.startDTS = d) :
    SInvF v (trimSegs n (appendSeg v segs g)) (some fresh) np' := by
  have hmem : ∀ x ∈ reals (trimSegs n (appendSeg v segs g)), x ∈ reals segs ∨ x = g := by
    intro x hx
    have := mem_reals_trim hx
    rw [reals_appendSeg] at this
    simpa using this
  refine ⟨fun h => (by cases h), ?_, ?_, ?_, ?_, ?_, ?_⟩
  · intro hv; obtain ⟨q, hq, _⟩ := hnp hv; rw [hq]; simp
  · intro x hx; cases hx
    obtain ⟨a, ha⟩ := h.tiles o rfl
    have : SegTiles a (reals (appendSeg v segs g)) d := by
      rw [reals_appendSeg, ← hg2]; exact Tiles_snoc ha g hg1
    rw [hf1]; exact segTiles_trim this
  · intro hv x hx
    rcases hmem x hx with h1 | h1
    · exact h.ptiles hv x h1
    · subst h1; exact hg3 hv
  · intro hv x q hx hq
    cases hx
    obtain ⟨q', hq', hd⟩ := hnp hv
    rw [hq] at hq'; cases hq'
    rw [hf1, hf2, hd]; exact rfl
  · intro hv
    refine ⟨fun x hx => ?_, fun x hx => by cases hx; rw [hf2, hf3]⟩
    rcases hmem x hx with h1 | h1
    · exact (h.partsLL hv).1 x h1
    · subst h1; exact hg4 hv
  · intro hv
    refine ⟨fun x hx => ?_, fun x hx => by cases hx; exact hf3⟩
    rcases hmem x hx with h1 | h1
    · exact (h.partsNL hv).1 x h1
    · subst h1; exact hg5 hv

theorem SInv_rpS {v : Variant} {s : StreamSt} (h : SInv v s) (hv : v ≠ .mpegts) (c : List PartTrack) (d : Int) :
    SInv v (rpS v s c d true) := by
  cases ho : s.nextSegment with
  | none => rw [rpS_none _ _ _ _ _ (Or.inr ho)]; exact h
  | some o =>
    cases hp : s.nextPart with
    | none => rw [rpS_none _ _ _ _ _ (Or.inl hp)]; exact h
    | some p =>
      have r := rpS_some (v := v) c d true ho hp
      unfold SInv at h ⊢
      rw [ho, hp] at h
      rw [r.segments, r.nextSegment, r.nextPart]
      simp only [if_true]
      refine ⟨fun h => (by cases h), fun _ => by simp, ?_, h.ptiles, ?_, ?_, ?_⟩
      · intro x hx; cases hx; exact h.tiles o rfl
      · intro _ x q hx hq; cases hx; cases hq
        exact closed_ptiles (h.otiles hv o p rfl rfl) c d
      · intro hl
        refine ⟨(h.partsLL hl).1, fun x hx => ?_⟩
        cases hx
        simp only [segWithPart, hl, if_true, (h.partsLL hl).2 o rfl]
      · intro hl
        refine ⟨(h.partsNL hl).1, fun x hx => ?_⟩
        cases hx
        simp only [segWithPart, hl, if_false, (h.partsNL hl).2 o rfl]

theorem SInv_rsS {v : Variant} {n : Nat} {s : StreamSt} (h : SInv v s) (c : List PartTrack) (d ntp : Int) (f : Bool) :
    SInv v (rsS v n s c d ntp f) := by
  cases ho : s.nextSegment with
  | none => rw [rsS_none _ _ _ _ ho]; exact h
  | some o =>
    by_cases hv : v = .mpegts
    · subst hv
      have r := (rsS_ts (n := n) c d ntp f ho).1
      unfold SInv at h ⊢
      rw [ho] at h
      rw [r.segments, r.nextSegment, r.nextPart]
      exact SInvF_rotate h rfl rfl (fun hh => absurd rfl hh) (fun hh => by cases hh)
        (fun _ => (h.partsNL (by decide)).2 o rfl) rfl rfl rfl (fun hh => absurd rfl hh)
    · have hps : s.nextPart.isSome := by
        have := (h.partIff hv).1 (by rw [ho]; rfl)
        exact this
      obtain ⟨p, hp⟩ := Option.isSome_iff_exists.1 hps
      have r := (rsS_fmp4 (n := n) c d ntp f hv ho hp).1
      unfold SInv at h ⊢
      rw [ho, hp] at h
      rw [r.segments, r.nextSegment, r.nextPart]
      refine SInvF_rotate h rfl rfl (fun _ => closed_ptiles (h.otiles hv o p rfl rfl) c d) ?_ ?_ rfl rfl rfl ?_
      · intro hl; simp only [closeSeg, segWithPart, hl, if_true, (h.partsLL hl).2 o rfl]
      · intro hl; simp only [closeSeg, segWithPart, hl, if_false, (h.partsNL hl).2 o rfl]
      · intro _; simp only [hv, if_false]; exact ⟨_, rfl, rfl⟩

theorem SInv_pwS {v : Variant} {s : StreamSt} (h : SInv v s) (sz : Nat) (indep : Bool) : SInv v (pwS s sz indep) := by
  unfold pwS
  split
  · rename_i seg part ho hp
    unfold SInv at h ⊢
    rw [ho, hp] at h
    refine SInvF_open_congr h rfl rfl rfl ?_
    split <;> rfl
  · exact h

theorem SInv_twS {v : Variant} {s : StreamSt} (h : SInv v s) (u size e c) : SInv v (twS s u size e c) := by
  unfold twS
  split
  · exact h
  · rename_i seg ho
    unfold SInv at h ⊢
    rw [ho] at h
    refine SInvF_open_congr h ?_ ?_ ?_ rfl
    all_goals (simp only; split <;> split <;> rfl)

end Hls.Muxer
