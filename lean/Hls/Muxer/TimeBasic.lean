import Hls.Muxer.Model
/-!
# Muxer model — frame lemmas and stream-level views of the primitives (helper file for C02 / C03)

`Model.lean` is frozen.  Its primitives (`createFirstSegmentStream`, `rotatePartsStream`,
`rotateSegmentsStream`, `partWriteSample`, `tsWrite`) act on the whole `State`.  Here each of them is
shown to be "replace stream `si` by a pure function of the old stream" (`cfS`, `rpS`, `rsS`, …) plus a
frame (configuration, other streams, control fields untouched).  All invariants of `Time*.lean` are then
proved about the pure stream functions.
-/
namespace Hls.Muxer
open Hls.Gen

/-! ## `getD` / `set` plumbing -/

theorem getD_set {α} (l : List α) (i j : Nat) (a d : α) :
    (l.set i a).getD j d = if i = j ∧ i < l.length then a else l.getD j d := by
  simp only [List.getD_eq_getElem?_getD, List.getElem?_set]
  split
  · rename_i h; subst h
    by_cases h : i < l.length <;> simp [h]
  · rename_i h; simp [h]

theorem set_getD_self {α} (l : List α) (i : Nat) (d : α) : l.set i (l.getD i d) = l := by
  apply List.ext_getElem?
  intro j
  simp only [List.getElem?_set, List.getD_eq_getElem?_getD]
  split
  · rename_i h; subst h
    split
    · rename_i h2; simp [List.getElem?_eq_getElem h2]
    · rename_i h2; simp [List.getElem?_eq_none (Nat.le_of_not_lt h2)]
  · rfl

@[simp] theorem setStream_cfg (st : State) (i s) : (st.setStream i s).cfg = st.cfg := rfl
@[simp] theorem setStream_tracks (st : State) (i s) : (st.setStream i s).tracks = st.tracks := rfl
@[simp] theorem setStream_streams (st : State) (i s) : (st.setStream i s).streams = st.streams.set i s := rfl
@[simp] theorem setStream_track (st : State) (i s j) : (st.setStream i s).track j = st.track j := rfl
@[simp] theorem setStream_pending (st : State) (i s) : (st.setStream i s).pending = st.pending := rfl
@[simp] theorem setStream_paths (st : State) (i s) : (st.setStream i s).paths = st.paths := rfl
@[simp] theorem setTrack_cfg (st : State) (i s) : (st.setTrack i s).cfg = st.cfg := rfl
@[simp] theorem setTrack_streams (st : State) (i s) : (st.setTrack i s).streams = st.streams := rfl
@[simp] theorem setTrack_stream (st : State) (i s j) : (st.setTrack i s).stream j = st.stream j := rfl
@[simp] theorem setTrack_pending (st : State) (i s) : (st.setTrack i s).pending = st.pending := rfl
@[simp] theorem setTrack_paths (st : State) (i s) : (st.setTrack i s).paths = st.paths := rfl
@[simp] theorem setTrack_tracks (st : State) (i s) : (st.setTrack i s).tracks = st.tracks.set i s := rfl

/-- `State.stream` only looks at the `streams` field. -/
theorem stream_eq_of_streams {st st' : State} (h : st'.streams = st.streams) (j : Nat) : st'.stream j = st.stream j := by
  simp only [State.stream, h]

theorem stream_of_set {st st' : State} {si : Nat} {s : StreamSt} (h : st'.streams = st.streams.set si s) (j : Nat) :
    st'.stream j = if si = j ∧ si < st.streams.length then s else st.stream j := by
  simp only [State.stream, h, getD_set]

theorem stream_of_set_same {st st' : State} {si : Nat} {s : StreamSt} (h : st'.streams = st.streams.set si s)
    (hl : si < st.streams.length) : st'.stream si = s := by
  rw [stream_of_set h]; simp [hl]

theorem stream_of_set_other {st st' : State} {si j : Nat} {s : StreamSt} (h : st'.streams = st.streams.set si s)
    (hne : j ≠ si) : st'.stream j = st.stream j := by
  rw [stream_of_set h, if_neg (fun e => hne e.1.symm)]

theorem length_of_set {st st' : State} {si : Nat} {s : StreamSt} (h : st'.streams = st.streams.set si s) :
    st'.streams.length = st.streams.length := by
  rw [h, List.length_set]

theorem streams_set_self (st : State) (si : Nat) : st.streams = st.streams.set si (st.stream si) :=
  (set_getD_self _ _ _).symm

theorem track_setTrack (st : State) (i j : Nat) (t : TrackSt) :
    (st.setTrack i t).track j = if i = j ∧ i < st.tracks.length then t else st.track j := by
  simp only [State.track, State.setTrack, getD_set]

theorem track_default_samples (st : State) (i : Nat) (h : st.tracks.length ≤ i) : (st.track i).samples = [] := by
  simp [State.track, List.getD_eq_getElem?_getD, List.getElem?_eq_none h]

theorem track_default_next (st : State) (i : Nat) (h : st.tracks.length ≤ i) : (st.track i).next = none := by
  simp [State.track, List.getD_eq_getElem?_getD, List.getElem?_eq_none h]

/-- control fields of the segmenter that no stream primitive touches -/
def SameCtl (st st' : State) : Prop :=
  st'.cfg = st.cfg ∧ st'.pending = st.pending ∧ st'.durs = st.durs ∧ st'.adjusted = st.adjusted ∧ st'.freeze = st.freeze

theorem SameCtl.refl (st : State) : SameCtl st st := ⟨rfl, rfl, rfl, rfl, rfl⟩
theorem SameCtl.trans {a b c : State} (h1 : SameCtl a b) (h2 : SameCtl b c) : SameCtl a c := by
  obtain ⟨a1, a2, a3, a4, a5⟩ := h1
  obtain ⟨b1, b2, b3, b4, b5⟩ := h2
  exact ⟨b1.trans a1, b2.trans a2, b3.trans a3, b4.trans a4, b5.trans a5⟩

theorem foldl_range_inv {σ} (f : σ → Nat → σ) (J : Nat → σ → Prop) (st : σ) (n : Nat)
    (h0 : J 0 st) (hstep : ∀ k s, k < n → J k s → J (k+1) (f s k)) : J n ((List.range n).foldl f st) := by
  induction n with
  | zero => simpa using h0
  | succ m ih =>
    rw [List.range_succ, List.foldl_append]
    simp only [List.foldl_cons, List.foldl_nil]
    exact hstep m _ (Nat.lt_succ_self m) (ih (fun k s hk => hstep k s (Nat.lt_succ_of_lt hk)))

/-! ## `finalizePart` -/

/-- the fold inside `finalizePart` -/
def fpFold (l : List (Nat × Nat)) (acc : State × List PartTrack) : State × List PartTrack :=
  l.foldl (fun (acc : State × List PartTrack) (ti : Nat × Nat) =>
      let (st, c) := acc
      let t := st.track ti.1
      match t.samples with
      | [] => (st, c)
      | smp => (st.setTrack ti.1 { t with samples := [] }, c ++ [{ id := 1 + ti.2, baseTime := t.startDTS, samples := smp }])) acc

def clearSamples (t : TrackSt) : TrackSt := { t with samples := [] }

theorem clearSamples_of_nil {t : TrackSt} (h : t.samples = []) : clearSamples t = t := by
  cases t; simp_all [clearSamples]

@[simp] theorem clearSamples_samples (t : TrackSt) : (clearSamples t).samples = [] := rfl
@[simp] theorem clearSamples_next (t : TrackSt) : (clearSamples t).next = t.next := rfl
@[simp] theorem clearSamples_params (t : TrackSt) : (clearSamples t).params = t.params := rfl
@[simp] theorem clearSamples_firstRA (t : TrackSt) : (clearSamples t).firstRA = t.firstRA := rfl
@[simp] theorem clearSamples_startDTS (t : TrackSt) : (clearSamples t).startDTS = t.startDTS := rfl
@[simp] theorem clearSamples_extrSPS (t : TrackSt) : (clearSamples t).extrSPS = t.extrSPS := rfl
@[simp] theorem clearSamples_extrPrev (t : TrackSt) : (clearSamples t).extrPrev = t.extrPrev := rfl

/-- content and state produced by `finalizePart` (they do not depend on the part or the end DTS) -/
def fpState (st : State) (si : Nat) : State := (fpFold (st.stream si).tracks.zipIdx (st, [])).1
def fpContent (st : State) (si : Nat) : List PartTrack := (fpFold (st.stream si).tracks.zipIdx (st, [])).2

theorem finalizePart_eq (st : State) (si : Nat) (p : Part) (e : Int) :
    finalizePart st si p e = (fpState st si, { p with content := fpContent st si, endDTS := e }) := rfl

theorem fpFold_cons_nil (x : Nat × Nat) (xs) (st : State) (c) (h : (st.track x.1).samples = []) :
    fpFold (x :: xs) (st, c) = fpFold xs (st, c) := by
  simp only [fpFold, List.foldl_cons, h]

theorem fpFold_cons_ne (x : Nat × Nat) (xs) (st : State) (c) (h : (st.track x.1).samples ≠ []) :
    fpFold (x :: xs) (st, c) = fpFold xs (st.setTrack x.1 (clearSamples (st.track x.1)),
      c ++ [{ id := 1 + x.2, baseTime := (st.track x.1).startDTS, samples := (st.track x.1).samples }]) := by
  simp only [fpFold, List.foldl_cons]
  rfl

/-- a state that differs from `st` only in `tracks` -/
def OnlyTracks (st st' : State) : Prop :=
  st' = { st with tracks := st'.tracks }

theorem OnlyTracks.refl (st : State) : OnlyTracks st st := rfl
theorem OnlyTracks.trans {a b c : State} (h1 : OnlyTracks a b) (h2 : OnlyTracks b c) : OnlyTracks a c := by
  unfold OnlyTracks at *; rw [h2, h1]
theorem OnlyTracks.setTrack (st : State) (i t) : OnlyTracks st (st.setTrack i t) := rfl

theorem fpFold_onlyTracks (l : List (Nat × Nat)) : ∀ (acc : State × List PartTrack), OnlyTracks acc.1 (fpFold l acc).1 := by
  induction l with
  | nil => intro acc; exact OnlyTracks.refl _
  | cons x xs ih =>
    intro acc
    obtain ⟨st, c⟩ := acc
    by_cases h : (st.track x.1).samples = []
    · rw [fpFold_cons_nil _ _ _ _ h]; exact ih _
    · rw [fpFold_cons_ne _ _ _ _ h]
      exact (OnlyTracks.setTrack st _ _).trans (ih _)

theorem fpState_onlyTracks (st : State) (si : Nat) : OnlyTracks st (fpState st si) := fpFold_onlyTracks _ _

theorem OnlyTracks.cfg {a b : State} (h : OnlyTracks a b) : b.cfg = a.cfg := by rw [h]
theorem OnlyTracks.streams {a b : State} (h : OnlyTracks a b) : b.streams = a.streams := by rw [h]
theorem OnlyTracks.paths {a b : State} (h : OnlyTracks a b) : b.paths = a.paths := by rw [h]
theorem OnlyTracks.files {a b : State} (h : OnlyTracks a b) : b.files = a.files := by rw [h]
theorem OnlyTracks.encErrs {a b : State} (h : OnlyTracks a b) : b.encErrs = a.encErrs := by rw [h]
theorem OnlyTracks.stream {a b : State} (h : OnlyTracks a b) (j : Nat) : b.stream j = a.stream j :=
  stream_eq_of_streams h.streams j
theorem OnlyTracks.sameCtl {a b : State} (h : OnlyTracks a b) : SameCtl a b := by
  unfold SameCtl; rw [h]; exact ⟨rfl, rfl, rfl, rfl, rfl⟩

theorem fpFold_track (l : List (Nat × Nat)) : ∀ (acc : State × List PartTrack) (tj : Nat),
    (fpFold l acc).1.track tj =
      if tj ∈ l.map (·.1) then clearSamples (acc.1.track tj) else acc.1.track tj := by
  induction l with
  | nil => intro acc tj; simp [fpFold]
  | cons x xs ih =>
    intro acc tj
    obtain ⟨st, c⟩ := acc
    have hmem : tj ∈ (x :: xs).map (·.1) ↔ tj = x.1 ∨ tj ∈ xs.map (·.1) := by simp
    by_cases h : (st.track x.1).samples = []
    · rw [fpFold_cons_nil _ _ _ _ h, ih]
      by_cases h1 : tj = x.1
      · subst h1
        rw [if_pos (hmem.2 (Or.inl rfl))]
        split <;> simp [clearSamples_of_nil h]
      · by_cases h2 : tj ∈ xs.map (·.1)
        · rw [if_pos h2, if_pos (hmem.2 (Or.inr h2))]
        · rw [if_neg h2, if_neg (fun hh => (hmem.1 hh).elim h1 h2)]
    · rw [fpFold_cons_ne _ _ _ _ h, ih]
      have hl : x.1 < st.tracks.length := by
        apply Classical.byContradiction; intro hn
        exact h (track_default_samples st _ (by omega))
      by_cases h1 : tj = x.1
      · subst h1
        rw [if_pos (hmem.2 (Or.inl rfl))]
        simp only [track_setTrack, hl, and_self, if_true]
        split <;> rfl
      · have h1' : ¬ (x.1 = tj ∧ x.1 < st.tracks.length) := fun e => h1 e.1.symm
        simp only [track_setTrack, if_neg h1']
        by_cases h2 : tj ∈ xs.map (·.1)
        · rw [if_pos h2, if_pos (hmem.2 (Or.inr h2))]
        · rw [if_neg h2, if_neg (fun hh => (hmem.1 hh).elim h1 h2)]

theorem fpFold_tracks_length (l : List (Nat × Nat)) : ∀ (acc : State × List PartTrack),
    (fpFold l acc).1.tracks.length = acc.1.tracks.length := by
  induction l with
  | nil => intro acc; rfl
  | cons x xs ih =>
    intro acc
    obtain ⟨st, c⟩ := acc
    by_cases h : (st.track x.1).samples = []
    · rw [fpFold_cons_nil _ _ _ _ h]; exact ih _
    · rw [fpFold_cons_ne _ _ _ _ h, ih]; simp [State.setTrack]

theorem fpState_tracks_length (st : State) (si : Nat) : (fpState st si).tracks.length = st.tracks.length :=
  fpFold_tracks_length _ _

/-- `finalizePart` empties the sample lists of the stream's tracks and touches nothing else. -/
theorem fpState_track (st : State) (si tj : Nat) :
    (fpState st si).track tj = if tj ∈ (st.stream si).tracks then clearSamples (st.track tj) else st.track tj := by
  unfold fpState
  rw [fpFold_track]
  have : (List.map (fun x : Nat × Nat => x.1) (st.stream si).tracks.zipIdx) = (st.stream si).tracks := by
    simp [List.zipIdx_eq_zip_range', List.map_fst_zip]
  rw [this]

/-- a one-track stream: the content is that track's pending samples -/
theorem fpContent_single (st : State) (si t : Nat) (h : (st.stream si).tracks = [t]) :
    fpContent st si = match (st.track t).samples with
      | [] => []
      | smp => [{ id := 1, baseTime := (st.track t).startDTS, samples := smp }] := by
  unfold fpContent
  rw [h]
  simp only [List.zipIdx_cons, List.zipIdx_nil, fpFold, List.foldl_cons, List.foldl_nil]
  split <;> simp_all

end Hls.Muxer
