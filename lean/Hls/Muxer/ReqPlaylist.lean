import Hls.Muxer.ReqScan
/-!
# C06 (sequential half) — closed form of the Low-Latency media playlist (full and delta)
Helper lemmas only.
-/
namespace Hls.Muxer

/-- one itemised entry of an LL playlist (`n` = number of listed entries, `i` = position) -/
def plSegLL (si n : Nat) (e : Entry) (i : Nat) : PlSeg :=
  match e with
  | .seg g =>
    { dur := g.duration, gap := false, key := some (.seg si g.id),
      pdt := if n - i ≤ 2 then some g.startNTP else none,
      parts := if n - i ≤ 2 then g.parts.map (plPart si) else [] }
  | .gap d => { dur := d, gap := true, key := none, pdt := none, parts := [] }

theorem zipIdx_idx_ge {α} (l : List α) (off : Nat) : ∀ x ∈ l.zipIdx off, off ≤ x.2 := by
  induction l generalizing off with
  | nil => intro x hx; cases hx
  | cons a r ih =>
    intro x hx
    rw [List.zipIdx_cons] at hx
    rcases List.mem_cons.mp hx with rfl | h
    · exact Nat.le_refl _
    · exact Nat.le_trans (Nat.le_succ _) (ih _ x h)

theorem filterMap_congr' {α β} (f g : α → Option β) (l : List α) (h : ∀ x ∈ l, f x = g x) :
    l.filterMap f = l.filterMap g := by
  induction l with
  | nil => rfl
  | cons a r ih =>
    rw [List.filterMap_cons, List.filterMap_cons, h a List.mem_cons_self,
      ih (fun x hx => h x (List.mem_cons_of_mem _ hx))]

theorem filterMap_skip {α β} (f : α → Nat → β) (l : List α) (off k : Nat) :
    (l.zipIdx off).filterMap (fun x => if x.2 < off + k then none else some (f x.1 x.2)) =
      ((l.zipIdx off).drop k).map (fun x => f x.1 x.2) := by
  induction l generalizing off k with
  | nil => simp
  | cons a r ih =>
    rw [List.zipIdx_cons]
    cases k with
    | zero =>
      simp only [Nat.add_zero, List.drop_zero]
      rw [List.filterMap_cons]
      simp only [Nat.lt_irrefl, if_false, List.map_cons]
      congr 1
      have := ih (off + 1) 0
      simp only [Nat.add_zero, List.drop_zero] at this
      rw [← this]
      apply filterMap_congr'
      intro x hx
      have := zipIdx_idx_ge r (off + 1) x hx
      have h1 : ¬ x.2 < off := by omega
      have h2 : ¬ x.2 < off + 1 := by omega
      simp only [h1, h2, if_false]
    | succ k =>
      rw [List.filterMap_cons]
      have : off < off + (k + 1) := by omega
      simp only [this, if_true, List.drop_succ_cons]
      have := ih (off + 1) k
      rw [show off + 1 + k = off + (k + 1) by omega] at this
      exact this

/-- the number of entries a delta update skips -/
def skipCount (s : StreamSt) : Nat := s.segments.length - shownCount s.segments 0 (s.targetDur * 6 * S)

theorem mediaPlaylist_ll (st : State) (si : Nat) (delta : Bool) (hv : st.cfg.variant = .ll) :
    mediaPlaylist st si delta =
      { version := 10, allowCacheNo := false, targetDur := (st.stream si).targetDur, mediaSeq := (st.stream si).deleteCount,
        serverControl := some (Int.tdiv ((st.stream si).partTargetDur * 25) 10, (st.stream si).targetDur * 6 * S),
        partInf := some (st.stream si).partTargetDur,
        map := if delta then none else some (.init si),
        skipped := if delta then some (skipCount (st.stream si)) else none,
        segments := (((st.stream si).segments.zipIdx).drop (if delta then skipCount (st.stream si) else 0)).map
          (fun x => plSegLL si (st.stream si).segments.length x.1 x.2),
        parts := (match (st.stream si).nextSegment with | some g => g.parts.map (plPart si) | none => []),
        hint := some (.part si (st.stream si).nextPartID) } := by
  unfold mediaPlaylist
  simp only [hv, ↓reduceIte, true_and, skipCount]
  have := filterMap_skip (plSegLL si (st.stream si).segments.length) (st.stream si).segments 0
    (if delta = true then (st.stream si).segments.length - shownCount (st.stream si).segments 0 ((st.stream si).targetDur * 6 * S) else 0)
  simp only [Nat.zero_add] at this
  rw [← this]
  congr 1
  · cases delta <;> rfl
  · apply filterMap_congr'
    intro x _
    obtain ⟨e, i⟩ := x
    cases e <;> simp only [plSegLL] <;> split <;> rfl

theorem shownCount_le (l : List Entry) (cur b : Int) : shownCount l cur b ≤ l.length := by
  induction l generalizing cur with
  | nil => exact Nat.le_refl _
  | cons e r ih =>
    unfold shownCount
    simp only
    split
    · exact Nat.zero_le _
    · have := ih (cur + e.duration)
      simp only [List.length_cons]; omega

theorem skipCount_le (s : StreamSt) : skipCount s ≤ s.segments.length := by
  unfold skipCount; omega

/-- entries of the served playlist, by position -/
theorem ll_segments_get (st : State) (si : Nat) (delta : Bool) (hv : st.cfg.variant = .ll) (j : Nat) :
    (mediaPlaylist st si delta).segments[j]? =
      ((st.stream si).segments[(if delta then skipCount (st.stream si) else 0) + j]?).map
        (fun e => plSegLL si (st.stream si).segments.length e ((if delta then skipCount (st.stream si) else 0) + j)) := by
  rw [mediaPlaylist_ll st si delta hv]
  simp only [List.getElem?_map, List.getElem?_drop, List.getElem?_zipIdx, Option.map_map]
  cases (st.stream si).segments[(if delta = true then skipCount (st.stream si) else 0) + j]? <;> simp

theorem ll_segments_length (st : State) (si : Nat) (delta : Bool) (hv : st.cfg.variant = .ll) :
    (mediaPlaylist st si delta).segments.length =
      (st.stream si).segments.length - (if delta then skipCount (st.stream si) else 0) := by
  rw [mediaPlaylist_ll st si delta hv]
  simp

end Hls.Muxer
