import Hls.Muxer.TimeCut
/-!
# `pendingParamsChange` (helper file for C02)

The flag is set when a video unit carries parameter sets that differ from the stored ones, it is handed on as
`paramsChanged` by — and only by — the next random-access unit, which clears it.  Nothing else touches it.
-/
namespace Hls.Muxer
open Hls.Gen

/-- the unit carries parameter sets that differ from the ones stored in the codec -/
def paramsDiffer (st : State) (ti par : Nat) : Bool := decide (par ≠ 0 ∧ par ≠ (st.track ti).params)

theorem paramsAbsorb_pending (st : State) (ti par : Nat) :
    (paramsAbsorb st ti par).pending = (st.pending || paramsDiffer st ti par) := by
  unfold paramsAbsorb paramsDiffer
  split
  · rename_i h; simp [h]
  · rename_i h; simp [h]

theorem paramsAbsorb_params (st : State) (ti par : Nat) (hl : ti < st.tracks.length) :
    ((paramsAbsorb st ti par).track ti).params = if paramsDiffer st ti par then par else (st.track ti).params := by
  unfold paramsAbsorb paramsDiffer
  split
  · rename_i h
    rw [if_pos (decide_eq_true h)]
    have e : ∀ (x : State), ({ x with pending := true } : State).track ti = x.track ti := fun _ => rfl
    rw [e, track_setTrack]; simp [hl]
  · rename_i h; rw [if_neg (by simpa using h)]

theorem paramsStep_snd (st : State) (ti par : Nat) (ra : Bool) :
    (paramsStep st ti par ra).2 = (ra && (st.pending || paramsDiffer st ti par)) := by
  rw [paramsStep_eq, ← paramsAbsorb_pending]
  split
  · rename_i h; rw [h]
  · rename_i h; simp only [Bool.not_eq_true] at h; rw [h]

theorem paramsStep_pending (st : State) (ti par : Nat) (ra : Bool) :
    (paramsStep st ti par ra).1.pending = ((st.pending || paramsDiffer st ti par) && !ra) := by
  rw [paramsStep_eq, ← paramsAbsorb_pending]
  split
  · rename_i h
    simp only [Bool.and_eq_true] at h
    simp [h.1]
  · rename_i h
    show (paramsAbsorb st ti par).pending = _
    cases hr : ra with
    | false => simp
    | true =>
      rw [hr] at h
      simp only [Bool.true_and, Bool.not_eq_true] at h
      simp [h]

theorem paramsStep_params (st : State) (ti par : Nat) (ra : Bool) (tj : Nat) :
    ((paramsStep st ti par ra).1.track tj).params = ((paramsAbsorb st ti par).track tj).params := by
  rw [paramsStep_eq]; split <;> rfl

/-! ## nothing below the front ends touches the flag -/

theorem pws_pending {st st' : State} (ti : Nat) (smp : Sample) (r : WriteRes)
    (hw : partWriteSample st ti smp = (st', r)) : st'.pending = st.pending := by
  cases r with
  | err => rw [pws_err st ti smp st' hw]
  | ok => obtain ⟨_, e, _⟩ := pws_ok st ti smp st' hw; rw [e]; rfl

theorem tsw_pending {st st' : State} (u size e c) (r : WriteRes)
    (hw : tsWrite st u size e c = (st', r)) : st'.pending = st.pending := by
  cases r with
  | err => rw [tsw_err st u size e c st' hw]
  | ok => obtain ⟨e', _⟩ := tsw_ok st u size e c st' hw; rw [e']; rfl

theorem fmp4Write_pending {st : State} {L : Nat} (hg : GI st L) (ti : Nat) (ra ch : Bool) (smp : Sample) :
    (fmp4Write st ti ra ch smp).1.pending = st.pending := by
  rw [fmp4Write_eq]
  split
  · rfl
  · split
    · rfl
    · rename_i old _
      simp only
      split
      · rfl
      · have hst2 := Step_fwSt2 hg ti smp old
        have hp2 : (fwSt2 st ti smp old).pending = st.pending := by
          unfold fwSt2
          simp only
          have h1 : ∀ (b : Bool) (x : State), (if b = true then createFirstSegment x (toDur old.dts (st.tcfg ti).clockRate) old.ntp else x).pending = x.pending := by
            intro b x; split
            · exact (createFirstSegment_spec _ _ _).1.1.2.1
            · rfl
          split
          · rw [(adjust_frame _ _).2.2.2, h1]; rfl
          · rw [h1]; rfl
        cases hw : partWriteSample (fwSt2 st ti smp old) ti (fwOld st ti smp old) with
        | mk st3 r =>
          have hp3 : st3.pending = st.pending := (pws_pending ti _ r hw).trans hp2
          have hg3 : GI st3 L := (hst2.trans (Step_partWriteSample hst2.gi ti _ r hw)).gi
          cases r with
          | err => exact hp3
          | ok =>
            simp only
            split
            · exact hp3
            · unfold fwTail
              split
              · unfold fwRotate
                obtain ⟨_, hf, _⟩ := GI_rotateSegments hg3 (toDur (fwSmp st ti smp).dts (st.tcfg ti).clockRate) (fwSmp st ti smp).ntp ch
                cases ch <;> exact hf.1.2.1.trans hp3
              · split
                · rename_i h2
                  obtain ⟨_, hf, _⟩ := GI_rotateParts hg3 (by rw [h2.1]; decide) (toDur (fwSmp st ti smp).dts (st.tcfg ti).clockRate)
                  exact hf.1.2.1.trans hp3
                · exact hp3

theorem fmp4WriteMany_pending {L : Nat} (ti : Nat) : ∀ (l : List Sample) {st : State}, GI st L →
    (fmp4WriteMany st ti l).1.pending = st.pending := by
  intro l
  induction l with
  | nil => intro st _; rfl
  | cons x r ih =>
    intro st hg
    have h1 := fmp4Write_pending hg ti true false x
    have hs := Step_fmp4Write hg ti true false x
    unfold fmp4WriteMany
    cases hw : fmp4Write st ti true false x with
    | mk st' res =>
      rw [hw] at h1 hs
      cases res with
      | err => exact h1
      | ok => exact (ih hs.gi).trans h1

theorem tsPre_pending {st : State} {L : Nat} (hg : GI st L) (st' : State)
    (h : st' = st ∨ (∃ d n, st' = createFirstSegment st d n) ∨ ∃ d n f, st' = rotateSegments st d n f) :
    st'.pending = st.pending := by
  rcases h with h | ⟨d, n, h⟩ | ⟨d, n, f, h⟩
  · rw [h]
  · rw [h]; exact (createFirstSegment_spec _ _ _).1.1.2.1
  · rw [h]; obtain ⟨_, hf, _⟩ := GI_rotateSegments hg d n f; exact hf.1.2.1

theorem tsVideoPre_pending {st : State} {L : Nat} (hg : GI st L) (op : WriteOp) (ch : Bool) (nd : Int) :
    (tsVideoPre st op ch nd).pending = st.pending := by
  apply tsPre_pending hg
  unfold tsVideoPre
  split
  · exact Or.inr (Or.inl ⟨_, _, rfl⟩)
  · split
    · exact Or.inr (Or.inr ⟨_, _, _, rfl⟩)
    · exact Or.inl rfl

theorem tsAudioPre_pending {st : State} {L : Nat} (hg : GI st L) (op : WriteOp) (nd : Int) :
    (tsAudioPre st op nd).pending = st.pending := by
  apply tsPre_pending hg
  unfold tsAudioPre
  split
  · split
    · exact Or.inr (Or.inl ⟨_, _, rfl⟩)
    · split
      · exact Or.inr (Or.inr ⟨_, _, _, rfl⟩)
      · exact Or.inl rfl
  · exact Or.inl rfl

theorem wVidGate_pending {st : State} {L : Nat} (hg : GI st L) (op : WriteOp) (ch : Bool) (smp : Sample) :
    (wVidGate st op ch smp).1.pending = st.pending := by
  unfold wVidGate
  simp only
  split
  · rfl
  · have hg2 : GI (st.setTrack op.track { st.track op.track with firstRA := true }) L := GI_congr hg rfl rfl
    exact fmp4Write_pending hg2 _ _ _ _

theorem wH264Gate_pending {st0 st : State} {L : Nat} (hg : GI st L) (op : WriteOp) (ch : Bool) :
    (wH264Gate st0 st op ch).1.pending = st.pending := by
  rcases wH264Gate_cases st0 st op ch with ⟨_, e⟩ | ⟨_, e⟩ | ⟨_, _, _, e⟩
  · rw [e]
  · rw [e]; rfl
  · rw [e]
    have hg2 : GI ((st.setTrack op.track (h264T1 (st.track op.track) op)).setTrack op.track (h264T2 (st.track op.track) op)) L :=
      GI_congr hg rfl rfl
    unfold wH264Emit
    split
    · simp only
      cases hw : tsWrite (tsVideoPre ((st.setTrack op.track (h264T1 (st.track op.track) op)).setTrack op.track (h264T2 (st.track op.track) op)) op ch (toDur op.dts (st0.tcfg op.track).clockRate))
          (h264Unit st0 op) (op.sizes.headD 0) (some (toDur op.dts (st0.tcfg op.track).clockRate)) false with
      | mk st' r =>
        exact (tsw_pending _ _ _ _ r hw).trans (tsVideoPre_pending hg2 op ch _)
    · exact fmp4Write_pending hg2 _ _ _ _

/-- **the flag after one `write`** — video codecs: set by differing parameter sets, cleared exactly when the unit is
random access; audio codecs: untouched. -/
theorem write_pending {st : State} {L : Nat} (hg : GI st L) (op : WriteOp) :
    (write st op).1.pending =
      if (st.tcfg op.track).codec.isVideo then ((st.pending || paramsDiffer st op.track op.par) && !op.ra)
      else st.pending := by
  have hp := paramsStep_pending st op.track op.par op.ra
  have hgp : GI (paramsStep st op.track op.par op.ra).1 L := (Step_paramsStep hg _ _ _).gi
  rw [write_eq]
  cases hcd : (st.tcfg op.track).codec with
  | h264 =>
    simp only [Codec.isVideo, if_true]
    unfold wH264
    split
    · rename_i h
      rw [h264Absorb_eq, paramsAbsorb_pending]
      simp only [Bool.and_eq_true, Bool.not_eq_true'] at h
      simp [h.1]
    · rw [wH264Gate_pending hgp]; exact hp
  | h265 => simp only [Codec.isVideo, if_true]; rw [wVidGate_pending hgp]; exact hp
  | vp9 => simp only [Codec.isVideo, if_true]; rw [wVidGate_pending hgp]; exact hp
  | av1 => simp only [Codec.isVideo, if_true]; rw [wVidGate_pending hgp]; exact hp
  | opus => simp only [Codec.isVideo, Bool.false_eq_true, if_false]; exact fmp4WriteMany_pending _ _ hg
  | aac =>
    simp only [Codec.isVideo, Bool.false_eq_true, if_false]
    unfold wAac
    simp only
    split
    · split
      · rfl
      · cases hw : tsWrite (tsAudioPre st op (toDur op.pts (st.tcfg op.track).clockRate)) (aacUnit st op) (sumSizes op.sizes)
            (if st.isLeadingTrack op.track = true then some (toDur op.pts (st.tcfg op.track).clockRate) else none)
            (st.isLeadingTrack op.track) with
        | mk st' r => exact (tsw_pending _ _ _ _ r hw).trans (tsAudioPre_pending hg op _)
    · exact fmp4WriteMany_pending _ _ hg

end Hls.Muxer
